(* Properties_C07.v — statements only.  C07: a JSON array (arraylist.c, as driven by the
   json_object_array_* functions) behaves as a sequence with null gaps under any
   operation history.  [al_abs a : list (option Z)] is the plain list the array denotes;
   [None] is NULL; allocator behaviour [al] is universally quantified everywhere. *)
From JC Require Import Base AlModel AlProofs.
From Coq Require Import Sorting.Sorted Sorting.Permutation.
Local Open Scope Z_scope.

(* creation with any initial capacity (0 included) yields the empty sequence and the
   invariant: |slots| = size, 0 <= length <= size, size * sizeof(void * ) fits, the first
   [length] slots determinate *)
Theorem C07_new_refine : forall al n,
  match al_new2 al n with
  | NOk a => Inv a /\ al_abs a = [] /\ asize a = n /\ alen a = 0 /\ 0 <= n < SIZE_MAX / PTR
  | NFail => True
  | NUB => False
  end.
Proof. exact new2_spec. Qed.
Print Assumptions C07_new_refine.

(* reads: the element of the list, NULL past the end (any index up to SIZE_MAX) *)
Theorem C07_get_refine : forall a i, Inv a -> 0 <= i -> al_get a i = GOk (sget (al_abs a) i).
Proof. exact get_spec. Qed.
Print Assumptions C07_get_refine.

Theorem C07_get_past_end_null : forall (l : spec) i, zlen l <= i -> sget l i = None.
Proof. exact sget_past_end. Qed.
Print Assumptions C07_get_past_end_null.

Theorem C07_length_refine : forall a, Inv a -> al_length a = zlen (al_abs a).
Proof. exact length_spec. Qed.
Print Assumptions C07_length_refine.

Theorem C07_add_refine : forall al a d,
  Inv a ->
  match al_add al a d with
  | AOk a' r rel ws =>
      Inv a' /\ al_abs a' = al_abs a ++ [d] /\ rel = [] /\ r = 0 /\ Forall (wr_ok (asize a')) ws /\
      alen a + 1 <= SIZE_MAX / PTR
  | AFail a' => a' = a
  | AUB => False
  end.
Proof. exact add_spec. Qed.
Print Assumptions C07_add_refine.

(* put: overwrite (releasing exactly the overwritten non-NULL element) or extend with NULLs *)
Theorem C07_put_refine : forall al a idx d,
  Inv a -> 0 <= idx <= SIZE_MAX ->
  match al_put al a idx d with
  | AOk a' r rel ws =>
      Inv a' /\ al_abs a' = sput (al_abs a) idx d /\ rel = sput_rel (al_abs a) idx /\ r = 0 /\
      Forall (wr_ok (asize a')) ws /\ idx + 1 <= SIZE_MAX / PTR
  | AFail a' => a' = a
  | AUB => False
  end.
Proof. exact put_spec. Qed.
Print Assumptions C07_put_refine.

(* insert: shift inside, behave as put at or beyond the end; releases nothing when shifting *)
Theorem C07_insert_refine : forall al a idx d,
  Inv a -> 0 <= idx <= SIZE_MAX ->
  match al_insert al a idx d with
  | AOk a' r rel ws =>
      Inv a' /\ al_abs a' = sinsert (al_abs a) idx d /\
      rel = (if idx >=? zlen (al_abs a) then sput_rel (al_abs a) idx else []) /\ r = 0 /\
      Forall (wr_ok (asize a')) ws /\ Z.max idx (alen a) + 1 <= SIZE_MAX / PTR
  | AFail a' => a' = a
  | AUB => False
  end.
Proof. exact insert_spec. Qed.
Print Assumptions C07_insert_refine.

(* delete-range: succeeds exactly on idx < length /\ idx + count <= length, releases exactly
   the non-NULL elements of the range, never reallocates *)
Theorem C07_del_refine : forall a idx count,
  Inv a -> 0 <= idx <= SIZE_MAX -> 0 <= count <= SIZE_MAX ->
  match al_del a idx count with
  | AOk a' r rel ws =>
      Inv a' /\ al_abs a' = sdel (al_abs a) idx count /\ rel = sdel_rel (al_abs a) idx count /\ r = 0 /\
      Forall (wr_ok (asize a')) ws /\ idx < alen a /\ idx + count <= alen a /\ asize a' = asize a
  | AFail a' => a' = a /\ (alen a <= idx \/ alen a < idx + count)
  | AUB => False
  end.
Proof. exact del_spec. Qed.
Print Assumptions C07_del_refine.

Theorem C07_shrink_refine : forall al a n,
  Inv a -> 0 <= n <= SIZE_MAX ->
  match al_shrink al a n with
  | AOk a' r rel ws =>
      Inv a' /\ al_abs a' = al_abs a /\ rel = [] /\ r = 0 /\ ws = [] /\ n < SIZE_MAX / PTR - alen a
  | AFail a' => a' = a
  | AUB => False
  end.
Proof. exact shrink_spec. Qed.
Print Assumptions C07_shrink_refine.

(* every operation, under every allocator behaviour: invariant kept, contents and released
   elements equal those of the list model, writes inside the capacity, no undefined behaviour
   (no out-of-bounds slot access, no size_t wrap, no indeterminate pointer used), failure
   leaves the array exactly as it was *)
Theorem C07_step_refines : forall al a o,
  Inv a -> op_wf o ->
  match al_step al a o with
  | AOk a' r rel ws =>
      Inv a' /\ al_abs a' = fst (spec_step (al_abs a) o) /\ rel = snd (spec_step (al_abs a) o) /\
      r = spec_ret (al_abs a) o /\
      Forall (wr_ok (asize a')) ws /\ spec_ok (al_abs a) o = true
  | AFail a' => a' = a
  | AUB => False
  end.
Proof. exact step_spec. Qed.
Print Assumptions C07_step_refines.

Theorem C07_oob_fails_unchanged : forall al a o,
  Inv a -> op_wf o -> spec_ok (al_abs a) o = false -> al_step al a o = AFail a.
Proof. exact oob_fails_unchanged. Qed.
Print Assumptions C07_oob_fails_unchanged.

Theorem C07_writes_in_capacity : forall al a o a' r rel ws,
  Inv a -> op_wf o -> al_step al a o = AOk a' r rel ws ->
  Forall (wr_ok (asize a')) ws /\ zlen (slots a') = asize a'.
Proof. exact writes_in_capacity. Qed.
Print Assumptions C07_writes_in_capacity.

Theorem C07_released_exactly : forall al a o a' r rel ws,
  Inv a -> op_wf o -> al_step al a o = AOk a' r rel ws -> rel = snd (spec_step (al_abs a) o).
Proof. exact released_exactly. Qed.
Print Assumptions C07_released_exactly.

(* refusals are not spurious: in-range arguments are served when the allocator cooperates *)
Theorem C07_fitting_request_served : forall a o,
  Inv a -> op_wf o -> spec_ok (al_abs a) o = true -> asize a * 2 <= SIZE_MAX / PTR ->
  exists a' r rel ws, al_step (fun _ => true) a o = AOk a' r rel ws.
Proof. exact fitting_request_served. Qed.
Print Assumptions C07_fitting_request_served.

(* for all operation sequences *)
Theorem C07_history_refines : forall al ops a,
  Inv a -> Forall op_wf ops ->
  exists q oks rs, al_run al a ops = Some (q, oks, rs) /\ Inv q /\
                   (al_abs q, rs) = spec_run (al_abs a) ops oks /\ length oks = length ops /\
                   accepted_in_range (al_abs a) ops oks.
Proof. exact run_refines. Qed.
Print Assumptions C07_history_refines.

(* … from creation with any initial capacity to destruction *)
Theorem C07_lifecycle_refines : forall al n ops a0,
  al_new2 al n = NOk a0 -> Forall op_wf ops ->
  exists q oks rs, al_run al a0 ops = Some (q, oks, rs) /\ Inv q /\
                   (al_abs q, rs) = spec_run [] ops oks /\ length oks = length ops /\
                   accepted_in_range [] ops oks /\
                   al_free q = Some (nonnull (al_abs q)) /\
                   (forall i, 0 <= i -> al_get q i = GOk (sget (al_abs q) i)) /\
                   al_length q = zlen (al_abs q).
Proof. exact lifecycle_refines. Qed.
Print Assumptions C07_lifecycle_refines.

(* every non-NULL element handed over by an accepted operation is released exactly once,
   during the history or by array_list_free (elements are named by their value, so this is
   stated for histories without in-place value changes) *)
Theorem C07_released_once : forall al n ops a0,
  al_new2 al n = NOk a0 -> Forall op_wf ops -> Forall no_setval ops ->
  exists q oks rs fr, al_run al a0 ops = Some (q, oks, rs) /\ al_free q = Some fr /\
                      Permutation (given_run ops oks) (rs ++ fr).
Proof. exact released_once. Qed.
Print Assumptions C07_released_once.

(* sorting: a permutation, ordered by the comparator; and that result is the only one *)
Theorem C07_sort_perm_sorted : forall c (l : list elt),
  Permutation l (sort_by c l) /\ StronglySorted (le_by c) (sort_by c l).
Proof. exact sort_perm_sorted. Qed.
Print Assumptions C07_sort_perm_sorted.

Theorem C07_sorted_perm_unique : forall c (l1 l2 : list elt),
  Permutation l1 l2 -> StronglySorted (le_by c) l1 -> StronglySorted (le_by c) l2 -> l1 = l2.
Proof. exact sorted_perm_unique. Qed.
Print Assumptions C07_sorted_perm_unique.

(* binary search on a sorted array finds the key iff it is an element *)
Theorem C07_bsearch_iff : forall c a k,
  Inv a ->
  exists b, al_bsearch c a k = Some b /\
            (StronglySorted (le_by c) (al_abs a) -> (b = true <-> In k (al_abs a))).
Proof. exact bsearch_spec. Qed.
Print Assumptions C07_bsearch_iff.

Theorem C07_sort_then_bsearch : forall c a k a' r rel ws,
  Inv a -> al_sort c a = AOk a' r rel ws ->
  exists b, al_bsearch c a' k = Some b /\ (b = true <-> In k (al_abs a)).
Proof. exact sort_then_bsearch. Qed.
Print Assumptions C07_sort_then_bsearch.

(* ---- the comparator contract of bsearch: (key, member), two-sorted ---- *)

(* The search comparator is cmp : K -> elt -> comparison for an ARBITRARY key type K: its first
   argument is the key, its second an array member.  For every such comparator and every member
   order [le] compatible with it: what is returned is a member the comparator calls equal to the
   key (sorted array or not), and on an array ordered by [le] NULL is returned only if no member
   compares equal. *)
Theorem C07_bsearch_two_sorted : forall (K : Type) (cmp : K -> elt -> comparison) (le : elt -> elt -> Prop),
  (forall k x y, cmp k x = Lt -> le x y -> cmp k y = Lt) ->
  (forall k x y, cmp k x = Gt -> le y x -> cmp k y = Gt) ->
  forall a k,
  Inv a ->
  exists r, al_bsearch_km cmp a k = Some r /\
            (forall x, r = Some x -> In x (al_abs a) /\ cmp k x = Eq) /\
            (StronglySorted le (al_abs a) -> r = None -> forall y, In y (al_abs a) -> cmp k y <> Eq).
Proof. exact @bsearch_km_spec. Qed.
Print Assumptions C07_bsearch_two_sorted.

(* the key-vs-member comparators of the drivers are compatible with the orders sorted by *)
Theorem C07_cmp_km_compatible : forall c (k : key) x y,
  (cmp_km c k x = Lt -> le_by c x y -> cmp_km c k y = Lt) /\
  (cmp_km c k x = Gt -> le_by c y x -> cmp_km c k y = Gt).
Proof. intros c k x y. split; [apply cmpby_compat_lt|apply cmpby_compat_gt]. Qed.
Print Assumptions C07_cmp_km_compatible.

(* heterogeneous search, key = a bare id: the member found has the key's id; NULL iff absent *)
Theorem C07_bsearch_int_key : forall c a (k : key),
  Inv a ->
  exists r, al_bsearch_km (cmp_km c) a k = Some r /\
            (forall x, r = Some x -> x = Some k /\ In (Some k) (al_abs a)) /\
            (StronglySorted (le_by c) (al_abs a) -> (r = None <-> ~ In (Some k) (al_abs a))).
Proof. exact bsearch_int_key_spec. Qed.
Print Assumptions C07_bsearch_int_key.

Theorem C07_sort_then_bsearch_int_key : forall c a (k : key) a' r rel ws,
  Inv a -> al_sort c a = AOk a' r rel ws ->
  exists res, al_bsearch_km (cmp_km c) a' k = Some res /\
              (forall x, res = Some x -> x = Some k) /\ (res = None <-> ~ In (Some k) (al_abs a)).
Proof. exact sort_then_bsearch_int_key. Qed.
Print Assumptions C07_sort_then_bsearch_int_key.

Theorem C07_sort_after_any_history_int_key : forall al n ops a0 c (k : key),
  al_new2 al n = NOk a0 -> Forall op_wf ops ->
  exists q oks rs q' ws res,
    al_run al a0 ops = Some (q, oks, rs) /\ al_sort c q = AOk q' 0 [] ws /\
    al_bsearch_km (cmp_km c) q' k = Some res /\
    (forall x, res = Some x -> x = Some k) /\ (res = None <-> ~ In (Some k) (al_abs q)).
Proof. exact sort_after_any_history_int_key. Qed.
Print Assumptions C07_sort_after_any_history_int_key.

(* ---- sort / search after ANY history: sorting has no hidden state ---- *)

(* an element's value changed in place (json_object_set_int64 on an element and the like) is a
   point update of the list; the array itself is not involved *)
Theorem C07_setval_refine : forall a i v,
  Inv a -> 0 <= i ->
  match al_setval a i v with
  | AOk a' r rel ws =>
      Inv a' /\ al_abs a' = ssetval (al_abs a) i v /\ rel = [] /\
      r = (match sget (al_abs a) i with Some _ => 1 | None => 0 end) /\ ws = [] /\
      asize a' = asize a /\ alen a' = alen a
  | AFail _ => False
  | AUB => False
  end.
Proof. exact setval_spec. Qed.
Print Assumptions C07_setval_refine.

(* in every state the invariant allows (whatever was sorted, searched, stored or changed
   before) a sort by comparator c yields a permutation of the CURRENT contents ordered by c *)
Theorem C07_sort_any_state : forall c a,
  Inv a ->
  exists a' rel ws, al_sort c a = AOk a' 0 rel ws /\ Inv a' /\ rel = [] /\
                    Permutation (al_abs a) (al_abs a') /\ StronglySorted (le_by c) (al_abs a') /\
                    alen a' = alen a /\ asize a' = asize a.
Proof. exact sort_any_state. Qed.
Print Assumptions C07_sort_any_state.

(* the result is a function of the current contents and the comparator alone *)
Theorem C07_sort_depends_only_on_contents : forall c a1 a2 a1' a2' r1 r2 rel1 rel2 ws1 ws2,
  Inv a1 -> Inv a2 -> al_abs a1 = al_abs a2 ->
  al_sort c a1 = AOk a1' r1 rel1 ws1 -> al_sort c a2 = AOk a2' r2 rel2 ws2 ->
  al_abs a1' = al_abs a2'.
Proof. exact sort_depends_only_on_contents. Qed.
Print Assumptions C07_sort_depends_only_on_contents.

(* sorting twice: the second sort is the identity exactly because the contents are ordered, not
   because a sort happened before *)
Theorem C07_sort_sorted_id : forall c a a' r rel ws,
  Inv a -> StronglySorted (le_by c) (al_abs a) -> al_sort c a = AOk a' r rel ws -> al_abs a' = al_abs a.
Proof. exact sort_sorted_id. Qed.
Print Assumptions C07_sort_sorted_id.

(* for all histories (all mutators, earlier sorts by either comparator, in-place value changes,
   all allocator behaviours, all initial capacities): sort, then search *)
Theorem C07_sort_after_any_history : forall al n ops a0 c k,
  al_new2 al n = NOk a0 -> Forall op_wf ops ->
  exists q oks rs q' ws b,
    al_run al a0 ops = Some (q, oks, rs) /\ al_sort c q = AOk q' 0 [] ws /\
    Permutation (al_abs q) (al_abs q') /\ StronglySorted (le_by c) (al_abs q') /\
    al_bsearch c q' k = Some b /\ (b = true <-> In k (al_abs q)).
Proof. exact sort_after_any_history. Qed.
Print Assumptions C07_sort_after_any_history.

(* non-vacuity: a concrete history from capacity 0 with growth, a gap, a shift, a range delete,
   two refused operations, a sort, a shrink, searches and the final release *)
Theorem C07_nonvacuous :
  exists a0 q oks rs,
    al_new2 (fun _ => true) 0 = NOk a0 /\
    al_run (fun _ => true) a0
      [OAdd (Some 5); OAdd (Some 3); OPut 4 (Some 9); OInsert 1 (Some 7); OPut 0 (Some 6);
       ODel 2 2; ODel 9 1; OSort Asc; OShrink 0; OPut SIZE_MAX (Some 1)] = Some (q, oks, rs) /\
    al_abs q = [None; Some 6; Some 7; Some 9] /\ rs = [5; 3] /\ asize q = 4 /\
    oks = [true; true; true; true; true; true; false; true; true; false] /\
    al_bsearch Asc q (Some 7) = Some true /\ al_bsearch Asc q (Some 8) = Some false /\
    al_get q 4 = GOk None /\ al_free q = Some [6; 7; 9].
Proof. exact run_nontrivial. Qed.
Print Assumptions C07_nonvacuous.

(* non-vacuity of the re-sort theorems: sort, change two values in place, sort again by the
   same comparator (twice), then by the other one *)
Theorem C07_resort_nonvacuous :
  exists q oks rs,
    al_run (fun _ => true) (mkal [] 0 0)
      [OAdd (Some 5); OAdd (Some 1); OAdd None; OAdd (Some 3); OSort Asc; OSetVal 1 9; OSetVal 0 4;
       OSort Asc; OSort Asc; OSort Desc] = Some (q, oks, rs) /\
    al_abs q = [Some 9; Some 5; Some 3; None] /\
    al_bsearch Desc q (Some 9) = Some true /\ al_bsearch Desc q (Some 1) = Some false.
Proof. exact resort_nontrivial. Qed.
Print Assumptions C07_resort_nonvacuous.

(* non-vacuity of the two-sorted search: a bare id searched among members with a NULL gap and a
   duplicate; the last line shows that the roles / the order matter (the other comparator on the
   same array misses a present id) *)
Theorem C07_int_key_search_nonvacuous :
  exists q oks rs,
    al_run (fun _ => true) (mkal [] 0 0)
      [OAdd (Some 40); OAdd (Some 7); OAdd None; OAdd (Some 19); OAdd (Some 7); OSort Asc] = Some (q, oks, rs) /\
    al_abs q = [None; Some 7; Some 7; Some 19; Some 40] /\
    al_bsearch_km (cmp_km Asc) q 19 = Some (Some (Some 19)) /\
    al_bsearch_km (cmp_km Asc) q 7 = Some (Some (Some 7)) /\
    al_bsearch_km (cmp_km Asc) q 20 = Some None /\
    al_bsearch_km (cmp_km Desc) q 40 = Some None.
Proof. exact int_key_search_nontrivial. Qed.
Print Assumptions C07_int_key_search_nonvacuous.
