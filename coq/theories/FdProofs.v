(* FdProofs.v — proofs about FdModel (C20).  Everything is by induction on the transfer
   schedule; no bound on the length of the data or of the schedule. *)
From JC Require Import Base BaseLemmas Value FdModel.
Local Open Scope Z_scope.

(* ------------------------------------------------------------------ specification side *)

(* the depth the tokener is created with *)
Definition eff_depth (in_depth : Z) : Z :=
  if in_depth =? -1 then JSON_TOKENER_DEFAULT_DEPTH else in_depth.

(* the pointer json_tokener_parse_ex returns *)
Definition ptr_of (r : option jv) : jv := match r with Some v => v | None => JNull end.

Definition msg_of_ptr (p : jv) : rmsg := match p with JNull => MParse | _ => MNone end.

(* "parsing the same bytes from memory with the configured depth": the two-step parse2 (one call
   on the bytes; when that answers continue without a value, one more on the terminating NUL) *)
Definition memory_result (parse : tokener) (in_depth : Z) (data : list byte)
                         (reads : Z) : rout :=
  let '(r, ncalls) := parse2 parse (eff_depth in_depth) data in
  let p := ptr_of r in
  mkrout p (msg_of_ptr p) reads (Some (eff_depth in_depth, data, ncalls)) 0.

Definition always (app_ok : Z -> Z -> bool) : Prop := forall l n, app_ok l n = true.

(* ------------------------------------------------------------------ list facts *)

Lemma firstn_plus {A} (a b : nat) (l : list A) :
  firstn (a + b) l = firstn a l ++ firstn b (skipn a l).
Proof.
  revert l. induction a as [|a IH]; intros l; [reflexivity|].
  destruct l as [|x l]; cbn [Nat.add firstn skipn app].
  - now rewrite firstn_nil.
  - now rewrite IH.
Qed.

Lemma zfirstn_extend {A} (a b : Z) (l : list A) :
  0 <= a -> 0 <= b -> zfirstn a l ++ zfirstn b (zskipn a l) = zfirstn (a + b) l.
Proof.
  intros Ha Hb. unfold zfirstn, zskipn.
  rewrite Z2Nat.inj_add by lia. symmetry. apply firstn_plus.
Qed.

Lemma skipn_plus {A} (a b : nat) (l : list A) : skipn b (skipn a l) = skipn (a + b) l.
Proof.
  revert l. induction a as [|a IH]; intros l; [reflexivity|].
  destruct l as [|x l]; cbn [Nat.add skipn]; [now destruct b|apply IH].
Qed.

Lemma zskipn_zskipn {A} (a b : Z) (l : list A) :
  0 <= a -> 0 <= b -> zskipn b (zskipn a l) = zskipn (a + b) l.
Proof.
  intros Ha Hb. unfold zskipn. rewrite Z2Nat.inj_add by lia. apply skipn_plus.
Qed.

Lemma zskipn_0 {A} (l : list A) : zskipn 0 l = l.
Proof. reflexivity. Qed.

(* taking m elements is taking as many as one got *)
Lemma zfirstn_zlen_self {A} (m : Z) (l : list A) : zfirstn (zlen (zfirstn m l)) l = zfirstn m l.
Proof.
  unfold zfirstn. rewrite zlen_length, Nat2Z.id, firstn_length.
  destruct (Nat.le_ge_cases (Z.to_nat m) (length l)) as [H|H].
  - now rewrite Nat.min_l.
  - rewrite Nat.min_r by exact H. now rewrite !firstn_all2.
Qed.

Lemma zfirstn_strict_prefix (p : Z) (l : list byte) :
  0 <= p < zlen l -> strict_prefix (zfirstn p l) l.
Proof.
  intros H. exists (zskipn p l). split.
  - intros E. pose proof (zlen_zskipn p l) as Z. rewrite E in Z. cbn [zlen] in Z. lia.
  - symmetry. apply zfirstn_zskipn.
Qed.

Lemma zfirstn_is_prefix (p : Z) (l : list byte) : is_prefix (zfirstn p l) l.
Proof. exists (zskipn p l). symmetry. apply zfirstn_zskipn. Qed.

Lemma zfirstn_0 {A} (l : list A) : zfirstn 0 l = [].
Proof. reflexivity. Qed.

Lemma c_str_no_nul (s : list byte) : ~ In 0 s -> c_str s = s.
Proof.
  induction s as [|b t IH]; intros H; [reflexivity|]. cbn [c_str].
  destruct (b =? 0) eqn:E.
  - exfalso. apply H. left. lia.
  - f_equal. apply IH. intros I. apply H. now right.
Qed.

Lemma c_str_prefix (s : list byte) : is_prefix (c_str s) s.
Proof.
  induction s as [|b t [q IH]]; [now exists []|]. cbn [c_str].
  destruct (b =? 0).
  - now exists (b :: t).
  - exists q. cbn. now rewrite <- IH.
Qed.

Lemma wsum_nonneg s : Forall ge1 s -> 0 <= wsum s.
Proof.
  induction 1 as [|x t Hx _ IH]; cbn [wsum]; [lia|].
  destruct x; cbn [ge1] in Hx; lia.
Qed.

Lemma rsum_nonneg s : Forall ge1 s -> 0 <= rsum s.
Proof.
  induction 1 as [|x t Hx _ IH]; cbn [rsum]; [lia|].
  destruct x; cbn [ge1] in Hx; unfold JSON_FILE_BUF_SIZE; lia.
Qed.

Lemma zlen_le_wsum s : Forall ge1 s -> zlen s <= wsum s.
Proof.
  induction 1 as [|x t Hx _ IH]; cbn [wsum zlen]; [lia|].
  destruct x; cbn [ge1] in Hx; lia.
Qed.

Lemma zlen_le_rsum s : Forall ge1 s -> zlen s <= rsum s.
Proof.
  induction 1 as [|x t Hx _ IH]; cbn [rsum zlen]; [lia|].
  destruct x; cbn [ge1] in Hx; unfold JSON_FILE_BUF_SIZE; lia.
Qed.

(* ------------------------------------------------------------------ the write loop *)

(* the loop state at file position wpos: the pointer json_str + wpos and what went out *)
Notation wl sched str wpos calls :=
  (write_loop sched (zskipn wpos str) (zlen str) wpos (zfirstn wpos str) calls).

Ltac wstep := rewrite zskipn_zskipn by lia; rewrite zfirstn_extend by lia.

(* any schedule whatsoever (zero sizes, errors, too short): success means the descriptor
   received exactly the string; every other outcome leaves a strict prefix *)
Lemma write_loop_sound : forall sched str wpos calls,
  0 <= wpos <= zlen str ->
  match wl sched str wpos calls with
  | WRet rc msg dev c =>
      (rc = 0 /\ msg = false /\ dev = str) \/
      (rc = -1 /\ msg = true /\ exists p, wpos <= p < zlen str /\ dev = zfirstn p str)
  | WSpin dev c => exists p, wpos <= p < zlen str /\ dev = zfirstn p str
  | WOutOfSchedule dev c => exists p, wpos <= p < zlen str /\ dev = zfirstn p str
  end.
Proof.
  induction sched as [|x sched IH]; intros str wpos calls H; cbn [write_loop];
    destruct (wpos <? zlen str) eqn:E.
  - exists wpos. split; [lia|reflexivity].
  - left. repeat split. apply zfirstn_all. lia.
  - destruct x as [n|e].
    + unfold os_ret. set (ret := Z.max 0 (Z.min n (zlen str - wpos))).
      destruct (ret =? 0) eqn:E0.
      * exists wpos. split; [lia|reflexivity].
      * wstep.
        specialize (IH str (wpos + ret) (calls + 1)).
        assert (Hb : 0 <= wpos + ret <= zlen str) by lia. specialize (IH Hb).
        destruct (wl sched str (wpos + ret) (calls + 1)).
        -- destruct IH as [IH|(r1 & r2 & p & Hp & Hd)]; [now left|].
           right. repeat split; trivial. exists p. split; [lia|trivial].
        -- destruct IH as (p & Hp & Hd). exists p. split; [lia|trivial].
        -- destruct IH as (p & Hp & Hd). exists p. split; [lia|trivial].
    + right. repeat split. exists wpos. split; [lia|reflexivity].
  - left. repeat split. apply zfirstn_all. lia.
Qed.

(* a prefix of the schedule that offers less than what is left is consumed entirely:
   one call per entry, each call takes exactly its n bytes *)
Lemma write_loop_prefix : forall pre rest str wpos calls,
  Forall ge1 pre -> 0 <= wpos -> wpos + wsum pre < zlen str ->
  wl (pre ++ rest) str wpos calls = wl rest str (wpos + wsum pre) (calls + zlen pre).
Proof.
  induction pre as [|x pre IH]; intros rest str wpos calls HF H0 Hs.
  - cbn [app wsum zlen]. now rewrite !Z.add_0_r.
  - inversion HF as [|? ? Hx HF']; subst. pose proof (wsum_nonneg _ HF') as Hn.
    destruct x as [n|e]; cbn [ge1] in Hx; [|contradiction].
    cbn [wsum zlen] in *. cbn [app write_loop].
    replace (wpos <? zlen str) with true by lia.
    unfold os_ret. replace (Z.max 0 (Z.min n (zlen str - wpos))) with n by lia.
    replace (n =? 0) with false by lia.
    wstep.
    rewrite IH by (trivial; lia).
    replace (wpos + n + wsum pre) with (wpos + (n + wsum pre)) by lia.
    replace (calls + 1 + zlen pre) with (calls + (1 + zlen pre)) by lia.
    reflexivity.
Qed.

(* a schedule of sizes >= 1 that offers at least what is left completes, whatever follows it *)
Lemma write_loop_enough : forall pre rest str wpos calls,
  Forall ge1 pre -> 0 <= wpos <= zlen str -> zlen str - wpos <= wsum pre ->
  exists c, wl (pre ++ rest) str wpos calls = WRet 0 false str c
            /\ calls <= c <= calls + zlen pre /\ c <= calls + (zlen str - wpos).
Proof.
  induction pre as [|x pre IH]; intros rest str wpos calls HF H0 Hs.
  - cbn [wsum] in Hs. assert (wpos = zlen str) by lia. subst wpos.
    exists calls. cbn [app]. split.
    + destruct rest; cbn [write_loop]; rewrite Z.ltb_irrefl; now rewrite zfirstn_all by lia.
    + cbn [zlen]. lia.
  - inversion HF as [|? ? Hx HF']; subst. pose proof (wsum_nonneg _ HF') as Hn.
    destruct x as [n|e]; cbn [ge1] in Hx; [|contradiction].
    cbn [wsum zlen] in *. cbn [app write_loop].
    destruct (wpos <? zlen str) eqn:E.
    + unfold os_ret. set (ret := Z.max 0 (Z.min n (zlen str - wpos))).
      replace (ret =? 0) with false by lia.
      wstep.
      destruct (IH rest str (wpos + ret) (calls + 1) HF') as (c & Hc & Hb1 & Hb2); [lia|lia|].
      exists c. split; [exact Hc|lia].
    + pose proof (zlen_nonneg pre). exists calls. split; [|lia]. now rewrite zfirstn_all by lia.
Qed.

(* every schedule of sizes >= 1: either complete and exact, or the schedule was too short *)
Lemma write_loop_ge1 : forall sched str wpos calls,
  Forall ge1 sched -> 0 <= wpos <= zlen str ->
  (exists c, wl sched str wpos calls = WRet 0 false str c) \/
  (exists p, wl sched str wpos calls = WOutOfSchedule (zfirstn p str) (calls + zlen sched)
             /\ wpos <= p < zlen str).
Proof.
  induction sched as [|x sched IH]; intros str wpos calls HF H0; cbn [write_loop];
    destruct (wpos <? zlen str) eqn:E.
  - right. exists wpos. cbn [zlen]. rewrite Z.add_0_r. split; [reflexivity|lia].
  - left. exists calls. now rewrite zfirstn_all by lia.
  - inversion HF as [|? ? Hx HF']; subst.
    destruct x as [n|e]; cbn [ge1] in Hx; [|contradiction].
    unfold os_ret. set (ret := Z.max 0 (Z.min n (zlen str - wpos))).
    replace (ret =? 0) with false by lia.
    wstep.
    destruct (IH str (wpos + ret) (calls + 1) HF') as [(c & Hc)|(p & Hp & Hb)]; [lia| |].
    + left. now exists c.
    + right. exists p. cbn [zlen]. rewrite Hp. split; [f_equal; lia|lia].
  - left. exists calls. now rewrite zfirstn_all by lia.
Qed.

(* ---- the exported write theorems, on json_object_to_fd ---- *)

Theorem write_exact : forall sched ser,
  Forall ge1 sched -> zlen (c_str ser) <= wsum sched ->
  exists calls, object_to_fd sched false (Some ser) = WRet 0 false (c_str ser) calls
                /\ calls <= zlen sched /\ calls <= zlen (c_str ser).
Proof.
  intros sched ser HF Hs. unfold object_to_fd, object_to_fd_inner.
  pose proof (zlen_nonneg (c_str ser)).
  destruct (write_loop_enough sched [] (c_str ser) 0 0 HF) as (c & Hc & Hb1 & Hb2); [lia|lia|].
  rewrite app_nil_r, zfirstn_0, zskipn_0 in Hc. exists c. split; [exact Hc|lia].
Qed.

(* the simple sufficient condition: one schedule entry per byte is always enough *)
Corollary write_exact_len : forall sched ser,
  Forall ge1 sched -> zlen (c_str ser) <= zlen sched ->
  exists calls, object_to_fd sched false (Some ser) = WRet 0 false (c_str ser) calls.
Proof.
  intros sched ser HF Hl. pose proof (zlen_le_wsum _ HF).
  destruct (write_exact sched ser HF) as (c & Hc & _); [lia|]. now exists c.
Qed.

(* the serializer emits no NUL (C02): then strlen sees all of it *)
Corollary write_exact_no_nul : forall sched ser,
  ~ In 0 ser -> Forall ge1 sched -> zlen ser <= wsum sched ->
  exists calls, object_to_fd sched false (Some ser) = WRet 0 false ser calls.
Proof.
  intros sched ser Hn HF Hs. pose proof (c_str_no_nul ser Hn) as E.
  destruct (write_exact sched ser HF) as (c & Hc & _); [rewrite E; exact Hs|].
  rewrite E in Hc. now exists c.
Qed.

Theorem write_ge1_complete_or_short : forall sched ser,
  Forall ge1 sched ->
  (exists calls, object_to_fd sched false (Some ser) = WRet 0 false (c_str ser) calls) \/
  (exists dev, object_to_fd sched false (Some ser) = WOutOfSchedule dev (zlen sched)
               /\ strict_prefix dev (c_str ser)).
Proof.
  intros sched ser HF. unfold object_to_fd, object_to_fd_inner.
  pose proof (zlen_nonneg (c_str ser)).
  destruct (write_loop_ge1 sched (c_str ser) 0 0 HF) as [(c & Hc)|(p & Hp & Hb)]; [lia| |];
    rewrite zfirstn_0, zskipn_0 in *.
  - left. now exists c.
  - right. exists (zfirstn p (c_str ser)). split; [exact Hp|]. apply zfirstn_strict_prefix. lia.
Qed.

(* an error at call k = |pre| + 1, before completion: -1, message, and the descriptor holds
   exactly the bytes of the first k-1 transfers *)
Theorem write_error : forall pre e post ser,
  Forall ge1 pre -> wsum pre < zlen (c_str ser) ->
  object_to_fd (pre ++ Err e :: post) false (Some ser) =
    WRet (-1) true (zfirstn (wsum pre) (c_str ser)) (zlen pre + 1)
  /\ strict_prefix (zfirstn (wsum pre) (c_str ser)) (c_str ser).
Proof.
  intros pre e post ser HF Hs. pose proof (wsum_nonneg _ HF).
  split; [|apply zfirstn_strict_prefix; lia].
  unfold object_to_fd, object_to_fd_inner.
  pose proof (write_loop_prefix pre (Err e :: post) (c_str ser) 0 0 HF) as P.
  rewrite zfirstn_0, zskipn_0 in P. rewrite P by lia.
  cbn [write_loop Z.add]. replace (wsum pre <? zlen (c_str ser)) with true by lia.
  reflexivity.
Qed.

(* an error scheduled after the last byte went out is never seen *)
Theorem write_error_after_completion : forall pre e post ser,
  Forall ge1 pre -> zlen (c_str ser) <= wsum pre ->
  exists calls, object_to_fd (pre ++ Err e :: post) false (Some ser) = WRet 0 false (c_str ser) calls
                /\ calls <= zlen pre.
Proof.
  intros pre e post ser HF Hs. unfold object_to_fd, object_to_fd_inner.
  pose proof (zlen_nonneg (c_str ser)).
  destruct (write_loop_enough pre (Err e :: post) (c_str ser) 0 0 HF) as (c & Hc & Hb1 & Hb2); [lia|lia|].
  rewrite zfirstn_0, zskipn_0 in Hc. exists c. split; [exact Hc|lia].
Qed.

(* whatever the schedule: rc = 0 only with exactly the string delivered; otherwise a strict prefix *)
Theorem write_sound_any_schedule : forall sched ser,
  match object_to_fd sched false (Some ser) with
  | WRet rc msg dev _ =>
      (rc = 0 /\ msg = false /\ dev = c_str ser) \/
      (rc = -1 /\ msg = true /\ strict_prefix dev (c_str ser))
  | WSpin dev _ => strict_prefix dev (c_str ser)
  | WOutOfSchedule dev _ => strict_prefix dev (c_str ser)
  end.
Proof.
  intros sched ser. unfold object_to_fd, object_to_fd_inner.
  pose proof (zlen_nonneg (c_str ser)).
  pose proof (write_loop_sound sched (c_str ser) 0 0) as S. rewrite zfirstn_0, zskipn_0 in S.
  destruct (write_loop sched (c_str ser) (zlen (c_str ser)) 0 [] 0).
  - destruct S as [S|(r1 & r2 & p & Hp & Hd)]; [lia|now left|].
    right. repeat split; trivial. subst dev. apply zfirstn_strict_prefix. lia.
  - destruct S as (p & Hp & Hd); [lia|]. subst dev. apply zfirstn_strict_prefix. lia.
  - destruct S as (p & Hp & Hd); [lia|]. subst dev. apply zfirstn_strict_prefix. lia.
Qed.

(* the documented hazard: a write() that takes 0 bytes while bytes remain *)
Theorem write_zero_spins : forall pre n post ser,
  Forall ge1 pre -> wsum pre < zlen (c_str ser) -> n <= 0 ->
  object_to_fd (pre ++ Short n :: post) false (Some ser) =
    WSpin (zfirstn (wsum pre) (c_str ser)) (zlen pre + 1).
Proof.
  intros pre n post ser HF Hs Hn. pose proof (wsum_nonneg _ HF).
  unfold object_to_fd, object_to_fd_inner.
  pose proof (write_loop_prefix pre (Short n :: post) (c_str ser) 0 0 HF) as P.
  rewrite zfirstn_0, zskipn_0 in P. rewrite P by lia.
  cbn [write_loop Z.add]. replace (wsum pre <? zlen (c_str ser)) with true by lia.
  unfold os_ret. replace (Z.max 0 (Z.min n (zlen (c_str ser) - wsum pre))) with 0 by lia.
  reflexivity.
Qed.

Theorem write_null_object : forall sched ser,
  object_to_fd sched true ser = WRet (-1) true [] 0.
Proof. reflexivity. Qed.

(* json_object_to_file_ext: an unopenable file is a reported failure with nothing written and
   nothing to close; an opened file is closed exactly once on every returning path and the
   result is that of the write loop *)
Theorem to_file_open_fails : forall sched ser,
  object_to_file_ext false sched false ser = (WRet (-1) true [] 0, 1, 0).
Proof. reflexivity. Qed.

Theorem to_file_opened : forall sched ser,
  exists closes, object_to_file_ext true sched false ser = (object_to_fd sched false ser, 1, closes)
  /\ (forall rc m d c, object_to_fd sched false ser = WRet rc m d c -> closes = 1).
Proof.
  intros. unfold object_to_file_ext, object_to_fd. cbn [negb].
  eexists. split; [reflexivity|]. intros rc m d c E. now rewrite E.
Qed.

(* ------------------------------------------------------------------ the read loop *)

(* the loop state at file position rpos: what is left behind the descriptor, the print
   buffer's contents and its length *)
Notation rl app_ok sched data rpos calls :=
  (read_loop app_ok sched (zskipn rpos data) (zfirstn rpos data) rpos calls).

(* one read() at file position rpos that may copy up to m bytes *)
Lemma read_step {A} (data : list A) (rpos m : Z) :
  0 <= rpos <= zlen data ->
  exists ret, zlen (zfirstn m (zskipn rpos data)) = ret /\
              ret = Z.min (Z.max 0 m) (zlen data - rpos) /\
              zfirstn m (zskipn rpos data) = zfirstn ret (zskipn rpos data).
Proof.
  intros H. eexists. split; [reflexivity|]. split.
  - rewrite zlen_zfirstn, zlen_zskipn. lia.
  - symmetry. apply zfirstn_zlen_self.
Qed.

Ltac rstep data rpos n H ret Hret :=
  cbv zeta;
  let E1 := fresh "E1" in let E2 := fresh "E2" in
  destruct (read_step data rpos (Z.min n JSON_FILE_BUF_SIZE) H) as (ret & E1 & Hret & E2);
  rewrite E1; rewrite ?E2; clear E1 E2.

Ltac rnext := rewrite zskipn_zskipn by lia; rewrite zfirstn_extend by lia.

(* any schedule, any append oracle: the buffer is always a prefix of the data *)
Lemma read_loop_sound : forall app_ok sched data rpos calls,
  0 <= rpos <= zlen data ->
  exists p, rpos <= p <= zlen data /\
  match rl app_ok sched data rpos calls with
  | LEof pb _ | LErr pb _ | LAppendFail pb _ | LOutOfSchedule pb _ => pb = zfirstn p data
  end.
Proof.
  induction sched as [|x sched IH]; intros data rpos calls H; cbn [read_loop].
  - exists rpos. split; [lia|reflexivity].
  - destruct x as [n|e]; [|exists rpos; split; [lia|reflexivity]].
    rstep data rpos n H ret Hret.
    destruct (0 <? ret) eqn:E; [|exists rpos; split; [lia|reflexivity]].
    destruct (app_ok rpos ret); [|exists rpos; split; [lia|reflexivity]].
    rnext.
    destruct (IH data (rpos + ret) (calls + 1)) as (p & Hp & Hm); [unfold JSON_FILE_BUF_SIZE in *; lia|].
    exists p. split; [lia|exact Hm].
Qed.

(* a prefix of the schedule that offers no more than what is left is consumed entirely *)
Lemma read_loop_prefix : forall app_ok pre rest data rpos calls,
  always app_ok -> Forall ge1 pre -> 0 <= rpos -> rpos + rsum pre <= zlen data ->
  rl app_ok (pre ++ rest) data rpos calls = rl app_ok rest data (rpos + rsum pre) (calls + zlen pre).
Proof.
  intros app_ok pre rest data rpos calls HA. revert rpos calls.
  induction pre as [|x pre IH]; intros rpos calls HF H0 Hs.
  - cbn [app rsum zlen]. now rewrite !Z.add_0_r.
  - inversion HF as [|? ? Hx HF']; subst. pose proof (rsum_nonneg _ HF') as Hn.
    destruct x as [n|e]; cbn [ge1] in Hx; [|contradiction].
    cbn [rsum zlen] in *. cbn [app read_loop].
    assert (H : 0 <= rpos <= zlen data) by (unfold JSON_FILE_BUF_SIZE in *; lia).
    rstep data rpos n H ret Hret.
    assert (Hr : ret = Z.min n JSON_FILE_BUF_SIZE) by (unfold JSON_FILE_BUF_SIZE in *; lia). clear Hret. subst ret.
    replace (0 <? Z.min n JSON_FILE_BUF_SIZE) with true by (unfold JSON_FILE_BUF_SIZE; lia).
    rewrite HA. rewrite zskipn_zskipn, zfirstn_extend by (unfold JSON_FILE_BUF_SIZE; lia).
    rewrite IH by (trivial; unfold JSON_FILE_BUF_SIZE in *; lia).
    replace (rpos + Z.min n JSON_FILE_BUF_SIZE + rsum pre) with (rpos + (Z.min n JSON_FILE_BUF_SIZE + rsum pre)) by lia.
    replace (calls + 1 + zlen pre) with (calls + (1 + zlen pre)) by lia.
    reflexivity.
Qed.

(* a schedule of sizes >= 1 with more entries than bytes left reaches end of file with
   exactly the data in the buffer *)
Lemma read_loop_complete : forall app_ok sched data rpos calls,
  always app_ok -> Forall ge1 sched -> 0 <= rpos <= zlen data -> zlen data - rpos < zlen sched ->
  exists c, rl app_ok sched data rpos calls = LEof data c
            /\ calls < c <= calls + (zlen data - rpos) + 1.
Proof.
  intros app_ok sched data rpos calls HA. revert rpos calls.
  induction sched as [|x sched IH]; intros rpos calls HF H0 Hs; cbn [zlen] in Hs; [lia|].
  inversion HF as [|? ? Hx HF']; subst.
  destruct x as [n|e]; cbn [ge1] in Hx; [|contradiction].
  cbn [read_loop]. rstep data rpos n H0 ret Hret.
  destruct (0 <? ret) eqn:E.
  - rewrite HA. rnext.
    destruct (IH (rpos + ret) (calls + 1) HF') as (c & Hc & Hb);
      [unfold JSON_FILE_BUF_SIZE in *; lia|unfold JSON_FILE_BUF_SIZE in *; lia|].
    exists c. split; [exact Hc|unfold JSON_FILE_BUF_SIZE in *; lia].
  - assert (rpos = zlen data) by (unfold JSON_FILE_BUF_SIZE in *; lia). subst rpos.
    exists (calls + 1). split; [|lia]. now rewrite zfirstn_all by lia.
Qed.

(* every schedule of sizes >= 1: end of file with exactly the data, or schedule too short *)
Lemma read_loop_ge1 : forall app_ok sched data rpos calls,
  always app_ok -> Forall ge1 sched -> 0 <= rpos <= zlen data ->
  (exists c, rl app_ok sched data rpos calls = LEof data c) \/
  (exists p, rl app_ok sched data rpos calls = LOutOfSchedule (zfirstn p data) (calls + zlen sched)
             /\ rpos <= p <= zlen data).
Proof.
  intros app_ok sched data rpos calls HA. revert rpos calls.
  induction sched as [|x sched IH]; intros rpos calls HF H0; cbn [read_loop].
  - right. exists rpos. cbn [zlen]. rewrite Z.add_0_r. split; [reflexivity|lia].
  - inversion HF as [|? ? Hx HF']; subst.
    destruct x as [n|e]; cbn [ge1] in Hx; [|contradiction].
    rstep data rpos n H0 ret Hret.
    destruct (0 <? ret) eqn:E.
    + rewrite HA. rnext.
      destruct (IH (rpos + ret) (calls + 1) HF') as [(c & Hc)|(p & Hp & Hb)];
        [unfold JSON_FILE_BUF_SIZE in *; lia| |].
      * left. now exists c.
      * right. exists p. cbn [zlen]. rewrite Hp. split; [f_equal; lia|lia].
    + assert (rpos = zlen data) by (unfold JSON_FILE_BUF_SIZE in *; lia). subst rpos.
      left. exists (calls + 1). now rewrite zfirstn_all by lia.
Qed.

(* ---- the exported read theorems, on json_object_from_fd_ex ---- *)

(* reads split in any way (sizes >= 1, one entry more than bytes is always enough): the
   tokener gets exactly the data and the configured depth (parse2: one call, or two when the
   first answers continue), and the result,
   the message and the resources are those of that one in-memory parse *)
Theorem read_as_memory : forall parse app_ok sched data in_depth,
  always app_ok -> Forall ge1 sched -> zlen data < zlen sched -> 1 <= eff_depth in_depth ->
  exists reads, object_from_fd_ex parse app_ok sched data in_depth =
                  RRet (memory_result parse in_depth data reads)
                /\ 1 <= reads <= zlen data + 1.
Proof.
  intros parse app_ok sched data in_depth HA HF Hl Hd.
  unfold object_from_fd_ex. fold (eff_depth in_depth).
  replace (eff_depth in_depth <? 1) with false by lia.
  pose proof (zlen_nonneg data).
  destruct (read_loop_complete app_ok sched data 0 0 HA HF) as (c & Hc & Hb); [lia|lia|].
  rewrite zfirstn_0, zskipn_0 in Hc. rewrite Hc. exists c. split; [|lia].
  unfold memory_result, msg_of_ptr, ptr_of.
  destruct (parse2 parse (eff_depth in_depth) data) as [r n]. reflexivity.
Qed.

Theorem read_ge1_complete_or_short : forall parse app_ok sched data in_depth,
  always app_ok -> Forall ge1 sched -> 1 <= eff_depth in_depth ->
  (exists reads, object_from_fd_ex parse app_ok sched data in_depth =
                   RRet (memory_result parse in_depth data reads)) \/
  (exists pb, object_from_fd_ex parse app_ok sched data in_depth = ROutOfSchedule pb (zlen sched)
              /\ is_prefix pb data).
Proof.
  intros parse app_ok sched data in_depth HA HF Hd.
  unfold object_from_fd_ex. fold (eff_depth in_depth).
  replace (eff_depth in_depth <? 1) with false by lia.
  pose proof (zlen_nonneg data).
  destruct (read_loop_ge1 app_ok sched data 0 0 HA HF) as [(c & Hc)|(p & Hp & Hb)]; [lia| |];
    rewrite zfirstn_0, zskipn_0 in *.
  - left. exists c. rewrite Hc. unfold memory_result, msg_of_ptr, ptr_of.
    destruct (parse2 parse (eff_depth in_depth) data) as [r n]. reflexivity.
  - right. exists (zfirstn p data). rewrite Hp. split; [reflexivity|apply zfirstn_is_prefix].
Qed.

(* a tokener cannot be created with depth < 1: failure with a message before any read *)
Theorem read_bad_depth : forall parse app_ok sched data in_depth,
  eff_depth in_depth < 1 ->
  object_from_fd_ex parse app_ok sched data in_depth = RRet (mkrout JNull MTokNew 0 None 0).
Proof.
  intros. unfold object_from_fd_ex. fold (eff_depth in_depth).
  replace (eff_depth in_depth <? 1) with true by lia. reflexivity.
Qed.

(* any two complete error-free runs agree on everything but the number of calls *)
Theorem schedule_independent : forall parse app_ok s1 s2 data in_depth o1 o2,
  always app_ok -> Forall ge1 s1 -> Forall ge1 s2 ->
  object_from_fd_ex parse app_ok s1 data in_depth = RRet o1 ->
  object_from_fd_ex parse app_ok s2 data in_depth = RRet o2 ->
  r_obj o1 = r_obj o2 /\ r_msg o1 = r_msg o2 /\ r_parsed o1 = r_parsed o2 /\ r_live o1 = r_live o2.
Proof.
  intros parse app_ok s1 s2 data in_depth o1 o2 HA H1 H2 E1 E2.
  destruct (Z_lt_le_dec (eff_depth in_depth) 1) as [Hd|Hd].
  - rewrite read_bad_depth in E1, E2 by exact Hd. inversion E1; inversion E2; subst. cbn. auto.
  - destruct (read_ge1_complete_or_short parse app_ok s1 data in_depth HA H1 Hd) as [(c1 & R1)|(pb & R1 & _)];
      rewrite R1 in E1; [|discriminate].
    destruct (read_ge1_complete_or_short parse app_ok s2 data in_depth HA H2 Hd) as [(c2 & R2)|(pb & R2 & _)];
      rewrite R2 in E2; [|discriminate].
    inversion E1; inversion E2; subst. unfold memory_result.
    destruct (parse2 parse (eff_depth in_depth) data) as [r n]. cbn. auto.
Qed.

(* a read error at call k = |pre| + 1 (the data need not be exhausted: the call that would
   have reported end of file can fail too): NULL, message, parser never called, nothing live *)
Theorem read_error : forall parse app_ok pre e post data in_depth,
  always app_ok -> Forall ge1 pre -> rsum pre <= zlen data -> 1 <= eff_depth in_depth ->
  object_from_fd_ex parse app_ok (pre ++ Err e :: post) data in_depth =
    RRet (mkrout JNull MRead (zlen pre + 1) None 0).
Proof.
  intros parse app_ok pre e post data in_depth HA HF Hs Hd.
  unfold object_from_fd_ex. fold (eff_depth in_depth).
  replace (eff_depth in_depth <? 1) with false by lia.
  pose proof (read_loop_prefix app_ok pre (Err e :: post) data 0 0 HA HF) as P.
  rewrite zfirstn_0, zskipn_0 in P. rewrite P by lia.
  cbn [read_loop Z.add]. reflexivity.
Qed.

(* on every path, for every schedule, parser and append oracle: NULL comes with a message, a
   tree comes without one and from parse2 on a prefix of the data, and nothing stays allocated *)
Theorem read_failure_has_message_no_leak : forall parse app_ok sched data in_depth o,
  object_from_fd_ex parse app_ok sched data in_depth = RRet o ->
  (r_obj o = JNull <-> r_msg o <> MNone) /\
  (r_obj o <> JNull -> exists pb n, r_parsed o = Some (eff_depth in_depth, pb, n) /\
                                    parse2 parse (eff_depth in_depth) pb = (Some (r_obj o), n) /\ is_prefix pb data) /\
  r_live o = 0.
Proof.
  intros parse app_ok sched data in_depth o E.
  unfold object_from_fd_ex in E. fold (eff_depth in_depth) in E.
  destruct (eff_depth in_depth <? 1).
  - inversion E; subst; cbn. repeat split; try congruence; intros; congruence.
  - pose proof (zlen_nonneg data).
    destruct (read_loop_sound app_ok sched data 0 0) as (p & Hp & Hm); [lia|].
    rewrite zfirstn_0, zskipn_0 in Hm.
    destruct (read_loop app_ok sched data [] 0 0) as [pb c|pb c|pb c|pb c]; try discriminate.
    + subst pb.
      destruct (parse2 parse (eff_depth in_depth) (zfirstn p data)) as [[v|] n] eqn:P;
        inversion E; subst; cbn.
      * repeat split.
        -- intros ->. discriminate.
        -- destruct v; cbn; congruence.
        -- intros Hn. exists (zfirstn p data), n. repeat split; trivial. apply zfirstn_is_prefix.
      * repeat split; try congruence; intros; congruence.
    + inversion E; subst; cbn. repeat split; try congruence; intros; congruence.
    + inversion E; subst; cbn. repeat split; try congruence; intros; congruence.
Qed.

(* the append oracle refusing (allocation failure / INT_MAX, C19) is a reported failure *)
Theorem read_append_failure : forall parse app_ok sched data in_depth pb c,
  1 <= eff_depth in_depth -> read_loop app_ok sched data [] 0 0 = LAppendFail pb c ->
  object_from_fd_ex parse app_ok sched data in_depth = RRet (mkrout JNull MAppend c None 0).
Proof.
  intros parse app_ok sched data in_depth pb c Hd E.
  unfold object_from_fd_ex. fold (eff_depth in_depth).
  replace (eff_depth in_depth <? 1) with false by lia. now rewrite E.
Qed.

(* json_object_from_file *)
Theorem from_file_open_fails : forall parse app_ok sched data,
  object_from_file false parse app_ok sched data = (RRet (mkrout JNull MOpen 0 None 0), 1, 0).
Proof. reflexivity. Qed.

Theorem from_file_opened : forall parse app_ok sched data,
  always app_ok -> Forall ge1 sched -> zlen data < zlen sched ->
  exists reads, object_from_file true parse app_ok sched data =
                  (RRet (memory_result parse (-1) data reads), 1, 1).
Proof.
  intros parse app_ok sched data HA HF Hl. unfold object_from_file, object_from_fd. cbn [negb].
  destruct (read_as_memory parse app_ok sched data (-1) HA HF Hl) as (c & Hc & _); [cbv; discriminate|].
  exists c. now rewrite Hc.
Qed.

Theorem default_depth : eff_depth (-1) = 32 /\ forall d, d <> -1 -> eff_depth d = d.
Proof.
  split; [reflexivity|]. intros d H. unfold eff_depth. now replace (d =? -1) with false by lia.
Qed.

(* ------------------------------------------------------------------ files *)

Lemma bytes_eqb_eq (a b : list byte) : bytes_eqb a b = true <-> a = b.
Proof.
  revert b. induction a as [|x a IH]; intros [|y b]; cbn [bytes_eqb]; split; intros H;
    try reflexivity; try discriminate.
  - apply andb_prop in H. destruct H as [H1 H2]. apply IH in H2. f_equal; [lia|exact H2].
  - inversion H; subst. rewrite Z.eqb_refl. cbn. now apply IH.
Qed.

Lemma bytes_eqb_refl (a : list byte) : bytes_eqb a a = true.
Proof. now apply bytes_eqb_eq. Qed.

Lemma bytes_eqb_neq (a b : list byte) : a <> b -> bytes_eqb a b = false.
Proof.
  intros H. destruct (bytes_eqb a b) eqn:E; [|reflexivity]. apply bytes_eqb_eq in E. contradiction.
Qed.

Lemma fs_get_set_same fs p c : fs_get (fs_set fs p c) p = Some c.
Proof.
  induction fs as [|[q d] t IH]; cbn [fs_set fs_get].
  - now rewrite bytes_eqb_refl.
  - destruct (bytes_eqb q p) eqn:E; cbn [fs_get]; rewrite E; [reflexivity|exact IH].
Qed.

Lemma fs_get_set_other fs p c q : q <> p -> fs_get (fs_set fs p c) q = fs_get fs q.
Proof.
  intros H. induction fs as [|[k d] t IH]; cbn [fs_set fs_get].
  - rewrite bytes_eqb_neq; [reflexivity|congruence].
  - destruct (bytes_eqb k p) eqn:E; cbn [fs_get].
    + apply bytes_eqb_eq in E. subst k. rewrite bytes_eqb_neq by congruence. reflexivity.
    + destruct (bytes_eqb k q); [reflexivity|exact IH].
Qed.

Lemma fs_set_same fs p c : fs_get fs p = Some c -> fs_set fs p c = fs.
Proof.
  induction fs as [|[k d] t IH]; cbn [fs_set fs_get]; [discriminate|].
  destruct (bytes_eqb k p); intros H.
  - now inversion H.
  - now rewrite IH.
Qed.

Lemma zskipn_nil {A} n : zskipn n (@nil A) = [].
Proof. unfold zskipn. apply skipn_nil. Qed.

Lemma desc_write_empty bs : desc_write [] 0 bs = bs.
Proof. unfold desc_write. rewrite zskipn_nil. cbn. apply app_nil_r. Qed.

(* two write() calls at the advancing offset = one write of the concatenation *)
Lemma desc_write_app old off a b :
  0 <= off <= zlen old ->
  desc_write (desc_write old off a) (off + zlen a) b = desc_write old off (a ++ b).
Proof.
  intros H. unfold desc_write. pose proof (zlen_nonneg a). pose proof (zlen_nonneg b).
  assert (L : zlen (zfirstn off old) = off) by (rewrite zlen_zfirstn; lia).
  rewrite zlen_app.
  (* the first off + |a| bytes of the intermediate file *)
  rewrite (app_assoc (zfirstn off old) a).
  rewrite zfirstn_app_l by (rewrite zlen_app; lia).
  rewrite zfirstn_all by (rewrite zlen_app; lia).
  rewrite zskipn_app_r by (rewrite zlen_app; lia).
  rewrite zlen_app, L.
  rewrite zskipn_zskipn by lia.
  rewrite <- !app_assoc. do 3 f_equal. f_equal. lia.
Qed.

(* O_WRONLY | O_TRUNC | O_CREAT: whatever the path held, it is an empty writable file now *)
Lemma fs_open_to_file fs p :
  fs_open None fs p TO_FILE_FLAGS = OpenOk (fs_set fs p []) (mkdesc p 0 false true false).
Proof. unfold fs_open. destruct (fs_get fs p); reflexivity. Qed.

Lemma fs_open_from_file fs p :
  fs_open None fs p FROM_FILE_FLAGS =
  match fs_get fs p with
  | Some c => OpenOk fs (mkdesc p 0 true false false)
  | None => OpenFail ENOENT_
  end.
Proof.
  unfold fs_open. destruct (fs_get fs p) as [c|] eqn:E; [|reflexivity].
  cbn. now rewrite (fs_set_same fs p c E).
Qed.

(* the shape of every json_object_to_file_ext run that gets past open(): the result is that of
   the write loop, the file holds exactly what the descriptor received (the old contents are
   gone), every other file is untouched *)
Theorem to_file_fs_shape : forall fs p sched ser,
  exists fs' closes,
    object_to_file_fs None fs p sched false ser = (object_to_fd sched false ser, fs', 1, closes)
    /\ fs_get fs' p = Some (wout_dev (object_to_fd sched false ser))
    /\ (forall q, q <> p -> fs_get fs' q = fs_get fs q)
    /\ (forall rc m d c, object_to_fd sched false ser = WRet rc m d c -> closes = 1).
Proof.
  intros fs p sched ser. unfold object_to_file_fs, object_to_file_with.
  rewrite fs_open_to_file. cbn [d_wr]. unfold object_to_fd.
  set (r := object_to_fd_inner sched ser).
  eexists. eexists. split; [reflexivity|]. repeat split.
  - unfold fs_deliver. cbn [d_path d_app d_off]. rewrite fs_get_set_same, desc_write_empty.
    apply fs_get_set_same.
  - intros q Hq. unfold fs_deliver. cbn [d_path d_app d_off]. rewrite fs_get_set_same.
    now rewrite !fs_get_set_other by exact Hq.
  - intros rc m d c E. now rewrite E.
Qed.

(* a fresh path, an existing longer file, an existing shorter file, a second write to the same
   path — [fs] is arbitrary: after a successful run the file holds exactly the serialization *)
Theorem to_file_holds_serialization : forall fs p sched ser,
  Forall ge1 sched -> zlen (c_str ser) <= wsum sched ->
  exists calls fs',
    object_to_file_fs None fs p sched false (Some ser) = (WRet 0 false (c_str ser) calls, fs', 1, 1)
    /\ fs_get fs' p = Some (c_str ser)
    /\ (forall q, q <> p -> fs_get fs' q = fs_get fs q).
Proof.
  intros fs p sched ser HF Hs.
  destruct (write_exact sched ser HF Hs) as (calls & E & _).
  destruct (to_file_fs_shape fs p sched (Some ser)) as (fs' & closes & E1 & G & O & C).
  rewrite E in *. cbn [wout_dev] in G. exists calls, fs'.
  rewrite (C _ _ _ _ eq_refl) in E1. auto.
Qed.

(* a failing write(): -1, message, the descriptor closed, and the file holds the bytes of the
   transfers before the failing call (its previous contents were dropped at open()) *)
Theorem to_file_error : forall fs p pre e post ser,
  Forall ge1 pre -> wsum pre < zlen (c_str ser) ->
  exists fs',
    object_to_file_fs None fs p (pre ++ Err e :: post) false (Some ser) =
      (WRet (-1) true (zfirstn (wsum pre) (c_str ser)) (zlen pre + 1), fs', 1, 1)
    /\ fs_get fs' p = Some (zfirstn (wsum pre) (c_str ser))
    /\ (forall q, q <> p -> fs_get fs' q = fs_get fs q).
Proof.
  intros fs p pre e post ser HF Hs.
  destruct (write_error pre e post ser HF Hs) as (E & _).
  destruct (to_file_fs_shape fs p (pre ++ Err e :: post) (Some ser)) as (fs' & closes & E1 & G & O & C).
  rewrite E in *. cbn [wout_dev] in G. exists fs'.
  rewrite (C _ _ _ _ eq_refl) in E1. auto.
Qed.

(* open() refused: reported, nothing created, nothing changed, nothing to close *)
Theorem to_file_open_denied : forall e fs p sched ser,
  object_to_file_fs (Some e) fs p sched false ser = (WRet (-1) true [] 0, fs, 1, 0).
Proof. reflexivity. Qed.

(* the O_TRUNC flag is what makes the theorem above true: without it an existing longer file
   keeps its tail after a "successful" write *)
Definition TO_FILE_FLAGS_NO_TRUNC : oflags := mkofl O_WRONLY true false false false.

Theorem to_file_without_trunc_keeps_stale_tail : forall fs p old sched ser,
  fs_get fs p = Some old -> zlen (c_str ser) < zlen old ->
  Forall ge1 sched -> zlen (c_str ser) <= wsum sched ->
  exists calls fs',
    object_to_file_with TO_FILE_FLAGS_NO_TRUNC None fs p sched false (Some ser) =
      (WRet 0 false (c_str ser) calls, fs', 1, 1)
    /\ fs_get fs' p = Some (c_str ser ++ zskipn (zlen (c_str ser)) old)
    /\ c_str ser ++ zskipn (zlen (c_str ser)) old <> c_str ser.
Proof.
  intros fs p old sched ser G Hl HF Hs.
  destruct (write_exact sched ser HF Hs) as (calls & E & _).
  unfold object_to_fd in E.
  unfold object_to_file_with, fs_open. rewrite G. cbn -[object_to_fd_inner fs_deliver]. rewrite E. cbn [wout_dev].
  eexists. eexists. split; [reflexivity|].
  unfold fs_deliver. cbn [d_path d_app d_off]. rewrite fs_get_set_same, fs_get_set_same.
  split.
  - unfold desc_write. reflexivity.
  - intros H. apply (f_equal zlen) in H. rewrite zlen_app, zlen_zskipn in H.
    pose proof (zlen_nonneg (c_str ser)). lia.
Qed.

(* json_object_from_file on the file system: an absent path is a reported failure; a present
   one gives the in-memory parse of its contents; the file system is unchanged either way *)
Theorem from_file_fs_absent : forall fs p parse app_ok sched,
  fs_get fs p = None ->
  object_from_file_fs None fs p parse app_ok sched = (RRet (mkrout JNull MOpen 0 None 0), fs, 1, 0).
Proof.
  intros fs p parse app_ok sched G. unfold object_from_file_fs, object_from_file_with.
  rewrite fs_open_from_file, G. reflexivity.
Qed.

Theorem from_file_fs_present : forall fs p c parse app_ok sched,
  fs_get fs p = Some c -> always app_ok -> Forall ge1 sched -> zlen c < zlen sched ->
  exists reads, object_from_file_fs None fs p parse app_ok sched =
                  (RRet (memory_result parse (-1) c reads), fs, 1, 1).
Proof.
  intros fs p c parse app_ok sched G HA HF Hl. unfold object_from_file_fs, object_from_file_with.
  rewrite fs_open_from_file, G. cbn [d_rd]. rewrite G. unfold object_from_fd.
  destruct (read_as_memory parse app_ok sched c (-1) HA HF Hl) as (r & Hr & _); [cbv; discriminate|].
  exists r. now rewrite Hr.
Qed.

(* write then read back, any two schedules: the one in-memory parse of the serialization *)
Theorem file_roundtrip : forall fs p s1 s2 ser parse app_ok,
  Forall ge1 s1 -> zlen (c_str ser) <= wsum s1 ->
  always app_ok -> Forall ge1 s2 -> zlen (c_str ser) < zlen s2 ->
  exists calls fs' reads,
    object_to_file_fs None fs p s1 false (Some ser) = (WRet 0 false (c_str ser) calls, fs', 1, 1) /\
    object_from_file_fs None fs' p parse app_ok s2 =
      (RRet (memory_result parse (-1) (c_str ser) reads), fs', 1, 1).
Proof.
  intros fs p s1 s2 ser parse app_ok H1 L1 HA H2 L2.
  destruct (to_file_holds_serialization fs p s1 ser H1 L1) as (calls & fs' & E & G & _).
  destruct (from_file_fs_present fs' p (c_str ser) parse app_ok s2 G HA H2 L2) as (reads & R).
  now exists calls, fs', reads.
Qed.

(* ------------------------------------------------------------------ the descriptor is the caller's *)

Lemma read_taken_complete : forall app_ok sched data rpos,
  always app_ok -> Forall ge1 sched -> 0 <= rpos <= zlen data -> zlen data - rpos < zlen sched ->
  read_taken app_ok sched (zskipn rpos data) rpos = zlen data - rpos.
Proof.
  intros app_ok sched data rpos HA. revert rpos.
  induction sched as [|x sched IH]; intros rpos HF H0 Hs; cbn [zlen] in Hs; [lia|].
  inversion HF as [|? ? Hx HF']; subst.
  destruct x as [n|e]; cbn [ge1] in Hx; [|contradiction].
  cbn [read_taken]. rstep data rpos n H0 ret Hret.
  destruct (0 <? ret) eqn:E.
  - rewrite HA. rewrite zskipn_zskipn by lia.
    rewrite IH by (trivial; unfold JSON_FILE_BUF_SIZE in *; lia). lia.
  - unfold JSON_FILE_BUF_SIZE in *. lia.
Qed.

Lemma read_taken_prefix : forall app_ok pre e post data rpos,
  always app_ok -> Forall ge1 pre -> 0 <= rpos -> rpos + rsum pre <= zlen data ->
  read_taken app_ok (pre ++ Err e :: post) (zskipn rpos data) rpos = rsum pre.
Proof.
  intros app_ok pre e post data rpos HA. revert rpos.
  induction pre as [|x pre IH]; intros rpos HF H0 Hs; [reflexivity|].
  inversion HF as [|? ? Hx HF']; subst. pose proof (rsum_nonneg _ HF') as Hn.
  destruct x as [n|e']; cbn [ge1] in Hx; [|contradiction].
  cbn [rsum] in *. cbn [app read_taken].
  assert (H : 0 <= rpos <= zlen data) by (unfold JSON_FILE_BUF_SIZE in *; lia).
  rstep data rpos n H ret Hret.
  assert (Hr : ret = Z.min n JSON_FILE_BUF_SIZE) by (unfold JSON_FILE_BUF_SIZE in *; lia). clear Hret. subst ret.
  replace (0 <? Z.min n JSON_FILE_BUF_SIZE) with true by (unfold JSON_FILE_BUF_SIZE; lia).
  rewrite HA. rewrite zskipn_zskipn by (unfold JSON_FILE_BUF_SIZE; lia).
  rewrite IH by (trivial; unfold JSON_FILE_BUF_SIZE in *; lia). reflexivity.
Qed.

(* read_as_memory for a descriptor at an arbitrary position 0 <= pos <= |file| (the end included):
   what is parsed is exactly file[pos:], with the configured depth; the descriptor is left at the
   end of the file *)
Theorem read_as_memory_at : forall parse app_ok sched file pos in_depth,
  0 <= pos <= zlen file ->
  always app_ok -> Forall ge1 sched -> zlen file - pos < zlen sched -> 1 <= eff_depth in_depth ->
  exists reads, object_from_fd_at parse app_ok sched file pos in_depth =
                  (RRet (memory_result parse in_depth (zskipn pos file) reads), zlen file)
                /\ 1 <= reads <= zlen file - pos + 1.
Proof.
  intros parse app_ok sched file pos in_depth Hp HA HF Hl Hd.
  assert (L : zlen (zskipn pos file) = zlen file - pos) by (rewrite zlen_zskipn; lia).
  destruct (read_as_memory parse app_ok sched (zskipn pos file) in_depth HA HF) as (reads & E & B); [lia|exact Hd|].
  exists reads. split; [|lia].
  unfold object_from_fd_at. fold (eff_depth in_depth). rewrite E.
  replace (eff_depth in_depth <? 1) with false by lia.
  pose proof (read_taken_complete app_ok sched (zskipn pos file) 0 HA HF) as T.
  rewrite zskipn_0 in T. rewrite T by lia. f_equal. lia.
Qed.

(* a read error at call |pre|+1: reported as before, the descriptor stands behind the bytes the
   earlier calls delivered *)
Theorem read_error_at : forall parse app_ok pre e post file pos in_depth,
  0 <= pos <= zlen file ->
  always app_ok -> Forall ge1 pre -> pos + rsum pre <= zlen file -> 1 <= eff_depth in_depth ->
  object_from_fd_at parse app_ok (pre ++ Err e :: post) file pos in_depth =
    (RRet (mkrout JNull MRead (zlen pre + 1) None 0), pos + rsum pre).
Proof.
  intros parse app_ok pre e post file pos in_depth Hp HA HF Hs Hd.
  assert (L : zlen (zskipn pos file) = zlen file - pos) by (rewrite zlen_zskipn; lia).
  unfold object_from_fd_at. fold (eff_depth in_depth).
  rewrite read_error by (trivial; lia).
  replace (eff_depth in_depth <? 1) with false by lia.
  pose proof (read_taken_prefix app_ok pre e post (zskipn pos file) 0 HA HF) as T.
  rewrite zskipn_0 in T. rewrite T by lia. reflexivity.
Qed.

(* json_object_to_fd on a positioned descriptor: the serialization lands at the position (what
   was there before and behind stays), or at the end with O_APPEND; the position moves behind it *)
Theorem to_fd_at_exact : forall sched old pos ser,
  0 <= pos <= zlen old -> Forall ge1 sched -> zlen (c_str ser) <= wsum sched ->
  exists calls,
    object_to_fd_at sched old pos false false (Some ser) =
      (WRet 0 false (c_str ser) calls,
       zfirstn pos old ++ c_str ser ++ zskipn (pos + zlen (c_str ser)) old,
       pos + zlen (c_str ser))
    /\ object_to_fd_at sched old pos true false (Some ser) =
      (WRet 0 false (c_str ser) calls, old ++ c_str ser,
       match c_str ser with [] => pos | _ => zlen old + zlen (c_str ser) end).
Proof.
  intros sched old pos ser Hp HF Hs.
  destruct (write_exact sched ser HF Hs) as (calls & E & _).
  exists calls. unfold object_to_fd_at. rewrite E. cbn [wout_dev]. split.
  - f_equal. destruct (c_str ser); cbn [zlen]; lia.
  - unfold desc_write. rewrite zfirstn_all by lia.
    pose proof (zlen_nonneg (c_str ser)). rewrite zskipn_all by lia. rewrite app_nil_r.
    destruct (c_str ser); reflexivity.
Qed.

(* ------------------------------------------------------------------ any descriptor number is a descriptor *)

(* the caller's descriptor number plays no role *)
Theorem fd_number_irrelevant : forall fd1 fd2,
  object_from_fd_ex_on fd1 = object_from_fd_ex_on fd2 /\ object_to_fd_on fd1 = object_to_fd_on fd2.
Proof. split; reflexivity. Qed.

(* every value >= 0 that open() returns — 0 included — is an opened file: the run is that of a
   successful open and exactly that descriptor is closed, once, on every returning path *)
Theorem from_file_any_descriptor : forall ret parse app_ok sched data,
  0 <= ret ->
  exists r closed, object_from_file_ret ret parse app_ok sched data = (r, 1, closed)
    /\ object_from_file true parse app_ok sched data = (r, 1, zlen closed)
    /\ (closed = [ret] \/ (closed = [] /\ exists pb c, r = ROutOfSchedule pb c)).
Proof.
  intros ret parse app_ok sched data H. unfold object_from_file_ret, open_failed.
  replace (ret <? 0) with false by lia. cbn [negb]. unfold object_from_file. cbn [negb].
  destruct (object_from_fd parse app_ok sched data) as [o|pb c]; cbn.
  - eexists. eexists. repeat split. now left.
  - eexists. eexists. repeat split. right. split; [reflexivity|now exists pb, c].
Qed.

Theorem to_file_any_descriptor : forall ret sched ser,
  0 <= ret ->
  exists r closed, object_to_file_ext_ret ret sched false ser = (r, 1, closed)
    /\ r = object_to_fd sched false ser
    /\ (forall rc m d c, r = WRet rc m d c -> closed = [ret]).
Proof.
  intros ret sched ser H. unfold object_to_file_ext_ret, open_failed.
  replace (ret <? 0) with false by lia. cbn [negb]. unfold object_to_file_ext, object_to_fd. cbn [negb].
  destruct (object_to_fd_inner sched ser) eqn:E; cbn; eexists; eexists; repeat split; intros; congruence.
Qed.

(* -1 is the failure value: reported, nothing read or written, nothing to close *)
Theorem open_minus_one_is_the_failure : forall parse app_ok sched data ser,
  object_from_file_ret (-1) parse app_ok sched data = (RRet (mkrout JNull MOpen 0 None 0), 1, [])
  /\ object_to_file_ext_ret (-1) sched false ser = (WRet (-1) true [] 0, 1, []).
Proof. split; reflexivity. Qed.

(* the results for any two descriptor numbers >= 0 coincide *)
Theorem file_results_independent_of_descriptor : forall n m parse app_ok sched data ser,
  0 <= n -> 0 <= m ->
  fst (fst (object_from_file_ret n parse app_ok sched data)) = fst (fst (object_from_file_ret m parse app_ok sched data))
  /\ fst (fst (object_to_file_ext_ret n sched false ser)) = fst (fst (object_to_file_ext_ret m sched false ser)).
Proof.
  intros n m parse app_ok sched data ser Hn Hm. unfold object_from_file_ret, object_to_file_ext_ret, open_failed.
  replace (n <? 0) with false by lia. replace (m <? 0) with false by lia. cbn [negb].
  destruct (object_from_file true parse app_ok sched data) as [[r o] c].
  destruct (object_to_file_ext true sched false ser) as [[r' o'] c']. split; reflexivity.
Qed.

(* ------------------------------------------------------------------ the open() requests *)

(* reading: read-only, nothing created, truncated or appended, no other flag bit (blocking mode), no
   mode argument; writing: write-only, created if absent, truncated, not appending, no other flag
   bit, mode 0644 *)
Theorem open_requests_as_documented : forall p,
  from_file_request p = mkreq p (mkofl O_RDONLY false false false false) 0 None
  /\ to_file_request p = mkreq p (mkofl O_WRONLY true true false false) 0 (Some (6 * 64 + 4 * 8 + 4))
  /\ rq_other_bits (from_file_request p) = 0 /\ rq_other_bits (to_file_request p) = 0.
Proof. intros p. repeat split. Qed.

(* ------------------------------------------------------------------ non-vacuity *)

(* "hello" = 104 101 108 108 111 *)
Example write_nonvacuous :
  object_to_fd [Short 2; Short 1; Short 100] false (Some [104;101;108;108;111]) =
    WRet 0 false [104;101;108;108;111] 3
  /\ object_to_fd [Short 2; Err 5; Short 100] false (Some [104;101;108;108;111]) =
    WRet (-1) true [104;101] 2
  /\ object_to_fd [Short 2; Short 0; Short 100] false (Some [104;101;108;108;111]) =
    WSpin [104;101] 2
  /\ object_to_fd [Short 2] false (Some [104;101;108;108;111]) = WOutOfSchedule [104;101] 1
  /\ object_to_fd [Short 9] false (Some [104;101;0;108]) = WRet 0 false [104;101] 1.
Proof. repeat split. Qed.

(* a parser stand-in that shows its arguments: depth and bytes *)
Definition show_parse : tokener := mktokener (fun d bs => PVal (JArr [JInt d; JStr bs])) (fun _ _ => None).

(* a tokener stand-in for texts that need the end of the data: "42" is continue and becomes 42
   with the NUL; anything else stays unfinished *)
Definition literal_tokener : tokener :=
  mktokener (fun _ _ => PContinue) (fun _ bs => if bytes_eqb bs [52;50] then Some (JInt 42) else None).

Example read_nonvacuous :
  object_from_fd_ex show_parse (fun _ _ => true) [Short 1; Short 5000; Short 1; Short 1] [91;49;93] 7 =
    RRet (mkrout (JArr [JInt 7; JStr [91;49;93]]) MNone 3 (Some (7, [91;49;93], 1)) 0)
  /\ object_from_fd_ex show_parse (fun _ _ => true) [Short 3; Short 3] [91;49;93] (-1) =
    RRet (mkrout (JArr [JInt 32; JStr [91;49;93]]) MNone 2 (Some (32, [91;49;93], 1)) 0)
  /\ object_from_fd_ex show_parse (fun _ _ => true) [Short 2; Err 5] [91;49;93] 7 =
    RRet (mkrout JNull MRead 2 None 0)
  /\ object_from_fd_ex show_parse (fun _ _ => true) [Short 3; Err 4] [91;49;93] 7 =   (* EINTR at the end-of-file call *)
    RRet (mkrout JNull MRead 2 None 0)
  /\ object_from_fd_ex (mktokener (fun _ _ => PError) (fun _ _ => None)) (fun _ _ => true) [Short 2; Short 2; Short 2] [91;49;93] 7 =
    RRet (mkrout JNull MParse 3 (Some (7, [91;49;93], 1)) 0)
  /\ object_from_fd_ex literal_tokener (fun _ _ => true) [Short 1; Short 1; Short 1] [52;50] 7 =   (* the file holds just 42 *)
    RRet (mkrout (JInt 42) MNone 3 (Some (7, [52;50], 2)) 0)
  /\ object_from_fd_ex literal_tokener (fun _ _ => true) [Short 9; Short 9] [91;52;50] 7 =        (* [42 : unfinished *)
    RRet (mkrout JNull MParse 2 (Some (7, [91;52;50], 2)) 0)
  /\ object_from_fd_ex show_parse (fun _ _ => true) [Short 2; Short 2; Short 2] [91;49;93] 0 =
    RRet (mkrout JNull MTokNew 0 None 0)
  /\ object_from_fd_ex show_parse (fun l _ => l <? 2) [Short 2; Short 2; Short 2] [91;49;93] 7 =
    RRet (mkrout JNull MAppend 2 None 0).
Proof. repeat split. Qed.

(* the n >= 1 side condition is needed on the read side too: a read() that claims end of
   file early makes the function parse a truncated document *)
Example read_zero_truncates :
  object_from_fd_ex show_parse (fun _ _ => true) [Short 2; Short 0; Short 5] [91;49;93] 7 =
    RRet (mkrout (JArr [JInt 7; JStr [91;49]]) MNone 2 (Some (7, [91;49], 1)) 0).
Proof. reflexivity. Qed.

(* chunks are cut at the 4096-byte stack buffer whatever the schedule offers *)
Example read_chunked_at_buffer_size :
  exists o, object_from_fd_ex show_parse (fun _ _ => true) [Short 100000; Short 100000; Short 100000; Short 1]
              (zrepeat 32 8192) 7 = RRet o /\ r_reads o = 3 /\ r_parsed o = Some (7, zrepeat 32 8192, 1).
Proof. eexists. vm_compute. repeat split. Qed.

(* path "a" = [97]; the file held 9 bytes, the serialization has 3 *)
Example file_nonvacuous :
  let fs := [([97], [49;50;51;52;53;54;55;56;57])] in
  object_to_file_fs None fs [97] [Short 2; Short 5] false (Some [91;49;93]) =
    (WRet 0 false [91;49;93] 2, [([97], [91;49;93])], 1, 1)
  /\ object_to_file_with TO_FILE_FLAGS_NO_TRUNC None fs [97] [Short 2; Short 5] false (Some [91;49;93]) =
    (WRet 0 false [91;49;93] 2, [([97], [91;49;93;52;53;54;55;56;57])], 1, 1)
  /\ object_to_file_fs None fs [98] [Short 9] false (Some [91;49;93]) =
    (WRet 0 false [91;49;93] 1, [([97], [49;50;51;52;53;54;55;56;57]); ([98], [91;49;93])], 1, 1)
  /\ object_to_file_fs None fs [97] [Short 1; Err 28] false (Some [91;49;93]) =
    (WRet (-1) true [91] 2, [([97], [91])], 1, 1)
  /\ object_from_file_fs None fs [98] show_parse (fun _ _ => true) [Short 9; Short 9] =
    (RRet (mkrout JNull MOpen 0 None 0), fs, 1, 0)
  /\ object_from_file_fs None fs [97] show_parse (fun _ _ => true) [Short 4; Short 9; Short 9] =
    (RRet (mkrout (JArr [JInt 32; JStr [49;50;51;52;53;54;55;56;57]]) MNone 3
                  (Some (32, [49;50;51;52;53;54;55;56;57], 1)) 0), fs, 1, 1)
  /\ object_to_file_with (mkofl O_RDONLY false false false false) None fs [97] [Short 9] false (Some [91;49;93]) =
    (WRet (-1) true [] 1, fs, 1, 1)
  /\ object_to_file_with (mkofl O_WRONLY true false true false) None fs [97] [Short 9] false (Some [91;49;93]) =
    (WRet 0 false [91;49;93] 1, [([97], [49;50;51;52;53;54;55;56;57;91;49;93])], 1, 1).
Proof. repeat split. Qed.

(* the caller consumed "#hdr\n" (5 bytes) of "#hdr\n[1]": the document is what follows *)
Example position_nonvacuous :
  object_from_fd_at show_parse (fun _ _ => true) [Short 2; Short 9; Short 9] [35;104;100;114;10;91;49;93] 5 7 =
    (RRet (mkrout (JArr [JInt 7; JStr [91;49;93]]) MNone 3 (Some (7, [91;49;93], 1)) 0), 8)
  /\ object_from_fd_at show_parse (fun _ _ => true) [Short 9] [91;49;93] 3 7 =
    (RRet (mkrout (JArr [JInt 7; JStr []]) MNone 1 (Some (7, [], 1)) 0), 3)
  /\ object_from_fd_at show_parse (fun _ _ => true) [Short 1; Err 4] [35;10;91;49;93] 2 7 =
    (RRet (mkrout JNull MRead 2 None 0), 3)
  /\ object_to_fd_at [Short 1; Short 9] [49;50;51;52;53;54] 2 false false (Some [91;93]) =
    (WRet 0 false [91;93] 2, [49;50;91;93;53;54], 4)
  /\ object_to_fd_at [Short 1; Short 9] [49;50;51;52;53;54] 2 true false (Some [91;93]) =
    (WRet 0 false [91;93] 2, [49;50;51;52;53;54;91;93], 8).
Proof. repeat split. Qed.

(* descriptor 0 is a descriptor *)
Example descriptor_zero_nonvacuous :
  object_from_file_ret 0 show_parse (fun _ _ => true) [Short 9; Short 9] [91;49;93] =
    (RRet (mkrout (JArr [JInt 32; JStr [91;49;93]]) MNone 2 (Some (32, [91;49;93], 1)) 0), 1, [0])
  /\ object_to_file_ext_ret 0 [Short 9] false (Some [91;49;93]) = (WRet 0 false [91;49;93] 1, 1, [0])
  /\ object_to_file_ext_ret 2147483647 [Short 1; Err 5] false (Some [91;49;93]) = (WRet (-1) true [91] 2, 1, [2147483647])
  /\ object_from_file_ret (-1) show_parse (fun _ _ => true) [Short 9; Short 9] [91;49;93] =
    (RRet (mkrout JNull MOpen 0 None 0), 1, []).
Proof. repeat split. Qed.
