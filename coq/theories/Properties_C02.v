(* Properties_C02.v — statements only.  C02: serialization emits valid JSON denoting the tree;
   parse(serialize(T)) = T.  Model: SerModel.v (json_object.c serializer as written, over the
   libc oracle fmt17 = the "%.17g" text of a finite double); specification: SerSpec.v (RFC 8259
   syntax with denotation, written from the RFC only); proofs: SerProofs.v.

   Guard of the theorems ([node_ok], at every node of the tree): strings and member names are
   byte strings (0..255; any bytes incl. NUL, control bytes, non-UTF-8 — read byte-wise, see
   SerSpec.v); a uint64 node is not negative; a double printed through %.17g is FINITE (NaN and
   Infinity are printed as words, which are not JSON: the property says "any finite double") and —
   the guard of the refuted part — JSON_C_TO_STRING_NOZERO is off or its %.17g text has no
   exponent; a retained text is an RFC 8259 number token (what the parser retains; a caller of
   json_object_new_double_s chooses it).  Hypothesis on the oracle ([fmt17_ok]): %.17g prints
   [-]digits[.digits][e(+|-)digits], lower-case e, under 126 bytes, fraction not ending in 0. *)
From JC Require Import Base Value SerModel SerSpec SerProofs.
Local Open Scope Z_scope.

(* ---- 1. valid RFC 8259 text that denotes exactly the tree: every tree, every flag word without COLOR *)
Theorem C02_ser_is_valid : forall fmt17, fmt17_ok fmt17 -> forall fl v,
  color fl = false -> jv_Forall (node_ok fmt17 fl) v ->
  exists s, stx_ok s = true /\ render s = serialize fmt17 fl 0 v /\ denotes fmt17 (value s) v.
Proof. exact ser_is_valid. Qed.
Print Assumptions C02_ser_is_valid.

Theorem C02_ser_is_rfc8259 : forall fmt17, fmt17_ok fmt17 -> forall fl v,
  color fl = false -> jv_Forall (node_ok fmt17 fl) v -> rfc8259_text (serialize fmt17 fl 0 v).
Proof. exact ser_is_rfc8259. Qed.
Print Assumptions C02_ser_is_rfc8259.

(* what "denotes" means for a double: any reader of number tokens that depends only on the exact
   decimal value and reads the %.17g text of a double back as that double (the 17-digit round trip,
   checked against libc on every run) reads the emitted token back as the double *)
Theorem C02_double_reads_back : forall fmt17 (reads : Z * Z -> Z) m e bits,
  (forall a b, dec_eq a b -> reads a = reads b) ->
  (forall n0, num_ok n0 = true -> render_num n0 = fmt17 bits -> reads (num_val n0) = bits) ->
  denotes fmt17 (RNum m e) (JDouble bits None) -> reads (m, e) = bits.
Proof. exact double_reads_back. Qed.
Print Assumptions C02_double_reads_back.

(* integers of any size print exactly: the token of an int64 / uint64 node is an RFC number whose value is the integer *)
Theorem C02_int_exact : forall z, exists n, num_ok n = true /\ render_num n = dec_s z /\ num_val n = (z, 0).
Proof. exact int_token. Qed.
Print Assumptions C02_int_exact.
Theorem C02_uint_exact : forall z, 0 <= z -> exists n, num_ok n = true /\ render_num n = dec_u z /\ num_val n = (z, 0).
Proof. exact uint_token. Qed.
Print Assumptions C02_uint_exact.

(* strings: any bytes; the literal is RFC 8259 and denotes the same bytes *)
Theorem C02_string_exact : forall fl s, Forall byte_ok s ->
  render_string (map (char_stx fl) s) = quoted fl s /\
  forallb schar_ok (map (char_stx fl) s) = true /\
  string_value (map (char_stx fl) s) = s.
Proof. exact string_spec. Qed.
Print Assumptions C02_string_exact.

(* the reported length is the text length *)
Theorem C02_reported_length : forall fmt17 flags v,
  snd (to_json_string_length fmt17 flags v) = zlen (fst (to_json_string_length fmt17 flags v)).
Proof. exact reported_length. Qed.
Print Assumptions C02_reported_length.

(* ---- 2. formatting flags change only insignificant whitespace, colour sequences, and the escape form of '/' *)
(* proved for all 64 flag words under the guard (inside node_ok): NOZERO off, or no exponent in a %.17g text *)
Theorem C02_flags_only_whitespace_partial : forall fmt17, fmt17_ok fmt17 -> forall fl v,
  jv_Forall (node_ok fmt17 fl) v ->
  significant (serialize fmt17 fl 0 v) = significant (serialize fmt17 flags_plain 0 v).
Proof. exact flags_only_whitespace_partial. Qed.
Print Assumptions C02_flags_only_whitespace_partial.

(* the full statement (guard without the NOZERO clause) is FALSE of the code as written:
   class nozero_eats_exponent, witness 1.5e+20 -> 1.5e+2 under JSON_C_TO_STRING_NOZERO *)
Theorem C02_nozero_refuted : ~ flags_only_whitespace.
Proof. exact nozero_refuted. Qed.
Print Assumptions C02_nozero_refuted.

Theorem C02_nozero_value_refuted :
  serialize w_fmt17 w_flags 0 (JDouble w_bits None) = [49;46;53;101;43;50] /\
  serialize w_fmt17 flags_plain 0 (JDouble w_bits None) = w_text /\
  exists n, num_ok n = true /\ render_num n = serialize w_fmt17 w_flags 0 (JDouble w_bits None) /\
            ~ dec_eq (num_val n) (num_val w_tok).
Proof. exact nozero_value_refuted. Qed.
Print Assumptions C02_nozero_value_refuted.

(* the repair (scan only the fraction: nozero_span := split_exp) keeps every exponent verbatim *)
Theorem C02_nozero_repaired_keeps_exponent : forall fr e,
  forallb digit fr = true -> exp_ok e = true ->
  nozero_trim_with split_exp (fr ++ render_exp e) = trim_zeros fr ++ render_exp e.
Proof. exact nozero_repaired_keeps_exponent. Qed.
Print Assumptions C02_nozero_repaired_keeps_exponent.

(* ---- 3. round trip through the tokener model (TokModel.parse_ex_cstr) *)
(* proved: every flag word without COLOR, every scalar tree ([scalar_ok]): all int64, all uint64 (a uint64 <=
   INT64_MAX comes back as an int64 node, equal), all byte strings incl. NUL/control/non-UTF-8, all finite
   doubles (the strtod oracle is assumed to read the emitted token back as the double; the NOZERO guard as
   above) and retained texts with a fraction or exponent: json-c re-parses its own output, the result is
   json_object_equal to the original and serializes to the same text.
   NOT proved: containers ([roundtrip_statement] is the full statement); they are covered by the computed
   example below and by the differential correspondence stream of ./check C02 *)
Theorem C02_roundtrip_scalars_partial : forall fmt17 strtod, fmt17_ok fmt17 -> forall fl v,
  color fl = false -> scalar_ok fmt17 strtod fl v -> roundtrip_ok fmt17 strtod fl v.
Proof. exact roundtrip_scalars_partial. Qed.
Print Assumptions C02_roundtrip_scalars_partial.

(* the tokener model on ANY RFC 8259 number token with a fraction or an exponent: a double node holding
   strtod's value and the token as retained text *)
Theorem C02_parse_num_token : forall strtod n, num_ok n = true -> (n_frac n <> None \/ n_exp n <> None) ->
  exists t', TokModel.parse_ex_cstr strtod RT.T0 (render_num n) =
             TokModel.PR t' (Some (JDouble (strtod (render_num n)) (Some (render_num n)))) /\
             TokModel.err t' = TokModel.TE_success.
Proof. exact RT2.parse_num_token. Qed.
Print Assumptions C02_parse_num_token.

(* non-vacuity / end to end inside Coq: a nested tree with every node type, strings with '/', quote,
   backslash, NUL, 0x1f and UTF-8, doubles 1.5 1.0 -0.0 0.1 1e+20 1.5e+20, empty containers, under the
   16 flag words over SPACED/PRETTY/PRETTY_TAB/NOSLASHESCAPE: re-parsed, equal, re-serialized identically *)
Theorem C02_roundtrip_examples : forallb (fun fl => roundtrip_okb ex_fmt17 ex_strtod fl ex_tree) ex_flags = true.
Proof. exact roundtrip_examples. Qed.
Print Assumptions C02_roundtrip_examples.

(* ... and under NOZERO the same tree does not survive (1.5e+20 comes back as 150) *)
Theorem C02_roundtrip_nozero_example :
  roundtrip_okb ex_fmt17 ex_strtod (mkfl false false true false false false) ex_tree = false.
Proof. exact roundtrip_nozero_example. Qed.
Print Assumptions C02_roundtrip_nozero_example.

(* non-vacuity of the guard and of the oracle hypothesis: the example oracle satisfies fmt17_ok on the
   example's doubles, and the example tree satisfies node_ok *)
Theorem C02_nonvacuous : fmt17_ok w_fmt17 /\ jv_Forall (node_ok w_fmt17 flags_plain) (JArr [JDouble w_bits None; JStr [0;47;255]; JObj [([97], JNull)]]).
Proof. exact nonvacuous. Qed.
Print Assumptions C02_nonvacuous.
