(* Properties_C02.v — statements only.  C02: serialization emits valid JSON denoting the tree;
   parse(serialize(T)) = T.  Model: SerModel.v (json_object.c serializer as written, over the
   libc oracle fmt17 = the "%.17g" text of a finite double); specification: SerSpec.v (RFC 8259
   syntax with denotation, written from the RFC only); proofs: SerProofs.v.

   Guard of the theorems ([node_ok], at every node of the tree): strings and member names are
   byte strings (0..255; any bytes incl. NUL, control bytes, non-UTF-8 — read byte-wise, see
   SerSpec.v); a uint64 node is not negative; a double printed through %.17g is FINITE (NaN and
   Infinity are printed as words, which are not JSON: the property says "any finite double");
   a retained text is an RFC 8259 number token (what the parser retains; a caller of
   json_object_new_double_s chooses it).  Hypothesis on the oracle ([fmt17_ok]): %.17g prints
   [-]digits[.digits][e(+|-)digits], lower-case e, under 126 bytes, fraction not ending in 0.
   History: until json-c commit c53b19e the NOZERO scan ran through the exponent (class
   nozero_eats_exponent: 1.5e+20 printed as 1.5e+2); the theorems below are about the repaired code
   and carry no NOZERO guard; C02_nozero_old_scan_eats_exponent keeps the old behaviour on record. *)
From JC Require Import Base Value SerModel SerSpec SerProofs.
Local Open Scope Z_scope.

(* ---- 1. valid RFC 8259 text that denotes exactly the tree: every tree, every flag word without COLOR *)
Theorem C02_ser_is_valid : forall fmt17, fmt17_ok fmt17 -> forall fl v,
  color fl = false -> jv_Forall node_ok v ->
  exists s, stx_ok s = true /\ render s = serialize fmt17 fl 0 v /\ denotes fmt17 (value s) v.
Proof. exact ser_is_valid. Qed.
Print Assumptions C02_ser_is_valid.

Theorem C02_ser_is_rfc8259 : forall fmt17, fmt17_ok fmt17 -> forall fl v,
  color fl = false -> jv_Forall node_ok v -> rfc8259_text (serialize fmt17 fl 0 v).
Proof. exact ser_is_rfc8259. Qed.
Print Assumptions C02_ser_is_rfc8259.

(* what "denotes" means for a double: any reader of number tokens that depends only on the exact
   decimal value and reads the %.17g text of a double back as that double (the 17-digit round trip,
   checked against libc on every run) reads the emitted token back as the double *)
Theorem C02_double_reads_back : forall fmt17 (reads : Z * Z -> Z) m e bits,
  (forall a b, dec_eq a b -> reads a = reads b) ->
  (forall n0, num_ok n0 = true -> render_num n0 = fmt17 bits -> reads (num_val n0) = bits) ->
  denotes fmt17 (RNum m e) (JDouble bits None) -> reads (m, e) = bits.
Proof. exact double_reads_back. Qed.
Print Assumptions C02_double_reads_back.

(* integers of any size print exactly: the token of an int64 / uint64 node is an RFC number whose value is the integer *)
Theorem C02_int_exact : forall z, exists n, num_ok n = true /\ render_num n = dec_s z /\ num_val n = (z, 0).
Proof. exact int_token. Qed.
Print Assumptions C02_int_exact.
Theorem C02_uint_exact : forall z, 0 <= z -> exists n, num_ok n = true /\ render_num n = dec_u z /\ num_val n = (z, 0).
Proof. exact uint_token. Qed.
Print Assumptions C02_uint_exact.

(* strings: any bytes; the literal is RFC 8259 and denotes the same bytes *)
Theorem C02_string_exact : forall fl s, Forall byte_ok s ->
  render_string (map (char_stx fl) s) = quoted fl s /\
  forallb schar_ok (map (char_stx fl) s) = true /\
  string_value (map (char_stx fl) s) = s.
Proof. exact string_spec. Qed.
Print Assumptions C02_string_exact.

(* the reported length is the text length *)
Theorem C02_reported_length : forall fmt17 flags v,
  snd (to_json_string_length fmt17 flags v) = zlen (fst (to_json_string_length fmt17 flags v)).
Proof. exact reported_length. Qed.
Print Assumptions C02_reported_length.

(* ---- 2. formatting flags change only insignificant whitespace, colour sequences, and the escape form of '/' *)
(* full strength: all 64 flag words (SPACED, PRETTY, PRETTY_TAB, NOZERO, NOSLASHESCAPE, COLOR), every tree *)
Theorem C02_flags_only_whitespace : forall fmt17, fmt17_ok fmt17 -> forall fl v,
  jv_Forall node_ok v ->
  significant (serialize fmt17 fl 0 v) = significant (serialize fmt17 flags_plain 0 v).
Proof. exact flags_only_whitespace. Qed.
Print Assumptions C02_flags_only_whitespace.

(* non-vacuity on the former witnesses: 1.5e+20 and 2.5e-10 under JSON_C_TO_STRING_NOZERO keep their exponent *)
Theorem C02_nozero_examples :
  serialize w_fmt17 w_flags 0 (JDouble w_bits None) = w_text /\
  serialize w_fmt17 w_flags 0 (JDouble w2_bits None) = w2_text /\
  significant (serialize w_fmt17 w_flags 0 (JArr [JDouble w_bits None; JDouble w2_bits None]))
  = significant (serialize w_fmt17 flags_plain 0 (JArr [JDouble w_bits None; JDouble w2_bits None])).
Proof. exact nozero_examples. Qed.
Print Assumptions C02_nozero_examples.

(* the NOZERO scan trims the fraction only and keeps every exponent verbatim *)
Theorem C02_nozero_keeps_exponent : forall fr e,
  forallb digit fr = true -> nozero_trim (fr ++ render_exp e) = trim_zeros fr ++ render_exp e.
Proof. exact nozero_keeps_exponent. Qed.
Print Assumptions C02_nozero_keeps_exponent.

(* on record: the scan as written before commit c53b19e (to the end of the buffer) ate exponent digits *)
Theorem C02_nozero_old_scan_eats_exponent :
  nozero_trim_with (fun rest => (rest, [])) [53;101;43;50;48] = [53;101;43;50] /\
  nozero_trim [53;101;43;50;48] = [53;101;43;50;48].
Proof. exact nozero_old_scan_eats_exponent. Qed.
Print Assumptions C02_nozero_old_scan_eats_exponent.

(* ---- 3. round trip through the tokener model (TokModel.parse_ex_cstr) *)
(* proved: every flag word without COLOR, every scalar tree ([scalar_ok]): all int64, all uint64 (a uint64 <=
   INT64_MAX comes back as an int64 node, equal), all byte strings incl. NUL/control/non-UTF-8, all finite
   doubles (the strtod oracle is assumed to read the emitted token back as the double) and retained texts with a fraction or exponent: json-c re-parses its own output, the result is
   json_object_equal to the original and serializes to the same text.
   Kept as the scalar base case; the statement for ALL trees (containers included) is C02_roundtrip in
   section 6 below. *)
Theorem C02_roundtrip_scalars_partial : forall fmt17 strtod, fmt17_ok fmt17 -> forall fl v,
  color fl = false -> scalar_ok fmt17 strtod v -> roundtrip_ok fmt17 strtod fl v.
Proof. exact roundtrip_scalars_partial. Qed.
Print Assumptions C02_roundtrip_scalars_partial.

(* the tokener model on ANY RFC 8259 number token with a fraction or an exponent: a double node holding
   strtod's value and the token as retained text *)
Theorem C02_parse_num_token : forall strtod n, num_ok n = true -> (n_frac n <> None \/ n_exp n <> None) ->
  exists t', TokModel.parse_ex_cstr strtod RT.T0 (render_num n) =
             TokModel.PR t' (Some (JDouble (strtod (render_num n)) (Some (render_num n)))) /\
             TokModel.err t' = TokModel.TE_success.
Proof. exact RT2.parse_num_token. Qed.
Print Assumptions C02_parse_num_token.

(* non-vacuity / end to end inside Coq: a nested tree with every node type, strings with '/', quote,
   backslash, NUL, 0x1f and UTF-8, doubles 1.5 1.0 -0.0 0.1 1e+20 1.5e+20, empty containers, under the
   32 flag words without COLOR (NOZERO included): re-parsed, equal, re-serialized identically *)
Theorem C02_roundtrip_examples : forallb (fun fl => roundtrip_okb ex_fmt17 ex_strtod fl ex_tree) ex_flags = true.
Proof. exact roundtrip_examples. Qed.
Print Assumptions C02_roundtrip_examples.

(* ---- 4. "every tree built through the API": trees reached through histories of deep copies, in-place
   setters (set_double / set_int64 / set_uint64 / set_boolean / set_string), opaque userdata, serializer resets,
   child replacement and deletion *)
Theorem C02_history_valid : forall fmt17, fmt17_ok fmt17 -> forall fl hs v,
  color fl = false -> tree_ok v -> Forall hop_arg_ok hs ->
  exists s, stx_ok s = true /\ render s = serialize fmt17 fl 0 (hist_apply hs v) /\ denotes fmt17 (value s) (hist_apply hs v).
Proof. exact history_valid. Qed.
Print Assumptions C02_history_valid.

Theorem C02_history_flags : forall fmt17, fmt17_ok fmt17 -> forall fl hs v,
  tree_ok v -> Forall hop_arg_ok hs ->
  significant (serialize fmt17 fl 0 (hist_apply hs v)) = significant (serialize fmt17 flags_plain 0 (hist_apply hs v)).
Proof. exact history_flags. Qed.
Print Assumptions C02_history_flags.

(* after json_object_set_double a node prints the %.17g text of the new value, whatever text it retained
   (parser, json_object_new_double_s, or a deep copy of either); a deep copy prints what its source prints *)
Theorem C02_set_double_prints_new_value : forall fmt17 fl level b t bits,
  serialize fmt17 fl level (set_double_node bits (JDouble b t)) = double_text fmt17 fl bits.
Proof. exact set_double_prints_new_value. Qed.
Print Assumptions C02_set_double_prints_new_value.

Theorem C02_copy_prints_the_same : forall fmt17 fl level v,
  serialize fmt17 fl level (hop_apply HCopy v) = serialize fmt17 fl level v.
Proof. exact copy_prints_the_same. Qed.
Print Assumptions C02_copy_prints_the_same.

(* opaque application userdata (json_object_set_userdata, the data of json_object_set_serializer(NULL, data, del))
   never reaches the text, and a serializer reset prints the default %.17g text of the value *)
Theorem C02_userdata_is_opaque : forall fmt17 fl level p v,
  serialize fmt17 fl level (hop_apply (HSetUserdata p) v) = serialize fmt17 fl level v.
Proof. exact userdata_is_opaque. Qed.
Print Assumptions C02_userdata_is_opaque.
Theorem C02_reset_prints_default : forall fmt17 fl level b t,
  serialize fmt17 fl level (reset_serializer_node (JDouble b t)) = double_text fmt17 fl b.
Proof. exact reset_prints_default. Qed.
Print Assumptions C02_reset_prints_default.

(* ---- 5. option formats (json_c_set_serialization_double_format): one global, one per thread *)
(* a THREAD setting made by another thread is invisible in this thread *)
Theorem C02_effective_other_thread : forall sup st a b f, a <> b ->
  effective (fst (set_format sup st a f 1)) b = effective st b.
Proof. exact effective_other_thread. Qed.
Print Assumptions C02_effective_other_thread.
(* a GLOBAL setting made elsewhere applies here unless this thread has its own format *)
Theorem C02_effective_global_elsewhere : forall sup st a b f, a <> b ->
  effective (fst (set_format sup st a f 0)) b =
  match t_lookup b (t_fmt st) with Some own => Some own | None => match f with Some f => Some (c_str f) | None => None end end.
Proof. exact effective_global_elsewhere. Qed.
Print Assumptions C02_effective_global_elsewhere.
(* what a thread prints depends only on its own format and the global one *)
Theorem C02_serialize_thread_depends : forall fmt17 fmtd st st' tid fl level v,
  t_lookup tid (t_fmt st) = t_lookup tid (t_fmt st') -> g_fmt st = g_fmt st' ->
  serialize_thread fmt17 fmtd st tid fl level v = serialize_thread fmt17 fmtd st' tid fl level v.
Proof. exact serialize_thread_depends. Qed.
Print Assumptions C02_serialize_thread_depends.
(* under the built-in format, whatever other threads set for themselves, the text is RFC 8259 and denotes the tree *)
Theorem C02_default_format_valid : forall fmt17 fmtd, fmt17_ok fmt17 -> forall sup tid calls fl v,
  Forall (fun c => fst c <> tid) calls -> color fl = false -> tree_ok v ->
  exists s, stx_ok s = true /\ render s = serialize_thread fmt17 fmtd (others_set sup tid calls fmt_init) tid fl 0 v /\
            denotes fmt17 (value s) v.
Proof. exact default_format_valid. Qed.
Print Assumptions C02_default_format_valid.

(* ---- 6. custom serializers (json_object_set_serializer with a caller's function): the node is an opaque piece *)
Theorem C02_piece_is_verbatim : forall fmt17 fl level piece, SerModel.has_byte 0 piece = false ->
  serialize fmt17 fl level (piece_node piece) = piece.
Proof. exact piece_is_verbatim. Qed.
Print Assumptions C02_piece_is_verbatim.
Theorem C02_piece_in_array : forall fmt17 fl level piece, SerModel.has_byte 0 piece = false ->
  serialize fmt17 fl level (JArr [piece_node piece]) =
  [91] ++ child_prefix fl level ++ piece ++ container_close fl level true 93.
Proof. exact piece_in_array. Qed.
Print Assumptions C02_piece_in_array.

(* non-vacuity of the guard and of the oracle hypothesis: the example oracle satisfies fmt17_ok on the
   example's doubles, and the example tree satisfies node_ok *)
Theorem C02_nonvacuous : fmt17_ok w_fmt17 /\ jv_Forall node_ok (JArr [JDouble w_bits None; JStr [0;47;255]; JObj [([97], JNull)]]).
Proof. exact nonvacuous. Qed.
Print Assumptions C02_nonvacuous.

(* ---- 5. the round trip for ALL trees (SerRoundtrip.v: the emitted text is the rendering of a
   TokSyntax syntax tree whose value is the tree in the parser's normal form; TokValid.parse_valid) ----
   Guard ([rt_node_ok], at every node): int64 / uint64 in their C ranges; strings and names byte strings;
   doubles finite, and the strtod oracle reads the emitted token back as the double (for a double
   without retained text: sb (double_fixup fl (fmt17 bits)) = bits — the %.17g text, NOZERO-trimmed
   under NOZERO; [guard_of_strtod_ok] derives it from the same hypothesis stated for all doubles);
   a retained text is an RFC 8259 number token WITH a fraction or an exponent (what the parser
   retains; an integer-shaped text would come back as an int node) that strtod reads as the double;
   member names NUL-free and pairwise distinct (a json-c object cannot hold a name twice).
   For every flag word without COLOR, every depth limit D above the nesting of the tree, default AND
   strict mode: json-c re-parses its own output completely, the result is [reparsed] (a uint64 that
   fits int64 comes back as an int64 node, every double comes back with its text retained),
   json_object_equal to the original, and serializes to the same text. *)
From JC Require Import SerRoundtrip.
From JC Require TokModel EqModel.

Theorem C02_roundtrip : forall fmt17 sb, fmt17_ok fmt17 -> forall fl D strictf v t,
  color fl = false -> jv_Forall (rt_node_ok fmt17 sb fl) v ->
  Z.of_nat (jv_nest v) < D -> TokModel.tok_new D strictf false false = Some t ->
  exists t', TokModel.parse_ex_cstr sb t (serialize fmt17 fl 0 v) = TokModel.PR t' (Some (reparsed fmt17 fl v)) /\
             TokModel.err t' = TokModel.TE_success /\ TokModel.char_offset t' = zlen (serialize fmt17 fl 0 v) /\
             EqModel.jv_equal v (reparsed fmt17 fl v) = true /\
             serialize fmt17 fl 0 (reparsed fmt17 fl v) = serialize fmt17 fl 0 v.
Proof. exact roundtrip_all. Qed.
Print Assumptions C02_roundtrip.

(* the same in the words of [roundtrip_ok] (json_tokener_new(): depth 32, default mode): the full
   statement that C02_roundtrip_scalars_partial proves for scalars only *)
Theorem C02_roundtrip_ok : forall fmt17 sb, fmt17_ok fmt17 -> forall fl v,
  color fl = false -> jv_Forall (rt_node_ok fmt17 sb fl) v -> Z.of_nat (jv_nest v) < 32 ->
  roundtrip_ok fmt17 sb fl v.
Proof. exact roundtrip_ok_all. Qed.
Print Assumptions C02_roundtrip_ok.

Theorem C02_guard_of_strtod_ok : forall fmt17 sb fl v, strtod_ok fmt17 sb fl ->
  jv_Forall (fun x => match x with JDouble bits None => dbl_finite bits = true | _ => rt_node_ok fmt17 sb fl x end) v ->
  jv_Forall (rt_node_ok fmt17 sb fl) v.
Proof. exact guard_of_strtod_ok. Qed.
Print Assumptions C02_guard_of_strtod_ok.

(* non-vacuity of the guard: the example tree of section 3 meets it (with and without NOZERO) *)
Theorem C02_roundtrip_guard_example :
  jv_Forall (rt_node_ok ex_fmt17 ex_strtod flags_plain) ex_tree /\
  jv_Forall (rt_node_ok ex_fmt17 ex_strtod (mkfl false false true false false false)) ex_tree /\
  Z.of_nat (jv_nest ex_tree) < 32.
Proof. exact ex_tree_guard. Qed.
Print Assumptions C02_roundtrip_guard_example.
