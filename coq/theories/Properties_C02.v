(* placeholder, replaced below *)
From JC Require Import Base Value SerModel.
Theorem C02_placeholder : True. Proof. exact I. Qed.
Print Assumptions C02_placeholder.
