(* TokValidExtStr.v — C16, default mode: string bodies in either quote character, with raw
   control bytes (the lemmas of TokValidStr.v generalised over the quote character). *)
From JC Require Import Base BaseLemmas Value TokModel TokProofs TokSyntax TokValidBase TokValidLit TokValidStr TokSyntaxExt.
Local Open Scope Z_scope.

Definition qok (q : byte) : Prop := q = 34 \/ q = 39.

(* what finish_unicode does, by cases *)
Lemma emit_nonhigh_q q c sx S cur nm below p dbl sp uc hi off U l :
  0 <= U < 65536 -> is_high_surrogate U = false ->
  emit_unicode (T c (mksrec sx S cur nm :: below) (mkgb p dbl sp uc q) hi off) U l =
  Consumed (T c (mksrec S S cur nm :: below) (mkgb (p ++ (if is_low_surrogate U then utf8_replacement else utf8_ref U)) dbl sp uc q) hi off) l.
Proof.
  intros HU Hh. unfold emit_unicode. rewrite Hh. rewrite <- (utf8_encode_ref U) by lia.
  destruct (U <? 128) eqn:E1.
  { assert (El : is_low_surrogate U = false) by (unfold is_low_surrogate; lia). rewrite El.
    unfold utf8_encode. rewrite E1. reflexivity. }
  destruct (U <? 2048) eqn:E2.
  { assert (El : is_low_surrogate U = false) by (unfold is_low_surrogate; lia). rewrite El. reflexivity. }
  destruct (is_low_surrogate U) eqn:El; [reflexivity|].
  destruct (U <? 65536) eqn:E3; [reflexivity|lia].
Qed.

Lemma emit_high_q q c sx S cur nm below p dbl sp uc hi off U l :
  is_high_surrogate U = true ->
  emit_unicode (T c (mksrec sx S cur nm :: below) (mkgb p dbl sp uc q) hi off) U l =
  Consumed (T c (mksrec S_need_escape S cur nm :: below) (mkgb p dbl sp 0 q) U off) l.
Proof.
  intros Hh. unfold emit_unicode. rewrite Hh.
  assert (E1 : (U <? 128) = false) by (unfold is_high_surrogate in Hh; lia).
  assert (E2 : (U <? 2048) = false) by (unfold is_high_surrogate in Hh; lia).
  rewrite E1, E2. reflexivity.
Qed.

Lemma emit_pair_q q c sx S cur nm below p dbl sp uc hi off U l :
  65536 <= U < 1114112 ->
  emit_unicode (T c (mksrec sx S cur nm :: below) (mkgb p dbl sp uc q) hi off) U l =
  Consumed (T c (mksrec S S cur nm :: below) (mkgb (p ++ utf8_ref U) dbl sp uc q) hi off) l.
Proof.
  intros HU. unfold emit_unicode. rewrite <- (utf8_encode_ref U) by lia.
  assert (E1 : (U <? 128) = false) by lia. assert (E2 : (U <? 2048) = false) by lia.
  assert (E3 : is_high_surrogate U = false) by (unfold is_high_surrogate; lia).
  assert (E4 : is_low_surrogate U = false) by (unfold is_low_surrogate; lia).
  assert (E5 : (U <? 65536) = false) by lia. assert (E6 : (U <? 1114112) = true) by lia.
  rewrite E1, E2, E3, E4, E5, E6. reflexivity.
Qed.

Lemma fin_plain_nonhigh_q q c S cur nm below p dbl U off l :
  0 <= U < 65536 -> is_high_surrogate U = false ->
  finish_unicode (T c (mksrec S_escape_unicode S cur nm :: below) (mkgb p dbl 4 U q) 0 off) l =
  Consumed (T c (mksrec S S cur nm :: below) (mkgb (p ++ (if is_low_surrogate U then utf8_replacement else utf8_ref U)) dbl 0 U q) 0 off) l.
Proof.
  intros HU Hh. unfold finish_unicode, resolve_pair. cbn [high_surrogate set_st_pos T Z.eqb negb fst snd ucs_char g_ucs].
  apply (emit_nonhigh_q q c S_escape_unicode S cur nm below p dbl 0 U 0 off U l HU Hh).
Qed.

Lemma fin_plain_high_q q c S cur nm below p dbl U off l :
  is_high_surrogate U = true ->
  finish_unicode (T c (mksrec S_escape_unicode S cur nm :: below) (mkgb p dbl 4 U q) 0 off) l =
  Consumed (T c (mksrec S_need_escape S cur nm :: below) (mkgb p dbl 0 0 q) U off) l.
Proof.
  intros Hh. unfold finish_unicode, resolve_pair. cbn [high_surrogate set_st_pos T Z.eqb negb fst snd ucs_char g_ucs].
  apply (emit_high_q q c S_escape_unicode S cur nm below p dbl 0 U 0 off U l Hh).
Qed.

Lemma fin_pend_low_q q c S cur nm below p dbl U h off l :
  is_high_surrogate h = true -> is_low_surrogate U = true ->
  finish_unicode (T c (mksrec S_escape_unicode S cur nm :: below) (mkgb p dbl 4 U q) h off) l =
  Consumed (T c (mksrec S S cur nm :: below) (mkgb (p ++ utf8_ref (pair_scalar h U)) dbl 0 (pair_scalar h U) q) 0 off) l.
Proof.
  intros Hh Hl. unfold finish_unicode, resolve_pair. cbn [high_surrogate set_st_pos T fst snd ucs_char g_ucs].
  rewrite (high_nonzero h Hh). cbn [negb]. rewrite Hl. cbn [fst snd].
  assert (Hhr : 55296 <= h < 56320) by (unfold is_high_surrogate in Hh; lia).
  assert (Hlr : 56320 <= U < 57344) by (unfold is_low_surrogate in Hl; lia).
  rewrite (decode_pair_val h U Hhr Hlr). fold (pair_scalar h U).
  apply (emit_pair_q q c S_escape_unicode S cur nm below p dbl 0 (pair_scalar h U) 0 off (pair_scalar h U) l).
  unfold pair_scalar. lia.
Qed.

Lemma fin_pend_high_q q c S cur nm below p dbl U h off l :
  is_high_surrogate h = true -> is_high_surrogate U = true ->
  finish_unicode (T c (mksrec S_escape_unicode S cur nm :: below) (mkgb p dbl 4 U q) h off) l =
  Consumed (T c (mksrec S_need_escape S cur nm :: below) (mkgb (p ++ utf8_replacement) dbl 0 0 q) U off) l.
Proof.
  intros Hh HU. unfold finish_unicode, resolve_pair. cbn [high_surrogate set_st_pos T fst snd ucs_char g_ucs].
  rewrite (high_nonzero h Hh). cbn [negb]. rewrite (high_not_low U HU). cbn [fst snd].
  apply (emit_high_q q c S_escape_unicode S cur nm below (p ++ utf8_replacement) dbl 0 U 0 off U l HU).
Qed.

Lemma fin_pend_other_q q c S cur nm below p dbl U h off l :
  is_high_surrogate h = true -> 0 <= U < 65536 -> is_high_surrogate U = false -> is_low_surrogate U = false ->
  finish_unicode (T c (mksrec S_escape_unicode S cur nm :: below) (mkgb p dbl 4 U q) h off) l =
  Consumed (T c (mksrec S S cur nm :: below) (mkgb ((p ++ utf8_replacement) ++ utf8_ref U) dbl 0 U q) 0 off) l.
Proof.
  intros Hh HU HUh HUl. unfold finish_unicode, resolve_pair. cbn [high_surrogate set_st_pos T fst snd ucs_char g_ucs].
  rewrite (high_nonzero h Hh). cbn [negb]. rewrite HUl. cbn [fst snd].
  pose proof (emit_nonhigh_q q c S_escape_unicode S cur nm below (p ++ utf8_replacement) dbl 0 U 0 off U l HU HUh) as E.
  rewrite HUl in E. exact E.
Qed.

Section S.
Variable sb : list byte -> Z.

(* raw byte *)
Lemma redo_raw_q q c f S b svx cur nm below p dbl sp uc off nb lo :
  str_state S -> c_sf c = false -> (1 <= f)%nat -> wf_xschar q (CRaw b) = true ->
  redo sb f (T c (mksrec S svx cur nm :: below) (mkgb p dbl sp uc q) 0 off) (mkloc b nb lo None) =
  Some (Consumed (T c (mksrec S svx cur nm :: below) (mkgb (p ++ [b]) dbl sp uc q) 0 off) (mkloc b nb lo None)).
Proof.
  intros HS Hc Hf Hb. fuel f. cbn [wf_xschar] in Hb.
  assert (E1 : (b =? q) = false) by lia. assert (E2 : (b =? 92) = false) by lia.
  cbn [redo]. unfold step1.
  destruct HS as [->| ->]; cbn [st top stack T s_state lc quote_char g_q strict]; rewrite E1, E2, Hc; reflexivity.
Qed.

(* hex digits 1..3 *)
Lemma redo_hex_q q c f S d k cur nm below p dbl uc hi off nb lo :
  (1 <= f)%nat -> is_hex d = true -> (k = 0 \/ k = 1 \/ k = 2) ->
  redo sb f (T c (mksrec S_escape_unicode S cur nm :: below) (mkgb p dbl k uc q) hi off) (mkloc d nb lo None) =
  Some (Consumed (T c (mksrec S_escape_unicode S cur nm :: below) (mkgb p dbl (k + 1) (uc + hexval d * 2 ^ ((3 - k) * 4)) q) hi off) (mkloc d nb lo None)).
Proof.
  intros Hf Hd Hk. fuel f. destruct (hexdigit_hexval d Hd) as [<- _].
  cbn [redo]. unfold step1. cbn [st top stack T s_state lc]. rewrite Hd. cbn [negb].
  cbn [set_ucs set_st_pos st_pos ucs_char T g_sp g_ucs].
  destruct Hk as [->|[->| ->]]; reflexivity.
Qed.
Lemma step_hex4_q q c S d cur nm below p dbl uc hi off nb lo :
  is_hex d = true ->
  step1 sb (T c (mksrec S_escape_unicode S cur nm :: below) (mkgb p dbl 3 uc q) hi off) (mkloc d nb lo None) =
  finish_unicode (T c (mksrec S_escape_unicode S cur nm :: below) (mkgb p dbl 4 (uc + hexval d) q) hi off) (mkloc d nb lo None).
Proof.
  intros Hd. destruct (hexdigit_hexval d Hd) as [<- _].
  unfold step1. cbn [st top stack T s_state lc]. rewrite Hd. cbn [negb].
  cbn [set_ucs set_st_pos st_pos ucs_char T g_sp g_ucs]. 
  change (3 + 1 >=? 4) with true. cbv iota.
  replace (hexdigit d * 2 ^ ((3 - 3) * 4)) with (hexdigit d) by (change (2 ^ ((3 - 3) * 4)) with 1; lia).
  reflexivity.
Qed.

(* ---------------------------------------------------------------- the same, for the loop *)
Lemma run_raw_q q c f S b more svx cur nm below p dbl sp uc off x nb lo :
  str_state S -> c_sf c = false -> (1 <= f)%nat -> wf_xschar q (CRaw b) = true ->
  run_f sb f (b :: more) (T c (mksrec S svx cur nm :: below) (mkgb p dbl sp uc q) 0 off) (mkloc x nb lo None) =
  run_f sb REDO_FUEL more (T c (mksrec S svx cur nm :: below) (mkgb (p ++ [b]) dbl sp uc q) 0 (off + 1)) (mkloc b nb lo None).
Proof.
  intros HS Hc Hf Hb. apply runT_C; [cbn [wf_xschar] in Hb; lia|]. apply redo_raw_q; assumption.
Qed.

Lemma run_bs_q q c f S more svx cur nm below p dbl sp uc off x nb lo :
  qok q -> str_state S -> (1 <= f)%nat ->
  run_f sb f (92 :: more) (T c (mksrec S svx cur nm :: below) (mkgb p dbl sp uc q) 0 off) (mkloc x nb lo None) =
  run_f sb REDO_FUEL more (T c (mksrec S_string_escape S cur nm :: below) (mkgb p dbl sp uc q) 0 (off + 1)) (mkloc 92 nb lo None).
Proof.
  intros Hq HS Hf. fuel f. destruct c as [md sf al].
  destruct Hq as [->| ->]; destruct HS as [->| ->]; destruct sf; stepC; reflexivity.
Qed.

Lemma run_esc_q q c f S e more cur nm below p dbl sp uc off x nb lo :
  str_state S -> (1 <= f)%nat ->
  run_f sb f (render_esc e :: more) (T c (mksrec S_string_escape S cur nm :: below) (mkgb p dbl sp uc q) 0 off) (mkloc x nb lo None) =
  run_f sb REDO_FUEL more (T c (mksrec S S cur nm :: below) (mkgb (p ++ [esc_byte e]) dbl sp uc q) 0 (off + 1)) (mkloc (render_esc e) nb lo None).
Proof.
  intros HS Hf. fuel f. destruct c as [md sf al].
  destruct HS as [->| ->]; destruct sf, e; cbn [render_esc esc_byte]; stepC; reflexivity.
Qed.

Lemma run_u_q q c f S more cur nm below p dbl sp uc hi off x nb lo :
  (1 <= f)%nat ->
  run_f sb f (117 :: more) (T c (mksrec S_string_escape S cur nm :: below) (mkgb p dbl sp uc q) hi off) (mkloc x nb lo None) =
  run_f sb REDO_FUEL more (T c (mksrec S_escape_unicode S cur nm :: below) (mkgb p dbl 0 0 q) hi (off + 1)) (mkloc 117 nb lo None).
Proof.
  intros Hf. fuel f. destruct c as [md sf al]. destruct sf; stepC; reflexivity.
Qed.

Lemma run_hex3_q q c f S d1 d2 d3 more cur nm below p dbl hi off x nb lo :
  (1 <= f)%nat -> is_hex d1 = true -> is_hex d2 = true -> is_hex d3 = true ->
  run_f sb f (d1 :: d2 :: d3 :: more) (T c (mksrec S_escape_unicode S cur nm :: below) (mkgb p dbl 0 0 q) hi off) (mkloc x nb lo None) =
  run_f sb REDO_FUEL more (T c (mksrec S_escape_unicode S cur nm :: below)
                             (mkgb p dbl 3 (hexval d1 * 4096 + hexval d2 * 256 + hexval d3 * 16) q) hi (off + 1 + 1 + 1)) (mkloc d3 nb lo None).
Proof.
  intros Hf H1 H2 H3.
  assert (N0 : forall d, is_hex d = true -> (d =? 0) = false) by (intros d Hd; apply is_hex_cases in Hd; lia).
  erewrite runT_C; [|apply N0; exact H1|apply redo_hex_q; [exact Hf|exact H1|left; reflexivity]].
  erewrite runT_C; [|apply N0; exact H2|apply redo_hex_q; [unfold REDO_FUEL; lia|exact H2|right; left; reflexivity]].
  erewrite runT_C; [|apply N0; exact H3|apply redo_hex_q; [unfold REDO_FUEL; lia|exact H3|right; right; reflexivity]].
  reflexivity.
Qed.

(* the fourth digit, according to what finish_unicode does *)
Lemma run_hex4_q q c f S d4 more cur nm below p dbl uc hi off x nb lo t' :
  (1 <= f)%nat -> is_hex d4 = true ->
  finish_unicode (T c (mksrec S_escape_unicode S cur nm :: below) (mkgb p dbl 4 (uc + hexval d4) q) hi off) (mkloc d4 nb lo None) =
    Consumed t' (mkloc d4 nb lo None) ->
  forall stk' p' d' s' u' q' hi', t' = T c stk' (mkgb p' d' s' u' q') hi' off ->
  run_f sb f (d4 :: more) (T c (mksrec S_escape_unicode S cur nm :: below) (mkgb p dbl 3 uc q) hi off) (mkloc x nb lo None) =
  run_f sb REDO_FUEL more (T c stk' (mkgb p' d' s' u' q') hi' (off + 1)) (mkloc d4 nb lo None).
Proof.
  intros Hf Hd Hfin stk' p' d' s' u' q' hi' ->.
  apply runT_C; [apply is_hex_cases in Hd; lia|]. fuel f. cbn [redo]. rewrite step_hex4_q by exact Hd. rewrite Hfin. reflexivity.
Qed.

(* a pending high surrogate is given up *)
Lemma run_need_flush_q q c f S b more cur nm below p dbl h off x nb lo :
  (b =? 92) = false ->
  run_f sb (Datatypes.S f) (b :: more) (T c (mksrec S_need_escape S cur nm :: below) (mkgb p dbl 0 0 q) h off) (mkloc x nb lo None) =
  run_f sb f (b :: more) (T c (mksrec S S cur nm :: below) (mkgb (p ++ utf8_replacement) dbl 0 0 q) 0 off) (mkloc b nb lo None).
Proof.
  intros Hb. apply runT_R. unfold step1. cbn [st top stack T s_state lc]. rewrite Hb. reflexivity.
Qed.

Lemma run_need_bs_q q c f S more cur nm below p dbl h off x nb lo :
  (1 <= f)%nat ->
  run_f sb f (92 :: more) (T c (mksrec S_need_escape S cur nm :: below) (mkgb p dbl 0 0 q) h off) (mkloc x nb lo None) =
  run_f sb REDO_FUEL more (T c (mksrec S_need_u S cur nm :: below) (mkgb p dbl 0 0 q) h (off + 1)) (mkloc 92 nb lo None).
Proof.
  intros Hf. fuel f. destruct c as [md sf al]. destruct sf; stepC; reflexivity.
Qed.

Lemma run_needu_flush_q q c f S e more cur nm below p dbl h off x nb lo :
  run_f sb (Datatypes.S f) (render_esc e :: more) (T c (mksrec S_need_u S cur nm :: below) (mkgb p dbl 0 0 q) h off) (mkloc x nb lo None) =
  run_f sb f (render_esc e :: more) (T c (mksrec S_string_escape S cur nm :: below) (mkgb (p ++ utf8_replacement) dbl 0 0 q) 0 off)
        (mkloc (render_esc e) nb lo None).
Proof.
  apply runT_R. destruct e; reflexivity.
Qed.

Lemma run_needu_u_q q c f S more cur nm below p dbl h off x nb lo :
  (1 <= f)%nat ->
  run_f sb f (117 :: more) (T c (mksrec S_need_u S cur nm :: below) (mkgb p dbl 0 0 q) h off) (mkloc x nb lo None) =
  run_f sb REDO_FUEL more (T c (mksrec S_escape_unicode S cur nm :: below) (mkgb p dbl 0 0 q) h (off + 1)) (mkloc 117 nb lo None).
Proof.
  intros Hf. fuel f. destruct c as [md sf al]. destruct sf; stepC; reflexivity.
Qed.

End S.

(* ---------------------------------------------------------------- one character of a string *)
(* the tokener inside a string body: no surrogate pending (state S, any saved state) or a
   high surrogate pending (state need_escape, saved S) *)
Definition SSq (q : byte) (c : cf) (S : tstate) (below : list srec) (cur : jv) (nm : option (list byte))
    (hi : Z) (p : list byte) (svx : tstate) (dbl : bool) (sp uc : Z) (off : Z) : tok :=
  if hi =? 0 then T c (mksrec S svx cur nm :: below) (mkgb p dbl sp uc q) 0 off
  else T c (mksrec S_need_escape S cur nm :: below) (mkgb p dbl 0 0 q) hi off.

Definition hi_ok (hi : Z) : Prop := hi = 0 \/ is_high_surrogate hi = true.

Section S3.
Variable sb : list byte -> Z.

Lemma str_char_q q c S ch : qok q -> str_state S -> c_sf c = false -> wf_xschar q ch = true ->
  forall f hi p svx dbl sp uc below cur nm off x nb lo more,
  (8 <= f)%nat -> hi_ok hi ->
  exists x' svx' sp' uc', hi_ok (snd (dstep hi ch)) /\
   run_f sb f (render_schar ch ++ more) (SSq q c S below cur nm hi p svx dbl sp uc off) (mkloc x nb lo None) =
   run_f sb REDO_FUEL more (SSq q c S below cur nm (snd (dstep hi ch)) (p ++ fst (dstep hi ch)) svx' dbl sp' uc'
                               (off + zlen (render_schar ch))) (mkloc x' nb lo None).
Proof.
  intros Hq HS Hc Hw f hi p svx dbl sp uc below cur nm off x nb lo more Hf Hhi.
  assert (F1 : (1 <= f)%nat) by lia. assert (F16 : (1 <= REDO_FUEL)%nat) by (unfold REDO_FUEL; lia).
  destruct Hhi as [->|Hh].
  - (* nothing pending *)
    unfold SSq at 1. cbn [Z.eqb].
    destruct ch as [b|e|d1 d2 d3 d4]; cbn [render_schar app zlen].
    + rewrite run_raw_q by assumption. exists b, svx, sp, uc. split; [left; reflexivity|]. reflexivity.
    + rewrite run_bs_q by assumption. rewrite run_esc_q by assumption.
      exists (render_esc e), S, sp, uc. split; [left; reflexivity|].
      replace (off + (1 + (1 + 0))) with (off + 1 + 1) by lia. reflexivity.
    + cbn [wf_xschar] in Hw. apply andb_true_iff in Hw. destruct Hw as [Hw H4]. apply andb_true_iff in Hw. destruct Hw as [Hw H3].
      apply andb_true_iff in Hw. destruct Hw as [H1 H2].
      pose proof (code_unit_range d1 d2 d3 d4 H1 H2 H3 H4) as HU.
      rewrite run_bs_q by assumption. rewrite run_u_q by assumption. rewrite run_hex3_q by assumption.
      replace (off + (1 + (1 + (1 + (1 + (1 + (1 + 0))))))) with (off + 1 + 1 + 1 + 1 + 1 + 1) by lia.
      cbn [dstep]. cbv zeta. cbn [Z.eqb negb andb].
      change (hexval d1 * 4096 + hexval d2 * 256 + hexval d3 * 16 + hexval d4) with (code_unit d1 d2 d3 d4).
      set (U := code_unit d1 d2 d3 d4) in *.
      destruct (is_high_surrogate U) eqn:EU; cbn [fst snd].
      * erewrite run_hex4_q; [|exact F16|exact H4|apply fin_plain_high_q; exact EU|reflexivity].
        exists d4, S, 0, 0. split; [right; exact EU|]. unfold SSq. rewrite (high_nonzero U EU).
        unfold flush. cbn [Z.eqb]. rewrite app_nil_r. reflexivity.
      * erewrite run_hex4_q; [|exact F16|exact H4|apply fin_plain_nonhigh_q; [exact HU|exact EU]|reflexivity].
        exists d4, S, 0, U. split; [left; reflexivity|]. reflexivity.
  - (* a high surrogate is pending *)
    pose proof (high_nonzero hi Hh) as Hz. unfold SSq at 1. rewrite Hz.
    destruct ch as [b|e|d1 d2 d3 d4]; cbn [render_schar app zlen].
    + fuel f. rewrite run_need_flush_q by (cbn [wf_xschar] in Hw; lia).
      rewrite run_raw_q; [|exact HS|exact Hc|lia|exact Hw].
      exists b, S, 0, 0. split; [left; reflexivity|]. cbn [dstep fst snd]. unfold flush. rewrite Hz.
      unfold SSq. cbn [Z.eqb]. rewrite app_assoc. reflexivity.
    + rewrite run_need_bs_q by assumption. unfold REDO_FUEL at 1. rewrite run_needu_flush_q.
      rewrite run_esc_q; [|exact HS|lia].
      exists (render_esc e), S, 0, 0. split; [left; reflexivity|]. cbn [dstep fst snd]. unfold flush. rewrite Hz.
      unfold SSq. cbn [Z.eqb]. rewrite app_assoc.
      replace (off + (1 + (1 + 0))) with (off + 1 + 1) by lia. reflexivity.
    + cbn [wf_xschar] in Hw. apply andb_true_iff in Hw. destruct Hw as [Hw H4]. apply andb_true_iff in Hw. destruct Hw as [Hw H3].
      apply andb_true_iff in Hw. destruct Hw as [H1 H2].
      pose proof (code_unit_range d1 d2 d3 d4 H1 H2 H3 H4) as HU.
      rewrite run_need_bs_q by assumption. rewrite run_needu_u_q by assumption. rewrite run_hex3_q by assumption.
      replace (off + (1 + (1 + (1 + (1 + (1 + (1 + 0))))))) with (off + 1 + 1 + 1 + 1 + 1 + 1) by lia.
      cbn [dstep]. cbv zeta. rewrite Hz. cbn [negb andb].
      change (hexval d1 * 4096 + hexval d2 * 256 + hexval d3 * 16 + hexval d4) with (code_unit d1 d2 d3 d4).
      set (U := code_unit d1 d2 d3 d4) in *.
      destruct (is_low_surrogate U) eqn:EL; cbn [fst snd].
      { erewrite run_hex4_q; [|exact F16|exact H4|apply fin_pend_low_q; [exact Hh|exact EL]|reflexivity].
        exists d4, S, 0, (pair_scalar hi U). split; [left; reflexivity|]. reflexivity. }
      destruct (is_high_surrogate U) eqn:EU; cbn [fst snd].
      * erewrite run_hex4_q; [|exact F16|exact H4|apply fin_pend_high_q; [exact Hh|exact EU]|reflexivity].
        exists d4, S, 0, 0. split; [right; exact EU|]. unfold SSq. rewrite (high_nonzero U EU).
        unfold flush. rewrite Hz. reflexivity.
      * erewrite run_hex4_q; [|exact F16|exact H4|apply fin_pend_other_q; [exact Hh|exact HU|exact EU|exact EL]|reflexivity].
        exists d4, S, 0, U. split; [left; reflexivity|]. unfold flush. rewrite Hz.
        unfold SSq. cbn [Z.eqb]. rewrite app_assoc. reflexivity.
Qed.

(* ---------------------------------------------------------------- a whole string body *)
Lemma str_body_q q c S cs : qok q -> str_state S -> c_sf c = false -> wf_xchars q cs = true ->
  forall f hi p svx dbl sp uc below cur nm off x nb lo more,
  (8 <= f)%nat -> hi_ok hi ->
  exists f' x' hi' pend svx' sp' uc', (8 <= f')%nat /\ hi_ok hi' /\ p ++ dec hi cs = pend ++ flush hi' /\
   run_f sb f (render_chars cs ++ more) (SSq q c S below cur nm hi p svx dbl sp uc off) (mkloc x nb lo None) =
   run_f sb f' more (SSq q c S below cur nm hi' pend svx' dbl sp' uc' (off + zlen (render_chars cs))) (mkloc x' nb lo None).
Proof.
  intros Hq HS Hc. induction cs as [|ch r IH]; intros Hw f hi p svx dbl sp uc below cur nm off x nb lo more Hf Hhi.
  - exists f, x, hi, p, svx, sp, uc. split; [exact Hf|]. split; [exact Hhi|]. split; [reflexivity|].
    cbn [render_chars flat_map app zlen]. rewrite Z.add_0_r. reflexivity.
  - cbn [wf_xchars forallb] in Hw. apply andb_true_iff in Hw. destruct Hw as [Hch Hr].
    change (render_chars (ch :: r)) with (render_schar ch ++ render_chars r). rewrite <- app_assoc.
    destruct (str_char_q q c S ch Hq HS Hc Hch f hi p svx dbl sp uc below cur nm off x nb lo (render_chars r ++ more) Hf Hhi)
      as (x1 & svx1 & sp1 & uc1 & Hhi1 & ->).
    destruct (IH Hr REDO_FUEL (snd (dstep hi ch)) (p ++ fst (dstep hi ch)) svx1 dbl sp1 uc1 below cur nm
                 (off + zlen (render_schar ch)) x1 nb lo more) as (f' & x' & hi' & pend & svx' & sp' & uc' & Hf' & Hhi' & Hp & ->);
      [unfold REDO_FUEL; lia|exact Hhi1|].
    exists f', x', hi', pend, svx', sp', uc'. split; [exact Hf'|]. split; [exact Hhi'|]. split.
    + rewrite <- Hp. cbn [dec]. rewrite app_assoc. reflexivity.
    + rewrite zlen_app, Z.add_assoc. reflexivity.
Qed.

(* the closing quote *)
Lemma str_close_q q c S : qok q -> str_state S ->
  forall f hi pend svx dbl sp uc below cur nm off x nb lo more,
  (8 <= f)%nat -> hi_ok hi ->
  exists g',
   run_f sb f (q :: more) (SSq q c S below cur nm hi pend svx dbl sp uc off) (mkloc x nb lo None) =
   run_f sb REDO_FUEL more (T c (close_top S cur nm (pend ++ flush hi) :: below) g' 0 (off + 1)) (mkloc q nb lo None).
Proof.
  intros Hq HS f hi pend svx dbl sp uc below cur nm off x nb lo more Hf Hhi.
  assert (P : forall f p svx sp uc x, (2 <= f)%nat -> exists g',
    run_f sb f (q :: more) (T c (mksrec S svx cur nm :: below) (mkgb p dbl sp uc q) 0 off) (mkloc x nb lo None) =
    run_f sb REDO_FUEL more (T c (close_top S cur nm p :: below) g' 0 (off + 1)) (mkloc q nb lo None)).
  { clear - HS Hq. intros f p svx sp uc x Hf. fuel f. destruct c as [md sf al]. eexists (mkgb _ _ _ _ _).
    destruct Hq as [->| ->]; destruct HS as [->| ->]; destruct sf; cbn [close_top]; stepC; reflexivity. }
  destruct Hhi as [->|Hh].
  - unfold SSq, flush. cbn [Z.eqb]. rewrite app_nil_r. apply P. lia.
  - unfold SSq, flush. rewrite (high_nonzero hi Hh). fuel f.
    rewrite run_need_flush_q by (destruct Hq as [->| ->]; reflexivity). apply P. lia.
Qed.

End S3.
