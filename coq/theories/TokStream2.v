(* TokStream2.v — streams of several documents fed in chunks (C03, last clause).
   [feed_docs] is the caller's loop over a list of chunks (parse; on success hand out the value and
   go on at the reported end; on continue take the next chunk; on error stop).
   [stream_chunks]: from a new tokener (non-strict, or strict with ALLOW_TRAILING_CHARS) the loop
   over the chunks hands out the documents of the loop over the whole buffer and ends with the
   same error, up to one legitimate difference: a cut between the end of a document and the
   blanks/comment behind it hands that document out one call earlier, so that the chunked loop
   may be one document ahead when the whole-buffer call ends inside an unterminated comment or
   fails in the bytes behind the document.
   Condition on the chunks: no NUL byte; with JSON_TOKENER_VALIDATE_UTF8, no cut inside a
   multi-byte sequence ([chunk_ok]; [u8_cut_refuted] shows that this is needed).
   Proof: a two-mode simulation between the whole-buffer call and the chunked calls at the same
   byte — SYNC (same tokener up to err/char_offset, [peq]) and AHEAD (same blank/comment state
   at depth 0, the whole-buffer side still holding the value) — by induction on the bytes left
   ([sync_ahead]); [resume_independent] generalises chunk_independent to any point of a call. *)
From JC Require Import Base BaseLemmas Value TokModel TokFrame TokStack TokTotal TokReset TokOff TokSim TokChunk TokSim2
  TokChunk2 TokChunk3 TokDead TokDead2 TokStream TokFd TokStrictTrail.
Local Open Scope Z_scope.

(* ---------------------------------------------------------------- bytes, tokeners up to err/offset *)
(* the tokener's UTF-8 validator run over a list of bytes: None = an invalid sequence,
   Some n = n continuation bytes still expected *)
Fixpoint u8scan (n : Z) (c : list byte) : option Z :=
  match c with
  | [] => Some n
  | b :: r => match validate_utf8_step b n with Some n' => u8scan n' r | None => None end
  end.

Definition nonulP (c : list byte) : Prop := Forall (fun b => b <> 0) c.

(* a chunk: no NUL byte, and with UTF-8 validation on it does not end inside a multi-byte
   sequence (it consists of complete sequences, or contains an invalid one); see u8_cut_refuted *)
Definition chunk_ok (vf : bool) (c : list byte) : Prop :=
  nonulP c /\ (vf = true -> u8scan 0 c = Some 0 \/ u8scan 0 c = None).

Lemma chunk_ok_nonul vf c : chunk_ok vf c -> nonulP c. Proof. intros [H _]; exact H. Qed.
Lemma chunk_ok_nil vf : chunk_ok vf []. Proof. split; [constructor|]. intros _. left. reflexivity. Qed.

Lemma u8scan_app a : forall n b, u8scan n (a ++ b) = match u8scan n a with Some m => u8scan m b | None => None end.
Proof.
  induction a as [|x a IH]; intros n b; [reflexivity|]. cbn [app u8scan].
  destruct (validate_utf8_step x n); [apply IH|reflexivity].
Qed.

(* an ASCII byte is accepted only outside a multi-byte sequence *)
Lemma ascii_step x n m : x < 128 -> validate_utf8_step x n = Some m -> n = 0 /\ m = 0.
Proof.
  intros Hx. unfold validate_utf8_step. destruct (n =? 0) eqn:En.
  - assert (E : (x >=? 128) = false) by (rewrite Z.geb_leb; lia). rewrite E. intros H; inversion H. lia.
  - destruct (x / 64 =? 2) eqn:E; [|discriminate]. exfalso.
    assert (H2 : x / 64 = 2) by lia. clear E En. Z.div_mod_to_equations. lia.
Qed.
(* a byte that opens a multi-byte sequence is not ASCII *)
Lemma lead_step x m : validate_utf8_step x 0 = Some m -> m <> 0 -> 128 <= x.
Proof.
  unfold validate_utf8_step. cbn [Z.eqb]. destruct (x >=? 128) eqn:E; [rewrite Z.geb_leb in E; lia|].
  intros H; inversion H. lia.
Qed.
Lemma zero_step x : validate_utf8_step x 0 = Some 0 -> x < 128.
Proof.
  unfold validate_utf8_step. cbn [Z.eqb]. destruct (x >=? 128) eqn:E; [|rewrite Z.geb_leb in E; lia].
  destruct (x / 32 =? 6); [discriminate|]. destruct (x / 16 =? 14); [discriminate|]. destruct (x / 8 =? 30); discriminate.
Qed.
(* a byte that ends a multi-byte sequence does not start one *)
Lemma cont_step x n : n <> 0 -> validate_utf8_step x n = Some 0 -> validate_utf8_step x 0 = None.
Proof.
  intros Hn. unfold validate_utf8_step. assert (En : (n =? 0) = false) by lia. rewrite En. cbn [Z.eqb].
  destruct (x / 64 =? 2) eqn:E; [|discriminate]. intros _.
  assert (H2 : x / 64 = 2) by lia.
  assert (Hx : 128 <= x < 192) by (clear E En; Z.div_mod_to_equations; lia).
  assert (E1 : (x >=? 128) = true) by (rewrite Z.geb_leb; lia). rewrite E1.
  assert (ABC : x / 32 < 6 /\ x / 16 < 14 /\ x / 8 < 30) by (clear E En E1 H2; Z.div_mod_to_equations; lia).
  destruct ABC as (A & B & C).
  assert (E2 : (x / 32 =? 6) = false) by lia. assert (E3 : (x / 16 =? 14) = false) by lia.
  assert (E4 : (x / 8 =? 30) = false) by lia. rewrite E2, E3, E4. reflexivity.
Qed.

(* what a call makes of the tokener before it looks at it *)
Definition tnorm (t : tok) : tok := set_err (set_off t 0) TE_success.
Definition peq (t1 t2 : tok) : Prop := tnorm t1 = tnorm t2.
Definition loc0 : locals := mkloc 1 0 JNull None.

Lemma peq_refl t : peq t t. Proof. reflexivity. Qed.
Lemma peq_sym a b : peq a b -> peq b a. Proof. unfold peq; congruence. Qed.
Lemma peq_trans a b c : peq a b -> peq b c -> peq a c. Proof. unfold peq; congruence. Qed.
Lemma peq_set_err t e : peq (set_err t e) t. Proof. reflexivity. Qed.
Lemma peq_set_off t k : peq (set_off t k) t. Proof. reflexivity. Qed.
Lemma peq_toff t d : peq (toff t d) t. Proof. reflexivity. Qed.
Lemma peq_norm t : peq (tnorm t) t. Proof. reflexivity. Qed.
Lemma peq_stack a b : peq a b -> stack a = stack b.
Proof. intros H. change (stack (tnorm a) = stack (tnorm b)). rewrite H. reflexivity. Qed.
Lemma peq_cfg0 a b : peq a b -> cfg0 a = cfg0 b.
Proof. intros H. change (cfg0 (tnorm a) = cfg0 (tnorm b)). rewrite H. reflexivity. Qed.
Lemma peq_high a b : peq a b -> high_surrogate a = high_surrogate b.
Proof. intros H. change (high_surrogate (tnorm a) = high_surrogate (tnorm b)). rewrite H. reflexivity. Qed.

Lemma zskipn_shift {A} (a b : list A) k : 0 <= k -> zskipn (zlen a + k) (a ++ b) = zskipn k b.
Proof. intros H. rewrite zskipn_app_r by lia. f_equal. lia. Qed.

Lemma length_zskipn_le {A} k (c : list A) : (length (zskipn k c) <= length c)%nat.
Proof. unfold zskipn. rewrite skipn_length. lia. Qed.
Lemma length_zskipn_lt {A} k (c : list A) : 1 <= k -> c <> [] -> (length (zskipn k c) < length c)%nat.
Proof. intros H Hc. unfold zskipn. rewrite skipn_length. destruct c; [congruence|]. cbn [length]. lia. Qed.

(* the code after out: when the last byte looked at is not NUL and trailing bytes are allowed *)
Lemma finish_call_nz t l :
  lc l <> 0 -> mode_ok (strict t) (allow_trailing t) = true ->
  finish_call t l =
  let t' := if validate_utf8 t && negb (nbytes l =? 0) then set_err t TE_utf8 else t in
  match err t' with
  | TE_success => PR (reset_levels t') (Some (s_cur (top t')))
  | _ => PR t' None end.
Proof.
  intros Hc Hm. unfold finish_call. cbv zeta.
  set (a := if validate_utf8 t && negb (nbytes l =? 0) then set_err t TE_utf8 else t).
  assert (Ha : strict a = strict t /\ allow_trailing a = allow_trailing t) by (subst a; destruct (validate_utf8 t && negb (nbytes l =? 0)); split; reflexivity).
  destruct Ha as [Ha1 Ha2].
  assert (E2 : forall X, (X && strict a && negb (allow_trailing a)) = false).
  { intros X. rewrite Ha1, Ha2. unfold mode_ok in Hm. destruct (strict t), (allow_trailing t); cbn in Hm |- *; try discriminate;
      rewrite ?andb_false_r; reflexivity. }
  rewrite E2.
  assert (E3 : (lc l =? 0) = false) by lia. rewrite E3. cbn [andb]. reflexivity.
Qed.

Lemma finish_call_plain t l :
  nbytes l = 0 -> lc l <> 0 -> mode_ok (strict t) (allow_trailing t) = true ->
  finish_call t l = match err t with
                    | TE_success => PR (reset_levels t) (Some (s_cur (top t)))
                    | _ => PR t None end.
Proof.
  intros Hn Hc Hm. rewrite (finish_call_nz t l Hc Hm). rewrite Hn. cbn [Z.eqb negb]. rewrite andb_false_r. reflexivity.
Qed.

(* a value is returned only outside a multi-byte sequence *)
Lemma finish_success_nb t l t' v : finish_call t l = PR t' (Some v) -> validate_utf8 t = true -> nbytes l = 0.
Proof.
  intros E Hv. unfold finish_call in E. rewrite Hv in E. cbn [andb] in E.
  destruct (nbytes l =? 0) eqn:En; [lia|]. cbn [negb] in E.
  match type of E with context [if ?b then set_err ?x TE_unexpected else _] => destruct b end;
  match type of E with context [if ?b then set_err ?x TE_eof else _] => destruct b end;
  cbn [err set_err] in E; discriminate.
Qed.

Lemma fc_step (c : bool) t d e : (if c then set_err (toff t d) e else toff t d) = toff (if c then set_err t e else t) d.
Proof. destruct c; reflexivity. Qed.

Lemma fc_step2 (c : bool) t d e : (if c then toff (set_err t e) d else toff t d) = toff (if c then set_err t e else t) d.
Proof. destruct c; reflexivity. Qed.

Lemma finish_call_toff x d l : finish_call (toff x d) l = pres_map (fun y => toff y d) (finish_call x l).
Proof.
  unfold finish_call. cbv zeta.
  change (validate_utf8 (toff x d)) with (validate_utf8 x). rewrite fc_step.
  set (a := if validate_utf8 x && negb (nbytes l =? 0) then set_err x TE_utf8 else x).
  autorewrite with tokoff. rewrite fc_step2.
  match goal with |- context [toff (if ?c then set_err a TE_unexpected else a) d] =>
    set (b := if c then set_err a TE_unexpected else a) end.
  autorewrite with tokoff. rewrite fc_step2.
  match goal with |- context [toff (if ?c then set_err b TE_eof else b) d] =>
    set (c0 := if c then set_err b TE_eof else b) end.
  autorewrite with tokoff. destruct (err c0); reflexivity.
Qed.

Section S.
Variable sb : list byte -> Z.

Lemma parse_ex_peq a b x : peq a b -> parse_ex sb a x = parse_ex sb b x.
Proof. intros H. unfold parse_ex. unfold peq, tnorm in H. rewrite H. reflexivity. Qed.

Lemma parse_ex_of_prefix t c :
  parse_ex sb t c = match run_prefix sb c (tnorm t) loc0 with
                    | RPCont t1 l1 => finish_call (set_err t1 (end_of_input_err t1)) l1
                    | RPStop (LOut x l) => finish_call x l
                    | RPStop LFuel => PRFuel end.
Proof.
  unfold parse_ex. fold (tnorm t). fold loc0. rewrite run_of_prefix.
  destruct (run_prefix sb c (tnorm t) loc0) as [t1 l1|[x l|]]; reflexivity.
Qed.

(* the validator state of the loop is that of the scan of the bytes consumed *)
Lemma run_prefix_scan a : forall t l t' l',
  wfs (stack t) = true -> linv t l -> run_prefix sb a t l = RPCont t' l' ->
  (if validate_utf8 t then u8scan (nbytes l) a else Some (nbytes l)) = Some (nbytes l').
Proof.
  induction a as [|b rest IH]; intros t l t' l' Hw Hi E; cbn [run_prefix] in E.
  - inversion E; subst. match goal with |- context [validate_utf8 ?x] => destruct (validate_utf8 x) end; reflexivity.
  - destruct (if validate_utf8 t then validate_utf8_step b (nbytes l) else Some (nbytes l)) as [nb|] eqn:Ev; [|discriminate].
    destruct (redo sb REDO_FUEL t (mkloc b nb (lobj l) (lnum l))) as [[t1 l1|t1 l1|t1 l1]|] eqn:R; try discriminate.
    destruct (b =? 0); [discriminate|].
    pose proof (redo_facts sb _ _ _ _ Hw (linv_mkloc t b nb l Hi) R) as (F1 & F2 & _).
    cbn [lres sres_tok nbytes] in *. destruct F1 as (G1 & G2 & _).
    pose proof (redo_cfg sb _ _ _ _ R) as C. cbn [sres_tok] in C. apply cfg_cfg0 in C. destruct C as [C0 _].
    assert (Hv : validate_utf8 t1 = validate_utf8 t) by (unfold cfg0 in C0; congruence).
    pose proof (IH (set_off t1 (char_offset t1 + 1)) l1 t' l' F2 (linv_set_off _ _ _ G1) E) as H.
    change (validate_utf8 (set_off t1 (char_offset t1 + 1))) with (validate_utf8 t1) in H. rewrite Hv, G2 in H.
    cbn [u8scan]. destruct (validate_utf8 t); [rewrite Ev; exact H|]. inversion Ev; subst. congruence.
Qed.

(* hence no multi-byte sequence is open at the end of a chunk *)
Lemma run_prefix_nb a t l t' l' :
  wfs (stack t) = true -> linv t l -> nbytes l = 0 -> chunk_ok (validate_utf8 t) a ->
  run_prefix sb a t l = RPCont t' l' -> nbytes l' = 0.
Proof.
  intros Hw Hi Hn [_ Hc] E. pose proof (run_prefix_scan a t l t' l' Hw Hi E) as H. rewrite Hn in H.
  destruct (validate_utf8 t); [|inversion H; reflexivity].
  destruct (Hc eq_refl) as [Hs|Hs]; rewrite Hs in H; inversion H; reflexivity.
Qed.

(* where the loop stops inside its bytes *)
Lemma run_prefix_stop_scan c : forall t l tx lx,
  wfs (stack t) = true -> linv t l -> nonulP c -> run_prefix sb c t l = RPStop (LOut tx lx) ->
  exists pre x post, c = pre ++ x :: post /\ char_offset tx = char_offset t + zlen pre /\
    (validate_utf8 t = true ->
     exists n1, u8scan (nbytes l) pre = Some n1 /\
       (validate_utf8_step x n1 = None /\ err tx = TE_utf8 \/ validate_utf8_step x n1 = Some (nbytes lx))).
Proof.
  induction c as [|b rest IH]; intros t l tx lx Hw Hi Hz E; cbn [run_prefix] in E; [discriminate|].
  inversion Hz as [|? ? Hb Hz']; subst.
  destruct (if validate_utf8 t then validate_utf8_step b (nbytes l) else Some (nbytes l)) as [nb|] eqn:Ev.
  2:{ inversion E; subst. exists [], b, rest. split; [reflexivity|]. split; [cbn; lia|].
      intros Hv. rewrite Hv in Ev. exists (nbytes lx). split; [reflexivity|]. left. split; [exact Ev|reflexivity]. }
  destruct (redo sb REDO_FUEL t (mkloc b nb (lobj l) (lnum l))) as [[t1 l1|t1 l1|t1 l1]|] eqn:R; try discriminate.
  - assert (Eb : (b =? 0) = false) by lia. rewrite Eb in E.
    pose proof (redo_facts sb _ _ _ _ Hw (linv_mkloc t b nb l Hi) R) as (F1 & F2 & _).
    cbn [lres sres_tok nbytes] in *. destruct F1 as (G1 & G2 & _).
    pose proof (redo_cfg sb _ _ _ _ R) as C. cbn [sres_tok] in C. apply cfg_cfg0 in C. destruct C as [C0 Co].
    assert (Hv1 : validate_utf8 t1 = validate_utf8 t) by (unfold cfg0 in C0; congruence).
    destruct (IH (set_off t1 (char_offset t1 + 1)) l1 tx lx F2 (linv_set_off _ _ _ G1) Hz' E) as (pre & x & post & -> & Ho & Hs).
    exists (b :: pre), x, post. split; [reflexivity|]. rewrite off_set_off in Ho. cbn [zlen]. split; [lia|].
    intros Hv. change (validate_utf8 (set_off t1 (char_offset t1 + 1))) with (validate_utf8 t1) in Hs. rewrite Hv1 in Hs.
    destruct (Hs Hv) as (n1 & S1 & S2). rewrite G2 in S1. exists n1. split; [|exact S2].
    cbn [u8scan]. rewrite Hv in Ev. rewrite Ev. exact S1.
  - inversion E; subst.
    pose proof (redo_facts sb _ _ _ _ Hw (linv_mkloc t b nb l Hi) R) as (F1 & _).
    cbn [lres nbytes] in F1. destruct F1 as (_ & G2 & _).
    pose proof (redo_cfg sb _ _ _ _ R) as C. cbn [sres_tok] in C. apply cfg_cfg0 in C. destruct C as [_ Co].
    exists [], b, rest. split; [reflexivity|]. split; [cbn; lia|].
    intros Hv. rewrite Hv in Ev. exists (nbytes l). split; [reflexivity|]. right. rewrite G2. exact Ev.
Qed.

Lemma norm_toff t1 : err t1 = TE_success -> tnorm t1 = toff t1 (- char_offset t1).
Proof.
  destruct t1 as [stk md p dbl sp uc hs qc sf af vf off e]. cbn. intros ->.
  unfold tnorm, toff, set_off, set_err; cbn. f_equal. lia.
Qed.

(* chunk_independent without the status: wherever the loop stands after [a] (no multi-byte
   sequence open), a call on [b] from the state reached there is the rest of the call on a ++ b *)
Theorem resume_independent t a b t1 l1 :
  wf_tok t ->
  run_prefix sb a (tnorm t) loc0 = RPCont t1 l1 -> nbytes l1 = 0 ->
  wf_tok t1 /\ validate_utf8 t1 = validate_utf8 t /\
  exists tw ts r, parse_ex sb t (a ++ b) = PR tw r /\ parse_ex sb t1 b = PR ts r /\
                  err tw = err ts /\ char_offset tw = zlen a + char_offset ts /\ peq tw ts.
Proof.
  intros Hwf RP Hn0.
  set (t0 := tnorm t) in *.
  assert (Hw0 : wfs (stack t0) = true) by exact Hwf.
  assert (Hi0 : linv t0 loc0) by exact I.
  destruct (run_prefix_facts sb a t0 loc0 t1 l1 Hw0 Hi0 RP) as (F1 & F2 & F3 & F4 & F5 & F7 & F6).
  change (err t0) with TE_success in F3. change (char_offset t0) with 0 in F4.
  change (validate_utf8 t0) with (validate_utf8 t) in F5, F7.
  split; [exact F1|]. split; [exact F7|].
  unfold parse_ex. fold (tnorm t1). rewrite (norm_toff t1 F3). set (d := - char_offset t1).
  rewrite run_toff.
  fold (tnorm t). fold t0. fold loc0. rewrite run_app, RP.
  assert (Hl : lsim0 t1 l1 loc0).
  { unfold lsim0. split; [rewrite Hn0; reflexivity|]. split.
    - unfold linv in F2. unfold eff. destruct (tstate_eqb (st t1) S_number) eqn:En.
      + destruct (lnum l1); [exact (proj2 F2)|apply nl_eq_refl].
      + destruct (lnum l1); [|split; reflexivity]. destruct F2 as [F2 _]. rewrite F2 in En. discriminate.
    - intros Hadd. destruct F6 as [(_ & _ & ->)|[F6 _]]; [reflexivity|congruence]. }
  assert (Hz : (lc l1 =? 0) = (lc loc0 =? 0)).
  { destruct F6 as [(_ & _ & ->)|[_ F6]]; [reflexivity|]. cbn. lia. }
  pose proof (run_sim sb b t1 l1 loc0 F1 Hl Hz) as RS.
  destruct (run sb b t1 l1) as [x1 y1|] eqn:R1, (run sb b t1 loc0) as [x0 y0|] eqn:R0; try contradiction.
  2:{ exfalso. destruct (run_total sb b t1 l1 F1) as (? & ? & Hq & _). congruence. }
  destruct RS as [<- Ho]. cbn [loop_map].
  rewrite (finish_call_oute x1 y1 y0 Ho), finish_call_toff.
  destruct (finish_call_pr x1 y0) as (tw & rw & FW). rewrite FW. cbn [pres_map].
  exists tw, (toff tw d), rw. repeat split; try reflexivity.
  unfold toff, d. rewrite off_set_off. lia.
Qed.

End S.



(* ---------------------------------------------------------------- one-level tokeners, explicitly *)
Definition WT (g : tok) (s sav : tstate) (cur : jv) (nm : option (list byte)) : tok := set_stack g [mksrec s sav cur nm].

Lemma WT_of t s sav cur nm : stack t = [mksrec s sav cur nm] -> t = WT t s sav cur nm.
Proof. destruct t; cbn. intros ->. reflexivity. Qed.


Section S.
Variable sb : list byte -> Z.

(* ---- the first byte of a document is consumed or refused *)
Definition byte_progress (r : sres) : Prop :=
  match r with Consumed _ _ => True | Redo _ _ => False | Out t _ => hard_err (err t) end.

Lemma hard_unexpected : hard_err TE_unexpected. Proof. split; discriminate. Qed.

Lemma num_first_ok t c : (is_digit c || (c =? 45)) = true -> num_char_ok t (mknl false true false 0) c = true.
Proof.
  intros H. unfold num_char_ok, is_digit in *. cbn [nl_exp nl_neg nl_pos negb andb].
  assert (Hc : (c =? 0) = false) by lia. rewrite Hc. cbn [negb andb].
  destruct ((48 <=? c) && (c <=? 57)) eqn:E; [reflexivity|]. cbn [orb] in H. rewrite H.
  rewrite !orb_true_r. reflexivity.
Qed.

Lemma first_byte_progress g cur nm b nb lo f r : (3 <= f)%nat ->
  redo sb f (WT g S_eatws S_start cur nm) (mkloc b nb lo None) = Some r -> byte_progress r.
Proof.
  intros Hf. destruct f as [|[|[|f]]]; try lia. clear Hf.
  cbn [redo]. unfold step1 at 1. cbn [st top stack WT set_stack s_state lc].
  destruct (is_ws b); [intros E; inversion E; exact I|].
  destruct ((b =? 47) && negb (strict (WT g S_eatws S_start cur nm))); [intros E; inversion E; exact I|].
  cbn [sv top stack WT set_stack s_saved].
  unfold step1 at 1. rewrite st_set_state. cbn [lc]. unfold fail.
  destruct (b =? 123); [intros E; inversion E; exact I|].
  destruct (b =? 91); [intros E; inversion E; exact I|].
  destruct ((b =? 73) || (b =? 105)).
  { unfold step1 at 1. autorewrite with tokst. cbn [st_pos set_st_pos Z.ltb Z.compare lc]. unfold fail.
    match goal with |- context [if ?c then _ else _] => destruct c end; intros E; inversion E; [cbn; apply hard_unexpected|exact I]. }
  destruct ((b =? 78) || (b =? 110)).
  { unfold step1 at 1. autorewrite with tokst. cbn [lc]. unfold fail. cbn [st_pos set_st_pos append set_pb Z.eqb].
    repeat match goal with |- context [if ?c then _ else _] => destruct c end; intros E; inversion E; try exact I; cbn; split; discriminate. }
  match goal with |- context [if ?c then Out _ _ else _] => destruct c; [intros E; inversion E; cbn; apply hard_unexpected|] end.
  destruct ((b =? 39) || (b =? 34)); [intros E; inversion E; exact I|].
  destruct ((b =? 84) || (b =? 116) || (b =? 70) || (b =? 102)).
  { unfold step1 at 1. autorewrite with tokst. cbn [lc]. unfold fail. cbn [st_pos set_st_pos append set_pb Z.eqb].
    repeat match goal with |- context [if ?c then _ else _] => destruct c end; intros E; inversion E; try exact I; cbn; split; discriminate. }
  destruct (is_digit b || (b =? 45)) eqn:Ed.
  { unfold step1 at 1. autorewrite with tokst. cbn [lc lnum].
    change (pb (set_is_double (set_pb (set_state (WT g S_eatws S_start cur nm) S_start) []) false)) with (@nil Z).
    cbn [num_locals_init]. rewrite (num_first_ok _ b Ed). intros E; inversion E; exact I. }
  intros E; inversion E; cbn; apply hard_unexpected.
Qed.

(* a byte >= 128 cannot start a document *)
Lemma start_fail_high g cur nm l f : 128 <= lc l ->
  redo sb (S (S f)) (WT g S_eatws S_start cur nm) l = Some (Out (set_err (WT g S_start S_start cur nm) TE_unexpected) l).
Proof.
  intros Hx. cbn [redo]. unfold step1 at 1. cbn [st top stack WT set_stack s_state].
  assert (E : forall k, k < 128 -> (lc l =? k) = false) by (intros; lia).
  assert (Ew : is_ws (lc l) = false) by (unfold is_ws; rewrite !E by lia; reflexivity).
  rewrite Ew, (E 47) by lia. cbn [andb].
  unfold step1. rewrite st_set_state. unfold fail, is_digit.
  assert (E57 : (lc l <=? 57) = false) by lia.
  rewrite !E by lia. rewrite E57, andb_false_r. cbn [orb andb]. reflexivity.
Qed.

Lemma as_new_WT t : as_new t -> tnorm t = WT (tnorm t) S_eatws S_start JNull None.
Proof. intros [H _]. apply WT_of. exact H. Qed.

Lemma as_new_eoi t : as_new t -> end_of_input_err t = TE_continue.
Proof. intros [H _]. unfold end_of_input_err, st, sv, depth, top. rewrite H. reflexivity. Qed.

Lemma no_value_of_err x l t' r : err x <> TE_success -> finish_call x l = PR t' r -> r = None.
Proof.
  intros Hx E. destruct (finish_call_err _ _ _ _ E) as [He|[He _]];
    apply finish_call_shape in E; destruct E as (_ & _ & Er); destruct r as [v|]; try reflexivity; exfalso;
    (assert (Hs : err t' = TE_success) by (apply Er; eauto)); congruence.
Qed.

(* a call on a new tokener that returns a value has consumed at least one byte *)
Lemma success_progress t c t' v : as_new t -> parse_ex sb t c = PR t' (Some v) -> 1 <= char_offset t'.
Proof.
  intros Hn E. unfold parse_ex in E. fold (tnorm t) in E. fold loc0 in E.
  destruct c as [|b rest]; cbn [run] in E.
  - apply no_value_of_err in E; [discriminate|]. cbn [err set_err].
    change (end_of_input_err (tnorm t)) with (end_of_input_err t). rewrite (as_new_eoi t Hn). discriminate.
  - destruct (if validate_utf8 (tnorm t) then validate_utf8_step b (nbytes loc0) else Some (nbytes loc0)) as [nb|].
    2:{ apply no_value_of_err in E; [discriminate|]. cbn. discriminate. }
    cbn [loc0 lobj lnum] in E.
    destruct (redo sb REDO_FUEL (tnorm t) (mkloc b nb JNull None)) as [[t1 l1|t1 l1|t1 l1]|] eqn:R; try discriminate.
    + pose proof (redo_cfg sb _ _ _ _ R) as C. cbn [sres_tok] in C. apply cfg_cfg0 in C. destruct C as [_ Co].
      change (char_offset (tnorm t)) with 0 in Co.
      destruct (b =? 0).
      * apply finish_call_shape in E. destruct E as (_ & Eo & _). rewrite Eo, off_set_off. lia.
      * destruct (run sb rest (set_off t1 (char_offset t1 + 1)) l1) as [x lx|] eqn:RR; [|discriminate].
        apply run_bounds in RR. destruct RR as [_ RR]. rewrite off_set_off in RR.
        apply finish_call_shape in E. destruct E as (_ & Eo & _). pose proof (zlen_nonneg rest). lia.
    + rewrite (as_new_WT t Hn) in R. apply first_byte_progress in R; [|unfold REDO_FUEL; lia].
      cbn [byte_progress] in R. apply no_value_of_err in E; [discriminate|]. exact (proj1 R).
Qed.

End S.



Section D.
Variable sb : list byte -> Z.

(* ---------------------------------------------------------------- the caller's loops *)
(* one chunk: parse; on success hand out the value and go on at the reported end inside the same
   chunk (if anything is left of it); on continue take the next chunk; on error stop.
   Result: the values, the tokener after the last call, Some e = stopped with the hard error e.
   The two [tnorm t] results are unreachable (parse_total; chunk_docs_fuel). *)
Fixpoint chunk_docs (fuel : nat) (t : tok) (c : list byte) : list jv * tok * option terr :=
  match fuel with
  | O => ([], tnorm t, None)
  | S f =>
      match parse_ex sb t c with
      | PR t' (Some v) =>
          match zskipn (char_offset t') c with
          | [] => ([v], t', None)
          | (_ :: _) as rest => let '(vs, t'', e) := chunk_docs f t' rest in (v :: vs, t'', e)
          end
      | PR t' None => ([], t', if is_continue (err t') then None else Some (err t'))
      | PRFuel => ([], tnorm t, None)
      end
  end.

(* the first call of a chunk may return a value without consuming anything (the chunk before
   ended inside a number); every later call starts a document and consumes at least a byte *)
Definition cdocs (t : tok) (c : list byte) := chunk_docs (S (S (length c))) t c.

(* all chunks; None = no error (the last status was success or continue) *)
Fixpoint feed_docs (t : tok) (cs : list (list byte)) : list jv * option terr :=
  match cs with
  | [] => ([], None)
  | c :: r =>
      let '(vs, t', e) := cdocs t c in
      match e with
      | Some _ => (vs, e)
      | None => let (ws, e') := feed_docs t' r in (vs ++ ws, e')
      end
  end.

(* values and error of one chunk *)
Definition docs (t : tok) (c : list byte) : list jv * option terr := let '(vs, _, e) := cdocs t c in (vs, e).

Lemma feed_single t c : feed_docs t [c] = docs t c.
Proof.
  unfold docs. cbn [feed_docs]. destruct (cdocs t c) as [[vs t'] [e|]]; [reflexivity|]. rewrite app_nil_r. reflexivity.
Qed.

Lemma feed_cons t c cs :
  feed_docs t (c :: cs) =
  let '(vs, t', e) := cdocs t c in
  match e with Some _ => (vs, e) | None => let (ws, e') := feed_docs t' cs in (vs ++ ws, e') end.
Proof. reflexivity. Qed.

(* ---- fuel *)
Lemma chunk_docs_S f t c :
  chunk_docs (S f) t c =
  match parse_ex sb t c with
  | PR t' (Some v) =>
      match zskipn (char_offset t') c with
      | [] => ([v], t', None)
      | (_ :: _) as rest => let '(vs, t'', e) := chunk_docs f t' rest in (v :: vs, t'', e)
      end
  | PR t' None => ([], t', if is_continue (err t') then None else Some (err t'))
  | PRFuel => ([], tnorm t, None)
  end.
Proof. reflexivity. Qed.

Lemma chunk_docs_fuel f1 : forall f2 t c,
  as_new t -> Forall (fun b => b <> 0) c -> (length c < f1)%nat -> (length c < f2)%nat ->
  chunk_docs f1 t c = chunk_docs f2 t c.
Proof.
  induction f1 as [|g1 IH]; intros f2 t c Hn Hz H1 H2; [lia|]. destruct f2 as [|g2]; [lia|].
  cbn [chunk_docs]. destruct (parse_ex sb t c) as [t' [v|]|] eqn:P; try reflexivity.
  destruct (zskipn (char_offset t') c) as [|x rest] eqn:Er; [reflexivity|].
  pose proof (success_progress sb t c t' v Hn P) as Hk.
  destruct (success_leaves_new sb t c t' v (as_new_wf _ Hn) (as_new_hs _ Hn) Hz P) as (S1 & S2 & _).
  assert (Hc : c <> []) by (intros ->; unfold zskipn in Er; rewrite skipn_nil in Er; discriminate).
  pose proof (length_zskipn_lt (char_offset t') c Hk Hc) as Hl. rewrite Er in Hl.
  rewrite (IH g2 t' (x :: rest)); [reflexivity| | | |]; try lia.
  - split; assumption.
  - rewrite <- Er. apply Forall_zskipn. exact Hz.
Qed.

(* ---- one step of the loop, with the fuel recomputed *)
Lemma cdocs_eq t c : wf_tok t -> hs_ok t -> Forall (fun b => b <> 0) c ->
  cdocs t c =
  match parse_ex sb t c with
  | PR t' (Some v) =>
      match zskipn (char_offset t') c with
      | [] => ([v], t', None)
      | (_ :: _) as rest => let '(vs, t'', e) := cdocs t' rest in (v :: vs, t'', e)
      end
  | PR t' None => ([], t', if is_continue (err t') then None else Some (err t'))
  | PRFuel => ([], tnorm t, None)
  end.
Proof.
  intros Hw Hh Hz. unfold cdocs at 1. rewrite chunk_docs_S.
  destruct (parse_ex sb t c) as [t' [v|]|] eqn:P; try reflexivity.
  destruct (zskipn (char_offset t') c) as [|x rest] eqn:Er; [reflexivity|].
  destruct (success_leaves_new sb t c t' v Hw Hh Hz P) as (S1 & S2 & _).
  pose proof (length_zskipn_le (char_offset t') c) as Hl. rewrite Er in Hl.
  unfold cdocs. rewrite (chunk_docs_fuel (S (length c)) (S (S (length (x :: rest)))) t' (x :: rest)); [reflexivity| | | |]; try lia.
  - split; assumption.
  - rewrite <- Er. apply Forall_zskipn. exact Hz.
Qed.

(* ---- tokeners that differ in err/offset only *)
Lemma chunk_docs_peq f : forall a b c, peq a b -> chunk_docs f a c = chunk_docs f b c.
Proof.
  destruct f as [|f]; intros a b c H; cbn [chunk_docs]; [rewrite H; reflexivity|].
  rewrite (parse_ex_peq sb a b c H). rewrite H. reflexivity.
Qed.
Lemma cdocs_peq a b c : peq a b -> cdocs a c = cdocs b c.
Proof. apply chunk_docs_peq. Qed.
Lemma docs_peq a b c : peq a b -> docs a c = docs b c.
Proof. intros H. unfold docs. rewrite (cdocs_peq a b c H). reflexivity. Qed.
Lemma feed_docs_peq a b cs : peq a b -> feed_docs a cs = feed_docs b cs.
Proof. intros H. destruct cs as [|c cs]; [reflexivity|]. cbn [feed_docs]. rewrite (cdocs_peq a b c H). reflexivity. Qed.

(* results of one chunk equal up to err/offset of the tokener left behind *)
Definition cres_eq (r1 r2 : list jv * tok * option terr) : Prop :=
  let '(v1, f1, e1) := r1 in let '(v2, f2, e2) := r2 in v1 = v2 /\ e1 = e2 /\ peq f1 f2.

Lemma cres_eq_refl r : cres_eq r r.
Proof. destruct r as [[v f] e]. cbn. repeat split. Qed.

Lemma feed_cres_eq t1 x1 t2 x2 cs : cres_eq (cdocs t1 x1) (cdocs t2 x2) -> feed_docs t1 (x1 :: cs) = feed_docs t2 (x2 :: cs).
Proof.
  intros H. cbn [feed_docs]. destruct (cdocs t1 x1) as [[v1 f1] e1], (cdocs t2 x2) as [[v2 f2] e2]. cbn in H.
  destruct H as (-> & -> & H). destruct e2; [reflexivity|]. rewrite (feed_docs_peq f1 f2 cs H). reflexivity.
Qed.
Lemma docs_cres_eq t1 x1 t2 x2 : cres_eq (cdocs t1 x1) (cdocs t2 x2) -> docs t1 x1 = docs t2 x2.
Proof.
  intros H. unfold docs. destruct (cdocs t1 x1) as [[v1 f1] e1], (cdocs t2 x2) as [[v2 f2] e2]. cbn in H.
  destruct H as (-> & -> & _). reflexivity.
Qed.

(* two loops whose first calls agree (value, status, what is left of the input, tokener up to
   err/offset) agree altogether *)
Lemma cdocs_shift t1 x1 t2 x2 r1 r2 o :
  wf_tok t1 -> hs_ok t1 -> Forall (fun b => b <> 0) x1 ->
  wf_tok t2 -> hs_ok t2 -> Forall (fun b => b <> 0) x2 ->
  parse_ex sb t1 x1 = PR r1 o -> parse_ex sb t2 x2 = PR r2 o -> err r1 = err r2 -> peq r1 r2 ->
  zskipn (char_offset r1) x1 = zskipn (char_offset r2) x2 ->
  cres_eq (cdocs t1 x1) (cdocs t2 x2).
Proof.
  intros W1 H1 Z1 W2 H2 Z2 P1 P2 He Hp Hs.
  rewrite (cdocs_eq t1 x1 W1 H1 Z1), (cdocs_eq t2 x2 W2 H2 Z2), P1, P2, Hs, He.
  destruct o as [v|].
  - destruct (zskipn (char_offset r2) x2) as [|x rest]; [cbn; repeat split; exact Hp|].
    rewrite (cdocs_peq r1 r2 (x :: rest) Hp). apply cres_eq_refl.
  - cbn. repeat split. exact Hp.
Qed.

End D.



(* ---------------------------------------------------------------- blanks and comments after a document *)
(* the whole-buffer call, still holding the value v, and the chunked caller's tokener, which has
   handed v out and starts a new document: same state, same everything but the level record *)
Definition WW (g : tok) (s : tstate) (v : jv) (nm : option (list byte)) : tok := WT g s S_finish v nm.
Definition WC (g : tok) (s : tstate) : tok := WT g s S_start JNull None.

Definition wsframe (g : tok) := (cfg0 g, err g, high_surrogate g).

Definition stop_at (g : tok) (s : tstate) (x : byte) : Prop :=
  (s = S_eatws /\ is_ws x = false /\ ((x =? 47) && negb (strict g)) = false) \/
  (s = S_comment_start /\ (x =? 42) = false /\ (x =? 47) = false).

(* no multi-byte sequence is open: always without validation, and in the two states that
   are entered through an ASCII byte *)
Definition inv0 (g : tok) (s : tstate) (l : locals) : Prop :=
  (validate_utf8 g = false -> nbytes l = 0) /\ (s = S_eatws \/ s = S_comment_start -> nbytes l = 0).

Lemma frame_vf g g' : wsframe g' = wsframe g -> validate_utf8 g' = validate_utf8 g.
Proof. unfold wsframe, cfg0. intros H. inversion H. reflexivity. Qed.

Section A.
Variable sb : list byte -> Z.

Lemma ws_step g s v nm lw lx : ws_like s = true -> lc lw = lc lx ->
  (exists s' g', ws_like s' = true /\ wsframe g' = wsframe g /\ char_offset g' = char_offset g /\
      (s' = S_eatws \/ s' = S_comment_start -> lc lw < 128) /\
      step1 sb (WW g s v nm) lw = Consumed (WW g' s' v nm) lw /\
      step1 sb (WC g s) lx = Consumed (WC g' s') lx)
  \/ stop_at g s (lc lw).
Proof.
  intros Hs Hc. unfold stop_at.
  destruct s; try discriminate Hs; unfold step1, fail, WW, WC; cbn [st top stack WT set_stack s_state]; rewrite <- Hc.
  - (* eatws *)
    destruct (is_ws (lc lw)) eqn:E1.
    { left. exists S_eatws, g. repeat (split; [reflexivity|]). split; [|split; reflexivity].
      intros _. unfold is_ws in E1. lia. }
    cbn [strict WT set_stack].
    destruct ((lc lw =? 47) && negb (strict g)) eqn:E2.
    { left. exists S_comment_start, (set_pb g [lc lw]). repeat (split; [reflexivity|]). split; [|split; reflexivity].
      intros _. apply andb_true_iff in E2. lia. }
    right. left. repeat split.
  - (* comment_start *)
    destruct (lc lw =? 42) eqn:E1.
    { left. exists S_comment, (set_pb g (pb g ++ [lc lw])). repeat (split; [reflexivity|]). split; [|split; reflexivity].
      intros [H|H]; discriminate H. }
    destruct (lc lw =? 47) eqn:E2.
    { left. exists S_comment_eol, (set_pb g (pb g ++ [lc lw])). repeat (split; [reflexivity|]). split; [|split; reflexivity].
      intros [H|H]; discriminate H. }
    right. right. repeat split.
  - (* comment *)
    destruct (lc lw =? 42).
    { left. exists S_comment_end, (set_pb g (pb g ++ [lc lw])). repeat (split; [reflexivity|]). split; [|split; reflexivity].
      intros [H|H]; discriminate H. }
    left. exists S_comment, (set_pb g (pb g ++ [lc lw])). repeat (split; [reflexivity|]). split; [|split; reflexivity].
    intros [H|H]; discriminate H.
  - (* comment_eol *)
    destruct (lc lw =? 10) eqn:E1.
    { left. exists S_eatws, g. repeat (split; [reflexivity|]). split; [|split; reflexivity]. intros _. lia. }
    left. exists S_comment_eol, (set_pb g (pb g ++ [lc lw])). repeat (split; [reflexivity|]). split; [|split; reflexivity].
    intros [H|H]; discriminate H.
  - (* comment_end *)
    destruct (lc lw =? 47) eqn:E1.
    { left. exists S_eatws, (set_pb g (pb g ++ [lc lw])). repeat (split; [reflexivity|]). split; [|split; reflexivity].
      intros _. lia. }
    destruct (lc lw =? 42).
    { left. exists S_comment_end, (set_pb g (pb g ++ [lc lw])). repeat (split; [reflexivity|]). split; [|split; reflexivity].
      intros [H|H]; discriminate H. }
    left. exists S_comment, (set_pb g (pb g ++ [lc lw])). repeat (split; [reflexivity|]). split; [|split; reflexivity].
    intros [H|H]; discriminate H.
Qed.

(* the byte that ends the blanks: the whole-buffer call leaves the loop with its value *)
Lemma eatws_finish_out g v nm l f :
  is_ws (lc l) = false -> ((lc l =? 47) && negb (strict g)) = false ->
  redo sb (S (S f)) (WW g S_eatws v nm) l = Some (Out (WW g S_finish v nm) l).
Proof.
  intros H1 H2. cbn [redo]. unfold step1 at 1, WW. cbn [st top stack WT set_stack s_state strict].
  rewrite H1, H2. unfold step1. reflexivity.
Qed.

(* a slash followed by neither star nor slash *)
Lemma comment_start_fail g sav cur nm l f :
  (lc l =? 42) = false -> (lc l =? 47) = false ->
  redo sb (S f) (WT g S_comment_start sav cur nm) l = Some (Out (set_err (WT g S_comment_start sav cur nm) TE_comment) l).
Proof.
  intros H1 H2. cbn [redo]. unfold step1, fail. cbn [st top stack WT set_stack s_state]. rewrite H1, H2. reflexivity.
Qed.

Lemma run_prefix_consumed x c t l nb t1 :
  (if validate_utf8 t then validate_utf8_step x (nbytes l) else Some (nbytes l)) = Some nb -> x <> 0 ->
  redo sb REDO_FUEL t (mkloc x nb (lobj l) (lnum l)) = Some (Consumed t1 (mkloc x nb (lobj l) (lnum l))) ->
  run_prefix sb (x :: c) t l = run_prefix sb c (set_off t1 (char_offset t1 + 1)) (mkloc x nb (lobj l) (lnum l)).
Proof.
  intros Ev Hx R. cbn [run_prefix]. rewrite Ev, R.
  assert (E : (x =? 0) = false) by lia. rewrite E. reflexivity.
Qed.

(* both loops run through the blanks and comments in step, up to the first byte that ends them
   or is refused by the validator *)
Lemma ahead_prefix v nm c : forall g s lw lx,
  ws_like s = true -> nbytes lw = nbytes lx -> inv0 g s lw -> nonulP c ->
  (exists s' g' lw' lx', ws_like s' = true /\ wsframe g' = wsframe g /\ nbytes lw' = nbytes lx' /\
     run_prefix sb c (WW g s v nm) lw = RPCont (WW g' s' v nm) lw' /\
     run_prefix sb c (WC g s) lx = RPCont (WC g' s') lx')
  \/
  (exists ws x rest s' g' lw' lx', c = ws ++ x :: rest /\ ws_like s' = true /\ wsframe g' = wsframe g /\
     nbytes lw' = nbytes lx' /\ inv0 g' s' lw' /\
     run_prefix sb ws (WW g s v nm) lw = RPCont (WW g' s' v nm) lw' /\
     run_prefix sb ws (WC g s) lx = RPCont (WC g' s') lx' /\
     ((if validate_utf8 g' then validate_utf8_step x (nbytes lw') else Some (nbytes lw')) = None \/ stop_at g' s' x)).
Proof.
  induction c as [|x c IH]; intros g s lw lx Hs Hnb Hinv Hz.
  - left. exists s, g, lw, lx. repeat split; assumption.
  - inversion Hz as [|? ? Hx Hz']; subst.
    destruct (if validate_utf8 g then validate_utf8_step x (nbytes lw) else Some (nbytes lw)) as [nb|] eqn:Ev.
    2:{ right. exists [], x, c, s, g, lw, lx. repeat split; try assumption; try (apply Hinv; assumption). left. exact Ev. }
    set (lw1 := mkloc x nb (lobj lw) (lnum lw)). set (lx1 := mkloc x nb (lobj lx) (lnum lx)).
    assert (Evx : (if validate_utf8 (WC g s) then validate_utf8_step x (nbytes lx) else Some (nbytes lx)) = Some nb)
      by (rewrite <- Hnb; exact Ev).
    destruct (ws_step g s v nm lw1 lx1 Hs eq_refl) as [(s1 & g1 & Hs1 & Hf1 & Ho1 & Ha1 & W1 & C1)|Hstop].
    + set (g2 := set_off g1 (char_offset g1 + 1)).
      assert (RWc : forall c', run_prefix sb (x :: c') (WW g s v nm) lw = run_prefix sb c' (WW g2 s1 v nm) lw1).
      { intros c'. apply (run_prefix_consumed x c' (WW g s v nm) lw nb (WW g1 s1 v nm) Ev Hx).
        unfold REDO_FUEL. cbn [redo]. fold lw1. rewrite W1. reflexivity. }
      assert (RCc : forall c', run_prefix sb (x :: c') (WC g s) lx = run_prefix sb c' (WC g2 s1) lx1).
      { intros c'. apply (run_prefix_consumed x c' (WC g s) lx nb (WC g1 s1) Evx Hx).
        unfold REDO_FUEL. cbn [redo]. fold lx1. rewrite C1. reflexivity. }
      assert (Hf2 : wsframe g2 = wsframe g) by exact Hf1.
      assert (Hinv2 : inv0 g2 s1 lw1).
      { destruct Hinv as [I1 I2]. unfold inv0. cbn [nbytes lw1].
        assert (J1 : validate_utf8 g = false -> nb = 0).
        { intros Hv. rewrite Hv in Ev. inversion Ev. apply I1. exact Hv. }
        split.
        - rewrite (frame_vf g g2 Hf2). exact J1.
        - intros Hs'. specialize (Ha1 Hs'). cbn [lc lw1] in Ha1.
          destruct (validate_utf8 g) eqn:Hv; [|apply J1; reflexivity].
          exact (proj2 (ascii_step x _ _ Ha1 Ev)). }
      destruct (IH g2 s1 lw1 lx1 Hs1 eq_refl Hinv2 Hz') as
        [(s' & g' & lw' & lx' & A1 & A2 & A3 & A4 & A5)|(ws & y & rest & s' & g' & lw' & lx' & A0 & A1 & A2 & A3 & A4 & A5 & A6 & A7)].
      * left. exists s', g', lw', lx'. rewrite RWc, RCc. repeat split; try assumption. congruence.
      * right. exists (x :: ws), y, rest, s', g', lw', lx'. subst c. cbn [app]. rewrite RWc, RCc.
        split; [reflexivity|]. split; [exact A1|]. split; [congruence|]. split; [exact A3|]. split; [exact A4|].
        split; [exact A5|]. split; [exact A6|exact A7].
    + right. exists [], x, c, s, g, lw, lx. repeat split; try assumption; try (apply Hinv; assumption). right. exact Hstop.
Qed.

End A.



Lemma norm_norm t : tnorm (tnorm t) = tnorm t. Proof. reflexivity. Qed.
Lemma norm_WT g s sav cur nm : tnorm (WT g s sav cur nm) = WT (tnorm g) s sav cur nm. Proof. reflexivity. Qed.

Definition bytes_ok (t : tok) (c : list byte) : Prop := chunk_ok (validate_utf8 t) c.

Lemma bytes_ok_nonul t c : bytes_ok t c -> nonulP c. Proof. apply chunk_ok_nonul. Qed.
Lemma bytes_ok_vf t t' c : validate_utf8 t' = validate_utf8 t -> bytes_ok t c -> bytes_ok t' c.
Proof. unfold bytes_ok. intros ->. auto. Qed.
Lemma bytes_ok_all_vf t t' cs : validate_utf8 t' = validate_utf8 t -> Forall (bytes_ok t) cs -> Forall (bytes_ok t') cs.
Proof. intros H. apply Forall_impl. intros a. apply bytes_ok_vf. exact H. Qed.
Lemma nonulP_concat t cs : Forall (bytes_ok t) cs -> nonulP (concat cs).
Proof. intros H. apply Forall_concat. eapply Forall_impl; [|exact H]. intros a. apply bytes_ok_nonul. Qed.
Lemma nonulP_app a b : nonulP a -> nonulP b -> nonulP (a ++ b).
Proof. intros Ha Hb. apply Forall_app. split; assumption. Qed.

Lemma hard_match {A} e (x y : A) : hard_err e -> match e with TE_success => x | _ => y end = y.
Proof. intros [H1 H2]. destruct e; try reflexivity. congruence. Qed.
Lemma hard_not_cont e : hard_err e -> is_continue e = false.
Proof. intros [H1 H2]. destruct e; try reflexivity. congruence. Qed.

Lemma cfg0_vf a b : cfg0 a = cfg0 b -> validate_utf8 a = validate_utf8 b.
Proof. unfold cfg0. intros H. inversion H. reflexivity. Qed.
Lemma cfg0_mode a b : cfg0 a = cfg0 b -> mode_ok (strict a) (allow_trailing a) = mode_ok (strict b) (allow_trailing b).
Proof. unfold cfg0. intros H. inversion H. reflexivity. Qed.

Section G.
Variable sb : list byte -> Z.

(* ---------------------------------------------------------------- general facts about one call *)
Lemma run_prefix_hs a t l t1 l1 :
  wfs (stack t) = true -> linv t l -> hs_ok t -> err t = TE_success ->
  run_prefix sb a t l = RPCont t1 l1 -> hs_ok t1 /\ cfg0 t1 = cfg0 t.
Proof.
  intros Hw Hi Hh He RP.
  assert (R : run sb a t l = LOut (set_err t1 (end_of_input_err t1)) l1) by (rewrite run_of_prefix, RP; reflexivity).
  split.
  - destruct (run_hs sb a t l _ _ Hw Hi Hh He R) as (H & _). exact H.
  - apply run_bounds in R. exact (proj1 R).
Qed.

(* the loop has consumed all of a *)
Lemma rpcont_facts t a t1 l1 :
  wf_tok t -> hs_ok t -> run_prefix sb a (tnorm t) loc0 = RPCont t1 l1 ->
  wf_tok t1 /\ hs_ok t1 /\ cfg0 t1 = cfg0 t /\ char_offset t1 = zlen a /\ err t1 = TE_success /\ lc l1 <> 0.
Proof.
  intros Hw Hh RP.
  assert (Hw0 : wfs (stack (tnorm t)) = true) by exact Hw.
  destruct (run_prefix_facts sb a (tnorm t) loc0 t1 l1 Hw0 I RP) as (F1 & F2 & F3 & F4 & F5 & F7 & F6).
  destruct (run_prefix_hs a (tnorm t) loc0 t1 l1 Hw0 I Hh eq_refl RP) as [Hh1 Hc1].
  change (cfg0 (tnorm t)) with (cfg0 t) in Hc1.
  split; [exact F1|]. split; [exact Hh1|]. split; [exact Hc1|]. split; [exact F4|]. split; [exact F3|].
  destruct F6 as [(_ & _ & ->)|[_ F6]]; [cbn; lia|exact F6].
Qed.

Lemma parse_rpcont t c t1 l1 :
  wf_tok t -> hs_ok t -> bytes_ok t c -> mode_ok (strict t) (allow_trailing t) = true ->
  run_prefix sb c (tnorm t) loc0 = RPCont t1 l1 ->
  nbytes l1 = 0 /\ wf_tok t1 /\ hs_ok t1 /\ cfg0 t1 = cfg0 t /\ char_offset t1 = zlen c /\ err t1 = TE_success /\
  parse_ex sb t c = match end_of_input_err t1 with
                    | TE_success => PR (reset_levels (set_err t1 TE_success)) (Some (s_cur (top t1)))
                    | e => PR (set_err t1 e) None end.
Proof.
  intros Hw Hh Hb Hm RP.
  assert (Hw0 : wfs (stack (tnorm t)) = true) by exact Hw.
  assert (Hn : nbytes l1 = 0) by (apply (run_prefix_nb sb c (tnorm t) loc0 t1 l1 Hw0 I eq_refl Hb RP)).
  destruct (rpcont_facts t c t1 l1 Hw Hh RP) as (F1 & Hh1 & Hc1 & F4 & F3 & Hc).
  split; [exact Hn|]. split; [exact F1|]. split; [exact Hh1|]. split; [exact Hc1|].
  split; [exact F4|]. split; [exact F3|].
  rewrite parse_ex_of_prefix, RP.
  rewrite finish_call_plain; [|exact Hn|exact Hc|].
  2:{ change (mode_ok (strict t1) (allow_trailing t1) = true). rewrite (cfg0_mode _ _ Hc1). exact Hm. }
  cbn [err set_err]. destruct (end_of_input_err t1); reflexivity.
Qed.

(* the loop stops at the byte x behind ws *)
Lemma parse_stop_here t ws x more t1 l1 nb t2 :
  run_prefix sb ws (tnorm t) loc0 = RPCont t1 l1 ->
  (if validate_utf8 t1 then validate_utf8_step x (nbytes l1) else Some (nbytes l1)) = Some nb -> x <> 0 ->
  redo sb REDO_FUEL t1 (mkloc x nb (lobj l1) (lnum l1)) = Some (Out t2 (mkloc x nb (lobj l1) (lnum l1))) ->
  mode_ok (strict t2) (allow_trailing t2) = true ->
  parse_ex sb t (ws ++ x :: more) =
  let t' := if validate_utf8 t2 && negb (nb =? 0) then set_err t2 TE_utf8 else t2 in
  match err t' with
  | TE_success => PR (reset_levels t') (Some (s_cur (top t')))
  | _ => PR t' None end.
Proof.
  intros RP Ev Hx R Hm. unfold parse_ex. fold (tnorm t). fold loc0. rewrite run_app, RP. cbn [run].
  rewrite Ev, R. apply finish_call_nz; [exact Hx|exact Hm].
Qed.

(* the loop stops inside c: the bytes behind c are never looked at, and the status is not continue *)
Lemma parse_rpstop t c b r :
  wf_tok t -> run_prefix sb c (tnorm t) loc0 = RPStop r ->
  parse_ex sb t (c ++ b) = parse_ex sb t c /\
  (forall t' o, parse_ex sb t c = PR t' o -> is_continue (err t') = false).
Proof.
  intros Hw RP. split.
  - unfold parse_ex. fold (tnorm t). fold loc0. rewrite run_app, run_of_prefix, RP. reflexivity.
  - intros t' o P. rewrite parse_ex_of_prefix, RP in P.
    destruct (run_prefix_stop sb c (tnorm t) loc0 r Hw I RP) as (tx & lx & -> & Hx).
    change (err (tnorm t)) with TE_success in Hx.
    destruct (finish_call_err _ _ _ _ P) as [He|[_ He]].
    + rewrite He. destruct Hx as [->|[_ Hx]]; [reflexivity|]. destruct (err tx); try reflexivity. congruence.
    + destruct (err t'); try reflexivity. congruence.
Qed.

(* ---------------------------------------------------------------- the loops, call by call *)
Lemma cdocs_nil t : as_new t -> mode_ok (strict t) (allow_trailing t) = true ->
  cdocs sb t [] = ([], set_err (tnorm t) TE_continue, None).
Proof.
  intros Hn Hm.
  destruct (parse_rpcont t [] (tnorm t) loc0 (as_new_wf _ Hn) (as_new_hs _ Hn) (chunk_ok_nil _) Hm eq_refl) as (_ & _ & _ & _ & _ & _ & P).
  change (end_of_input_err (tnorm t)) with (end_of_input_err t) in P. rewrite (as_new_eoi t Hn) in P.
  rewrite cdocs_eq; [|apply as_new_wf; exact Hn|apply as_new_hs; exact Hn|constructor]. rewrite P. reflexivity.
Qed.

Lemma docs_nil t : wf_tok t -> hs_ok t -> end_of_input_err t = TE_continue -> mode_ok (strict t) (allow_trailing t) = true ->
  docs sb t [] = ([], None).
Proof.
  intros Hw Hh He Hm.
  destruct (parse_rpcont t [] (tnorm t) loc0 Hw Hh (chunk_ok_nil _) Hm eq_refl) as (_ & _ & _ & _ & _ & _ & P).
  change (end_of_input_err (tnorm t)) with (end_of_input_err t) in P. rewrite He in P.
  unfold docs. rewrite cdocs_eq; [|exact Hw|exact Hh|constructor]. rewrite P. reflexivity.
Qed.

Lemma feed_success_end t c cs t' v :
  wf_tok t -> hs_ok t -> nonulP c -> parse_ex sb t c = PR t' (Some v) -> zskipn (char_offset t') c = [] ->
  feed_docs sb t (c :: cs) = let (vs, e) := feed_docs sb t' cs in (v :: vs, e).
Proof.
  intros Hw Hh Hz P Hr. rewrite feed_cons, (cdocs_eq sb t c Hw Hh Hz), P, Hr. destruct (feed_docs sb t' cs). reflexivity.
Qed.

Lemma after_success t c t' v :
  wf_tok t -> hs_ok t -> nonulP c -> parse_ex sb t c = PR t' (Some v) ->
  as_new t' /\ cfg0 t' = cfg0 t /\ 0 <= char_offset t' <= zlen c.
Proof.
  intros Hw Hh Hz P. destruct (success_leaves_new sb t c t' v Hw Hh Hz P) as (S1 & S2 & _).
  destruct (parse_ex_outcome sb t c t' _ P) as (_ & Ho & Hc). repeat split; try assumption; lia.
Qed.

Lemma feed_success t c cs t' v :
  wf_tok t -> hs_ok t -> nonulP c -> mode_ok (strict t) (allow_trailing t) = true ->
  parse_ex sb t c = PR t' (Some v) ->
  feed_docs sb t (c :: cs) = let (vs, e) := feed_docs sb t' (zskipn (char_offset t') c :: cs) in (v :: vs, e).
Proof.
  intros Hw Hh Hz Hm P. destruct (after_success t c t' v Hw Hh Hz P) as (Hn & Hc & _).
  destruct (zskipn (char_offset t') c) as [|x rest] eqn:Er.
  - rewrite (feed_success_end t c cs t' v Hw Hh Hz P Er).
    rewrite (feed_cons sb t' []), cdocs_nil; [|exact Hn|rewrite (cfg0_mode _ _ Hc); exact Hm].
    rewrite (feed_docs_peq sb (set_err (tnorm t') TE_continue) t' cs) by reflexivity.
    destruct (feed_docs sb t' cs). reflexivity.
  - rewrite feed_cons, (cdocs_eq sb t c Hw Hh Hz), P, Er. rewrite (feed_cons sb t' (x :: rest)).
    destruct (cdocs sb t' (x :: rest)) as [[vs t''] [e|]]; [reflexivity|]. destruct (feed_docs sb t'' cs). reflexivity.
Qed.

Lemma docs_success t c t' v :
  wf_tok t -> hs_ok t -> nonulP c -> mode_ok (strict t) (allow_trailing t) = true ->
  parse_ex sb t c = PR t' (Some v) ->
  docs sb t c = let (vs, e) := docs sb t' (zskipn (char_offset t') c) in (v :: vs, e).
Proof.
  intros Hw Hh Hz Hm P. destruct (after_success t c t' v Hw Hh Hz P) as (Hn & Hc & _).
  unfold docs. rewrite (cdocs_eq sb t c Hw Hh Hz), P.
  destruct (zskipn (char_offset t') c) as [|x rest] eqn:Er.
  - rewrite cdocs_nil; [reflexivity|exact Hn|rewrite (cfg0_mode _ _ Hc); exact Hm].
  - destruct (cdocs sb t' (x :: rest)) as [[vs t''] e]. reflexivity.
Qed.

Lemma feed_error t c cs t' :
  wf_tok t -> hs_ok t -> nonulP c -> parse_ex sb t c = PR t' None -> is_continue (err t') = false ->
  feed_docs sb t (c :: cs) = ([], Some (err t')).
Proof. intros Hw Hh Hz P He. rewrite feed_cons, (cdocs_eq sb t c Hw Hh Hz), P, He. reflexivity. Qed.
Lemma docs_error t c t' :
  wf_tok t -> hs_ok t -> nonulP c -> parse_ex sb t c = PR t' None -> is_continue (err t') = false ->
  docs sb t c = ([], Some (err t')).
Proof. intros Hw Hh Hz P He. unfold docs. rewrite (cdocs_eq sb t c Hw Hh Hz), P, He. reflexivity. Qed.
Lemma feed_continue t c cs t' :
  wf_tok t -> hs_ok t -> nonulP c -> parse_ex sb t c = PR t' None -> is_continue (err t') = true ->
  feed_docs sb t (c :: cs) = feed_docs sb t' cs.
Proof.
  intros Hw Hh Hz P He. rewrite feed_cons, (cdocs_eq sb t c Hw Hh Hz), P, He. destruct (feed_docs sb t' cs). reflexivity.
Qed.

(* ... with an error: the same for every caller *)
Lemma stop_error t ws x more t1 l1 nb t2 :
  wf_tok t -> hs_ok t -> nonulP (ws ++ x :: more) ->
  run_prefix sb ws (tnorm t) loc0 = RPCont t1 l1 ->
  (if validate_utf8 t1 then validate_utf8_step x (nbytes l1) else Some (nbytes l1)) = Some nb ->
  redo sb REDO_FUEL t1 (mkloc x nb (lobj l1) (lnum l1)) = Some (Out t2 (mkloc x nb (lobj l1) (lnum l1))) ->
  mode_ok (strict t2) (allow_trailing t2) = true ->
  hard_err (if validate_utf8 t2 && negb (nb =? 0) then TE_utf8 else err t2) ->
  docs sb t (ws ++ x :: more) = ([], Some (if validate_utf8 t2 && negb (nb =? 0) then TE_utf8 else err t2)) /\
  forall cs, feed_docs sb t ((ws ++ x :: more) :: cs) = ([], Some (if validate_utf8 t2 && negb (nb =? 0) then TE_utf8 else err t2)).
Proof.
  intros Hw Hh Hz RP Ev R Hm He.
  assert (Hx : x <> 0) by (apply Forall_app in Hz; destruct Hz as [_ Hz]; inversion Hz; assumption).
  pose proof (parse_stop_here t ws x more t1 l1 nb t2 RP Ev Hx R Hm) as P. cbv zeta in P.
  destruct (validate_utf8 t2 && negb (nb =? 0)).
  - cbn [err set_err] in P.
    split; [|intros cs]; [rewrite (docs_error t _ _ Hw Hh Hz P eq_refl)|rewrite (feed_error t _ cs _ Hw Hh Hz P eq_refl)]; reflexivity.
  - rewrite (hard_match _ _ _ He) in P.
    split; [|intros cs]; [rewrite (docs_error t _ _ Hw Hh Hz P (hard_not_cont _ He))|rewrite (feed_error t _ cs _ Hw Hh Hz P (hard_not_cont _ He))]; reflexivity.
Qed.

(* the validator refuses the byte x behind ws *)
Lemma stop_u8 t ws x more t1 l1 :
  wf_tok t -> hs_ok t -> nonulP (ws ++ x :: more) -> mode_ok (strict t) (allow_trailing t) = true ->
  run_prefix sb ws (tnorm t) loc0 = RPCont t1 l1 ->
  (if validate_utf8 t1 then validate_utf8_step x (nbytes l1) else Some (nbytes l1)) = None ->
  docs sb t (ws ++ x :: more) = ([], Some TE_utf8) /\
  forall cs, feed_docs sb t ((ws ++ x :: more) :: cs) = ([], Some TE_utf8).
Proof.
  intros Hw Hh Hz Hm RP Ev.
  destruct (rpcont_facts t ws t1 l1 Hw Hh RP) as (_ & _ & Hc1 & _ & _ & Hc).
  assert (P : exists t', parse_ex sb t (ws ++ x :: more) = PR t' None /\ err t' = TE_utf8).
  { unfold parse_ex. fold (tnorm t). fold loc0. rewrite run_app, RP. cbn [run]. rewrite Ev.
    rewrite finish_call_nz; [|exact Hc|].
    2:{ change (mode_ok (strict t1) (allow_trailing t1) = true). rewrite (cfg0_mode _ _ Hc1). exact Hm. }
    cbv zeta. destruct (validate_utf8 (set_err t1 TE_utf8) && negb (nbytes l1 =? 0)); cbn [err set_err]; eexists; split; reflexivity. }
  destruct P as (t' & P & Pe).
  split; [|intros cs]; [rewrite (docs_error t _ _ Hw Hh Hz P)|rewrite (feed_error t _ cs _ Hw Hh Hz P)]; rewrite Pe; reflexivity.
Qed.

(* what is left of a chunk behind a returned value is a chunk again *)
Lemma success_suffix_ok t c t' v :
  wf_tok t -> bytes_ok t c -> parse_ex sb t c = PR t' (Some v) -> bytes_ok t (zskipn (char_offset t') c).
Proof.
  intros Hw [Hz Hu] P. rewrite parse_ex_of_prefix in P.
  assert (Hw0 : wfs (stack (tnorm t)) = true) by exact Hw.
  destruct (run_prefix sb c (tnorm t) loc0) as [t1 l1|[tx lx|]] eqn:RP; [| |discriminate].
  - destruct (run_prefix_facts sb c (tnorm t) loc0 t1 l1 Hw0 I RP) as (_ & _ & _ & F4 & _).
    apply finish_call_shape in P. destruct P as (_ & Po & _). rewrite off_set_err in Po.
    change (char_offset (tnorm t)) with 0 in F4.
    rewrite zskipn_all by lia. apply chunk_ok_nil.
  - destruct (run_prefix_stop_scan sb c (tnorm t) loc0 tx lx Hw0 I Hz RP) as (pre & x & post & -> & Ho & Hs).
    change (char_offset (tnorm t)) with 0 in Ho.
    assert (Hcfg : cfg0 tx = cfg0 t).
    { assert (R : run sb (pre ++ x :: post) (tnorm t) loc0 = LOut tx lx) by (rewrite run_of_prefix, RP; reflexivity).
      apply run_bounds in R. exact (proj1 R). }
    pose proof P as P0. apply finish_call_shape in P0. destruct P0 as (_ & Po & _).
    rewrite Po, Ho. rewrite zskipn_app_r by lia. rewrite zskipn_nonpos by lia.
    split; [apply Forall_app in Hz; exact (proj2 Hz)|].
    intros Hv. change (validate_utf8 (tnorm t)) with (validate_utf8 t) in Hs.
    destruct (Hs Hv) as (n1 & S1 & [(S2 & S3)|S2]).
    + exfalso. apply no_value_of_err in P; [discriminate|]. rewrite S3. discriminate.
    + assert (Hn : nbytes lx = 0) by (apply (finish_success_nb tx lx t' v P); rewrite (cfg0_vf _ _ Hcfg); exact Hv).
      rewrite Hn in S2. cbn [nbytes loc0] in S1.
      specialize (Hu Hv). rewrite u8scan_app, S1 in Hu. cbn [u8scan] in Hu. rewrite S2 in Hu.
      destruct (Z.eq_dec n1 0) as [->|Hne].
      * cbn [u8scan]. rewrite S2. exact Hu.
      * right. cbn [u8scan]. rewrite (cont_step x n1 Hne S2). reflexivity.
Qed.

(* wherever the loop stands after [a]: the documents of a ++ b are those of b from the state reached *)
Lemma cdocs_resume t a b t1 l1 :
  wf_tok t -> hs_ok t -> nonulP (a ++ b) ->
  run_prefix sb a (tnorm t) loc0 = RPCont t1 l1 -> nbytes l1 = 0 ->
  cres_eq (cdocs sb t (a ++ b)) (cdocs sb t1 b).
Proof.
  intros Hw Hh Hz RP Hn.
  destruct (resume_independent sb t a b t1 l1 Hw RP Hn) as (Hw1 & _ & tw & ts & r & A & B & C & D & E).
  destruct (run_prefix_hs a (tnorm t) loc0 t1 l1 Hw I Hh eq_refl RP) as [Hh1 _].
  pose proof Hz as Hz0. apply Forall_app in Hz0. destruct Hz0 as [_ Hzb].
  apply (cdocs_shift sb t (a ++ b) t1 b tw ts r); try assumption.
  destruct (parse_ex_outcome sb t1 b ts r B) as (_ & Ho & _). rewrite D. apply zskipn_shift. lia.
Qed.

End G.



(* ---------------------------------------------------------------- the relation between the two loops *)
(* same error; same values, or the chunked loop is one value ahead *)
Definition Rsy (a b : list jv * option terr) : Prop :=
  snd a = snd b /\ (fst a = fst b \/ exists v, fst a = fst b ++ [v]).
(* the same with the value v already handed out by the chunked loop *)
Definition Rah (v : jv) (a b : list jv * option terr) : Prop :=
  snd a = snd b /\ (v :: fst a = fst b \/ exists v', v :: fst a = fst b ++ [v']).

Lemma Rsy_refl a : Rsy a a. Proof. split; [reflexivity|left; reflexivity]. Qed.
Lemma Rsy_cons v a b : Rsy a b -> Rsy (let (vs, e) := a in (v :: vs, e)) (let (vs, e) := b in (v :: vs, e)).
Proof.
  destruct a as [va ea], b as [vb eb]. unfold Rsy. cbn. intros [He Hv]. split; [exact He|].
  destruct Hv as [Hv|[w Hv]]; [left|right; exists w]; rewrite Hv; reflexivity.
Qed.
Lemma Rah_Rsy v a b : Rah v a b -> Rsy (let (vs, e) := a in (v :: vs, e)) b.
Proof. destruct a as [va ea], b as [vb eb]. unfold Rsy, Rah. cbn. tauto. Qed.
Lemma Rsy_Rah v a b : Rsy a b -> Rah v a (let (vs, e) := b in (v :: vs, e)).
Proof.
  destruct a as [va ea], b as [vb eb]. unfold Rsy, Rah. cbn. intros [He Hv]. split; [exact He|].
  destruct Hv as [Hv|[w Hv]]; [left|right; exists w]; rewrite Hv; reflexivity.
Qed.

Lemma WW_wf g s v nm : ws_like s = true -> wf_tok (WW g s v nm).
Proof. destruct s; try discriminate; reflexivity. Qed.
Lemma WC_wf g s : ws_like s = true -> wf_tok (WC g s).
Proof. destruct s; try discriminate; reflexivity. Qed.
Lemma WT_hs g s sav cur nm : high_surrogate g = 0 -> hs_ok (WT g s sav cur nm).
Proof. intros H. left. exact H. Qed.
Lemma frame_hs g g' : wsframe g' = wsframe g -> high_surrogate g' = high_surrogate g.
Proof. unfold wsframe. intros H. congruence. Qed.
Lemma frame_err g g' : wsframe g' = wsframe g -> err g' = err g.
Proof. unfold wsframe. intros H. congruence. Qed.
Lemma frame_cfg0 g g' : wsframe g' = wsframe g -> cfg0 g' = cfg0 g.
Proof. unfold wsframe. intros H. congruence. Qed.
Lemma norm_err g : tnorm g = g -> err g = TE_success.
Proof. intros H. rewrite <- H. reflexivity. Qed.
Lemma norm_off g : tnorm g = g -> char_offset g = 0.
Proof. intros H. rewrite <- H. reflexivity. Qed.

Lemma WC_eoi g s : end_of_input_err (WC g s) = TE_continue.
Proof. unfold end_of_input_err, sv, WC. cbn [top stack WT set_stack s_saved tstate_eqb]. rewrite andb_false_r. reflexivity. Qed.

Section H.
Variable sb : list byte -> Z.

(* ---- the ways a chunk can go while the whole-buffer call is still in the blanks/comment *)
Section Ahead.
Variables (g : tok) (s : tstate) (v : jv) (nm : option (list byte)).
Hypothesis Hg : tnorm g = g.
Hypothesis Hs : ws_like s = true.
Hypothesis Hhs : high_surrogate g = 0.
Hypothesis Hm : mode_ok (strict g) (allow_trailing g) = true.

Lemma ahead_A c b cs s' g' lw' lx' :
  ws_like s' = true -> wsframe g' = wsframe g -> bytes_ok g c -> nonulP b ->
  run_prefix sb c (WW g s v nm) loc0 = RPCont (WW g' s' v nm) lw' ->
  run_prefix sb c (WC g s) loc0 = RPCont (WC g' s') lx' ->
  docs sb (WW g s v nm) (c ++ b) = docs sb (WW g' s' v nm) b /\
  feed_docs sb (WC g s) (c :: cs) = feed_docs sb (set_err (WC g' s') TE_continue) cs.
Proof.
  intros Hs' Hf Hc Hb RW RC. split.
  - assert (RW' : run_prefix sb c (tnorm (WW g s v nm)) loc0 = RPCont (WW g' s' v nm) lw').
    { unfold WW. rewrite norm_WT, Hg. exact RW. }
    destruct (parse_rpcont sb (WW g s v nm) c _ _ (WW_wf g s v nm Hs) (WT_hs _ _ _ _ _ Hhs) Hc Hm RW') as (Hn & _).
    apply docs_cres_eq. apply (cdocs_resume sb (WW g s v nm) c b _ lw'); try assumption.
    + apply WW_wf. exact Hs.
    + apply WT_hs. exact Hhs.
    + apply nonulP_app; [exact (bytes_ok_nonul _ _ Hc)|exact Hb].
  - assert (RC' : run_prefix sb c (tnorm (WC g s)) loc0 = RPCont (WC g' s') lx').
    { unfold WC. rewrite norm_WT, Hg. exact RC. }
    destruct (parse_rpcont sb (WC g s) c _ _ (WC_wf g s Hs) (WT_hs _ _ _ _ _ Hhs) Hc Hm RC') as (_ & _ & _ & _ & _ & _ & P).
    rewrite WC_eoi in P.
    apply (feed_continue sb (WC g s) c cs _ (WC_wf g s Hs) (WT_hs _ _ _ _ _ Hhs) (bytes_ok_nonul _ _ Hc) P). reflexivity.
Qed.

(* ---- the loops stop at the byte x behind ws *)
Section Stop.
Variables (ws : list byte) (x : byte) (rest b : list byte) (cs : list (list byte)) (g' : tok) (s' : tstate) (lw' lx' : locals).
Hypothesis Hf : wsframe g' = wsframe g.
Hypothesis Hzc : nonulP (ws ++ x :: rest).
Hypothesis Hzb : nonulP b.
Hypothesis RW : run_prefix sb ws (WW g s v nm) loc0 = RPCont (WW g' s' v nm) lw'.
Hypothesis RC : run_prefix sb ws (WC g s) loc0 = RPCont (WC g' s') lx'.
Hypothesis Hnb : nbytes lw' = nbytes lx'.

Let RW' : run_prefix sb ws (tnorm (WW g s v nm)) loc0 = RPCont (WW g' s' v nm) lw'.
Proof. unfold WW. rewrite norm_WT, Hg. exact RW. Qed.
Let RC' : run_prefix sb ws (tnorm (WC g s)) loc0 = RPCont (WC g' s') lx'.
Proof. unfold WC. rewrite norm_WT, Hg. exact RC. Qed.
Let Hzw : nonulP (ws ++ x :: rest ++ b).
Proof.
  apply Forall_app in Hzc. destruct Hzc as [A B]. inversion B; subst.
  apply nonulP_app; [exact A|]. constructor; [assumption|]. apply nonulP_app; assumption.
Qed.
Let Hm' : mode_ok (strict g') (allow_trailing g') = true.
Proof. rewrite (cfg0_mode _ _ (frame_cfg0 _ _ Hf)). exact Hm. Qed.
Let Hx : x <> 0.
Proof. apply Forall_app in Hzc. destruct Hzc as [_ B]. inversion B; assumption. Qed.

Definition both_err : Prop :=
  exists e, docs sb (WW g s v nm) ((ws ++ x :: rest) ++ b) = ([], Some e) /\
            feed_docs sb (WC g s) ((ws ++ x :: rest) :: cs) = ([], Some e).

(* the validator refuses x *)
Lemma ahead_B_u8 :
  (if validate_utf8 g' then validate_utf8_step x (nbytes lw') else Some (nbytes lw')) = None -> both_err.
Proof.
  intros Ev. exists TE_utf8. rewrite <- app_assoc. cbn [app]. split.
  - exact (proj1 (stop_u8 sb (WW g s v nm) ws x (rest ++ b) _ lw' (WW_wf g s v nm Hs) (WT_hs _ _ _ _ _ Hhs) Hzw Hm RW' Ev)).
  - rewrite Hnb in Ev.
    exact (proj2 (stop_u8 sb (WC g s) ws x rest _ lx' (WC_wf g s Hs) (WT_hs _ _ _ _ _ Hhs) Hzc Hm RC' Ev) cs).
Qed.

(* a slash followed by neither star nor slash *)
Lemma ahead_B2 nb :
  s' = S_comment_start -> (x =? 42) = false -> (x =? 47) = false ->
  (if validate_utf8 g' then validate_utf8_step x (nbytes lw') else Some (nbytes lw')) = Some nb -> both_err.
Proof.
  intros -> X1 X2 Ev.
  exists (if validate_utf8 g' && negb (nb =? 0) then TE_utf8 else TE_comment). rewrite <- app_assoc. cbn [app].
  assert (He : hard_err (if validate_utf8 g' && negb (nb =? 0) then TE_utf8 else TE_comment))
    by (destruct (validate_utf8 g' && negb (nb =? 0)); split; discriminate).
  split.
  - apply (proj1 (stop_error sb (WW g s v nm) ws x (rest ++ b) _ lw' nb (set_err (WW g' S_comment_start v nm) TE_comment)
                    (WW_wf g s v nm Hs) (WT_hs _ _ _ _ _ Hhs) Hzw RW' Ev
                    (comment_start_fail sb g' S_finish v nm (mkloc x nb (lobj lw') (lnum lw')) _ X1 X2) Hm' He)).
  - rewrite Hnb in Ev.
    apply (proj2 (stop_error sb (WC g s) ws x rest _ lx' nb (set_err (WC g' S_comment_start) TE_comment)
                    (WC_wf g s Hs) (WT_hs _ _ _ _ _ Hhs) Hzc RC' Ev
                    (comment_start_fail sb g' S_start JNull None (mkloc x nb (lobj lx') (lnum lx')) _ X1 X2) Hm' He)).
Qed.

(* a byte that ends the blanks but opens a multi-byte sequence: no document can start with it *)
Lemma ahead_B1b nb :
  s' = S_eatws -> nbytes lw' = 0 -> is_ws x = false -> ((x =? 47) && negb (strict g')) = false ->
  (if validate_utf8 g' then validate_utf8_step x (nbytes lw') else Some (nbytes lw')) = Some nb -> nb <> 0 -> both_err.
Proof.
  intros -> Hn0 X1 X2 Ev Hnz.
  assert (Hv : validate_utf8 g' = true).
  { destruct (validate_utf8 g'); [reflexivity|]. inversion Ev. congruence. }
  assert (Hhi : 128 <= x). { rewrite Hv, Hn0 in Ev. exact (lead_step x nb Ev Hnz). }
  assert (Ec : (validate_utf8 g' && negb (nb =? 0)) = true).
  { rewrite Hv. assert (E : (nb =? 0) = false) by lia. rewrite E. reflexivity. }
  exists TE_utf8. rewrite <- app_assoc. cbn [app]. split.
  - pose proof (stop_error sb (WW g s v nm) ws x (rest ++ b) _ lw' nb (WW g' S_finish v nm)
                    (WW_wf g s v nm Hs) (WT_hs _ _ _ _ _ Hhs) Hzw RW' Ev
                    (eatws_finish_out sb g' v nm (mkloc x nb (lobj lw') (lnum lw')) _ X1 X2) Hm') as D.
    change (validate_utf8 (WW g' S_finish v nm)) with (validate_utf8 g') in D. rewrite Ec in D.
    apply D. split; discriminate.
  - rewrite Hnb in Ev.
    pose proof (stop_error sb (WC g s) ws x rest _ lx' nb (set_err (WT g' S_start S_start JNull None) TE_unexpected)
                    (WC_wf g s Hs) (WT_hs _ _ _ _ _ Hhs) Hzc RC' Ev
                    (start_fail_high sb g' JNull None (mkloc x nb (lobj lx') (lnum lx')) _ Hhi) Hm') as D.
    change (validate_utf8 (set_err (WT g' S_start S_start JNull None) TE_unexpected)) with (validate_utf8 g') in D. rewrite Ec in D.
    apply D. split; discriminate.
Qed.

(* an ASCII byte that ends the blanks: the whole-buffer call returns its value, and both loops go
   on from here with a new document *)
Lemma ahead_B1a :
  s' = S_eatws -> nbytes lw' = 0 -> is_ws x = false -> ((x =? 47) && negb (strict g')) = false ->
  (if validate_utf8 g' then validate_utf8_step x (nbytes lw') else Some (nbytes lw')) = Some 0 ->
  docs sb (WW g s v nm) ((ws ++ x :: rest) ++ b) = (let (vs, e) := docs sb (WC g' S_eatws) ((x :: rest) ++ b) in (v :: vs, e)) /\
  feed_docs sb (WC g s) ((ws ++ x :: rest) :: cs) = feed_docs sb (WC g' S_eatws) ((x :: rest) :: cs).
Proof.
  intros -> Hn0 X1 X2 Ev. split.
  - destruct (rpcont_facts sb (WW g s v nm) ws _ _ (WW_wf g s v nm Hs) (WT_hs _ _ _ _ _ Hhs) RW') as (_ & _ & _ & Ho & _).
    assert (P : parse_ex sb (WW g s v nm) (ws ++ x :: (rest ++ b)) =
                PR (reset_levels (WW g' S_finish v nm)) (Some v)).
    { rewrite (parse_stop_here sb (WW g s v nm) ws x (rest ++ b) _ lw' 0 (WW g' S_finish v nm) RW' Ev Hx
                 (eatws_finish_out sb g' v nm (mkloc x 0 (lobj lw') (lnum lw')) _ X1 X2) Hm').
      cbv zeta. cbn [Z.eqb negb]. rewrite andb_false_r.
      change (err (WW g' S_finish v nm)) with (err g'). rewrite (frame_err _ _ Hf), (norm_err g Hg). reflexivity. }
    rewrite <- app_assoc. cbn [app].
    rewrite (docs_success sb (WW g s v nm) (ws ++ x :: rest ++ b) (reset_levels (WW g' S_finish v nm)) v
               (WW_wf g s v nm Hs) (WT_hs _ _ _ _ _ Hhs) Hzw Hm P).
    change (char_offset (reset_levels (WW g' S_finish v nm))) with (char_offset (WW g' S_eatws v nm)). rewrite Ho.
    rewrite zskipn_app_r by lia. rewrite zskipn_nonpos by lia.
    rewrite (docs_peq sb (reset_levels (WW g' S_finish v nm)) (WC g' S_eatws)) by reflexivity. reflexivity.
  - apply feed_cres_eq. apply (cdocs_resume sb (WC g s) ws (x :: rest) _ lx'); try assumption.
    + apply WC_wf. exact Hs.
    + apply WT_hs. exact Hhs.
    + lia.
Qed.
End Stop.
End Ahead.

End H.



(* ---------------------------------------------------------------- the induction *)
Definition meas (cs : list (list byte)) : nat := (length (concat cs) + length cs)%nat.
Lemma meas_cons c cs : meas (c :: cs) = (length c + meas cs + 1)%nat.
Proof. unfold meas. cbn [concat length]. rewrite app_length. lia. Qed.

(* SYNC: both loops are about to make a call from the same tokener at the same byte *)
Definition sync_pre (fl : bool) (t : tok) : Prop :=
  wf_tok t /\ hs_ok t /\ end_of_input_err t = TE_continue /\ mode_ok (strict t) (allow_trailing t) = true /\
  (fl = true -> as_new t).

(* AHEAD: the whole-buffer call (resumable from tw) is in the blanks/comment behind a document
   whose value v it still holds; the chunked loop has handed v out and is about to call from tc *)
Definition ahead (tw tc : tok) (v : jv) : Prop :=
  exists s nm, ws_like s = true /\ stack tw = [mksrec s S_finish v nm] /\ peq tc (WC tw s) /\ high_surrogate tw = 0 /\
               mode_ok (strict tw) (allow_trailing tw) = true.

Lemma eoi_cases t : end_of_input_err t = TE_success \/ end_of_input_err t = TE_continue.
Proof. unfold end_of_input_err. destruct ((depth t =? 0) && tstate_eqb (st t) S_eatws && tstate_eqb (sv t) S_finish); auto. Qed.

Lemma eoi_success_ahead t1 :
  wf_tok t1 -> hs_ok t1 -> mode_ok (strict t1) (allow_trailing t1) = true -> end_of_input_err t1 = TE_success ->
  ahead t1 (reset_levels (set_err t1 TE_success)) (s_cur (top t1)).
Proof.
  intros Hw Hh Hm He. unfold end_of_input_err in He. unfold wf_tok, wfb in Hw.
  destruct ((depth t1 =? 0) && tstate_eqb (st t1) S_eatws && tstate_eqb (sv t1) S_finish) eqn:C; [|discriminate].
  apply andb_true_iff in C. destruct C as [C C3]. apply andb_true_iff in C. destruct C as [C1 C2].
  destruct (stack t1) as [|x [|y r]] eqn:Es; [discriminate| |exfalso; unfold depth in C1; rewrite Es in C1; cbn [zlen] in C1; pose proof (zlen_nonneg r); lia].
  destruct x as [xs xv xc xn]. unfold st, sv, top in C2, C3. rewrite Es in C2, C3. cbn [s_state s_saved] in C2, C3.
  destruct xs; try discriminate C2. destruct xv; try discriminate C3.
  exists S_eatws, xn. split; [reflexivity|]. split; [unfold top; rewrite Es; reflexivity|].
  split.
  - unfold peq. destruct t1. cbn in Es. subst. reflexivity.
  - split; [|exact Hm]. destruct Hh as [H|H]; [exact H|]. unfold st, top in H. rewrite Es in H. discriminate.
Qed.

Section Main.
Variable sb : list byte -> Z.

(* the chunks are used up while the whole-buffer call is still in the blanks/comment *)
Lemma ahead_end g s v nm :
  tnorm g = g -> ws_like s = true -> high_surrogate g = 0 -> mode_ok (strict g) (allow_trailing g) = true ->
  Rah v ([], None) (docs sb (WW g s v nm) []).
Proof.
  intros Hg Hs Hhs Hm.
  assert (RP : run_prefix sb [] (tnorm (WW g s v nm)) loc0 = RPCont (WW g s v nm) loc0).
  { unfold WW. rewrite norm_WT, Hg. reflexivity. }
  destruct (parse_rpcont sb (WW g s v nm) [] _ _ (WW_wf g s v nm Hs) (WT_hs _ _ _ _ _ Hhs) (chunk_ok_nil _) Hm RP) as (_ & _ & _ & _ & _ & _ & P).
  assert (E : forall k, zskipn k (@nil Z) = []) by (intros k; unfold zskipn; apply skipn_nil).
  unfold docs. rewrite cdocs_eq; [|apply WW_wf; exact Hs|apply WT_hs; exact Hhs|constructor].
  rewrite P. clear P RP.
  destruct s; try discriminate Hs.
  - change (end_of_input_err (WW g S_eatws v nm)) with TE_success. cbv iota beta. rewrite E. split; [reflexivity|left; reflexivity].
  - change (end_of_input_err (WW g S_comment_start v nm)) with TE_continue. split; [reflexivity|right; exists v; reflexivity].
  - change (end_of_input_err (WW g S_comment v nm)) with TE_continue. split; [reflexivity|right; exists v; reflexivity].
  - change (end_of_input_err (WW g S_comment_eol v nm)) with TE_continue. split; [reflexivity|right; exists v; reflexivity].
  - change (end_of_input_err (WW g S_comment_end v nm)) with TE_continue. split; [reflexivity|right; exists v; reflexivity].
Qed.

Theorem sync_ahead m :
  (forall (fl : bool) (t : tok) (cs : list (list byte)), (2 * meas cs + (if fl then 0 else 1) < m)%nat -> sync_pre fl t -> Forall (bytes_ok t) cs ->
     Rsy (feed_docs sb t cs) (docs sb t (concat cs))) /\
  (forall (tw tc : tok) (v : jv) (cs : list (list byte)), (2 * meas cs + 1 < m)%nat -> ahead tw tc v -> Forall (bytes_ok tw) cs ->
     Rah v (feed_docs sb tc cs) (docs sb tw (concat cs))).
Proof.
  induction m as [|m IH]; [split; intros; lia|]. destruct IH as [IHS IHA].
  split.
  - (* SYNC *)
    intros fl t cs Hlt (Hw & Hh & He & Hm & Hn) Hb.
    destruct cs as [|c cs].
    { cbn [feed_docs concat]. rewrite (docs_nil sb t Hw Hh He Hm). apply Rsy_refl. }
    inversion Hb as [|? ? Hc Hcs]; subst. rewrite meas_cons in Hlt. cbn [concat]. set (b := concat cs).
    assert (Hzb : nonulP b) by (apply (nonulP_concat t); exact Hcs).
    assert (Hzc : nonulP c) by (exact (bytes_ok_nonul _ _ Hc)).
    assert (Hzcb : nonulP (c ++ b)) by (apply nonulP_app; assumption).
    destruct (run_prefix sb c (tnorm t) loc0) as [t1 l1|r] eqn:RP.
    + (* the call has consumed all of c *)
      destruct (parse_rpcont sb t c t1 l1 Hw Hh Hc Hm RP) as (Hn1 & Hw1 & Hh1 & Hc1 & Ho1 & He1 & P).
      rewrite (docs_cres_eq sb _ _ _ _ (cdocs_resume sb t c b t1 l1 Hw Hh Hzcb RP Hn1)).
      assert (Hm1 : mode_ok (strict t1) (allow_trailing t1) = true) by (rewrite (cfg0_mode _ _ Hc1); exact Hm).
      destruct (eoi_cases t1) as [Ee|Ee]; rewrite Ee in P.
      * (* ... and returns the value: the whole-buffer call goes on through the blanks *)
        rewrite (feed_success_end sb t c cs _ _ Hw Hh Hzc P).
        2:{ apply zskipn_all. change (char_offset (reset_levels (set_err t1 TE_success))) with (char_offset t1). lia. }
        apply Rah_Rsy. apply IHA; [lia|apply eoi_success_ahead; assumption|].
        apply (bytes_ok_all_vf t); [apply cfg0_vf; exact Hc1|exact Hcs].
      * (* ... and asks for more *)
        rewrite (feed_continue sb t c cs _ Hw Hh Hzc P eq_refl).
        rewrite (docs_peq sb t1 (set_err t1 TE_continue) b) by (apply peq_sym, peq_set_err).
        apply (IHS false); [lia| |].
        -- split; [exact Hw1|]. split; [exact Hh1|]. split; [exact Ee|]. split; [exact Hm1|]. intros; discriminate.
        -- apply (bytes_ok_all_vf t); [apply cfg0_vf; exact Hc1|exact Hcs].
    + (* the call stops inside c: same call on both sides *)
      destruct (parse_rpstop sb t c b r Hw RP) as [Pw Pnc].
      destruct (parse_total sb t c Hw) as (t' & o & P & _).
      destruct o as [v|].
      * destruct (after_success sb t c t' v Hw Hh Hzc P) as (Hn' & Hc' & Ho').
        rewrite (feed_success sb t c cs t' v Hw Hh Hzc Hm P).
        rewrite (docs_success sb t (c ++ b) t' v Hw Hh Hzcb Hm) by (rewrite Pw; exact P).
        rewrite zskipn_app_l by lia.
        apply Rsy_cons. change (zskipn (char_offset t') c ++ b) with (concat (zskipn (char_offset t') c :: cs)).
        assert (Hm' : mode_ok (strict t') (allow_trailing t') = true) by (rewrite (cfg0_mode _ _ Hc'); exact Hm).
        apply (IHS true).
        -- rewrite meas_cons. pose proof (length_zskipn_le (char_offset t') c) as Hle.
           destruct fl; [|lia].
           pose proof (success_progress sb t c t' v (Hn eq_refl) P) as Hk.
           assert (Hne : c <> []) by (intros ->; cbn [zlen] in Ho'; lia).
           pose proof (length_zskipn_lt (char_offset t') c Hk Hne). lia.
        -- split; [apply as_new_wf; exact Hn'|]. split; [apply as_new_hs; exact Hn'|].
           split; [apply as_new_eoi; exact Hn'|]. split; [exact Hm'|]. intros _; exact Hn'.
        -- constructor.
           ++ apply (bytes_ok_vf t); [apply cfg0_vf; exact Hc'|]. exact (success_suffix_ok sb t c t' v Hw Hc P).
           ++ apply (bytes_ok_all_vf t); [apply cfg0_vf; exact Hc'|exact Hcs].
      * rewrite (feed_error sb t c cs t' Hw Hh Hzc P (Pnc _ _ P)).
        rewrite <- Pw in P. rewrite (docs_error sb t (c ++ b) t' Hw Hh Hzcb P); [apply Rsy_refl|].
        rewrite Pw in P. exact (Pnc _ _ P).
  - (* AHEAD *)
    intros tw tc v cs Hlt (s & nm & Hs & Hst & Hpq & Hhs & Hm) Hb.
    rewrite (feed_docs_peq sb tc (WC tw s) cs Hpq).
    set (g := tnorm tw).
    assert (Hg : tnorm g = g) by reflexivity.
    assert (Hpw : peq tw (WW g s v nm)) by (exact (WT_of (tnorm tw) _ _ _ _ Hst)).
    rewrite (docs_peq sb tw (WW g s v nm) _ Hpw).
    rewrite (feed_docs_peq sb (WC tw s) (WC g s) cs) by reflexivity.
    assert (Hhg : high_surrogate g = 0) by exact Hhs.
    assert (Hmg : mode_ok (strict g) (allow_trailing g) = true) by exact Hm.
    assert (Hbg : Forall (bytes_ok g) cs) by exact Hb.
    clearbody g. clear Hb Hpw Hpq Hst Hhs Hm tw tc.
    destruct cs as [|c cs].
    { cbn [feed_docs concat]. apply ahead_end; assumption. }
    inversion Hbg as [|? ? Hc Hcs]; subst. rewrite meas_cons in Hlt. cbn [concat]. set (b := concat cs).
    assert (Hzb : nonulP b) by (apply (nonulP_concat g); exact Hcs).
    assert (Hinv : inv0 g s loc0) by (split; intros; reflexivity).
    destruct (ahead_prefix sb v nm c g s loc0 loc0 Hs eq_refl Hinv (bytes_ok_nonul _ _ Hc))
      as [(s' & g' & lw' & lx' & A1 & A2 & A2' & A3 & A4)|(ws & x & rest & s' & g' & lw' & lx' & A0 & A1 & A2 & A2' & Ai & A3 & A4 & A5)].
    + (* nothing but blanks/comment in c *)
      destruct (ahead_A sb g s v nm Hg Hs Hhg Hmg c b cs s' g' lw' lx' A1 A2 Hc Hzb A3 A4) as [Dw Dc]. rewrite Dw, Dc.
      apply IHA; [lia| |].
      * exists s', nm. split; [exact A1|]. split; [reflexivity|]. split; [reflexivity|].
        split; [change (high_surrogate g' = 0); rewrite (frame_hs _ _ A2); exact Hhg|].
        change (mode_ok (strict g') (allow_trailing g') = true). rewrite (cfg0_mode _ _ (frame_cfg0 _ _ A2)). exact Hmg.
      * apply (bytes_ok_all_vf g); [|exact Hcs]. change (validate_utf8 g' = validate_utf8 g). apply cfg0_vf, frame_cfg0. exact A2.
    + subst c. pose proof (bytes_ok_nonul _ _ Hc) as Hzc.
      assert (Berr : both_err sb g s v nm ws x rest b cs -> Rah v (feed_docs sb (WC g s) ((ws ++ x :: rest) :: cs))
                                                               (docs sb (WW g s v nm) ((ws ++ x :: rest) ++ b))).
      { intros (e & Dw & Dc). rewrite Dw, Dc. split; [reflexivity|]. right. exists v. reflexivity. }
      destruct (if validate_utf8 g' then validate_utf8_step x (nbytes lw') else Some (nbytes lw')) as [nb|] eqn:Ev.
      2:{ (* the validator refuses x *)
          apply Berr. exact (ahead_B_u8 sb g s v nm Hg Hs Hhg Hmg ws x rest b cs g' s' lw' lx' Hzc Hzb A3 A4 A2' Ev). }
      destruct A5 as [A5|[(-> & X1 & X2)|(-> & X1 & X2)]]; [discriminate A5| |].
      * (* a byte that ends the blanks *)
        assert (Hn0 : nbytes lw' = 0) by (apply (proj2 Ai); left; reflexivity).
        destruct (Z.eq_dec nb 0) as [->|Hnz].
        2:{ apply Berr. exact (ahead_B1b sb g s v nm Hg Hs Hhg Hmg ws x rest b cs g' _ lw' lx' A2 Hzc Hzb A3 A4 A2' nb eq_refl Hn0 X1 X2 Ev Hnz). }
        (* the whole-buffer call returns the value, both go on from here *)
        destruct (ahead_B1a sb g s v nm Hg Hs Hhg Hmg ws x rest b cs g' _ lw' lx' A2 Hzc Hzb A3 A4 A2' eq_refl Hn0 X1 X2 Ev) as [Dw Dc].
        rewrite Dw, Dc.
        apply Rsy_Rah. change ((x :: rest) ++ b) with (concat ((x :: rest) :: cs)).
        assert (Hvf : validate_utf8 g' = validate_utf8 g) by (apply cfg0_vf, frame_cfg0; exact A2).
        assert (Hmg' : mode_ok (strict g') (allow_trailing g') = true) by (rewrite (cfg0_mode _ _ (frame_cfg0 _ _ A2)); exact Hmg).
        assert (Hnew : as_new (WC g' S_eatws)).
        { split; [reflexivity|]. change (high_surrogate g' = 0). rewrite (frame_hs _ _ A2). exact Hhg. }
        apply (IHS true).
        -- rewrite meas_cons. rewrite app_length in Hlt. cbn [length] in *. lia.
        -- split; [apply as_new_wf; exact Hnew|]. split; [apply as_new_hs; exact Hnew|].
           split; [apply WC_eoi|]. split; [exact Hmg'|]. intros _. exact Hnew.
        -- constructor; [|apply (bytes_ok_all_vf g); [exact Hvf|exact Hcs]].
           (* x :: rest is what the whole-buffer call leaves of the chunk behind its value *)
           apply (bytes_ok_vf g); [exact Hvf|].
           destruct Hc as [_ Hu]. split; [apply Forall_app in Hzc; exact (proj2 Hzc)|].
           intros Hv. specialize (Hu Hv). rewrite u8scan_app in Hu.
           assert (RW' : run_prefix sb ws (tnorm (WW g s v nm)) loc0 = RPCont (WW g' S_eatws v nm) lw').
           { unfold WW. rewrite norm_WT, Hg. exact A3. }
           pose proof (run_prefix_scan sb ws (tnorm (WW g s v nm)) loc0 _ lw' (WW_wf g s v nm Hs) I RW') as Sc.
           change (validate_utf8 (tnorm (WW g s v nm))) with (validate_utf8 g) in Sc. rewrite Hv, Hn0 in Sc.
           cbn [nbytes loc0] in Sc. rewrite Sc in Hu. exact Hu.
      * (* a slash followed by neither star nor slash: the same error on both sides *)
        apply Berr. exact (ahead_B2 sb g s v nm Hg Hs Hhg Hmg ws x rest b cs g' _ lw' lx' A2 Hzc Hzb A3 A4 A2' nb eq_refl X1 X2 Ev).
Qed.

(* ---------------------------------------------------------------- the theorem *)
(* C03, last clause.  Feeding the chunks of a stream of documents gives the documents of the whole
   buffer, and the same error if any; when a cut falls between a document and the blanks or
   comment behind it the chunked loop may be one document ahead at the end (the whole-buffer
   call is then still inside an unterminated comment, or has failed in/after it). *)
Theorem stream_chunks t cs :
  as_new t -> mode_ok (strict t) (allow_trailing t) = true ->
  Forall (chunk_ok (validate_utf8 t)) cs ->
  let (vc, ec) := feed_docs sb t cs in
  let (vw, ew) := feed_docs sb t [concat cs] in
  ec = ew /\ (vc = vw \/ exists v, vc = vw ++ [v]).
Proof.
  intros Hn Hm Hb. rewrite feed_single.
  destruct (sync_ahead (S (2 * meas cs + 0))) as [HS _].
  specialize (HS true t cs (Nat.lt_succ_diag_r _)).
  destruct (feed_docs sb t cs) as [vc ec], (docs sb t (concat cs)) as [vw ew].
  apply HS; [|exact Hb].
  split; [apply as_new_wf; exact Hn|]. split; [apply as_new_hs; exact Hn|].
  split; [apply as_new_eoi; exact Hn|]. split; [exact Hm|]. intros _; exact Hn.
Qed.

(* without UTF-8 validation: any bytes but NUL, any cuts *)
Corollary stream_chunks_novalidate t cs :
  as_new t -> mode_ok (strict t) (allow_trailing t) = true -> validate_utf8 t = false ->
  Forall (Forall (fun b => b <> 0)) cs ->
  let (vc, ec) := feed_docs sb t cs in
  let (vw, ew) := feed_docs sb t [concat cs] in
  ec = ew /\ (vc = vw \/ exists v, vc = vw ++ [v]).
Proof.
  intros Hn Hm Hv Hb. apply stream_chunks; try assumption.
  eapply Forall_impl; [|exact Hb]. intros c Hc. split; [exact Hc|]. rewrite Hv. discriminate.
Qed.

End Main.



(* ---------------------------------------------------------------- examples, evaluated inside Coq *)
Definition chunk_okb (vf : bool) (c : list byte) : bool :=
  forallb (fun b => negb (b =? 0)) c &&
  (negb vf || match u8scan 0 c with Some 0 => true | None => true | Some _ => false end).

Lemma chunk_okb_ok vf c : chunk_okb vf c = true -> chunk_ok vf c.
Proof.
  unfold chunk_okb. intros H. apply andb_true_iff in H. destruct H as [H1 H2]. split.
  - apply Forall_forall. intros x Hx. rewrite forallb_forall in H1. specialize (H1 x Hx). lia.
  - intros ->. cbn [negb orb] in H2. destruct (u8scan 0 c) as [n|]; [|right; reflexivity].
    destruct n; try discriminate. left. reflexivity.
Qed.
Lemma chunks_okb_ok vf cs : forallb (chunk_okb vf) cs = true -> Forall (chunk_ok vf) cs.
Proof. intros H. apply Forall_forall. intros c Hc. apply chunk_okb_ok. rewrite forallb_forall in H. exact (H c Hc). Qed.

Definition sb0 : list byte -> Z := fun _ => 0.
(* the tokener json_tokener_new_ex(32) + set_flags gives *)
Definition tnew (s a v : bool) : tok := mktok [fresh_level] 32 [] false 0 0 0 0 s a v 0 TE_success.
Lemma tnew_is_new s a v : tok_new 32 s a v = Some (tnew s a v). Proof. reflexivity. Qed.
Lemma tnew_as_new s a v : as_new (tnew s a v). Proof. split; reflexivity. Qed.

Definition cut (n : Z) (l : list byte) : list (list byte) := [zfirstn n l; zskipn n l].
Definition cut2 (n m : Z) (l : list byte) : list (list byte) := [zfirstn n l; zfirstn (m - n) (zskipn n l); zskipn m l].

(* [1] /* c */ "a" 2<blank> *)
Definition ex_stream : list byte := [91;49;93;32;47;42;32;99;32;42;47;32;34;97;34;32;50;32].
Definition ex_values : list jv := [JArr [JInt 1]; JStr [97]; JInt 2].

(* the stream cut right after [1], inside the comment, at both places, inside [1] and inside "a",
   and byte by byte: always the three documents, as from the whole buffer (vc = vw) *)
Lemma ex_stream_cuts :
  feed_docs sb0 (tnew false false false) [ex_stream] = (ex_values, None) /\
  feed_docs sb0 (tnew false false false) (cut 3 ex_stream) = (ex_values, None) /\
  feed_docs sb0 (tnew false false false) (cut 7 ex_stream) = (ex_values, None) /\
  feed_docs sb0 (tnew false false false) (cut2 3 7 ex_stream) = (ex_values, None) /\
  feed_docs sb0 (tnew false false false) (cut2 2 14 ex_stream) = (ex_values, None) /\
  feed_docs sb0 (tnew false false false) (map (fun b => [b]) ex_stream) = (ex_values, None) /\
  concat (cut2 3 7 ex_stream) = ex_stream /\
  forallb (chunk_okb false) (cut2 3 7 ex_stream) = true.
Proof. repeat split; vm_compute; reflexivity. Qed.

(* true /* a   — an unterminated comment behind a document.  Cut behind "true " the chunked loop
   has the value, the whole-buffer call still holds it (status continue): vc = vw ++ [v].
   Cut inside the literal, inside the comment opener or inside the comment both hold it. *)
Definition ex_open : list byte := [116;114;117;101;32;47;42;32;97].
Lemma ex_open_cuts :
  feed_docs sb0 (tnew false false false) [ex_open] = ([], None) /\
  feed_docs sb0 (tnew false false false) (cut 5 ex_open) = ([JBool true], None) /\
  feed_docs sb0 (tnew false false false) (cut 6 ex_open) = ([], None) /\
  feed_docs sb0 (tnew false false false) (cut 4 ex_open) = ([], None) /\
  feed_docs sb0 (tnew false false false) (cut 8 ex_open) = ([], None).
Proof. repeat split; vm_compute; reflexivity. Qed.

(* true /x   — a malformed comment opener behind a document: the same error on both sides; the
   chunked loop cut behind "true " has handed out the value before *)
Definition ex_bad : list byte := [116;114;117;101;32;47;120].
Lemma ex_bad_cuts :
  feed_docs sb0 (tnew false false false) [ex_bad] = ([], Some TE_comment) /\
  feed_docs sb0 (tnew false false false) (cut 5 ex_bad) = ([JBool true], Some TE_comment) /\
  feed_docs sb0 (tnew false false false) (cut 6 ex_bad) = ([], Some TE_comment).
Proof. repeat split; vm_compute; reflexivity. Qed.

(* strict mode with JSON_TOKENER_ALLOW_TRAILING_CHARS:  1 2<blank>  cut behind "1 " *)
Lemma ex_strict_trailing :
  feed_docs sb0 (tnew true true false) [[49;32;50;32]] = ([JInt 1; JInt 2], None) /\
  feed_docs sb0 (tnew true true false) [[49;32];[50;32]] = ([JInt 1; JInt 2], None).
Proof. repeat split; vm_compute; reflexivity. Qed.

(* UTF-8 validation on:  "é" /* é */ 1<blank>  cut at sequence boundaries (behind the string, inside
   the comment behind its é) *)
Definition ex_u8 : list byte := [34;195;169;34;32;47;42;195;169;42;47;49;32].
Lemma ex_u8_cuts :
  feed_docs sb0 (tnew false false true) [ex_u8] = ([JStr [195;169]; JInt 1], None) /\
  feed_docs sb0 (tnew false false true) (cut2 4 9 ex_u8) = ([JStr [195;169]; JInt 1], None) /\
  forallb (chunk_okb true) (cut2 4 9 ex_u8) = true.
Proof. repeat split; vm_compute; reflexivity. Qed.

(* The condition on the cuts is needed: json_tokener_parse_ex keeps the number of pending
   continuation bytes in a local variable and reports json_tokener_error_parse_utf8_string when a
   call ends inside a sequence.  With JSON_TOKENER_VALIDATE_UTF8 the string "é" cut between its
   two bytes is an error for the chunked loop and a document for the whole buffer — so the
   statement with "no NUL byte" as the only condition on the chunks is false. *)
Lemma u8_cut_refuted :
  let t := tnew false false true in
  let cs := [[34;195];[169;34]] in
  as_new t /\ mode_ok (strict t) (allow_trailing t) = true /\ Forall (Forall (fun b => b <> 0)) cs /\
  feed_docs sb0 t cs = ([], Some TE_utf8) /\
  feed_docs sb0 t [concat cs] = ([JStr [195;169]], None).
Proof.
  cbv zeta. split; [apply tnew_as_new|]. split; [reflexivity|]. split.
  - repeat constructor; discriminate.
  - split; vm_compute; reflexivity.
Qed.

(* the theorem applied to the first example: the hypotheses hold *)
Lemma ex_stream_instance :
  let (vc, ec) := feed_docs sb0 (tnew false false false) (cut2 3 7 ex_stream) in
  let (vw, ew) := feed_docs sb0 (tnew false false false) [concat (cut2 3 7 ex_stream)] in
  ec = ew /\ (vc = vw \/ exists v, vc = vw ++ [v]).
Proof.
  apply stream_chunks; [apply tnew_as_new|reflexivity|]. apply chunks_okb_ok. vm_compute. reflexivity.
Qed.

Print Assumptions stream_chunks.
