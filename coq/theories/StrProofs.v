(* StrProofs.v — invariant, refinement and safety proofs for the string node (C11). *)
From JC Require Import Base BaseLemmas StrModel.
Local Open Scope Z_scope.

(* ------------------------------------------------------------------ lists *)
Lemma zlen_upd {A} (l : list A) n x : zlen (upd l n x) = zlen l.
Proof. revert n; induction l as [|a l IH]; intros [|n]; cbn [upd zlen]; try reflexivity. rewrite IH. reflexivity. Qed.

Lemma nth_error_upd_eq {A} (l : list A) n x : (n < length l)%nat -> nth_error (upd l n x) n = Some x.
Proof.
  revert n; induction l as [|a l IH]; intros [|n] H; cbn in *; try lia; try reflexivity.
  apply IH. lia.
Qed.

Lemma nth_error_upd_neq {A} (l : list A) n m x : n <> m -> nth_error (upd l n x) m = nth_error l m.
Proof.
  revert n m; induction l as [|a l IH]; intros [|n] [|m] H; cbn; try reflexivity; try congruence.
  apply IH. congruence.
Qed.

Lemma upd_upd {A} (l : list A) n x y : upd (upd l n x) n y = upd l n y.
Proof. revert n; induction l as [|a l IH]; intros [|n]; cbn; try reflexivity. rewrite IH. reflexivity. Qed.

Lemma znth_range {A} (l : list A) i x : znth l i = Some x -> 0 <= i < zlen l.
Proof.
  unfold znth. destruct (i <? 0) eqn:E; [discriminate|]. intros H.
  assert (Hn : nth_error l (Z.to_nat i) <> None) by congruence.
  apply nth_error_Some in Hn. rewrite zlen_length. lia.
Qed.

Lemma znth_none {A} (l : list A) i : zlen l <= i -> znth l i = None.
Proof.
  intros H. destruct (znth l i) eqn:E; [|reflexivity]. apply znth_range in E. lia.
Qed.

Lemma znth_app_last {A} (l : list A) x : znth (l ++ [x]) (zlen l) = Some x.
Proof.
  rewrite znth_app_r by lia. replace (zlen l - zlen l) with 0 by lia. reflexivity.
Qed.

Lemma znth_app_inv {A} (l : list A) x j y :
  znth (l ++ [x]) j = Some y -> (j = zlen l /\ y = x) \/ (j < zlen l /\ znth l j = Some y).
Proof.
  intros H. pose proof (znth_range _ _ _ H) as R. rewrite zlen_app in R. cbn [zlen] in R.
  destruct (Z.eq_dec j (zlen l)) as [->|Hne].
  - rewrite znth_app_last in H. left. split; congruence.
  - right. rewrite znth_app_l in H by lia. split; [lia|assumption].
Qed.

Lemma zlen_hset h id b : zlen (hset h id b) = zlen h.
Proof. apply zlen_upd. Qed.

Lemma znth_hset_eq h id b : 0 <= id < zlen h -> znth (hset h id b) id = Some b.
Proof.
  intros H. unfold znth, hset. destruct (id <? 0) eqn:E; [lia|].
  apply nth_error_upd_eq. rewrite zlen_length in H. lia.
Qed.

Lemma znth_hset_neq h id j b : 0 <= id -> id <> j -> znth (hset h id b) j = znth h j.
Proof.
  intros H0 H. unfold znth, hset. destruct (j <? 0) eqn:E; [reflexivity|].
  apply nth_error_upd_neq. lia.
Qed.

Lemma hset_hset h id a b : hset (hset h id a) id b = hset h id b.
Proof. apply upd_upd. Qed.

Lemma znth_hset_inv h id b j b' :
  0 <= id -> znth (hset h id b) j = Some b' ->
  (j = id /\ b' = b) \/ (j <> id /\ znth h j = Some b').
Proof.
  intros H0 H. destruct (Z.eq_dec j id) as [->|Hne].
  - left. split; [reflexivity|]. pose proof (znth_range _ _ _ H) as R. rewrite zlen_hset in R.
    rewrite znth_hset_eq in H by lia. congruence.
  - right. split; [assumption|]. rewrite znth_hset_neq in H by lia. assumption.
Qed.

(* ------------------------------------------------------------------ cells *)
Lemma zlen_cstore m off cs :
  0 <= off -> off + zlen cs <= zlen m -> zlen (cstore m off cs) = zlen m.
Proof.
  intros H0 H. pose proof (zlen_nonneg cs). unfold cstore.
  rewrite !zlen_app, zlen_zfirstn, zlen_zskipn. lia.
Qed.

Lemma zfirstn_cstore m off cs :
  0 <= off -> off + zlen cs <= zlen m ->
  zfirstn (off + zlen cs) (cstore m off cs) = zfirstn off m ++ cs.
Proof.
  intros H0 H. pose proof (zlen_nonneg cs). unfold cstore.
  rewrite zfirstn_app_r by (rewrite zlen_zfirstn; lia).
  rewrite zlen_zfirstn. replace (Z.min (Z.max 0 off) (zlen m)) with off by lia.
  f_equal. replace (off + zlen cs - off) with (zlen cs) by lia.
  rewrite zfirstn_app_l by lia. apply zfirstn_all. lia.
Qed.

Lemma zfirstn_cstore_before m off cs k :
  0 <= k <= off -> off <= zlen m -> zfirstn k (cstore m off cs) = zfirstn k m.
Proof.
  intros Hk Hb. unfold cstore.
  rewrite zfirstn_app_l by (rewrite zlen_zfirstn; lia).
  rewrite zfirstn_zfirstn. f_equal. lia.
Qed.

(* a buffer holds the bytes [bs] followed by a NUL, all inside the buffer *)
Definition holds (c : cells) (bs : list byte) : Prop :=
  zfirstn (zlen bs + 1) c = map Some (bs ++ [0]).

Lemma holds_len c bs : holds c bs -> zlen bs + 1 <= zlen c.
Proof.
  unfold holds. intros H. apply (f_equal zlen) in H.
  rewrite zlen_zfirstn, zlen_map, zlen_app in H. cbn [zlen] in H.
  pose proof (zlen_nonneg bs). lia.
Qed.

Lemma holds_split c bs : holds c bs -> c = map Some bs ++ Some 0 :: zskipn (zlen bs + 1) c.
Proof.
  intros H. rewrite <- (zfirstn_zskipn (zlen bs + 1) c) at 1. rewrite H.
  rewrite map_app, <- app_assoc. reflexivity.
Qed.

(* memcpy of bs then the terminator *)
Lemma holds_two_writes c bs :
  zlen bs + 1 <= zlen c ->
  holds (cstore (cstore c 0 (map Some bs)) (zlen bs) [Some 0]) bs.
Proof.
  intros H. pose proof (zlen_nonneg bs) as Hn. unfold holds.
  assert (L1 : zlen (cstore c 0 (map Some bs)) = zlen c) by (apply zlen_cstore; rewrite ?zlen_map; lia).
  replace (zlen bs + 1) with (zlen bs + zlen [Some 0]) by reflexivity.
  rewrite zfirstn_cstore by (cbn [zlen]; lia).
  replace (zlen bs) with (0 + zlen (map Some bs)) at 1 by (rewrite zlen_map; lia).
  rewrite zfirstn_cstore by (rewrite ?zlen_map; lia).
  rewrite zfirstn_nonpos by lia. cbn [app]. rewrite map_app. reflexivity.
Qed.

Lemma all_some_map bs : all_some (map Some bs) = Some bs.
Proof. induction bs as [|b t IH]; cbn; [reflexivity|]. rewrite IH. reflexivity. Qed.

(* ------------------------------------------------------------------ heap primitives *)
Lemma hstore_ok h id c off cs :
  znth h id = Some (mkblk c true) -> 0 <= off -> off + zlen cs <= zlen c ->
  hstore h id off cs = Some (hset h id (mkblk (cstore c off cs) true)).
Proof.
  intros H H0 H1. unfold hstore. rewrite H. cbn [blive bcells].
  assert (E1 : (0 <=? off) = true) by lia. assert (E2 : (off + zlen cs <=? zlen c) = true) by lia.
  rewrite E1, E2. reflexivity.
Qed.

Lemma hread_ok h id c off n :
  znth h id = Some (mkblk c true) -> 0 <= off -> 0 <= n -> off + n <= zlen c ->
  hread h id off n = Some (zfirstn n (zskipn off c)).
Proof.
  intros H H0 Hn H1. unfold hread. rewrite H. cbn [blive bcells].
  assert (E1 : (0 <=? off) = true) by lia. assert (E2 : (off + n <=? zlen c) = true) by lia.
  assert (E3 : (0 <=? n) = true) by lia.
  rewrite E1, E2, E3. reflexivity.
Qed.

Lemma hfree_ok h id c : znth h id = Some (mkblk c true) -> hfree h id = Some (hset h id (mkblk c false)).
Proof. intros H. unfold hfree. rewrite H. reflexivity. Qed.

(* ------------------------------------------------------------------ the invariant *)
(* [InvC s bs]: the node [s] is well formed and holds the byte string [bs] *)
Record InvC (s : st) (bs : list byte) : Prop := mkInv {
  i_len0 : 0 <= ilen0 s;
  i_abs : slen_abs s = zlen bs;
  i_min : SSIZE_T_MIN < slen s;
  (* the object block: live, its inline area is max(creation length, 8) + 1 bytes; inline
     contents never exceed the creation length *)
  i_obj : exists ic, znth (hp s) 0 = Some (mkblk ic true) /\ zlen ic = Z.max (ilen0 s) PTRSZ + 1 /\
            (0 <= slen s -> slen s <= ilen0 s /\ holds ic bs);
  (* len < 0: pdata is a valid pointer to a live block that holds the contents *)
  i_sep : slen s < 0 -> exists p pc, pptr s = Some p /\ 0 < p /\
            znth (hp s) p = Some (mkblk pc true) /\ holds pc bs;
  (* nothing else is live *)
  i_live : forall j b, znth (hp s) j = Some b -> blive b = true ->
            j = 0 \/ (slen s < 0 /\ pptr s = Some j);
  i_logok : log_ok (elog s) = true;
  i_nm : nmalloc (elog s) = zlen (hp s);
  i_livelog : live_of_log (elog s) =
              (if slen s <? 0 then match pptr s with Some p => [p] | None => [] end else []) ++ [0]
}.

Definition Inv (s : st) : Prop := exists bs, InvC s bs.

Definition same_store (s s' : st) : Prop :=
  slen s' = slen s /\ ilen0 s' = ilen0 s /\ pptr s' = pptr s /\ hp s' = hp s /\ elog s' = elog s.

Lemma same_store_inv s s' bs : InvC s bs -> same_store s s' -> InvC s' bs.
Proof.
  destruct s as [a b c d r e], s' as [a' b' c' d' r' e']. unfold same_store. cbn.
  intros H (-> & -> & -> & -> & ->). destruct H. constructor; assumption.
Qed.

(* the block the accessors read, under the invariant *)
Lemma inv_comp s bs : InvC s bs ->
  exists id c, comp s = Some id /\ znth (hp s) id = Some (mkblk c true) /\ holds c bs.
Proof.
  intros H. unfold comp. destruct (slen s <? 0) eqn:E.
  - destruct (i_sep _ _ H) as (p & pc & Hp & _ & Hz & Hh); [lia|]. rewrite Hp. eauto.
  - destruct (i_obj _ _ H) as (ic & Hz & _ & Hc). destruct Hc as [_ Hh]; [lia|]. eauto.
Qed.

Lemma to_int_small z : 0 <= z <= INT_MAX -> to_int z = z.
Proof.
  unfold to_int, INT_MAX. intros H. rewrite Z.mod_small by lia. lia.
Qed.

(* what a reader sees *)
Lemma inv_read s bs n : InvC s bs -> 0 <= n <= zlen bs + 1 ->
  str_read s n = Some (zfirstn n (map Some (bs ++ [0]))).
Proof.
  intros H Hn. destruct (inv_comp _ _ H) as (id & c & Hc & Hz & Hh).
  pose proof (holds_len _ _ Hh) as Hl.
  unfold str_read. rewrite Hc. rewrite (hread_ok _ _ c) by (try assumption; lia).
  rewrite zskipn_nonpos by lia. f_equal.
  rewrite <- Hh. rewrite zfirstn_zfirstn. f_equal. lia.
Qed.

Lemma inv_view s bs : InvC s bs ->
  get_string s = Some (map Some bs) /\ slen_abs s = zlen bs /\ get_nul s = Some (Some 0) /\
  (zlen bs <= INT_MAX -> get_string_len s = zlen bs).
Proof.
  intros H. pose proof (zlen_nonneg bs) as Hn. pose proof (i_abs _ _ H) as Ha.
  split; [|split; [assumption|split]].
  - unfold get_string. rewrite Ha. rewrite (inv_read s bs) by (try assumption; lia).
    rewrite map_app. rewrite zfirstn_app_l by (rewrite zlen_map; lia).
    rewrite zfirstn_all by (rewrite zlen_map; lia). reflexivity.
  - destruct (inv_comp _ _ H) as (id & c & Hc & Hz & Hh).
    pose proof (holds_len _ _ Hh) as Hl. unfold get_nul. rewrite Hc, Ha.
    rewrite (hread_ok _ _ c) by (try assumption; lia).
    rewrite (holds_split _ _ Hh) at 1.
    rewrite zskipn_app_r by (rewrite zlen_map; lia). rewrite zlen_map.
    replace (zlen bs - zlen bs) with 0 by lia. rewrite zskipn_nonpos by lia. reflexivity.
  - intros Hs. unfold get_string_len. rewrite Ha. apply to_int_small. lia.
Qed.

Lemma inv_read_bytes s bs : InvC s bs ->
  read_bytes s (slen_abs s) = Some bs /\ read_bytes s (slen_abs s + 1) = Some (bs ++ [0]).
Proof.
  intros H. pose proof (zlen_nonneg bs) as Hn. rewrite (i_abs _ _ H). unfold read_bytes. split.
  - rewrite (inv_read s bs) by (try assumption; lia). rewrite map_app.
    rewrite zfirstn_app_l by (rewrite zlen_map; lia).
    rewrite zfirstn_all by (rewrite zlen_map; lia). apply all_some_map.
  - rewrite (inv_read s bs) by (try assumption; lia).
    rewrite zfirstn_all by (rewrite zlen_map, zlen_app; cbn [zlen]; lia). apply all_some_map.
Qed.

(* ------------------------------------------------------------------ writes *)
Definition wr_ok (h : heap) (w : wr) : Prop :=
  exists b, znth h (w_id w) = Some b /\ blive b = true /\
            0 <= w_off w /\ 0 <= w_len w /\ w_off w + w_len w <= zlen (bcells b).

Lemma fill_spec h dst p ulen c nb :
  znth h dst = Some (mkblk c true) ->
  src_read h p ulen = Some (map Some nb) -> zlen nb = ulen -> ulen + 1 <= zlen c ->
  exists c', fill h dst p ulen = Some (hset h dst (mkblk c' true)) /\ holds c' nb /\ zlen c' = zlen c.
Proof.
  intros Hz Hrd Hl Hc. pose proof (znth_range _ _ _ Hz) as Hr. pose proof (zlen_nonneg nb) as Hn.
  exists (cstore (cstore c 0 (map Some nb)) ulen [Some 0]).
  assert (L1 : zlen (cstore c 0 (map Some nb)) = zlen c) by (apply zlen_cstore; rewrite ?zlen_map; lia).
  split; [|split].
  - unfold fill. rewrite Hrd. unfold hwrite.
    rewrite (hstore_ok _ _ c) by (try assumption; rewrite ?zlen_map; lia).
    rewrite (hstore_ok _ _ (cstore c 0 (map Some nb))) by
      (try (apply znth_hset_eq; lia); cbn [map zlen]; lia).
    rewrite hset_hset. reflexivity.
  - rewrite <- Hl. apply holds_two_writes. lia.
  - rewrite zlen_cstore by (cbn [zlen]; lia). assumption.
Qed.

Lemma finish_spec s dst p ulen newlen c nb :
  znth (hp s) dst = Some (mkblk c true) ->
  src_read (hp s) p ulen = Some (map Some nb) -> zlen nb = ulen -> ulen + 1 <= zlen c ->
  exists c',
    set_finish s dst p ulen newlen =
      SOk (mkst newlen (ilen0 s) (if dst =? 0 then None else pptr s)
                (hset (hp s) dst (mkblk c' true)) (reqs s) (elog s)) 1
          [mkwr dst 0 ulen; mkwr dst ulen 1]
    /\ holds c' nb /\ zlen c' = zlen c.
Proof.
  intros Hz Hrd Hl Hc. destruct (fill_spec _ _ _ _ _ _ Hz Hrd Hl Hc) as (c' & Hf & Hh & Hlc).
  exists c'. split; [|split; assumption]. unfold set_finish. rewrite Hf. reflexivity.
Qed.

(* ------------------------------------------------------------------ the source of a setter *)
(* [src_ok s bs0 p ulen nb]: the pointer [p] passed to a setter of the node [s] (holding bs0)
   has [ulen] readable bytes, which are [nb]: either memory outside the node, or the node's own
   current buffer at offset [off]: any range inside the contents and their terminator,
   overlapping the destination or not *)
Definition src_ok (s : st) (bs0 : list byte) (p : sptr) (ulen : Z) (nb : list byte) : Prop :=
  zlen nb = ulen /\
  match p with
  | PExt src => ulen <= zlen src /\ nb = zfirstn ulen src
  | PHeap id off => comp s = Some id /\ 0 <= off /\ off + ulen <= zlen bs0 + 1 /\
                    nb = zfirstn ulen (zskipn off (bs0 ++ [0]))
  end.

(* reading the node's own bytes (and terminator) through the heap *)
Lemma hread_holds h id c bs0 off n :
  znth h id = Some (mkblk c true) -> holds c bs0 -> 0 <= off -> 0 <= n -> off + n <= zlen bs0 + 1 ->
  hread h id off n = Some (map Some (zfirstn n (zskipn off (bs0 ++ [0])))).
Proof.
  intros Hz Hh Ho Hn Hl. pose proof (holds_len _ _ Hh) as Hc.
  rewrite (hread_ok _ _ c) by (try assumption; lia). f_equal.
  assert (Hs : c = map Some (bs0 ++ [0]) ++ zskipn (zlen bs0 + 1) c).
  { rewrite <- Hh. symmetry. apply zfirstn_zskipn. }
  rewrite Hs at 1.
  assert (L : zlen (map Some (bs0 ++ [0])) = zlen bs0 + 1) by (rewrite zlen_map, zlen_app; reflexivity).
  rewrite zskipn_app_l by lia.
  rewrite zfirstn_app_l by (rewrite zlen_zskipn; lia).
  rewrite map_zfirstn, map_zskipn. reflexivity.
Qed.

Lemma src_read_ok s bs0 p ulen nb h :
  src_ok s bs0 p ulen nb -> 0 <= ulen ->
  (forall id off, p = PHeap id off ->
     ulen = 0 \/ exists c, znth h id = Some (mkblk c true) /\ holds c bs0) ->
  src_read h p ulen = Some (map Some nb).
Proof.
  intros (Hl & Hp) Hu Hblk. destruct p as [src|id off]; cbn [src_read].
  - destruct Hp as (Hs & ->). assert (E : (ulen >? zlen src) = false) by lia. rewrite E. reflexivity.
  - destruct Hp as (_ & Ho & Hin & ->).
    destruct (ulen =? 0) eqn:E0.
    + assert (ulen = 0) by lia. subst ulen. rewrite zfirstn_nonpos by lia. reflexivity.
    + destruct (Hblk id off eq_refl) as [H0|(c & Hz & Hh)]; [lia|].
      apply (hread_holds _ _ c); try assumption; lia.
Qed.

Lemma wr_ok_finish h dst c' ulen :
  0 <= dst < zlen h -> 0 <= ulen -> ulen + 1 <= zlen c' ->
  Forall (wr_ok (hset h dst (mkblk c' true))) [mkwr dst 0 ulen; mkwr dst ulen 1].
Proof.
  intros Hd Hu Hc.
  repeat constructor; exists (mkblk c' true); cbn [w_id w_off w_len blive bcells];
    (split; [apply znth_hset_eq; lia|]); repeat split; lia.
Qed.

(* ------------------------------------------------------------------ building the invariant *)
Lemma build_inline n l0 h r lg ic bs :
  0 <= l0 -> zlen bs = n -> n <= l0 ->
  znth h 0 = Some (mkblk ic true) -> zlen ic = Z.max l0 PTRSZ + 1 -> holds ic bs ->
  (forall j b, znth h j = Some b -> blive b = true -> j = 0) ->
  log_ok lg = true -> nmalloc lg = zlen h -> live_of_log lg = [0] ->
  InvC (mkst n l0 None h r lg) bs.
Proof.
  intros H0 Hn Hle Hz Hic Hh Hlv Hlk Hnm Hll. pose proof (zlen_nonneg bs) as Hb.
  assert (E : (n <? 0) = false) by lia.
  constructor; cbn [slen ilen0 pptr hp reqs elog]; unfold slen_abs; cbn [slen]; rewrite ?E;
    try assumption; try (unfold SSIZE_T_MIN; lia).
  - exists ic. repeat split; try assumption; lia.
  - intros j b A B. left. eapply Hlv; eassumption.
Qed.

Lemma build_sep n l0 p h r lg ic pc bs :
  0 <= l0 -> zlen bs = n -> 0 < n < INT_MAX ->
  znth h 0 = Some (mkblk ic true) -> zlen ic = Z.max l0 PTRSZ + 1 ->
  0 < p -> znth h p = Some (mkblk pc true) -> holds pc bs ->
  (forall j b, znth h j = Some b -> blive b = true -> j = 0 \/ j = p) ->
  log_ok lg = true -> nmalloc lg = zlen h -> live_of_log lg = [p; 0] ->
  InvC (mkst (- n) l0 (Some p) h r lg) bs.
Proof.
  intros H0 Hn Hpos Hz Hic Hp Hzp Hh Hlv Hlk Hnm Hll.
  assert (E : (- n <? 0) = true) by lia.
  constructor; cbn [slen ilen0 pptr hp reqs elog]; unfold slen_abs; cbn [slen]; rewrite ?E;
    try assumption; try (unfold SSIZE_T_MIN, INT_MAX in *; lia).
  - exists ic. repeat split; try assumption; lia.
  - intros _. exists p, pc. repeat split; assumption.
  - intros j b A B. destruct (Hlv j b A B) as [->| ->]; [left; reflexivity|right; split; [lia|reflexivity]].
Qed.

(* ------------------------------------------------------------------ the setter *)
Definition set_post (al : alloc) (s : st) (nb : list byte) (ulen : Z) (r : sres) : Prop :=
  match r with
  | SOk s' ret ws =>
      (ret = 1 /\ InvC s' nb /\ ulen < INT_MAX - 1 /\
       Forall (wr_ok (hp s')) ws /\ ilen0 s' = ilen0 s)
      \/ (ret = 0 /\ ws = [] /\ same_store s s' /\
          (INT_MAX - 1 <= ulen \/ (al (reqs s) (ulen + 1) = false /\ slen_abs s < ulen)))
  | SUB => False
  end.

Lemma set_sz_spec al s bs0 src ulen nb :
  InvC s bs0 -> 0 <= ulen -> (ulen < INT_MAX - 1 -> src_ok s bs0 src ulen nb) ->
  set_post al s nb ulen (set_string_sz al s src ulen).
Proof.
  intros HI Hu Hsrc. pose proof (zlen_nonneg bs0) as Hn0. pose proof HI as HI0.
  destruct HI as [Hl0 Habs Hmin (ic & Hz0 & Hic & Hin) Hsep Hlive Hlok Hnm Hll].
  unfold set_string_sz.
  destruct (ulen >=? INT_MAX - 1) eqn:E0.
  { right. unfold same_store. repeat split; auto. left; lia. }
  assert (Hok : src_ok s bs0 src ulen nb) by (apply Hsrc; lia).
  assert (Hzf : zlen nb = ulen) by (apply Hok).
  (* an own-buffer source points into the block the accessors read *)
  assert (Hown : forall id off, src = PHeap id off -> comp s = Some id).
  { intros id off ->. destruct Hok as (_ & Hc & _). assumption. }
  pose proof (znth_range _ _ _ Hz0) as R0.
  unfold slen_abs in Habs.
  destruct (slen s <? 0) eqn:Eneg.
  - (* separate storage *)
    destruct Hsep as (p & pc & Hp & Hp0 & Hzp & Hhp); [lia|].
    pose proof (holds_len _ _ Hhp) as Hlp. pose proof (znth_range _ _ _ Hzp) as Rp.
    rewrite Hp in Hll. cbn [app] in Hll.
    assert (Hcomp : comp s = Some p) by (unfold comp; rewrite Eneg; exact Hp).
    unfold set_phase1. rewrite Eneg.
    destruct (ulen =? 0) eqn:Ez.
    + (* new length 0: the buffer is released, the empty string goes inline *)
      assert (Hu0 : ulen = 0) by lia. rewrite Hu0 in *. clear Hsrc.
      rewrite Hp. rewrite (hfree_ok _ _ pc Hzp).
      unfold comp. cbn [slen]. cbn [Z.ltb Z.compare Z.gtb].
      set (h' := hset (hp s) p (mkblk pc false)).
      assert (Hz0' : znth h' 0 = Some (mkblk ic true)) by (subst h'; rewrite znth_hset_neq by lia; exact Hz0).
      assert (Hrd : src_read h' src 0 = Some (map Some nb)).
      { apply (src_read_ok s bs0); [assumption|lia|]. intros; left; reflexivity. }
      destruct (finish_spec (mkst 0 (ilen0 s) (Some p) h' (reqs s) (EvFree p :: elog s)) 0 src 0 0 ic nb Hz0' Hrd)
        as (c' & Hf & Hh' & Hlc'); [assumption|unfold PTRSZ in *; lia|].
      cbn [slen ilen0 pptr hp reqs elog] in Hf. rewrite Hf. cbn [set_post].
      left. split; [reflexivity|]. cbn [hp ilen0]. split; [|split; [lia|split; [|reflexivity]]].
      * cbn [Z.eqb]. apply (build_inline 0 (ilen0 s) _ _ _ c'); try assumption; try lia.
        -- apply znth_hset_eq. subst h'. rewrite zlen_hset. lia.
        -- intros j b A B. apply znth_hset_inv in A; [|lia]. destruct A as [[-> _]|[Hne A]]; [reflexivity|].
           subst h'. apply znth_hset_inv in A; [|lia]. destruct A as [[-> ->]|[Hne2 A]]; [discriminate|].
           destruct (Hlive j b A B) as [->|[_ Hj]]; [reflexivity|]. congruence.
        -- cbn [log_ok]. rewrite Hll, Hlok. cbn [zmem]. rewrite Z.eqb_refl. reflexivity.
        -- cbn [nmalloc]. subst h'. rewrite !zlen_hset. assumption.
        -- cbn [live_of_log]. rewrite Hll. cbn [zremove]. rewrite Z.eqb_refl. reflexivity.
      * apply wr_ok_finish; subst h'; rewrite ?zlen_hset; unfold PTRSZ in *; lia.
    + assert (Em : (slen s =? SSIZE_T_MIN) = false) by lia. rewrite Em.
      unfold comp. rewrite Eneg, Hp.
      destruct (ulen >? - slen s) eqn:Eg.
      * (* longer than what is remembered: a new buffer *)
        destruct (al (reqs s) (ulen + 1)) eqn:Eal.
        -- unfold hmalloc. cbv beta iota. rewrite ?Eneg, ?Hp.
           set (h1 := hp s ++ [mkblk (zrepeat None (ulen + 1)) true]). set (id := zlen (hp s)).
           assert (L1 : zlen h1 = zlen (hp s) + 1) by (subst h1; rewrite zlen_app; reflexivity).
           assert (Hzp1 : znth h1 p = Some (mkblk pc true)) by (subst h1; rewrite znth_app_l by lia; exact Hzp).
           assert (Hzid : znth h1 id = Some (mkblk (zrepeat None (ulen + 1)) true)) by (subst h1 id; apply znth_app_last).
           (* the new buffer is filled while the old one is still there *)
           assert (Hrd : src_read h1 src ulen = Some (map Some nb)).
           { apply (src_read_ok s bs0); [assumption|lia|]. intros i o E. right.
             pose proof (Hown i o E) as Hc. rewrite Hcomp in Hc. inversion Hc; subst i.
             exists pc. split; assumption. }
           destruct (fill_spec h1 id src ulen _ nb Hzid Hrd Hzf) as (c' & Hf & Hh' & Hlc');
             [rewrite zlen_zrepeat; lia|].
           rewrite zlen_zrepeat in Hlc'. rewrite Hf.
           set (h1' := hset h1 id (mkblk c' true)).
           assert (Hzp1' : znth h1' p = Some (mkblk pc true)) by (subst h1'; rewrite znth_hset_neq by lia; exact Hzp1).
           rewrite (hfree_ok _ _ pc Hzp1').
           set (h2 := hset h1' p (mkblk pc false)).
           assert (Hz02 : znth h2 0 = Some (mkblk ic true)).
           { subst h2 h1'. rewrite !znth_hset_neq by lia. subst h1. rewrite znth_app_l by lia. exact Hz0. }
           rewrite (hstore_ok _ _ ic _ _ Hz02) by (rewrite ?zlen_zrepeat; unfold PTRSZ in *; lia).
           set (ic' := cstore ic 0 (zrepeat None PTRSZ)).
           assert (Lic' : zlen ic' = zlen ic) by (subst ic'; apply zlen_cstore; rewrite ?zlen_zrepeat; unfold PTRSZ in *; lia).
           set (h3 := hset h2 0 (mkblk ic' true)).
           assert (L3 : zlen h3 = zlen (hp s) + 1) by (subst h3 h2 h1'; rewrite !zlen_hset; exact L1).
           assert (Hzid3 : znth h3 id = Some (mkblk c' true)).
           { subst h3 h2. rewrite !znth_hset_neq by lia. subst h1'. apply znth_hset_eq. lia. }
           cbn [set_post].
           left. split; [reflexivity|]. cbn [hp ilen0]. split; [|split; [lia|split; [|reflexivity]]].
           ++ apply (build_sep ulen (ilen0 s) id _ _ _ ic' c'); try assumption; try lia.
              ** subst h3. apply znth_hset_eq. subst h2 h1'. rewrite !zlen_hset. lia.
              ** intros j b A B. subst h3. apply znth_hset_inv in A; [|lia]. destruct A as [[-> _]|[Hne A]]; [left; reflexivity|].
                 subst h2. apply znth_hset_inv in A; [|lia]. destruct A as [[-> ->]|[Hne2 A]]; [discriminate|].
                 subst h1'. apply znth_hset_inv in A; [|lia]. destruct A as [[-> _]|[Hne3 A]]; [right; reflexivity|].
                 subst h1. apply znth_app_inv in A. destruct A as [[-> _]|[Hlt A]]; [contradiction|].
                 destruct (Hlive j b A B) as [->|[_ Hj]]; [contradiction|]. congruence.
              ** cbn [app log_ok live_of_log]. rewrite Hll, Hlok, Hnm. cbn [zmem].
                 rewrite !Z.eqb_refl. assert (E1 : (0 <=? ulen + 1) = true) by lia. rewrite E1.
                 rewrite Bool.orb_true_r. reflexivity.
              ** cbn [app nmalloc]. lia.
              ** cbn [app live_of_log]. rewrite Hll. cbn [zremove].
                 assert (E1 : (p =? id) = false) by lia. rewrite E1, Z.eqb_refl. reflexivity.
           ++ repeat constructor; exists (mkblk c' true); cbn [w_id w_off w_len blive bcells];
                (split; [exact Hzid3|]); repeat split; lia.
        -- cbn [set_post]. right. unfold same_store, slen_abs. cbn [slen ilen0 pptr hp elog]. rewrite Eneg.
           repeat split; auto. right. split; [assumption|lia].
      * (* fits what is remembered of the separate buffer: reuse it *)
        assert (Hrd : src_read (hp s) src ulen = Some (map Some nb)).
        { apply (src_read_ok s bs0); [assumption|lia|]. intros i o E. right.
          pose proof (Hown i o E) as Hc. rewrite Hcomp in Hc. inversion Hc; subst i.
          exists pc. split; assumption. }
        destruct (finish_spec s p src ulen (- ulen) pc nb Hzp Hrd) as (c' & Hf & Hh' & Hlc'); [assumption|lia|].
        rewrite Hf. cbn [set_post]. assert (Ep : (p =? 0) = false) by lia. rewrite Ep, Hp.
        left. split; [reflexivity|]. cbn [hp ilen0]. split; [|split; [lia|split; [|reflexivity]]].
        -- apply (build_sep ulen (ilen0 s) p _ _ _ ic c'); try assumption; try lia.
           ** rewrite znth_hset_neq by lia. assumption.
           ** apply znth_hset_eq. lia.
           ** intros j b A B. apply znth_hset_inv in A; [|lia]. destruct A as [[-> _]|[Hne A]]; [right; reflexivity|].
              destruct (Hlive j b A B) as [->|[_ Hj]]; [left; reflexivity|]. right. congruence.
           ** rewrite zlen_hset. assumption.
        -- apply wr_ok_finish; lia.
  - (* inline storage *)
    destruct Hin as [Hle Hh0]; [lia|]. pose proof (holds_len _ _ Hh0) as Hl0i.
    cbn [app] in Hll.
    assert (Hcomp : comp s = Some 0) by (unfold comp; rewrite Eneg; reflexivity).
    unfold set_phase1. rewrite Eneg. unfold comp. rewrite Eneg.
    destruct (ulen >? slen s) eqn:Eg.
    + destruct (al (reqs s) (ulen + 1)) eqn:Eal.
      * unfold hmalloc. cbv beta iota. rewrite ?Eneg.
        set (h1 := hp s ++ [mkblk (zrepeat None (ulen + 1)) true]). set (id := zlen (hp s)).
        assert (L1 : zlen h1 = zlen (hp s) + 1) by (subst h1; rewrite zlen_app; reflexivity).
        assert (Hz01 : znth h1 0 = Some (mkblk ic true)) by (subst h1; rewrite znth_app_l by lia; exact Hz0).
        assert (Hzid : znth h1 id = Some (mkblk (zrepeat None (ulen + 1)) true)) by (subst h1 id; apply znth_app_last).
        (* the new buffer is filled before the pointer overwrites the inline bytes *)
        assert (Hrd : src_read h1 src ulen = Some (map Some nb)).
        { apply (src_read_ok s bs0); [assumption|lia|]. intros i o E. right.
          pose proof (Hown i o E) as Hc. rewrite Hcomp in Hc. inversion Hc; subst i.
          exists ic. split; assumption. }
        destruct (fill_spec h1 id src ulen _ nb Hzid Hrd Hzf) as (c' & Hf & Hh' & Hlc');
          [rewrite zlen_zrepeat; lia|].
        rewrite zlen_zrepeat in Hlc'. rewrite Hf.
        set (h1' := hset h1 id (mkblk c' true)).
        assert (Hz01' : znth h1' 0 = Some (mkblk ic true)) by (subst h1'; rewrite znth_hset_neq by lia; exact Hz01).
        rewrite (hstore_ok _ _ ic _ _ Hz01') by (rewrite ?zlen_zrepeat; unfold PTRSZ in *; lia).
        set (ic' := cstore ic 0 (zrepeat None PTRSZ)).
        assert (Lic' : zlen ic' = zlen ic) by (subst ic'; apply zlen_cstore; rewrite ?zlen_zrepeat; unfold PTRSZ in *; lia).
        set (h3 := hset h1' 0 (mkblk ic' true)).
        assert (L3 : zlen h3 = zlen (hp s) + 1) by (subst h3 h1'; rewrite !zlen_hset; exact L1).
        assert (Hzid3 : znth h3 id = Some (mkblk c' true)).
        { subst h3. rewrite !znth_hset_neq by lia. subst h1'. apply znth_hset_eq. lia. }
        cbn [set_post].
        left. split; [reflexivity|]. cbn [hp ilen0]. split; [|split; [lia|split; [|reflexivity]]].
        -- apply (build_sep ulen (ilen0 s) id _ _ _ ic' c'); try assumption; try lia.
           ** subst h3. apply znth_hset_eq. subst h1'. rewrite !zlen_hset. lia.
           ** intros j b A B. subst h3. apply znth_hset_inv in A; [|lia]. destruct A as [[-> _]|[Hne A]]; [left; reflexivity|].
              subst h1'. apply znth_hset_inv in A; [|lia]. destruct A as [[-> _]|[Hne2 A]]; [right; reflexivity|].
              subst h1. apply znth_app_inv in A. destruct A as [[-> _]|[Hlt A]]; [contradiction|].
              destruct (Hlive j b A B) as [->|[Hj _]]; [contradiction|lia].
           ** cbn [app log_ok]. rewrite Hlok, Hnm. rewrite Z.eqb_refl.
              assert (E1 : (0 <=? ulen + 1) = true) by lia. rewrite E1. reflexivity.
           ** cbn [app nmalloc]. lia.
           ** cbn [app live_of_log]. rewrite Hll. reflexivity.
        -- repeat constructor; exists (mkblk c' true); cbn [w_id w_off w_len blive bcells];
             (split; [exact Hzid3|]); repeat split; lia.
      * cbn [set_post]. right. unfold same_store, slen_abs. cbn [slen ilen0 pptr hp elog]. rewrite Eneg.
        repeat split; auto. right. split; [assumption|lia].
    + (* fits the current inline contents *)
      assert (Hrd : src_read (hp s) src ulen = Some (map Some nb)).
      { apply (src_read_ok s bs0); [assumption|lia|]. intros i o E. right.
        pose proof (Hown i o E) as Hc. rewrite Hcomp in Hc. inversion Hc; subst i.
        exists ic. split; assumption. }
      destruct (finish_spec s 0 src ulen ulen ic nb Hz0 Hrd) as (c' & Hf & Hh' & Hlc'); [assumption|unfold PTRSZ in *; lia|].
      rewrite Hf. cbn [set_post Z.eqb].
      left. split; [reflexivity|]. cbn [hp ilen0]. split; [|split; [lia|split; [|reflexivity]]].
      * apply (build_inline ulen (ilen0 s) _ _ _ c'); try assumption; try lia.
        -- apply znth_hset_eq. lia.
        -- intros j b A B. apply znth_hset_inv in A; [|lia]. destruct A as [[-> _]|[Hne A]]; [reflexivity|].
           destruct (Hlive j b A B) as [->|[Hj _]]; [reflexivity|lia].
        -- rewrite zlen_hset. assumption.
      * apply wr_ok_finish; unfold PTRSZ in *; lia.
Qed.

(* ------------------------------------------------------------------ strlen *)
Lemma c_strlen_spec bs n : c_strlen bs = Some n ->
  0 <= n < zlen bs /\ znth bs n = Some 0 /\ ~ In 0 (zfirstn n bs).
Proof.
  revert n; induction bs as [|b t IH]; intros n H; cbn [c_strlen] in H; [discriminate|].
  pose proof (zlen_nonneg t) as Ht. cbn [zlen].
  destruct (b =? 0) eqn:E.
  - inversion H; subst n. assert (b = 0) by lia. subst b.
    split; [lia|]. split; [reflexivity|]. rewrite zfirstn_nonpos by lia. intros [].
  - destruct (c_strlen t) as [m|] eqn:Em; [|discriminate].
    assert (n = 1 + m) by congruence. subst n. clear H.
    destruct (IH m eq_refl) as (R & Hz & Hno). split; [lia|]. split.
    + unfold znth in *. destruct (m <? 0) eqn:A; [lia|]. destruct (1 + m <? 0) eqn:B; [lia|].
      replace (Z.to_nat (1 + m)) with (S (Z.to_nat m)) by lia. exact Hz.
    + unfold zfirstn in *. replace (Z.to_nat (1 + m)) with (S (Z.to_nat m)) by lia.
      cbn [firstn]. intros [A|A]; [lia|]. exact (Hno A).
Qed.

Lemma c_strlen_total bs : In 0 bs -> exists n, c_strlen bs = Some n.
Proof.
  induction bs as [|b t IH]; intros H; [destruct H|]. cbn [c_strlen].
  destruct (b =? 0) eqn:E; [eauto|]. destruct H as [H|H]; [lia|].
  destruct (IH H) as (m & ->). eauto.
Qed.

(* strlen through a pointer into a buffer that holds [a], NUL, ... *)
Lemma c_strlen_cells_app a r : c_strlen_cells (map Some a ++ Some 0 :: r) = c_strlen (a ++ [0]).
Proof.
  induction a as [|x a IH]; cbn [map app c_strlen_cells c_strlen]; [reflexivity|].
  destruct (x =? 0); [reflexivity|]. rewrite IH. reflexivity.
Qed.

Lemma cstr_nul a : exists n, c_strlen (a ++ [0]) = Some n /\ 0 <= n <= zlen a /\
                             cstr (a ++ [0]) = zfirstn n a.
Proof.
  destruct (c_strlen_total (a ++ [0])) as (n & Hn); [apply in_or_app; right; left; reflexivity|].
  destruct (c_strlen_spec _ _ Hn) as (R & _ & _). rewrite zlen_app in R. cbn [zlen] in R.
  exists n. split; [assumption|]. split; [lia|]. unfold cstr. rewrite Hn. apply zfirstn_app_l. lia.
Qed.

(* the contents as a function of the state (what an own-buffer source points into) *)
Definition contents (s : st) : list byte :=
  match read_bytes s (slen_abs s) with Some b => b | None => [] end.

Lemma inv_contents s bs : InvC s bs -> contents s = bs.
Proof. intros H. unfold contents. destruct (inv_read_bytes _ _ H) as [-> _]. reflexivity. Qed.

(* ------------------------------------------------------------------ one step of a history *)
(* caller contract, relative to the contents [c] at the call: the int argument is an int; a
   length that is not refused is readable at the source; a strlen-based source is
   NUL-terminated; a source inside the node's own buffer (json_object_get_string(o) + off)
   stays inside the contents and their terminator; it may overlap the destination *)
Definition op_wf (c : list byte) (o : sop) : Prop :=
  match o with
  | OpSetLen bs len => INT_MIN <= len <= INT_MAX /\ (0 <= len < INT_MAX - 1 -> len <= zlen bs)
  | OpSet bs => In 0 bs
  | OpSetOwnLen off len =>
      INT_MIN <= len <= INT_MAX /\ 0 <= off <= zlen c /\
      (0 <= len < INT_MAX - 1 -> off + len <= zlen c + 1)
  | OpSetOwn off => 0 <= off <= zlen c
  end.

(* the length the property statement speaks of *)
Definition op_len (c : list byte) (o : sop) : Z :=
  match o with
  | OpSetLen _ len => len
  | OpSet bs => zlen (cstr bs)
  | OpSetOwnLen _ len => len
  | OpSetOwn off => zlen (cstr (zskipn off c ++ [0]))
  end.

Definition step_post (al : alloc) (s : st) (c : list byte) (o : sop) (r : sres) : Prop :=
  match r with
  | SOk s' ret ws =>
      (ret = 1 /\ InvC s' (op_bytes c o) /\ zlen (op_bytes c o) = op_len c o /\
       0 <= op_len c o < INT_MAX - 1 /\
       Forall (wr_ok (hp s')) ws /\ ilen0 s' = ilen0 s)
      \/ (ret = 0 /\ ws = [] /\ same_store s s' /\
          (op_len c o < 0 \/ INT_MAX - 1 <= op_len c o \/
           (al (reqs s) (op_len c o + 1) = false /\ slen_abs s < op_len c o)))
  | SUB => False
  end.

(* set_string_len with an int argument, any source *)
Lemma set_len_spec al s bs0 p len nb :
  InvC s bs0 -> INT_MIN <= len <= INT_MAX ->
  (0 <= len < INT_MAX - 1 -> src_ok s bs0 p len nb) ->
  match set_string_len al s p len with
  | SOk s' ret ws =>
      (ret = 1 /\ InvC s' nb /\ zlen nb = len /\ 0 <= len < INT_MAX - 1 /\
       Forall (wr_ok (hp s')) ws /\ ilen0 s' = ilen0 s)
      \/ (ret = 0 /\ ws = [] /\ same_store s s' /\
          (len < 0 \/ INT_MAX - 1 <= len \/
           (al (reqs s) (len + 1) = false /\ slen_abs s < len)))
  | SUB => False
  end.
Proof.
  intros HI Hr Hsrc. unfold set_string_len, to_size_t. destruct (len <? 0) eqn:En.
  - assert (Hbig : INT_MAX - 1 <= len + SIZE_MAX + 1) by (unfold INT_MIN, INT_MAX, SIZE_MAX in *; lia).
    assert (H0 : 0 <= len + SIZE_MAX + 1) by (unfold INT_MIN, INT_MAX, SIZE_MAX in *; lia).
    assert (H1 : len + SIZE_MAX + 1 < INT_MAX - 1 -> src_ok s bs0 p (len + SIZE_MAX + 1) nb)
      by (intros; exfalso; lia).
    pose proof (set_sz_spec al s bs0 p (len + SIZE_MAX + 1) nb HI H0 H1) as S. unfold set_post in S.
    destruct (set_string_sz al s p (len + SIZE_MAX + 1)) as [s' ret ws|]; [|exact S].
    destruct S as [(_ & _ & Hlt & _)|(-> & -> & Hss & _)]; [lia|].
    right. split; [reflexivity|]. split; [reflexivity|]. split; [assumption|]. left. lia.
  - assert (H0 : 0 <= len) by lia.
    assert (H1 : len < INT_MAX - 1 -> src_ok s bs0 p len nb) by (intros; apply Hsrc; lia).
    pose proof (set_sz_spec al s bs0 p len nb HI H0 H1) as S. unfold set_post in S.
    destruct (set_string_sz al s p len) as [s' ret ws|]; [|exact S].
    destruct S as [(-> & HI' & Hlt & Hws & Hi0)|(-> & -> & Hss & Hwhy)].
    + left. split; [reflexivity|]. split; [assumption|]. split; [apply Hsrc; lia|].
      split; [lia|]. split; assumption.
    + right. split; [reflexivity|]. split; [reflexivity|]. split; [assumption|]. right. exact Hwhy.
Qed.

(* set_string: the length is found by strlen at the source *)
Lemma set_str_spec al s bs0 p n nb :
  InvC s bs0 -> src_strlen (hp s) p = Some n -> 0 <= n -> src_ok s bs0 p n nb ->
  match set_string al s p with
  | SOk s' ret ws =>
      (ret = 1 /\ InvC s' nb /\ 0 <= n < INT_MAX - 1 /\
       Forall (wr_ok (hp s')) ws /\ ilen0 s' = ilen0 s)
      \/ (ret = 0 /\ ws = [] /\ same_store s s' /\
          (INT_MAX - 1 <= n \/ (al (reqs s) (n + 1) = false /\ slen_abs s < n)))
  | SUB => False
  end.
Proof.
  intros HI Hn H0 Hok. unfold set_string. rewrite Hn.
  pose proof (set_sz_spec al s bs0 p n nb HI H0 (fun _ => Hok)) as S. unfold set_post in S.
  destruct (set_string_sz al s p n) as [s' ret ws|]; [|exact S].
  destruct S as [(-> & HI' & Hlt & Hws & Hi0)|(-> & -> & Hss & Hwhy)].
  - left. split; [reflexivity|]. split; [assumption|]. split; [lia|]. split; assumption.
  - right. split; [reflexivity|]. split; [reflexivity|]. split; assumption.
Qed.

Theorem step_spec al s bs0 o :
  InvC s bs0 -> op_wf bs0 o -> step_post al s bs0 o (str_step al s o).
Proof.
  intros HI Hwf. pose proof (zlen_nonneg bs0) as Hn0.
  destruct o as [src len|src|off len|off]; cbn [str_step op_wf] in *; unfold step_post; cbn [op_len op_bytes].
  - destruct Hwf as [Hr Hsrc].
    apply (set_len_spec al s bs0 (PExt src) len (zfirstn len src) HI Hr).
    intros Hl. split; [rewrite zlen_zfirstn; lia|]. split; [lia|reflexivity].
  - destruct (c_strlen_total _ Hwf) as (n & Hn). destruct (c_strlen_spec _ _ Hn) as (Rn & _ & _).
    unfold cstr. rewrite Hn.
    assert (Hz : zlen (zfirstn n src) = n) by (rewrite zlen_zfirstn; lia). rewrite Hz.
    assert (Hok : src_ok s bs0 (PExt src) n (zfirstn n src)) by (split; [assumption|split; [lia|reflexivity]]).
    pose proof (set_str_spec al s bs0 (PExt src) n _ HI Hn (proj1 Rn) Hok) as S.
    destruct (set_string al s (PExt src)) as [s' ret ws|]; [|exact S].
    destruct S as [(-> & A & B & C & D)|(-> & -> & Hss & Hwhy)].
    + left. auto 10.
    + right. auto 10.
  - destruct Hwf as (Hr & Ho & Hin). destruct (inv_comp _ _ HI) as (id & c & Hc & Hz & Hh). rewrite Hc.
    apply (set_len_spec al s bs0 (PHeap id off) len (zfirstn len (zskipn off (bs0 ++ [0]))) HI Hr).
    intros Hl. pose proof (Hin Hl) as Hi.
    split; [rewrite zlen_zfirstn, zlen_zskipn, zlen_app; cbn [zlen]; lia|]. split; [assumption|]. split; [lia|].
    split; [lia|reflexivity].
  - pose proof Hwf as Ho. destruct (inv_comp _ _ HI) as (id & c & Hc & Hz & Hh). rewrite Hc.
    pose proof (holds_len _ _ Hh) as Hlc.
    destruct (cstr_nul (zskipn off bs0)) as (n & Hn & Rn & Hcs). rewrite Hcs in *.
    assert (Lsk : zlen (zskipn off bs0) = zlen bs0 - off) by (rewrite zlen_zskipn; lia).
    assert (Hz2 : zlen (zfirstn n (zskipn off bs0)) = n) by (rewrite zlen_zfirstn; lia). rewrite Hz2 in *.
    assert (Hsl : src_strlen (hp s) (PHeap id off) = Some n).
    { cbn [src_strlen]. rewrite Hz. cbn [blive bcells].
      assert (E1 : (0 <=? off) = true) by lia. assert (E2 : (off <=? zlen c) = true) by lia.
      rewrite E1, E2. cbn [andb]. rewrite (holds_split _ _ Hh).
      rewrite zskipn_app_l by (rewrite zlen_map; lia). rewrite <- map_zskipn.
      rewrite c_strlen_cells_app. assumption. }
    assert (Hok : src_ok s bs0 (PHeap id off) n (zfirstn n (zskipn off bs0))).
    { split; [assumption|]. split; [assumption|]. split; [lia|]. split; [lia|].
      rewrite zskipn_app_l by lia. rewrite zfirstn_app_l by lia. reflexivity. }
    pose proof (set_str_spec al s bs0 (PHeap id off) n _ HI Hsl (proj1 Rn) Hok) as S.
    destruct (set_string al s (PHeap id off)) as [s' ret ws|]; [|exact S].
    destruct S as [(-> & A & B & C & D)|(-> & -> & Hss & Hwhy)].
    + left. auto 10.
    + right. auto 10.
Qed.

(* truncation in place, json_object_set_string_len(o, json_object_get_string(o), n) with
   n <= current length: always succeeds, never allocates, keeps the first n bytes *)
Theorem truncate_in_place al s bs0 n :
  InvC s bs0 -> 0 <= n <= zlen bs0 -> n < INT_MAX - 1 ->
  exists s' ws, str_step al s (OpSetOwnLen 0 n) = SOk s' 1 ws /\ InvC s' (zfirstn n bs0) /\
                reqs s' = reqs s /\ Forall (wr_ok (hp s')) ws.
Proof.
  intros HI Hn Hs.
  assert (Hwf : op_wf bs0 (OpSetOwnLen 0 n)).
  { cbn [op_wf]. unfold INT_MIN, INT_MAX in *. split; [lia|]. split; [lia|]. intros _. lia. }
  pose proof (step_spec al s bs0 _ HI Hwf) as S. pose proof (i_abs _ _ HI) as Ha.
  destruct (str_step al s (OpSetOwnLen 0 n)) as [s' ret ws|] eqn:E; [|contradiction].
  cbn [step_post op_bytes op_len] in S. rewrite zskipn_nonpos in S by lia.
  rewrite zfirstn_app_l in S by lia.
  destruct S as [(-> & HI' & _ & _ & Hws & _)|(_ & _ & _ & [A|[A|[_ A]]])]; try lia.
  exists s', ws. split; [reflexivity|]. split; [assumption|]. split; [|assumption].
  (* no allocation request: the request counter only moves on the malloc path *)
  cbn [str_step] in E. destruct (comp s) as [id|]; [|discriminate].
  unfold set_string_len, to_size_t in E. assert (En : (n <? 0) = false) by lia. rewrite En in E.
  unfold set_string_sz in E. assert (E0 : (n >=? INT_MAX - 1) = false) by lia. rewrite E0 in E.
  unfold set_phase1 in E. unfold slen_abs in Ha.
  destruct (slen s <? 0) eqn:Eneg.
  - destruct (n =? 0) eqn:Ez.
    + destruct (pptr s) as [p|]; [|discriminate]. destruct (hfree (hp s) p); [|discriminate].
      cbn [comp slen Z.ltb Z.compare] in E. assert (Eg : (n >? 0) = false) by lia. rewrite Eg in E.
      unfold set_finish in E. cbn [hp ilen0 pptr reqs elog slen] in E.
      repeat match type of E with context [match ?x with _ => _ end] => destruct x; try discriminate end;
        inversion E; subst; reflexivity.
    + destruct (slen s =? SSIZE_T_MIN); [discriminate|]. destruct (comp s); [|discriminate].
      assert (Eg : (n >? - slen s) = false) by lia. rewrite Eg in E.
      unfold set_finish in E.
      repeat match type of E with context [match ?x with _ => _ end] => destruct x; try discriminate end;
        inversion E; subst; reflexivity.
  - destruct (comp s); [|discriminate]. assert (Eg : (n >? slen s) = false) by lia. rewrite Eg in E.
    unfold set_finish in E.
    repeat match type of E with context [match ?x with _ => _ end] => destruct x; try discriminate end;
      inversion E; subst; reflexivity.
Qed.

(* a set that fails — refused length or allocation failure — leaves contents, length,
   storage and the malloc/free log exactly as they were *)
Theorem failed_set_keeps al s bs0 o s' ws :
  InvC s bs0 -> op_wf bs0 o -> str_step al s o = SOk s' 0 ws ->
  ws = [] /\ same_store s s' /\ InvC s' bs0 /\
  get_string s' = get_string s /\ slen_abs s' = slen_abs s /\ is_sep s' = is_sep s /\
  (op_len bs0 o < 0 \/ INT_MAX - 1 <= op_len bs0 o \/
   (al (reqs s) (op_len bs0 o + 1) = false /\ slen_abs s < op_len bs0 o)).
Proof.
  intros HI Hwf H. pose proof (step_spec al s bs0 o HI Hwf) as S. rewrite H in S. cbn [step_post] in S.
  destruct S as [(Hc & _)|(_ & -> & Hss & Hwhy)]; [discriminate|].
  pose proof (same_store_inv _ _ _ HI Hss) as HI'.
  split; [reflexivity|]. split; [assumption|]. split; [assumption|].
  destruct (inv_view _ _ HI) as (G1 & G2 & _). destruct (inv_view _ _ HI') as (G1' & G2' & _).
  repeat split; try congruence. unfold is_sep. destruct Hss as (-> & _). reflexivity.
Qed.

(* refusals and failures are never spurious: a representable length succeeds whenever the
   allocator cooperates *)
Theorem good_set_succeeds s bs0 o :
  InvC s bs0 -> op_wf bs0 o -> 0 <= op_len bs0 o < INT_MAX - 1 ->
  exists s' ws, str_step (fun _ _ => true) s o = SOk s' 1 ws.
Proof.
  intros HI Hwf Hl. pose proof (step_spec (fun _ _ => true) s bs0 o HI Hwf) as S.
  destruct (str_step (fun _ _ => true) s o) as [s' ret ws|]; [|contradiction].
  cbn [step_post] in S. destruct S as [(-> & _)|(_ & _ & _ & [A|[A|[A _]]])]; try lia; try discriminate.
  eauto.
Qed.

(* ------------------------------------------------------------------ whole histories *)
Fixpoint str_run (al : alloc) (s : st) (ops : list sop) : option (st * list Z) :=
  match ops with
  | [] => Some (s, [])
  | o :: os =>
      match str_step al s o with
      | SOk s' r _ => match str_run al s' os with Some (q, rs) => Some (q, r :: rs) | None => None end
      | SUB => None
      end
  end.

(* every call of the history respects the caller contract in the state it is applied to *)
Fixpoint hist_ok (al : alloc) (s : st) (ops : list sop) : Prop :=
  match ops with
  | [] => True
  | o :: os => op_wf (contents s) o /\
               match str_step al s o with SOk s' _ _ => hist_ok al s' os | SUB => True end
  end.

(* the property's reading of a history: the bytes of the last successful set *)
Fixpoint spec_run (c : list byte) (ops : list sop) (rets : list Z) : list byte :=
  match ops, rets with
  | o :: os, r :: rs => spec_run (if r =? 1 then op_bytes c o else c) os rs
  | _, _ => c
  end.

Theorem run_spec al ops : forall s bs0,
  InvC s bs0 -> hist_ok al s ops ->
  exists s' rets, str_run al s ops = Some (s', rets) /\ InvC s' (spec_run bs0 ops rets) /\
                  length rets = length ops /\ Forall (fun r => r = 0 \/ r = 1) rets /\
                  ilen0 s' = ilen0 s /\
                  (zlen bs0 <= INT_MAX -> zlen (spec_run bs0 ops rets) <= INT_MAX).
Proof.
  induction ops as [|o os IH]; intros s bs0 HI Hwf.
  - exists s, []. cbn. split; [reflexivity|]. split; [assumption|]. auto.
  - cbn [hist_ok] in Hwf. destruct Hwf as [Ho Hos]. rewrite (inv_contents _ _ HI) in Ho. cbn [str_run].
    pose proof (step_spec al s bs0 o HI Ho) as S.
    destruct (str_step al s o) as [s1 r ws|]; [|contradiction]. cbn [step_post] in S.
    destruct S as [(-> & HI1 & Hz & Hr & _ & Hi0)|(-> & _ & Hss & _)].
    + destruct (IH s1 _ HI1 Hos) as (q & rs & -> & HIq & Hlen & Hrs & Hi & Hb).
      exists q, (1 :: rs). cbn [spec_run length Z.eqb Pos.eqb].
      split; [reflexivity|]. split; [assumption|]. split; [congruence|]. split; [auto|].
      split; [congruence|]. intros _. apply Hb. unfold INT_MAX in *. lia.
    + pose proof (same_store_inv _ _ _ HI Hss) as HI1.
      destruct (IH s1 _ HI1 Hos) as (q & rs & -> & HIq & Hlen & Hrs & Hi & Hb).
      exists q, (0 :: rs). cbn [spec_run length Z.eqb].
      split; [reflexivity|]. split; [assumption|]. split; [congruence|]. split; [auto|].
      split; [|assumption]. destruct Hss as (_ & E & _). congruence.
Qed.

(* for all histories: reading returns exactly the last bytes set, the reported length is
   their count, a NUL follows them inside the buffer *)
Theorem get_after_sets al ops s bs0 :
  InvC s bs0 -> zlen bs0 <= INT_MAX -> hist_ok al s ops ->
  exists s' rets, str_run al s ops = Some (s', rets) /\
    let bs := spec_run bs0 ops rets in
    get_string s' = Some (map Some bs) /\ get_string_len s' = zlen bs /\
    get_nul s' = Some (Some 0) /\ InvC s' bs.
Proof.
  intros HI Hb Hwf. destruct (run_spec al ops s bs0 HI Hwf) as (s' & rets & Hr & HI' & _ & _ & _ & Hb').
  exists s', rets. split; [assumption|]. cbv zeta.
  destruct (inv_view _ _ HI') as (G1 & _ & G3 & G4). auto.
Qed.

(* histories whose sources are all outside the node need no state-dependent contract *)
Definition ext_wf (o : sop) : Prop :=
  match o with
  | OpSetLen bs len => INT_MIN <= len <= INT_MAX /\ (0 <= len < INT_MAX - 1 -> len <= zlen bs)
  | OpSet bs => In 0 bs
  | _ => False
  end.

Lemma ext_hist_ok al ops : forall s, Inv s -> Forall ext_wf ops -> hist_ok al s ops.
Proof.
  induction ops as [|o os IH]; intros s (b & HI) Hf; [exact I|].
  inversion Hf as [|? ? Ho Hos]; subst. cbn [hist_ok].
  assert (Hwf : forall c, op_wf c o) by (intros c; destruct o; cbn in *; tauto).
  split; [apply Hwf|]. pose proof (step_spec al s b o HI (Hwf b)) as S.
  destruct (str_step al s o) as [s1 r ws|]; [|exact I]. cbn [step_post] in S. apply IH; [|assumption].
  destruct S as [(_ & H1 & _)|(_ & _ & Hss & _)]; [eexists; eassumption|].
  exists b. eapply same_store_inv; eassumption.
Qed.

(* ------------------------------------------------------------------ creation *)
Definition objsize_of (ulen : Z) : Z := HDR + (ulen + 1 + (if ulen <? PTRSZ then PTRSZ - ulen else 0)).

Lemma new_sz_spec al src ulen :
  0 <= ulen -> (ulen <= SSIZE_T_MAX - HDR - 1 -> ulen <= zlen src) ->
  match new_string_sz al src ulen with
  | NOk s => InvC s (zfirstn ulen src) /\ ilen0 s = ulen /\ slen s = ulen /\
             al 0 (objsize_of ulen) = true /\ elog s = [EvMalloc 0 (objsize_of ulen)]
  | NNull _ => SSIZE_T_MAX - HDR - 1 < ulen \/ al 0 (objsize_of ulen) = false
  | NUB => False
  end.
Proof.
  intros Hu Hsrc. unfold new_string_sz. fold (objsize_of ulen).
  destruct (ulen >? SSIZE_T_MAX - HDR - 1) eqn:E0; [left; lia|].
  assert (Hs : ulen <= zlen src) by lia.
  set (icap := ulen + 1 + (if ulen <? PTRSZ then PTRSZ - ulen else 0)).
  assert (Hicap : icap = Z.max ulen PTRSZ + 1) by (subst icap; destruct (ulen <? PTRSZ) eqn:E; lia).
  assert (E1 : (objsize_of ulen >? SIZE_MAX) = false).
  { unfold objsize_of. fold icap. unfold SSIZE_T_MAX, HDR, PTRSZ, SIZE_MAX in *. lia. }
  rewrite E1. destruct (al 0 (objsize_of ulen)) eqn:Eal; [|right; reflexivity].
  assert (E2 : (ulen >? zlen src) = false) by lia. rewrite E2.
  set (c0 := zrepeat None icap).
  assert (Lc0 : zlen c0 = icap) by (subst c0; rewrite zlen_zrepeat; unfold PTRSZ in *; lia).
  set (bs := zfirstn ulen src).
  assert (Hl : zlen bs = ulen) by (subst bs; rewrite zlen_zfirstn; lia).
  unfold hwrite.
  rewrite (hstore_ok [mkblk c0 true] 0 c0) by (try reflexivity; rewrite ?zlen_map; unfold PTRSZ in *; lia).
  assert (L1 : zlen (cstore c0 0 (map Some bs)) = zlen c0)
    by (apply zlen_cstore; rewrite ?zlen_map; unfold PTRSZ in *; lia).
  rewrite (hstore_ok _ 0 (cstore c0 0 (map Some bs))) by (try reflexivity; cbn [map zlen]; unfold PTRSZ in *; lia).
  split; [|repeat split; reflexivity].
  cbn [hset Z.to_nat upd].
  apply (build_inline ulen ulen _ _ _ (cstore (cstore c0 0 (map Some bs)) ulen [Some 0])); try lia; try reflexivity.
  - rewrite zlen_cstore by (cbn [zlen]; unfold PTRSZ in *; lia). lia.
  - rewrite <- Hl. apply holds_two_writes. unfold PTRSZ in *. lia.
  - intros j b A B. pose proof (znth_range _ _ _ A) as R. cbn [zlen] in R. lia.
  - cbn [log_ok nmalloc]. unfold objsize_of. fold icap. unfold HDR, PTRSZ in *.
    assert (E : (0 <=? 48 + icap) = true) by lia. rewrite E. reflexivity.
Qed.

Theorem new_len_spec al src len :
  INT_MIN <= len <= INT_MAX -> (0 <= len -> len <= zlen src) ->
  match new_string_len al src len with
  | NOk s => InvC s (zfirstn len src) /\ 0 <= len /\ ilen0 s = len /\ slen s = len /\
             elog s = [EvMalloc 0 (objsize_of len)]
  | NNull _ => len < 0 \/ al 0 (objsize_of len) = false
  | NUB => False
  end.
Proof.
  intros Hr Hsrc. unfold new_string_len, to_size_t. destruct (len <? 0) eqn:E.
  - unfold new_string_sz.
    assert (E1 : (len + SIZE_MAX + 1 >? SSIZE_T_MAX - HDR - 1) = true)
      by (unfold INT_MIN, INT_MAX, SIZE_MAX, SSIZE_T_MAX, HDR in *; lia).
    rewrite E1. left. lia.
  - assert (H0 : 0 <= len) by lia.
    assert (H1 : len <= SSIZE_T_MAX - HDR - 1 -> len <= zlen src) by (intros _; apply Hsrc; lia).
    pose proof (new_sz_spec al src len H0 H1) as S.
    destruct (new_string_sz al src len) as [s|r|].
    + destruct S as (A & B & C & D & F). auto 10.
    + destruct S as [S|S]; [unfold INT_MAX, SSIZE_T_MAX, HDR in *; lia|]. right. assumption.
    + exact S.
Qed.

Theorem new_str_spec al src :
  In 0 src -> zlen (cstr src) <= SSIZE_T_MAX - HDR - 1 ->
  match new_string al src with
  | NOk s => InvC s (cstr src) /\ ilen0 s = zlen (cstr src) /\ ~ In 0 (cstr src)
  | NNull _ => al 0 (objsize_of (zlen (cstr src))) = false
  | NUB => False
  end.
Proof.
  intros H0 Hsmall. destruct (c_strlen_total _ H0) as (n & Hn). unfold new_string, cstr in *. rewrite Hn in *.
  destruct (c_strlen_spec _ _ Hn) as (Rn & _ & Hno).
  assert (Hz : zlen (zfirstn n src) = n) by (rewrite zlen_zfirstn; lia). rewrite Hz in *.
  assert (H1 : n <= SSIZE_T_MAX - HDR - 1 -> n <= zlen src) by lia.
  pose proof (new_sz_spec al src n (proj1 Rn) H1) as S.
  destruct (new_string_sz al src n) as [s|r|].
  - destruct S as (A & B & _). auto.
  - destruct S as [S|S]; [lia|]. assumption.
  - exact S.
Qed.

(* ------------------------------------------------------------------ delete *)
Theorem delete_spec s bs : InvC s bs ->
  exists s', str_delete s = DOk s' /\ live_of_log (elog s') = [] /\ log_ok (elog s') = true /\
             (forall j b, znth (hp s') j = Some b -> blive b = false).
Proof.
  intros HI. destruct HI as [Hl0 Habs Hmin (ic & Hz0 & Hic & Hin) Hsep Hlive Hlok Hnm Hll].
  pose proof (znth_range _ _ _ Hz0) as R0. unfold str_delete.
  destruct (slen s <? 0) eqn:Eneg.
  - destruct Hsep as (p & pc & Hp & Hp0 & Hzp & Hhp); [lia|]. pose proof (znth_range _ _ _ Hzp) as Rp.
    rewrite Hp in *. cbn [app] in Hll. rewrite (hfree_ok _ _ pc Hzp).
    assert (Hz0' : znth (hset (hp s) p (mkblk pc false)) 0 = Some (mkblk ic true))
      by (rewrite znth_hset_neq by lia; exact Hz0).
    rewrite (hfree_ok _ _ ic Hz0'). eexists. split; [reflexivity|]. cbn [elog hp app].
    split; [|split].
    + cbn [live_of_log]. rewrite Hll. cbn [zremove]. rewrite !Z.eqb_refl. reflexivity.
    + cbn [log_ok live_of_log]. rewrite Hll, Hlok. cbn [zremove zmem]. rewrite !Z.eqb_refl. reflexivity.
    + intros j b A. apply znth_hset_inv in A; [|lia]. destruct A as [[-> ->]|[Hne A]]; [reflexivity|].
      apply znth_hset_inv in A; [|lia]. destruct A as [[-> ->]|[Hne2 A]]; [reflexivity|].
      destruct (blive b) eqn:B; [|reflexivity]. destruct (Hlive j b A B) as [->|[_ Hj]]; congruence.
  - cbn [app] in Hll. rewrite (hfree_ok _ _ ic Hz0). eexists. split; [reflexivity|]. cbn [elog hp app].
    split; [|split].
    + cbn [live_of_log]. rewrite Hll. cbn [zremove]. reflexivity.
    + cbn [log_ok]. rewrite Hll, Hlok. reflexivity.
    + intros j b A. apply znth_hset_inv in A; [|lia]. destruct A as [[-> ->]|[Hne A]]; [reflexivity|].
      destruct (blive b) eqn:B; [|reflexivity]. destruct (Hlive j b A B) as [->|[Hj _]]; [congruence|lia].
Qed.

(* ------------------------------------------------------------------ all histories: no leak, no use after free *)
(* the states reachable from [s] by any history of well-formed set operations *)
Inductive reach (al : alloc) : st -> st -> Prop :=
| reach_refl s : reach al s s
| reach_step s s1 s2 o r ws :
    reach al s s1 -> op_wf (contents s1) o -> str_step al s1 o = SOk s2 r ws -> reach al s s2.

Lemma reach_inv al s s' : Inv s -> reach al s s' -> Inv s'.
Proof.
  intros HI R. induction R as [|s s1 s2 o r ws R IH Ho Hs]; [assumption|].
  destruct (IH HI) as (b1 & H1). rewrite (inv_contents _ _ H1) in Ho.
  pose proof (step_spec al s1 b1 o H1 Ho) as S. rewrite Hs in S.
  cbn [step_post] in S. destruct S as [(_ & H2 & _)|(_ & _ & Hss & _)].
  - eexists; eassumption.
  - exists b1. eapply same_store_inv; eassumption.
Qed.

(* the log is well formed (no double free, no foreign free), the live blocks according to
   the log are the object and — iff len < 0 — the buffer pdata points to, and the heap
   agrees with the log on which blocks are live *)
Definition Safe (s : st) : Prop :=
  log_ok (elog s) = true /\
  live_of_log (elog s) =
    (if is_sep s then match pptr s with Some p => [p] | None => [] end else []) ++ [0] /\
  (is_sep s = true -> exists p, pptr s = Some p /\ 0 < p) /\
  (forall j b, znth (hp s) j = Some b -> (blive b = true <-> In j (live_of_log (elog s)))).

Lemma inv_safe s : Inv s -> Safe s.
Proof.
  intros (bs & HI). destruct HI as [Hl0 Habs Hmin (ic & Hz0 & Hic & Hin) Hsep Hlive Hlok Hnm Hll].
  unfold Safe, is_sep. split; [assumption|]. split; [assumption|]. split.
  - intros E. destruct Hsep as (p & pc & Hp & Hp0 & _); [lia|]. eauto.
  - intros j b A. rewrite Hll. split.
    + intros B. destruct (Hlive j b A B) as [->|[Hn Hj]].
      * apply in_or_app. right. left. reflexivity.
      * assert (E : (slen s <? 0) = true) by lia. rewrite E, Hj. left. reflexivity.
    + intros Hi. apply in_app_or in Hi. destruct Hi as [Hi|[<-|[]]].
      * destruct (slen s <? 0) eqn:E; [|destruct Hi].
        destruct Hsep as (p & pc & Hp & _ & Hzp & _); [lia|]. rewrite Hp in Hi.
        destruct Hi as [<-|[]]. rewrite Hzp in A. inversion A. reflexivity.
      * rewrite Hz0 in A. inversion A. reflexivity.
Qed.

Theorem no_leak_no_uaf al s0 s o :
  Inv s0 -> reach al s0 s -> op_wf (contents s) o ->
  Safe s /\
  match str_step al s o with
  | SOk s' r ws => Forall (wr_ok (hp s')) ws /\ Safe s' /\ (r = 0 \/ r = 1)
  | SUB => False
  end.
Proof.
  intros H0 R Ho. pose proof (reach_inv al s0 s H0 R) as HI. split; [apply inv_safe; assumption|].
  destruct HI as (b1 & H1). rewrite (inv_contents _ _ H1) in Ho.
  pose proof (step_spec al s b1 o H1 Ho) as S.
  destruct (str_step al s o) as [s' r ws|] eqn:E; [|exact S]. cbn [step_post] in S.
  destruct S as [(-> & H2 & _ & _ & Hws & _)|(-> & -> & Hss & _)].
  - split; [assumption|]. split; [|right; reflexivity]. apply inv_safe. eexists; eassumption.
  - split; [constructor|]. split; [|left; reflexivity]. apply inv_safe. exists b1.
    eapply same_store_inv; eassumption.
Qed.

(* whole life: creation, any history, delete: nothing stays live *)
Theorem life_no_leak al s0 s : Inv s0 -> reach al s0 s ->
  exists s', str_delete s = DOk s' /\ live_of_log (elog s') = [] /\ log_ok (elog s') = true /\
             (forall j b, znth (hp s') j = Some b -> blive b = false).
Proof.
  intros H0 R. destruct (reach_inv al s0 s H0 R) as (b & HI). eapply delete_spec; eassumption.
Qed.

(* ------------------------------------------------------------------ equality, copy, serialisation *)
Lemma list_eqb_spec a : forall b, list_eqb a b = true <-> a = b.
Proof.
  induction a as [|x a IH]; intros [|y b]; cbn [list_eqb]; split; intros H; try reflexivity; try discriminate.
  - apply andb_true_iff in H. destruct H as [A B]. apply IH in B. assert (x = y) by lia. congruence.
  - inversion H; subst. rewrite Z.eqb_refl. cbn. apply IH. reflexivity.
Qed.

Theorem equal_spec s1 b1 s2 b2 :
  InvC s1 b1 -> InvC s2 b2 -> exists r, str_equal s1 s2 = Some r /\ (r = true <-> b1 = b2).
Proof.
  intros H1 H2. destruct (inv_read_bytes _ _ H1) as [R1 _]. destruct (inv_read_bytes _ _ H2) as [R2 _].
  pose proof (i_abs _ _ H1) as A1. pose proof (i_abs _ _ H2) as A2. unfold str_equal.
  destruct (slen_abs s1 =? slen_abs s2) eqn:E.
  - assert (Heq : slen_abs s1 = slen_abs s2) by lia. rewrite R1. rewrite Heq, R2.
    exists (list_eqb b1 b2). split; [reflexivity|]. apply list_eqb_spec.
  - exists false. split; [reflexivity|]. split; [discriminate|]. intros ->. lia.
Qed.

Theorem copy_spec al s bs :
  InvC s bs -> zlen bs <= INT_MAX ->
  match str_copy al s with
  | NOk c => InvC c bs /\ elog c = [EvMalloc 0 (objsize_of (zlen bs))]
  | NNull _ => al 0 (objsize_of (zlen bs)) = false
  | NUB => False
  end.
Proof.
  intros H Hs. pose proof (zlen_nonneg bs) as Hn. destruct (inv_read_bytes _ _ H) as [_ R].
  unfold str_copy. rewrite R. rewrite (i_abs _ _ H). rewrite to_int_small by lia.
  assert (Hr : INT_MIN <= zlen bs <= INT_MAX) by (unfold INT_MIN, INT_MAX in *; lia).
  assert (Hsrc : 0 <= zlen bs -> zlen bs <= zlen (bs ++ [0])) by (rewrite zlen_app; cbn [zlen]; lia).
  pose proof (new_len_spec al (bs ++ [0]) (zlen bs) Hr Hsrc) as S.
  rewrite zfirstn_app_l in S by lia. rewrite zfirstn_all in S by lia.
  destruct (new_string_len al (bs ++ [0]) (zlen bs)) as [c|r|].
  - destruct S as (A & _ & _ & _ & F). auto.
  - destruct S as [S|S]; [lia|assumption].
  - exact S.
Qed.

Theorem ser_spec ns s bs : InvC s bs -> str_ser ns s = Some (34 :: escape ns bs ++ [34]).
Proof.
  intros H. destruct (inv_read_bytes _ _ H) as [R _]. unfold str_ser. rewrite R. reflexivity.
Qed.

Lemma escape_app ns a b : escape ns (a ++ b) = escape ns a ++ escape ns b.
Proof. unfold escape. apply flat_map_app. Qed.

Lemma escape_cons ns c t : escape ns (c :: t) = esc1 ns c ++ escape ns t.
Proof. reflexivity. Qed.

Definition is_bytes (l : list byte) : Prop := Forall (fun c => 0 <= c < 256) l.

Lemma hexdig_inj a b : 0 <= a < 16 -> 0 <= b < 16 -> hexdig a = hexdig b -> a = b.
Proof. unfold hexdig. intros Ha Hb. destruct (a <? 10) eqn:A, (b <? 10) eqn:B; lia. Qed.

(* the per-byte code is prefix free: the output determines the input byte by byte *)
Lemma esc1_prefix_free ns a b x y :
  0 <= a < 256 -> 0 <= b < 256 -> esc1 ns a ++ x = esc1 ns b ++ y -> a = b /\ x = y.
Proof.
  intros Ha Hb H. unfold esc1 in H.
  repeat match type of H with context [if ?c then _ else _] => destruct c eqn:? end;
    cbn [app] in H; inversion H; subst; clear H;
    try (split; [lia|reflexivity]); try lia.
  assert (a / 16 = b / 16) by (apply hexdig_inj; try assumption; Z.div_mod_to_equations; lia).
  assert (a mod 16 = b mod 16) by (apply hexdig_inj; try assumption; Z.div_mod_to_equations; lia).
  split; [|reflexivity]. Z.div_mod_to_equations. lia.
Qed.

Lemma esc1_nonnil ns c : esc1 ns c <> [].
Proof.
  unfold esc1. repeat match goal with |- context [if ?c then _ else _] => destruct c end; discriminate.
Qed.

(* different byte strings have different serialisations: every byte counts, also those
   after an embedded NUL *)
Theorem escape_inj ns a : forall b, is_bytes a -> is_bytes b -> escape ns a = escape ns b -> a = b.
Proof.
  induction a as [|x a IH]; intros [|y b] Ha Hb H.
  - reflexivity.
  - exfalso. rewrite escape_cons in H. cbn in H. destruct (esc1 ns y) eqn:E; [exact (esc1_nonnil _ _ E)|discriminate].
  - exfalso. rewrite escape_cons in H. cbn in H. destruct (esc1 ns x) eqn:E; [exact (esc1_nonnil _ _ E)|discriminate].
  - rewrite !escape_cons in H. inversion Ha; subst. inversion Hb; subst.
    apply esc1_prefix_free in H; try assumption. destruct H as [-> H]. f_equal. apply IH; assumption.
Qed.

Theorem ser_inj ns s1 b1 s2 b2 :
  InvC s1 b1 -> InvC s2 b2 -> is_bytes b1 -> is_bytes b2 -> str_ser ns s1 = str_ser ns s2 -> b1 = b2.
Proof.
  intros H1 H2 B1 B2 H. rewrite (ser_spec ns _ _ H1), (ser_spec ns _ _ H2) in H.
  inversion H as [E]. apply app_inv_tail in E. eapply escape_inj; eassumption.
Qed.

(* equality, copy and serialisation use all [length] bytes *)
Theorem equal_copy_ser_use_all_bytes al ns s1 b1 s2 b2 :
  InvC s1 b1 -> InvC s2 b2 -> zlen b1 <= INT_MAX ->
  (exists r, str_equal s1 s2 = Some r /\ (r = true <-> b1 = b2)) /\
  match str_copy al s1 with
  | NOk c => InvC c b1 /\ elog c = [EvMalloc 0 (objsize_of (zlen b1))]
  | NNull _ => al 0 (objsize_of (zlen b1)) = false
  | NUB => False
  end /\
  str_ser ns s1 = Some (34 :: escape ns b1 ++ [34]) /\
  (is_bytes b1 -> is_bytes b2 -> str_ser ns s1 = str_ser ns s2 -> b1 = b2).
Proof.
  intros H1 H2 Hs. split; [apply equal_spec; assumption|]. split; [apply copy_spec; assumption|].
  split; [apply ser_spec; assumption|]. intros. eapply ser_inj; eassumption.
Qed.

(* ------------------------------------------------------------------ the guard on the int-typed length *)
(* json_object_get_string_len returns int: a node of 2^31 bytes (creatable only through
   json_object_new_string) reports a negative length.  This is why [get_after_sets] and
   [inv_view] carry the hypothesis  zlen bs <= INT_MAX  (established by every setter and by
   json_object_new_string_len, whose length argument is an int). *)
Lemma get_len_wraps s : slen s = 2147483648 -> get_string_len s = -2147483648.
Proof. intros H. unfold get_string_len, slen_abs. rewrite H. reflexivity. Qed.

(* ------------------------------------------------------------------ non-vacuity *)
Definition ex_al : alloc := fun k _ => negb (k =? 2).      (* the third allocation request fails *)
Definition ex_ops : list sop :=
  [OpSetLen [1; 0; 255; 47; 9] 4;                                   (* shorter, embedded NUL, inline *)
   OpSetOwn 0;                                                      (* set_string(o, get_string(o)): cut at the NUL *)
   OpSetLen [97; 98; 99; 100; 101; 102; 103; 104; 105; 106; 107; 108] 12;   (* longer: separate buffer *)
   OpSetOwnLen 0 9;                                                 (* truncation in place, separate buffer *)
   OpSetOwnLen 6 3;                                                 (* "ghi": own buffer + 6, disjoint copy *)
   OpSetLen [1; 2; 3; 4; 5; 6; 7; 8; 9; 10; 11; 12; 13; 14] 14;     (* allocation failure *)
   OpSetLen [1; 2; 3; 4] 4;                                         (* longer than remembered: new buffer *)
   OpSetOwnLen 0 0;                                                 (* in-place truncation to zero: back inline *)
   OpSetLen [5] (-1);                                               (* refused length *)
   OpSetLen [0; 200] 2].                                            (* separate again *)

Example history_nontrivial :
  match new_string_len (fun _ _ => true) [104; 101; 108; 108; 111] 5 with
  | NOk s0 =>
      hist_ok ex_al s0 ex_ops /\
      match str_run ex_al s0 ex_ops with
      | Some (s, rets) =>
          rets = [1; 1; 1; 1; 1; 0; 1; 1; 0; 1] /\
          get_string s = Some [Some 0; Some 200] /\ get_string_len s = 2 /\ get_nul s = Some (Some 0) /\
          is_sep s = true /\ live_of_log (elog s) = [3; 0] /\
          str_ser false s = Some [34; 92; 117; 48; 48; 48; 48; 200; 34] /\
          match str_delete s with
          | DOk s' => elog s' = [EvFree 0; EvFree 3; EvMalloc 3 3; EvFree 2; EvFree 1; EvMalloc 2 5;
                                 EvMalloc 1 13; EvMalloc 0 57]
          | DUB => False
          end
      | None => False
      end /\
      match str_run ex_al s0 (firstn 5 ex_ops) with
      | Some (s, _) => get_string s = Some [Some 103; Some 104; Some 105]
      | None => False
      end
  | _ => False
  end.
Proof. vm_compute. intuition (try discriminate; auto 10). Qed.

(* equality distinguishes strings that differ only after an embedded NUL; a failed set and a
   refused length are really reachable *)
Example equal_uses_bytes_after_nul :
  match new_string_len (fun _ _ => true) [97; 0; 98] 3, new_string_len (fun _ _ => true) [97; 0; 99] 3,
        new_string_len (fun _ _ => true) [97] 1 with
  | NOk a, NOk b, NOk c =>
      str_equal a b = Some false /\ str_equal a a = Some true /\ str_equal a c = Some false /\
      str_ser false a <> str_ser false b
  | _, _, _ => False
  end.
Proof. vm_compute. repeat split; discriminate. Qed.

(* the model can express the failures the theorems exclude: a stale pointer is a use after
   free, a double free is rejected by the log check *)
Example model_detects_uaf_and_double_free :
  match new_string_len (fun _ _ => true) [1; 2; 3] 3 with
  | NOk s0 =>
      match set_string_len (fun _ _ => true) s0 (PExt [1; 2; 3; 4; 5]) 5 with
      | SOk s1 _ _ =>
          match pptr s1 with
          | Some p =>
              match hfree (hp s1) p with
              | Some h' =>
                  (* same node, but its buffer has been released behind its back *)
                  let bad := mkst (slen s1) (ilen0 s1) (pptr s1) h' (reqs s1) (EvFree p :: elog s1) in
                  get_string bad = None /\ str_delete bad = DUB /\
                  set_string_len (fun _ _ => true) bad (PExt [9]) 1 = SUB /\
                  log_ok (EvFree p :: EvFree p :: elog s1) = false
              | None => False
              end
          | None => False
          end
      | SUB => False
      end
  | _ => False
  end.
Proof. vm_compute. repeat split. Qed.

(* the order "copy, then release" is part of the model: had the old buffer been released
   before the copy (as in the zero-length branch, but for a non-zero length), a source inside
   the node's own buffer would be read after its release — the model says UB; a source that
   overlaps its destination is defined (memmove), and so is one that makes the string grow *)
Example copy_before_free_matters :
  match new_string_len (fun _ _ => true) [1; 2; 3] 3 with
  | NOk s0 =>
      match set_string_len (fun _ _ => true) s0 (PExt [65; 66; 67; 68; 69; 70; 71; 72; 73; 74]) 10 with
      | SOk s1 _ _ =>
          match pptr s1 with
          | Some p =>
              (* the unchanged order: truncation in place to 5 bytes *)
              (match str_step (fun _ _ => true) s1 (OpSetOwnLen 0 5) with
               | SOk s2 r _ => r = 1 /\ get_string s2 = Some (map Some [65; 66; 67; 68; 69]) /\ is_sep s2 = true
               | SUB => False
               end) /\
              (* release first, then copy from the released block *)
              (match hfree (hp s1) p with
               | Some h' =>
                   set_finish (mkst 0 (ilen0 s1) (pptr s1) h' (reqs s1) (EvFree p :: elog s1))
                              0 (PHeap p 0) 5 5 = SUB
               | None => False
               end) /\
              (* partial overlap: json_object_set_string_len(o, json_object_get_string(o) + 1, 5) *)
              (* overlapping source, json_object_set_string_len(o, json_object_get_string(o) + 1, 5):
                 defined, the bytes are those before the call *)
              (match str_step (fun _ _ => true) s1 (OpSetOwnLen 1 5) with
               | SOk s2 r _ => r = 1 /\ get_string s2 = Some (map Some [66; 67; 68; 69; 70])
               | SUB => False
               end) /\
              (* the contents together with their terminator: the grow branch, whose copy
                 precedes the release of the buffer the source points into *)
              (match str_step (fun _ _ => true) s1 (OpSetOwnLen 0 11) with
               | SOk s2 r _ => r = 1 /\ get_string_len s2 = 11 /\ live_of_log (elog s2) = [2; 0] /\
                               get_string s2 = Some (map Some [65; 66; 67; 68; 69; 70; 71; 72; 73; 74; 0])
               | SUB => False
               end)
          | None => False
          end
      | SUB => False
      end
  | _ => False
  end.
Proof. vm_compute. repeat split. Qed.
