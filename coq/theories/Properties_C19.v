(* Properties_C19.v — statements only.  C19: the print buffer holds exactly what was
   written, NUL-terminated, in bounds; oversize requests are refused unchanged. *)
From JC Require Import Base PbModel PbProofs.
Local Open Scope Z_scope.

(* the invariant 0 <= bpos <= size = |allocation|, size > 0, contents determinate *)
Theorem C19_pb_inv_init : Inv pb_new.
Proof. exact inv_new. Qed.
Print Assumptions C19_pb_inv_init.

(* every operation, under every allocator behaviour, preserves the invariant, refines the
   byte-list specification, writes only inside the allocation, never reaches undefined
   behaviour, and on failure leaves the buffer exactly as it was *)
Theorem C19_step_refines : forall al p o,
  Inv p -> op_wf o ->
  match pb_step al p o with
  | POk p' r ws =>
      Inv p' /\ pb_abs p' = spec_step (pb_abs p) o /\ Forall (wr_ok (size p')) ws /\
      req_size (pb_abs p) o <= INT_MAX
  | PErr p' e => p' = p /\ (e = EFBIG \/ e = ENOMEM)
  | PUB => False
  end.
Proof. exact step_spec. Qed.
Print Assumptions C19_step_refines.

(* for all operation sequences *)
Theorem C19_history_refines : forall al ops p,
  Inv p -> Forall op_wf ops ->
  exists q oks, pb_run al p ops = Some (q, oks) /\ Inv q /\
                pb_abs q = spec_run (pb_abs p) ops oks /\ length oks = length ops.
Proof. exact run_refines. Qed.
Print Assumptions C19_history_refines.

Theorem C19_append_nul_inside : forall al p o p' r ws,
  Inv p -> (exists bs, o = OpAppend bs \/ o = OpSprintf bs \/ exists n, o = OpAppendN bs n) ->
  pb_step al p o = POk p' r ws -> bpos p' < size p' /\ pb_term p' = TNul.
Proof. exact append_nul_inside. Qed.
Print Assumptions C19_append_nul_inside.

Theorem C19_writes_in_bounds : forall al p o p' r ws,
  Inv p -> op_wf o -> pb_step al p o = POk p' r ws -> Forall (wr_ok (size p')) ws.
Proof. exact writes_in_bounds. Qed.
Print Assumptions C19_writes_in_bounds.

Theorem C19_oversize_refused_unchanged : forall al p o,
  Inv p -> req_size (pb_abs p) o > INT_MAX -> pb_step al p o = PErr p EFBIG.
Proof. exact oversize_refused_unchanged. Qed.
Print Assumptions C19_oversize_refused_unchanged.

Theorem C19_fitting_request_served : forall p o,
  Inv p -> args_nonneg o -> req_size (pb_abs p) o <= INT_MAX - 8 ->
  exists p' r ws, pb_step (fun _ => true) p o = POk p' r ws.
Proof. exact fitting_request_served. Qed.
Print Assumptions C19_fitting_request_served.

Theorem C19_nonvacuous :
  exists q oks, pb_run (fun _ => true) pb_new
     [OpAppend [104;105]; OpMemset 40 120 3; OpReset; OpSprintf [1;2;3]; OpMemset (-1) 7 2] = Some (q, oks)
     /\ pb_abs q = [1;2;3;7;7] /\ oks = [true;true;true;true;true].
Proof. exact inv_nontrivial. Qed.
