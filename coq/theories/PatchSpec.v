(* PatchSpec.v — RFC 6902 (JSON Patch) on [jv] trees: sequential evaluation of a patch
   document, written from the RFC on top of PtrSpec.v (RFC 6901) and independently of
   PatchModel.v / PtrModel.v (which this file does not import).  No proofs here.

   RFC 6902
   section 3   a JSON Patch document is an array of objects; each object has exactly one "op"
               member whose value is one of "add", "remove", "replace", "move", "copy", "test"
               (anything else is an error) and exactly one "path" member, a string containing
               a JSON Pointer.  Operations are applied sequentially in the order they appear,
               each to the document resulting from the previous one.
   section 4.1 add: "value" member required.  Target = root: the value becomes the whole
               document.  Target names an array index: the value is INSERTED before that index,
               which "MUST NOT be greater than the number of elements in the array"; "-"
               appends.  Target names an object member: added, or its value replaced.  The
               object/array that is to contain the target must exist.
   section 4.2 remove: the target location MUST exist; array elements above it shift left.
   section 4.3 replace: "value" required; the target location MUST exist.
   section 4.4 move: "from" (a string containing a JSON Pointer) MUST exist; = remove at "from",
               then add the removed value at "path".  "The 'from' location MUST NOT be a proper
               prefix of the 'path' location; i.e., a location cannot be moved into one of its
               children."
   section 4.5 copy: "from" MUST exist; = add at "path" with the value found at "from".  (No
               prefix restriction.)
   section 4.6 test: "value" required; the target MUST exist and be equal to "value": same JSON
               type, and  strings: same characters;  numbers: numerically equal;  arrays: same
               number of values, pairwise equal in order;  objects: same number of members, each
               member equal to a member of the other by key and value;  literals: the same.
   section 5   evaluation stops at the first operation that violates a requirement; the patch
               as a whole is then not successful.

   Decisions where a [jv] carries more than JSON does (documented, and used identically by the
   Python oracle in checks/C13.py):
   * numbers: JInt z and JUint z denote z; JDouble the rational its IEEE-754 bits denote;
     ±Infinity are equal to themselves only; NaN is equal to nothing.  So JInt 1 = JUint 1 =
     JDouble 1.0, and 0.0 = -0.0.
   * object members are kept in order: a new member goes last, a replaced one keeps its
     place (the document as a JSON value does not depend on that).  Objects with the same
     member names and equal values under each name are equal; on objects without duplicate
     names that is the RFC's "same number of members, each equal to a member of the other".
   * removing the root ("remove" with path "") leaves no document: JNull.
   * a move of an existing location onto itself leaves the document as it is (remove followed
     by add would only re-order object members).
   * "from is a proper prefix of path", on the pointer strings: path = from ++ "/" ++ more. *)
From JC Require Import Base Value PtrSpec EqModel.
Local Open Scope Z_scope.

(* ---------------------------------------------------------------- section 4.6: equality *)
Inductive num := NFin (scaled : Z) | NInf (neg : bool) | NNaN.      (* value * 2^1074 *)

Definition two1074 : Z := 2 ^ 1074.

Definition num_of (v : jv) : option num :=
  match v with
  | JInt z | JUint z => Some (NFin (z * two1074))
  | JDouble b _ =>
      Some (match d_decode b with
            | DNaN => NNaN
            | DInf s => NInf s
            | DFin s e m => NFin (if s then - d_mag e m else d_mag e m)
            end)
  | _ => None
  end.

Definition num_eqb (a b : num) : bool :=
  match a, b with
  | NFin x, NFin y => x =? y
  | NInf s, NInf t => Bool.eqb s t
  | _, _ => false
  end.

Section Pairwise.
  Context {A B : Type} (f : A -> B -> bool).
  Fixpoint pairwise (la : list A) (lb : list B) : bool :=
    match la, lb with
    | [], [] => true
    | x :: ta, y :: tb => f x y && pairwise ta tb
    | _, _ => false
    end.
End Pairwise.

Fixpoint rfc_equal (a b : jv) {struct a} : bool :=
  match a, b with
  | JNull, JNull => true
  | JBool x, JBool y => Bool.eqb x y
  | JStr x, JStr y => bytes_eqb x y
  | JInt _, _ | JUint _, _ | JDouble _ _, _ =>
      match num_of a, num_of b with
      | Some x, Some y => num_eqb x y
      | _, _ => false
      end
  | JArr la, JArr lb => pairwise (fun x y => rfc_equal x y) la lb
  | JObj la, JObj lb =>
      forallb (fun kv => match member lb (fst kv) with
                         | Some w => rfc_equal (snd kv) w
                         | None => false
                         end) la
      && forallb (fun kv => match member la (fst kv) with Some _ => true | None => false end) lb
  | _, _ => false
  end.

(* ---------------------------------------------------------------- editing at a location *)
(* walk to the container of the last token, edit it there with [f], rebuild the way back;
   the token list is not empty *)
Fixpoint edit_walk (f : jv -> list byte -> option jv) (n : jv) (toks : list (list byte)) : option jv :=
  match toks with
  | [] => None
  | tok :: rest =>
      match rest with
      | [] => f n tok
      | _ :: _ =>
          match spec_step n tok with
          | None => None
          | Some (st, c) =>
              match edit_walk f c rest with
              | Some c' => Some (put_child n st c')
              | None => None
              end
          end
      end
  end.

Definition insert_at (xs : list jv) (i : Z) (v : jv) : list jv := zfirstn i xs ++ v :: zskipn i xs.

(* section 4.1 in the container [n] *)
Definition add_child (v : jv) (n : jv) (tok : list byte) : option jv :=
  match n with
  | JObj ms => Some (JObj (upsert (unescape tok) v ms))
  | JArr xs =>
      if is_minus tok then Some (JArr (xs ++ [v]))
      else match array_index tok with
           | Some i => if i <=? zlen xs then Some (JArr (insert_at xs i v)) else None
           | None => None
           end
  | _ => None
  end.

Fixpoint remove_member (name : list byte) (ms : list (list byte * jv)) : list (list byte * jv) :=
  match ms with
  | [] => []
  | kv :: r => if bytes_eqb (fst kv) name then r else kv :: remove_member name r
  end.

(* section 4.2 in the container [n]: the child must exist *)
Definition del_child (n : jv) (tok : list byte) : option jv :=
  match spec_step n tok with
  | None => None
  | Some (st, _) =>
      match n, st with
      | JObj ms, inl k => Some (JObj (remove_member k ms))
      | JArr xs, inr i => Some (JArr (zfirstn i xs ++ zskipn (i + 1) xs))
      | _, _ => None
      end
  end.

(* section 4.3 in the container [n]: the child must exist *)
Definition replace_child (v : jv) (n : jv) (tok : list byte) : option jv :=
  match spec_step n tok with
  | None => None
  | Some (st, _) => Some (put_child n st v)
  end.

(* a pointer-addressed edit; [root] is the result for the pointer "" *)
Definition edit_at (f : jv -> list byte -> option jv) (root : option jv) (doc : jv) (p : list byte) : option jv :=
  match parse_pointer p with
  | None => None
  | Some [] => root
  | Some toks => edit_walk f doc toks
  end.

Definition rfc_add (doc : jv) (p : list byte) (v : jv) : option jv := edit_at (add_child v) (Some v) doc p.
Definition rfc_remove (doc : jv) (p : list byte) : option jv := edit_at del_child (Some JNull) doc p.
Definition rfc_replace (doc : jv) (p : list byte) (v : jv) : option jv := edit_at (replace_child v) (Some v) doc p.

Definition rfc_test (doc : jv) (p : list byte) (v : jv) : option jv :=
  match spec_get doc p with
  | Some (_, n) => if rfc_equal v n then Some doc else None
  | None => None
  end.

(* path = from ++ "/" ++ more *)
Fixpoint strictly_extends (from path : list byte) : bool :=
  match from, path with
  | [], c :: _ => c =? 47
  | a :: f, b :: p => (a =? b) && strictly_extends f p
  | _, [] => false
  end.

Definition rfc_move (doc : jv) (from p : list byte) : option jv :=
  if strictly_extends from p then None
  else match spec_get doc from with
       | None => None
       | Some (_, v) =>
           if bytes_eqb from p then Some doc
           else match rfc_remove doc from with
                | None => None
                | Some doc1 => rfc_add doc1 p v
                end
       end.

Definition rfc_copy (doc : jv) (from p : list byte) : option jv :=
  match spec_get doc from with
  | None => None
  | Some (_, v) => rfc_add doc p v
  end.

(* ---------------------------------------------------------------- operations (section 3, 4) *)
Definition n_op : list byte := [111; 112].
Definition n_path : list byte := [112; 97; 116; 104].
Definition n_from : list byte := [102; 114; 111; 109].
Definition n_value : list byte := [118; 97; 108; 117; 101].
Definition n_test : list byte := [116; 101; 115; 116].
Definition n_remove : list byte := [114; 101; 109; 111; 118; 101].
Definition n_add : list byte := [97; 100; 100].
Definition n_replace : list byte := [114; 101; 112; 108; 97; 99; 101].
Definition n_move : list byte := [109; 111; 118; 101].
Definition n_copy : list byte := [99; 111; 112; 121].

Definition op_member (o : jv) (name : list byte) : option jv :=
  match o with JObj ms => member ms name | _ => None end.

Definition op_string (o : jv) (name : list byte) : option (list byte) :=
  match op_member o name with Some (JStr s) => Some s | _ => None end.

(* one operation object applied to the document; None = the operation is in error *)
Definition spec_op (doc o : jv) : option jv :=
  match op_string o n_op, op_string o n_path with
  | Some op, Some p =>
      if bytes_eqb op n_test then
        match op_member o n_value with Some v => rfc_test doc p v | None => None end
      else if bytes_eqb op n_remove then rfc_remove doc p
      else if bytes_eqb op n_add then
        match op_member o n_value with Some v => rfc_add doc p v | None => None end
      else if bytes_eqb op n_replace then
        match op_member o n_value with Some v => rfc_replace doc p v | None => None end
      else if bytes_eqb op n_move then
        match op_string o n_from with Some f => rfc_move doc f p | None => None end
      else if bytes_eqb op n_copy then
        match op_string o n_from with Some f => rfc_copy doc f p | None => None end
      else None
  | _, _ => None
  end.

Inductive spres :=
| SDone (doc : jv)          (* every operation applied; the resulting document *)
| SFail (idx : Z).          (* the first operation in error, zero-based *)

Fixpoint spec_ops (ops : list jv) (i : Z) (doc : jv) : spres :=
  match ops with
  | [] => SDone doc
  | o :: rest =>
      match spec_op doc o with
      | Some doc' => spec_ops rest (i + 1) doc'
      | None => SFail i
      end
  end.

(* a patch document is an array; None = not a patch document at all *)
Definition spec_apply (target patch : jv) : option spres :=
  match patch with
  | JArr ops => Some (spec_ops ops 0 target)
  | _ => None
  end.
