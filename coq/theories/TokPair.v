(* TokPair.v — surrogate pairs are combined for ALL pairs (algebraic proof). *)
From JC Require Import Base BaseLemmas Value TokModel TokProofs.
Local Open Scope Z_scope.
Ltac Zify.zify_post_hook ::= Z.div_mod_to_equations.

(* a high surrogate is pending and the four digits of the low surrogate have been read *)
Definition pair_ok (hi lo : Z) : bool :=
  let t := set_st_pos (set_ucs (tok_in_unicode hi) lo) 4 in
  match finish_unicode t (mkloc 0 0 JNull None) with
  | Consumed t' _ =>
      tstate_eqb (st t') S_string && (high_surrogate t' =? 0) &&
      bytes_eqb (pb t') ([120] ++ utf8_ref (65536 + (hi - 55296) * 1024 + (lo - 56320)))
  | _ => false
  end.

Lemma surrogate_pair_all : forall hi lo, 55296 <= hi < 56320 -> 56320 <= lo < 57344 -> pair_ok hi lo = true.
Proof.
  intros hi lo Hhi Hlo. unfold pair_ok, finish_unicode.
  set (T := set_st_pos (set_st_pos (set_ucs (tok_in_unicode hi) lo) 4) 0).
  set (u := 65536 + (hi - 55296) * 1024 + (lo - 56320)).
  assert (Hu : 65536 <= u < 1114112) by (subst u; lia).
  assert (HR : resolve_pair T = (set_high (set_ucs T u) 0, u)).
  { unfold resolve_pair. replace (high_surrogate T) with hi by reflexivity.
    replace (ucs_char T) with lo by reflexivity.
    assert (E0 : (hi =? 0) = false) by lia. rewrite E0. cbn [negb].
    assert (E1 : is_low_surrogate lo = true) by (unfold is_low_surrogate; lia). rewrite E1.
    rewrite (decode_pair_val hi lo Hhi Hlo). reflexivity. }
  rewrite HR. cbn [fst snd]. unfold emit_unicode.
  assert (E2 : (u <? 128) = false) by lia. assert (E3 : (u <? 2048) = false) by lia.
  assert (E4 : is_high_surrogate u = false) by (unfold is_high_surrogate; lia).
  assert (E5 : is_low_surrogate u = false) by (unfold is_low_surrogate; lia).
  assert (E6 : (u <? 65536) = false) by lia. assert (E7 : (u <? 1114112) = true) by lia.
  rewrite E2, E3, E4, E5, E6, E7.
  rewrite <- utf8_encode_ref by lia.
  generalize (utf8_encode u). intros bs. clearbody u. clear. subst T.
  cbn. rewrite bytes_eqb_refl. reflexivity.
Qed.
