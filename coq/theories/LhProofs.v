(* LhProofs.v — invariant (DESIGN Appendix A.1, offset-from-home form) and refinement of
   the linkhash / object model to an insertion-ordered association list (C06).
   Everything inside the Section is proved for an arbitrary key type with a boolean
   equality, an arbitrary value type and an ARBITRARY hash function. *)
From Coq Require Import FinFun.
From JC Require Import Base BaseLemmas LhModel.
Local Open Scope Z_scope.

(* ------------------------------------------------------------------------------------ *)
(* The C comparison  t->count >= t->size * 0.66  (binary64, round to nearest even) is the
   integer test 66*size <= 100*count for every int size.  One case per binade of the
   product (2^52 <= size*LF_NUM < 2^84); inside a binade everything is linear. *)

Ltac lf_case l :=
  let s := eval vm_compute in (l - 52) in
  let d := eval vm_compute in (2 ^ s) in
  let a := eval vm_compute in (2 ^ l) in
  let b := eval vm_compute in (2 ^ (l + 1)) in
  change (l - 52) with s;
  change (2 ^ l) with a in *; change (2 ^ (l + 1)) with b in *;
  unfold rne_shift; change (2 ^ s) with d; change (2 ^ 53) with 9007199254740992;
  match goal with x := _ |- _ =>
    let Hdm := fresh in let Hr := fresh in
    pose proof (Z.div_mod x d ltac:(lia)) as Hdm;
    pose proof (Z.mod_pos_bound x d ltac:(lia)) as Hr;
    generalize dependent (x / d); generalize dependent (x mod d); intros r Hr q Hdm;
    destruct (2 * r <? d) eqn:?E1; [lia|];
    destruct (2 * r >? d) eqn:?E2; [lia|];
    destruct (Z.even q) eqn:?E3; lia
  end.

Lemma load_test_int count size :
  1 <= size <= INT_MAX -> load_test count size = (66 * size <=? 100 * count).
Proof.
  intros Hs. unfold load_test, dbl_size_times_lf. unfold INT_MAX in Hs.
  set (x := size * LF_NUM).
  assert (Hx : 4503599627370496 <= x < 19342813113834066795298816) by (unfold x, LF_NUM; lia).
  pose proof (Z.log2_spec x ltac:(lia)) as HL.
  assert (HLr : 52 <= Z.log2 x <= 83).
  { split.
    - change 52 with (Z.log2 4503599627370496). apply Z.log2_le_mono. lia.
    - assert (Z.log2 x < 84); [|lia]. apply Z.log2_lt_pow2; [lia|].
      change (2 ^ 84) with 19342813113834066795298816. lia. }
  set (L := Z.log2 x) in *. unfold LF_NUM in x.
  assert (HLs : L = 52 \/ L = 53 \/ L = 54 \/ L = 55 \/ L = 56 \/ L = 57 \/ L = 58 \/ L = 59 \/ L = 60 \/ L = 61 \/
          L = 62 \/ L = 63 \/ L = 64 \/ L = 65 \/ L = 66 \/ L = 67 \/ L = 68 \/ L = 69 \/ L = 70 \/ L = 71 \/
          L = 72 \/ L = 73 \/ L = 74 \/ L = 75 \/ L = 76 \/ L = 77 \/ L = 78 \/ L = 79 \/ L = 80 \/ L = 81 \/
          L = 82 \/ L = 83) by lia.
  clearbody L. clear HLr.
  repeat (destruct HLs as [HLs|HLs]; [subst L; match goal with |- context [?l - 52] => lf_case l end|]).
  subst L. lf_case 83.
Qed.

(* ------------------------------------------------------------------------------------ *)
(* general list facts *)

Lemma nodup_bounded_length (l : list Z) (n : nat) :
  NoDup l -> (forall x, In x l -> 0 <= x < Z.of_nat n) -> (length l <= n)%nat.
Proof.
  intros Hnd Hr.
  assert (Hm : NoDup (map Z.to_nat l)).
  { revert Hr. induction Hnd as [|x l Hx Hnd IH]; intros Hr; cbn; constructor.
    - intros Hin. apply in_map_iff in Hin. destruct Hin as (y & Hy & Hin).
      assert (x = y). { pose proof (Hr x (or_introl eq_refl)). pose proof (Hr y (or_intror Hin)). lia. }
      subst. contradiction.
    - apply IH. intros y Hy. apply Hr. right. exact Hy. }
  rewrite <- (map_length Z.to_nat l), <- (seq_length n 0).
  apply NoDup_incl_length; [exact Hm|].
  intros y Hy. apply in_map_iff in Hy. destruct Hy as (x & <- & Hx). apply in_seq.
  pose proof (Hr x Hx). lia.
Qed.

Lemma all_in_length (l : list Z) (n : nat) :
  (forall x, 0 <= x < Z.of_nat n -> In x l) -> (n <= length l)%nat.
Proof.
  intros H. rewrite <- (seq_length n 0), <- (map_length Z.of_nat (seq 0 n)).
  apply NoDup_incl_length.
  - apply Injective_map_NoDup; [intros a b; lia|apply seq_NoDup].
  - intros x Hx. apply in_map_iff in Hx. destruct Hx as (y & <- & Hy). apply in_seq in Hy.
    apply H. lia.
Qed.

Definition hdz (l : list Z) (d : Z) : Z := match l with [] => d | x :: _ => x end.

Lemma last_cons {A} (l : list A) x d : last (x :: l) d = last l x.
Proof. revert x d. induction l as [|y l IH]; intros x d; [reflexivity|].
  change (last (x :: y :: l) d) with (last (y :: l) d). rewrite (IH y d), (IH y x). reflexivity. Qed.

Lemma last_app_cons {A} (l1 : list A) x l2 d : last (l1 ++ x :: l2) d = last (x :: l2) d.
Proof. revert d. induction l1 as [|a l1 IH]; intros d; [reflexivity|].
  cbn [app]. rewrite last_cons, IH, !last_cons. reflexivity. Qed.

Lemma last_cons_in {A} (x : A) l d : In (last (x :: l) d) (x :: l).
Proof. revert x. induction l as [|y l IH]; intros x; [left; reflexivity|].
  change (last (x :: y :: l) d) with (last (y :: l) d). right. apply IH. Qed.

Lemma NoDup_app_snoc {A} (l : list A) n : NoDup l -> ~ In n l -> NoDup (l ++ [n]).
Proof.
  induction 1 as [|x l Hx Hnd IH]; cbn; intros Hn.
  - constructor; [intros []|constructor].
  - constructor.
    + rewrite in_app_iff. cbn. intros [H|[H|[]]]; [contradiction|]. apply Hn. left. symmetry. exact H.
    + apply IH. intros H. apply Hn. right. exact H.
Qed.

Lemma NoDup_remove_mid {A} (l1 : list A) n l2 : NoDup (l1 ++ n :: l2) -> NoDup (l1 ++ l2) /\ ~ In n (l1 ++ l2).
Proof. intros H. split; [eapply NoDup_remove_1; exact H|eapply NoDup_remove_2; exact H]. Qed.

Lemma zlen_snoc {A} (l : list A) x : zlen (l ++ [x]) = zlen l + 1.
Proof. rewrite zlen_app. cbn. lia. Qed.

(* ------------------------------------------------------------------------------------ *)
Section LhProofs.
Context {key val : Type}.
Variable keq : key -> key -> bool.
Variable hash : key -> Z.
Hypothesis keq_spec : forall a b, keq a b = true <-> a = b.

Notation entry := (entry key val).
Notation table := (table key val).
Notation ent0 := (ent0 key val).
Notation table_new := (table_new key val).
Notation lh_table_new := (lh_table_new key val).
Notation amap := (amap key val).

Implicit Types (sl : list entry) (t : table) (l : list Z).

Lemma keq_refl k : keq k k = true.
Proof. apply keq_spec. reflexivity. Qed.
Lemma keq_false a b : a <> b -> keq a b = false.
Proof. intros H. destruct (keq a b) eqn:E; [|reflexivity]. apply keq_spec in E. contradiction. Qed.

(* ---------------- slot array access ---------------- *)
Definition zl sl : Z := Z.of_nat (length sl).

Lemma supd_nat_length sl n f : length (supd_nat sl n f) = length sl.
Proof. revert n. induction sl as [|e r IH]; intros [|n]; cbn; auto. Qed.

Lemma nth_supd_nat sl n f m :
  nth m (supd_nat sl n f) ent0 = if (Nat.eqb m n && Nat.ltb n (length sl))%bool then f (nth m sl ent0) else nth m sl ent0.
Proof.
  revert n m. induction sl as [|e r IH]; intros n m.
  - cbn. destruct n, m; cbn; rewrite ?andb_false_r; reflexivity.
  - destruct n as [|n], m as [|m]; cbn [supd_nat nth length]; try reflexivity.
    rewrite IH. reflexivity.
Qed.

Lemma zl_supd sl i f : zl (supd sl i f) = zl sl.
Proof. unfold zl, supd. destruct (i <? 0); [reflexivity|]. rewrite supd_nat_length. reflexivity. Qed.

Lemma sget_supd sl i f j :
  sget (supd sl i f) j = if (j =? i) && (0 <=? i) && (i <? zl sl) then f (sget sl j) else sget sl j.
Proof.
  unfold sget, supd, zl. destruct (i <? 0) eqn:Ei.
  - replace (0 <=? i) with false by lia. rewrite andb_false_r. reflexivity.
  - destruct (j <? 0) eqn:Ej.
    + replace (j =? i) with false by lia. reflexivity.
    + rewrite nth_supd_nat.
      replace (Nat.eqb (Z.to_nat j) (Z.to_nat i)) with (j =? i).
      2:{ destruct (j =? i) eqn:E; symmetry; [apply Nat.eqb_eq|apply Nat.eqb_neq]; lia. }
      replace (Nat.ltb (Z.to_nat i) (length sl)) with (i <? Z.of_nat (length sl)).
      2:{ destruct (i <? Z.of_nat (length sl)) eqn:E; symmetry; [apply Nat.ltb_lt|apply Nat.ltb_ge]; lia. }
      replace (0 <=? i) with true by lia. rewrite andb_true_r. reflexivity.
Qed.

Lemma sget_out sl i : i < 0 \/ zl sl <= i -> sget sl i = ent0.
Proof.
  unfold sget, zl. intros H. destruct (i <? 0) eqn:E; [reflexivity|].
  apply nth_overflow. lia.
Qed.

Lemma sget_repeat n i : sget (zrepeat ent0 n) i = ent0.
Proof.
  unfold sget, zrepeat. destruct (i <? 0); [reflexivity|].
  destruct (Nat.lt_ge_cases (Z.to_nat i) (Z.to_nat n)).
  - apply nth_repeat.
  - apply nth_overflow. rewrite repeat_length. lia.
Qed.

(* the three field updates, observed field-wise *)
Definition hit sl (i j : Z) : bool := (j =? i) && (0 <=? i) && (i <? zl sl).

Lemma st_set_nx sl i p j : st (sget (set_nx sl i p) j) = st (sget sl j).
Proof. unfold set_nx. rewrite sget_supd. destruct (_ && _); reflexivity. Qed.
Lemma st_set_pv sl i p j : st (sget (set_pv sl i p) j) = st (sget sl j).
Proof. unfold set_pv. rewrite sget_supd. destruct (_ && _); reflexivity. Qed.
Lemma st_set_st sl i s j : st (sget (set_st sl i s) j) = if hit sl i j then s else st (sget sl j).
Proof. unfold set_st, hit. rewrite sget_supd. destruct (_ && _); reflexivity. Qed.
Lemma nx_set_st sl i s j : nx (sget (set_st sl i s) j) = nx (sget sl j).
Proof. unfold set_st. rewrite sget_supd. destruct (_ && _); reflexivity. Qed.
Lemma nx_set_pv sl i p j : nx (sget (set_pv sl i p) j) = nx (sget sl j).
Proof. unfold set_pv. rewrite sget_supd. destruct (_ && _); reflexivity. Qed.
Lemma nx_set_nx sl i p j : nx (sget (set_nx sl i p) j) = if hit sl i j then p else nx (sget sl j).
Proof. unfold set_nx, hit. rewrite sget_supd. destruct (_ && _); reflexivity. Qed.
Lemma pv_set_st sl i s j : pv (sget (set_st sl i s) j) = pv (sget sl j).
Proof. unfold set_st. rewrite sget_supd. destruct (_ && _); reflexivity. Qed.
Lemma pv_set_nx sl i p j : pv (sget (set_nx sl i p) j) = pv (sget sl j).
Proof. unfold set_nx. rewrite sget_supd. destruct (_ && _); reflexivity. Qed.
Lemma pv_set_pv sl i p j : pv (sget (set_pv sl i p) j) = if hit sl i j then p else pv (sget sl j).
Proof. unfold set_pv, hit. rewrite sget_supd. destruct (_ && _); reflexivity. Qed.
Lemma zl_set_st sl i s : zl (set_st sl i s) = zl sl. Proof. apply zl_supd. Qed.
Lemma zl_set_nx sl i s : zl (set_nx sl i s) = zl sl. Proof. apply zl_supd. Qed.
Lemma zl_set_pv sl i s : zl (set_pv sl i s) = zl sl. Proof. apply zl_supd. Qed.

Lemma hit_true sl i j : j = i -> 0 <= i < zl sl -> hit sl i j = true.
Proof. unfold hit. lia. Qed.
Lemma hit_false sl i j : j <> i \/ i < 0 \/ zl sl <= i -> hit sl i j = false.
Proof. unfold hit. lia. Qed.

Lemma hit_set_st sl a s i j : hit (set_st sl a s) i j = hit sl i j.
Proof. unfold hit. rewrite zl_set_st. reflexivity. Qed.
Lemma hit_set_nx sl a s i j : hit (set_nx sl a s) i j = hit sl i j.
Proof. unfold hit. rewrite zl_set_nx. reflexivity. Qed.
Lemma hit_set_pv sl a s i j : hit (set_pv sl a s) i j = hit sl i j.
Proof. unfold hit. rewrite zl_set_pv. reflexivity. Qed.

Hint Rewrite hit_set_st hit_set_nx hit_set_pv st_set_nx st_set_pv st_set_st nx_set_st nx_set_pv nx_set_nx pv_set_st pv_set_nx pv_set_pv
     zl_set_st zl_set_nx zl_set_pv : lh.

(* simplify field reads through updates; decides each [hit] by lia when it can *)
Ltac hits :=
  repeat match goal with
  | |- context [hit ?sl ?i ?j] =>
      first [ rewrite (hit_true sl i j) by lia
            | rewrite (hit_false sl i j) by lia ]
  | H : context [hit ?sl ?i ?j] |- _ =>
      first [ rewrite (hit_true sl i j) in H by lia
            | rewrite (hit_false sl i j) in H by lia ]
  end.
Ltac sg := autorewrite with lh in *; hits.

(* ---------------- liveness ---------------- *)
Definition is_live sl n : Prop := exists k v c, st (sget sl n) = Live k v c.
Definition key_at sl n k : Prop := exists v c, st (sget sl n) = Live k v c.

Lemma key_at_live sl n k : key_at sl n k -> is_live sl n.
Proof. intros (v & c & H). exists k, v, c. exact H. Qed.
Lemma live_range sl n : is_live sl n -> 0 <= n < zl sl.
Proof.
  intros (k & v & c & H). destruct (Z_lt_dec n 0); [rewrite sget_out in H by lia; discriminate|].
  destruct (Z_lt_dec n (zl sl)); [lia|]. rewrite sget_out in H by lia. discriminate.
Qed.
Lemma key_at_fun sl n k k' : key_at sl n k -> key_at sl n k' -> k = k'.
Proof. intros (v & c & H) (v' & c' & H'). congruence. Qed.

(* ---------------- probing in offset-from-home form ---------------- *)
Definition home (size : Z) (k : key) : Z := hash k mod size.
Definition slot_at (size h d : Z) : Z := if h + d <? size then h + d else h + d - size.

Lemma home_range size k : 0 < size -> 0 <= home size k < size.
Proof. intros H. apply Z.mod_pos_bound. exact H. Qed.
Lemma slot_at_0 size h : 0 <= h < size -> slot_at size h 0 = h.
Proof. unfold slot_at. intros. destruct (h + 0 <? size) eqn:E; lia. Qed.
Lemma slot_at_range size h d : 0 <= h < size -> 0 <= d < size -> 0 <= slot_at size h d < size.
Proof. unfold slot_at. intros. destruct (h + d <? size) eqn:E; lia. Qed.
Lemma slot_at_next size h d :
  0 <= h < size -> 0 <= d -> d + 1 < size -> nxt size (slot_at size h d) = slot_at size h (d + 1).
Proof.
  unfold slot_at, nxt. intros.
  destruct (h + d <? size) eqn:E1; destruct (h + (d + 1) <? size) eqn:E2;
  match goal with |- (if ?c then _ else _) = _ => destruct c eqn:E3 end; lia.
Qed.
Lemma slot_at_inj size h d1 d2 :
  0 <= h < size -> 0 <= d1 < size -> 0 <= d2 < size -> slot_at size h d1 = slot_at size h d2 -> d1 = d2.
Proof. unfold slot_at. intros. destruct (h + d1 <? size) eqn:E1; destruct (h + d2 <? size) eqn:E2; lia. Qed.
Lemma slot_at_surj size h n :
  0 <= h < size -> 0 <= n < size -> exists d, 0 <= d < size /\ slot_at size h d = n.
Proof.
  intros. unfold slot_at. destruct (Z_le_dec h n).
  - exists (n - h). split; [lia|]. destruct (h + (n - h) <? size) eqn:E; lia.
  - exists (n - h + size). split; [lia|]. destruct (h + (n - h + size) <? size) eqn:E; lia.
Qed.

(* ---------------- the order chain ---------------- *)
Fixpoint chain sl (p : Z) (l : list Z) (hd tl : Z) : Prop :=
  match l with
  | [] => hd = NULL /\ tl = p
  | x :: xs => hd = x /\ pv (sget sl x) = p /\ chain sl x xs (nx (sget sl x)) tl
  end.

Lemma chain_frame sl sl' p l hd tl :
  (forall x, In x l -> nx (sget sl' x) = nx (sget sl x) /\ pv (sget sl' x) = pv (sget sl x)) ->
  chain sl p l hd tl -> chain sl' p l hd tl.
Proof.
  revert p hd. induction l as [|x xs IH]; intros p hd Hf H; [exact H|].
  destruct H as (-> & Hp & Hc). destruct (Hf x (or_introl eq_refl)) as [Hn Hv].
  cbn. rewrite Hn, Hv. repeat split; [exact Hp|]. apply IH; [|exact Hc].
  intros y Hy. apply Hf. right. exact Hy.
Qed.

Lemma chain_hd sl p l hd tl : chain sl p l hd tl -> hd = hdz l NULL.
Proof. destruct l; cbn; tauto. Qed.
Lemma chain_tl sl p l hd tl : chain sl p l hd tl -> tl = last l p.
Proof.
  revert p hd. induction l as [|x xs IH]; intros p hd H; [cbn in *; tauto|].
  destruct H as (_ & _ & Hc). apply IH in Hc. rewrite Hc, last_cons. reflexivity.
Qed.

Lemma chain_mid sl p l1 n l2 hd tl :
  chain sl p (l1 ++ n :: l2) hd tl ->
  pv (sget sl n) = last l1 p /\ nx (sget sl n) = hdz l2 NULL.
Proof.
  revert p hd. induction l1 as [|x l1 IH]; intros p hd H.
  - destruct H as (_ & Hp & Hc). split; [exact Hp|]. apply chain_hd in Hc. exact Hc.
  - destruct H as (_ & _ & Hc). apply IH in Hc. destruct Hc as [Hp Hn]. split; [|exact Hn].
    rewrite Hp, last_cons. reflexivity.
Qed.

Lemma chain_walk sl p l hd tl :
  chain sl p l hd tl -> (forall x, In x l -> 0 <= x) ->
  forall fuel, (length l <= fuel)%nat -> walk fuel sl hd = l.
Proof.
  revert p hd. induction l as [|x xs IH]; intros p hd H Hr fuel Hf.
  - destruct H as [-> _]. destruct fuel; reflexivity.
  - destruct H as (-> & _ & Hc). destruct fuel as [|f]; [cbn in Hf; lia|].
    cbn [walk]. pose proof (Hr x (or_introl eq_refl)). replace (x <? 0) with false by lia.
    f_equal. eapply IH; [exact Hc| |cbn in Hf; lia]. intros y Hy. apply Hr. right. exact Hy.
Qed.

Lemma chain_walk_back sl p l hd tl :
  chain sl p l hd tl -> (forall x, In x l -> 0 <= x) ->
  forall fuel, (length l <= fuel)%nat ->
  walk_back fuel sl tl = rev l ++ walk_back (fuel - length l) sl p.
Proof.
  revert p hd. induction l as [|x xs IH]; intros p hd H Hr fuel Hf.
  - destruct H as [_ ->]. cbn. rewrite Nat.sub_0_r. reflexivity.
  - destruct H as (-> & Hp & Hc). cbn [length] in Hf.
    rewrite (IH x _ Hc) by (try lia; intros y Hy; apply Hr; right; exact Hy).
    cbn [rev length]. rewrite <- app_assoc. f_equal.
    destruct (fuel - length xs)%nat as [|m] eqn:E; [lia|].
    cbn [walk_back app]. pose proof (Hr x (or_introl eq_refl)). replace (x <? 0) with false by lia.
    rewrite Hp. do 2 f_equal. lia.
Qed.

(* appending n at the tail: any array sl' that differs from sl as the stores of
   lh_table_insert_w_hash prescribe *)
Lemma chain_snoc sl sl' p l hd tl n :
  chain sl p l hd tl -> NoDup l -> ~ In n l ->
  (forall x, In x l -> pv (sget sl' x) = pv (sget sl x)) ->
  (forall x, In x l -> x <> tl -> nx (sget sl' x) = nx (sget sl x)) ->
  (l <> [] -> nx (sget sl' tl) = n) ->
  pv (sget sl' n) = tl -> nx (sget sl' n) = NULL ->
  chain sl' p (l ++ [n]) (match l with [] => n | _ => hd end) n.
Proof.
  revert p hd. induction l as [|x xs IH]; intros p hd H Hnd Hn Hpv Hnx Htl Hpn Hnn.
  - destruct H as [_ ->]. cbn. auto.
  - destruct H as (-> & Hp & Hc). apply NoDup_cons_iff in Hnd. destruct Hnd as [Hx Hnd'].
    cbn [app chain]. split; [reflexivity|]. split; [rewrite Hpv by (left; reflexivity); exact Hp|].
    assert (Htl' : tl = last xs x) by (eapply chain_tl; exact Hc).
    assert (Hnxx : nx (sget sl' x) = match xs with [] => n | _ => nx (sget sl x) end).
    { destruct xs as [|y ys].
      - cbn in Htl'. rewrite <- Htl'. apply Htl. discriminate.
      - apply Hnx; [left; reflexivity|]. intros ->. apply Hx. rewrite Htl'. apply last_cons_in. }
    rewrite Hnxx. apply IH; auto.
    + intros h. apply Hn. right. exact h.
    + intros z Hz. apply Hpv. right. exact Hz.
    + intros z Hz Hne. apply Hnx; [right; exact Hz|exact Hne].
    + intros _. apply Htl. discriminate.
Qed.



(* unlinking n: any array sl' that differs from sl as the stores of
   lh_table_delete_entry prescribe (last l1 p = n's predecessor, hdz l2 NULL = its successor) *)
Lemma chain_unlink sl sl' p l1 n l2 hd tl :
  chain sl p (l1 ++ n :: l2) hd tl -> NoDup (l1 ++ n :: l2) -> ~ In p (l1 ++ n :: l2) ->
  (forall x, In x (l1 ++ n :: l2) -> 0 <= x) ->
  (forall x, In x (l1 ++ l2) -> x <> last l1 p -> nx (sget sl' x) = nx (sget sl x)) ->
  (l1 <> [] -> nx (sget sl' (last l1 p)) = hdz l2 NULL) ->
  (forall x, In x (l1 ++ l2) -> x <> hdz l2 NULL -> pv (sget sl' x) = pv (sget sl x)) ->
  (l2 <> [] -> pv (sget sl' (hdz l2 NULL)) = last l1 p) ->
  chain sl' p (l1 ++ l2) (match l1 with [] => hdz l2 NULL | _ => hd end)
                         (match l2 with [] => last l1 p | _ => tl end).
Proof.
  revert p hd. induction l1 as [|x l1 IH]; intros p hd H Hnd Hp Hr Hnx HnP Hpv HpX.
  - cbn [app last] in *. destruct H as (-> & Hpn & Hc). apply NoDup_cons_iff in Hnd. destruct Hnd as [Hn Hnd'].
    destruct l2 as [|y ys].
    + destruct Hc as [_ ->]. cbn. auto.
    + destruct Hc as (Hy & Hpy & Hc). cbn [hdz] in *.
      apply NoDup_cons_iff in Hnd'. destruct Hnd' as [Hyy Hnd''].
      cbn [chain]. split; [reflexivity|]. split; [apply HpX; discriminate|].
      assert (Hyp : y <> p) by (intros ->; apply Hp; right; left; reflexivity).
      rewrite (Hnx y (or_introl eq_refl) Hyp).
      eapply chain_frame; [|exact Hc]. intros z Hz. split.
      * apply Hnx; [right; exact Hz|]. intros ->. apply Hp. right. right. exact Hz.
      * apply Hpv; [right; exact Hz|]. intros ->. contradiction.
  - cbn [app] in *. destruct H as (-> & Hpx & Hc). apply NoDup_cons_iff in Hnd. destruct Hnd as [Hx Hnd'].
    rewrite last_cons in *.
    assert (Hx0 : 0 <= x) by (apply Hr; left; reflexivity).
    assert (HxX : x <> hdz l2 NULL).
    { destruct l2 as [|y ys]; cbn [hdz]; [unfold NULL; lia|].
      intros ->. apply Hx. apply in_or_app. right. right. left. reflexivity. }
    cbn [chain]. split; [reflexivity|].
    split; [rewrite Hpv by (auto; left; reflexivity); exact Hpx|].
    assert (Hnxx : nx (sget sl' x) = match l1 with [] => hdz l2 NULL | _ => nx (sget sl x) end).
    { destruct l1 as [|y ys].
      - cbn [last] in HnP. apply HnP. discriminate.
      - apply Hnx; [left; reflexivity|]. intros Heq. apply Hx. apply in_or_app. left.
        rewrite Heq. apply last_cons_in. }
    rewrite Hnxx.
    apply IH; auto.
    + intros z Hz. apply Hr. right. exact Hz.
    + intros z Hz Hne. apply Hnx; [right; exact Hz|exact Hne].
    + intros Hne. apply HnP. discriminate.
    + intros z Hz Hne. apply Hpv; [right; exact Hz|exact Hne].
Qed.

(* ---------------- the probe loops ---------------- *)
Lemma find_free_spec sl size h :
  0 <= h < size ->
  forall fuel d, 0 <= d -> d + Z.of_nat fuel <= size ->
  (forall d', 0 <= d' < d -> is_live sl (slot_at size h d')) ->
  match find_free fuel sl size (slot_at size h d) with
  | Some n => exists d1, d <= d1 < d + Z.of_nat fuel /\ n = slot_at size h d1 /\ ~ is_live sl n /\
                         forall d', 0 <= d' < d1 -> is_live sl (slot_at size h d')
  | None => forall d', 0 <= d' < d + Z.of_nat fuel -> is_live sl (slot_at size h d')
  end.
Proof.
  intros Hh. induction fuel as [|f IH]; intros d Hd Hf Hbelow.
  - cbn. intros d' Hd'. apply Hbelow. lia.
  - cbn [find_free]. destruct (st (sget sl (slot_at size h d))) as [| |k v c] eqn:E.
    + exists d. repeat split; try lia; [|exact Hbelow]. intros (k&v&c&H). congruence.
    + exists d. repeat split; try lia; [|exact Hbelow]. intros (k&v&c&H). congruence.
    + assert (Hl : is_live sl (slot_at size h d)) by (exists k, v, c; exact E).
      assert (Hb' : forall d', 0 <= d' < d + 1 -> is_live sl (slot_at size h d')).
      { intros d' Hd'. destruct (Z.eq_dec d' d); [subst; exact Hl|apply Hbelow; lia]. }
      destruct f as [|f'].
      * cbn. intros d' Hd'. apply Hb'. lia.
      * rewrite slot_at_next by lia. specialize (IH (d + 1) ltac:(lia) ltac:(lia) Hb').
        destruct (find_free (S f') sl size (slot_at size h (d + 1))) as [n|].
        -- destruct IH as (d1 & H1 & H2 & H3 & H4). exists d1. repeat split; auto; lia.
        -- intros d' Hd'. apply IH. lia.
Qed.

Lemma lookup_probe_sound sl size k :
  forall fuel n m, lookup_probe keq fuel sl size k n = Some m -> key_at sl m k.
Proof.
  induction fuel as [|f IH]; intros n m H; [discriminate|].
  cbn [lookup_probe] in H. destruct (st (sget sl n)) as [| |k' v c] eqn:E; [discriminate|eauto|].
  destruct (keq k' k) eqn:Ek; [|eauto].
  apply keq_spec in Ek. subst k'. inversion H; subst m. exists v, c. exact E.
Qed.

Lemma lookup_probe_complete sl size h k d0 v c :
  0 <= h < size -> 0 <= d0 < size ->
  st (sget sl (slot_at size h d0)) = Live k v c ->
  (forall d', 0 <= d' < d0 -> st (sget sl (slot_at size h d')) <> Empty /\ ~ key_at sl (slot_at size h d') k) ->
  forall fuel d, 0 <= d <= d0 -> d0 - d < Z.of_nat fuel ->
  lookup_probe keq fuel sl size k (slot_at size h d) = Some (slot_at size h d0).
Proof.
  intros Hh Hd0 Hst Hbelow. induction fuel as [|f IH]; intros d Hd Hf; [lia|].
  cbn [lookup_probe]. destruct (Z.eq_dec d d0) as [->|Hne].
  - rewrite Hst, keq_refl. reflexivity.
  - destruct (Hbelow d ltac:(lia)) as [HnE Hnk].
    assert (Hnext : lookup_probe keq f sl size k (nxt size (slot_at size h d)) = Some (slot_at size h d0)).
    { rewrite slot_at_next by lia. apply IH; lia. }
    destruct (st (sget sl (slot_at size h d))) as [| |k' v' c'] eqn:E; [congruence|exact Hnext|].
    destruct (keq k' k) eqn:Ek; [|exact Hnext].
    apply keq_spec in Ek. subst k'. exfalso. apply Hnk. exists v', c'. exact E.
Qed.

(* ---------------- the invariant (DESIGN A.1) ---------------- *)
Record InvL t l : Prop := mkInv {
  iv_len : zl (slots t) = tsize t;
  iv_size : 0 < tsize t <= INT_MAX;
  iv_chain : chain (slots t) NULL l (thead t) (ttail t);
  iv_nodup : NoDup l;
  iv_live : forall n, In n l <-> is_live (slots t) n;
  iv_count : tcount t = zlen l;
  iv_keys : forall i j k, key_at (slots t) i k -> key_at (slots t) j k -> i = j;
  iv_probe : forall n k, key_at (slots t) n k ->
     exists d, 0 <= d < tsize t /\ slot_at (tsize t) (home (tsize t) k) d = n /\
       forall d', 0 <= d' < d -> st (sget (slots t) (slot_at (tsize t) (home (tsize t) k) d')) <> Empty
}.

Definition Inv t : Prop := exists l, InvL t l.

Lemma inv_range t l n : InvL t l -> In n l -> 0 <= n < tsize t.
Proof. intros I H. apply (iv_live _ _ I) in H. apply live_range in H. rewrite (iv_len _ _ I) in H. exact H. Qed.

Lemma inv_length t l : InvL t l -> (length l <= length (slots t))%nat.
Proof.
  intros I. apply nodup_bounded_length; [exact (iv_nodup _ _ I)|].
  intros x Hx. pose proof (inv_range _ _ _ I Hx). pose proof (iv_len _ _ I). unfold zl in *. lia.
Qed.

Lemma inv_count_le t l : InvL t l -> 0 <= tcount t <= tsize t.
Proof.
  intros I. pose proof (inv_length _ _ I). pose proof (iv_len _ _ I). pose proof (iv_count _ _ I).
  rewrite zlen_length in *. unfold zl in *. lia.
Qed.

Lemma inv_walk t l : InvL t l -> lh_walk t = l.
Proof.
  intros I. unfold lh_walk. eapply chain_walk; [exact (iv_chain _ _ I)| |exact (inv_length _ _ I)].
  intros x Hx. pose proof (inv_range _ _ _ I Hx). lia.
Qed.

Lemma inv_walk_back t l : InvL t l -> lh_walk_back t = rev l.
Proof.
  intros I. unfold lh_walk_back.
  rewrite (chain_walk_back _ _ _ _ _ (iv_chain _ _ I)).
  - destruct (length (slots t) - length l)%nat; cbn; rewrite app_nil_r; reflexivity.
  - intros x Hx. pose proof (inv_range _ _ _ I Hx). lia.
  - exact (inv_length _ _ I).
Qed.

Lemma inv_unique t l l' : InvL t l -> InvL t l' -> l = l'.
Proof. intros I I'. rewrite <- (inv_walk _ _ I). apply inv_walk. exact I'. Qed.

(* lookup finds exactly the slot that holds the key *)
Lemma lookup_spec t l k :
  InvL t l ->
  match lh_table_lookup_entry keq hash t k with
  | Some n => key_at (slots t) n k
  | None => forall n, ~ key_at (slots t) n k
  end.
Proof.
  intros I. unfold lh_table_lookup_entry.
  pose proof (iv_size _ _ I) as Hs. pose proof (home_range (tsize t) k ltac:(lia)) as Hh.
  fold (home (tsize t) k).
  destruct (lookup_probe keq (Z.to_nat (tsize t)) (slots t) (tsize t) k (home (tsize t) k)) as [m|] eqn:E.
  - eapply lookup_probe_sound. exact E.
  - intros n Hk. destruct (iv_probe _ _ I n k Hk) as (d & Hd & Hn & Hb).
    destruct Hk as (v & c & Hst). rewrite <- Hn in Hst.
    pose proof (lookup_probe_complete (slots t) (tsize t) (home (tsize t) k) k d v c Hh Hd Hst) as C.
    rewrite <- (slot_at_0 (tsize t) (home (tsize t) k) Hh) in E.
    rewrite C in E; [discriminate| |lia|lia].
    intros d' Hd'. split; [apply Hb; exact Hd'|].
    intros Hk'. assert (Heq : slot_at (tsize t) (home (tsize t) k) d' = slot_at (tsize t) (home (tsize t) k) d).
    { eapply (iv_keys _ _ I); [exact Hk'|]. exists v, c. exact Hst. }
    apply slot_at_inj in Heq; lia.
Qed.

(* ---------------- lh_table_new ---------------- *)
Lemma table_new_inv size : 0 < size <= INT_MAX -> InvL (table_new size) [].
Proof.
  intros Hs. unfold LhModel.table_new.
  assert (Hnl : forall n, ~ is_live (zrepeat ent0 size) n).
  { intros n (k & v & c & H). rewrite sget_repeat in H. discriminate. }
  constructor; cbn [slots tsize tcount thead ttail].
  - unfold zl, zrepeat. rewrite repeat_length. lia.
  - exact Hs.
  - cbn. auto.
  - constructor.
  - intros n. split; [intros []|intros H; exact (Hnl n H)].
  - reflexivity.
  - intros i j k H. exfalso. exact (Hnl i (key_at_live _ _ _ H)).
  - intros n k H. exfalso. exact (Hnl n (key_at_live _ _ _ H)).
Qed.

(* ---------------- the stores of an insertion ---------------- *)
Lemma inv_head_tail_nil t : InvL t [] -> thead t = NULL /\ ttail t = NULL.
Proof. intros I. exact (iv_chain _ _ I). Qed.

Lemma inv_head_tail_cons t x xs :
  InvL t (x :: xs) -> thead t = x /\ ttail t = last xs x /\ In (ttail t) (x :: xs).
Proof.
  intros I. pose proof (iv_chain _ _ I) as C. pose proof (chain_tl _ _ _ _ _ C) as T.
  destruct C as (H & _). rewrite last_cons in T. repeat split; auto.
  rewrite T, <- (last_cons xs x NULL). apply last_cons_in.
Qed.

Lemma link_tail_facts t l n k v c :
  InvL t l -> 0 <= n < tsize t -> ~ In n l ->
  let t' := link_tail t n k v c in
  zl (slots t') = zl (slots t) /\ tsize t' = tsize t /\ tcount t' = tcount t + 1 /\ ttail t' = n /\
  thead t' = match l with [] => n | _ => thead t end /\
  (forall j, st (sget (slots t') j) = if j =? n then Live k v c else st (sget (slots t) j)) /\
  (forall x, x <> n -> pv (sget (slots t') x) = pv (sget (slots t) x)) /\
  (forall x, x <> n -> x <> ttail t -> nx (sget (slots t') x) = nx (sget (slots t) x)) /\
  (l <> [] -> nx (sget (slots t') (ttail t)) = n) /\
  pv (sget (slots t') n) = ttail t /\ nx (sget (slots t') n) = NULL.
Proof.
  intros I Hn Hnl. pose proof (iv_len _ _ I) as Hlen. unfold link_tail.
  destruct l as [|x xs].
  - destruct (inv_head_tail_nil _ I) as [Hh Ht]. rewrite Hh. cbn [Z.eqb NULL Pos.eqb].
    change (-1 =? -1) with true. cbv iota. cbn [slots tsize tcount thead ttail].
    rewrite Ht.
    repeat split; auto.
    + sg. reflexivity.
    + intros j. sg. destruct (Z.eq_dec j n) as [->|Hne].
      * rewrite hit_true by lia. replace (n =? n) with true by lia. reflexivity.
      * rewrite hit_false by lia. replace (j =? n) with false by lia. reflexivity.
    + intros y Hy. sg. reflexivity.
    + intros y Hy Hyt. sg. reflexivity.
    + intros H; contradiction.
    + sg. reflexivity.
    + sg. reflexivity.
  - destruct (inv_head_tail_cons _ _ _ I) as (Hh & Ht & Htin).
    pose proof (inv_range _ _ _ I Htin) as Htr.
    assert (Htn : ttail t <> n) by (intros E; apply Hnl; rewrite <- E; exact Htin).
    pose proof (inv_range _ _ x I (or_introl eq_refl)) as Hxr.
    replace (thead t =? NULL) with false by (unfold NULL; lia).
    cbn [slots tsize tcount thead ttail].
    repeat split; auto.
    + sg. reflexivity.
    + intros j. sg. destruct (Z.eq_dec j n) as [->|Hne].
      * rewrite hit_true by lia. replace (n =? n) with true by lia. reflexivity.
      * rewrite hit_false by lia. replace (j =? n) with false by lia. reflexivity.
    + intros y Hy. sg. reflexivity.
    + intros y Hy Hyt. sg. reflexivity.
    + intros _. sg. reflexivity.
    + sg. reflexivity.
    + sg. reflexivity.
Qed.

Lemma link_tail_inv t l n k v c d :
  InvL t l -> 0 <= d < tsize t -> n = slot_at (tsize t) (home (tsize t) k) d ->
  ~ is_live (slots t) n ->
  (forall d', 0 <= d' < d -> is_live (slots t) (slot_at (tsize t) (home (tsize t) k) d')) ->
  (forall m, ~ key_at (slots t) m k) ->
  InvL (link_tail t n k v c) (l ++ [n]) /\
  (forall j, st (sget (slots (link_tail t n k v c)) j) = if j =? n then Live k v c else st (sget (slots t) j)).
Proof.
  intros I Hd Hn Hnl Hbelow Hnew.
  pose proof (iv_size _ _ I) as Hs. pose proof (home_range (tsize t) k ltac:(lia)) as Hh.
  assert (Hnr : 0 <= n < tsize t) by (subst n; apply slot_at_range; lia).
  assert (Hnin : ~ In n l) by (intros H; apply Hnl; apply (iv_live _ _ I); exact H).
  destruct (link_tail_facts t l n k v c I Hnr Hnin) as (F1 & F2 & F3 & F4 & F5 & Fst & Fpv & Fnx & Ftl & Fpn & Fnn).
  set (t' := link_tail t n k v c) in *.
  assert (Hlive : forall j, is_live (slots t') j <-> (j = n \/ is_live (slots t) j)).
  { intros j. unfold is_live. rewrite Fst. destruct (Z.eq_dec j n) as [->|Hne].
    - replace (n =? n) with true by lia. split; [auto|]. intros _. eauto.
    - replace (j =? n) with false by lia. split; [auto|]. intros [?|H]; [contradiction|exact H]. }
  assert (Hkey : forall j k', key_at (slots t') j k' <-> ((j = n /\ k' = k) \/ (j <> n /\ key_at (slots t) j k'))).
  { intros j k'. unfold key_at. rewrite Fst. destruct (Z.eq_dec j n) as [->|Hne].
    - replace (n =? n) with true by lia. split.
      + intros (v' & c' & H). left. split; [reflexivity|congruence].
      + intros [[_ ->]|[H _]]; [eauto|contradiction].
    - replace (j =? n) with false by lia. split.
      + intros H. right. auto.
      + intros [[H _]|[_ H]]; [contradiction|exact H]. }
  split; [|exact Fst].
  constructor.
  - rewrite F1, F2. exact (iv_len _ _ I).
  - rewrite F2. exact Hs.
  - rewrite F4.
    replace (thead t') with (match l with [] => n | _ => thead t end).
    eapply chain_snoc; [exact (iv_chain _ _ I)|exact (iv_nodup _ _ I)|exact Hnin| | | | |].
    + intros x Hx. apply Fpv. intros ->. contradiction.
    + intros x Hx Hne. apply Fnx; [intros ->; contradiction|exact Hne].
    + exact Ftl.
    + exact Fpn.
    + exact Fnn.
  - apply NoDup_app_snoc; [exact (iv_nodup _ _ I)|exact Hnin].
  - intros j. rewrite in_app_iff, Hlive, (iv_live _ _ I). cbn. intuition.
  - rewrite F3, zlen_snoc, (iv_count _ _ I). reflexivity.
  - intros i j k' Hi Hj. apply Hkey in Hi. apply Hkey in Hj.
    destruct Hi as [[-> ->]|[Hin Hi]], Hj as [[-> Hk]|[Hjn Hj]]; auto.
    + exfalso. exact (Hnew j Hj).
    + subst k'. exfalso. exact (Hnew i Hi).
    + eapply (iv_keys _ _ I); eassumption.
  - intros j k' Hj. rewrite F2. apply Hkey in Hj. destruct Hj as [[-> ->]|[Hjn Hj]].
    + exists d. split; [exact Hd|]. split; [symmetry; exact Hn|].
      intros d' Hd'. pose proof (Hbelow d' Hd') as (k1 & v1 & c1 & H1).
      rewrite Fst. destruct (_ =? n); congruence.
    + destruct (iv_probe _ _ I j k' Hj) as (dj & Hdj & Hsj & Hbj). exists dj. split; [exact Hdj|]. split; [exact Hsj|].
      intros d' Hd'. rewrite Fst. destruct (_ =? n); [discriminate|]. apply Hbj. exact Hd'.
Qed.

(* ---------------- lh_entry_set_val ---------------- *)
Lemma set_val_facts t n k v0 c v :
  st (sget (slots t) n) = Live k v0 c ->
  let t' := set_val t n v in
  zl (slots t') = zl (slots t) /\
  (forall j, st (sget (slots t') j) = if j =? n then Live k v c else st (sget (slots t) j)) /\
  (forall j, nx (sget (slots t') j) = nx (sget (slots t) j)) /\
  (forall j, pv (sget (slots t') j) = pv (sget (slots t) j)).
Proof.
  intros H. pose proof (live_range _ _ (ex_intro _ k (ex_intro _ v0 (ex_intro _ c H)))) as Hr.
  unfold set_val. cbn [slots]. split; [apply zl_supd|].
  repeat split; intros j; rewrite sget_supd.
  - destruct (Z.eq_dec j n) as [->|Hne].
    + replace ((n =? n) && (0 <=? n) && (n <? zl (slots t))) with true by lia.
      rewrite H. replace (n =? n) with true by lia. reflexivity.
    + replace (j =? n) with false by lia. reflexivity.
  - destruct ((j =? n) && (0 <=? n) && (n <? zl (slots t))); [|reflexivity].
    destruct (st (sget (slots t) j)); reflexivity.
  - destruct ((j =? n) && (0 <=? n) && (n <? zl (slots t))); [|reflexivity].
    destruct (st (sget (slots t) j)); reflexivity.
Qed.

Lemma set_val_inv t l n k v :
  InvL t l -> key_at (slots t) n k ->
  InvL (set_val t n v) l /\
  exists c, forall j, st (sget (slots (set_val t n v)) j) = if j =? n then Live k v c else st (sget (slots t) j).
Proof.
  intros I (v0 & c & H). destruct (set_val_facts t n k v0 c v H) as (F1 & Fst & Fnx & Fpv).
  set (t' := set_val t n v) in *.
  assert (Hkey : forall j k', key_at (slots t') j k' <-> key_at (slots t) j k').
  { intros j k'. unfold key_at. rewrite Fst. destruct (Z.eq_dec j n) as [->|Hne].
    - replace (n =? n) with true by lia. rewrite H. split; intros (a & b & E); inversion E; subst; eauto.
    - replace (j =? n) with false by lia. tauto. }
  assert (Hlive : forall j, is_live (slots t') j <-> is_live (slots t) j).
  { intros j. unfold is_live. rewrite Fst. destruct (Z.eq_dec j n) as [->|Hne].
    - replace (n =? n) with true by lia. rewrite H. split; intros _; eauto.
    - replace (j =? n) with false by lia. tauto. }
  split; [|exists c; exact Fst].
  constructor; try exact (iv_size _ _ I); try exact (iv_nodup _ _ I); try exact (iv_count _ _ I).
  - change (tsize t') with (tsize t). rewrite F1. exact (iv_len _ _ I).
  - change (thead t') with (thead t). change (ttail t') with (ttail t).
    eapply chain_frame; [|exact (iv_chain _ _ I)]. intros x _. split; [apply Fnx|apply Fpv].
  - intros j. rewrite Hlive. apply (iv_live _ _ I).
  - intros i j k' Hi Hj. apply Hkey in Hi. apply Hkey in Hj. eapply (iv_keys _ _ I); eassumption.
  - intros j k' Hj. apply Hkey in Hj. change (tsize t') with (tsize t).
    destruct (iv_probe _ _ I j k' Hj) as (dj & Hdj & Hsj & Hbj). exists dj. split; [exact Hdj|]. split; [exact Hsj|].
    intros d' Hd'. rewrite Fst. destruct (_ =? n); [discriminate|]. apply Hbj. exact Hd'.
Qed.

(* ---------------- the stores of lh_table_delete_entry ---------------- *)
Lemma delete_facts t l1 n l2 :
  InvL t (l1 ++ n :: l2) ->
  exists t', lh_table_delete_entry t n = DOk t' /\
  zl (slots t') = zl (slots t) /\ tsize t' = tsize t /\ tcount t' = tcount t - 1 /\
  thead t' = match l1 with [] => hdz l2 NULL | _ => thead t end /\
  ttail t' = match l2 with [] => last l1 NULL | _ => ttail t end /\
  (forall j, st (sget (slots t') j) = if j =? n then Freed else st (sget (slots t) j)) /\
  (forall x, x <> n -> x <> last l1 NULL -> nx (sget (slots t') x) = nx (sget (slots t) x)) /\
  (l1 <> [] -> nx (sget (slots t') (last l1 NULL)) = hdz l2 NULL) /\
  (forall x, x <> n -> x <> hdz l2 NULL -> pv (sget (slots t') x) = pv (sget (slots t) x)) /\
  (l2 <> [] -> pv (sget (slots t') (hdz l2 NULL)) = last l1 NULL).
Proof.
  intros I. pose proof (iv_len _ _ I) as Hlen. pose proof (iv_nodup _ _ I) as Hnd.
  assert (Hin : In n (l1 ++ n :: l2)) by (apply in_or_app; right; left; reflexivity).
  pose proof (inv_range _ _ _ I Hin) as Hnr.
  destruct (proj1 (iv_live _ _ I n) Hin) as (k & v & c & Hst).
  destruct (chain_mid _ _ _ _ _ _ _ (iv_chain _ _ I)) as [HP HX].
  pose proof (chain_hd _ _ _ _ _ (iv_chain _ _ I)) as Hh.
  pose proof (chain_tl _ _ _ _ _ (iv_chain _ _ I)) as Ht. rewrite last_app_cons, last_cons in Ht.
  destruct (NoDup_remove_mid _ _ _ Hnd) as [Hnd' Hnn].
  unfold lh_table_delete_entry. replace (n <? 0) with false by lia. rewrite Hst. cbv zeta.
  destruct l1 as [|a l1'], l2 as [|b l2']; cbn [app hdz] in *; rewrite ?last_cons in *; cbn [last] in *.
  - (* the only entry *)
    rewrite Hh, Ht. replace (n =? n) with true by lia. cbn [andb].
    eexists. split; [reflexivity|]. cbn [slots tsize tcount thead ttail].
    repeat split; auto; try contradiction.
    + sg. reflexivity.
    + intros j. sg. destruct (Z.eq_dec j n) as [->|Hne].
      * rewrite hit_true by lia. replace (n =? n) with true by lia. reflexivity.
      * rewrite hit_false by lia. replace (j =? n) with false by lia. reflexivity.
    + intros x Hx _. sg. reflexivity.
    + intros x Hx _. sg. reflexivity.
  - (* head, not tail *)
    assert (Hbr : 0 <= b < tsize t) by (apply (inv_range _ _ _ I); right; left; reflexivity).
    assert (Hbn : b <> n) by (intros ->; apply Hnn; left; reflexivity).
    assert (Htn : ttail t <> n).
    { rewrite Ht. intros E. apply Hnn. rewrite <- E. rewrite <- (last_cons l2' b NULL). apply last_cons_in. }
    rewrite Hh. replace (ttail t =? n) with false by lia. replace (n =? n) with true by lia. cbn [andb].
    assert (E1 : nx (sget (set_st (slots t) n Freed) n) = b) by (sg; exact HX).
    rewrite E1. replace (b <? 0) with false by lia.
    eexists. split; [reflexivity|]. cbn [slots tsize tcount thead ttail].
    repeat split; auto; try contradiction.
    + sg. reflexivity.
    + intros j. sg. destruct (Z.eq_dec j n) as [->|Hne].
      * rewrite hit_true by lia. replace (n =? n) with true by lia. reflexivity.
      * rewrite hit_false by lia. replace (j =? n) with false by lia. reflexivity.
    + intros x Hx _. sg. reflexivity.
    + intros x Hx Hxb. sg. reflexivity.
    + intros _. sg. unfold NULL. reflexivity.
  - (* tail, not head *)
    set (P := last l1' a) in *.
    assert (HPin : In P (a :: l1')) by (unfold P; rewrite <- (last_cons l1' a NULL); apply last_cons_in).
    assert (HPr : 0 <= P < tsize t) by (apply (inv_range _ _ _ I); exact (in_or_app (a :: l1') _ P (or_introl HPin))).
    assert (HPn : P <> n).
    { intros E. apply Hnn. rewrite <- E. exact (in_or_app (a :: l1') _ P (or_introl HPin)). }
    assert (Han : a <> n). { intros ->. apply Hnn. left. reflexivity. }
    rewrite Hh, Ht. replace (n =? n) with true by lia. replace (a =? n) with false by lia. cbn [andb].
    assert (E1 : pv (sget (set_st (slots t) n Freed) n) = P) by (sg; exact HP).
    rewrite E1. replace (P <? 0) with false by lia.
    eexists. split; [reflexivity|]. cbn [slots tsize tcount thead ttail].
    repeat split; auto; try contradiction.
    + sg. reflexivity.
    + intros j. sg. destruct (Z.eq_dec j n) as [->|Hne].
      * rewrite hit_true by lia. replace (n =? n) with true by lia. reflexivity.
      * rewrite hit_false by lia. replace (j =? n) with false by lia. reflexivity.
    + intros x Hx HxP. sg. reflexivity.
    + intros _. sg. reflexivity.
    + intros x Hx _. sg. reflexivity.
  - (* in the middle *)
    set (P := last l1' a) in *.
    assert (HPin : In P (a :: l1')) by (unfold P; rewrite <- (last_cons l1' a NULL); apply last_cons_in).
    assert (HPr : 0 <= P < tsize t) by (apply (inv_range _ _ _ I); exact (in_or_app (a :: l1') _ P (or_introl HPin))).
    assert (HPn : P <> n).
    { intros E. apply Hnn. rewrite <- E. exact (in_or_app (a :: l1') _ P (or_introl HPin)). }
    assert (Han : a <> n). { intros ->. apply Hnn. left. reflexivity. }
    assert (Hbr : 0 <= b < tsize t).
    { apply (inv_range _ _ _ I). exact (in_or_app (a :: l1') (n :: b :: l2') b (or_intror (or_intror (or_introl eq_refl)))). }
    assert (Hbn : b <> n). { intros ->. apply Hnn. exact (in_or_app (a :: l1') (n :: l2') n (or_intror (or_introl eq_refl))). }
    assert (HPb : P <> b).
    { intros E. assert (H2 : NoDup ((a :: l1') ++ b :: l2')) by exact Hnd'.
      apply NoDup_remove_2 in H2. apply H2. apply in_or_app. left. rewrite <- E. exact HPin. }
    assert (Htn : ttail t <> n).
    { rewrite Ht. intros E. apply Hnn. apply (in_or_app (a :: l1') (b :: l2') n). right.
      rewrite <- E, <- (last_cons l2' b NULL). apply last_cons_in. }
    rewrite Hh. replace (ttail t =? n) with false by lia. replace (a =? n) with false by lia. cbn [andb].
    assert (E1 : pv (sget (set_st (slots t) n Freed) n) = P) by (sg; exact HP).
    rewrite E1. replace (P <? 0) with false by lia.
    assert (E2 : nx (sget (set_st (slots t) n Freed) n) = b) by (sg; exact HX).
    rewrite E2.
    assert (E3 : nx (sget (set_nx (set_st (slots t) n Freed) P b) n) = b) by (sg; exact HX).
    rewrite E3. replace (b <? 0) with false by lia.
    assert (E4 : pv (sget (set_nx (set_st (slots t) n Freed) P b) n) = P) by (sg; exact HP).
    rewrite E4.
    eexists. split; [reflexivity|]. cbn [slots tsize tcount thead ttail].
    repeat split; auto; try contradiction.
    + sg. reflexivity.
    + intros j. sg. destruct (Z.eq_dec j n) as [->|Hne].
      * rewrite hit_true by lia. replace (n =? n) with true by lia. reflexivity.
      * rewrite hit_false by lia. replace (j =? n) with false by lia. reflexivity.
    + intros x Hx HxP. sg. reflexivity.
    + intros _. sg. reflexivity.
    + intros x Hx Hxb. sg. reflexivity.
    + intros _. sg. reflexivity.
Qed.

Lemma delete_entry_inv t l1 n l2 :
  InvL t (l1 ++ n :: l2) ->
  exists t', lh_table_delete_entry t n = DOk t' /\ InvL t' (l1 ++ l2) /\
    (forall j, st (sget (slots t') j) = if j =? n then Freed else st (sget (slots t) j)).
Proof.
  intros I. destruct (delete_facts t l1 n l2 I) as (t' & E & F1 & F2 & F3 & F4 & F5 & Fst & Fnx & FnP & Fpv & FpX).
  exists t'. split; [exact E|]. split; [|exact Fst].
  pose proof (iv_nodup _ _ I) as Hnd. destruct (NoDup_remove_mid _ _ _ Hnd) as [Hnd' Hnn].
  assert (Hin : In n (l1 ++ n :: l2)) by (apply in_or_app; right; left; reflexivity).
  destruct (proj1 (iv_live _ _ I n) Hin) as (k & v & c & Hst).
  assert (Hlive : forall j, is_live (slots t') j <-> (j <> n /\ is_live (slots t) j)).
  { intros j. unfold is_live. rewrite Fst. destruct (Z.eq_dec j n) as [->|Hne].
    - replace (n =? n) with true by lia. split; [intros (?&?&?&?); discriminate|intros [? _]; contradiction].
    - replace (j =? n) with false by lia. tauto. }
  assert (Hkey : forall j k', key_at (slots t') j k' <-> (j <> n /\ key_at (slots t) j k')).
  { intros j k'. unfold key_at. rewrite Fst. destruct (Z.eq_dec j n) as [->|Hne].
    - replace (n =? n) with true by lia. split; [intros (?&?&?); discriminate|intros [? _]; contradiction].
    - replace (j =? n) with false by lia. tauto. }
  assert (Hmem : forall x, In x (l1 ++ l2) -> x <> n /\ In x (l1 ++ n :: l2)).
  { intros x Hx. split; [intros ->; contradiction|].
    apply in_app_or in Hx. apply in_or_app. destruct Hx; [left|right; right]; assumption. }
  constructor.
  - rewrite F1, F2. exact (iv_len _ _ I).
  - rewrite F2. exact (iv_size _ _ I).
  - rewrite F4, F5.
    eapply chain_unlink; [exact (iv_chain _ _ I)|exact Hnd| | | | | |].
    + intros Hp. pose proof (inv_range _ _ _ I Hp). unfold NULL in *. lia.
    + intros x Hx. pose proof (inv_range _ _ _ I Hx). lia.
    + intros x Hx HxP. apply Fnx; [apply Hmem; exact Hx|exact HxP].
    + exact FnP.
    + intros x Hx HxX. apply Fpv; [apply Hmem; exact Hx|exact HxX].
    + exact FpX.
  - exact Hnd'.
  - intros j. rewrite Hlive, <- (iv_live _ _ I). split.
    + intros Hj. apply Hmem. exact Hj.
    + intros [Hne Hj]. apply in_app_or in Hj. apply in_or_app.
      destruct Hj as [Hj|[Hj|Hj]]; [left; exact Hj|congruence|right; exact Hj].
  - rewrite F3, (iv_count _ _ I), !zlen_app. cbn [zlen]. lia.
  - intros i j k' Hi Hj. apply Hkey in Hi. apply Hkey in Hj.
    eapply (iv_keys _ _ I); [apply Hi|apply Hj].
  - intros j k' Hj. apply Hkey in Hj. destruct Hj as [Hjn Hj]. rewrite F2.
    destruct (iv_probe _ _ I j k' Hj) as (dj & Hdj & Hsj & Hbj). exists dj. split; [exact Hdj|]. split; [exact Hsj|].
    intros d' Hd'. rewrite Fst. destruct (_ =? n); [discriminate|]. apply Hbj. exact Hd'.
Qed.

(* ---------------- the abstraction: entries along the chain ---------------- *)
Lemma entries_ext sl sl' l :
  (forall x, In x l -> st (sget sl' x) = st (sget sl x)) -> entries sl' l = entries sl l.
Proof.
  induction l as [|x xs IH]; intros H; [reflexivity|]. unfold entries in *. cbn [flat_map].
  unfold ent_kv at 1 3. rewrite (H x (or_introl eq_refl)). f_equal. apply IH.
  intros y Hy. apply H. right. exact Hy.
Qed.

Lemma entries_app sl l1 l2 : entries sl (l1 ++ l2) = entries sl l1 ++ entries sl l2.
Proof. apply flat_map_app. Qed.

Lemma entries_cons sl x l : entries sl (x :: l) = ent_kv sl x ++ entries sl l.
Proof. reflexivity. Qed.

Lemma ent_kv_live sl n k v c : st (sget sl n) = Live k v c -> ent_kv sl n = [(k, v)].
Proof. unfold ent_kv. intros ->. reflexivity. Qed.

Lemma ent_kv_cases sl n :
  (exists k v c, st (sget sl n) = Live k v c /\ ent_kv sl n = [(k, v)]) \/ (~ is_live sl n /\ ent_kv sl n = []).
Proof.
  unfold ent_kv, is_live. destruct (st (sget sl n)) as [| |k v c] eqn:E.
  - right. split; [intros (?&?&?&?); discriminate|reflexivity].
  - right. split; [intros (?&?&?&?); discriminate|reflexivity].
  - left. exists k, v, c. auto.
Qed.

Lemma a_lookup_app (m1 m2 : amap) k :
  a_lookup keq (m1 ++ m2) k = match a_lookup keq m1 k with Some v => Some v | None => a_lookup keq m2 k end.
Proof.
  induction m1 as [|[k' v'] m1 IH]; [reflexivity|]. cbn. destruct (keq k' k); [reflexivity|exact IH].
Qed.

Lemma lookup_entries_none sl l k :
  (forall n, In n l -> ~ key_at sl n k) -> a_lookup keq (entries sl l) k = None.
Proof.
  induction l as [|x xs IH]; intros H; [reflexivity|].
  rewrite entries_cons, a_lookup_app, IH by (intros n Hn; apply H; right; exact Hn).
  destruct (ent_kv_cases sl x) as [(k' & v & c & E & ->)|[_ ->]]; [|reflexivity].
  cbn. rewrite keq_false; [reflexivity|]. intros ->. apply (H x (or_introl eq_refl)). exists v, c. exact E.
Qed.

Lemma lookup_entries_in sl l n k v c :
  (forall i j k, key_at sl i k -> key_at sl j k -> i = j) ->
  In n l -> st (sget sl n) = Live k v c -> a_lookup keq (entries sl l) k = Some v.
Proof.
  intros Hk. induction l as [|x xs IH]; intros Hin Hst; [destruct Hin|].
  rewrite entries_cons, a_lookup_app.
  destruct (Z.eq_dec x n) as [->|Hne].
  - rewrite (ent_kv_live _ _ _ _ _ Hst). cbn. rewrite keq_refl. reflexivity.
  - destruct Hin as [?|Hin]; [contradiction|].
    destruct (ent_kv_cases sl x) as [(k' & v' & c' & E & ->)|[_ ->]]; [|cbn; apply IH; assumption].
    cbn. rewrite keq_false; [apply IH; assumption|].
    intros ->. apply Hne. apply (Hk x n k); [exists v', c'; exact E|exists v, c; exact Hst].
Qed.

Lemma entries_set_val sl sl' l n k v c :
  (forall i j k, key_at sl i k -> key_at sl j k -> i = j) ->
  key_at sl n k ->
  (forall j, st (sget sl' j) = if j =? n then Live k v c else st (sget sl j)) ->
  entries sl' l = map (fun kv => if keq (fst kv) k then (fst kv, v) else kv) (entries sl l).
Proof.
  intros Hk (v0 & c0 & Hn) Hst. induction l as [|x xs IH]; [reflexivity|].
  rewrite !entries_cons, map_app, IH. f_equal.
  destruct (Z.eq_dec x n) as [->|Hne].
  - rewrite (ent_kv_live _ _ _ _ _ Hn). unfold ent_kv. rewrite Hst. replace (n =? n) with true by lia.
    cbn. rewrite keq_refl. reflexivity.
  - unfold ent_kv at 1. rewrite Hst. replace (x =? n) with false by lia. fold (ent_kv sl x).
    destruct (ent_kv_cases sl x) as [(k' & v' & c' & E & ->)|[_ ->]]; [|reflexivity].
    cbn. rewrite keq_false; [reflexivity|].
    intros ->. apply Hne. apply (Hk x n k); [exists v', c'; exact E|exists v0, c0; exact Hn].
Qed.

Lemma entries_filter_other sl sl' l n k :
  (forall i j k, key_at sl i k -> key_at sl j k -> i = j) ->
  key_at sl n k -> ~ In n l ->
  (forall j, j <> n -> st (sget sl' j) = st (sget sl j)) ->
  entries sl' l = filter (fun kv => negb (keq (fst kv) k)) (entries sl l).
Proof.
  intros Hk (v0 & c0 & Hn) Hnl Hst. induction l as [|x xs IH]; [reflexivity|].
  assert (Hne : x <> n) by (intros ->; apply Hnl; left; reflexivity).
  rewrite !entries_cons, filter_app, IH by (intros H; apply Hnl; right; exact H). f_equal.
  unfold ent_kv at 1. rewrite Hst by exact Hne. fold (ent_kv sl x).
  destruct (ent_kv_cases sl x) as [(k' & v' & c' & E & ->)|[_ ->]]; [|reflexivity].
  cbn. rewrite keq_false; [reflexivity|].
  intros ->. apply Hne. apply (Hk x n k); [exists v', c'; exact E|exists v0, c0; exact Hn].
Qed.

Lemma a_del_absent sl l k :
  (forall n, In n l -> ~ key_at sl n k) -> a_del keq (entries sl l) k = entries sl l.
Proof.
  unfold a_del. induction l as [|x xs IH]; intros H; [reflexivity|].
  rewrite entries_cons, filter_app, IH by (intros n Hn; apply H; right; exact Hn). f_equal.
  destruct (ent_kv_cases sl x) as [(k' & v' & c' & E & ->)|[_ ->]]; [|reflexivity].
  cbn. rewrite keq_false; [reflexivity|]. intros ->. apply (H x (or_introl eq_refl)). exists v', c'. exact E.
Qed.

Definition abs t : amap := obj_iter t.

Lemma abs_inv t l : InvL t l -> abs t = entries (slots t) l.
Proof. intros I. unfold abs, obj_iter. rewrite (inv_walk _ _ I). reflexivity. Qed.

(* ---------------- lookup / length ---------------- *)
Lemma get_ex_spec t l k :
  InvL t l -> obj_get_ex keq hash t k = a_lookup keq (entries (slots t) l) k.
Proof.
  intros I. unfold obj_get_ex. pose proof (lookup_spec t l k I) as L.
  destruct (lh_table_lookup_entry keq hash t k) as [n|].
  - destruct L as (v & c & Hst). rewrite Hst. symmetry.
    eapply lookup_entries_in; [exact (iv_keys _ _ I)| |exact Hst].
    apply (iv_live _ _ I). exists k, v, c. exact Hst.
  - symmetry. apply lookup_entries_none. intros n _. apply L.
Qed.

Lemma mem_spec t l k :
  InvL t l -> (a_mem keq (entries (slots t) l) k = true <-> exists n, key_at (slots t) n k).
Proof.
  intros I. unfold a_mem. rewrite <- (get_ex_spec t l k I). unfold obj_get_ex.
  pose proof (lookup_spec t l k I) as L. destruct (lh_table_lookup_entry keq hash t k) as [n|].
  - destruct L as (v & c & Hst). rewrite Hst. split; [intros _; exists n, v, c; exact Hst|reflexivity].
  - split; [discriminate|]. intros (n & Hn). exfalso. exact (L n Hn).
Qed.

(* ---------------- insertion without growth ---------------- *)
Lemma insert_noresize_spec t l k v c :
  InvL t l -> tcount t < tsize t -> (forall m, ~ key_at (slots t) m k) ->
  exists t' n, insert_noresize hash t k v c = IOk t' /\ InvL t' (l ++ [n]) /\
    entries (slots t') (l ++ [n]) = entries (slots t) l ++ [(k, v)] /\
    tsize t' = tsize t /\ tcount t' = tcount t + 1 /\
    (forall m k', key_at (slots t') m k' -> k' = k \/ key_at (slots t) m k').
Proof.
  intros I Hc Hnew. pose proof (iv_size _ _ I) as Hs. pose proof (home_range (tsize t) k ltac:(lia)) as Hh.
  unfold insert_noresize. fold (home (tsize t) k).
  pose proof (find_free_spec (slots t) (tsize t) (home (tsize t) k) Hh (Z.to_nat (tsize t)) 0 ltac:(lia) ltac:(lia)
                ltac:(intros; lia)) as F.
  rewrite slot_at_0 in F by exact Hh.
  destruct (find_free (Z.to_nat (tsize t)) (slots t) (tsize t) (home (tsize t) k)) as [n|].
  - destruct F as (d & Hd & Hn & Hnl & Hbelow).
    destruct (link_tail_inv t l n k v c d I ltac:(lia) Hn Hnl Hbelow Hnew) as [I' Fst].
    exists (link_tail t n k v c), n. split; [reflexivity|].
    assert (Hnin : ~ In n l) by (intros H; apply Hnl; apply (iv_live _ _ I); exact H).
    assert (Hnr : 0 <= n < tsize t) by (subst n; apply slot_at_range; lia).
    destruct (link_tail_facts t l n k v c I Hnr Hnin) as (F1 & F2 & F3 & _).
    split; [exact I'|]. split; [|split; [exact F2|split; [exact F3|]]].
    + rewrite entries_app. f_equal.
      * apply entries_ext. intros x Hx. rewrite Fst. replace (x =? n) with false; [reflexivity|].
        symmetry. apply Z.eqb_neq. intros ->. contradiction.
      * cbn. unfold ent_kv. rewrite Fst. replace (n =? n) with true by lia. reflexivity.
    + intros m k' (v' & c' & Hm). rewrite Fst in Hm. destruct (m =? n).
      * left. congruence.
      * right. exists v', c'. exact Hm.
  - exfalso.
    assert (Hall : forall x, 0 <= x < Z.of_nat (Z.to_nat (tsize t)) -> In x l).
    { intros x Hx. apply (iv_live _ _ I).
      destruct (slot_at_surj (tsize t) (home (tsize t) k) x Hh ltac:(lia)) as (d & Hd & <-).
      apply F. lia. }
    apply all_in_length in Hall. pose proof (iv_count _ _ I). rewrite zlen_length in *. lia.
Qed.

Lemma in_entries sl l k v :
  In (k, v) (entries sl l) <-> exists n c, In n l /\ st (sget sl n) = Live k v c.
Proof.
  unfold entries. rewrite in_flat_map. split.
  - intros (n & Hn & Hin). unfold ent_kv in Hin. destruct (st (sget sl n)) as [| |k' v' c] eqn:E; try destruct Hin.
    + inversion H; subst. eauto.
    + destruct H.
  - intros (n & c & Hn & E). exists n. split; [exact Hn|]. unfold ent_kv. rewrite E. left. reflexivity.
Qed.

(* ---------------- lh_table_resize ---------------- *)
Lemma refill_spec old : forall es nt ln,
  InvL nt ln -> NoDup es ->
  (forall x, In x es -> is_live old x) ->
  (forall i j k, In i es -> In j es -> key_at old i k -> key_at old j k -> i = j) ->
  (forall x k, In x es -> key_at old x k -> forall m, ~ key_at (slots nt) m k) ->
  (100 * (tcount nt + zlen es - 1) < 66 * tsize nt \/ tsize nt = INT_MAX) ->
  match refill hash es old nt with
  | IOk nt' => exists ln', InvL nt' ln' /\ entries (slots nt') ln' = entries (slots nt) ln ++ entries old es /\
                 tsize nt' = tsize nt /\ tcount nt' = tcount nt + zlen es
  | IFail => tsize nt = INT_MAX
  | IOut _ => False
  end.
Proof.
  induction es as [|x r IH]; intros nt ln I Hnd Hlive Hdist Hnew Hload.
  - cbn. exists ln. rewrite app_nil_r. split; [exact I|]. split; [reflexivity|]. split; [reflexivity|lia].
  - destruct (Hlive x (or_introl eq_refl)) as (k & v & c & Hst).
    apply NoDup_cons_iff in Hnd. destruct Hnd as [Hx Hnd].
    pose proof (iv_size _ _ I) as Hs. pose proof (zlen_nonneg r) as Hr0.
    cbn [refill]. rewrite Hst. unfold insert_inner.
    rewrite load_test_int by lia.
    destruct (66 * tsize nt <=? 100 * tcount nt) eqn:EL.
    + cbn [zlen] in Hload. destruct Hload as [Hload|Hload]; [lia|].
      replace (tsize nt =? INT_MAX) with true by lia. exact Hload.
    + assert (Hc : tcount nt < tsize nt) by lia.
      assert (Hnk : forall m, ~ key_at (slots nt) m k).
      { apply (Hnew x k (or_introl eq_refl)). exists v, c. exact Hst. }
      destruct (insert_noresize_spec nt ln k v c I Hc Hnk) as (nt' & n & E & I' & Hent & Hsz & Hcnt & Hkeys).
      rewrite E.
      specialize (IH nt' (ln ++ [n]) I' Hnd).
      assert (IH' := IH (fun y Hy => Hlive y (or_intror Hy))
                        (fun i j k' Hi Hj => Hdist i j k' (or_intror Hi) (or_intror Hj))). clear IH.
      assert (Hnew' : forall y k', In y r -> key_at old y k' -> forall m, ~ key_at (slots nt') m k').
      { intros y k' Hy Hyk m Hm. destruct (Hkeys m k' Hm) as [->|Hm'].
        - assert (y = x).
          { apply (Hdist y x k); [right; exact Hy|left; reflexivity|exact Hyk|exists v, c; exact Hst]. }
          subst y. contradiction.
        - exact (Hnew y k' (or_intror Hy) Hyk m Hm'). }
      specialize (IH' Hnew').
      assert (Hload' : 100 * (tcount nt' + zlen r - 1) < 66 * tsize nt' \/ tsize nt' = INT_MAX).
      { rewrite Hsz, Hcnt. cbn [zlen] in Hload. destruct Hload; [left; lia|right; assumption]. }
      specialize (IH' Hload').
      destruct (refill hash r old nt') as [nt''|  |why].
      * destruct IH' as (ln'' & I'' & Hent'' & Hsz'' & Hcnt''). exists ln''.
        split; [exact I''|]. split; [|split; [congruence|cbn [zlen]; lia]].
        rewrite Hent'', Hent, entries_cons, (ent_kv_live _ _ _ _ _ Hst), <- app_assoc. reflexivity.
      * congruence.
      * exact IH'.
Qed.

Lemma table_new_nokey size m k : ~ key_at (slots (table_new size)) m k.
Proof. intros (v & c & H). cbn in H. rewrite sget_repeat in H. discriminate. Qed.

Lemma resize_spec al t l new_size :
  InvL t l -> 0 < new_size <= INT_MAX ->
  (100 * (tcount t - 1) < 66 * new_size \/ new_size = INT_MAX) ->
  match lh_table_resize hash al t new_size with
  | IOk t' => exists l', InvL t' l' /\ entries (slots t') l' = entries (slots t) l /\
                tsize t' = new_size /\ tcount t' = tcount t
  | IFail => al new_size = false \/ new_size = INT_MAX
  | IOut _ => False
  end.
Proof.
  intros I Hn Hload. unfold lh_table_resize. replace (new_size <=? 0) with false by lia.
  destruct (al new_size) eqn:Eal; [|left; reflexivity].
  rewrite (inv_walk _ _ I).
  pose proof (refill_spec (slots t) l (table_new new_size) [] (table_new_inv new_size Hn) (iv_nodup _ _ I)) as R.
  assert (R' := R (fun x Hx => proj1 (iv_live _ _ I x) Hx)
                  (fun i j k _ _ => iv_keys _ _ I i j k)
                  (fun x k _ _ m => table_new_nokey new_size m k)). clear R.
  cbn [LhModel.table_new tsize tcount] in R'.
  assert (Hl : 100 * (0 + zlen l - 1) < 66 * new_size \/ new_size = INT_MAX).
  { rewrite <- (iv_count _ _ I). destruct Hload; [left; lia|right; assumption]. }
  specialize (R' Hl). fold (table_new new_size) in R'.
  destruct (refill hash l (slots t) (table_new new_size)) as [nt| |why].
  - destruct R' as (ln & I' & Hent & Hsz & Hcnt).
    assert (Heq : mktab (slots nt) new_size (tcount t) (thead nt) (ttail nt) = nt).
    { pose proof (iv_count _ _ I). destruct nt; cbn in *. f_equal; lia. }
    rewrite Heq. exists ln. split; [exact I'|]. split; [exact Hent|]. split; [exact Hsz|].
    rewrite Hcnt, (iv_count _ _ I). lia.
  - right. exact R'.
  - exact R'.
Qed.

(* ---------------- lh_table_insert_w_hash ---------------- *)
Lemma insert_spec al t l k v c :
  InvL t l -> (forall m, ~ key_at (slots t) m k) ->
  match lh_table_insert_w_hash hash al t k v c with
  | IOk t' => exists l', InvL t' l' /\ entries (slots t') l' = entries (slots t) l ++ [(k, v)] /\
                tcount t' = tcount t + 1
  | IFail => 66 * tsize t <= 100 * tcount t /\ (INT_MAX / 2 < tsize t \/ al (tsize t * 2) = false)
  | IOut _ => False
  end.
Proof.
  intros I Hnew. pose proof (iv_size _ _ I) as Hs. pose proof (inv_count_le _ _ I) as Hc.
  assert (Hhalf : INT_MAX / 2 = 1073741823) by reflexivity.
  unfold lh_table_insert_w_hash. rewrite load_test_int by lia.
  destruct (66 * tsize t <=? 100 * tcount t) eqn:EL.
  - destruct (tsize t =? INT_MAX) eqn:Emax.
    { split; [lia|]. left. unfold INT_MAX in *. lia. }
    set (ns := if tsize t >? INT_MAX / 2 then INT_MAX else tsize t * 2).
    assert (Hns : 0 < ns <= INT_MAX /\ tsize t < ns /\
                  (100 * (tcount t - 1) < 66 * ns \/ ns = INT_MAX)).
    { unfold ns. destruct (tsize t >? INT_MAX / 2) eqn:E; unfold INT_MAX in *; lia. }
    destruct Hns as (Hns1 & Hns2 & Hns3).
    pose proof (resize_spec al t l ns I Hns1 Hns3) as R.
    destruct (lh_table_resize hash al t ns) as [t1| |why].
    + destruct R as (l1 & I1 & Hent1 & Hsz1 & Hcnt1).
      assert (Hnew1 : forall m, ~ key_at (slots t1) m k).
      { intros m (v1 & c1 & Hm).
        assert (Hin : In (k, v1) (entries (slots t1) l1)).
        { apply in_entries. exists m, c1. split; [|exact Hm]. apply (iv_live _ _ I1). exists k, v1, c1. exact Hm. }
        rewrite Hent1 in Hin. apply in_entries in Hin. destruct Hin as (m' & c' & _ & Hm').
        apply (Hnew m'). exists v1, c'. exact Hm'. }
      destruct (insert_noresize_spec t1 l1 k v c I1 ltac:(lia) Hnew1) as (t' & n & E & I' & Hent & Hsz & Hcnt & _).
      rewrite E. exists (l1 ++ [n]). split; [exact I'|]. split; [rewrite Hent, Hent1; reflexivity|lia].
    + split; [lia|]. unfold ns in R. destruct (tsize t >? INT_MAX / 2) eqn:E; [left; lia|].
      right. destruct R as [R|R]; [exact R|unfold INT_MAX in *; lia].
    + exact R.
  - destruct (insert_noresize_spec t l k v c I ltac:(lia) Hnew) as (t' & n & E & I' & Hent & Hsz & Hcnt & _).
    rewrite E. exists (l ++ [n]). auto.
Qed.

(* ---------------- json_object_object_add_ex ---------------- *)
Lemma add_ex_spec al fail1 t l k v is_new cst :
  InvL t l -> (is_new = true -> a_mem keq (entries (slots t) l) k = false) ->
  match obj_add_ex keq hash al fail1 t k v is_new cst with
  | IOk t' => exists l', InvL t' l' /\ entries (slots t') l' = a_add keq (entries (slots t) l) k v
  | IFail => a_mem keq (entries (slots t) l) k = false /\
             (fail1 = true \/ (66 * tsize t <= 100 * tcount t /\ (INT_MAX / 2 < tsize t \/ al (tsize t * 2) = false)))
  | IOut _ => False
  end.
Proof.
  intros I Hpre. unfold obj_add_ex.
  assert (Hins : forall al', (forall m, ~ key_at (slots t) m k) ->
            a_mem keq (entries (slots t) l) k = false /\
            match lh_table_insert_w_hash hash al' t k v cst with
            | IOk t' => exists l', InvL t' l' /\ entries (slots t') l' = a_add keq (entries (slots t) l) k v
            | IFail => 66 * tsize t <= 100 * tcount t /\ (INT_MAX / 2 < tsize t \/ al' (tsize t * 2) = false)
            | IOut _ => False
            end).
  { intros al' Hnew.
    assert (Hm : a_mem keq (entries (slots t) l) k = false).
    { destruct (a_mem keq (entries (slots t) l) k) eqn:E; [|reflexivity].
      apply (mem_spec t l k I) in E. destruct E as (n & Hn). exfalso. exact (Hnew n Hn). }
    split; [exact Hm|].
    pose proof (insert_spec al' t l k v cst I Hnew) as S.
    destruct (lh_table_insert_w_hash hash al' t k v cst); [|exact S|exact S].
    destruct S as (l' & I' & Hent & _). exists l'. split; [exact I'|].
    unfold a_add. rewrite Hm. exact Hent. }
  assert (Hnone : (forall m, ~ key_at (slots t) m k) ->
     match (if cst then lh_table_insert_w_hash hash (if fail1 then fun _ => false else al) t k v cst
            else if fail1 then IFail else lh_table_insert_w_hash hash al t k v cst) with
     | IOk t' => exists l', InvL t' l' /\ entries (slots t') l' = a_add keq (entries (slots t) l) k v
     | IFail => a_mem keq (entries (slots t) l) k = false /\
             (fail1 = true \/ (66 * tsize t <= 100 * tcount t /\ (INT_MAX / 2 < tsize t \/ al (tsize t * 2) = false)))
     | IOut _ => False
     end).
  { intros Hnew. destruct cst.
    - destruct fail1.
      + destruct (Hins (fun _ => false) Hnew) as [Hm S].
        destruct (lh_table_insert_w_hash hash (fun _ => false) t k v true); [exact S| |exact S]. auto.
      + destruct (Hins al Hnew) as [Hm S].
        destruct (lh_table_insert_w_hash hash al t k v true); [exact S| |exact S]. auto.
    - destruct fail1.
      + destruct (Hins al Hnew) as [Hm _]. auto.
      + destruct (Hins al Hnew) as [Hm S].
        destruct (lh_table_insert_w_hash hash al t k v false); [exact S| |exact S]. auto. }
  destruct is_new.
  - apply Hnone. intros m Hm. specialize (Hpre eq_refl).
    assert (a_mem keq (entries (slots t) l) k = true) by (apply (mem_spec t l k I); exists m; exact Hm). congruence.
  - pose proof (lookup_spec t l k I) as L.
    destruct (lh_table_lookup_entry keq hash t k) as [n|]; [|apply Hnone; exact L].
    destruct (set_val_inv t l n k v I L) as [I' (c & Fst)].
    exists l. split; [exact I'|].
    unfold a_add. replace (a_mem keq (entries (slots t) l) k) with true.
    2:{ symmetry. apply (mem_spec t l k I). exists n. exact L. }
    eapply entries_set_val; [exact (iv_keys _ _ I)|exact L|exact Fst].
Qed.

(* ---------------- lh_table_delete / json_object_object_del ---------------- *)
Lemma delete_spec t l k :
  InvL t l ->
  match lh_table_delete keq hash t k with
  | DOk t' => (exists n, key_at (slots t) n k) /\
              exists l', InvL t' l' /\ entries (slots t') l' = a_del keq (entries (slots t) l) k /\
                         tcount t' = tcount t - 1
  | DNone => (forall n, ~ key_at (slots t) n k) /\ a_del keq (entries (slots t) l) k = entries (slots t) l
  | DUB => False
  end.
Proof.
  intros I. unfold lh_table_delete. pose proof (lookup_spec t l k I) as L.
  destruct (lh_table_lookup_entry keq hash t k) as [n|].
  - assert (Hin : In n l) by (apply (iv_live _ _ I); eapply key_at_live; exact L).
    destruct (in_split _ _ Hin) as (l1 & l2 & ->).
    destruct (delete_entry_inv t l1 n l2 I) as (t' & E & I' & Fst). rewrite E.
    split; [exists n; exact L|]. exists (l1 ++ l2). split; [exact I'|].
    pose proof (iv_nodup _ _ I) as Hnd. destruct (NoDup_remove_mid _ _ _ Hnd) as [_ Hnn].
    assert (Hother : forall j, j <> n -> st (sget (slots t') j) = st (sget (slots t) j)).
    { intros j Hj. rewrite Fst. replace (j =? n) with false by lia. reflexivity. }
    split.
    + destruct L as (v & c & Hst).
      unfold a_del. rewrite !entries_app, entries_cons, !filter_app, (ent_kv_live _ _ _ _ _ Hst).
      cbn [filter fst]. rewrite keq_refl. cbn [negb app].
      f_equal; eapply entries_filter_other; try exact (iv_keys _ _ I); try exact Hother;
        try (exists v, c; exact Hst).
      * intros H. apply Hnn. apply in_or_app. left. exact H.
      * intros H. apply Hnn. apply in_or_app. right. exact H.
    + rewrite (iv_count _ _ I'), (iv_count _ _ I), !zlen_app. cbn [zlen]. lia.
  - split; [exact L|]. apply a_del_absent. intros n _. apply L.
Qed.

(* ---------------- deleting the current entry while iterating ---------------- *)
Lemma delete_bykey t l n k :
  InvL t l -> key_at (slots t) n k -> lh_table_delete keq hash t k = lh_table_delete_entry t n.
Proof.
  intros I Hn. unfold lh_table_delete. pose proof (lookup_spec t l k I) as L.
  destruct (lh_table_lookup_entry keq hash t k) as [m|].
  - rewrite (iv_keys _ _ I m n k L Hn). reflexivity.
  - exfalso. exact (L n Hn).
Qed.

Lemma foreach_del_null fuel bykey p t : foreach_del keq hash fuel bykey p t NULL = Some ([], t).
Proof. destruct fuel; reflexivity. Qed.

Lemma foreach_del_spec bykey p : forall rest kept t cur fuel,
  InvL t (kept ++ cur :: rest) -> (length rest < fuel)%nat ->
  exists t' l', foreach_del keq hash fuel bykey p t cur = Some (entries (slots t) (cur :: rest), t') /\
     InvL t' (kept ++ l') /\
     entries (slots t') l' = a_filter_out p (entries (slots t) (cur :: rest)) /\
     (forall x, In x kept -> st (sget (slots t') x) = st (sget (slots t) x)).
Proof.
  induction rest as [|y ys IH]; intros kept t cur fuel I Hf.
  - (* the last entry *)
    destruct fuel as [|f]; [cbn in Hf; lia|]. cbn [foreach_del].
    assert (Hin : In cur (kept ++ [cur])) by (apply in_or_app; right; left; reflexivity).
    pose proof (inv_range _ _ _ I Hin) as Hr. replace (cur <? 0) with false by lia.
    destruct (chain_mid _ _ _ _ _ _ _ (iv_chain _ _ I)) as [_ HX]. cbn [hdz] in HX. rewrite HX.
    destruct (proj1 (iv_live _ _ I cur) Hin) as (k & v & c & Hst). rewrite Hst.
    rewrite entries_cons, (ent_kv_live _ _ _ _ _ Hst). cbn [entries flat_map app].
    destruct (p k) eqn:Ep.
    + assert (Hdel : (if bykey then lh_table_delete keq hash t k else lh_table_delete_entry t cur)
                     = lh_table_delete_entry t cur).
      { destruct bykey; [|reflexivity]. eapply delete_bykey; [exact I|]. exists v, c. exact Hst. }
      rewrite Hdel. destruct (delete_entry_inv t kept cur [] I) as (t1 & E & I1 & Fst). rewrite E.
      rewrite foreach_del_null. exists t1, []. split; [reflexivity|]. split; [exact I1|].
      split; [unfold a_filter_out; cbn; rewrite Ep; reflexivity|].
      intros x Hx. rewrite Fst. replace (x =? cur) with false; [reflexivity|].
      symmetry. apply Z.eqb_neq. intros ->.
      pose proof (iv_nodup _ _ I) as Hnd. apply NoDup_remove_2 in Hnd. apply Hnd. rewrite app_nil_r. exact Hx.
    + rewrite foreach_del_null. exists t, [cur]. split; [reflexivity|]. split; [exact I|].
      split; [|reflexivity].
      rewrite entries_cons, (ent_kv_live _ _ _ _ _ Hst). unfold a_filter_out. cbn. rewrite Ep. reflexivity.
  - destruct fuel as [|f]; [cbn in Hf; lia|]. cbn [foreach_del]. cbn [length] in Hf.
    assert (Hin : In cur (kept ++ cur :: y :: ys)) by (apply in_or_app; right; left; reflexivity).
    pose proof (inv_range _ _ _ I Hin) as Hr. replace (cur <? 0) with false by lia.
    destruct (chain_mid _ _ _ _ _ _ _ (iv_chain _ _ I)) as [_ HX]. cbn [hdz] in HX. rewrite HX.
    destruct (proj1 (iv_live _ _ I cur) Hin) as (k & v & c & Hst). rewrite Hst.
    rewrite (entries_cons (slots t) cur), (ent_kv_live _ _ _ _ _ Hst). cbn [app].
    pose proof (iv_nodup _ _ I) as Hnd.
    destruct (p k) eqn:Ep.
    + assert (Hdel : (if bykey then lh_table_delete keq hash t k else lh_table_delete_entry t cur)
                     = lh_table_delete_entry t cur).
      { destruct bykey; [|reflexivity]. eapply delete_bykey; [exact I|]. exists v, c. exact Hst. }
      rewrite Hdel. destruct (delete_entry_inv t kept cur (y :: ys) I) as (t1 & E & I1 & Fst). rewrite E.
      destruct (IH kept t1 y f I1 ltac:(lia)) as (t' & l' & E' & I' & Hent & Hkept).
      assert (Hsame : forall x, x <> cur -> st (sget (slots t1) x) = st (sget (slots t) x)).
      { intros x Hx. rewrite Fst. replace (x =? cur) with false by lia. reflexivity. }
      assert (Hrest : entries (slots t1) (y :: ys) = entries (slots t) (y :: ys)).
      { apply entries_ext. intros x Hx. apply Hsame. intros ->.
        apply NoDup_remove_2 in Hnd. apply Hnd. apply in_or_app. right. exact Hx. }
      rewrite E', Hrest. exists t', l'. split; [reflexivity|]. split; [exact I'|].
      split.
      * rewrite Hent, Hrest. unfold a_filter_out. cbn [filter fst]. rewrite Ep. reflexivity.
      * intros x Hx. rewrite Hkept by exact Hx. apply Hsame. intros ->.
        apply NoDup_remove_2 in Hnd. apply Hnd. apply in_or_app. left. exact Hx.
    + assert (I2 : InvL t ((kept ++ [cur]) ++ y :: ys)) by (rewrite <- app_assoc; exact I).
      destruct (IH (kept ++ [cur]) t y f I2 ltac:(lia)) as (t' & l' & E' & I' & Hent & Hkept).
      rewrite E'. exists t', (cur :: l'). split; [reflexivity|].
      split; [rewrite <- app_assoc in I'; exact I'|]. split.
      * rewrite entries_cons. unfold ent_kv. rewrite Hkept by (apply in_or_app; right; left; reflexivity).
        rewrite Hst, Hent. unfold a_filter_out. cbn [filter fst app]. rewrite Ep. reflexivity.
      * intros x Hx. apply Hkept. apply in_or_app. left. exact Hx.
Qed.

Lemma foreach_spec bykey p t l :
  InvL t l ->
  exists t' l', obj_foreach_del keq hash bykey p t = Some (entries (slots t) l, t') /\
     InvL t' l' /\ entries (slots t') l' = a_filter_out p (entries (slots t) l).
Proof.
  intros I. unfold obj_foreach_del. destruct l as [|x xs].
  - destruct (inv_head_tail_nil _ I) as [-> _]. exists t, []. cbn [foreach_del]. cbn. auto.
  - destruct (inv_head_tail_cons _ _ _ I) as (-> & _).
    assert (Hf : (length xs < S (length (slots t)))%nat) by (pose proof (inv_length _ _ I); cbn in *; lia).
    destruct (foreach_del_spec bykey p xs [] t x _ I Hf) as (t' & l' & E & I' & Hent & _).
    exists t', l'. auto.
Qed.

(* ---------------- facts about the abstract list ---------------- *)
Lemma entries_length sl l : (forall x, In x l -> is_live sl x) -> zlen (entries sl l) = zlen l.
Proof.
  induction l as [|x xs IH]; intros H; [reflexivity|].
  rewrite entries_cons, zlen_app, IH by (intros y Hy; apply H; right; exact Hy).
  destruct (H x (or_introl eq_refl)) as (k & v & c & Hst). rewrite (ent_kv_live _ _ _ _ _ Hst). reflexivity.
Qed.

Lemma entries_keys_nodup sl l :
  NoDup l -> (forall i j k, key_at sl i k -> key_at sl j k -> i = j) -> NoDup (map fst (entries sl l)).
Proof.
  intros Hnd Hk. induction Hnd as [|x xs Hx Hnd IH]; [constructor|].
  rewrite entries_cons, map_app.
  destruct (ent_kv_cases sl x) as [(k & v & c & E & ->)|[_ ->]]; [|exact IH].
  cbn. constructor; [|exact IH].
  intros Hin. apply in_map_iff in Hin. destruct Hin as ([k' v'] & Hk' & Hin). cbn in Hk'. subst k'.
  apply in_entries in Hin. destruct Hin as (n & c' & Hn & Hst).
  assert (x = n) by (apply (Hk x n k); [exists v, c; exact E|exists v', c'; exact Hst]).
  subst n. contradiction.
Qed.

(* ==================== the theorems, on Inv and abs ==================== *)

Theorem inv_init al size :
  0 < size <= INT_MAX ->
  match lh_table_new al size with
  | IOk t => Inv t /\ abs t = [] /\ obj_length t = 0 /\ tsize t = size
  | IFail => al size = false
  | IOut _ => False
  end.
Proof.
  intros Hs. unfold LhModel.lh_table_new. replace (size <=? 0) with false by lia.
  destruct (al size); [|reflexivity].
  pose proof (table_new_inv size Hs) as I. split; [exists []; exact I|].
  rewrite (abs_inv _ _ I). auto.
Qed.

Theorem lookup_refines t k : Inv t -> obj_get_ex keq hash t k = a_lookup keq (abs t) k.
Proof. intros (l & I). rewrite (abs_inv _ _ I). apply get_ex_spec. exact I. Qed.

Theorem length_refines t : Inv t -> obj_length t = zlen (abs t) /\ 0 <= obj_length t <= tsize t.
Proof.
  intros (l & I). rewrite (abs_inv _ _ I). split; [|exact (inv_count_le _ _ I)].
  rewrite entries_length by (intros x Hx; apply (iv_live _ _ I); exact Hx).
  exact (iv_count _ _ I).
Qed.

Theorem insert_refines al fail1 t k v is_new cst :
  Inv t -> (is_new = true -> a_mem keq (abs t) k = false) ->
  match obj_add_ex keq hash al fail1 t k v is_new cst with
  | IOk t' => Inv t' /\ abs t' = a_add keq (abs t) k v
  | IFail => a_mem keq (abs t) k = false /\
             (fail1 = true \/ (66 * tsize t <= 100 * tcount t /\ (INT_MAX / 2 < tsize t \/ al (tsize t * 2) = false)))
  | IOut _ => False
  end.
Proof.
  intros (l & I). rewrite (abs_inv _ _ I). intros Hpre.
  pose proof (add_ex_spec al fail1 t l k v is_new cst I Hpre) as S.
  destruct (obj_add_ex keq hash al fail1 t k v is_new cst) as [t'| |why]; [|exact S|exact S].
  destruct S as (l' & I' & Hent). split; [exists l'; exact I'|]. rewrite (abs_inv _ _ I'). exact Hent.
Qed.

(* a plain lh_table_insert_w_hash of an absent key appends *)
Theorem raw_insert_refines al t k v c :
  Inv t -> a_mem keq (abs t) k = false ->
  match lh_table_insert_w_hash hash al t k v c with
  | IOk t' => Inv t' /\ abs t' = abs t ++ [(k, v)]
  | IFail => 66 * tsize t <= 100 * tcount t /\ (INT_MAX / 2 < tsize t \/ al (tsize t * 2) = false)
  | IOut _ => False
  end.
Proof.
  intros (l & I). rewrite (abs_inv _ _ I). intros Hm.
  assert (Hnew : forall m, ~ key_at (slots t) m k).
  { intros m Hk. assert (a_mem keq (entries (slots t) l) k = true) by (apply (mem_spec t l k I); exists m; exact Hk).
    congruence. }
  pose proof (insert_spec al t l k v c I Hnew) as S.
  destruct (lh_table_insert_w_hash hash al t k v c) as [t'| |why]; [|exact S|exact S].
  destruct S as (l' & I' & Hent & _). split; [exists l'; exact I'|]. rewrite (abs_inv _ _ I'). exact Hent.
Qed.

Theorem delete_refines t k :
  Inv t ->
  match lh_table_delete keq hash t k with
  | DOk t' => a_mem keq (abs t) k = true /\ Inv t' /\ abs t' = a_del keq (abs t) k
  | DNone => a_mem keq (abs t) k = false /\ a_del keq (abs t) k = abs t
  | DUB => False
  end.
Proof.
  intros (l & I). rewrite (abs_inv _ _ I). pose proof (delete_spec t l k I) as S.
  destruct (lh_table_delete keq hash t k) as [t'| |]; [| |exact S].
  - destruct S as (Hk & l' & I' & Hent & _). split; [apply (mem_spec t l k I); exact Hk|].
    split; [exists l'; exact I'|]. rewrite (abs_inv _ _ I'). exact Hent.
  - destruct S as [Hk Hd]. split; [|exact Hd].
    destruct (a_mem keq (entries (slots t) l) k) eqn:E; [|reflexivity].
    apply (mem_spec t l k I) in E. destruct E as (n & Hn). exfalso. exact (Hk n Hn).
Qed.

Theorem obj_del_refines t k :
  Inv t -> exists t', obj_del keq hash t k = Some t' /\ Inv t' /\ abs t' = a_del keq (abs t) k.
Proof.
  intros HI. pose proof (delete_refines t k HI) as S. unfold obj_del.
  destruct (lh_table_delete keq hash t k) as [t'| |]; [| |contradiction].
  - exists t'. tauto.
  - exists t. destruct S as [_ ->]. auto.
Qed.

Theorem resize_preserves al t new_size :
  Inv t -> 0 < new_size <= INT_MAX ->
  (100 * (tcount t - 1) < 66 * new_size \/ new_size = INT_MAX) ->
  match lh_table_resize hash al t new_size with
  | IOk t' => Inv t' /\ abs t' = abs t /\ tsize t' = new_size /\ obj_length t' = obj_length t
  | IFail => al new_size = false \/ new_size = INT_MAX
  | IOut _ => False
  end.
Proof.
  intros (l & I) Hn Hload. rewrite (abs_inv _ _ I). pose proof (resize_spec al t l new_size I Hn Hload) as S.
  destruct (lh_table_resize hash al t new_size) as [t'| |why]; [|exact S|exact S].
  destruct S as (l' & I' & Hent & Hsz & Hcnt). split; [exists l'; exact I'|]. rewrite (abs_inv _ _ I'). auto.
Qed.

(* every traversal: the chain from head follows next until NULL within any fuel that
   covers the count, visits only live slots, each live slot (hence each key) exactly
   once; the backward chain is its mirror image *)
Theorem iteration_order t :
  Inv t ->
  obj_iter t = abs t /\
  NoDup (lh_walk t) /\
  (forall n, In n (lh_walk t) <-> is_live (slots t) n) /\
  (forall fuel, (length (lh_walk t) <= fuel)%nat -> walk fuel (slots t) (thead t) = lh_walk t) /\
  lh_walk_back t = rev (lh_walk t) /\
  NoDup (map fst (abs t)) /\
  (forall k v, In (k, v) (abs t) <-> exists n c, st (sget (slots t) n) = Live k v c) /\
  zlen (lh_walk t) = obj_length t.
Proof.
  intros (l & I). rewrite (abs_inv _ _ I), (inv_walk_back _ _ I), (inv_walk _ _ I).
  split; [unfold obj_iter; rewrite (inv_walk _ _ I); reflexivity|].
  split; [exact (iv_nodup _ _ I)|]. split; [exact (iv_live _ _ I)|].
  split.
  { intros fuel Hf. eapply chain_walk; [exact (iv_chain _ _ I)| |exact Hf].
    intros x Hx. pose proof (inv_range _ _ _ I Hx). lia. }
  split; [reflexivity|].
  split; [apply entries_keys_nodup; [exact (iv_nodup _ _ I)|exact (iv_keys _ _ I)]|].
  split; [|symmetry; exact (iv_count _ _ I)].
  intros k v. rewrite in_entries. split.
  - intros (n & c & _ & H). eauto.
  - intros (n & c & H). exists n, c. split; [|exact H]. apply (iv_live _ _ I). exists k, v, c. exact H.
Qed.

Theorem foreach_delete_current bykey p t :
  Inv t ->
  exists t', obj_foreach_del keq hash bykey p t = Some (abs t, t') /\ Inv t' /\ abs t' = a_filter_out p (abs t).
Proof.
  intros (l & I). rewrite (abs_inv _ _ I).
  destruct (foreach_spec bykey p t l I) as (t' & l' & E & I' & Hent).
  exists t'. split; [exact E|]. split; [exists l'; exact I'|]. rewrite (abs_inv _ _ I'). exact Hent.
Qed.

(* ---------------- histories ---------------- *)
Theorem step_refines al t o :
  Inv t -> op_pre keq (abs t) o ->
  exists t' b, obj_step keq hash al t o = Some (t', b) /\ Inv t' /\ abs t' = spec_step keq (abs t) o b.
Proof.
  intros HI Hpre. destruct o as [k v is_new cst fail1|k is_new cst|k|k|bykey p]; cbn [obj_step spec_step].
  - assert (Hp : is_new = true -> a_mem keq (abs t) k = false).
    { intros ->. exact Hpre. }
    pose proof (insert_refines al fail1 t k v is_new cst HI Hp) as S.
    destruct (obj_add_ex keq hash al fail1 t k v is_new cst) as [t'| |why]; [| |contradiction].
    + exists t', true. tauto.
    + exists t, false. auto.
  - exists t, false. unfold obj_add_self.
    destruct (if is_new then None else lh_table_lookup_entry keq hash t k); auto.
  - destruct (obj_del_refines t k HI) as (t' & -> & HI' & Ha). exists t', true. auto.
  - exists t, true. auto.
  - destruct (foreach_delete_current bykey p t HI) as (t' & -> & HI' & Ha). exists t', true. auto.
Qed.

(* refused operations are refused in every state and change NOTHING (the table itself is
   returned, not merely an equivalent one): self-insertion whatever the key's presence, the
   flags and the fill level; deletion of an absent key; lookups *)
Definition refused (m : amap) (o : op key val) : Prop :=
  match o with
  | OAddSelf _ _ _ => True
  | ODel k => a_mem keq m k = false
  | OGet _ => True
  | _ => False
  end.

Theorem refused_unchanged al t o :
  Inv t -> refused (abs t) o ->
  exists b, obj_step keq hash al t o = Some (t, b) /\
            match o with OAddSelf _ _ _ => b = false | _ => True end.
Proof.
  intros HI Hr. destruct o as [k v is_new cst fail1|k is_new cst|k|k|bykey p]; cbn [refused obj_step] in *;
    try contradiction.
  - exists false. unfold obj_add_self.
    destruct (if is_new then None else lh_table_lookup_entry keq hash t k); auto.
  - exists true. split; [|exact I]. unfold obj_del.
    pose proof (delete_refines t k HI) as S.
    destruct (lh_table_delete keq hash t k) as [t'| |]; [|reflexivity|contradiction].
    destruct S as (Hm & _). congruence.
  - exists true. auto.
Qed.

Theorem run_refines al ops : forall t,
  Inv t -> adm_run keq hash al t ops ->
  exists q oks, obj_run keq hash al t ops = Some (q, oks) /\ Inv q /\
                abs q = spec_run keq (abs t) ops oks /\ length oks = length ops.
Proof.
  induction ops as [|o os IH]; intros t HI Hadm.
  - exists t, []. cbn. auto.
  - cbn [adm_run] in Hadm. destruct Hadm as [Hpre Hadm]. fold (abs t) in Hpre.
    destruct (step_refines al t o HI Hpre) as (t' & b & E & HI' & Ha).
    cbn [obj_run]. rewrite E in *.
    destruct (IH t' HI' Hadm) as (q & oks & -> & HIq & Hq & Hlen).
    exists q, (b :: oks). cbn [spec_run length]. rewrite <- Ha. auto.
Qed.

(* from lh_table_new, any size, any history: what the object answers is what the
   association list answers *)
Theorem history_from_new al size ops :
  0 < size <= INT_MAX -> adm_run keq hash al (table_new size) ops ->
  exists q oks, obj_run keq hash al (table_new size) ops = Some (q, oks) /\ Inv q /\
    let m := spec_run keq [] ops oks in
    abs q = m /\ obj_iter q = m /\ obj_length q = zlen m /\
    (forall k, obj_get_ex keq hash q k = a_lookup keq m k) /\
    NoDup (map fst m) /\ lh_walk_back q = rev (lh_walk q).
Proof.
  intros Hs Hadm. pose proof (table_new_inv size Hs) as I0.
  assert (HI0 : Inv (table_new size)) by (exists []; exact I0).
  destruct (run_refines al ops _ HI0 Hadm) as (q & oks & E & HIq & Hq & _).
  rewrite (abs_inv _ _ I0) in Hq. cbn [entries flat_map] in Hq.
  exists q, oks. split; [exact E|]. split; [exact HIq|]. cbv zeta. rewrite <- Hq.
  destruct (iteration_order q HIq) as (H1 & _ & _ & _ & H5 & H6 & _).
  split; [reflexivity|]. split; [exact H1|]. split; [apply length_refines; exact HIq|].
  split; [intros k; apply lookup_refines; exact HIq|]. auto.
Qed.

End LhProofs.

(* ---------------- non-vacuity ---------------- *)
(* every key hashes to 7 (all collide), initial size 1, growth refused beyond 4 slots:
   append, replace in place, delete + re-add (moves to the end), KEY_IS_NEW,
   CONSTANT_KEY, delete-while-iterating, a refused key copy, a refused growth *)
Definition ex_ops : list (op Z Z) :=
  [OAdd 1 10 false false false; OAdd 2 20 false false false; OAdd 3 30 true false false;
   OAdd 2 21 false false false; ODel 1; OAdd 1 11 false true false;
   OForeachDel true (fun k => k =? 3); OGet 5; OAdd 9 90 false false true;
   OAdd 4 40 false false false; OAdd 5 50 false false false].

Example ex_admissible :
  adm_run Z.eqb (fun _ => 7) (fun n => n <=? 4) (table_new Z Z 1) ex_ops.
Proof. vm_compute. repeat split. Qed.

Example ex_history :
  exists q oks, obj_run Z.eqb (fun _ => 7) (fun n => n <=? 4) (table_new Z Z 1) ex_ops = Some (q, oks) /\
    obj_iter q = [(2, 21); (1, 11); (4, 40)] /\ obj_length q = 3 /\ tsize q = 4 /\
    oks = [true; true; true; true; true; true; true; true; false; true; false] /\
    spec_run Z.eqb [] ex_ops oks = [(2, 21); (1, 11); (4, 40)].
Proof. eexists _, _. vm_compute. repeat split. Qed.

(* the general theorem instantiated: its hypotheses are satisfiable *)
Example ex_theorem_applies :
  exists q oks, obj_run Z.eqb (fun _ => 7) (fun n => n <=? 4) (table_new Z Z 1) ex_ops = Some (q, oks) /\
    Inv (fun _ => 7) q /\ abs q = spec_run Z.eqb [] ex_ops oks.
Proof.
  destruct (history_from_new Z.eqb (fun _ => 7) Z.eqb_eq (fun n => n <=? 4) 1 ex_ops
              ltac:(unfold INT_MAX; lia) ex_admissible) as (q & oks & E & HI & Ha & _).
  exists q, oks. auto.
Qed.

(* the load-factor boundary at a size where 66*size/100 is an integer: growth at 33 of 50 *)
Example ex_load_boundary :
  load_test 32 50 = false /\ load_test 33 50 = true /\
  load_test 1417339207 2147483647 = false /\ load_test 1417339208 2147483647 = true.
Proof. vm_compute. repeat split. Qed.

(* a shrinking rehash (8 -> 5 slots, three colliding keys, one tombstone) keeps pairs and order *)
Example ex_resize :
  exists t q, obj_run Z.eqb (fun _ => 7) (fun _ => true) (table_new Z Z 8)
                [OAdd 1 10 false false false; OAdd 2 20 false false false; OAdd 3 30 false false false;
                 OAdd 4 40 false false false; ODel 2] = Some (t, [true; true; true; true; true]) /\
    lh_table_resize (fun _ => 7) (fun _ => true) t 5 = IOk q /\
    obj_iter t = [(1, 10); (3, 30); (4, 40)] /\ obj_iter q = [(1, 10); (3, 30); (4, 40)] /\
    tsize q = 5 /\ lh_walk t = [7; 1; 2] /\ lh_walk q = [2; 3; 4] /\ lh_walk_back q = [4; 3; 2].
Proof. eexists _, _. vm_compute. repeat split. Qed.

(* ==================== several objects, changing global hash selection ==================== *)
Section LhWorldProofs.
Context {key val : Type}.
Variable keq : key -> key -> bool.
Variable hashes : Z -> key -> Z.
Hypothesis keq_spec : forall a b, keq a b = true <-> a = b.

(* every object keeps the invariant FOR THE HASH FUNCTION IT WAS CREATED WITH *)
Definition WInv (w : world key val) : Prop :=
  Forall (fun ob => Inv (hashes (o_sel ob)) (o_tab ob)) (objs w).

Lemma map_lupd {A B} (f : A -> B) l i x : map f (lupd l i x) = lupd (map f l) i (f x).
Proof. revert i. induction l as [|a l IH]; intros [|i]; cbn; try reflexivity. rewrite IH. reflexivity. Qed.

Lemma Forall_lupd {A} (P : A -> Prop) l i x : Forall P l -> P x -> Forall P (lupd l i x).
Proof.
  intros H Hx. revert i. induction H as [|a l Ha Hl IH]; intros [|i]; cbn; constructor; auto.
Qed.

Theorem gstep_refines al (w : world key val) g :
  WInv w -> gop_pre keq w g ->
  exists w' b, gstep keq hashes al w g = Some (w', b) /\ WInv w' /\
               world_abs w' = gspec_step keq (world_abs w) g b.
Proof.
  intros HW Hpre. destruct g as [h|size|i o]; cbn [gstep gspec_step gop_pre] in *.
  - unfold set_string_hash. destruct ((h =? 0) || (h =? 1)); eexists _, _; (split; [reflexivity|]); auto.
  - eexists _, _. split; [reflexivity|]. split.
    + unfold WInv. cbn [objs]. apply Forall_app. split; [exact HW|]. constructor; [|constructor].
      cbn [o_sel o_tab]. exists []. apply table_new_inv. exact Hpre.
    + unfold world_abs. cbn [objs]. rewrite map_app. cbn [map o_tab]. do 2 f_equal.
      change (obj_iter (table_new key val size)) with (abs (table_new key val size)).
      rewrite (abs_inv (hashes (g_sel w)) _ _ (table_new_inv (hashes (g_sel w)) size Hpre)). reflexivity.
  - destruct Hpre as (ob & Hnth & Hop). rewrite Hnth.
    assert (HI : Inv (hashes (o_sel ob)) (o_tab ob)).
    { unfold WInv in HW. rewrite Forall_forall in HW. apply HW. eapply nth_error_In. exact Hnth. }
    destruct (step_refines keq (hashes (o_sel ob)) keq_spec al (o_tab ob) o HI Hop) as (t' & b & E & HI' & Ha).
    rewrite E. eexists _, _. split; [reflexivity|]. split.
    + unfold WInv. cbn [objs]. apply Forall_lupd; [exact HW|exact HI'].
    + unfold world_abs. cbn [objs]. rewrite map_lupd.
      erewrite map_nth_error by exact Hnth. cbn [o_tab]. f_equal. exact Ha.
Qed.

(* all histories over several objects, interleaved with json_global_set_string_hash:
   each object is the association list of ITS operations; the selection is invisible *)
Theorem grun_refines al gs : forall (w : world key val),
  WInv w -> gadm_run keq hashes al w gs ->
  exists w' oks, grun keq hashes al w gs = Some (w', oks) /\ WInv w' /\
                 world_abs w' = gspec_run keq (world_abs w) gs oks /\ length oks = length gs.
Proof.
  induction gs as [|g r IH]; intros w HW Hadm.
  - exists w, []. cbn. auto.
  - cbn [gadm_run] in Hadm. destruct Hadm as [Hpre Hadm].
    destruct (gstep_refines al w g HW Hpre) as (w1 & b & E & HW1 & Ha).
    cbn [grun]. rewrite E in *.
    destruct (IH w1 HW1 Hadm) as (w' & oks & -> & HW' & Hq & Hlen).
    exists w', (b :: oks). cbn [gspec_run length]. rewrite <- Ha. auto.
Qed.

End LhWorldProofs.

(* two objects created under different selections, the selection changed while both hold
   members (and once to an invalid value): both keep answering as their lists *)
Definition ex_gops : list (gop Z Z) :=
  [GNew 2; GOp 0 (OAdd 1 10 false false false); GOp 0 (OAdd 2 20 false false false);
   GSetHash 1; GOp 0 (OAdd 1 11 false false false); GNew 1; GOp 1 (OAdd 2 5 false false false);
   GSetHash 7; GOp 0 (ODel 2); GSetHash 0; GOp 1 (OAdd 1 6 false false false); GOp 0 (OAdd 3 30 false false false);
   GOp 1 (OAdd 2 7 false false false)].

Example ex_world :
  let hs := fun s k => if s =? 0 then k else 3 * k + 1 in
  exists w oks, grun Z.eqb hs (fun _ => true) (world0 Z Z) ex_gops = Some (w, oks) /\
    world_abs w = [[(1, 11); (3, 30)]; [(2, 7); (1, 6)]] /\ map o_sel (objs w) = [0; 1] /\ g_sel w = 0 /\
    oks = [true; true; true; true; true; true; true; false; true; true; true; true; true] /\
    gspec_run Z.eqb [] ex_gops oks = [[(1, 11); (3, 30)]; [(2, 7); (1, 6)]].
Proof. eexists _, _. vm_compute. repeat split. Qed.

(* refusals at a growth threshold (2 of 2 slots used: the next insertion would double the
   table): self-insertion under a present key, under an absent key with both flags, deletion
   of an absent key - the very same table comes back *)
Example ex_refused :
  exists t, obj_run Z.eqb (fun _ => 7) (fun _ => true) (table_new Z Z 1)
              [OAdd 1 10 false false false; OAdd 2 20 false false false] = Some (t, [true; true]) /\
    tsize t = 2 /\ obj_length t = 2 /\
    obj_step Z.eqb (fun _ => 7) (fun _ => true) t (OAddSelf 1 false false) = Some (t, false) /\
    obj_step Z.eqb (fun _ => 7) (fun _ => true) t (OAddSelf 9 true true) = Some (t, false) /\
    obj_step Z.eqb (fun _ => 7) (fun _ => true) t (ODel 9) = Some (t, true).
Proof. eexists. vm_compute. repeat split. Qed.
