(* NumModel.v — the numeric accessors and mutators of json_object.c and the two parsing
   helpers of json_util.c, as written (C10).  No proofs here.

   Conventions of this file
   * A C integer is a [Z]; every C width the property is about is explicit.
   * A C double is its IEEE-754 binary64 bit pattern ([Z] in [0, 2^64)); [decode] turns it into
     [DNaN | DInf sign | DFin sign m e] (value (-1)^sign * m * 2^e) and every comparison with an
     integer constant and every truncation is exact [Z] arithmetic.
   * Every C operation that can be undefined returns an explicit [UB]/[None]: a double -> integer
     cast whose truncated value is outside the target type (including NaN and infinities),
     signed overflow of [+], [-] and unary minus on int64_t, a read of an unwritten local.
   * errno is the enum of Base.v; the accessors take the value errno has before the call and
     return the value it has after it (the drivers clear it before every call).
   * libc strtod is an oracle ARGUMENT of [get_double]; strtoll/strtoull are modelled exactly
     on byte strings (a 0 byte is not a digit, so a C string ends there by itself).
   * EVERY GUARD OF THE C CODE THAT A REPAIR MAY TOUCH IS ITS OWN SMALL DEFINITION (section
     "guards"), so that a one-line repair in C is a one-line change here. *)
From JC Require Import Base Value.
Local Open Scope Z_scope.

Definition TWO52 : Z := 4503599627370496.
Definition TWO53 : Z := 9007199254740992.
Definition TWO63 : Z := 9223372036854775808.
Definition TWO64 : Z := 18446744073709551616.

(* ------------------------------------------------------------------ doubles *)

Inductive dval :=
| DNaN
| DInf (neg : bool)
| DFin (neg : bool) (m : Z) (e : Z).          (* (-1)^neg * m * 2^e, 0 <= m < 2^53 *)

Definition decode (bits : Z) : dval :=
  let s := TWO63 <=? bits in
  let ex := (bits / TWO52) mod 2048 in
  let fr := bits mod TWO52 in
  if ex =? 2047 then (if fr =? 0 then DInf s else DNaN)
  else if ex =? 0 then DFin s fr (-1074)
  else DFin s (fr + TWO52) (ex - 1075).

(* exact truncation toward zero of m * 2^e *)
Definition dmag_trunc (m e : Z) : Z := if 0 <=? e then m * 2 ^ e else m / 2 ^ (- e).

Definition dtrunc (d : dval) : option Z :=
  match d with
  | DFin s m e => Some (if s then - dmag_trunc m e else dmag_trunc m e)
  | _ => None
  end.

(* exact comparison of the finite double (-1)^s * m * 2^e with the integer c *)
Definition dcmp_fin (s : bool) (m e c : Z) : comparison :=
  let n := if s then - m else m in
  if 0 <=? e then (n * 2 ^ e ?= c) else (n ?= c * 2 ^ (- e)).

(* C: d < c, d > c, d >= c, d <= c for an integer c that converts exactly to double.
   Every comparison with NaN is false. *)
Definition dlt (d : dval) (c : Z) : bool :=
  match d with DNaN => false | DInf s => s
  | DFin s m e => match dcmp_fin s m e c with Lt => true | _ => false end end.
Definition dgt (d : dval) (c : Z) : bool :=
  match d with DNaN => false | DInf s => negb s
  | DFin s m e => match dcmp_fin s m e c with Gt => true | _ => false end end.
Definition dge (d : dval) (c : Z) : bool :=
  match d with DNaN => false | DInf s => negb s
  | DFin s m e => match dcmp_fin s m e c with Lt => false | _ => true end end.
Definition dle (d : dval) (c : Z) : bool :=
  match d with DNaN => false | DInf s => s
  | DFin s m e => match dcmp_fin s m e c with Gt => false | _ => true end end.
(* C: d != 0  (true for NaN) *)
Definition dne0 (d : dval) : bool :=
  match d with DFin _ m _ => negb (m =? 0) | _ => true end.
Definition disnan (d : dval) : bool := match d with DNaN => true | _ => false end.
Definition disinf (d : dval) : bool := match d with DInf _ => true | _ => false end.

(* C: (T)d for an integer type T = [lo, hi]: undefined unless trunc(d) is in T *)
Definition cast_dbl (lo hi : Z) (d : dval) : option Z :=
  match dtrunc d with
  | Some t => if (lo <=? t) && (t <=? hi) then Some t else None
  | None => None
  end.

(* C: (double)z for an int64_t / uint64_t z — round to nearest, ties to even (the default
   rounding mode); returns the bit pattern.  |z| < 2^64, so the exponent never overflows. *)
Definition z_to_b64 (z : Z) : Z :=
  if z =? 0 then 0 else
  let sb := if z <? 0 then TWO63 else 0 in
  let a := Z.abs z in
  let k := Z.log2 a in                                   (* 2^k <= a < 2^(k+1) *)
  if k <=? 52 then sb + (k + 1023) * TWO52 + (a * 2 ^ (52 - k) - TWO52)
  else
    let sh := k - 52 in
    let q := a / 2 ^ sh in
    let r := a mod 2 ^ sh in
    let half := 2 ^ (sh - 1) in
    let q' := if (half <? r) || ((r =? half) && Z.odd q) then q + 1 else q in
    (* q' = 2^53 carries into the exponent field by plain addition *)
    sb + (k + 1023) * TWO52 + (q' - TWO52).

(* ------------------------------------------------------------------ results *)

Inductive res (A : Type) :=
| Ret (v : A) (e : errno)          (* returned value, errno after the call *)
| UB.                              (* undefined behaviour reached *)
Arguments Ret {A} v e.
Arguments UB {A}.

Definition errno_is0 (e : errno) : bool := match e with E_NONE => true | _ => false end.
Definition b2z (b : bool) : Z := if b then 1 else 0.

(* int64_t arithmetic: undefined on overflow *)
Definition in_i64 (z : Z) : bool := (INT64_MIN <=? z) && (z <=? INT64_MAX).
Definition add_i64 (a b : Z) : option Z := if in_i64 (a + b) then Some (a + b) else None.
Definition sub_i64 (a b : Z) : option Z := if in_i64 (a - b) then Some (a - b) else None.
Definition neg_i64 (a : Z) : option Z := if in_i64 (- a) then Some (- a) else None.
(* (uint64_t)x for an int64_t x; (int64_t)u for a uint64_t u (gcc: modular, not undefined) *)
Definition to_u64 (x : Z) : Z := x mod TWO64.
Definition u64_to_i64 (u : Z) : Z := if u <=? INT64_MAX then u else u - TWO64.

(* ------------------------------------------------------------------ strtoll / strtoull *)

Definition is_space (c : byte) : bool := (c =? 32) || ((9 <=? c) && (c <=? 13)).
Definition is_digit (c : byte) : bool := (48 <=? c) && (c <=? 57).

(* isspace() run: the rest and the number of bytes skipped *)
Fixpoint skip_space (s : list byte) : list byte * Z :=
  match s with
  | c :: t => if is_space c then let '(r, n) := skip_space t in (r, n + 1) else (s, 0)
  | [] => ([], 0)
  end.

(* decimal digit run: exact value (no width), number of digits *)
Fixpoint scan_digits (s : list byte) (acc n : Z) : Z * Z :=
  match s with
  | c :: t => if is_digit c then scan_digits t (acc * 10 + (c - 48)) (n + 1) else (acc, n)
  | [] => (acc, n)
  end.

(* optional sign: (negative?, rest, bytes consumed) *)
Definition scan_sign (s : list byte) : bool * list byte * Z :=
  match s with
  | c :: t => if c =? 45 then (true, t, 1) else if c =? 43 then (false, t, 1) else (false, s, 0)
  | [] => (false, s, 0)
  end.

Definition hd_is (c : byte) (s : list byte) : bool :=
  match s with x :: _ => x =? c | [] => false end.

(* strtoll(buf, &end, 10) = (value, end - buf, errno := ERANGE ?).  glibc consumes all digits
   also when the value saturates; no digits: value 0, end = buf, errno untouched. *)
Definition strtoll (s : list byte) : Z * Z * bool :=
  let '(s1, nws) := skip_space s in
  let '(neg, s2, nsg) := scan_sign s1 in
  let '(mag, nd) := scan_digits s2 0 0 in
  if nd =? 0 then (0, 0, false)
  else
    let v := if neg then - mag else mag in
    if INT64_MAX <? v then (INT64_MAX, nws + nsg + nd, true)
    else if v <? INT64_MIN then (INT64_MIN, nws + nsg + nd, true)
    else (v, nws + nsg + nd, false).

(* strtoull(buf, &end, 10): a '-' negates the converted value in uint64 arithmetic; only a
   magnitude above UINT64_MAX saturates (with ERANGE), whatever the sign *)
Definition strtoull (s : list byte) : Z * Z * bool :=
  let '(s1, nws) := skip_space s in
  let '(neg, s2, nsg) := scan_sign s1 in
  let '(mag, nd) := scan_digits s2 0 0 in
  if nd =? 0 then (0, 0, false)
  else if UINT64_MAX <? mag then (UINT64_MAX, nws + nsg + nd, true)
  else ((if neg then to_u64 (- mag) else mag), nws + nsg + nd, false).

(* ------------------------------------------------------------------ guards
   One definition per condition of the C code that a repair may touch.  The comment gives the
   C text.  (Five of them were changed together with the C10 `fix:` commits in /repo.) *)

(* (double)INT64_MAX and (double)UINT64_MAX round UP to 2^63 and 2^64 *)
Definition DBL_INT64_MAX : Z := TWO63.
Definition DBL_INT64_MIN : Z := - TWO63.
Definition DBL_UINT64_MAX : Z := TWO64.

(* json_object_get_int, case json_type_double *)
Definition gi_dbl_lo (d : dval) : bool := dlt d INT32_MIN.       (* cdouble < INT32_MIN *)
Definition gi_dbl_hi (d : dval) : bool := dgt d INT32_MAX.       (* cdouble > INT32_MAX *)
(* json_object_get_int, uint64 node *)
Definition gi_uint_sat (u : Z) : bool := u >=? INT64_MAX.        (* c_uint64 >= INT64_MAX *)

(* json_object_get_int64, case json_type_double *)
Definition gl_dbl_hi (d : dval) : bool := dge d DBL_INT64_MAX.   (* c_double >= (double)INT64_MAX *)
Definition gl_dbl_lo (d : dval) : bool := dlt d DBL_INT64_MIN.   (* c_double < (double)INT64_MIN *)
(* json_object_get_int64, uint64 node *)
Definition gl_uint_sat (u : Z) : bool := u >? INT64_MAX.         (* c_uint64 > INT64_MAX *)

(* json_object_get_uint64, case json_type_double *)
Definition gu_dbl_hi (d : dval) : bool := dge d DBL_UINT64_MAX.  (* c_double >= (double)UINT64_MAX *)
Definition gu_dbl_lo (d : dval) : bool := dlt d 0.               (* c_double < 0 *)
(* json_object_get_uint64, int64 node *)
Definition gu_int_neg (z : Z) : bool := z <? 0.                  (* c_int64 < 0 *)

(* json_object_int_inc, uint64 node: the magnitude of a negative increment,
   C: -(uint64_t)val — negated in uint64_t, defined for every val (INT64_MIN included).
   (Kept as an option: an int64_t negation here, as the code had before, would be [neg_i64].) *)
Definition inc_neg_mag (val : Z) : option Z := Some (to_u64 (- to_u64 val)).

(* json_parse_uint64: the hand-written prefix before strtoull.
   C: while (isspace((unsigned char)buf[0])) buf++; *)
Definition pu_skip (s : list byte) : list byte := fst (skip_space s).
(* C: if (buf[0] == '-') { errno = EINVAL; return 1; } *)
Definition pu_minus_errno : errno := EINVAL.

(* ------------------------------------------------------------------ json_util.c *)

(* json_parse_int64(buf, &retval) = (return value, value written to *retval if any, errno) *)
Definition json_parse_int64 (s : list byte) : Z * option Z * errno :=
  let '(val, n, er) := strtoll s in                       (* errno = 0; val = strtoll(buf, &end, 10); *)
  let e := if er then ERANGE else E_NONE in
  let out := if n =? 0 then None else Some val in         (* if (end != buf) *retval = val; *)
  if ((val =? 0) && negb (errno_is0 e)) || (n =? 0)       (* if ((val == 0 && errno != 0) || (end == buf)) *)
  then (1, out, EINVAL)
  else (0, out, e).

Definition json_parse_uint64 (s : list byte) : Z * option Z * errno :=
  let s' := pu_skip s in                                  (* errno = 0; while (isspace(buf[0])) buf++; *)
  if hd_is 45 s' then (1, None, pu_minus_errno)           (* if (buf[0] == '-') { errno = EINVAL; return 1; } *)
  else
    let '(val, n, er) := strtoull s' in
    let e := if er then ERANGE else E_NONE in
    let out := if n =? 0 then None else Some val in
    if ((val =? 0) && negb (errno_is0 e)) || (n =? 0)
    then (1, out, EINVAL)
    else (0, out, e).

(* ------------------------------------------------------------------ accessors *)

(* json_object_get_boolean — does not touch errno *)
Definition get_boolean (e0 : errno) (o : jv) : res Z :=
  match o with
  | JNull => Ret 0 e0
  | JBool b => Ret (b2z b) e0
  | JInt z => Ret (b2z (negb (z =? 0))) e0
  | JUint u => Ret (b2z (negb (u =? 0))) e0
  | JDouble bits _ => Ret (b2z (dne0 (decode bits))) e0
  | JStr s => Ret (b2z (negb (zlen s =? 0))) e0               (* len != 0, the stored length *)
  | _ => Ret 0 e0
  end.

(* the 64 -> 32 bit tail of json_object_get_int *)
Definition int32_tail (e : errno) (c : Z) : res Z :=
  if c <? INT32_MIN then Ret INT32_MIN ERANGE
  else if c >? INT32_MAX then Ret INT32_MAX ERANGE
  else Ret c e.

(* json_object_get_int *)
Definition get_int (e0 : errno) (o : jv) : res Z :=
  let e := E_NONE in                                           (* errno = 0; *)
  match o with
  | JNull => Ret 0 e
  | JInt z => int32_tail e z
  | JUint u => int32_tail e (if gi_uint_sat u then INT64_MAX else u64_to_i64 u)
  | JStr s =>
      let '(rc, out, e') := json_parse_int64 s in
      if negb (rc =? 0) then Ret 0 e'                          (* whoops, it didn't work. *)
      else int32_tail e' (match out with Some c => c | None => 0 end)   (* cint64 was initialised to 0 *)
  | JDouble bits _ =>
      let d := decode bits in
      if gi_dbl_lo d then Ret INT32_MIN ERANGE
      else if gi_dbl_hi d then Ret INT32_MAX ERANGE
      else if disnan d then Ret INT32_MIN EINVAL
      else match cast_dbl INT32_MIN INT32_MAX d with Some t => Ret t e | None => UB end
  | JBool b => Ret (b2z b) e
  | _ => Ret 0 e
  end.

(* json_object_get_int64 *)
Definition get_int64 (e0 : errno) (o : jv) : res Z :=
  let e := E_NONE in
  match o with
  | JNull => Ret 0 e
  | JInt z => Ret z e
  | JUint u => if gl_uint_sat u then Ret INT64_MAX ERANGE else Ret (u64_to_i64 u) e
  | JDouble bits _ =>
      let d := decode bits in
      if gl_dbl_hi d then Ret INT64_MAX ERANGE
      else if gl_dbl_lo d then Ret INT64_MIN ERANGE
      else if disnan d then Ret INT64_MIN EINVAL
      else match cast_dbl INT64_MIN INT64_MAX d with Some t => Ret t e | None => UB end
  | JBool b => Ret (b2z b) e
  | JStr s =>
      let '(rc, out, e') := json_parse_int64 s in
      if rc =? 0
      then match out with Some c => Ret c e' | None => UB end    (* None: read of the unwritten local cint *)
      else Ret 0 e'                                              (* FALLTHRU to default *)
  | _ => Ret 0 e
  end.

(* json_object_get_uint64 *)
Definition get_uint64 (e0 : errno) (o : jv) : res Z :=
  let e := E_NONE in
  match o with
  | JNull => Ret 0 e
  | JInt z => if gu_int_neg z then Ret 0 ERANGE else Ret (to_u64 z) e
  | JUint u => Ret u e
  | JDouble bits _ =>
      let d := decode bits in
      if gu_dbl_hi d then Ret UINT64_MAX ERANGE
      else if gu_dbl_lo d then Ret 0 ERANGE
      else if disnan d then Ret 0 EINVAL
      else match cast_dbl 0 UINT64_MAX d with Some t => Ret t e | None => UB end
  | JBool b => Ret (b2z b) e
  | JStr s =>
      let '(rc, out, e') := json_parse_uint64 s in
      if rc =? 0
      then match out with Some c => Ret c e' | None => UB end
      else Ret 0 e'
  | _ => Ret 0 e
  end.

(* json_object_get_double.  [strtod s] = (bits of the result, end - buf, errno := ERANGE ?) *)
Definition strtod_oracle := list byte -> Z * Z * bool.

Definition get_double (strtod : strtod_oracle) (e0 : errno) (o : jv) : res Z :=
  match o with
  | JNull => Ret 0 e0
  | JDouble bits _ => Ret bits e0
  | JInt z => Ret (z_to_b64 z) e0
  | JUint u => Ret (z_to_b64 u) e0
  | JBool b => Ret (z_to_b64 (b2z b)) e0
  | JStr s =>
      let '(bits, n, er) := strtod s in                   (* errno = 0; cdouble = strtod(…, &errPtr); *)
      let e := if er then ERANGE else E_NONE in
      if n =? 0 then Ret 0 EINVAL                         (* errPtr == start *)
      else match znth s n with
           | Some c => if negb (c =? 0) then Ret 0 EINVAL (* errPtr[0] != 0 *)
                       else if disinf (decode bits) && negb (errno_is0 e) then Ret 0 e else Ret bits e
           | None =>   if disinf (decode bits) && negb (errno_is0 e) then Ret 0 e else Ret bits e
           end
  | _ => Ret 0 EINVAL
  end.

(* ------------------------------------------------------------------ mutators *)

Definition set_int64 (o : jv) (v : Z) : Z * jv :=
  match o with JInt _ | JUint _ => (1, JInt v) | _ => (0, o) end.
Definition set_int (o : jv) (v : Z) : Z * jv := set_int64 o v.        (* (int64_t)new_value *)
Definition set_uint64 (o : jv) (v : Z) : Z * jv :=
  match o with JInt _ | JUint _ => (1, JUint v) | _ => (0, o) end.
(* also drops the text retained by json_object_new_double_s *)
Definition set_double (o : jv) (bits : Z) : Z * jv :=
  match o with JDouble _ _ => (1, JDouble bits None) | _ => (0, o) end.
Definition set_boolean (o : jv) (b : bool) : Z * jv :=
  match o with JBool _ => (1, JBool b) | _ => (0, o) end.

Inductive ires := IOk (ret : Z) (o : jv) | IUB.

Definition obind {A} (x : option A) (f : A -> ires) : ires :=
  match x with Some a => f a | None => IUB end.

(* json_object_int_inc(jso, val), val an int64_t *)
Definition int_inc (o : jv) (val : Z) : ires :=
  match o with
  | JInt z =>
      (* if (val > 0 && c_int64 > INT64_MAX - val) *)
      obind (if val >? 0 then sub_i64 INT64_MAX val else Some 0) (fun t1 =>
      if (val >? 0) && (z >? t1) then
        IOk 1 (JUint ((to_u64 z + to_u64 val) mod TWO64))
      else
      (* else if (val < 0 && c_int64 < INT64_MIN - val) *)
      obind (if val <? 0 then sub_i64 INT64_MIN val else Some 0) (fun t2 =>
      if (val <? 0) && (z <? t2) then IOk 1 (JInt INT64_MIN)
      else obind (add_i64 z val) (fun r => IOk 1 (JInt r))))
  | JUint u =>
      (* if (val > 0 && c_uint64 > UINT64_MAX - (uint64_t)val) *)
      if (val >? 0) && (u >? (UINT64_MAX - to_u64 val) mod TWO64) then IOk 1 (JUint UINT64_MAX)
      else if val <? 0 then
        (* else if (val < 0 && c_uint64 < -(uint64_t)val) *)
        obind (inc_neg_mag val) (fun nv =>
        if u <? nv then
          obind (add_i64 (u64_to_i64 u) val) (fun r => IOk 1 (JInt r))
        else
        (* else if (val < 0 && c_uint64 >= -(uint64_t)val)  c_uint64 -= -(uint64_t)val *)
        obind (inc_neg_mag val) (fun nv2 =>
        if u >=? nv2 then obind (inc_neg_mag val) (fun nv3 => IOk 1 (JUint ((u - nv3) mod TWO64)))
        else IOk 1 (JUint ((u + to_u64 val) mod TWO64))))
      else IOk 1 (JUint ((u + to_u64 val) mod TWO64))      (* c_uint64 += val *)
  | _ => IOk 0 o
  end.

(* ------------------------------------------------------------------ one step of a script *)

Inductive nop :=
| GBool | GInt | GInt64 | GUint64 | GDouble
| SInt (v : Z) | SInt64 (v : Z) | SUint64 (v : Z) | SDouble (bits : Z) | SBool (b : bool)
| Inc (v : Z).

Inductive nobs :=
| OGet (v : Z) (e : errno)       (* accessor: value (bits for GDouble), errno *)
| OSet (ret : Z) (e : errno)     (* mutator: return value, errno (untouched); the node is observed separately *)
| OUB.

Definition of_res (r : res Z) : nobs := match r with Ret v e => OGet v e | UB => OUB end.

(* [e0] is the errno the caller has before the call (the drivers preset it).  The mutators and
   json_object_int_inc do not touch errno: they hand [e0] back. *)
Definition num_step (strtod : strtod_oracle) (e0 : errno) (o : jv) (op : nop) : nobs * jv :=
  match op with
  | GBool => (of_res (get_boolean e0 o), o)
  | GInt => (of_res (get_int e0 o), o)
  | GInt64 => (of_res (get_int64 e0 o), o)
  | GUint64 => (of_res (get_uint64 e0 o), o)
  | GDouble => (of_res (get_double strtod e0 o), o)
  | SInt v => let '(r, o') := set_int o v in (OSet r e0, o')
  | SInt64 v => let '(r, o') := set_int64 o v in (OSet r e0, o')
  | SUint64 v => let '(r, o') := set_uint64 o v in (OSet r e0, o')
  | SDouble b => let '(r, o') := set_double o b in (OSet r e0, o')
  | SBool b => let '(r, o') := set_boolean o b in (OSet r e0, o')
  | Inc v => match int_inc o v with IOk r o' => (OSet r e0, o') | IUB => (OUB, o) end
  end.
