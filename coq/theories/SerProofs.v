(* SerProofs.v — proofs about the serializer model (C02).
   1. ser_is_valid            every tree, every flag word without COLOR: the output is the rendering of an
                              RFC 8259 syntax tree (SerSpec) whose value is exactly the tree
   2. color_only_escapes      COLOR only inserts colour sequences
   3. flags_only_whitespace   all 64 flag words (full strength since json-c commit c53b19e; the old NOZERO scan: nozero_old_scan_eats_exponent)
   4. roundtrip               through the tokener model: scalars proved, containers by computation *)
From JC Require Import Base BaseLemmas Value SerModel SerSpec.
Local Open Scope Z_scope.

(* ------------------------------------------------------------------ generalities *)
Fixpoint zrange (lo : Z) (n : nat) : list Z :=
  match n with O => [] | S n' => lo :: zrange (lo + 1) n' end.
Lemma zrange_forall (f : Z -> bool) n : forall lo,
  forallb f (zrange lo n) = true -> forall u, lo <= u < lo + Z.of_nat n -> f u = true.
Proof.
  induction n as [|n IH]; intros lo H u Hu; [lia|].
  cbn [zrange forallb] in H. apply andb_true_iff in H. destruct H as [H1 H2].
  destruct (Z.eq_dec u lo) as [->|Hne]; [exact H1|].
  apply (IH (lo + 1) H2). lia.
Qed.

Lemma bytes_eqb_eq a b : bytes_eqb a b = true -> a = b.
Proof.
  revert b; induction a as [|x a IH]; intros [|y b]; cbn; intros H; try discriminate; try reflexivity.
  apply andb_true_iff in H. destruct H as [H1 H2]. apply Z.eqb_eq in H1. apply IH in H2. congruence.
Qed.

Lemma Forall_exists_list {A B} (R : A -> B -> Prop) l :
  Forall (fun x => exists y, R x y) l -> exists ys, Forall2 R l ys.
Proof.
  induction 1 as [|x l [y Hy] _ [ys IH]]; [exists []; constructor|].
  exists (y :: ys). constructor; assumption.
Qed.

Lemma flat_map_map {A B C} (f : B -> list C) (g : A -> B) l : flat_map f (map g l) = flat_map (fun x => f (g x)) l.
Proof. induction l as [|x l IH]; cbn; [reflexivity|]. rewrite IH. reflexivity. Qed.

Lemma flat_map_ext' {A B} (f g : A -> list B) l : Forall (fun x => f x = g x) l -> flat_map f l = flat_map g l.
Proof. induction 1 as [|x l H _ IH]; cbn; [reflexivity|]. rewrite H, IH. reflexivity. Qed.

(* ------------------------------------------------------------------ has_byte / split_at *)
Lemma has_byte_app c a b : has_byte c (a ++ b) = has_byte c a || has_byte c b.
Proof. induction a as [|x a IH]; cbn; [reflexivity|]. rewrite IH. apply orb_assoc. Qed.

Lemma split_at_none c l : has_byte c l = false -> split_at c l = None.
Proof.
  induction l as [|x l IH]; cbn; [reflexivity|]. intros H. apply orb_false_iff in H. destruct H as [H1 H2].
  rewrite H1, (IH H2). reflexivity.
Qed.
Lemma split_at_first c a b : has_byte c a = false -> split_at c (a ++ c :: b) = Some (a, b).
Proof.
  induction a as [|x a IH]; cbn.
  - rewrite Z.eqb_refl. reflexivity.
  - intros H. apply orb_false_iff in H. destruct H as [H1 H2]. rewrite H1, (IH H2). reflexivity.
Qed.

Lemma digits_no_byte c ds : forallb digit ds = true -> digit c = false -> has_byte c ds = false.
Proof.
  induction ds as [|x ds IH]; cbn; [reflexivity|]. intros H Hc. apply andb_true_iff in H. destruct H as [H1 H2].
  rewrite (IH H2 Hc). destruct (x =? c) eqn:E; [|reflexivity]. apply Z.eqb_eq in E. subst. congruence.
Qed.

Lemma digits1_forall ds : digits1 ds = true -> forallb digit ds = true /\ ds <> [].
Proof. destruct ds; cbn; [discriminate|]. intros H. split; [exact H|discriminate]. Qed.
Lemma digits1_intro ds : forallb digit ds = true -> ds <> [] -> digits1 ds = true.
Proof. destruct ds; [congruence|]. intros H _. exact H. Qed.

(* ------------------------------------------------------------------ digits *)
Lemma digits_value_app a b : digits_value (a ++ b) = digits_value a * 10 ^ zlen b + digits_value b.
Proof.
  unfold digits_value.
  assert (G : forall b acc, fold_left (fun a c => a * 10 + (c - 48)) b acc
                            = acc * 10 ^ zlen b + fold_left (fun a c => a * 10 + (c - 48)) b 0).
  { clear. induction b as [|c b IH]; intros acc; cbn [fold_left zlen].
    - rewrite Z.pow_0_r. lia.
    - rewrite IH. rewrite (IH (0 * 10 + (c - 48))). pose proof (zlen_nonneg b).
      rewrite Z.pow_add_r by lia. lia. }
  rewrite fold_left_app. apply G.
Qed.

Lemma digits_value_zeros k : digits_value (repeat 48 k) = 0.
Proof.
  induction k as [|k IH]; [reflexivity|].
  change (repeat 48 (S k)) with ([48] ++ repeat 48 k). rewrite digits_value_app, IH. reflexivity.
Qed.

Lemma zlen_repeat {A} (x : A) k : zlen (repeat x k) = Z.of_nat k.
Proof. rewrite zlen_length, repeat_length. reflexivity. Qed.

(* ------------------------------------------------------------------ integers *)
Lemma dec_digits_spec fuel : forall n acc, 1 <= n < 2 ^ Z.of_nat fuel ->
  exists ds, dec_digits fuel n acc = ds ++ acc /\ forallb digit ds = true /\
             digits_value ds = n /\ (exists c r, ds = c :: r /\ c <> 48).
Proof.
  induction fuel as [|f IH]; intros n acc Hn.
  - change (2 ^ Z.of_nat 0) with 1 in Hn. lia.
  - cbn [dec_digits]. destruct (n <? 10) eqn:E.
    + exists [48 + n mod 10]. rewrite Z.mod_small by lia. repeat split.
      * cbn [forallb]. unfold digit. lia.
      * unfold digits_value. cbn [fold_left]. lia.
      * exists (48 + n), []. split; [reflexivity|lia].
    + assert (Hq : 1 <= n / 10 < 2 ^ Z.of_nat f).
      { rewrite Nat2Z.inj_succ, Z.pow_succ_r in Hn by lia. split.
        - apply Z.div_le_lower_bound; lia.
        - apply Z.div_lt_upper_bound; lia. }
      destruct (IH (n / 10) ((48 + n mod 10) :: acc) Hq) as (ds & H1 & H2 & H3 & c & r & H4 & H5).
      exists (ds ++ [48 + n mod 10]). rewrite H1, <- app_assoc. cbn [app]. repeat split.
      * rewrite forallb_app, H2. cbn [forallb andb]. unfold digit. pose proof (Z.mod_pos_bound n 10 ltac:(lia)). lia.
      * rewrite digits_value_app, H3. cbn [zlen]. unfold digits_value at 1. cbn [fold_left].
        pose proof (Z.div_mod n 10 ltac:(lia)). lia.
      * exists c, (r ++ [48 + n mod 10]). rewrite H4. split; [reflexivity|exact H5].
Qed.

Lemma dec_u_spec n : 0 <= n ->
  digits1 (dec_u n) = true /\ digits_value (dec_u n) = n /\
  match dec_u n with [c] => true | c :: _ => negb (c =? 48) | [] => false end = true.
Proof.
  intros Hn. destruct (Z.eq_dec n 0) as [->|Hnz].
  - repeat split.
  - assert (H : 1 <= n < 2 ^ Z.of_nat (S (Z.to_nat (Z.log2 n)))).
    { split; [lia|]. rewrite Nat2Z.inj_succ, Z2Nat.id by apply Z.log2_nonneg.
      apply Z.log2_spec. lia. }
    destruct (dec_digits_spec _ n [] H) as (ds & H1 & H2 & H3 & c & r & H4 & H5).
    unfold dec_u. rewrite H1, app_nil_r. repeat split; [|exact H3|].
    + apply digits1_intro; [exact H2|]. rewrite H4. discriminate.
    + rewrite H4. destruct r; [reflexivity|]. apply negb_true_iff. lia.
Qed.

Lemma num_plain_int neg ds :
  digits1 ds = true -> match ds with [c] => true | c :: _ => negb (c =? 48) | [] => false end = true ->
  num_ok (mknum neg ds None None) = true /\
  render_num (mknum neg ds None None) = (if neg then [45] else []) ++ ds /\
  num_val (mknum neg ds None None) = (if neg then - digits_value ds else digits_value ds, 0).
Proof.
  intros H1 H2. unfold num_ok, render_num, num_val. cbn [n_neg n_int n_frac n_exp render_frac render_exp zlen].
  rewrite H1, H2, !app_nil_r. repeat split.
Qed.

(* the token of an int64 / uint64 node *)
Lemma int_token z : exists n, num_ok n = true /\ render_num n = dec_s z /\ num_val n = (z, 0).
Proof.
  unfold dec_s. destruct (z <? 0) eqn:E.
  - destruct (dec_u_spec (- z) ltac:(lia)) as (H2 & H3 & H4).
    exists (mknum true (dec_u (- z)) None None).
    destruct (num_plain_int true _ H2 H4) as (A & B & C). rewrite A, B, C, H3. repeat split. f_equal. lia.
  - destruct (dec_u_spec z ltac:(lia)) as (H2 & H3 & H4).
    exists (mknum false (dec_u z) None None).
    destruct (num_plain_int false _ H2 H4) as (A & B & C). rewrite A, B, C, H3. repeat split.
Qed.
Lemma uint_token z : 0 <= z -> exists n, num_ok n = true /\ render_num n = dec_u z /\ num_val n = (z, 0).
Proof.
  intros Hz. destruct (dec_u_spec z Hz) as (H2 & H3 & H4).
  exists (mknum false (dec_u z) None None).
  destruct (num_plain_int false _ H2 H4) as (A & B & C). rewrite A, B, C, H3. repeat split.
Qed.

(* ------------------------------------------------------------------ strings *)
Definition char_stx (fl : sflags) (c : byte) : schar :=
  if c =? 8 then CEsc EB else if c =? 10 then CEsc EN else if c =? 13 then CEsc ER
  else if c =? 9 then CEsc ET else if c =? 12 then CEsc EF else if c =? 34 then CEsc EQuote
  else if c =? 92 then CEsc EBackslash
  else if c =? 47 then (if noslash fl then CRaw 47 else CEsc ESolidus)
  else if c <? 32 then CU (false, false, false, false) c
  else CRaw c.

Definition fl_ns (ns : bool) : sflags := mkfl false false false false ns false.
Definition char_case_ok (ns : bool) (c : byte) : bool :=
  bytes_eqb (render_char (char_stx (fl_ns ns) c)) (escape_char (fl_ns ns) c) &&
  schar_ok (char_stx (fl_ns ns) c) && bytes_eqb (char_value (char_stx (fl_ns ns) c)) [c].

Lemma char_sweep ns c : 0 <= c < 256 -> char_case_ok ns c = true.
Proof.
  intros Hc.
  assert (Ht : forallb (char_case_ok true) (zrange 0 256) = true) by (vm_compute; reflexivity).
  assert (Hf : forallb (char_case_ok false) (zrange 0 256) = true) by (vm_compute; reflexivity).
  destruct ns; [apply (zrange_forall _ _ 0 Ht)|apply (zrange_forall _ _ 0 Hf)]; lia.
Qed.

Lemma escape_char_ns fl c : escape_char fl c = escape_char (fl_ns (noslash fl)) c.
Proof. reflexivity. Qed.
Lemma char_stx_ns fl c : char_stx fl c = char_stx (fl_ns (noslash fl)) c.
Proof. reflexivity. Qed.

Definition byte_ok (c : byte) : Prop := 0 <= c < 256.

Lemma char_spec fl c : byte_ok c ->
  render_char (char_stx fl c) = escape_char fl c /\ schar_ok (char_stx fl c) = true /\ char_value (char_stx fl c) = [c].
Proof.
  intros Hc. pose proof (char_sweep (noslash fl) c Hc) as H. unfold char_case_ok in H.
  apply andb_true_iff in H. destruct H as [H H3]. apply andb_true_iff in H. destruct H as [H1 H2].
  rewrite escape_char_ns, char_stx_ns. repeat split; [apply bytes_eqb_eq|..]; auto using bytes_eqb_eq.
Qed.

Lemma string_spec fl s : Forall byte_ok s ->
  render_string (map (char_stx fl) s) = quoted fl s /\
  forallb schar_ok (map (char_stx fl) s) = true /\
  string_value (map (char_stx fl) s) = s.
Proof.
  intros H. unfold render_string, quoted, escape_str, string_value.
  induction H as [|c s Hc _ IH]; [repeat split|].
  destruct IH as (I1 & I2 & I3). destruct (char_spec fl c Hc) as (C1 & C2 & C3).
  cbn [map flat_map forallb]. rewrite C1, C2, C3, I2, I3. repeat split.
  injection I1 as I1. apply app_inv_tail in I1. rewrite I1. reflexivity.
Qed.

Lemma c_str_bytes_ok s : Forall byte_ok s -> Forall byte_ok (c_str s).
Proof.
  induction 1 as [|c s Hc _ IH]; cbn; [constructor|]. destruct (c =? 0); constructor; assumption.
Qed.

(* ------------------------------------------------------------------ NOZERO trimming *)
(* the fraction without its trailing zeros *)
Fixpoint tz (l : list byte) : list byte :=
  match l with
  | [] => []
  | c :: r => match tz r with [] => if c =? 48 then [] else [c] | t => c :: t end
  end.

Lemma tz_prefix l : exists k, l = tz l ++ repeat 48 k.
Proof.
  induction l as [|c l [k IH]]; [exists 0%nat; reflexivity|]. cbn [tz].
  destruct (tz l) as [|t0 t] eqn:E.
  - destruct (c =? 48) eqn:Ec.
    + apply Z.eqb_eq in Ec. subst c. exists (S k). cbn in *. rewrite IH at 1. reflexivity.
    + exists k. cbn in *. rewrite IH at 1. reflexivity.
  - exists k. cbn in *. rewrite IH at 1. reflexivity.
Qed.

Lemma last_nz_tz l : forall i best,
  last_nz l i best = match tz l with [] => best | t => (i + length t - 1)%nat end.
Proof.
  induction l as [|c l IH]; intros i best; cbn [last_nz tz]; [reflexivity|].
  rewrite IH. destruct (tz l) as [|t0 t] eqn:E.
  - destruct (c =? 48); [reflexivity|]. cbn. lia.
  - cbn [length]. lia.
Qed.

Lemma trim_zeros_tz l : trim_zeros l = match tz l with [] => firstn 1 l | t => t end.
Proof.
  unfold trim_zeros. rewrite last_nz_tz. destruct (tz l) as [|t0 t] eqn:E; [reflexivity|].
  destruct (tz_prefix l) as [k Hk]. rewrite E in Hk. rewrite Hk at 1.
  replace (S (0 + length (t0 :: t) - 1)) with (length (t0 :: t) + 0)%nat by (cbn; lia).
  rewrite firstn_app_2. cbn. rewrite app_nil_r. reflexivity.
Qed.

(* a non-empty fraction stays a non-empty digit string of the same value *)
Lemma trim_zeros_spec f : forallb digit f = true -> f <> [] ->
  exists k, f = trim_zeros f ++ repeat 48 k /\ trim_zeros f <> [] /\ forallb digit (trim_zeros f) = true.
Proof.
  intros Hd Hne. rewrite trim_zeros_tz. destruct (tz_prefix f) as [k Hk].
  destruct (tz f) as [|t0 t] eqn:E.
  - cbn in Hk. destruct f as [|c f]; [congruence|]. destruct k as [|k]; [discriminate|].
    cbn in Hk. injection Hk as -> ->. exists k. cbn. repeat split; discriminate.
  - exists k. split; [exact Hk|]. split; [discriminate|].
    rewrite Hk, forallb_app in Hd. apply andb_true_iff in Hd. tauto.
Qed.

(* trimming is the identity on a fraction whose last digit is not '0' (what %g prints) *)
Lemma tz_id l : last l 1 <> 48 -> l <> [] -> tz l = l.
Proof.
  induction l as [|c l IH]; intros Hl Hne; [congruence|]. cbn [tz].
  destruct l as [|c2 l].
  - cbn in *. destruct (c =? 48) eqn:E; [lia|reflexivity].
  - rewrite IH; [reflexivity|exact Hl|discriminate].
Qed.
Lemma trim_zeros_id l : last l 1 <> 48 -> trim_zeros l = l.
Proof.
  intros H. destruct l as [|c l]; [reflexivity|].
  rewrite trim_zeros_tz, tz_id; [reflexivity|exact H|discriminate].
Qed.

(* ------------------------------------------------------------------ doubles *)
(* the hypothesis on the libc oracle: what "%.17g" prints for a finite double is
   [-]digits[.digits][e(+|-)digits] with a lower-case e, far shorter than the 128-byte buffer,
   the fraction not ending in 0 *)
Definition g17_shape (n : numtok) : Prop :=
  num_ok n = true /\
  match n_exp n with Some (up, _, _) => up = false | None => True end /\
  zlen (render_num n) < 126 /\
  match n_frac n with Some f => last f 1 <> 48 | None => True end.   (* %g removes trailing zeros *)

Lemma dec_eq_refl a : dec_eq a a.
Proof. unfold dec_eq. reflexivity. Qed.

Lemma has101_exp e : (match e with Some (up, _, _) => up = false | None => True end) ->
  (match e with Some (_, _, ds) => digits1 ds = true | None => True end) ->
  has_byte 101 (render_exp e) = match e with Some _ => true | None => false end.
Proof. destruct e as [[[up sg] ds]|]; [|reflexivity]. intros -> _. reflexivity. Qed.

Lemma no_byte_exp c e : digit c = false -> c <> 101 -> c <> 69 -> c <> 43 -> c <> 45 ->
  (match e with Some (_, _, ds) => digits1 ds = true | None => True end) ->
  has_byte c (render_exp e) = false.
Proof.
  intros Hd H1 H2 H3 H4. destruct e as [[[up sg] ds]|]; [|reflexivity]. intros Hds.
  apply digits1_forall in Hds. destruct Hds as [Hds _]. cbn [render_exp has_byte].
  rewrite has_byte_app, (digits_no_byte c ds Hds Hd), orb_false_r.
  destruct up, sg; cbn [has_byte]; lia.
Qed.

Definition lead_ok (i : list byte) : bool :=
  match i with [c] => true | c :: _ => negb (c =? 48) | [] => false end.
Definition frac_ok (f : option (list byte)) : bool := match f with Some f => digits1 f | None => true end.
Definition exp_ok (e : option (bool * esign * list byte)) : bool :=
  match e with Some (_, _, ds) => digits1 ds | None => true end.
Lemma num_ok_iff neg i f e :
  num_ok (mknum neg i f e) = true <->
  digits1 i = true /\ lead_ok i = true /\ frac_ok f = true /\ exp_ok e = true.
Proof.
  unfold num_ok, lead_ok, frac_ok, exp_ok. cbn [n_neg n_int n_frac n_exp].
  rewrite !andb_true_iff. tauto.
Qed.
Lemma num_ok_parts n : num_ok n = true ->
  digits1 (n_int n) = true /\
  match n_frac n with Some f => digits1 f = true | None => True end /\
  match n_exp n with Some (_, _, ds) => digits1 ds = true | None => True end.
Proof.
  destruct n as [neg i f e]. intros H. apply num_ok_iff in H. destruct H as (H1 & _ & H3 & H4).
  cbn [n_int n_frac n_exp]. repeat split; [exact H1|destruct f; auto|destruct e as [[[? ?] ?]|]; auto].
Qed.

Lemma double_fixup_eq trim fl out : zlen out < 126 -> split_at 44 out = None ->
  double_fixup_with trim fl out =
    match split_at 46 out with
    | Some (a, b) => if nozero fl
                     then let t := a ++ 46 :: trim b in zfirstn (if zlen t >=? 128 then 127 else zlen t) t
                     else out
    | None => if looks_numeric out (zlen out) && negb (has_byte 101 out) then out ++ [46;48] else out
    end.
Proof.
  intros Hlen H44. unfold double_fixup_with. pose proof (zlen_nonneg out).
  rewrite (zfirstn_all 127 out) by lia. rewrite H44.
  destruct (split_at 46 out) as [[a b]|].
  - rewrite !andb_false_r. cbn [andb]. destruct (nozero fl); [reflexivity|].
    replace (zlen out >=? 128) with false by lia. cbv iota. apply zfirstn_all. lia.
  - replace (zlen out <? 126) with true by lia. cbn [andb]. rewrite andb_true_r.
    destruct (looks_numeric out (zlen out) && negb (has_byte 101 out)).
    + replace (zlen out + 2 >=? 128) with false by lia. cbv iota. apply zfirstn_all. rewrite zlen_app. cbn [zlen]. lia.
    + replace (zlen out >=? 128) with false by lia. cbv iota. apply zfirstn_all. lia.
Qed.

Lemma render_num_eq neg i f e :
  render_num (mknum neg i f e) = ((if neg then [45] else []) ++ i) ++ render_frac f ++ render_exp e.
Proof. unfold render_num. cbn [n_neg n_int n_frac n_exp]. rewrite app_assoc. reflexivity. Qed.

(* the NOZERO scan stops at the exponent: it trims the fraction and keeps the exponent verbatim *)
Lemma split_exp_frac fr e : forallb digit fr = true -> split_exp (fr ++ render_exp e) = (fr, render_exp e).
Proof.
  intros Hfr. induction fr as [|c fr IH].
  - destruct e as [[[up sg] ds]|]; [|reflexivity]. cbn [app render_exp split_exp]. destruct up; reflexivity.
  - cbn [forallb] in Hfr. apply andb_true_iff in Hfr. destruct Hfr as [Hc Hfr].
    cbn [app split_exp]. unfold digit in Hc. replace ((c =? 101) || (c =? 69)) with false by lia.
    rewrite (IH Hfr). reflexivity.
Qed.
Lemma nozero_keeps_exponent fr e : forallb digit fr = true ->
  nozero_trim (fr ++ render_exp e) = trim_zeros fr ++ render_exp e.
Proof. intros Hfr. unfold nozero_trim, nozero_trim_with, nozero_span. rewrite (split_exp_frac fr e Hfr). reflexivity. Qed.

(* the scan as it was before json-c commit c53b19e (it ran to the end of the buffer): the text
   5e+20 behind the decimal point of 1.5e+20 lost the last digit of its exponent — class nozero_eats_exponent *)
Lemma nozero_old_scan_eats_exponent :
  nozero_trim_with (fun rest => (rest, [])) [53;101;43;50;48] = [53;101;43;50] /\
  nozero_trim [53;101;43;50;48] = [53;101;43;50;48].
Proof. split; reflexivity. Qed.

Lemma double_fixup_shape fl n0 :
  g17_shape n0 ->
  exists n', num_ok n' = true /\ render_num n' = double_fixup fl (render_num n0) /\
             dec_eq (num_val n') (num_val n0) /\ (n_frac n' <> None \/ n_exp n' <> None).
Proof.
  intros (Hok & Hup & Hlen & _). destruct n0 as [neg i f e]. cbn [n_exp] in Hup.
  pose proof Hok as Hok'. apply num_ok_iff in Hok'. destruct Hok' as (O1 & O2 & O3 & O4).
  destruct (digits1_forall _ O1) as [Hi Hine].
  rewrite render_num_eq in *. set (sg := if neg then [45] else [] : list byte) in *.
  assert (Hsg : forall c, digit c = false -> c <> 45 -> has_byte c (sg ++ i) = false).
  { intros c Hc H45. rewrite has_byte_app, (digits_no_byte c i Hi Hc). subst sg. destruct neg; cbn [has_byte]; lia. }
  assert (Hex : forall c, digit c = false -> c <> 101 -> c <> 69 -> c <> 43 -> c <> 45 -> has_byte c (render_exp e) = false).
  { intros c ? ? ? ? ?. apply no_byte_exp; auto. destruct e as [[[? ?] ?]|]; [exact O4|exact I]. }
  assert (He101 : has_byte 101 (render_exp e) = match e with Some _ => true | None => false end).
  { apply has101_exp; [exact Hup|]. destruct e as [[[? ?] ?]|]; [exact O4|exact I]. }
  assert (Hlook : forall rest, looks_numeric ((sg ++ i) ++ rest) (zlen ((sg ++ i) ++ rest)) = true).
  { intros rest. destruct i as [|c0 i']; [congruence|]. cbn [forallb] in Hi. apply andb_true_iff in Hi.
    destruct Hi as [Hc0 _]. subst sg. destruct neg; cbn [app looks_numeric].
    - change (SerModel.is_digit c0) with (digit c0). rewrite Hc0.
      pose proof (zlen_nonneg (i' ++ rest)). cbn [zlen].
      replace (1 + (1 + zlen (i' ++ rest)) >? 1) with true by lia. cbn. reflexivity.
    - change (SerModel.is_digit c0) with (digit c0). rewrite Hc0. reflexivity. }
  unfold double_fixup. rewrite double_fixup_eq; [|exact Hlen|].
  2:{ apply split_at_none. rewrite (has_byte_app 44 (sg ++ i)), (Hsg 44) by (reflexivity || lia).
      rewrite has_byte_app, (Hex 44) by (reflexivity || lia).
      destruct f as [fr|]; cbn [render_frac has_byte]; [|reflexivity].
      destruct (digits1_forall _ O3) as [Hfd _]. rewrite (digits_no_byte 44 fr Hfd eq_refl). reflexivity. }
  destruct f as [fr|]; cbn [render_frac] in *.
  - (* a decimal point *)
    destruct (digits1_forall _ O3) as [Hfd Hfne].
    change ((46 :: fr) ++ render_exp e) with (46 :: fr ++ render_exp e) in *.
    rewrite (split_at_first 46 (sg ++ i) (fr ++ render_exp e)) by (apply Hsg; [reflexivity|lia]).
    destruct (nozero fl) eqn:Enz.
    + (* NOZERO: the fraction is trimmed, the exponent stays *)
      rewrite (nozero_keeps_exponent fr e Hfd).
      destruct (trim_zeros_spec fr Hfd Hfne) as (k & Hk & Htne & Htd).
      exists (mknum neg i (Some (trim_zeros fr)) e). split; [|split; [|split; [|left; discriminate]]].
      * apply num_ok_iff. repeat split; auto. apply digits1_intro; assumption.
      * rewrite render_num_eq. fold sg. cbn [render_frac].
        change ((46 :: trim_zeros fr) ++ render_exp e) with (46 :: trim_zeros fr ++ render_exp e).
        cbv zeta. set (t := (sg ++ i) ++ 46 :: trim_zeros fr ++ render_exp e).
        assert (Ht : zlen t < 128).
        { subst t. rewrite Hk in Hlen. rewrite !zlen_app in *. cbn [zlen] in *. rewrite ?zlen_app in *.
          pose proof (zlen_nonneg (repeat 48 k)). lia. }
        replace (zlen t >=? 128) with false by lia. cbv iota. symmetry. apply zfirstn_all. lia.
      * unfold dec_eq, num_val. cbn [fst snd n_neg n_int n_frac n_exp].
        set (ex := match e with Some (_, EMinus, ds) => - digits_value ds | Some (_, _, ds) => digits_value ds | None => 0 end).
        remember (trim_zeros fr) as T eqn:HT. clear HT Hlen O3 Hfd Hfne. subst fr.
        rewrite (app_assoc i T), (digits_value_app (i ++ T)), digits_value_zeros, zlen_app, !zlen_repeat.
        set (m := digits_value (i ++ T)). set (L := zlen T).
        replace (Z.min (ex - L) (ex - (L + Z.of_nat k))) with (ex - (L + Z.of_nat k)) by lia.
        replace (ex - L - (ex - (L + Z.of_nat k))) with (Z.of_nat k) by lia.
        rewrite Z.sub_diag, Z.pow_0_r. destruct neg; lia.
    + exists (mknum neg i (Some fr) e). split; [exact Hok|]. split; [|split; [apply dec_eq_refl|left; discriminate]].
      rewrite render_num_eq. reflexivity.
  - (* no decimal point *)
    cbn [app] in *.
    rewrite (split_at_none 46) by (rewrite has_byte_app, (Hsg 46), (Hex 46) by (reflexivity || lia); reflexivity).
    rewrite Hlook, has_byte_app, (Hsg 101), He101 by (reflexivity || lia). cbn [andb orb].
    destruct e as [e'|]; cbn [negb].
    + exists (mknum neg i None (Some e')). split; [exact Hok|]. split; [|split; [apply dec_eq_refl|right; discriminate]].
      rewrite render_num_eq. reflexivity.
    + (* an integer-looking text: ".0" is appended *)
      cbn [render_exp] in *. rewrite app_nil_r in *.
      exists (mknum neg i (Some [48]) None). split; [|split; [|split; [|left; discriminate]]].
      * apply num_ok_iff. repeat split; auto.
      * rewrite render_num_eq. reflexivity.
      * unfold dec_eq, num_val. cbn [fst snd n_neg n_int n_frac n_exp zlen]. rewrite digits_value_app. cbn [zlen].
        change (digits_value [48]) with 0. rewrite app_nil_r.
        replace (Z.min (0 - (1 + 0)) (0 - 0)) with (-1) by lia.
        change (0 - (1 + 0) - -1) with 0. change (0 - 0 - -1) with 1. destruct neg; lia.
Qed.

(* ------------------------------------------------------------------ containers: text layout *)
Fixpoint decorate (pre cl : list byte) (xs : list (list byte)) : list (list byte) :=
  match xs with
  | [] => []
  | [x] => [pre ++ x ++ cl]
  | x :: r => (pre ++ x) :: decorate pre cl r
  end.

Lemma sep_concat_cons sep x r : r <> [] -> sep_concat sep (x :: r) = x ++ sep ++ sep_concat sep r.
Proof. destruct r; [congruence|reflexivity]. Qed.
Lemma decorate_cons pre cl x r : r <> [] -> decorate pre cl (x :: r) = (pre ++ x) :: decorate pre cl r.
Proof. destruct r; [congruence|reflexivity]. Qed.
Lemma decorate_nonempty pre cl xs : xs <> [] -> decorate pre cl xs <> [].
Proof. destruct xs as [|x [|y r]]; [congruence|discriminate|discriminate]. Qed.

Lemma join_decorate pre cl xs : xs <> [] ->
  sep_concat [44] (decorate pre cl xs) = join_children pre xs false ++ cl.
Proof.
  induction xs as [|x r IH]; [congruence|]. intros _. destruct r as [|y r'].
  - cbn. rewrite app_nil_r, <- !app_assoc. reflexivity.
  - rewrite decorate_cons by discriminate.
    rewrite sep_concat_cons by (apply decorate_nonempty; discriminate).
    rewrite IH by discriminate.
    change (join_children pre (x :: y :: r') false) with (pre ++ x ++ [44] ++ join_children pre (y :: r') false).
    rewrite <- !app_assoc. reflexivity.
Qed.

Definition item_text (it : ws * stx * ws) : list byte :=
  render_ws (fst (fst it)) ++ render (snd (fst it)) ++ render_ws (snd it).
Definition member_text (mb : ws * list schar * ws * ws * stx * ws) : list byte :=
  match mb with (w0, k, w1, w2, v, w3) =>
    render_ws w0 ++ render_string k ++ render_ws w1 ++ [58] ++ render_ws w2 ++ render v ++ render_ws w3 end.

Lemma render_arr items w : items <> [] ->
  render (SArr items w) = 91 :: sep_concat [44] (map item_text items) ++ [93].
Proof. destruct items; [congruence|reflexivity]. Qed.
Lemma render_obj members w : members <> [] ->
  render (SObj members w) = 123 :: sep_concat [44] (map member_text members) ++ [125].
Proof. destruct members; [congruence|reflexivity]. Qed.

Fixpoint mk_items (pw cw : ws) (ss : list stx) : list (ws * stx * ws) :=
  match ss with
  | [] => []
  | [s] => [(pw, s, cw)]
  | s :: r => (pw, s, []) :: mk_items pw cw r
  end.
Fixpoint mk_members (pw kw cw : ws) (ks : list (list schar * stx)) : list (ws * list schar * ws * ws * stx * ws) :=
  match ks with
  | [] => []
  | [ks1] => [(pw, fst ks1, [], kw, snd ks1, cw)]
  | ks1 :: r => (pw, fst ks1, [], kw, snd ks1, []) :: mk_members pw kw cw r
  end.

Lemma map_items pw cw ss :
  map item_text (mk_items pw cw ss) = decorate (render_ws pw) (render_ws cw) (map render ss).
Proof.
  induction ss as [|s r IH]; [reflexivity|]. destruct r as [|s2 r'].
  - reflexivity.
  - change (mk_items pw cw (s :: s2 :: r')) with ((pw, s, []) :: mk_items pw cw (s2 :: r')).
    cbn [map]. rewrite decorate_cons by discriminate. cbn [map] in IH. rewrite IH.
    unfold item_text at 1. cbn [fst snd render_ws map]. rewrite app_nil_r. reflexivity.
Qed.
Definition kv_text (kw : ws) (ks : list schar * stx) : list byte :=
  render_string (fst ks) ++ [58] ++ render_ws kw ++ render (snd ks).
Lemma map_members pw kw cw ks :
  map member_text (mk_members pw kw cw ks) = decorate (render_ws pw) (render_ws cw) (map (kv_text kw) ks).
Proof.
  induction ks as [|s r IH]; [reflexivity|]. destruct r as [|s2 r'].
  - cbn [mk_members map decorate]. unfold member_text, kv_text. cbn [render_ws map]. do 2 f_equal.
    rewrite <- ?app_assoc. cbn [app]. rewrite <- ?app_assoc. reflexivity.
  - change (mk_members pw kw cw (s :: s2 :: r')) with ((pw, fst s, [], kw, snd s, []) :: mk_members pw kw cw (s2 :: r')).
    cbn [map]. rewrite decorate_cons by discriminate. cbn [map] in IH. rewrite IH.
    unfold member_text at 1, kv_text at 1. cbn [render_ws map app]. rewrite app_nil_r. reflexivity.
Qed.

Lemma items_nonempty pw cw ss : ss <> [] -> mk_items pw cw ss <> [].
Proof. destruct ss as [|s [|s2 r]]; [congruence|discriminate|discriminate]. Qed.
Lemma members_nonempty pw kw cw ks : ks <> [] -> mk_members pw kw cw ks <> [].
Proof. destruct ks as [|s [|s2 r]]; [congruence|discriminate|discriminate]. Qed.

Lemma items_ok pw cw ss : forallb (fun it => stx_ok (snd (fst it))) (mk_items pw cw ss) = forallb stx_ok ss.
Proof.
  induction ss as [|s r IH]; [reflexivity|]. destruct r as [|s2 r']; [reflexivity|].
  change (mk_items pw cw (s :: s2 :: r')) with ((pw, s, []) :: mk_items pw cw (s2 :: r')).
  cbn [forallb fst snd] in *. rewrite IH. reflexivity.
Qed.
Lemma items_value pw cw ss : map (fun it => value (snd (fst it))) (mk_items pw cw ss) = map value ss.
Proof.
  induction ss as [|s r IH]; [reflexivity|]. destruct r as [|s2 r']; [reflexivity|].
  change (mk_items pw cw (s :: s2 :: r')) with ((pw, s, []) :: mk_items pw cw (s2 :: r')).
  cbn [map fst snd] in *. rewrite IH. reflexivity.
Qed.
Lemma members_ok pw kw cw ks :
  forallb (fun mb => match mb with (_, k, _, _, v, _) => forallb schar_ok k && stx_ok v end) (mk_members pw kw cw ks)
  = forallb (fun ks1 => forallb schar_ok (fst ks1) && stx_ok (snd ks1)) ks.
Proof.
  induction ks as [|s r IH]; [reflexivity|]. destruct r as [|s2 r']; [reflexivity|].
  change (mk_members pw kw cw (s :: s2 :: r')) with ((pw, fst s, [], kw, snd s, []) :: mk_members pw kw cw (s2 :: r')).
  cbn [forallb] in *. rewrite IH. reflexivity.
Qed.
Lemma members_value pw kw cw ks :
  map (fun mb => match mb with (_, k, _, _, v, _) => (string_value k, value v) end) (mk_members pw kw cw ks)
  = map (fun ks1 => (string_value (fst ks1), value (snd ks1))) ks.
Proof.
  induction ks as [|s r IH]; [reflexivity|]. destruct r as [|s2 r']; [reflexivity|].
  change (mk_members pw kw cw (s :: s2 :: r')) with ((pw, fst s, [], kw, snd s, []) :: mk_members pw kw cw (s2 :: r')).
  cbn [map] in *. rewrite IH. reflexivity.
Qed.

(* the whitespace the flags choose *)
Definition indent_ws (fl : sflags) (level : nat) : ws :=
  if pretty fl then (if pretty_tab fl then repeat WTab level else repeat WSp (2 * level)) else [].
Definition prefix_ws (fl : sflags) (level : nat) : ws :=
  (if pretty fl then [WLf] else []) ++ (if spaced fl && negb (pretty fl) then [WSp] else []) ++ indent_ws fl (S level).
Definition close_ws (fl : sflags) (level : nat) (had : bool) : ws :=
  (if pretty fl && had then WLf :: indent_ws fl level else []) ++ (if spaced fl && negb (pretty fl) then [WSp] else []).
Definition colon_ws (fl : sflags) : ws := if spaced fl then [WSp] else [].

Lemma render_ws_app a b : render_ws (a ++ b) = render_ws a ++ render_ws b.
Proof. apply map_app. Qed.
Lemma render_ws_repeat c n : render_ws (repeat c n) = repeat (wsc_byte c) n.
Proof. unfold render_ws. induction n; cbn; [reflexivity|]. rewrite IHn. reflexivity. Qed.
Lemma render_indent fl level : render_ws (indent_ws fl level) = indent fl level.
Proof. unfold indent_ws, indent. destruct (pretty fl), (pretty_tab fl); try reflexivity; apply render_ws_repeat. Qed.
Lemma render_prefix fl level : render_ws (prefix_ws fl level) = child_prefix fl level.
Proof.
  unfold prefix_ws, child_prefix. rewrite !render_ws_app, render_indent.
  destruct (pretty fl), (spaced fl); reflexivity.
Qed.
Lemma close_eq fl level had c : container_close fl level had c = render_ws (close_ws fl level had) ++ [c].
Proof.
  unfold container_close, close_ws. rewrite render_ws_app.
  destruct (pretty fl && had); cbn [render_ws map]; fold (render_ws (indent_ws fl level)); rewrite ?render_indent;
    destruct (spaced fl && negb (pretty fl)); cbn [render_ws map app wsc_byte]; rewrite <- ?app_assoc; reflexivity.
Qed.
Lemma colon_eq fl : colon fl = [58] ++ render_ws (colon_ws fl).
Proof. unfold colon, colon_ws. destruct (spaced fl); reflexivity. Qed.

Lemma colored_nocolor fl col body : color fl = false -> colored fl col body = body.
Proof. intros H. unfold colored. rewrite H. reflexivity. Qed.

(* ------------------------------------------------------------------ the guard: trees the property speaks about *)
(* [P] at every node *)
Fixpoint jv_Forall (P : jv -> Prop) (v : jv) : Prop :=
  P v /\
  match v with
  | JArr l => (fix go (l : list jv) : Prop := match l with [] => True | x :: r => jv_Forall P x /\ go r end) l
  | JObj l => (fix go (l : list (list byte * jv)) : Prop :=
                 match l with [] => True | x :: r => jv_Forall P (snd x) /\ go r end) l
  | _ => True
  end.
Lemma jv_Forall_here P v : jv_Forall P v -> P v.
Proof. destruct v; cbn; tauto. Qed.
Lemma jv_Forall_arr P l : jv_Forall P (JArr l) -> Forall (jv_Forall P) l.
Proof. cbn [jv_Forall]. intros [_ H]. induction l as [|x r IH]; constructor; [tauto|apply IH; tauto]. Qed.
Lemma jv_Forall_obj P l : jv_Forall P (JObj l) -> Forall (fun kv => jv_Forall P (snd kv)) l.
Proof. cbn [jv_Forall]. intros [_ H]. induction l as [|x r IH]; constructor; [tauto|apply IH; tauto]. Qed.

Section Valid.
Variable fmt17 : Z -> list byte.

(* hypothesis on the libc oracle (validated against libc on every check run) *)
Definition fmt17_ok : Prop :=
  forall bits, dbl_finite bits = true -> exists n, g17_shape n /\ render_num n = fmt17 bits.

(* what a node must satisfy for the property to speak about it:
   strings and member names are byte strings; a uint64 node is not negative;
   a double is finite (NaN / Infinity are not JSON), also when it carries a retained text (a
   setter or a serializer reset makes it print through %.17g);
   a retained text (json_object_new_double_s, parser) is an RFC 8259 number token *)
Definition node_ok (v : jv) : Prop :=
  match v with
  | JUint z => 0 <= z
  | JStr s => Forall byte_ok s
  | JObj l => Forall (fun kv => Forall byte_ok (fst kv)) l
  | JDouble bits None => dbl_finite bits = true
  | JDouble bits (Some t) => dbl_finite bits = true /\ exists n, num_ok n = true /\ render_num n = c_str t
  | _ => True
  end.

(* "the RFC value [r] is exactly the tree [v]": integers exactly; a double by the exact
   decimal value of its %.17g text (resp. of its retained text) — see [double_reads_back];
   strings byte for byte; members in order, names as C strings *)
Inductive denotes : rv -> jv -> Prop :=
| DNull : denotes RNull JNull
| DBool b : denotes (RBool b) (JBool b)
| DInt z : denotes (RNum z 0) (JInt z)
| DUint z : denotes (RNum z 0) (JUint z)
| DDbl m e bits n0 : num_ok n0 = true -> render_num n0 = fmt17 bits -> dec_eq (m, e) (num_val n0) ->
                     denotes (RNum m e) (JDouble bits None)
| DDblText m e bits t n0 : num_ok n0 = true -> render_num n0 = c_str t -> dec_eq (m, e) (num_val n0) ->
                     denotes (RNum m e) (JDouble bits (Some t))
| DStr s : denotes (RStr s) (JStr s)
| DArr rs vs : Forall2 denotes rs vs -> denotes (RArr rs) (JArr vs)
| DObj rs vs : Forall2 (fun rk vk => fst rk = c_str (fst vk) /\ denotes (snd rk) (snd vk)) rs vs ->
               denotes (RObj rs) (JObj vs).

Lemma child_text_nocolor fl lv x : color fl = false ->
  child_text fl (serialize fmt17 fl lv) x = serialize fmt17 fl lv x.
Proof. intros H. destruct x; try reflexivity. cbn. apply colored_nocolor. exact H. Qed.

Lemma double_text_finite fl bits : dbl_finite bits = true -> double_text fmt17 fl bits = double_fixup fl (fmt17 bits).
Proof.
  unfold dbl_finite, double_text, dbl_is_nan, dbl_is_inf. intros H. apply negb_true_iff in H. rewrite H. reflexivity.
Qed.

Definition valid_for (fl : sflags) (level : nat) (v : jv) : Prop :=
  exists s, stx_ok s = true /\ render s = serialize fmt17 fl level v /\ denotes (value s) v.

Lemma ser_valid_rec (Hfmt : fmt17_ok) fl : color fl = false ->
  forall v, jv_Forall node_ok v -> forall level, valid_for fl level v.
Proof.
  intros Hc. induction v using jv_ind'; intros G level; pose proof (jv_Forall_here _ _ G) as Hn; cbn [node_ok] in Hn.
  - exists SNull. repeat split. constructor.
  - exists (if b then STrue else SFalse). cbn [serialize]. rewrite colored_nocolor by exact Hc.
    destruct b; repeat split; constructor.
  - destruct (int_token z) as (n & H1 & H2 & H3). exists (SNum n). cbn [stx_ok render value serialize].
    rewrite H3. repeat split; auto. constructor.
  - destruct (uint_token z Hn) as (n & H1 & H2 & H3). exists (SNum n). cbn [stx_ok render value serialize].
    rewrite H3. repeat split; auto. constructor.
  - destruct t as [t|].
    + destruct Hn as (_ & n & H1 & H2). exists (SNum n). cbn [stx_ok render value serialize]. repeat split; auto.
      apply (DDblText _ _ _ _ n); auto. destruct (num_val n). apply dec_eq_refl.
    + rename Hn into Hfin. destruct (Hfmt b Hfin) as (n0 & Hshape & Hr).
      destruct (double_fixup_shape fl n0 Hshape) as (n' & H1 & H2 & H3 & _).
      exists (SNum n'). cbn [stx_ok render value serialize]. rewrite double_text_finite by exact Hfin.
      rewrite <- Hr. repeat split; auto. apply (DDbl _ _ _ n0); [apply Hshape|exact Hr|].
      destruct (num_val n'). exact H3.
  - destruct (string_spec fl s Hn) as (S1 & S2 & S3). exists (SStr (map (char_stx fl) s)).
    cbn [stx_ok render value serialize]. rewrite colored_nocolor by exact Hc. rewrite S3. repeat split; auto. constructor.
  - (* arrays *)
    pose proof (jv_Forall_arr _ _ G) as Gl.
    assert (Hall : Forall (fun x => exists s, stx_ok s = true /\ render s = serialize fmt17 fl (S level) x /\ denotes (value s) x) l).
    { clear G Hn. induction H as [|x r Hx _ IH]; [constructor|]. inversion Gl; subst. constructor; [apply Hx; assumption|apply IH; assumption]. }
    apply Forall_exists_list in Hall. destruct Hall as [ss Hss].
    assert (Hmap : map render ss = map (child_text fl (serialize fmt17 fl (S level))) l).
    { clear -Hss Hc. induction Hss as [|x s r rs (_ & Hr & _) _ IH]; [reflexivity|]. cbn [map].
      rewrite IH, child_text_nocolor by exact Hc. f_equal. exact Hr. }
    assert (Hok : forallb stx_ok ss = true).
    { clear -Hss. induction Hss as [|x s r rs (Ho & _) _ IH]; [reflexivity|]. cbn. rewrite Ho, IH. reflexivity. }
    assert (Hden : Forall2 denotes (map value ss) l).
    { clear -Hss. induction Hss as [|x s r rs (_ & _ & Hd) _ IH]; constructor; assumption. }
    assert (Hlen : ss = [] <-> l = []).
    { clear -Hss. destruct Hss; split; intros; (reflexivity || discriminate). }
    unfold valid_for. cbn [serialize]. rewrite <- Hmap, close_eq.
    destruct l as [|x0 l'].
    + assert (ss = []) by (apply Hlen; reflexivity). subst ss.
      exists (SArr [] (close_ws fl level false)). repeat split. constructor. constructor.
    + assert (Hne : ss <> []) by (intros E; apply Hlen in E; discriminate).
      exists (SArr (mk_items (prefix_ws fl level) (close_ws fl level true) ss) []). split; [|split].
      * cbn [stx_ok]. rewrite items_ok. exact Hok.
      * rewrite render_arr by (apply items_nonempty; exact Hne).
        rewrite map_items, join_decorate by (destruct ss; [congruence|discriminate]).
        rewrite render_prefix. cbn [nonempty app]. rewrite <- !app_assoc. reflexivity.
      * cbn [value]. rewrite items_value. constructor. exact Hden.
  - (* objects *)
    pose proof (jv_Forall_obj _ _ G) as Gl.
    assert (Hall : Forall (fun kv => exists s, stx_ok s = true /\ render s = serialize fmt17 fl (S level) (snd kv) /\ denotes (value s) (snd kv)) l).
    { clear G Hn. induction H as [|x r Hx _ IH]; [constructor|]. inversion Gl; subst. constructor; [apply Hx; assumption|apply IH; assumption]. }
    apply Forall_exists_list in Hall. destruct Hall as [ss Hss].
    set (keys := map (fun kv => map (char_stx fl) (c_str (fst kv))) l).
    set (ks := combine keys ss).
    assert (Hks : Forall2 (fun kv ks1 =>
              render_string (fst ks1) = quoted fl (c_str (fst kv)) /\ forallb schar_ok (fst ks1) = true /\
              string_value (fst ks1) = c_str (fst kv) /\
              stx_ok (snd ks1) = true /\ render (snd ks1) = serialize fmt17 fl (S level) (snd kv) /\
              denotes (value (snd ks1)) (snd kv)) l ks).
    { subst ks keys. clear -Hss Hn. induction Hss as [|x s r rs (H1 & H2 & H3) _ IH]; [constructor|].
      inversion Hn; subst. cbn [map combine]. constructor; [|apply IH; assumption].
      destruct (string_spec fl (c_str (fst x)) (c_str_bytes_ok _ H4)) as (S1 & S2 & S3). cbn [fst snd]. tauto. }
    clearbody ks. clear keys Hss.
    assert (Hmap : map (kv_text (colon_ws fl)) ks =
                   map (fun kv => colored fl c_blue (quoted fl (c_str (fst kv))) ++ colon fl ++
                                  child_text fl (serialize fmt17 fl (S level)) (snd kv)) l).
    { clear -Hks Hc. induction Hks as [|x s r rs (K1 & _ & _ & _ & K5 & _) _ IH]; [reflexivity|]. cbn [map].
      rewrite IH, child_text_nocolor, colored_nocolor, colon_eq by exact Hc. f_equal.
      unfold kv_text. rewrite K1, K5, <- !app_assoc. reflexivity. }
    assert (Hok : forallb (fun ks1 => forallb schar_ok (fst ks1) && stx_ok (snd ks1)) ks = true).
    { clear -Hks. induction Hks as [|x s r rs (_ & K2 & _ & K4 & _) _ IH]; [reflexivity|]. cbn [forallb]. rewrite K2, K4, IH. reflexivity. }
    assert (Hden : Forall2 (fun rk vk => fst rk = c_str (fst vk) /\ denotes (snd rk) (snd vk))
                     (map (fun ks1 => (string_value (fst ks1), value (snd ks1))) ks) l).
    { clear -Hks. induction Hks as [|x s r rs (_ & _ & K3 & _ & _ & K6) _ IH]; constructor; [|exact IH]. cbn [fst snd]. tauto. }
    assert (Hlen : ks = [] <-> l = []).
    { clear -Hks. destruct Hks; split; intros; (reflexivity || discriminate). }
    unfold valid_for. cbn [serialize]. rewrite <- Hmap, close_eq.
    destruct l as [|x0 l'].
    + assert (ks = []) by (apply Hlen; reflexivity). subst ks.
      exists (SObj [] (close_ws fl level false)). repeat split. constructor. constructor.
    + assert (Hne : ks <> []) by (intros E; apply Hlen in E; discriminate).
      exists (SObj (mk_members (prefix_ws fl level) (colon_ws fl) (close_ws fl level true) ks) []). split; [|split].
      * cbn [stx_ok]. rewrite members_ok. exact Hok.
      * rewrite render_obj by (apply members_nonempty; exact Hne).
        rewrite map_members, join_decorate by (destruct ks; [congruence|discriminate]).
        rewrite render_prefix. cbn [nonempty app]. rewrite <- !app_assoc. reflexivity.
      * cbn [value]. rewrite members_value. constructor. exact Hden.
Qed.

(* C02, first sentence.  For every tree and every flag word without COLOR: RFC 8259 text that
   denotes exactly the tree (no surrounding whitespace). *)
Theorem ser_is_valid (Hfmt : fmt17_ok) fl v : color fl = false -> jv_Forall node_ok v ->
  exists s, stx_ok s = true /\ render s = serialize fmt17 fl 0 v /\ denotes (value s) v.
Proof. intros Hc G. exact (ser_valid_rec Hfmt fl Hc v G 0%nat). Qed.

Corollary ser_is_rfc8259 (Hfmt : fmt17_ok) fl v : color fl = false -> jv_Forall node_ok v ->
  rfc8259_text (serialize fmt17 fl 0 v).
Proof.
  intros Hc G. destruct (ser_is_valid Hfmt fl v Hc G) as (s & H1 & H2 & _).
  exists [], s, []. split; [exact H1|]. cbn. rewrite app_nil_r. symmetry. exact H2.
Qed.

(* the reported length is the text length (json_object_to_json_string_length) *)
Lemma reported_length flags v : snd (to_json_string_length fmt17 flags v) = zlen (fst (to_json_string_length fmt17 flags v)).
Proof. reflexivity. Qed.

End Valid.

(* ------------------------------------------------------------------ a double token reads back as the double *)
(* For ANY reader of number tokens that depends only on the exact decimal value and that
   maps the %.17g text of a double back to that double (the 17-significant-digit round trip
   of IEEE 754, validated against libc on every run), the token the serializer emitted
   reads back as the double — with ".0" appended, with the fraction trimmed, as is. *)
Theorem double_reads_back fmt17 (reads : Z * Z -> Z) m e bits :
  (forall a b, dec_eq a b -> reads a = reads b) ->
  (forall n0, num_ok n0 = true -> render_num n0 = fmt17 bits -> reads (num_val n0) = bits) ->
  denotes fmt17 (RNum m e) (JDouble bits None) -> reads (m, e) = bits.
Proof.
  intros Hp Hr Hd. inversion Hd as [| | | |m' e' b' n0 Hok Hrn Heq| | | |]; subst.
  rewrite (Hp _ _ Heq). apply Hr; assumption.
Qed.

(* ------------------------------------------------------------------ significant bytes *)
Lemma sig_run_app st a b :
  sig_run st (a ++ b) = (fst (sig_run (fst (sig_run st a)) b), snd (sig_run st a) ++ snd (sig_run (fst (sig_run st a)) b)).
Proof.
  revert st. induction a as [|c a IH]; intros st; cbn [app sig_run].
  - cbn. destruct (sig_run st b); reflexivity.
  - destruct (sig_step st c) as [st1 o1]. rewrite IH.
    destruct (sig_run st1 a) as [st2 o2]. cbn [fst snd]. destruct (sig_run st2 b) as [st3 o3]. cbn [fst snd].
    rewrite app_assoc. reflexivity.
Qed.
(* two pieces that both end between tokens *)
Lemma sig_run_app_out a b oa ob :
  sig_run LOut a = (LOut, oa) -> sig_run LOut b = (LOut, ob) -> sig_run LOut (a ++ b) = (LOut, oa ++ ob).
Proof. intros Ha Hb. rewrite sig_run_app, Ha. cbn [fst snd]. rewrite Hb. reflexivity. Qed.

Lemma sig_ws w : sig_run LOut (render_ws w) = (LOut, []).
Proof. induction w as [|c w IH]; [reflexivity|]. cbn [render_ws map sig_run]. fold (render_ws w). destruct c; cbn; rewrite IH; reflexivity. Qed.

(* an atom: no whitespace, ESC or quote *)
Definition plain_byte (c : byte) : bool := negb (is_ws_byte c) && negb (c =? 27) && negb (c =? 34).
Lemma sig_plain t : forallb plain_byte t = true -> sig_run LOut t = (LOut, t).
Proof.
  induction t as [|c t IH]; [reflexivity|]. cbn [forallb]. intros H. apply andb_true_iff in H. destruct H as [Hc Ht].
  cbn [sig_run sig_step]. unfold plain_byte in Hc. apply andb_true_iff in Hc. destruct Hc as [Hc H34].
  apply andb_true_iff in Hc. destruct Hc as [Hws H27]. apply negb_true_iff in Hws, H27, H34.
  rewrite Hws, H27, H34, (IH Ht). reflexivity.
Qed.
Lemma digits_plain ds : forallb digit ds = true -> forallb plain_byte ds = true.
Proof.
  induction ds as [|c ds IH]; [reflexivity|]. cbn [forallb]. intros H. apply andb_true_iff in H. destruct H as [Hc Hd].
  rewrite (IH Hd), andb_true_r. unfold digit in Hc. unfold plain_byte, is_ws_byte. lia.
Qed.
Lemma num_plain n : num_ok n = true -> forallb plain_byte (render_num n) = true.
Proof.
  destruct n as [neg i f e]. intros H. apply num_ok_iff in H. destruct H as (O1 & _ & O3 & O4).
  rewrite render_num_eq, !forallb_app. apply digits1_forall in O1. destruct O1 as [O1 _].
  rewrite (digits_plain _ O1). replace (forallb plain_byte (if neg then [45] else [])) with true by (destruct neg; reflexivity).
  cbn [andb]. apply andb_true_iff. split.
  - destruct f as [fr|]; [|reflexivity]. apply digits1_forall in O3. destruct O3 as [O3 _]. cbn [render_frac forallb].
    rewrite (digits_plain _ O3). reflexivity.
  - destruct e as [[[up sg] ds]|]; [|reflexivity]. apply digits1_forall in O4. destruct O4 as [O4 _].
    cbn [render_exp forallb]. rewrite forallb_app, (digits_plain _ O4). destruct up, sg; reflexivity.
Qed.

Definition cfl : sflags := fl_ns true.      (* the canonical spelling: compact, solidus unescaped *)

(* string literals: every escape form survives, except that of the solidus *)
Definition lexst_is_str (s : lexst) : bool := match s with LStr => true | _ => false end.
Definition char_sig_ok (ns : bool) (c : byte) : bool :=
  lexst_is_str (fst (sig_run LStr (escape_char (fl_ns ns) c))) &&
  bytes_eqb (snd (sig_run LStr (escape_char (fl_ns ns) c))) (escape_char cfl c).
Lemma char_sig fl c : byte_ok c -> sig_run LStr (escape_char fl c) = (LStr, escape_char cfl c).
Proof.
  intros Hc.
  assert (Ht : forallb (char_sig_ok true) (zrange 0 256) = true) by (vm_compute; reflexivity).
  assert (Hf : forallb (char_sig_ok false) (zrange 0 256) = true) by (vm_compute; reflexivity).
  rewrite escape_char_ns.
  assert (H : char_sig_ok (noslash fl) c = true).
  { destruct (noslash fl); [apply (zrange_forall _ _ 0 Ht)|apply (zrange_forall _ _ 0 Hf)]; unfold byte_ok in Hc; lia. }
  unfold char_sig_ok in H. apply andb_true_iff in H. destruct H as [H1 H2]. apply bytes_eqb_eq in H2.
  rewrite (surjective_pairing (sig_run LStr (escape_char (fl_ns (noslash fl)) c))), H2. f_equal.
  generalize dependent (fst (sig_run LStr (escape_char (fl_ns (noslash fl)) c))). intros st; destruct st; (reflexivity || discriminate).
Qed.
Lemma escape_sig fl s : Forall byte_ok s -> sig_run LStr (escape_str fl s) = (LStr, escape_str cfl s).
Proof.
  induction 1 as [|c s Hc _ IH]; [reflexivity|]. unfold escape_str in *. cbn [flat_map].
  rewrite sig_run_app, (char_sig fl c Hc). cbn [fst snd]. rewrite IH. reflexivity.
Qed.
Lemma quoted_sig fl s : Forall byte_ok s -> sig_run LOut (quoted fl s) = (LOut, quoted cfl s).
Proof.
  intros H. unfold quoted. change (34 :: escape_str fl s ++ [34]) with ([34] ++ escape_str fl s ++ [34]).
  rewrite sig_run_app. change (sig_run LOut [34]) with (LStr, [34]). cbn [fst snd].
  rewrite sig_run_app, (escape_sig fl s H). cbn [fst snd]. reflexivity.
Qed.
Lemma colored_sig fl col body o : In col [c_green; c_blue; c_magenta] ->
  sig_run LOut body = (LOut, o) -> sig_run LOut (colored fl col body) = (LOut, o).
Proof.
  intros Hin Hb. unfold colored. destruct (color fl); [|exact Hb].
  assert (Hcol : sig_run LOut col = (LOut, [])) by (cbn in Hin; destruct Hin as [<-|[<-|[<-|[]]]]; reflexivity).
  rewrite (sig_run_app_out col (body ++ c_reset) [] o Hcol); [reflexivity|].
  rewrite <- (app_nil_r o). apply sig_run_app_out; [exact Hb|reflexivity].
Qed.

(* number tokens of num_ok shape: where the decimal point and the comma are *)
Lemma render_num_split neg i f e : num_ok (mknum neg i f e) = true ->
  split_at 44 (render_num (mknum neg i f e)) = None /\
  split_at 46 (render_num (mknum neg i f e)) =
    match f with Some fr => Some ((if neg then [45] else []) ++ i, fr ++ render_exp e) | None => None end.
Proof.
  intros Hok. apply num_ok_iff in Hok. destruct Hok as (O1 & O2 & O3 & O4).
  destruct (digits1_forall _ O1) as [Hi Hine].
  rewrite render_num_eq. set (sg := if neg then [45] else [] : list byte) in *.
  assert (Hsg : forall c, digit c = false -> c <> 45 -> has_byte c (sg ++ i) = false).
  { intros c Hc H45. rewrite has_byte_app, (digits_no_byte c i Hi Hc). subst sg. destruct neg; cbn [has_byte]; lia. }
  assert (Hex : forall c, digit c = false -> c <> 101 -> c <> 69 -> c <> 43 -> c <> 45 -> has_byte c (render_exp e) = false).
  { intros c ? ? ? ? ?. apply no_byte_exp; auto. destruct e as [[[? ?] ?]|]; [exact O4|exact I]. }
  split.
  - apply split_at_none. rewrite (has_byte_app 44 (sg ++ i)), (Hsg 44) by (reflexivity || lia).
    rewrite has_byte_app, (Hex 44) by (reflexivity || lia).
    destruct f as [fr|]; cbn [render_frac has_byte]; [|reflexivity].
    destruct (digits1_forall _ O3) as [Hfd _]. rewrite (digits_no_byte 44 fr Hfd eq_refl). reflexivity.
  - destruct f as [fr|]; cbn [render_frac].
    + change ((46 :: fr) ++ render_exp e) with (46 :: fr ++ render_exp e).
      apply split_at_first. apply Hsg; [reflexivity|lia].
    + cbn [app]. apply split_at_none. rewrite has_byte_app, (Hsg 46), (Hex 46) by (reflexivity || lia). reflexivity.
Qed.

(* NOZERO changes nothing on a %.17g text: its fraction does not end in 0 and its exponent is kept *)
Lemma double_fixup_flags fl n0 :
  g17_shape n0 -> double_fixup fl (render_num n0) = double_fixup flags_plain (render_num n0).
Proof.
  intros (Hok & Hup & Hlen & Hg). destruct n0 as [neg i f e]. cbn [n_exp n_frac] in Hup, Hg.
  destruct (render_num_split neg i f e Hok) as [H44 H46].
  unfold double_fixup. rewrite !double_fixup_eq by assumption. rewrite H46.
  destruct f as [fr|]; [|reflexivity]. cbn [nozero flags_plain].
  destruct (nozero fl) eqn:Enz; [|reflexivity].
  pose proof Hok as Hok'. apply num_ok_iff in Hok'. destruct Hok' as (O1 & O2 & O3 & O4).
  destruct (digits1_forall _ O3) as [Hfd _].
  rewrite (nozero_keeps_exponent fr e Hfd), (trim_zeros_id fr Hg).
  cbv zeta. rewrite render_num_eq in *. cbn [render_frac] in *.
  change ((46 :: fr) ++ render_exp e) with (46 :: fr ++ render_exp e) in *.
  replace (zlen (((if neg then [45] else []) ++ i) ++ 46 :: fr ++ render_exp e) >=? 128) with false by lia.
  cbv iota. apply zfirstn_all. lia.
Qed.

Section Flags.
Variable fmt17 : Z -> list byte.
Hypothesis Hfmt : fmt17_ok fmt17.

Lemma jv_Forall_impl (P Q : jv -> Prop) : (forall v, P v -> Q v) -> forall v, jv_Forall P v -> jv_Forall Q v.
Proof.
  intros HPQ. induction v using jv_ind'; cbn [jv_Forall]; intros [Hh Ht]; (split; [apply HPQ; exact Hh|]); try exact I.
  - clear Hh. induction H as [|x r Hx _ IH]; [exact I|]. destruct Ht as [T1 T2]. split; [apply Hx; exact T1|apply IH; exact T2].
  - clear Hh. induction H as [|x r Hx _ IH]; [exact I|]. destruct Ht as [T1 T2]. split; [apply Hx; exact T1|apply IH; exact T2].
Qed.

Lemma double_sig fl bits : node_ok (JDouble bits None) ->
  sig_run LOut (double_text fmt17 fl bits) = (LOut, double_text fmt17 cfl bits).
Proof.
  intros Hfin. cbn [node_ok] in Hfin. rewrite !double_text_finite by exact Hfin.
  destruct (Hfmt bits Hfin) as (n0 & Hshape & Hr). rewrite <- Hr in *.
  rewrite (double_fixup_flags fl n0 Hshape), (double_fixup_flags cfl n0 Hshape).
  destruct (double_fixup_shape flags_plain n0 Hshape) as (n' & H1 & H2 & _ & _).
  rewrite <- H2. apply sig_plain, num_plain, H1.
Qed.

Lemma dec_u_plain z : 0 <= z -> forallb plain_byte (dec_u z) = true.
Proof. intros Hz. destruct (dec_u_spec z Hz) as (H & _). apply digits1_forall in H. apply digits_plain, H. Qed.

Lemma close_sig fl level had c : plain_byte c = true ->
  sig_run LOut (container_close fl level had c) = (LOut, container_close cfl 0 had c).
Proof.
  intros Hc. rewrite close_eq. unfold container_close, cfl, fl_ns. cbn [pretty spaced andb negb app].
  rewrite <- (app_nil_l [c]) at 2. apply sig_run_app_out; [apply sig_ws|]. apply sig_plain. cbn. rewrite Hc. reflexivity.
Qed.

(* the children of a container *)
Lemma join_sig pre (xs ys : list (list byte)) :
  sig_run LOut pre = (LOut, []) ->
  Forall2 (fun x y => sig_run LOut x = (LOut, y)) xs ys ->
  forall had, sig_run LOut (join_children pre xs had) = (LOut, join_children [] ys had).
Proof.
  intros Hpre H. induction H as [|x y xs ys Hxy _ IH]; intros had; [reflexivity|].
  cbn [join_children app].
  apply sig_run_app_out; [destruct had; reflexivity|].
  rewrite <- (app_nil_l (y ++ _)). apply sig_run_app_out; [exact Hpre|].
  apply sig_run_app_out; [exact Hxy|apply IH].
Qed.

Lemma child_sig fl x level level' :
  (jv_Forall node_ok x -> forall l l', sig_run LOut (serialize fmt17 fl l x) = (LOut, serialize fmt17 cfl l' x)) ->
  jv_Forall node_ok x ->
  sig_run LOut (child_text fl (serialize fmt17 fl level) x) = (LOut, child_text cfl (serialize fmt17 cfl level') x).
Proof.
  intros Hrec G. destruct x; cbn [child_text]; try (apply Hrec; exact G).
  apply colored_sig; [cbn; tauto|reflexivity].
Qed.

Lemma ser_sig fl : forall v, jv_Forall node_ok v -> forall level level',
  sig_run LOut (serialize fmt17 fl level v) = (LOut, serialize fmt17 cfl level' v).
Proof.
  induction v using jv_ind'; intros G level level'; pose proof (jv_Forall_here _ _ G) as Hn; cbn [node_ok] in Hn.
  - reflexivity.
  - cbn [serialize]. apply colored_sig; [cbn; tauto|]. destruct b; reflexivity.
  - cbn [serialize]. apply sig_plain. destruct (int_token z) as (n & H1 & H2 & _). rewrite <- H2. apply num_plain, H1.
  - cbn [serialize]. apply sig_plain, dec_u_plain, Hn.
  - destruct t as [t|]; cbn [serialize].
    + destruct Hn as (_ & n & H1 & H2). rewrite <- H2. apply sig_plain, num_plain, H1.
    + apply double_sig. exact Hn.
  - cbn [serialize]. apply colored_sig; [cbn; tauto|]. unfold colored, cfl, fl_ns. cbn [color]. apply quoted_sig, Hn.
  - (* arrays *)
    pose proof (jv_Forall_arr _ _ G) as Gl. cbn [serialize].
    apply (sig_run_app_out [91] _ [91]); [reflexivity|].
    apply sig_run_app_out.
    + apply join_sig; [rewrite <- render_prefix; apply sig_ws|].
      clear G Hn. induction H as [|x r Hx _ IH]; [constructor|]. inversion Gl; subst. cbn [map].
      constructor; [|apply IH; assumption].
      apply child_sig; assumption.
    + replace (container_close cfl level' (nonempty l) 93) with (container_close cfl 0 (nonempty l) 93) by reflexivity.
      apply close_sig. reflexivity.
  - (* objects *)
    pose proof (jv_Forall_obj _ _ G) as Gl. cbn [serialize].
    apply (sig_run_app_out [123] _ [123]); [reflexivity|].
    apply sig_run_app_out.
    + apply join_sig; [rewrite <- render_prefix; apply sig_ws|].
      clear G. induction H as [|x r Hx _ IH]; [constructor|]. inversion Gl; subst. inversion Hn; subst. cbn [map].
      constructor; [|apply IH; assumption].
      apply sig_run_app_out.
      * apply colored_sig; [cbn; tauto|]. unfold colored, cfl, fl_ns. cbn [color]. apply quoted_sig, c_str_bytes_ok. assumption.
      * apply sig_run_app_out; [unfold colon, cfl, fl_ns; cbn [spaced]; destruct (spaced fl); reflexivity|].
        apply child_sig; assumption.
    + replace (container_close cfl level' (nonempty l) 125) with (container_close cfl 0 (nonempty l) 125) by reflexivity.
      apply close_sig. reflexivity.
Qed.

(* C02, second sentence, at full strength: formatting flags (all 64 words, NOZERO and COLOR
   included) change only insignificant whitespace, colour sequences and the escape form of
   the solidus. *)
Theorem flags_only_whitespace fl v : jv_Forall node_ok v ->
  significant (serialize fmt17 fl 0 v) = significant (serialize fmt17 flags_plain 0 v).
Proof.
  intros G. unfold significant. rewrite (ser_sig fl v G 0%nat 0%nat), (ser_sig flags_plain v G 0%nat 0%nat). reflexivity.
Qed.

End Flags.

(* non-vacuity on the two doubles that the scan before commit c53b19e spoiled: with an oracle that
   prints 1.5e+20 and 2.5000000000000002e-10 as libc does, the text under JSON_C_TO_STRING_NOZERO is the
   %.17g text, exponent intact *)
Definition w_bits : Z := 4908997630925220144.                               (* 0x442043561A882930 = 1.5e+20 *)
Definition w_text : list byte := [49;46;53;101;43;50;48].                    (* 1.5e+20 *)
Definition w_tok : numtok := mknum false [49] (Some [53]) (Some (false, EPlus, [50;48])).
Definition w2_bits : Z := 4463399334375249557.                              (* 0x3DF12E0BE826D695 = 2.5e-10 *)
Definition w2_text : list byte := [50;46;53;48;48;48;48;48;48;48;48;48;48;48;48;48;48;50;101;45;49;48].   (* 2.5000000000000002e-10 *)
Definition w2_tok : numtok := mknum false [50] (Some [53;48;48;48;48;48;48;48;48;48;48;48;48;48;48;50]) (Some (false, EMinus, [49;48])).
Definition w_fmt17 : Z -> list byte := fun bits => if bits =? w2_bits then w2_text else w_text.
Definition w_flags : sflags := mkfl false false true false false false.     (* JSON_C_TO_STRING_NOZERO *)

Lemma w_fmt17_ok : fmt17_ok w_fmt17.
Proof.
  intros bits _. unfold w_fmt17. destruct (bits =? w2_bits).
  - exists w2_tok. split; [|reflexivity]. repeat split; try reflexivity; cbn; lia.
  - exists w_tok. split; [|reflexivity]. repeat split; try reflexivity; cbn; lia.
Qed.

Lemma nozero_examples :
  serialize w_fmt17 w_flags 0 (JDouble w_bits None) = w_text /\
  serialize w_fmt17 w_flags 0 (JDouble w2_bits None) = w2_text /\
  significant (serialize w_fmt17 w_flags 0 (JArr [JDouble w_bits None; JDouble w2_bits None]))
  = significant (serialize w_fmt17 flags_plain 0 (JArr [JDouble w_bits None; JDouble w2_bits None])).
Proof. repeat split; vm_compute; reflexivity. Qed.

(* ------------------------------------------------------------------ round trip through the tokener model *)
From JC Require TokModel EqModel.

Section RoundTrip.
Variable fmt17 : Z -> list byte.
Variable strtod : list byte -> Z.

(* json_tokener_new(); json_tokener_parse_ex(tok, text, -1) *)
Definition reparse (text : list byte) : option jv :=
  match TokModel.tok_new 32 false false false with
  | Some t => match TokModel.parse_ex_cstr strtod t text with
              | TokModel.PR t' (Some v') => match TokModel.err t' with TokModel.TE_success => Some v' | _ => None end
              | _ => None
              end
  | None => None
  end.

(* the three facts the property states about the round trip, for one tree and flag word:
   json-c re-parses its own output, the result is json_object_equal to the original, and
   serializing it again under the same flags reproduces the text *)
Definition roundtrip_ok (fl : sflags) (v : jv) : Prop :=
  exists v', reparse (serialize fmt17 fl 0 v) = Some v' /\
             EqModel.jv_equal v v' = true /\
             serialize fmt17 fl 0 v' = serialize fmt17 fl 0 v.
Definition roundtrip_okb (fl : sflags) (v : jv) : bool :=
  match reparse (serialize fmt17 fl 0 v) with
  | Some v' => EqModel.jv_equal v v' && bytes_eqb (serialize fmt17 fl 0 v') (serialize fmt17 fl 0 v)
  | None => false
  end.
Lemma roundtrip_okb_ok fl v : roundtrip_okb fl v = true -> roundtrip_ok fl v.
Proof.
  unfold roundtrip_okb, roundtrip_ok. destruct (reparse _) as [v'|]; [|discriminate]. intros H.
  apply andb_true_iff in H. destruct H as [H1 H2]. exists v'. repeat split; [exact H1|apply bytes_eqb_eq, H2].
Qed.
End RoundTrip.

(* ---- symbolic execution of the tokener model on the serializer's scalar texts ---- *)
Module RT.
Import TokModel.

Section Run.
Variable strtod : list byte -> Z.

Lemma run_cons b rest t l : run strtod (b :: rest) t l =
      match (if validate_utf8 t then validate_utf8_step b (nbytes l) else Some (nbytes l)) with
      | None => LOut (set_err t TE_utf8) l
      | Some nb =>
          let l := mkloc b nb (lobj l) (lnum l) in
          match redo strtod REDO_FUEL t l with
          | None => LFuel
          | Some (Consumed t' l') =>
              let t' := set_off t' (char_offset t' + 1) in
              if b =? 0 then LOut t' l' else run strtod rest t' l'
          | Some (Out t' l') => LOut t' l'
          | Some (Redo t' l') => LFuel
          end
      end.
Proof. reflexivity. Qed.
Local Opaque run.

(* the tokener of json_tokener_new() after parse_ex's prologue *)
Definition T0 : tok := mktok [fresh_level] 32 [] false 0 0 0 0 false false false 0 TE_success.
Definition L0 : locals := mkloc 1 0 JNull None.
Definition lc0 (c : byte) : locals := mkloc c 0 JNull None.
(* inside a top-level string literal *)
Definition Tstr (sv : tstate) (p : list byte) (sp ucs off : Z) : tok :=
  mktok [mksrec S_string sv JNull None] 32 p false sp ucs 0 34 false false false off TE_success.
(* a finished top-level value, waiting for the end of the text *)
Definition Tdone (v : jv) (p : list byte) (dbl : bool) (sp ucs : Z) (q : byte) (off : Z) : tok :=
  mktok [mksrec S_eatws S_finish v None] 32 p dbl sp ucs 0 q false false false off TE_success.

Lemma upto_nul_clean t : SerModel.has_byte 0 t = false -> upto_nul t = t ++ [0].
Proof.
  induction t as [|c t IH]; [reflexivity|]. cbn [SerModel.has_byte upto_nul app]. intros H.
  apply orb_false_iff in H. destruct H as [H1 H2]. rewrite H1, (IH H2). reflexivity.
Qed.

(* the end of the text: the terminating NUL after a finished value *)
Lemma run_done v p dbl sp ucs q off c0 n0 :
  run strtod [0] (Tdone v p dbl sp ucs q off) (mkloc c0 0 JNull n0) =
  LOut (mktok [mksrec S_finish S_finish v None] 32 p dbl sp ucs 0 q false false false off TE_success) (mkloc 0 0 JNull n0).
Proof. rewrite run_cons. reflexivity. Qed.

Lemma finish_done v p dbl sp ucs q off n0 :
  finish_call (mktok [mksrec S_finish S_finish v None] 32 p dbl sp ucs 0 q false false false off TE_success) (mkloc 0 0 JNull n0)
  = PR (mktok [fresh_level] 32 p dbl sp ucs 0 q false false false off TE_success) (Some v).
Proof. reflexivity. Qed.

(* ---------------- strings ---------------- *)
Lemma open_quote rest :
  run strtod (34 :: rest) T0 L0 = run strtod rest (Tstr S_start [] 0 0 1) (lc0 34).
Proof. rewrite run_cons. reflexivity. Qed.

Lemma close_quote sv p sp ucs off c0 rest :
  run strtod (34 :: rest) (Tstr sv p sp ucs off) (lc0 c0) =
  run strtod rest (Tdone (JStr p) p false sp ucs 34 (off + 1)) (lc0 34).
Proof. rewrite run_cons. reflexivity. Qed.

Lemma plain_step c sv p sp ucs off rest c0 :
  (c =? 34) = false -> (c =? 92) = false -> (c =? 0) = false ->
  run strtod (c :: rest) (Tstr sv p sp ucs off) (lc0 c0) =
  run strtod rest (Tstr sv (p ++ [c]) sp ucs (off + 1)) (lc0 c).
Proof.
  intros H1 H2 H3. rewrite run_cons. unfold Tstr. cbn [validate_utf8 nbytes lobj lnum].
  unfold REDO_FUEL. cbn [redo]. unfold step1. cbn [st top stack s_state lc quote_char strict].
  rewrite H1, H2. cbn. rewrite H3. reflexivity.
Qed.

Lemma run_step b rest t l t' l' :
  validate_utf8 t = false -> (b =? 0) = false ->
  redo strtod REDO_FUEL t (mkloc b (nbytes l) (lobj l) (lnum l)) = Some (Consumed t' l') ->
  run strtod (b :: rest) t l = run strtod rest (set_off t' (char_offset t' + 1)) l'.
Proof. intros Hv Hb Hr. rewrite run_cons, Hv. cbv zeta. rewrite Hr, Hb. reflexivity. Qed.

(* after a backslash; after backslash-u with [sp] hex digits read *)
Definition Tesc (p : list byte) (sp ucs off : Z) : tok :=
  mktok [mksrec S_string_escape S_string JNull None] 32 p false sp ucs 0 34 false false false off TE_success.
Definition Tuni (p : list byte) (sp ucs off : Z) : tok :=
  mktok [mksrec S_escape_unicode S_string JNull None] 32 p false sp ucs 0 34 false false false off TE_success.

Lemma run_backslash sv p sp ucs off c0 rest :
  run strtod (92 :: rest) (Tstr sv p sp ucs off) (lc0 c0) = run strtod rest (Tesc p sp ucs (off + 1)) (lc0 92).
Proof. rewrite (run_step 92 rest _ (lc0 c0) (Tesc p sp ucs off) (lc0 92)) by reflexivity. reflexivity. Qed.

(* the two-character escapes: (letter, byte denoted) *)
Definition esc2 : list (byte * byte) := [(98, 8); (110, 10); (114, 13); (116, 9); (102, 12); (34, 34); (92, 92); (47, 47)].
Lemma run_esc2 e v : In (e, v) esc2 -> forall p sp ucs off rest,
  run strtod (e :: rest) (Tesc p sp ucs off) (lc0 92) = run strtod rest (Tstr S_string (p ++ [v]) sp ucs (off + 1)) (lc0 e).
Proof.
  intros Hin p sp ucs off rest. cbn [In esc2] in Hin.
  repeat (destruct Hin as [Hin|Hin]; [injection Hin as <- <-;
    rewrite (run_step _ rest _ (lc0 92) (Tstr S_string (p ++ [_]) sp ucs off) (lc0 _)) by reflexivity; reflexivity|]).
  destruct Hin.
Qed.
Lemma run_u p sp ucs off rest :
  run strtod (117 :: rest) (Tesc p sp ucs off) (lc0 92) = run strtod rest (Tuni p 0 0 (off + 1)) (lc0 117).
Proof. rewrite (run_step 117 rest _ (lc0 92) (Tuni p 0 0 off) (lc0 117)) by reflexivity. reflexivity. Qed.
Lemma run_h0 p off c0 rest :
  run strtod (48 :: rest) (Tuni p 0 0 off) (lc0 c0) = run strtod rest (Tuni p 1 0 (off + 1)) (lc0 48).
Proof. rewrite (run_step 48 rest _ (lc0 c0) (Tuni p 1 0 off) (lc0 48)) by reflexivity. reflexivity. Qed.
Lemma run_h1 p off c0 rest :
  run strtod (48 :: rest) (Tuni p 1 0 off) (lc0 c0) = run strtod rest (Tuni p 2 0 (off + 1)) (lc0 48).
Proof. rewrite (run_step 48 rest _ (lc0 c0) (Tuni p 2 0 off) (lc0 48)) by reflexivity. reflexivity. Qed.

Lemma Forall_zrange (P : Z -> Prop) n : forall lo, Forall P (zrange lo n) -> forall u, lo <= u < lo + Z.of_nat n -> P u.
Proof.
  induction n as [|n IH]; intros lo H u Hu; [lia|]. cbn [zrange] in H. inversion H; subst.
  destruct (Z.eq_dec u lo) as [->|Hne]; [assumption|]. apply (IH (lo + 1)); [assumption|lia].
Qed.

(* the last two hex digits of backslash-u-0-0-X-Y for the byte c = 16 x + d < 32 *)
Definition uni_goal (c : Z) : Prop := forall p off c0 rest,
  run strtod (SerModel.hexchar (c / 16) :: SerModel.hexchar (c mod 16) :: rest) (Tuni p 2 0 off) (lc0 c0) =
  run strtod rest (Tstr S_string (p ++ [c]) 0 c (off + 1 + 1)) (lc0 (SerModel.hexchar (c mod 16))).
Lemma run_hex c : 0 <= c < 32 -> uni_goal c.
Proof.
  intros Hc. apply (Forall_zrange uni_goal 32 0); [|lia].
  change (zrange 0 32) with [0;1;2;3;4;5;6;7;8;9;10;11;12;13;14;15;16;17;18;19;20;21;22;23;24;25;26;27;28;29;30;31].
  repeat (constructor; [
    match goal with |- uni_goal ?c =>
      intros p off c0 rest;
      rewrite (run_step _ _ (Tuni p 2 0 off) (lc0 c0) (Tuni p 3 (c / 16 * 16) off) (lc0 (SerModel.hexchar (c / 16)))) by reflexivity;
      rewrite (run_step _ _ _ (lc0 (SerModel.hexchar (c / 16))) (Tstr S_string (p ++ [c]) 0 c (off + 1)) (lc0 (SerModel.hexchar (c mod 16)))) by reflexivity;
      reflexivity
    end|]).
  constructor.
Qed.

Definition string_byte_goal (fl : sflags) (c : byte) : Prop :=
  forall sv p sp ucs off rest c0, exists sv' sp' ucs' off' c0',
    run strtod (escape_char fl c ++ rest) (Tstr sv p sp ucs off) (lc0 c0) =
    run strtod rest (Tstr sv' (p ++ [c]) sp' ucs' off') (lc0 c0').

Lemma string_byte_esc2 fl c e : In (e, c) esc2 -> escape_char fl c = [92; e] -> string_byte_goal fl c.
Proof.
  intros Hin He sv p sp ucs off rest c0. rewrite He. cbn [app].
  rewrite run_backslash, (run_esc2 e c Hin). do 5 eexists. reflexivity.
Qed.

Lemma string_byte fl c : byte_ok c -> string_byte_goal fl c.
Proof.
  intros Hc. unfold byte_ok in Hc.
  destruct (c =? 8) eqn:E8; [apply Z.eqb_eq in E8; subst c; apply (string_byte_esc2 fl 8 98); cbn; tauto|].
  destruct (c =? 10) eqn:E10; [apply Z.eqb_eq in E10; subst c; apply (string_byte_esc2 fl 10 110); cbn; tauto|].
  destruct (c =? 13) eqn:E13; [apply Z.eqb_eq in E13; subst c; apply (string_byte_esc2 fl 13 114); cbn; tauto|].
  destruct (c =? 9) eqn:E9; [apply Z.eqb_eq in E9; subst c; apply (string_byte_esc2 fl 9 116); cbn; tauto|].
  destruct (c =? 12) eqn:E12; [apply Z.eqb_eq in E12; subst c; apply (string_byte_esc2 fl 12 102); cbn; tauto|].
  destruct (c =? 34) eqn:E34; [apply Z.eqb_eq in E34; subst c; apply (string_byte_esc2 fl 34 34); cbn; tauto|].
  destruct (c =? 92) eqn:E92; [apply Z.eqb_eq in E92; subst c; apply (string_byte_esc2 fl 92 92); cbn; tauto|].
  destruct (c =? 47) eqn:E47.
  { apply Z.eqb_eq in E47; subst c. destruct (noslash fl) eqn:Ens.
    - intros sv p sp ucs off rest c0. unfold escape_char. cbn [Z.eqb Pos.eqb]. rewrite Ens. cbn [app].
      exists sv, sp, ucs, (off + 1), 47. apply plain_step; reflexivity.
    - apply (string_byte_esc2 fl 47 47); [cbn; tauto|]. unfold escape_char. cbn [Z.eqb Pos.eqb]. rewrite Ens. reflexivity. }
  destruct (c <? 32) eqn:E32.
  - intros sv p sp ucs off rest c0. unfold escape_char. rewrite E8, E10, E13, E9, E12, E34, E92, E47, E32. cbn [app].
    rewrite run_backslash, run_u, run_h0, run_h1, (run_hex c ltac:(lia)). do 5 eexists. reflexivity.
  - intros sv p sp ucs off rest c0. exists sv, sp, ucs, (off + 1), c.
    unfold escape_char. rewrite E8, E10, E13, E9, E12, E34, E92, E47, E32. cbn [app]. apply plain_step; lia.
Qed.

Lemma string_bytes fl s : Forall byte_ok s ->
  forall sv p sp ucs off rest c0, exists sv' sp' ucs' off' c0',
    run strtod (escape_str fl s ++ rest) (Tstr sv p sp ucs off) (lc0 c0) =
    run strtod rest (Tstr sv' (p ++ s) sp' ucs' off') (lc0 c0').
Proof.
  induction 1 as [|c s Hc _ IH]; intros sv p sp ucs off rest c0.
  - exists sv, sp, ucs, off, c0. rewrite app_nil_r. reflexivity.
  - unfold escape_str. cbn [flat_map]. rewrite <- app_assoc.
    destruct (string_byte fl c Hc sv p sp ucs off (flat_map (escape_char fl) s ++ rest) c0) as (sv1 & sp1 & ucs1 & off1 & c1 & H1).
    rewrite H1. destruct (IH sv1 (p ++ [c]) sp1 ucs1 off1 rest c1) as (sv2 & sp2 & ucs2 & off2 & c2 & H2).
    unfold escape_str in H2. rewrite H2. exists sv2, sp2, ucs2, off2, c2. rewrite <- app_assoc. reflexivity.
Qed.

Definition no_nul_ok (ns : bool) (c : byte) : bool := negb (SerModel.has_byte 0 (escape_char (fl_ns ns) c)).
Lemma escape_char_no_nul fl c : byte_ok c -> SerModel.has_byte 0 (escape_char fl c) = false.
Proof.
  intros Hc.
  assert (Ht : forallb (no_nul_ok true) (zrange 0 256) = true) by (vm_compute; reflexivity).
  assert (Hf : forallb (no_nul_ok false) (zrange 0 256) = true) by (vm_compute; reflexivity).
  rewrite escape_char_ns. apply negb_true_iff. unfold byte_ok in Hc. fold (no_nul_ok (noslash fl) c).
  destruct (noslash fl); [apply (zrange_forall _ _ 0 Ht)|apply (zrange_forall _ _ 0 Hf)]; lia.
Qed.
Lemma quoted_no_nul fl s : Forall byte_ok s -> SerModel.has_byte 0 (quoted fl s) = false.
Proof.
  intros H. unfold quoted. cbn [SerModel.has_byte]. rewrite has_byte_app. cbn [SerModel.has_byte orb Z.eqb].
  rewrite orb_false_r. unfold escape_str. induction H as [|c s Hc _ IH]; [reflexivity|].
  cbn [flat_map]. rewrite has_byte_app, (escape_char_no_nul fl c Hc), IH. reflexivity.
Qed.

Lemma parse_string fl s : Forall byte_ok s ->
  exists t', parse_ex_cstr strtod T0 (quoted fl s) = PR t' (Some (JStr s)) /\ err t' = TE_success.
Proof.
  intros H. unfold parse_ex_cstr, parse_ex. rewrite (upto_nul_clean _ (quoted_no_nul fl s H)).
  change (set_err (set_off T0 0) TE_success) with T0. fold L0.
  unfold quoted. cbn [app]. rewrite open_quote.
  rewrite <- app_assoc.
  destruct (string_bytes fl s H S_start [] 0 0 1 ([34] ++ [0]) 34) as (sv & sp & ucs & off & c0 & Hr).
  rewrite Hr. cbn [app]. rewrite close_quote. unfold lc0. rewrite run_done, finish_done. eexists. split; reflexivity.
Qed.

(* ---------------- integers ---------------- *)
(* inside a top-level number token that has no '.', 'e' so far; [ln c k]: the locals after k characters *)
Definition Tnum (p : list byte) (off : Z) : tok :=
  mktok [mksrec S_number S_start JNull None] 32 p false 0 0 0 0 false false false off TE_success.
Definition ln (c : byte) (k : Z) : locals := mkloc c 0 JNull (Some (mknl false false false k)).
Definition digits10 : list Z := [48;49;50;51;52;53;54;55;56;57].

Lemma first_digit c : 48 <= c <= 57 -> forall rest,
  run strtod (c :: rest) T0 L0 = run strtod rest (Tnum [c] 1) (ln c 1).
Proof.
  intros Hc. apply (Forall_zrange (fun c => forall rest, run strtod (c :: rest) T0 L0 = run strtod rest (Tnum [c] 1) (ln c 1)) 10 48); [|lia].
  change (zrange 48 10) with digits10. unfold digits10.
  repeat (constructor; [intros rest;
     match goal with |- run _ (?d :: _) _ _ = _ => rewrite (run_step d rest T0 L0 (Tnum [d] 0) (ln d 1)) by reflexivity end; reflexivity|]).
  constructor.
Qed.
Lemma first_minus rest : run strtod (45 :: rest) T0 L0 = run strtod rest (Tnum [45] 1) (ln 45 1).
Proof. rewrite (run_step 45 rest T0 L0 (Tnum [45] 0) (ln 45 1)) by reflexivity. reflexivity. Qed.
Lemma next_digit c : 48 <= c <= 57 -> forall p off c0 k rest,
  run strtod (c :: rest) (Tnum p off) (ln c0 k) = run strtod rest (Tnum (p ++ [c]) (off + 1)) (ln c (k + 1)).
Proof.
  intros Hc. apply (Forall_zrange (fun c => forall p off c0 k rest,
     run strtod (c :: rest) (Tnum p off) (ln c0 k) = run strtod rest (Tnum (p ++ [c]) (off + 1)) (ln c (k + 1))) 10 48); [|lia].
  change (zrange 48 10) with digits10. unfold digits10.
  repeat (constructor; [intros p off c0 k rest;
     match goal with |- run _ (?d :: _) _ _ = _ =>
       rewrite (run_step d rest (Tnum p off) (ln c0 k) (Tnum (p ++ [d]) off) (ln d (k + 1))) by reflexivity end; reflexivity|]).
  constructor.
Qed.
Lemma run_digits ds : forallb digit ds = true -> forall p off c0 k rest, exists off' c0' k',
  run strtod (ds ++ rest) (Tnum p off) (ln c0 k) = run strtod rest (Tnum (p ++ ds) off') (ln c0' k').
Proof.
  induction ds as [|c ds IH]; intros H p off c0 k rest.
  - exists off, c0, k. rewrite app_nil_r. reflexivity.
  - cbn [forallb] in H. apply andb_true_iff in H. destruct H as [Hc Hd]. unfold digit in Hc.
    cbn [app]. rewrite next_digit by lia.
    destruct (IH Hd (p ++ [c]) (off + 1) c (k + 1) rest) as (off' & c0' & k' & Hr).
    exists off', c0', k'. rewrite Hr, <- app_assoc. reflexivity.
Qed.

Lemma digits_val_fold ds : forallb digit ds = true -> forall acc,
  digits_val ds acc = (fold_left (fun a c => a * 10 + (c - 48)) ds acc, []).
Proof.
  induction ds as [|c ds IH]; intros H acc; [reflexivity|]. cbn [forallb] in H. apply andb_true_iff in H.
  destruct H as [Hc Hd]. cbn [digits_val fold_left]. change (TokModel.is_digit c) with (digit c). rewrite Hc. apply IH, Hd.
Qed.

(* the classification block on an integer token, default (non-strict) mode, from the definition *)
Lemma classify_pos ds off : forallb digit ds = true -> ds <> [] -> SerSpec.digits_value ds <= UINT64_MAX ->
  classify_number strtod (Tnum ds off) =
  NumVal (if SerSpec.digits_value ds <=? INT64_MAX then JInt (SerSpec.digits_value ds) else JUint (SerSpec.digits_value ds)).
Proof.
  intros Hd Hne Hv. destruct ds as [|c ds']; [congruence|].
  assert (Hc : digit c = true) by (cbn [forallb] in Hd; apply andb_true_iff in Hd; tauto).
  unfold classify_number, Tnum. cbn [pb is_double strict negb andb].
  assert (H45 : (c =? 45) = false) by (unfold digit in Hc; lia). rewrite H45. cbn [andb].
  rewrite (digits_val_fold _ Hd). fold (SerSpec.digits_value (c :: ds')).
  pose proof (zlen_nonneg ds'). cbn [zlen]. replace (0 =? 1 + zlen ds') with false by lia.
  replace (SerSpec.digits_value (c :: ds') >? UINT64_MAX) with false by lia. cbn [andb]. rewrite !andb_false_r.
  destruct (SerSpec.digits_value (c :: ds') <=? INT64_MAX); reflexivity.
Qed.
Lemma classify_neg ds off : forallb digit ds = true -> ds <> [] -> SerSpec.digits_value ds <= 9223372036854775808 ->
  classify_number strtod (Tnum (45 :: ds) off) = NumVal (JInt (- SerSpec.digits_value ds)).
Proof.
  intros Hd Hne Hv. unfold classify_number, Tnum. cbn [pb is_double strict negb andb Z.eqb Pos.eqb tl].
  rewrite (digits_val_fold _ Hd). fold (SerSpec.digits_value ds).
  destruct ds as [|c ds']; [congruence|]. pose proof (zlen_nonneg ds'). cbn [zlen].
  replace (0 =? 1 + zlen ds') with false by lia.
  replace (SerSpec.digits_value (c :: ds') >? 9223372036854775808) with false by lia. reflexivity.
Qed.

Local Opaque classify_number.
Lemma run_num_end p off c0 k v : classify_number strtod (Tnum p off) = NumVal v ->
  run strtod [0] (Tnum p off) (ln c0 k) =
  LOut (mktok [mksrec S_finish S_finish v None] 32 p false 0 0 0 0 false false false off TE_success) (mkloc 0 0 JNull None).
Proof.
  intros H. rewrite run_cons. unfold Tnum, ln in *. cbn [validate_utf8 nbytes lobj lnum].
  unfold REDO_FUEL. cbn [redo]. unfold step1 at 1. cbn. rewrite andb_false_r. cbn. rewrite H.
  cbn. reflexivity.
Qed.

Lemma digits_no_nul ds : forallb digit ds = true -> SerModel.has_byte 0 ds = false.
Proof. intros H. apply digits_no_byte; [exact H|reflexivity]. Qed.

(* a non-empty digit string at the top level, optionally after '-' *)
Lemma parse_digits (neg : bool) ds v :
  digits1 ds = true ->
  classify_number strtod (Tnum ((if neg then [45] else []) ++ ds) 0) = NumVal v ->
  (forall off, classify_number strtod (Tnum ((if neg then [45] else []) ++ ds) off)
               = classify_number strtod (Tnum ((if neg then [45] else []) ++ ds) 0)) ->
  exists t', parse_ex_cstr strtod T0 ((if neg then [45] else []) ++ ds) = PR t' (Some v) /\ err t' = TE_success.
Proof.
  intros Hd Hv Hoff. destruct (digits1_forall _ Hd) as [Hall Hne].
  unfold parse_ex_cstr, parse_ex. rewrite upto_nul_clean.
  2:{ rewrite has_byte_app, (digits_no_nul ds Hall). destruct neg; reflexivity. }
  change (set_err (set_off T0 0) TE_success) with T0. fold L0.
  destruct neg; cbn [app].
  - rewrite first_minus.
    destruct (run_digits ds Hall [45] 1 45 1 [0]) as (off' & c0' & k' & Hr). rewrite Hr.
    rewrite (run_num_end _ _ _ _ v) by (rewrite Hoff; exact Hv).
    eexists. split; reflexivity.
  - destruct ds as [|c ds']; [congruence|]. cbn [forallb] in Hall. apply andb_true_iff in Hall. destruct Hall as [Hc Hall'].
    unfold digit in Hc. cbn [app]. rewrite first_digit by lia.
    destruct (run_digits ds' Hall' [c] 1 c 1 [0]) as (off' & c0' & k' & Hr). rewrite Hr.
    rewrite (run_num_end _ _ _ _ v) by (rewrite Hoff; exact Hv).
    eexists. split; reflexivity.
Qed.

Lemma parse_int z : INT64_MIN <= z <= INT64_MAX ->
  exists t', parse_ex_cstr strtod T0 (dec_s z) = PR t' (Some (JInt z)) /\ err t' = TE_success.
Proof.
  intros Hz. unfold INT64_MIN, INT64_MAX in Hz. unfold dec_s. destruct (z <? 0) eqn:E.
  - destruct (dec_u_spec (- z) ltac:(lia)) as (H1 & H2 & _). destruct (digits1_forall _ H1) as [Hall Hne].
    assert (Hc : forall off, classify_number strtod (Tnum ([45] ++ dec_u (- z)) off) = NumVal (JInt z)).
    { intros off. cbn [app]. rewrite classify_neg by (auto; lia). rewrite H2. do 2 f_equal. lia. }
    apply (parse_digits true (dec_u (- z)) (JInt z) H1 (Hc 0)). intros off. rewrite !Hc. reflexivity.
  - destruct (dec_u_spec z ltac:(lia)) as (H1 & H2 & _). destruct (digits1_forall _ H1) as [Hall Hne].
    assert (Hc : forall off, classify_number strtod (Tnum ([] ++ dec_u z) off) = NumVal (JInt z)).
    { intros off. cbn [app]. rewrite classify_pos by (auto; unfold UINT64_MAX; lia). rewrite H2.
      unfold INT64_MAX. replace (z <=? 9223372036854775807) with true by lia. reflexivity. }
    apply (parse_digits false (dec_u z) (JInt z) H1 (Hc 0)). intros off. rewrite !Hc. reflexivity.
Qed.
Lemma parse_uint z : 0 <= z <= UINT64_MAX ->
  exists t', parse_ex_cstr strtod T0 (dec_u z) = PR t' (Some (if z <=? INT64_MAX then JInt z else JUint z)) /\ err t' = TE_success.
Proof.
  intros Hz. destruct (dec_u_spec z ltac:(lia)) as (H1 & H2 & _). destruct (digits1_forall _ H1) as [Hall Hne].
  assert (Hc : forall off, classify_number strtod (Tnum ([] ++ dec_u z) off) = NumVal (if z <=? INT64_MAX then JInt z else JUint z)).
  { intros off. cbn [app]. rewrite classify_pos by (auto; lia). rewrite H2. reflexivity. }
  apply (parse_digits false (dec_u z) _ H1 (Hc 0)). intros off. rewrite !Hc. reflexivity.
Qed.
End Run.
End RT.


(* ---- the tokener model on a number token with a fraction and/or an exponent ---- *)
Module RT2.
Import TokModel.
Import RT.

Section RunD.
Variable strtod : list byte -> Z.
Local Opaque run.

Definition TnumD (dbl : bool) (p : list byte) (off : Z) : tok :=
  mktok [mksrec S_number S_start JNull None] 32 p dbl 0 0 0 0 false false false off TE_success.
Definition lnD (c : byte) (ex ng ps : bool) (k : Z) : locals := mkloc c 0 JNull (Some (mknl ex ng ps k)).

Lemma digitD c : 48 <= c <= 57 -> forall dbl ex ng ps p off c0 k rest,
  run strtod (c :: rest) (TnumD dbl p off) (lnD c0 ex ng ps k) =
  run strtod rest (TnumD dbl (p ++ [c]) (off + 1)) (lnD c ex false false (k + 1)).
Proof.
  intros Hc. apply (Forall_zrange (fun c => forall dbl ex ng ps p off c0 k rest,
     run strtod (c :: rest) (TnumD dbl p off) (lnD c0 ex ng ps k) =
     run strtod rest (TnumD dbl (p ++ [c]) (off + 1)) (lnD c ex false false (k + 1))) 10 48); [|lia].
  change (zrange 48 10) with digits10. unfold digits10.
  repeat (constructor; [intros dbl ex ng ps p off c0 k rest;
     match goal with |- run _ (?d :: _) _ _ = _ =>
       rewrite (run_step strtod d rest (TnumD dbl p off) (lnD c0 ex ng ps k) (TnumD dbl (p ++ [d]) off) (lnD d ex false false (k + 1)))
         by (destruct dbl, ex, ng, ps; reflexivity) end; reflexivity|]).
  constructor.
Qed.
Lemma digitsD ds : forallb digit ds = true -> forall dbl ex ng ps p off c0 k rest, ds <> [] ->
  exists off' c0' k',
  run strtod (ds ++ rest) (TnumD dbl p off) (lnD c0 ex ng ps k) =
  run strtod rest (TnumD dbl (p ++ ds) off') (lnD c0' ex false false k').
Proof.
  induction ds as [|c ds IH]; intros H dbl ex ng ps p off c0 k rest Hne; [congruence|].
  cbn [forallb] in H. apply andb_true_iff in H. destruct H as [Hc Hd]. unfold digit in Hc.
  cbn [app]. rewrite digitD by lia. destruct ds as [|c2 ds'].
  - exists (off + 1), c, (k + 1). reflexivity.
  - destruct (IH Hd dbl ex false false (p ++ [c]) (off + 1) c (k + 1) rest ltac:(discriminate)) as (off' & c0' & k' & Hr).
    exists off', c0', k'. rewrite Hr, <- app_assoc. reflexivity.
Qed.
Lemma dotD ex ng ps p off c0 k rest :
  run strtod (46 :: rest) (TnumD false p off) (lnD c0 ex ng ps k) =
  run strtod rest (TnumD true (p ++ [46]) (off + 1)) (lnD 46 ex true true (k + 1)).
Proof.
  rewrite (run_step strtod 46 rest _ (lnD c0 ex ng ps k) (TnumD true (p ++ [46]) off) (lnD 46 ex true true (k + 1)))
    by (destruct ex, ng, ps; reflexivity). reflexivity.
Qed.
Lemma expD (up : bool) dbl ng ps p off c0 k rest :
  run strtod ((if up then 69 else 101) :: rest) (TnumD dbl p off) (lnD c0 false ng ps k) =
  run strtod rest (TnumD true (p ++ [if up then 69 else 101]) (off + 1)) (lnD (if up then 69 else 101) true true true (k + 1)).
Proof.
  rewrite (run_step strtod _ rest _ (lnD c0 false ng ps k) (TnumD true (p ++ [if up then 69 else 101]) off)
             (lnD (if up then 69 else 101) true true true (k + 1)))
    by (destruct up, dbl, ng, ps; reflexivity). reflexivity.
Qed.
Lemma signD (minus : bool) dbl p off c0 k rest :
  run strtod ((if minus then 45 else 43) :: rest) (TnumD dbl p off) (lnD c0 true true true k) =
  run strtod rest (TnumD dbl (p ++ [if minus then 45 else 43]) (off + 1)) (lnD (if minus then 45 else 43) true false false (k + 1)).
Proof.
  rewrite (run_step strtod _ rest _ (lnD c0 true true true k) (TnumD dbl (p ++ [if minus then 45 else 43]) off)
             (lnD (if minus then 45 else 43) true false false (k + 1)))
    by (destruct minus, dbl; reflexivity). reflexivity.
Qed.

(* the default-mode trimming of a trailing e E + - leaves a token that ends in a digit alone *)
Lemma trim_number_digit q d : digit d = true -> trim_number (q ++ [d]) = q ++ [d].
Proof.
  intros Hd. unfold trim_number. rewrite rev_app_distr. cbn [rev app trim_tail_rev].
  unfold digit in Hd. destruct (rev q) as [|x r] eqn:E.
  - cbn. apply (f_equal (@rev _)) in E. rewrite rev_involutive in E. subst q. reflexivity.
  - replace ((d =? 101) || (d =? 69) || (d =? 45) || (d =? 43)) with false by lia.
    change (rev (d :: x :: r)) with (rev (x :: r) ++ [d]). rewrite <- E, rev_involutive. reflexivity.
Qed.

Lemma skip_digits_app ds rest : forallb digit ds = true ->
  skip_digits (ds ++ rest) = skip_digits rest.
Proof.
  induction ds as [|c ds IH]; [reflexivity|]. cbn [forallb app skip_digits]. intros H. apply andb_true_iff in H.
  destruct H as [Hc Hd]. change (TokModel.is_digit c) with (digit c). rewrite Hc. apply IH, Hd.
Qed.
Lemma skip_digits_stop c rest : digit c = false -> skip_digits (c :: rest) = c :: rest.
Proof. intros H. cbn [skip_digits]. change (TokModel.is_digit c) with (digit c). rewrite H. reflexivity. Qed.

(* strtod consumes a whole RFC 8259 number token *)
Lemma strtod_consumed_num n : num_ok n = true -> strtod_consumed (render_num n) = zlen (render_num n).
Proof.
  destruct n as [neg i f e]. intros Hok. apply num_ok_iff in Hok. destruct Hok as (O1 & _ & O3 & O4).
  destruct (digits1_forall _ O1) as [Hi Hine]. rewrite render_num_eq.
  (* the part after the integer digits starts with a non-digit or is empty *)
  set (tail := render_frac f ++ render_exp e).
  assert (Htail : skip_digits (i ++ tail) = tail).
  { rewrite (skip_digits_app _ _ Hi). subst tail. destruct f as [fr|]; cbn [render_frac app].
    - apply skip_digits_stop. reflexivity.
    - destruct e as [[[up sg] ds]|]; [|reflexivity]. cbn [render_exp]. apply skip_digits_stop. destruct up; reflexivity. }
  assert (Hexp : forall (fd dt m : Z), 0 < m ->
     (match render_exp e with
      | c :: r => if (c =? 101) || (c =? 69)
                  then let r0 := match r with s :: r' => if (s =? 45) || (s =? 43) then r' else r | [] => [] end in
                       let r1 := skip_digits r0 in
                       if zlen r0 - zlen r1 =? 0 then m else m + 1 + (zlen r - zlen r0) + (zlen r0 - zlen r1)
                  else m
      | [] => m end) = m + zlen (render_exp e)).
  { intros fd dt m Hm. destruct e as [[[up sg] ds]|]; [|cbn; lia]. cbn [exp_ok] in O4.
    destruct (digits1_forall _ O4) as [Hds Hdne]. cbn [render_exp].
    replace (((if up then 69 else 101) =? 101) || ((if up then 69 else 101) =? 69)) with true by (destruct up; reflexivity).
    destruct ds as [|d0 ds']; [congruence|]. cbn [forallb] in Hds. apply andb_true_iff in Hds. destruct Hds as [Hd0 Hds'].
    assert (Hsk : skip_digits (d0 :: ds') = []).
    { rewrite <- (app_nil_r (d0 :: ds')). rewrite skip_digits_app; [reflexivity|]. cbn [forallb]. rewrite Hd0, Hds'. reflexivity. }
    unfold digit in Hd0. pose proof (zlen_nonneg ds').
    destruct sg; cbn [app]; cbv zeta.
    - replace ((d0 =? 45) || (d0 =? 43)) with false by lia. rewrite Hsk. cbn [zlen]. replace (1 + zlen ds' - 0 =? 0) with false by lia. lia.
    - cbn [Z.eqb Pos.eqb orb]. rewrite Hsk. cbn [zlen]. replace (1 + zlen ds' - 0 =? 0) with false by lia. lia.
    - cbn [Z.eqb Pos.eqb orb]. rewrite Hsk. cbn [zlen]. replace (1 + zlen ds' - 0 =? 0) with false by lia. lia. }
  unfold strtod_consumed.
  assert (Hl0 : match (if neg then [45] else []) ++ i ++ tail with
                | c :: r => if (c =? 45) || (c =? 43) then r else (if neg then [45] else []) ++ i ++ tail
                | [] => [] end = i ++ tail).
  { destruct neg; cbn [app]; [reflexivity|]. destruct i as [|c0 i']; [congruence|]. cbn [app].
    cbn [forallb] in Hi. apply andb_true_iff in Hi. destruct Hi as [Hc0 _]. unfold digit in Hc0.
    replace ((c0 =? 45) || (c0 =? 43)) with false by lia. reflexivity. }
  rewrite <- app_assoc. fold tail. rewrite Hl0, Htail.
  pose proof (zlen_nonneg i). assert (0 < zlen i) by (destruct i; [congruence|cbn [zlen]; pose proof (zlen_nonneg i); lia]).
  pose proof (zlen_nonneg tail).
  subst tail. destruct f as [fr|]; cbn [render_frac app].
  - cbn [exp_ok frac_ok] in O3. destruct (digits1_forall _ O3) as [Hfr Hfne].
    cbn [Z.eqb Pos.eqb]. cbv zeta.
    assert (Hsk : skip_digits (fr ++ render_exp e) = render_exp e).
    { rewrite (skip_digits_app _ _ Hfr). destruct e as [[[up sg] ds]|]; [|reflexivity]. cbn [render_exp].
      apply skip_digits_stop. destruct up; reflexivity. }
    rewrite Hsk. rewrite !zlen_app. cbn [zlen]. rewrite !zlen_app.
    pose proof (zlen_nonneg fr). pose proof (zlen_nonneg (render_exp e)).
    assert (0 < zlen fr) by (destruct fr; [congruence|cbn [zlen]; pose proof (zlen_nonneg fr); lia]).
    match goal with |- (if ?b then _ else _) = _ => replace b with false by lia end.
    rewrite (Hexp 0 0) by (destruct neg; cbn [zlen]; lia). destruct neg; cbn [zlen]; lia.
  - cbn [app]. rewrite !zlen_app. pose proof (zlen_nonneg (render_exp e)).
    destruct (render_exp e) as [|c r] eqn:Ee.
    + cbn [zlen]. match goal with |- (if ?b then _ else _) = _ => replace b with false by lia end. destruct neg; cbn [zlen]; lia.
    + assert (c =? 46 = false).
      { destruct e as [[[up sg] ds]|]; [|discriminate]. cbn [render_exp] in Ee. injection Ee as <- _. destruct up; reflexivity. }
      rewrite H3. match goal with |- (if ?b then _ else _) = _ => replace b with false by lia end.
      rewrite <- Ee. rewrite (Hexp 0 0) by (destruct neg; cbn [zlen]; lia). rewrite Ee. destruct neg; cbn [zlen]; lia.
Qed.

Lemma classify_dbl p off : strtod_consumed p = zlen p ->
  classify_number strtod (TnumD true p off) = NumVal (JDouble (strtod p) (Some p)).
Proof.
  intros H. unfold classify_number, TnumD. cbn [pb is_double strict negb andb]. rewrite H, Z.eqb_refl. reflexivity.
Qed.

Local Opaque classify_number strtod_consumed trim_number.
Lemma run_numD_end p off c0 ex ng ps k q d :
  p = q ++ [d] -> digit d = true -> strtod_consumed p = zlen p ->
  run strtod [0] (TnumD true p off) (lnD c0 ex ng ps k) =
  LOut (mktok [mksrec S_finish S_finish (JDouble (strtod p) (Some p)) None] 32 p true 0 0 0 0 false false false off TE_success)
       (mkloc 0 0 JNull None).
Proof.
  intros Hp Hd Hs. assert (Ht : trim_number p = p) by (rewrite Hp; apply trim_number_digit; exact Hd).
  rewrite run_cons. unfold TnumD, lnD. cbn [validate_utf8 nbytes lobj lnum].
  unfold REDO_FUEL. cbn [redo]. unfold step1 at 1. cbn. rewrite andb_false_r. cbn. rewrite Ht. unfold set_pb.
  cbn [stack max_depth is_double st_pos ucs_char high_surrogate quote_char strict allow_trailing validate_utf8 char_offset err].
  pose proof (classify_dbl p off Hs) as Hc. unfold TnumD in Hc. rewrite Hc. cbn. reflexivity.
Qed.

(* a number-state configuration: [dbl] a '.' or exponent was seen, [p] the characters so far,
   [ex] an exponent marker was seen; no sign is acceptable next *)
Definition NumSt (dbl : bool) (p : list byte) (ex : bool) (t : tok) (l : locals) : Prop :=
  exists off c0 k, t = TnumD dbl p off /\ l = lnD c0 ex false false k.

Lemma seg_digits dbl p ex t l ds rest : NumSt dbl p ex t l -> forallb digit ds = true ->
  exists t' l', NumSt dbl (p ++ ds) ex t' l' /\ run strtod (ds ++ rest) t l = run strtod rest t' l'.
Proof.
  intros (off & c0 & k & -> & ->) Hd. destruct ds as [|c ds'].
  - exists (TnumD dbl p off), (lnD c0 ex false false k). rewrite app_nil_r. split; [exists off, c0, k; split; reflexivity|reflexivity].
  - destruct (digitsD _ Hd dbl ex false false p off c0 k rest ltac:(discriminate)) as (off' & c0' & k' & Hr).
    exists (TnumD dbl (p ++ c :: ds') off'), (lnD c0' ex false false k'). split; [exists off', c0', k'; split; reflexivity|exact Hr].
Qed.
Lemma seg_frac p t l fr rest : NumSt false p false t l -> digits1 fr = true ->
  exists t' l', NumSt true (p ++ 46 :: fr) false t' l' /\ run strtod ((46 :: fr) ++ rest) t l = run strtod rest t' l'.
Proof.
  intros (off & c0 & k & -> & ->) Hd. destruct (digits1_forall _ Hd) as [Hall Hne]. cbn [app]. rewrite dotD.
  destruct (digitsD _ Hall true false true true (p ++ [46]) (off + 1) 46 (k + 1) rest Hne) as (off' & c0' & k' & Hr).
  exists (TnumD true (p ++ 46 :: fr) off'), (lnD c0' false false false k').
  split; [exists off', c0', k'; split; reflexivity|]. rewrite Hr, <- app_assoc. reflexivity.
Qed.
Lemma seg_exp dbl p t l up sg ds rest : NumSt dbl p false t l -> digits1 ds = true ->
  exists t' l', NumSt true (p ++ render_exp (Some (up, sg, ds))) true t' l' /\
                run strtod (render_exp (Some (up, sg, ds)) ++ rest) t l = run strtod rest t' l'.
Proof.
  intros (off & c0 & k & -> & ->) Hd. destruct (digits1_forall _ Hd) as [Hall Hne]. cbn [render_exp app]. rewrite expD.
  set (e := if up then 69 else 101).
  destruct sg; cbn [app].
  - destruct (digitsD _ Hall true true true true (p ++ [e]) (off + 1) e (k + 1) rest Hne) as (off' & c0' & k' & Hr).
    exists (TnumD true (p ++ e :: ds) off'), (lnD c0' true false false k').
    split; [exists off', c0', k'; split; reflexivity|]. rewrite Hr, <- app_assoc. reflexivity.
  - rewrite (signD false).
    destruct (digitsD _ Hall true true false false ((p ++ [e]) ++ [43]) (off + 1 + 1) 43 (k + 1 + 1) rest Hne) as (off' & c0' & k' & Hr).
    exists (TnumD true (p ++ e :: 43 :: ds) off'), (lnD c0' true false false k').
    split; [exists off', c0', k'; split; reflexivity|]. rewrite Hr, <- !app_assoc. reflexivity.
  - rewrite (signD true).
    destruct (digitsD _ Hall true true false false ((p ++ [e]) ++ [45]) (off + 1 + 1) 45 (k + 1 + 1) rest Hne) as (off' & c0' & k' & Hr).
    exists (TnumD true (p ++ e :: 45 :: ds) off'), (lnD c0' true false false k').
    split; [exists off', c0', k'; split; reflexivity|]. rewrite Hr, <- !app_assoc. reflexivity.
Qed.
(* the sign and the integer digits, from the fresh tokener *)
Lemma seg_int (neg : bool) i rest : digits1 i = true ->
  exists t' l', NumSt false ((if neg then [45] else []) ++ i) false t' l' /\
                run strtod (((if neg then [45] else []) ++ i) ++ rest) T0 L0 = run strtod rest t' l'.
Proof.
  intros Hd. destruct (digits1_forall _ Hd) as [Hall Hne]. destruct neg; cbn [app].
  - rewrite first_minus.
    apply (seg_digits false [45] false (Tnum [45] 1) (ln 45 1) i rest); [exists 1, 45, 1; split; reflexivity|exact Hall].
  - destruct i as [|c i']; [congruence|]. cbn [forallb] in Hall. apply andb_true_iff in Hall. destruct Hall as [Hc Hall'].
    unfold digit in Hc. cbn [app]. rewrite first_digit by lia.
    apply (seg_digits false [c] false (Tnum [c] 1) (ln c 1) i' rest); [exists 1, c, 1; split; reflexivity|exact Hall'].
Qed.

Lemma digits_last ds : forallb digit ds = true -> ds <> [] -> exists q d, ds = q ++ [d] /\ digit d = true.
Proof.
  intros H Hne. destruct (exists_last Hne) as (q & d & ->). exists q, d. split; [reflexivity|].
  rewrite forallb_app in H. apply andb_true_iff in H. destruct H as [_ H]. cbn in H. rewrite andb_true_r in H. exact H.
Qed.

Lemma num_no_nul n : num_ok n = true -> SerModel.has_byte 0 (render_num n) = false.
Proof.
  destruct n as [neg i f e]. intros H. apply num_ok_iff in H. destruct H as (O1 & _ & O3 & O4).
  destruct (digits1_forall _ O1) as [Hi _]. rewrite render_num_eq, !has_byte_app, (digits_no_byte 0 i Hi eq_refl).
  replace (SerModel.has_byte 0 (if neg then [45] else [])) with false by (destruct neg; reflexivity).
  rewrite (no_byte_exp 0 e eq_refl) by first [lia | destruct e as [[[? ?] ?]|]; [exact O4|exact I]].
  destruct f as [fr|]; [|reflexivity]. destruct (digits1_forall _ O3) as [Hf _]. cbn [render_frac SerModel.has_byte].
  rewrite (digits_no_byte 0 fr Hf eq_refl). reflexivity.
Qed.

(* json-c parses an RFC 8259 number token that has a fraction or an exponent into a double node
   holding strtod's value and the token as retained text *)
Lemma parse_num_token n : num_ok n = true -> (n_frac n <> None \/ n_exp n <> None) ->
  exists t', parse_ex_cstr strtod T0 (render_num n) =
             PR t' (Some (JDouble (strtod (render_num n)) (Some (render_num n)))) /\ err t' = TE_success.
Proof.
  intros Hok Hdbl. pose proof (strtod_consumed_num n Hok) as Hcons. pose proof (num_no_nul n Hok) as Hnul.
  destruct n as [neg i f e]. pose proof Hok as Hok'. apply num_ok_iff in Hok'. destruct Hok' as (O1 & _ & O3 & O4).
  cbn [n_frac n_exp] in Hdbl.
  unfold parse_ex_cstr, parse_ex. rewrite (upto_nul_clean _ Hnul).
  change (set_err (set_off T0 0) TE_success) with T0. fold L0.
  set (text := render_num (mknum neg i f e)) in *.
  assert (Htext : text = ((if neg then [45] else []) ++ i) ++ render_frac f ++ render_exp e) by apply render_num_eq.
  (* the last character is a digit *)
  assert (Hlast : exists q d, text = q ++ [d] /\ digit d = true).
  { rewrite Htext. destruct e as [[[up sg] ds]|].
    - cbn [exp_ok] in O4. destruct (digits1_forall _ O4) as [Hds Hne]. destruct (digits_last ds Hds Hne) as (q & d & -> & Hd).
      set (sgn := match sg with ENone => [] | EPlus => [43] | EMinus => [45] end : list byte).
      assert (Hre : render_exp (Some (up, sg, q ++ [d])) = (((if up then 69 else 101) :: sgn) ++ q) ++ [d]).
      { cbn [render_exp app]. fold sgn. rewrite app_assoc. reflexivity. }
      rewrite Hre. exists ((((if neg then [45] else []) ++ i) ++ render_frac f ++ ((if up then 69 else 101) :: sgn) ++ q)), d.
      split; [|exact Hd]. rewrite <- !app_assoc. reflexivity.
    - destruct f as [fr|]; [|destruct Hdbl; congruence]. cbn [frac_ok] in O3. destruct (digits1_forall _ O3) as [Hfr Hne].
      destruct (digits_last fr Hfr Hne) as (q & d & -> & Hd).
      exists (((if neg then [45] else []) ++ i) ++ 46 :: q), d. split; [|exact Hd].
      cbn [render_frac render_exp]. rewrite app_nil_r, <- !app_assoc. reflexivity. }
  destruct Hlast as (q & d & Hq & Hd).
  (* run to the end of the token *)
  assert (Hrun : exists t' l', NumSt true text (match e with Some _ => true | None => false end) t' l' /\
                               run strtod ((((if neg then [45] else []) ++ i) ++ render_frac f ++ render_exp e) ++ [0]) T0 L0
                               = run strtod [0] t' l').
  { rewrite <- !app_assoc.
    destruct (seg_int neg i (render_frac f ++ render_exp e ++ [0]) O1) as (t1 & l1 & S1 & R1).
    rewrite <- app_assoc in R1. rewrite R1.
    destruct f as [fr|]; cbn [render_frac] in *.
    - destruct (seg_frac _ t1 l1 fr (render_exp e ++ [0]) S1 O3) as (t2 & l2 & S2 & R2).
      rewrite R2.
      destruct e as [[[up sg] ds]|].
      + destruct (seg_exp _ _ t2 l2 up sg ds [0] S2 O4) as (t3 & l3 & S3 & R3). rewrite R3.
        exists t3, l3. split; [|reflexivity]. rewrite Htext. cbn [render_frac]. rewrite <- app_assoc in S3. cbn [app] in S3. exact S3.
      + exists t2, l2. split; [|reflexivity]. rewrite Htext. cbn [render_frac render_exp]. rewrite app_nil_r. exact S2.
    - destruct e as [[[up sg] ds]|]; [|destruct Hdbl; congruence]. cbn [app].
      destruct (seg_exp _ _ t1 l1 up sg ds [0] S1 O4) as (t3 & l3 & S3 & R3). rewrite R3.
      exists t3, l3. split; [|reflexivity]. rewrite Htext. exact S3. }
  destruct Hrun as (t' & l' & (off & c0 & k & -> & ->) & Hr).
  replace (run strtod (text ++ [0]) T0 L0) with (run strtod [0] (TnumD true text off) (lnD c0 (match e with Some _ => true | None => false end) false false k))
    by (rewrite <- Hr, Htext; reflexivity).
  rewrite (run_numD_end text off c0 _ false false k q d Hq Hd Hcons).
  eexists. split; reflexivity.
Qed.
End RunD.
End RT2.

(* ---------------- the round trip, scalar trees ---------------- *)
Lemma c_str_clean t : SerModel.has_byte 0 t = false -> c_str t = t.
Proof.
  induction t as [|c t IH]; [reflexivity|]. cbn [SerModel.has_byte c_str]. intros H. apply orb_false_iff in H.
  destruct H as [H1 H2]. rewrite H1, (IH H2). reflexivity.
Qed.
Lemma dval_eqb_finite bits : dbl_finite bits = true ->
  EqModel.dval_eqb (EqModel.d_decode bits) (EqModel.d_decode bits) = true.
Proof.
  unfold dbl_finite, dbl_exp, EqModel.d_decode, EqModel.d_exp. intros H. apply negb_true_iff in H.
  change EqModel.two52 with two52. rewrite H.
  destruct ((((bits / two52) mod 2048 =? 0) && (EqModel.d_man bits =? 0))); cbn [EqModel.dval_eqb]; [reflexivity|].
  rewrite !Z.eqb_refl. destruct (EqModel.d_sign bits =? 1); reflexivity.
Qed.

Section RoundTripScalars.
Variable fmt17 : Z -> list byte.
Variable strtod : list byte -> Z.

Lemma reparse_intro text v t' :
  TokModel.parse_ex_cstr strtod RT.T0 text = TokModel.PR t' (Some v) -> TokModel.err t' = TokModel.TE_success ->
  reparse strtod text = Some v.
Proof. intros H1 H2. unfold reparse. change (TokModel.tok_new 32 false false false) with (Some RT.T0). cbv beta iota. rewrite H1, H2. reflexivity. Qed.

(* the trees covered: a scalar, with its C range.  For a double: finite, and the
   hypothesis on the strtod oracle that it reads the emitted token back as the double (what
   [double_reads_back] reduces to the 17-digit round trip); a retained text must be a number
   token with a fraction or an exponent (else json-c re-parses it as an integer node) that
   strtod reads as the double *)
Definition scalar_ok (v : jv) : Prop :=
  match v with
  | JNull | JBool _ => True
  | JInt z => INT64_MIN <= z <= INT64_MAX
  | JUint z => 0 <= z <= UINT64_MAX
  | JStr s => Forall byte_ok s
  | JDouble bits None =>
      dbl_finite bits = true /\ strtod (double_fixup flags_plain (fmt17 bits)) = bits
  | JDouble bits (Some t) =>
      dbl_finite bits = true /\
      exists n, num_ok n = true /\ render_num n = c_str t /\ (n_frac n <> None \/ n_exp n <> None) /\ strtod (c_str t) = bits
  | _ => False
  end.

(* parse (serialize f v) = v' with v' json_object_equal to v, and serialize f v' = serialize f v: proved
   for every flag word without COLOR and every scalar tree: all int64, all uint64, all byte strings,
   all finite doubles (under the oracle hypotheses).  Containers are not proved here: see
   [roundtrip_examples] and the correspondence stream. *)
Theorem roundtrip_scalars_partial (Hfmt : fmt17_ok fmt17) fl v :
  color fl = false -> scalar_ok v -> roundtrip_ok fmt17 strtod fl v.
Proof.
  intros Hc Hv. destruct v as [|b|z|z|bits t|s|l|l]; cbn [scalar_ok] in Hv; try contradiction.
  - exists JNull. split; [vm_compute; reflexivity|split; reflexivity].
  - exists (JBool b). cbn [serialize]. rewrite colored_nocolor by exact Hc.
    destruct b; (split; [vm_compute; reflexivity|split; reflexivity]).
  - destruct (RT.parse_int strtod z Hv) as (t' & H1 & H2). exists (JInt z). cbn [serialize]. split; [|split].
    + apply (reparse_intro _ _ t'); assumption.
    + cbn. apply Z.eqb_refl.
    + reflexivity.
  - destruct (RT.parse_uint strtod z Hv) as (t' & H1 & H2).
    exists (if z <=? INT64_MAX then JInt z else JUint z). cbn [serialize]. split; [|split].
    + apply (reparse_intro _ _ t'); assumption.
    + destruct (z <=? INT64_MAX); cbn [EqModel.jv_equal].
      * replace (z <? 0) with false by lia. unfold UINT64_MAX in Hv. unfold EqModel.two64. rewrite Z.mod_small by lia. apply Z.eqb_refl.
      * apply Z.eqb_refl.
    + destruct (z <=? INT64_MAX); cbn [serialize]; [|reflexivity]. unfold dec_s. replace (z <? 0) with false by lia. reflexivity.
  - destruct t as [t|].
    + (* retained text: emitted verbatim *)
      destruct Hv as (Hfin & n & Hok & Hr & Hd & Hs).
      destruct (RT2.parse_num_token strtod n Hok Hd) as (t' & H1 & H2). rewrite Hr, Hs in H1.
      exists (JDouble bits (Some (c_str t))). cbn [serialize]. split; [|split].
      * apply (reparse_intro _ _ t'); assumption.
      * cbn [EqModel.jv_equal]. apply dval_eqb_finite, Hfin.
      * apply c_str_clean. rewrite <- Hr. apply RT2.num_no_nul, Hok.
    + destruct Hv as (Hfin & Hs). destruct (Hfmt bits Hfin) as (n0 & Hshape & Hr0).
      unfold roundtrip_ok. cbn [serialize]. rewrite double_text_finite by exact Hfin. rewrite <- Hr0 in *.
      rewrite (double_fixup_flags fl n0 Hshape).
      destruct (double_fixup_shape flags_plain n0 Hshape) as (n' & Hok & Hr & _ & Hd).
      rewrite <- Hr in *.
      destruct (RT2.parse_num_token strtod n' Hok Hd) as (t' & H1 & H2). rewrite Hs in H1.
      exists (JDouble bits (Some (render_num n'))). split; [|split].
      * apply (reparse_intro _ _ t'); assumption.
      * cbn [EqModel.jv_equal]. apply dval_eqb_finite, Hfin.
      * cbn [serialize]. apply c_str_clean, RT2.num_no_nul, Hok.
  - destruct (RT.parse_string strtod fl s Hv) as (t' & H1 & H2). exists (JStr s). cbn [serialize].
    rewrite colored_nocolor by exact Hc. split; [|split].
    + apply (reparse_intro _ _ t'); assumption.
    + cbn [EqModel.jv_equal]. rewrite Z.eqb_refl. cbn [andb].
      clear. induction s as [|c s IH]; [reflexivity|]. cbn. rewrite Z.eqb_refl. exact IH.
    + reflexivity.
Qed.
End RoundTripScalars.

(* ---------------- the round trip, end to end by computation ---------------- *)
(* a libc stand-in for the few doubles of the example: %.17g and strtod as tables *)
Definition ex_doubles : list (Z * list byte) :=
  [ (4609434218613702656, [49;46;53]);                                  (* 1.5       -> 1.5 *)
    (4607182418800017408, [49]);                                        (* 1.0       -> 1      (".0" is appended) *)
    (9223372036854775808, [45;48]);                                    (* -0.0      -> -0 *)
    (4591870180066957722, [48;46;49;48;48;48;48;48;48;48;48;48;48;48;48;48;48;48;48;49]);  (* 0.1 -> 0.10000000000000001 *)
    (4906019910204099648, [49;101;43;50;48]);                           (* 1e+20 *)
    (4908997630925220144, [49;46;53;101;43;50;48]) ].                   (* 1.5e+20 *)
Definition ex_fmt17 (bits : Z) : list byte :=
  match find (fun e => fst e =? bits) ex_doubles with Some e => snd e | None => [48] end.
Definition ex_strtod (tok : list byte) : Z :=
  let fix go (l : list (Z * list byte)) : Z :=
    match l with
    | [] => 0
    | e :: r => if bytes_eqb (double_fixup flags_plain (snd e)) tok then fst e else go r
    end in go ex_doubles.

(* an array holding null, true, INT64_MIN, UINT64_MAX, the doubles 1.5 1.0 -0.0 0.1 1e+20, a string with
   solidus, quote, backslash, NUL, 0x1f and a two-byte UTF-8 sequence, a nested object (one name with a
   solidus, one empty name; empty array and object inside; the double 1.5e+20) and a small uint64 *)
Definition ex_tree : jv :=
  JArr [JNull; JBool true; JInt (-9223372036854775808); JUint 18446744073709551615;
        JDouble 4609434218613702656 None; JDouble 4607182418800017408 None; JDouble 9223372036854775808 None;
        JDouble 4591870180066957722 None; JDouble 4906019910204099648 None;
        JStr [97;47;34;92;0;31;195;169];
        JObj [([107;47], JArr [JArr []; JObj []]); ([], JObj [([120], JDouble 4908997630925220144 None)])];
        JUint 7].

(* all 32 flag words without COLOR *)
Definition ex_flags : list sflags :=
  flat_map (fun sp => flat_map (fun pr => flat_map (fun nz => flat_map (fun tb => map (fun ns => mkfl sp pr nz tb ns false) [false; true])
                                                    [false; true]) [false; true]) [false; true]) [false; true].

Lemma roundtrip_examples : forallb (fun fl => roundtrip_okb ex_fmt17 ex_strtod fl ex_tree) ex_flags = true.
Proof. vm_compute. reflexivity. Qed.

(* the full round-trip statement, for the record (not proved beyond the parts above) *)
Definition roundtrip_statement : Prop :=
  forall fmt17 strtod, fmt17_ok fmt17 ->
    (forall bits n, dbl_finite bits = true -> num_ok n = true -> render_num n = double_fixup flags_plain (fmt17 bits) ->
                    strtod (render_num n) = bits) ->
    forall fl v, color fl = false -> jv_Forall node_ok v -> roundtrip_ok fmt17 strtod fl v.

Lemma nonvacuous : fmt17_ok w_fmt17 /\ jv_Forall node_ok (JArr [JDouble w_bits None; JStr [0;47;255]; JObj [([97], JNull)]]).
Proof.
  split; [exact w_fmt17_ok|]. cbn. repeat split; try (left; reflexivity).
  - repeat constructor; unfold byte_ok; lia.
  - repeat constructor; unfold byte_ok; lia.
Qed.

(* ------------------------------------------------------------------ trees reached through histories of API calls *)
Lemma jv_Forall_arr_intro (P : jv -> Prop) l : P (JArr l) -> Forall (jv_Forall P) l -> jv_Forall P (JArr l).
Proof. intros H0 H. cbn [jv_Forall]. split; [exact H0|]. clear H0. induction H; [exact I|split; assumption]. Qed.
Lemma jv_Forall_obj_intro (P : jv -> Prop) l : P (JObj l) -> Forall (fun kv => jv_Forall P (snd kv)) l -> jv_Forall P (JObj l).
Proof. intros H0 H. cbn [jv_Forall]. split; [exact H0|]. clear H0. induction H; [exact I|split; assumption]. Qed.
Lemma Forall_nth_upd {A} (Q : A -> Prop) f l : Forall Q l -> (forall x, Q x -> Q (f x)) -> forall n, Forall Q (nth_upd n f l).
Proof.
  intros H Hf. induction H as [|x r Hx Hr IH]; intros n; destruct n; cbn [nth_upd]; constructor; auto.
Qed.
Lemma Forall_nth_del {A} (Q : A -> Prop) l : Forall Q l -> forall n, Forall Q (nth_del n l).
Proof. intros H. induction H as [|x r Hx Hr IH]; intros n; destruct n; cbn [nth_del]; try constructor; auto; constructor. Qed.

Definition tree_ok (v : jv) : Prop := jv_Forall node_ok v.

Lemma jv_at_ok f : (forall x, tree_ok x -> tree_ok (f x)) -> forall path v, tree_ok v -> tree_ok (jv_at path f v).
Proof.
  intros Hf. induction path as [|i p IH]; intros v G; cbn [jv_at]; [apply Hf, G|].
  destruct v; try exact G.
  - apply jv_Forall_arr_intro; [exact I|]. apply Forall_nth_upd; [exact (jv_Forall_arr _ _ G)|exact IH].
  - apply jv_Forall_obj_intro.
    + pose proof (jv_Forall_here _ _ G) as Hk. cbn [node_ok] in *. apply Forall_nth_upd; [exact Hk|]. intros x Hx. exact Hx.
    + apply Forall_nth_upd; [exact (jv_Forall_obj _ _ G)|]. intros x Hx. cbn [snd]. apply IH, Hx.
Qed.

(* the arguments of one call, as the property allows them *)
Definition hop_arg_ok (h : hop) : Prop :=
  match h with
  | HSetDouble _ bits => dbl_finite bits = true
  | HSetUint64 _ z => 0 <= z
  | HSetString _ s => Forall byte_ok s
  | HReplace _ _ c => tree_ok c
  | _ => True
  end.

Lemma hop_ok h v : hop_arg_ok h -> tree_ok v -> tree_ok (hop_apply h v).
Proof.
  intros Ha G. destruct h; cbn [hop_apply hop_arg_ok] in *; try exact G; apply jv_at_ok; try exact G; intros x Gx.
  - destruct x as [| | | |b t| | |]; try exact Gx. destruct t; cbn in *; [split; [tauto|exact I]|exact Gx].
  - destruct x; try exact Gx. cbn. split; [exact Ha|exact I].
  - destruct x; try exact Gx; cbn; tauto.
  - destruct x; try exact Gx; cbn; tauto.
  - destruct x; try exact Gx; cbn; tauto.
  - destruct x; try exact Gx. cbn. split; [exact Ha|exact I].
  - destruct x; try exact Gx; cbn [replace_child].
    + apply jv_Forall_arr_intro; [exact I|]. apply Forall_nth_upd; [exact (jv_Forall_arr _ _ Gx)|]. intros _ _. exact Ha.
    + apply jv_Forall_obj_intro.
      * pose proof (jv_Forall_here _ _ Gx) as Hk. cbn [node_ok] in *. apply Forall_nth_upd; [exact Hk|]. intros y Hy. exact Hy.
      * apply Forall_nth_upd; [exact (jv_Forall_obj _ _ Gx)|]. intros y _. exact Ha.
  - destruct x; try exact Gx; cbn [delete_child].
    + apply jv_Forall_arr_intro; [exact I|]. apply Forall_nth_del. exact (jv_Forall_arr _ _ Gx).
    + apply jv_Forall_obj_intro.
      * pose proof (jv_Forall_here _ _ Gx) as Hk. cbn [node_ok] in *. apply Forall_nth_del. exact Hk.
      * apply Forall_nth_del. exact (jv_Forall_obj _ _ Gx).
Qed.
Lemma hist_ok hs : Forall hop_arg_ok hs -> forall v, tree_ok v -> tree_ok (hist_apply hs v).
Proof.
  unfold hist_apply. induction 1 as [|h r Hh _ IH]; intros v G; cbn [fold_left]; [exact G|]. apply IH, hop_ok; assumption.
Qed.

(* C02 over histories: whatever sequence of deep copies, setters, child replacements and deletions
   produced the tree, its text is RFC 8259 and denotes the tree, and the flags change only whitespace *)
Theorem history_valid fmt17 (Hfmt : fmt17_ok fmt17) fl hs v :
  color fl = false -> tree_ok v -> Forall hop_arg_ok hs ->
  exists s, stx_ok s = true /\ render s = serialize fmt17 fl 0 (hist_apply hs v) /\ denotes fmt17 (value s) (hist_apply hs v).
Proof. intros Hc G Hs. apply ser_is_valid; [exact Hfmt|exact Hc|]. apply hist_ok; assumption. Qed.
Theorem history_flags fmt17 (Hfmt : fmt17_ok fmt17) fl hs v :
  tree_ok v -> Forall hop_arg_ok hs ->
  significant (serialize fmt17 fl 0 (hist_apply hs v)) = significant (serialize fmt17 flags_plain 0 (hist_apply hs v)).
Proof. intros G Hs. apply flags_only_whitespace; [exact Hfmt|]. apply hist_ok; assumption. Qed.

(* json_object_set_double: the node then prints the %.17g text of the NEW value, whatever text it
   retained before (from the parser, json_object_new_double_s, or through a deep copy of either) *)
Theorem set_double_prints_new_value fmt17 fl level b t bits :
  serialize fmt17 fl level (set_double_node bits (JDouble b t)) = double_text fmt17 fl bits.
Proof. reflexivity. Qed.
(* and a deep copy prints what its source prints *)
Theorem copy_prints_the_same fmt17 fl level v : serialize fmt17 fl level (hop_apply HCopy v) = serialize fmt17 fl level v.
Proof. reflexivity. Qed.

(* opaque userdata never reaches the text; a serializer reset prints the default text of the value *)
Theorem userdata_is_opaque fmt17 fl level p v : serialize fmt17 fl level (hop_apply (HSetUserdata p) v) = serialize fmt17 fl level v.
Proof. reflexivity. Qed.
Theorem reset_prints_default fmt17 fl level b t :
  serialize fmt17 fl level (reset_serializer_node (JDouble b t)) = double_text fmt17 fl b.
Proof. reflexivity. Qed.

(* ------------------------------------------------------------------ option formats: global and per thread *)
Lemma double_fixup_drops_true fl out : double_fixup_drops true fl out = double_fixup fl out.
Proof.
  unfold double_fixup_drops, double_fixup, double_fixup_with.
  destruct (split_at 44 (zfirstn 127 out)) as [[a b]|]; [|destruct (split_at 46 (zfirstn 127 out)) as [[a b]|]];
    rewrite ?andb_true_r; reflexivity.
Qed.

Lemma t_lookup_remove_other a b l : a <> b -> t_lookup b (t_remove a l) = t_lookup b l.
Proof.
  intros Hab. induction l as [|[k f] r IH]; [reflexivity|]. cbn [t_remove t_lookup].
  destruct (k =? a) eqn:Ea.
  - apply Z.eqb_eq in Ea. subst k. replace (a =? b) with false by lia. exact IH.
  - cbn [t_lookup]. rewrite IH. reflexivity.
Qed.
Lemma t_lookup_set_other a b f l : a <> b -> t_lookup b (t_set a f l) = t_lookup b l.
Proof.
  intros Hab. destruct f as [f|]; cbn [t_set t_lookup]; [replace (a =? b) with false by lia|]; apply t_lookup_remove_other, Hab.
Qed.

(* a THREAD setting made by another thread is invisible here, whatever the format and whether or not
   thread-local storage is compiled in *)
Theorem effective_other_thread sup st a b f : a <> b ->
  effective (fst (set_format sup st a f 1)) b = effective st b.
Proof.
  intros Hab. unfold set_format, effective. change (1 =? 0) with false. change (1 =? 1) with true. cbv iota zeta.
  destruct sup; cbn [fst]; [|reflexivity].
  cbn [t_fmt g_fmt]. rewrite t_lookup_set_other by exact Hab. reflexivity.
Qed.
(* a GLOBAL setting made by another thread applies here unless this thread has its own format *)
Theorem effective_global_elsewhere sup st a b f : a <> b ->
  effective (fst (set_format sup st a f 0)) b =
  match t_lookup b (t_fmt st) with Some own => Some own | None => match f with Some f => Some (c_str f) | None => None end end.
Proof.
  intros Hab. unfold set_format, effective. change (0 =? 0) with true. cbv iota zeta. cbn [fst t_fmt g_fmt].
  rewrite t_lookup_remove_other by exact Hab. reflexivity.
Qed.
(* an unknown scope value changes nothing *)
Theorem set_format_bad_scope sup st a f scope : scope <> 0 -> scope <> 1 -> set_format sup st a f scope = (st, -1).
Proof. intros H0 H1. unfold set_format. replace (scope =? 0) with false by lia. replace (scope =? 1) with false by lia. reflexivity. Qed.

(* what thread [tid] prints depends only on its own format and the global one *)
Theorem serialize_thread_depends fmt17 fmtd st st' tid fl level v :
  t_lookup tid (t_fmt st) = t_lookup tid (t_fmt st') -> g_fmt st = g_fmt st' ->
  serialize_thread fmt17 fmtd st tid fl level v = serialize_thread fmt17 fmtd st' tid fl level v.
Proof. intros H1 H2. unfold serialize_thread, effective. rewrite H1, H2. reflexivity. Qed.

(* any number of THREAD settings by other threads *)
Definition others_set (sup : bool) (tid : Z) (calls : list (Z * option (list byte))) (st : fmt_state) : fmt_state :=
  fold_left (fun s c => fst (set_format sup s (fst c) (snd c) 1)) calls st.
Lemma others_set_effective sup tid calls : Forall (fun c => fst c <> tid) calls ->
  forall st, effective (others_set sup tid calls st) tid = effective st tid.
Proof.
  unfold others_set. induction 1 as [|c r Hc _ IH]; intros st; cbn [fold_left]; [reflexivity|].
  rewrite IH. apply effective_other_thread. exact Hc.
Qed.

(* C02 under the built-in format, whatever OTHER threads set for themselves: the text is the one of
   [serialize], hence RFC 8259 text denoting the tree (a whole-number double keeps its ".0") *)
Theorem default_format_other_threads fmt17 fmtd sup tid calls fl level v :
  Forall (fun c => fst c <> tid) calls ->
  serialize_thread fmt17 fmtd (others_set sup tid calls fmt_init) tid fl level v = serialize fmt17 fl level v.
Proof. intros H. unfold serialize_thread. rewrite (others_set_effective sup tid calls H). reflexivity. Qed.

Theorem default_format_valid fmt17 fmtd (Hfmt : fmt17_ok fmt17) sup tid calls fl v :
  Forall (fun c => fst c <> tid) calls -> color fl = false -> tree_ok v ->
  exists s, stx_ok s = true /\ render s = serialize_thread fmt17 fmtd (others_set sup tid calls fmt_init) tid fl 0 v /\
            denotes fmt17 (value s) v.
Proof. intros H Hc G. rewrite default_format_other_threads by exact H. apply ser_is_valid; assumption. Qed.

(* a format that is the built-in one spelled out behaves as the built-in one *)
Theorem explicit_g17_format fmt17 fmtd fl bits :
  fmtd [37;46;49;55;103] bits = fmt17 bits ->
  opt_double_text fmtd [37;46;49;55;103] fl bits = double_text fmt17 fl bits.
Proof.
  intros H. unfold opt_double_text, double_text. rewrite H.
  change (negb (has_sub [46;48;102] [37;46;49;55;103])) with true. rewrite double_fixup_drops_true. reflexivity.
Qed.

(* ------------------------------------------------------------------ custom serializers: opaque pieces *)
(* a custom-serializer node prints its piece verbatim, under every flag word and at every level *)
Theorem piece_is_verbatim fmt17 fl level piece : SerModel.has_byte 0 piece = false ->
  serialize fmt17 fl level (piece_node piece) = piece.
Proof. intros H. cbn [piece_node serialize]. apply c_str_clean, H. Qed.
(* ... also as the only element of an array: the brackets and the layout around it are the container's *)
Theorem piece_in_array fmt17 fl level piece : SerModel.has_byte 0 piece = false ->
  serialize fmt17 fl level (JArr [piece_node piece]) =
  [91] ++ child_prefix fl level ++ piece ++ container_close fl level true 93.
Proof.
  intros H. cbn [serialize map join_children child_text piece_node nonempty app].
  rewrite (c_str_clean _ H), app_nil_r, <- app_assoc. reflexivity.
Qed.
