(* SerProofs.v — proofs about the serializer model (C02).
   1. ser_is_valid            every tree, every flag word without COLOR: the output is the rendering of an
                              RFC 8259 syntax tree (SerSpec) whose value is exactly the tree
   2. color_only_escapes      COLOR only inserts colour sequences
   3. flags_only_whitespace   stated in full, refuted for NOZERO (nozero_refuted), proved under the guard
   4. roundtrip               through the tokener model: scalars proved, containers by computation *)
From JC Require Import Base BaseLemmas Value SerModel SerSpec.
Local Open Scope Z_scope.

(* ------------------------------------------------------------------ generalities *)
Fixpoint zrange (lo : Z) (n : nat) : list Z :=
  match n with O => [] | S n' => lo :: zrange (lo + 1) n' end.
Lemma zrange_forall (f : Z -> bool) n : forall lo,
  forallb f (zrange lo n) = true -> forall u, lo <= u < lo + Z.of_nat n -> f u = true.
Proof.
  induction n as [|n IH]; intros lo H u Hu; [lia|].
  cbn [zrange forallb] in H. apply andb_true_iff in H. destruct H as [H1 H2].
  destruct (Z.eq_dec u lo) as [->|Hne]; [exact H1|].
  apply (IH (lo + 1) H2). lia.
Qed.

Lemma bytes_eqb_eq a b : bytes_eqb a b = true -> a = b.
Proof.
  revert b; induction a as [|x a IH]; intros [|y b]; cbn; intros H; try discriminate; try reflexivity.
  apply andb_true_iff in H. destruct H as [H1 H2]. apply Z.eqb_eq in H1. apply IH in H2. congruence.
Qed.

Lemma Forall_exists_list {A B} (R : A -> B -> Prop) l :
  Forall (fun x => exists y, R x y) l -> exists ys, Forall2 R l ys.
Proof.
  induction 1 as [|x l [y Hy] _ [ys IH]]; [exists []; constructor|].
  exists (y :: ys). constructor; assumption.
Qed.

Lemma flat_map_map {A B C} (f : B -> list C) (g : A -> B) l : flat_map f (map g l) = flat_map (fun x => f (g x)) l.
Proof. induction l as [|x l IH]; cbn; [reflexivity|]. rewrite IH. reflexivity. Qed.

Lemma flat_map_ext' {A B} (f g : A -> list B) l : Forall (fun x => f x = g x) l -> flat_map f l = flat_map g l.
Proof. induction 1 as [|x l H _ IH]; cbn; [reflexivity|]. rewrite H, IH. reflexivity. Qed.

(* ------------------------------------------------------------------ has_byte / split_at *)
Lemma has_byte_app c a b : has_byte c (a ++ b) = has_byte c a || has_byte c b.
Proof. induction a as [|x a IH]; cbn; [reflexivity|]. rewrite IH. apply orb_assoc. Qed.

Lemma split_at_none c l : has_byte c l = false -> split_at c l = None.
Proof.
  induction l as [|x l IH]; cbn; [reflexivity|]. intros H. apply orb_false_iff in H. destruct H as [H1 H2].
  rewrite H1, (IH H2). reflexivity.
Qed.
Lemma split_at_first c a b : has_byte c a = false -> split_at c (a ++ c :: b) = Some (a, b).
Proof.
  induction a as [|x a IH]; cbn.
  - rewrite Z.eqb_refl. reflexivity.
  - intros H. apply orb_false_iff in H. destruct H as [H1 H2]. rewrite H1, (IH H2). reflexivity.
Qed.

Lemma digits_no_byte c ds : forallb digit ds = true -> digit c = false -> has_byte c ds = false.
Proof.
  induction ds as [|x ds IH]; cbn; [reflexivity|]. intros H Hc. apply andb_true_iff in H. destruct H as [H1 H2].
  rewrite (IH H2 Hc). destruct (x =? c) eqn:E; [|reflexivity]. apply Z.eqb_eq in E. subst. congruence.
Qed.

Lemma digits1_forall ds : digits1 ds = true -> forallb digit ds = true /\ ds <> [].
Proof. destruct ds; cbn; [discriminate|]. intros H. split; [exact H|discriminate]. Qed.
Lemma digits1_intro ds : forallb digit ds = true -> ds <> [] -> digits1 ds = true.
Proof. destruct ds; [congruence|]. intros H _. exact H. Qed.

(* ------------------------------------------------------------------ digits *)
Lemma digits_value_app a b : digits_value (a ++ b) = digits_value a * 10 ^ zlen b + digits_value b.
Proof.
  unfold digits_value.
  assert (G : forall b acc, fold_left (fun a c => a * 10 + (c - 48)) b acc
                            = acc * 10 ^ zlen b + fold_left (fun a c => a * 10 + (c - 48)) b 0).
  { clear. induction b as [|c b IH]; intros acc; cbn [fold_left zlen].
    - rewrite Z.pow_0_r. lia.
    - rewrite IH. rewrite (IH (0 * 10 + (c - 48))). pose proof (zlen_nonneg b).
      rewrite Z.pow_add_r by lia. lia. }
  rewrite fold_left_app. apply G.
Qed.

Lemma digits_value_zeros k : digits_value (repeat 48 k) = 0.
Proof.
  induction k as [|k IH]; [reflexivity|].
  change (repeat 48 (S k)) with ([48] ++ repeat 48 k). rewrite digits_value_app, IH. reflexivity.
Qed.

Lemma zlen_repeat {A} (x : A) k : zlen (repeat x k) = Z.of_nat k.
Proof. rewrite zlen_length, repeat_length. reflexivity. Qed.

(* ------------------------------------------------------------------ integers *)
Lemma dec_digits_spec fuel : forall n acc, 1 <= n < 2 ^ Z.of_nat fuel ->
  exists ds, dec_digits fuel n acc = ds ++ acc /\ forallb digit ds = true /\
             digits_value ds = n /\ (exists c r, ds = c :: r /\ c <> 48).
Proof.
  induction fuel as [|f IH]; intros n acc Hn.
  - change (2 ^ Z.of_nat 0) with 1 in Hn. lia.
  - cbn [dec_digits]. destruct (n <? 10) eqn:E.
    + exists [48 + n mod 10]. rewrite Z.mod_small by lia. repeat split.
      * cbn [forallb]. unfold digit. lia.
      * unfold digits_value. cbn [fold_left]. lia.
      * exists (48 + n), []. split; [reflexivity|lia].
    + assert (Hq : 1 <= n / 10 < 2 ^ Z.of_nat f).
      { rewrite Nat2Z.inj_succ, Z.pow_succ_r in Hn by lia. split.
        - apply Z.div_le_lower_bound; lia.
        - apply Z.div_lt_upper_bound; lia. }
      destruct (IH (n / 10) ((48 + n mod 10) :: acc) Hq) as (ds & H1 & H2 & H3 & c & r & H4 & H5).
      exists (ds ++ [48 + n mod 10]). rewrite H1, <- app_assoc. cbn [app]. repeat split.
      * rewrite forallb_app, H2. cbn [forallb andb]. unfold digit. pose proof (Z.mod_pos_bound n 10 ltac:(lia)). lia.
      * rewrite digits_value_app, H3. cbn [zlen]. unfold digits_value at 1. cbn [fold_left].
        pose proof (Z.div_mod n 10 ltac:(lia)). lia.
      * exists c, (r ++ [48 + n mod 10]). rewrite H4. split; [reflexivity|exact H5].
Qed.

Lemma dec_u_spec n : 0 <= n ->
  digits1 (dec_u n) = true /\ digits_value (dec_u n) = n /\
  match dec_u n with [c] => true | c :: _ => negb (c =? 48) | [] => false end = true.
Proof.
  intros Hn. destruct (Z.eq_dec n 0) as [->|Hnz].
  - repeat split.
  - assert (H : 1 <= n < 2 ^ Z.of_nat (S (Z.to_nat (Z.log2 n)))).
    { split; [lia|]. rewrite Nat2Z.inj_succ, Z2Nat.id by apply Z.log2_nonneg.
      apply Z.log2_spec. lia. }
    destruct (dec_digits_spec _ n [] H) as (ds & H1 & H2 & H3 & c & r & H4 & H5).
    unfold dec_u. rewrite H1, app_nil_r. repeat split; [|exact H3|].
    + apply digits1_intro; [exact H2|]. rewrite H4. discriminate.
    + rewrite H4. destruct r; [reflexivity|]. apply negb_true_iff. lia.
Qed.

Lemma num_plain_int neg ds :
  digits1 ds = true -> match ds with [c] => true | c :: _ => negb (c =? 48) | [] => false end = true ->
  num_ok (mknum neg ds None None) = true /\
  render_num (mknum neg ds None None) = (if neg then [45] else []) ++ ds /\
  num_val (mknum neg ds None None) = (if neg then - digits_value ds else digits_value ds, 0).
Proof.
  intros H1 H2. unfold num_ok, render_num, num_val. cbn [n_neg n_int n_frac n_exp render_frac render_exp zlen].
  rewrite H1, H2, !app_nil_r. repeat split.
Qed.

(* the token of an int64 / uint64 node *)
Lemma int_token z : exists n, num_ok n = true /\ render_num n = dec_s z /\ num_val n = (z, 0).
Proof.
  unfold dec_s. destruct (z <? 0) eqn:E.
  - destruct (dec_u_spec (- z) ltac:(lia)) as (H2 & H3 & H4).
    exists (mknum true (dec_u (- z)) None None).
    destruct (num_plain_int true _ H2 H4) as (A & B & C). rewrite A, B, C, H3. repeat split. f_equal. lia.
  - destruct (dec_u_spec z ltac:(lia)) as (H2 & H3 & H4).
    exists (mknum false (dec_u z) None None).
    destruct (num_plain_int false _ H2 H4) as (A & B & C). rewrite A, B, C, H3. repeat split.
Qed.
Lemma uint_token z : 0 <= z -> exists n, num_ok n = true /\ render_num n = dec_u z /\ num_val n = (z, 0).
Proof.
  intros Hz. destruct (dec_u_spec z Hz) as (H2 & H3 & H4).
  exists (mknum false (dec_u z) None None).
  destruct (num_plain_int false _ H2 H4) as (A & B & C). rewrite A, B, C, H3. repeat split.
Qed.

(* ------------------------------------------------------------------ strings *)
Definition char_stx (fl : sflags) (c : byte) : schar :=
  if c =? 8 then CEsc EB else if c =? 10 then CEsc EN else if c =? 13 then CEsc ER
  else if c =? 9 then CEsc ET else if c =? 12 then CEsc EF else if c =? 34 then CEsc EQuote
  else if c =? 92 then CEsc EBackslash
  else if c =? 47 then (if noslash fl then CRaw 47 else CEsc ESolidus)
  else if c <? 32 then CU (false, false, false, false) c
  else CRaw c.

Definition fl_ns (ns : bool) : sflags := mkfl false false false false ns false.
Definition char_case_ok (ns : bool) (c : byte) : bool :=
  bytes_eqb (render_char (char_stx (fl_ns ns) c)) (escape_char (fl_ns ns) c) &&
  schar_ok (char_stx (fl_ns ns) c) && bytes_eqb (char_value (char_stx (fl_ns ns) c)) [c].

Lemma char_sweep ns c : 0 <= c < 256 -> char_case_ok ns c = true.
Proof.
  intros Hc.
  assert (Ht : forallb (char_case_ok true) (zrange 0 256) = true) by (vm_compute; reflexivity).
  assert (Hf : forallb (char_case_ok false) (zrange 0 256) = true) by (vm_compute; reflexivity).
  destruct ns; [apply (zrange_forall _ _ 0 Ht)|apply (zrange_forall _ _ 0 Hf)]; lia.
Qed.

Lemma escape_char_ns fl c : escape_char fl c = escape_char (fl_ns (noslash fl)) c.
Proof. reflexivity. Qed.
Lemma char_stx_ns fl c : char_stx fl c = char_stx (fl_ns (noslash fl)) c.
Proof. reflexivity. Qed.

Definition byte_ok (c : byte) : Prop := 0 <= c < 256.

Lemma char_spec fl c : byte_ok c ->
  render_char (char_stx fl c) = escape_char fl c /\ schar_ok (char_stx fl c) = true /\ char_value (char_stx fl c) = [c].
Proof.
  intros Hc. pose proof (char_sweep (noslash fl) c Hc) as H. unfold char_case_ok in H.
  apply andb_true_iff in H. destruct H as [H H3]. apply andb_true_iff in H. destruct H as [H1 H2].
  rewrite escape_char_ns, char_stx_ns. repeat split; [apply bytes_eqb_eq|..]; auto using bytes_eqb_eq.
Qed.

Lemma string_spec fl s : Forall byte_ok s ->
  render_string (map (char_stx fl) s) = quoted fl s /\
  forallb schar_ok (map (char_stx fl) s) = true /\
  string_value (map (char_stx fl) s) = s.
Proof.
  intros H. unfold render_string, quoted, escape_str, string_value.
  induction H as [|c s Hc _ IH]; [repeat split|].
  destruct IH as (I1 & I2 & I3). destruct (char_spec fl c Hc) as (C1 & C2 & C3).
  cbn [map flat_map forallb]. rewrite C1, C2, C3, I2, I3. repeat split.
  injection I1 as I1. apply app_inv_tail in I1. rewrite I1. reflexivity.
Qed.

Lemma c_str_bytes_ok s : Forall byte_ok s -> Forall byte_ok (c_str s).
Proof.
  induction 1 as [|c s Hc _ IH]; cbn; [constructor|]. destruct (c =? 0); constructor; assumption.
Qed.

(* ------------------------------------------------------------------ NOZERO trimming *)
(* the fraction without its trailing zeros *)
Fixpoint tz (l : list byte) : list byte :=
  match l with
  | [] => []
  | c :: r => match tz r with [] => if c =? 48 then [] else [c] | t => c :: t end
  end.

Lemma tz_prefix l : exists k, l = tz l ++ repeat 48 k.
Proof.
  induction l as [|c l [k IH]]; [exists 0%nat; reflexivity|]. cbn [tz].
  destruct (tz l) as [|t0 t] eqn:E.
  - destruct (c =? 48) eqn:Ec.
    + apply Z.eqb_eq in Ec. subst c. exists (S k). cbn in *. rewrite IH at 1. reflexivity.
    + exists k. cbn in *. rewrite IH at 1. reflexivity.
  - exists k. cbn in *. rewrite IH at 1. reflexivity.
Qed.

Lemma last_nz_tz l : forall i best,
  last_nz l i best = match tz l with [] => best | t => (i + length t - 1)%nat end.
Proof.
  induction l as [|c l IH]; intros i best; cbn [last_nz tz]; [reflexivity|].
  rewrite IH. destruct (tz l) as [|t0 t] eqn:E.
  - destruct (c =? 48); [reflexivity|]. cbn. lia.
  - cbn [length]. lia.
Qed.

Lemma trim_zeros_tz l : trim_zeros l = match tz l with [] => firstn 1 l | t => t end.
Proof.
  unfold trim_zeros. rewrite last_nz_tz. destruct (tz l) as [|t0 t] eqn:E; [reflexivity|].
  destruct (tz_prefix l) as [k Hk]. rewrite E in Hk. rewrite Hk at 1.
  replace (S (0 + length (t0 :: t) - 1)) with (length (t0 :: t) + 0)%nat by (cbn; lia).
  rewrite firstn_app_2. cbn. rewrite app_nil_r. reflexivity.
Qed.

(* a non-empty fraction stays a non-empty digit string of the same value *)
Lemma trim_zeros_spec f : forallb digit f = true -> f <> [] ->
  exists k, f = trim_zeros f ++ repeat 48 k /\ trim_zeros f <> [] /\ forallb digit (trim_zeros f) = true.
Proof.
  intros Hd Hne. rewrite trim_zeros_tz. destruct (tz_prefix f) as [k Hk].
  destruct (tz f) as [|t0 t] eqn:E.
  - cbn in Hk. destruct f as [|c f]; [congruence|]. destruct k as [|k]; [discriminate|].
    cbn in Hk. injection Hk as -> ->. exists k. cbn. repeat split; discriminate.
  - exists k. split; [exact Hk|]. split; [discriminate|].
    rewrite Hk, forallb_app in Hd. apply andb_true_iff in Hd. tauto.
Qed.

(* trimming is the identity on a fraction whose last digit is not '0' (what %g prints) *)
Lemma tz_id l : last l 1 <> 48 -> l <> [] -> tz l = l.
Proof.
  induction l as [|c l IH]; intros Hl Hne; [congruence|]. cbn [tz].
  destruct l as [|c2 l].
  - cbn in *. destruct (c =? 48) eqn:E; [lia|reflexivity].
  - rewrite IH; [reflexivity|exact Hl|discriminate].
Qed.
Lemma trim_zeros_id l : last l 1 <> 48 -> trim_zeros l = l.
Proof.
  intros H. destruct l as [|c l]; [reflexivity|].
  rewrite trim_zeros_tz, tz_id; [reflexivity|exact H|discriminate].
Qed.

(* ------------------------------------------------------------------ doubles *)
(* the hypothesis on the libc oracle: what "%.17g" prints for a finite double is
   [-]digits[.digits][e(+|-)digits] with a lower-case e, far shorter than the 128-byte buffer *)
Definition g17_shape (n : numtok) : Prop :=
  num_ok n = true /\
  match n_exp n with Some (up, _, _) => up = false | None => True end /\
  zlen (render_num n) < 126.

Lemma dec_eq_refl a : dec_eq a a.
Proof. unfold dec_eq. reflexivity. Qed.

Lemma has101_exp e : (match e with Some (up, _, _) => up = false | None => True end) ->
  (match e with Some (_, _, ds) => digits1 ds = true | None => True end) ->
  has_byte 101 (render_exp e) = match e with Some _ => true | None => false end.
Proof. destruct e as [[[up sg] ds]|]; [|reflexivity]. intros -> _. reflexivity. Qed.

Lemma no_byte_exp c e : digit c = false -> c <> 101 -> c <> 69 -> c <> 43 -> c <> 45 ->
  (match e with Some (_, _, ds) => digits1 ds = true | None => True end) ->
  has_byte c (render_exp e) = false.
Proof.
  intros Hd H1 H2 H3 H4. destruct e as [[[up sg] ds]|]; [|reflexivity]. intros Hds.
  apply digits1_forall in Hds. destruct Hds as [Hds _]. cbn [render_exp has_byte].
  rewrite has_byte_app, (digits_no_byte c ds Hds Hd), orb_false_r.
  destruct up, sg; cbn [has_byte]; lia.
Qed.

Definition lead_ok (i : list byte) : bool :=
  match i with [c] => true | c :: _ => negb (c =? 48) | [] => false end.
Definition frac_ok (f : option (list byte)) : bool := match f with Some f => digits1 f | None => true end.
Definition exp_ok (e : option (bool * esign * list byte)) : bool :=
  match e with Some (_, _, ds) => digits1 ds | None => true end.
Lemma num_ok_iff neg i f e :
  num_ok (mknum neg i f e) = true <->
  digits1 i = true /\ lead_ok i = true /\ frac_ok f = true /\ exp_ok e = true.
Proof.
  unfold num_ok, lead_ok, frac_ok, exp_ok. cbn [n_neg n_int n_frac n_exp].
  rewrite !andb_true_iff. tauto.
Qed.
Lemma num_ok_parts n : num_ok n = true ->
  digits1 (n_int n) = true /\
  match n_frac n with Some f => digits1 f = true | None => True end /\
  match n_exp n with Some (_, _, ds) => digits1 ds = true | None => True end.
Proof.
  destruct n as [neg i f e]. intros H. apply num_ok_iff in H. destruct H as (H1 & _ & H3 & H4).
  cbn [n_int n_frac n_exp]. repeat split; [exact H1|destruct f; auto|destruct e as [[[? ?] ?]|]; auto].
Qed.

Lemma double_fixup_eq trim fl out : zlen out < 126 -> split_at 44 out = None ->
  double_fixup_with trim fl out =
    match split_at 46 out with
    | Some (a, b) => if nozero fl
                     then let t := a ++ 46 :: trim b in zfirstn (if zlen t >=? 128 then 127 else zlen t) t
                     else out
    | None => if looks_numeric out (zlen out) && negb (has_byte 101 out) then out ++ [46;48] else out
    end.
Proof.
  intros Hlen H44. unfold double_fixup_with. pose proof (zlen_nonneg out).
  rewrite (zfirstn_all 127 out) by lia. rewrite H44.
  destruct (split_at 46 out) as [[a b]|].
  - rewrite !andb_false_r. cbn [andb]. destruct (nozero fl); [reflexivity|].
    replace (zlen out >=? 128) with false by lia. cbv iota. apply zfirstn_all. lia.
  - replace (zlen out <? 126) with true by lia. cbn [andb]. rewrite andb_true_r.
    destruct (looks_numeric out (zlen out) && negb (has_byte 101 out)).
    + replace (zlen out + 2 >=? 128) with false by lia. cbv iota. apply zfirstn_all. rewrite zlen_app. cbn [zlen]. lia.
    + replace (zlen out >=? 128) with false by lia. cbv iota. apply zfirstn_all. lia.
Qed.

Lemma render_num_eq neg i f e :
  render_num (mknum neg i f e) = ((if neg then [45] else []) ++ i) ++ render_frac f ++ render_exp e.
Proof. unfold render_num. cbn [n_neg n_int n_frac n_exp]. rewrite app_assoc. reflexivity. Qed.

Lemma double_fixup_shape fl n0 :
  g17_shape n0 -> (nozero fl = false \/ has_byte 101 (render_num n0) = false) ->
  exists n', num_ok n' = true /\ render_num n' = double_fixup fl (render_num n0) /\
             dec_eq (num_val n') (num_val n0).
Proof.
  intros (Hok & Hup & Hlen) Hnz. destruct n0 as [neg i f e]. cbn [n_exp] in Hup.
  pose proof Hok as Hok'. apply num_ok_iff in Hok'. destruct Hok' as (O1 & O2 & O3 & O4).
  destruct (digits1_forall _ O1) as [Hi Hine].
  rewrite render_num_eq in *. set (sg := if neg then [45] else [] : list byte) in *.
  assert (Hsg : forall c, digit c = false -> c <> 45 -> has_byte c (sg ++ i) = false).
  { intros c Hc H45. rewrite has_byte_app, (digits_no_byte c i Hi Hc). subst sg. destruct neg; cbn [has_byte]; lia. }
  assert (Hex : forall c, digit c = false -> c <> 101 -> c <> 69 -> c <> 43 -> c <> 45 -> has_byte c (render_exp e) = false).
  { intros c ? ? ? ? ?. apply no_byte_exp; auto. destruct e as [[[? ?] ?]|]; [exact O4|exact I]. }
  assert (He101 : has_byte 101 (render_exp e) = match e with Some _ => true | None => false end).
  { apply has101_exp; [exact Hup|]. destruct e as [[[? ?] ?]|]; [exact O4|exact I]. }
  assert (Hlook : forall rest, looks_numeric ((sg ++ i) ++ rest) (zlen ((sg ++ i) ++ rest)) = true).
  { intros rest. destruct i as [|c0 i']; [congruence|]. cbn [forallb] in Hi. apply andb_true_iff in Hi.
    destruct Hi as [Hc0 _]. subst sg. destruct neg; cbn [app looks_numeric].
    - change (SerModel.is_digit c0) with (digit c0). rewrite Hc0.
      pose proof (zlen_nonneg (i' ++ rest)). cbn [zlen].
      replace (1 + (1 + zlen (i' ++ rest)) >? 1) with true by lia. cbn. reflexivity.
    - change (SerModel.is_digit c0) with (digit c0). rewrite Hc0. reflexivity. }
  unfold double_fixup. rewrite double_fixup_eq; [|exact Hlen|].
  2:{ apply split_at_none. rewrite (has_byte_app 44 (sg ++ i)), (Hsg 44) by (reflexivity || lia).
      rewrite has_byte_app, (Hex 44) by (reflexivity || lia).
      destruct f as [fr|]; cbn [render_frac has_byte]; [|reflexivity].
      destruct (digits1_forall _ O3) as [Hfd _]. rewrite (digits_no_byte 44 fr Hfd eq_refl). reflexivity. }
  destruct f as [fr|]; cbn [render_frac] in *.
  - (* a decimal point *)
    destruct (digits1_forall _ O3) as [Hfd Hfne].
    change ((46 :: fr) ++ render_exp e) with (46 :: fr ++ render_exp e) in *.
    rewrite (split_at_first 46 (sg ++ i) (fr ++ render_exp e)) by (apply Hsg; [reflexivity|lia]).
    destruct (nozero fl) eqn:Enz.
    + (* NOZERO: the guard says there is no exponent *)
      destruct Hnz as [Hnz|Hnz]; [discriminate|].
      rewrite !has_byte_app in Hnz. cbn [has_byte] in Hnz. rewrite has_byte_app, He101 in Hnz.
      destruct e as [e'|]; [rewrite !orb_true_r in Hnz; discriminate|].
      cbn [render_exp] in *. rewrite app_nil_r in *.
      unfold nozero_trim, nozero_trim_with, nozero_span. rewrite app_nil_r.
      destruct (trim_zeros_spec fr Hfd Hfne) as (k & Hk & Htne & Htd).
      exists (mknum neg i (Some (trim_zeros fr)) None). split; [|split].
      * apply num_ok_iff. repeat split; auto. apply digits1_intro; assumption.
      * rewrite render_num_eq. fold sg. cbn [render_frac render_exp]. rewrite app_nil_r.
        cbv zeta. set (t := (sg ++ i) ++ 46 :: trim_zeros fr).
        assert (Ht : zlen t < 128).
        { subst t. rewrite Hk in Hlen. rewrite !zlen_app in *. cbn [zlen] in *. rewrite ?zlen_app in Hlen.
          pose proof (zlen_nonneg (repeat 48 k)). lia. }
        replace (zlen t >=? 128) with false by lia. cbv iota. symmetry. apply zfirstn_all. lia.
      * unfold dec_eq, num_val. cbn [fst snd n_neg n_int n_frac n_exp].
        remember (trim_zeros fr) as T eqn:HT. clear HT Hlen Hnz O3 Hfd Hfne. subst fr.
        rewrite (app_assoc i T), (digits_value_app (i ++ T)), digits_value_zeros, zlen_app, !zlen_repeat.
        set (m := digits_value (i ++ T)). set (L := zlen T).
        replace (Z.min (0 - L) (0 - (L + Z.of_nat k))) with (0 - (L + Z.of_nat k)) by lia.
        replace (0 - L - (0 - (L + Z.of_nat k))) with (Z.of_nat k) by lia.
        rewrite Z.sub_diag, Z.pow_0_r. destruct neg; lia.
    + exists (mknum neg i (Some fr) e). split; [exact Hok|]. split; [|apply dec_eq_refl].
      rewrite render_num_eq. reflexivity.
  - (* no decimal point *)
    cbn [app] in *.
    rewrite (split_at_none 46) by (rewrite has_byte_app, (Hsg 46), (Hex 46) by (reflexivity || lia); reflexivity).
    rewrite Hlook, has_byte_app, (Hsg 101), He101 by (reflexivity || lia). cbn [andb orb].
    destruct e as [e'|]; cbn [negb].
    + exists (mknum neg i None (Some e')). split; [exact Hok|]. split; [|apply dec_eq_refl].
      rewrite render_num_eq. reflexivity.
    + (* an integer-looking text: ".0" is appended *)
      cbn [render_exp] in *. rewrite app_nil_r in *.
      exists (mknum neg i (Some [48]) None). split; [|split].
      * apply num_ok_iff. repeat split; auto.
      * rewrite render_num_eq. reflexivity.
      * unfold dec_eq, num_val. cbn [fst snd n_neg n_int n_frac n_exp zlen]. rewrite digits_value_app. cbn [zlen].
        change (digits_value [48]) with 0. rewrite app_nil_r.
        replace (Z.min (0 - (1 + 0)) (0 - 0)) with (-1) by lia.
        change (0 - (1 + 0) - -1) with 0. change (0 - 0 - -1) with 1. destruct neg; lia.
Qed.
