(* TokFdValid.v — C01 for the file/descriptor entry point: json_object_from_fd_ex's parse step
   (TokFd.from_fd_parse) returns the denoted value of EVERY valid text, whether or not blanks
   follow the value (so a file holding just 42 or true is accepted). *)
From JC Require Import Base BaseLemmas Value TokModel TokReset TokChunk3 TokSyntax TokValid TokFd.
Local Open Scope Z_scope.

Lemma nonul_Forall l : nonul l = true -> Forall (fun b => b <> 0) l.
Proof.
  unfold nonul. rewrite forallb_forall, Forall_forall. intros H b Hb. specialize (H b Hb). lia.
Qed.

Theorem from_fd_valid sb D s lead trail t :
  wf_stx s -> all_ws lead = true -> all_ws trail = true ->
  Z.of_nat (nest s) < D -> ints_in_range s = true -> names_nul_free s = true ->
  tok_new D false false false = Some t ->
  exists t', from_fd_parse sb t (render_doc lead s trail) = PR t' (Some (value sb s)) /\ err t' = TE_success.
Proof.
  intros Hw Hl Ht Hd Hi Hn Hnew.
  destruct (parse_valid sb D false s lead trail t Hw Hl Ht Hd Hi Hn Hnew) as (tc & Hc & _ & _).
  destruct (new_not_fin D false false false t Hnew) as (Hf & Hwf & Hv).
  apply (from_fd_of_cstr sb t (render_doc lead s trail) tc (value sb s) Hwf Hf Hv); [|exact Hc].
  apply nonul_Forall. unfold render_doc. rewrite !nonul_app, (render_nonul s Hw), (nonul_ws _ Hl), (nonul_ws _ Ht). reflexivity.
Qed.

(* non-vacuity: the bare number 42 and the literal true, no trailing byte, are accepted; the
   single explicit-length call alone asks for more input *)
Definition fd_examples_ok : bool :=
  match tok_new 32 false false false with
  | None => false
  | Some t =>
      (match from_fd_parse (fun _ => 0) t [52;50] with PR t' (Some (JInt 42)) => true | _ => false end) &&
      (match from_fd_parse (fun _ => 0) t [116;114;117;101] with PR t' (Some (JBool true)) => true | _ => false end) &&
      (match parse_ex (fun _ => 0) t [52;50] with PR t' None => is_continue (err t') | _ => false end) &&
      (match from_fd_parse (fun _ => 0) t [91;49;44] with PR t' None => negb (is_continue (err t')) | _ => false end)
  end.
Lemma fd_examples : fd_examples_ok = true.
Proof. vm_compute. reflexivity. Qed.
