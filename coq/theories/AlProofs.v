(* AlProofs.v — invariant and refinement proofs for the array list (C07). *)
From JC Require Import Base BaseLemmas AlModel.
From Coq Require Import Sorting.Sorted Sorting.Permutation Sorting.Mergesort.
Local Open Scope Z_scope.

Definition unval (c : cell) : elt := match c with Val e => e | Undef => None end.
Definition al_abs (a : alist) : spec := map unval (al_cells a).

(* |slots| = size, 0 <= length <= size, size * sizeof(void * ) fits a size_t, and the
   first [length] slots are determinate *)
Definition Inv (a : alist) : Prop :=
  zlen (slots a) = asize a /\ 0 <= alen a <= asize a /\ asize a <= SIZE_MAX / PTR /\
  al_cells a = map Val (al_abs a).

Definition wr_ok (sz : Z) (w : awr) : Prop :=
  0 <= aw_off w /\ 0 <= aw_len w /\ aw_off w + aw_len w <= sz.

Lemma maxslots : SIZE_MAX / PTR = 2305843009213693951.
Proof. reflexivity. Qed.

Lemma halfmax : SIZE_MAX / 2 = 9223372036854775807.
Proof. reflexivity. Qed.

Ltac zl := rewrite ?maxslots, ?halfmax in *; unfold in_size, SIZE_MAX, PTR in *; lia.

(* ---------------- general list facts ---------------- *)
Lemma map_unval_Val l : map unval (map Val l) = l.
Proof. induction l; cbn; congruence. Qed.

Lemma zfirstn_app_exact {A} n (a b : list A) : zlen a = n -> zfirstn n (a ++ b) = a.
Proof. intros H. rewrite zfirstn_app_l by lia. apply zfirstn_all. lia. Qed.

Lemma zskipn_app_exact {A} n (a b : list A) : zlen a = n -> zskipn n (a ++ b) = b.
Proof.
  intros H. rewrite zskipn_app_r by lia. apply zskipn_nonpos. lia.
Qed.

Lemma zsplit {A} (l : list A) i : 0 <= i <= zlen l ->
  l = zfirstn i l ++ zskipn i l /\ zlen (zfirstn i l) = i /\ zlen (zskipn i l) = zlen l - i.
Proof.
  intros H. rewrite zfirstn_zskipn, zlen_zfirstn, zlen_zskipn. repeat split; lia.
Qed.

Lemma zlen_cons_inv {A} (l : list A) : 1 <= zlen l -> exists x r, l = x :: r /\ zlen r = zlen l - 1.
Proof. destruct l as [|x r]; cbn [zlen]; intros H; [lia|]. exists x, r. split; [reflexivity|lia]. Qed.

Lemma write_cells_decomp m A B C off cs :
  m = A ++ B ++ C -> zlen A = off -> zlen B = zlen cs -> write_cells m off cs = A ++ cs ++ C.
Proof.
  intros -> HA HB. unfold write_cells. rewrite zfirstn_app_exact by assumption. f_equal. f_equal.
  rewrite zskipn_app_r by (pose proof (zlen_nonneg cs); lia).
  replace (off + zlen cs - zlen A) with (zlen B) by lia.
  apply zskipn_app_exact. reflexivity.
Qed.

Lemma znth_map {A B} (f : A -> B) l i : znth (map f l) i = option_map f (znth l i).
Proof. unfold znth. destruct (i <? 0); [reflexivity|]. apply nth_error_map. Qed.

Lemma znth_beyond {A} (l : list A) i : zlen l <= i -> znth l i = None.
Proof.
  intros H. pose proof (zlen_nonneg l). unfold znth. destruct (i <? 0) eqn:E; [reflexivity|].
  apply nth_error_None. rewrite zlen_length in H. lia.
Qed.

Lemma znth_mid {A} (a : list A) x b i : zlen a = i -> znth (a ++ x :: b) i = Some x.
Proof.
  intros H. pose proof (zlen_nonneg a). rewrite znth_app_r by lia.
  replace (i - zlen a) with 0 by lia. reflexivity.
Qed.

Lemma zlen_repeat_nn {A} (x : A) n : 0 <= n -> zlen (zrepeat x n) = n.
Proof. intros H. rewrite zlen_zrepeat. lia. Qed.

Lemma released_map_Val L : released (map Val L) = Some (nonnull L).
Proof.
  induction L as [|e L IH]; cbn [map released]; [reflexivity|]. rewrite IH.
  destruct e; reflexivity.
Qed.

Lemma cell_vals_map_Val L : cell_vals (map Val L) = Some L.
Proof. induction L as [|e L IH]; cbn [map cell_vals]; [reflexivity|]. rewrite IH. reflexivity. Qed.

(* ---------------- the invariant as a decomposition of the slot vector ---------------- *)
Lemma inv_decomp a : Inv a ->
  exists T, slots a = map Val (al_abs a) ++ T /\ zlen (al_abs a) = alen a /\ zlen T = asize a - alen a.
Proof.
  intros (Hm & Hl & Hs & Hc). exists (zskipn (alen a) (slots a)).
  unfold al_cells in Hc. rewrite <- Hc.
  destruct (zsplit (slots a) (alen a)) as (E & L1 & L2); [lia|].
  repeat split; [exact E| |lia].
  unfold al_abs, al_cells. rewrite zlen_map. exact L1.
Qed.

Lemma inv_of_decomp s L T len sz :
  s = map Val L ++ T -> zlen L = len -> zlen s = sz -> sz <= SIZE_MAX / PTR ->
  Inv (mkal s len sz) /\ al_abs (mkal s len sz) = L.
Proof.
  intros -> HL Hs Hsz.
  assert (Hc : al_cells (mkal (map Val L ++ T) len sz) = map Val L).
  { unfold al_cells; cbn [slots alen]. apply zfirstn_app_exact. rewrite zlen_map. exact HL. }
  assert (Ha : al_abs (mkal (map Val L ++ T) len sz) = L).
  { unfold al_abs. rewrite Hc. apply map_unval_Val. }
  split; [|exact Ha]. unfold Inv. rewrite Ha, Hc. cbn [slots alen asize].
  pose proof Hs as Hs'. rewrite zlen_app, zlen_map in Hs'.
  pose proof (zlen_nonneg L). pose proof (zlen_nonneg T).
  repeat split; try lia; try assumption.
Qed.

Lemma abs_len a : Inv a -> zlen (al_abs a) = alen a.
Proof. intros H. destruct (inv_decomp a H) as (T & _ & E & _). exact E. Qed.

(* ---------------- new ---------------- *)
Lemma new2_spec al n :
  match al_new2 al n with
  | NOk a => Inv a /\ al_abs a = [] /\ asize a = n /\ alen a = 0 /\ 0 <= n < SIZE_MAX / PTR
  | NFail => True
  | NUB => False
  end.
Proof.
  unfold al_new2.
  destruct ((n <? 0) || (n >=? SIZE_MAX / PTR)) eqn:E1; [exact I|].
  destruct (negb (al STRUCT_SZ)); [exact I|].
  assert (Hn : 0 <= n < SIZE_MAX / PTR) by lia.
  assert (Hi : in_size (n * PTR) = true) by (rewrite maxslots in Hn; zl).
  rewrite Hi; cbn [negb].
  destruct (al (n * PTR)); [|exact I].
  destruct (inv_of_decomp (zrepeat Undef n) [] (zrepeat Undef n) 0 n) as [HI HA];
    try reflexivity; [apply zlen_repeat_nn; lia|lia|].
  refine (conj HI (conj HA _)). cbn [asize alen]. lia.
Qed.

(* ---------------- get / length ---------------- *)
Lemma sget_past_end (l : spec) i : zlen l <= i -> sget l i = None.
Proof. intros H. unfold sget. rewrite znth_beyond by assumption. reflexivity. Qed.

Lemma get_spec a i : Inv a -> 0 <= i -> al_get a i = GOk (sget (al_abs a) i).
Proof.
  intros HI Hi. destruct (inv_decomp a HI) as (T & Hs & HL & HT). unfold al_get.
  destruct (i >=? alen a) eqn:E.
  - rewrite sget_past_end by lia. reflexivity.
  - rewrite Hs. rewrite znth_app_l by (rewrite zlen_map; lia). rewrite znth_map. unfold sget.
    destruct (znth (al_abs a) i) as [e|] eqn:Z; cbn [option_map]; [reflexivity|].
    exfalso. unfold znth in Z. destruct (i <? 0) eqn:N; [lia|]. apply nth_error_None in Z.
    rewrite zlen_length in HL. lia.
Qed.

Lemma length_spec a : Inv a -> al_length a = zlen (al_abs a).
Proof. intros H. symmetry. apply abs_len. exact H. Qed.

(* ---------------- expand_internal ---------------- *)
Lemma expand_spec al a max :
  Inv a -> 1 <= max <= SIZE_MAX ->
  match al_expand al a max with
  | XOk a' => Inv a' /\ al_abs a' = al_abs a /\ alen a' = alen a /\ max <= asize a' /\ asize a <= asize a'
  | XFail => True
  | XUB => False
  end.
Proof.
  intros HI Hmax. pose proof HI as (Hm & Hl & Hs & Hc). rewrite maxslots in Hs. unfold al_expand.
  destruct (max <? asize a) eqn:E1.
  { refine (conj HI (conj eq_refl (conj eq_refl _))). lia. }
  destruct (asize a >=? SIZE_MAX / 2) eqn:E2; [zl|].
  assert (Hi : in_size (asize a * 2) = true) by zl. rewrite Hi.
  set (ns := if asize a * 2 <? max then max else asize a * 2).
  assert (Hns : max <= ns /\ asize a * 2 <= ns) by (subst ns; destruct (asize a * 2 <? max) eqn:E; lia).
  destruct (ns >? SIZE_MAX / PTR) eqn:E3; [exact I|]. rewrite maxslots in E3.
  assert (Hi2 : negb (in_size (ns * PTR)) || (ns =? 0) = false) by zl. rewrite Hi2.
  destruct (al (ns * PTR)); [|exact I].
  destruct (inv_decomp a HI) as (T & Hsl & HL & HT).
  destruct (inv_of_decomp (slots a ++ zrepeat Undef (ns - asize a)) (al_abs a)
              (T ++ zrepeat Undef (ns - asize a)) (alen a) ns) as [HI' HA'].
  - rewrite Hsl at 1. rewrite <- app_assoc. reflexivity.
  - exact HL.
  - rewrite zlen_app, zlen_repeat_nn by lia. lia.
  - rewrite maxslots. lia.
  - refine (conj HI' (conj HA' _)). cbn [alen asize]. lia.
Qed.

Lemma expand_fail_big al a max :
  Inv a -> SIZE_MAX / PTR < max <= SIZE_MAX -> al_expand al a max = XFail.
Proof.
  intros HI Hmax. pose proof HI as (Hm & Hl & Hs & Hc). rewrite maxslots in *. unfold al_expand.
  destruct (max <? asize a) eqn:E1; [lia|].
  destruct (asize a >=? SIZE_MAX / 2) eqn:E2; [zl|].
  assert (Hi : in_size (asize a * 2) = true) by zl. rewrite Hi.
  set (ns := if asize a * 2 <? max then max else asize a * 2).
  assert (Hns : max <= ns) by (subst ns; destruct (asize a * 2 <? max) eqn:E; lia).
  destruct (ns >? SIZE_MAX / PTR) eqn:E3; [reflexivity|]. rewrite maxslots in E3. lia.
Qed.

Lemma expand_served a max :
  Inv a -> 1 <= max <= SIZE_MAX / PTR -> asize a * 2 <= SIZE_MAX / PTR ->
  exists a', al_expand (fun _ => true) a max = XOk a'.
Proof.
  intros HI Hmax H2. pose proof HI as (Hm & Hl & Hs & Hc). rewrite maxslots in *. unfold al_expand.
  destruct (max <? asize a) eqn:E1; [eauto|].
  destruct (asize a >=? SIZE_MAX / 2) eqn:E2; [zl|].
  assert (Hi : in_size (asize a * 2) = true) by zl. rewrite Hi.
  set (ns := if asize a * 2 <? max then max else asize a * 2).
  assert (Hns : max <= ns <= 2305843009213693951) by (subst ns; destruct (asize a * 2 <? max) eqn:E; lia).
  destruct (ns >? SIZE_MAX / PTR) eqn:E3; [rewrite maxslots in E3; lia|].
  assert (Hi2 : negb (in_size (ns * PTR)) || (ns =? 0) = false) by zl. rewrite Hi2. eauto.
Qed.

(* ---------------- add ---------------- *)
Lemma add_spec al a d :
  Inv a ->
  match al_add al a d with
  | AOk a' r rel ws =>
      Inv a' /\ al_abs a' = al_abs a ++ [d] /\ rel = [] /\ r = 0 /\ Forall (wr_ok (asize a')) ws /\
      alen a + 1 <= SIZE_MAX / PTR
  | AFail a' => a' = a
  | AUB => False
  end.
Proof.
  intros HI. pose proof HI as (Hm & Hl & Hs & Hc). rewrite maxslots in Hs. unfold al_add.
  destruct (alen a >? SIZE_MAX - 1) eqn:E1; [reflexivity|].
  assert (Hi : in_size (alen a + 1) = true) by zl. rewrite Hi; cbn [negb].
  pose proof (expand_spec al a (alen a + 1) HI) as X.
  destruct (al_expand al a (alen a + 1)) as [a1| |]; [|reflexivity|apply X; zl].
  destruct X as (HI1 & HA1 & HL1 & Hmx & Hsz); [zl|].
  pose proof HI1 as (Hm1 & Hl1 & Hs1 & Hc1).
  assert (Hb : negb ((0 <=? alen a) && (alen a <? asize a1)) = false) by lia. rewrite Hb.
  assert (Hi3 : in_size (alen a1 + 1) = true) by (rewrite maxslots in Hs1; zl). rewrite Hi3; cbn [negb].
  destruct (inv_decomp a1 HI1) as (T & Hsl & HL & HT).
  destruct (zlen_cons_inv T) as (t & T' & -> & HT'); [lia|].
  destruct (inv_of_decomp (write_cells (slots a1) (alen a) [Val d]) (al_abs a ++ [d]) T' (alen a1 + 1) (asize a1))
    as [HI' HA'].
  - rewrite map_app. cbn [map]. rewrite <- app_assoc.
    apply (write_cells_decomp _ _ [t]); [rewrite Hsl, HA1; reflexivity| |reflexivity].
    rewrite zlen_map, <- HA1. lia.
  - rewrite zlen_app. cbn [zlen]. rewrite <- HA1. lia.
  - unfold write_cells. cbn [zlen]. rewrite !zlen_app, zlen_zfirstn, zlen_zskipn. cbn [zlen]. lia.
  - exact Hs1.
  - refine (conj HI' (conj HA' _)). cbn [asize]. repeat split; try lia.
    repeat constructor; cbn; lia.
Qed.

(* ---------------- put_idx ---------------- *)
Lemma zsplit_ex {A} (l : list A) i : 0 <= i <= zlen l ->
  exists l1 l2, l = l1 ++ l2 /\ zlen l1 = i /\ zlen l2 = zlen l - i.
Proof.
  intros H. exists (zfirstn i l), (zskipn i l). destruct (zsplit l i H) as (E & H1 & H2). auto.
Qed.

Lemma split3 {A} (l1 : list A) x l2 i : zlen l1 = i ->
  zfirstn i (l1 ++ x :: l2) = l1 /\ zskipn (i + 1) (l1 ++ x :: l2) = l2 /\ znth (l1 ++ x :: l2) i = Some x /\
  zskipn i (l1 ++ x :: l2) = x :: l2.
Proof.
  intros H. split; [apply zfirstn_app_exact; exact H|]. split.
  - change (l1 ++ x :: l2) with (l1 ++ [x] ++ l2). rewrite app_assoc. apply zskipn_app_exact.
    rewrite zlen_app. cbn [zlen]. lia.
  - split; [apply znth_mid; exact H|apply zskipn_app_exact; exact H].
Qed.

Lemma nonnull_single (x : elt) : nonnull [x] = match x with Some v => [v] | None => [] end.
Proof. destruct x; reflexivity. Qed.

Lemma put_spec al a idx d :
  Inv a -> 0 <= idx <= SIZE_MAX ->
  match al_put al a idx d with
  | AOk a' r rel ws =>
      Inv a' /\ al_abs a' = sput (al_abs a) idx d /\ rel = sput_rel (al_abs a) idx /\ r = 0 /\
      Forall (wr_ok (asize a')) ws /\ idx + 1 <= SIZE_MAX / PTR
  | AFail a' => a' = a
  | AUB => False
  end.
Proof.
  intros HI Hidx. pose proof HI as (Hm & Hl & Hs & Hc). unfold al_put.
  destruct (idx >? SIZE_MAX - 1) eqn:E1; [reflexivity|].
  assert (Hi : in_size (idx + 1) = true) by zl. rewrite Hi; cbn [negb].
  pose proof (expand_spec al a (idx + 1) HI) as X.
  destruct (al_expand al a (idx + 1)) as [a1| |]; [|reflexivity|apply X; zl].
  destruct X as (HI1 & HA1 & HL1 & Hmx & Hsz); [zl|].
  pose proof HI1 as (Hm1 & Hl1 & Hs1 & Hc1).
  destruct (inv_decomp a1 HI1) as (T & Hsl & HL & HT).
  rewrite HA1 in Hsl, HL. unfold sput, sput_rel.
  remember (al_abs a) as L eqn:EqL.
  assert (Hb : negb ((0 <=? idx) && (idx <? asize a1)) = false) by lia.
  destruct (idx <? alen a1) eqn:E2.
  - (* overwriting an element inside the array *)
    assert (E2' : (idx <? zlen L) = true) by lia. rewrite E2'.
    destruct (zsplit_ex L idx) as (L1 & R & -> & HL1' & HR); [lia|].
    destruct (zlen_cons_inv R) as (x & L2 & -> & HL2); [lia|].
    destruct (split3 L1 x L2 idx HL1') as (F1 & F2 & F3 & _).
    assert (Hsl' : slots a1 = map Val L1 ++ [Val x] ++ (map Val L2 ++ T)).
    { rewrite Hsl, map_app. cbn [map]. rewrite <- app_assoc. reflexivity. }
    assert (Hr : read_ptr (slots a1) idx = Some x).
    { unfold read_ptr. rewrite Hsl'. cbn [app]. rewrite znth_mid by (rewrite zlen_map; exact HL1'). reflexivity. }
    rewrite Hr.
    assert (Hrel : match x with Some x0 => Some [x0] | None => Some [] end = Some (nonnull [x])) by (destruct x; reflexivity).
    rewrite Hrel, Hb.
    assert (E3 : (idx >? alen a1) = false) by lia. rewrite E3.
    assert (E4 : (alen a1 <=? idx) = false) by lia. rewrite E4.
    destruct (inv_of_decomp (write_cells (slots a1) idx [Val d]) (L1 ++ [d] ++ L2) T (alen a1) (asize a1))
      as [HI' HA'].
    + rewrite !map_app. cbn [map]. rewrite <- !app_assoc.
      apply (write_cells_decomp _ _ [Val x]); [exact Hsl'|rewrite zlen_map; exact HL1'|reflexivity].
    + rewrite !zlen_app in *. cbn [zlen] in *. lia.
    + unfold write_cells. cbn [zlen]. rewrite !zlen_app, zlen_zfirstn, zlen_zskipn. cbn [zlen]. lia.
    + exact Hs1.
    + refine (conj HI' _). rewrite HA', F1, F2. unfold sget. rewrite F3.
      cbn [asize]. repeat split; try (rewrite maxslots in *; lia).
      repeat constructor; cbn; lia.
  - (* at or beyond the end: the gap is filled with NULL *)
    assert (E2' : (idx <? zlen L) = false) by lia. rewrite E2', Hb.
    destruct (zsplit_ex T (idx - alen a1)) as (G & R & -> & HG & HR); [lia|].
    destruct (zlen_cons_inv R) as (t & T' & -> & HT'); [lia|].
    assert (Hs1' : write_cells (slots a1) idx [Val d] = map Val L ++ G ++ [Val d] ++ T').
    { rewrite !app_assoc. rewrite <- (app_assoc _ [Val d]).
      apply (write_cells_decomp _ _ [t]); [|rewrite zlen_app, zlen_map; lia|reflexivity].
      rewrite Hsl. rewrite <- !app_assoc. reflexivity. }
    assert (E4 : (alen a1 <=? idx) = true) by lia. rewrite E4.
    assert (Hlen : zlen (map Val L ++ G ++ [Val d] ++ T') = asize a1).
    { rewrite !zlen_app, zlen_map in *. cbn [zlen] in *. lia. }
    destruct (idx >? alen a1) eqn:E3.
    + assert (Hc2 : negb (in_size ((idx - alen a1) * PTR)) || (alen a1 <? 0) || (idx >? asize a1) = false)
        by (rewrite maxslots in *; zl).
      rewrite Hc2.
      destruct (inv_of_decomp
                  (write_cells (write_cells (slots a1) idx [Val d]) (alen a1) (zrepeat (Val None) (idx - alen a1)))
                  (L ++ zrepeat None (idx - alen a1) ++ [d]) T' (idx + 1) (asize a1)) as [HI' HA'].
      * rewrite Hs1', !map_app, map_zrepeat. cbn [map]. rewrite <- !app_assoc.
        apply (write_cells_decomp _ _ G); [reflexivity|rewrite zlen_map; lia|].
        rewrite zlen_repeat_nn; lia.
      * rewrite !zlen_app, zlen_repeat_nn by lia. cbn [zlen]. lia.
      * rewrite Hs1'. unfold write_cells.
        rewrite !zlen_app, zlen_zfirstn, zlen_zskipn, zlen_repeat_nn, Hlen by lia. lia.
      * exact Hs1.
      * refine (conj HI' _). rewrite HA'. replace (idx - zlen L) with (idx - alen a1) by lia.
        cbn [asize]. repeat split; try (rewrite maxslots in *; lia).
        repeat constructor; cbn; lia.
    + assert (G = []) as -> by (destruct G; cbn [zlen] in HG; [reflexivity|pose proof (zlen_nonneg G); lia]).
      destruct (inv_of_decomp (write_cells (slots a1) idx [Val d]) (L ++ zrepeat None (idx - zlen L) ++ [d]) T'
                  (idx + 1) (asize a1)) as [HI' HA'].
      * rewrite Hs1'. rewrite zrepeat_nonpos by lia. rewrite map_app. cbn [map app]. rewrite <- app_assoc. reflexivity.
      * rewrite zrepeat_nonpos by lia. rewrite zlen_app. cbn [zlen app]. lia.
      * rewrite Hs1'. exact Hlen.
      * exact Hs1.
      * refine (conj HI' _). rewrite HA'.
        cbn [asize]. repeat split; try (rewrite maxslots in *; lia).
        repeat constructor; cbn; lia.
Qed.

(* ---------------- insert_idx ---------------- *)
Lemma insert_spec al a idx d :
  Inv a -> 0 <= idx <= SIZE_MAX ->
  match al_insert al a idx d with
  | AOk a' r rel ws =>
      Inv a' /\ al_abs a' = sinsert (al_abs a) idx d /\
      rel = (if idx >=? zlen (al_abs a) then sput_rel (al_abs a) idx else []) /\ r = 0 /\
      Forall (wr_ok (asize a')) ws /\ Z.max idx (alen a) + 1 <= SIZE_MAX / PTR
  | AFail a' => a' = a
  | AUB => False
  end.
Proof.
  intros HI Hidx. pose proof HI as (Hm & Hl & Hs & Hc). pose proof (abs_len a HI) as Hal.
  unfold al_insert, sinsert. rewrite Hal.
  destruct (idx >=? alen a) eqn:E0.
  { pose proof (put_spec al a idx d HI Hidx) as P.
    destruct (al_put al a idx d) as [a' r rel ws|a'|]; [|exact P|exact P].
    destruct P as (P1 & P2 & P3 & P4 & P5 & P6).
    refine (conj P1 (conj P2 (conj P3 (conj P4 (conj P5 _))))). lia. }
  destruct (alen a =? SIZE_MAX) eqn:E1; [reflexivity|].
  assert (Hi : in_size (alen a + 1) = true) by zl. rewrite Hi; cbn [negb].
  pose proof (expand_spec al a (alen a + 1) HI) as X.
  destruct (al_expand al a (alen a + 1)) as [a1| |]; [|reflexivity|apply X; zl].
  destruct X as (HI1 & HA1 & HL1 & Hmx & Hsz); [zl|].
  pose proof HI1 as (Hm1 & Hl1 & Hs1 & Hc1).
  destruct (inv_decomp a1 HI1) as (T & Hsl & HL & HT).
  rewrite HA1 in Hsl, HL. remember (al_abs a) as L eqn:EqL.
  assert (Hc1' : negb (in_size (alen a1 - idx)) || negb (in_size ((alen a1 - idx) * PTR)) = false)
    by (rewrite maxslots in *; zl).
  rewrite Hc1'.
  assert (Hc2 : (idx <? 0) || (idx + 1 + (alen a1 - idx) >? asize a1) = false) by lia. rewrite Hc2.
  assert (Hc3 : in_size (alen a1 + 1) = true) by (rewrite maxslots in *; zl). rewrite Hc3; cbn [negb].
  destruct (zsplit_ex L idx) as (L1 & L2 & -> & HL1' & HL2'); [lia|].
  destruct (zlen_cons_inv T) as (t & T' & -> & HT'); [lia|].
  (* the cells [idx, length] : the moved block followed by one free cell *)
  destruct (zlen_cons_inv (map Val L2 ++ [t])) as (c0 & B & EB & HB);
    [rewrite zlen_app, zlen_map; cbn [zlen]; pose proof (zlen_nonneg L2); lia|].
  assert (HBl : zlen B = alen a1 - idx) by (rewrite HB, zlen_app, zlen_map; cbn [zlen]; lia).
  assert (Hsl' : slots a1 = map Val L1 ++ (c0 :: B) ++ T').
  { rewrite Hsl, map_app, <- EB, <- !app_assoc. reflexivity. }
  assert (Hmoved : zfirstn (alen a1 - idx) (zskipn idx (slots a1)) = map Val L2).
  { rewrite Hsl, map_app, <- app_assoc. rewrite zskipn_app_exact by (rewrite zlen_map; exact HL1').
    apply zfirstn_app_exact. rewrite zlen_map. lia. }
  rewrite Hmoved.
  assert (Hw1 : write_cells (slots a1) (idx + 1) (map Val L2) = map Val L1 ++ [c0] ++ map Val L2 ++ T').
  { rewrite (app_assoc (map Val L1) [c0]).
    apply (write_cells_decomp _ _ B); [rewrite Hsl', <- app_assoc; reflexivity| |].
    - rewrite zlen_app, zlen_map. cbn [zlen]. lia.
    - rewrite zlen_map. lia. }
  rewrite Hw1.
  destruct (inv_of_decomp (write_cells (map Val L1 ++ [c0] ++ map Val L2 ++ T') idx [Val d])
              (L1 ++ [d] ++ L2) T' (alen a1 + 1) (asize a1)) as [HI' HA'].
  - rewrite !map_app. cbn [map]. rewrite <- !app_assoc.
    apply (write_cells_decomp _ _ [c0]); [reflexivity|rewrite zlen_map; exact HL1'|reflexivity].
  - rewrite !zlen_app in *. cbn [zlen]. lia.
  - unfold write_cells. cbn [zlen].
    rewrite !zlen_app, zlen_zfirstn, zlen_zskipn, !zlen_app, !zlen_map. cbn [zlen].
    rewrite zlen_app in HL. lia.
  - exact Hs1.
  - refine (conj HI' _). rewrite HA'.
    rewrite zfirstn_app_exact, zskipn_app_exact by assumption.
    cbn [asize]. repeat split; try (rewrite maxslots in *; lia).
    repeat constructor; cbn; lia.
Qed.

(* ---------------- del_idx ---------------- *)
Lemma del_spec a idx count :
  Inv a -> 0 <= idx <= SIZE_MAX -> 0 <= count <= SIZE_MAX ->
  match al_del a idx count with
  | AOk a' r rel ws =>
      Inv a' /\ al_abs a' = sdel (al_abs a) idx count /\ rel = sdel_rel (al_abs a) idx count /\ r = 0 /\
      Forall (wr_ok (asize a')) ws /\ idx < alen a /\ idx + count <= alen a /\ asize a' = asize a
  | AFail a' => a' = a /\ (alen a <= idx \/ alen a < idx + count)
  | AUB => False
  end.
Proof.
  intros HI Hidx Hcnt. pose proof HI as (Hm & Hl & Hs & Hc). unfold al_del, sdel, sdel_rel.
  assert (Hi0 : in_size (SIZE_MAX - count) = true) by zl. rewrite Hi0; cbn [negb].
  destruct (idx >? SIZE_MAX - count) eqn:E1; [split; [reflexivity|zl]|].
  assert (Hi1 : in_size (idx + count) = true) by zl. rewrite Hi1; cbn [negb].
  destruct ((idx >=? alen a) || (idx + count >? alen a)) eqn:E2; [split; [reflexivity|lia]|].
  assert (Hc1 : (idx <? 0) || (idx + count >? asize a) = false) by lia. rewrite Hc1.
  destruct (inv_decomp a HI) as (T & Hsl & HL & HT).
  remember (al_abs a) as L eqn:EqL.
  destruct (zsplit_ex L idx) as (L1 & R & -> & HL1 & HR); [lia|].
  destruct (zsplit_ex R count) as (L2 & L3 & -> & HL2 & HL3); [lia|].
  assert (Hsl' : slots a = map Val L1 ++ map Val L2 ++ map Val L3 ++ T).
  { rewrite Hsl, !map_app, <- !app_assoc. reflexivity. }
  assert (Hrd : zfirstn count (zskipn idx (slots a)) = map Val L2).
  { rewrite Hsl'. rewrite zskipn_app_exact by (rewrite zlen_map; exact HL1).
    apply zfirstn_app_exact. rewrite zlen_map. exact HL2. }
  rewrite Hrd, released_map_Val.
  rewrite !zlen_app in HL.
  assert (Hcnt' : alen a - (idx + count) = zlen L3) by lia.
  assert (Hc2 : negb (in_size (alen a - (idx + count))) || negb (in_size ((alen a - (idx + count)) * PTR)) = false)
    by (pose proof (zlen_nonneg L3); rewrite maxslots in *; zl).
  rewrite Hc2.
  assert (Hc3 : (idx + count + (alen a - (idx + count)) >? asize a) = false) by lia. rewrite Hc3.
  assert (Hmv : zfirstn (alen a - (idx + count)) (zskipn (idx + count) (slots a)) = map Val L3).
  { rewrite Hsl'. rewrite (app_assoc (map Val L1)).
    rewrite zskipn_app_exact by (rewrite zlen_app, !zlen_map; lia).
    apply zfirstn_app_exact. rewrite zlen_map. lia. }
  rewrite Hmv.
  assert (Hc4 : in_size (alen a - count) = true) by (pose proof (zlen_nonneg L3); rewrite maxslots in *; zl).
  rewrite Hc4; cbn [negb].
  destruct (zsplit_ex (map Val L2 ++ map Val L3 ++ T) (zlen L3)) as (B & C & EBC & HB & HC).
  { rewrite !zlen_app, !zlen_map. pose proof (zlen_nonneg L3). pose proof (zlen_nonneg L2). pose proof (zlen_nonneg T). lia. }
  rewrite !zlen_app, !zlen_map in HC.
  destruct (inv_of_decomp (write_cells (slots a) idx (map Val L3)) (L1 ++ L3) C (alen a - count) (asize a))
    as [HI' HA'].
  - rewrite map_app, <- app_assoc.
    apply (write_cells_decomp _ _ B); [rewrite Hsl', EBC; reflexivity|rewrite zlen_map; exact HL1|].
    rewrite zlen_map. exact HB.
  - rewrite zlen_app. lia.
  - unfold write_cells. rewrite !zlen_app, zlen_zfirstn, zlen_zskipn, zlen_map.
    pose proof (zlen_nonneg L3). lia.
  - exact Hs.
  - refine (conj HI' _). rewrite HA'.
    rewrite zfirstn_app_exact by exact HL1.
    rewrite (app_assoc L1 L2 L3). rewrite (zskipn_app_exact (idx + count)) by (rewrite zlen_app; lia).
    rewrite <- app_assoc, (zskipn_app_exact idx) by exact HL1.
    rewrite zfirstn_app_exact by exact HL2.
    cbn [asize]. repeat split; try lia.
    repeat constructor; cbn; pose proof (zlen_nonneg L3); lia.
Qed.

(* ---------------- shrink ---------------- *)
Lemma shrink_spec al a n :
  Inv a -> 0 <= n <= SIZE_MAX ->
  match al_shrink al a n with
  | AOk a' r rel ws =>
      Inv a' /\ al_abs a' = al_abs a /\ rel = [] /\ r = 0 /\ ws = [] /\ n < SIZE_MAX / PTR - alen a
  | AFail a' => a' = a
  | AUB => False
  end.
Proof.
  intros HI Hn. pose proof HI as (Hm & Hl & Hs & Hc). unfold al_shrink.
  assert (Hi0 : in_size (SIZE_MAX / PTR - alen a) = true) by (rewrite maxslots in *; zl).
  rewrite Hi0; cbn [negb].
  destruct (n >=? SIZE_MAX / PTR - alen a) eqn:E1; [reflexivity|].
  assert (Hi1 : in_size (alen a + n) = true) by (rewrite maxslots in *; zl). rewrite Hi1; cbn [negb].
  destruct (alen a + n =? asize a) eqn:E2.
  { refine (conj HI _). repeat split; lia. }
  destruct (alen a + n >? asize a) eqn:E3.
  { pose proof (expand_spec al a (alen a + n) HI) as X.
    destruct (al_expand al a (alen a + n)) as [a1| |]; [|reflexivity|apply X; rewrite maxslots in *; zl].
    destruct X as (HI1 & HA1 & _); [rewrite maxslots in *; zl|].
    refine (conj HI1 (conj HA1 _)). repeat split; lia. }
  set (ns := if alen a + n =? 0 then 1 else alen a + n).
  assert (Hns : alen a <= ns <= asize a /\ 1 <= ns) by (subst ns; destruct (alen a + n =? 0) eqn:E; lia).
  assert (Hi2 : in_size (ns * PTR) = true) by (rewrite maxslots in *; zl). rewrite Hi2; cbn [negb].
  destruct (al (ns * PTR)); [|reflexivity].
  destruct (inv_decomp a HI) as (T & Hsl & HL & HT).
  destruct (inv_of_decomp (zfirstn ns (slots a)) (al_abs a) (zfirstn (ns - alen a) T) (alen a) ns) as [HI' HA'].
  - rewrite Hsl at 1. rewrite zfirstn_app_r by (rewrite zlen_map; lia). rewrite zlen_map, HL. reflexivity.
  - exact HL.
  - rewrite zlen_zfirstn. lia.
  - lia.
  - refine (conj HI' (conj HA' _)). repeat split; lia.
Qed.

(* ---------------- sort ---------------- *)
Lemma zlen_perm {A} (l1 l2 : list A) : Permutation l1 l2 -> zlen l1 = zlen l2.
Proof. intros H. rewrite !zlen_length. f_equal. apply Permutation_length. exact H. Qed.

Lemma sort_by_perm c (l : list elt) : Permutation l (sort_by c l).
Proof. destruct c; [apply EltSort.Permuted_sort|apply EltSortDesc.Permuted_sort]. Qed.

Lemma sort_spec c a :
  Inv a ->
  match al_sort c a with
  | AOk a' r rel ws =>
      Inv a' /\ al_abs a' = sort_by c (al_abs a) /\ rel = [] /\ r = 0 /\ Forall (wr_ok (asize a')) ws
  | AFail _ => False
  | AUB => False
  end.
Proof.
  intros HI. pose proof HI as (Hm & Hl & Hs & Hc). unfold al_sort.
  assert (E : (alen a >? asize a) = false) by lia. rewrite E.
  fold (al_cells a). rewrite Hc, cell_vals_map_Val.
  destruct (inv_decomp a HI) as (T & Hsl & HL & HT).
  pose proof (zlen_perm _ _ (sort_by_perm c (al_abs a))) as HP.
  destruct (inv_of_decomp (write_cells (slots a) 0 (map Val (sort_by c (al_abs a))))
              (sort_by c (al_abs a)) T (alen a) (asize a)) as [HI' HA'].
  - change (map Val (sort_by c (al_abs a)) ++ T) with ([] ++ map Val (sort_by c (al_abs a)) ++ T).
    apply (write_cells_decomp _ _ (map Val (al_abs a))); [exact Hsl|reflexivity|].
    rewrite !zlen_map. exact HP.
  - lia.
  - unfold write_cells. rewrite !zlen_app, zlen_zfirstn, zlen_zskipn, zlen_map. lia.
  - exact Hs.
  - refine (conj HI' (conj HA' _)). cbn [asize]. repeat split.
    repeat constructor; cbn; lia.
Qed.

(* ---------------- free ---------------- *)
Lemma free_spec a : Inv a -> al_free a = Some (nonnull (al_abs a)).
Proof.
  intros HI. pose proof HI as (Hm & Hl & Hs & Hc). unfold al_free.
  assert (E : (alen a >? asize a) = false) by lia. rewrite E.
  fold (al_cells a). rewrite Hc. apply released_map_Val.
Qed.

(* ---------------- the comparator is a total order; sorting; searching ---------------- *)
Definition elt_le (a b : elt) : Prop := is_true (elt_leb a b).

Lemma elt_le_refl a : elt_le a a.
Proof. destruct a; unfold elt_le, elt_leb, is_true; cbn; [lia|reflexivity]. Qed.

Lemma elt_le_trans : RelationClasses.Transitive elt_le.
Proof.
  intros [x|] [y|] [z|]; unfold elt_le, elt_leb, is_true; cbn; intros; try reflexivity; try discriminate; lia.
Qed.

Lemma elt_le_antisym a b : elt_le a b -> elt_le b a -> a = b.
Proof.
  destruct a as [x|], b as [y|]; unfold elt_le, elt_leb, is_true; cbn; intros; try reflexivity; try discriminate.
  f_equal. lia.
Qed.

Lemma elt_le_total a b : elt_le a b \/ elt_le b a.
Proof. apply EltOrder.leb_total. Qed.

(* the order comparator [c] stands for *)
Definition le_by (c : cmpsel) (a b : elt) : Prop :=
  match c with Asc => elt_le a b | Desc => elt_le b a end.

Lemma le_by_refl c a : le_by c a a.
Proof. destruct c; apply elt_le_refl. Qed.

Lemma le_by_trans c : RelationClasses.Transitive (le_by c).
Proof.
  destruct c; [exact elt_le_trans|]. intros x y z H1 H2. cbn in *. exact (elt_le_trans _ _ _ H2 H1).
Qed.

Lemma le_by_antisym c a b : le_by c a b -> le_by c b a -> a = b.
Proof. destruct c; cbn; intros H1 H2; [apply elt_le_antisym|symmetry; apply elt_le_antisym]; assumption. Qed.

Theorem sort_perm_sorted c (l : list elt) :
  Permutation l (sort_by c l) /\ StronglySorted (le_by c) (sort_by c l).
Proof.
  split; [apply sort_by_perm|]. destruct c.
  - apply EltSort.StronglySorted_sort. exact elt_le_trans.
  - apply EltSortDesc.StronglySorted_sort. exact (le_by_trans Desc).
Qed.

(* a sorted permutation is unique: whatever correct sort libc uses, the key sequence is this one *)
Theorem sorted_perm_unique c (l1 : list elt) : forall l2,
  Permutation l1 l2 -> StronglySorted (le_by c) l1 -> StronglySorted (le_by c) l2 -> l1 = l2.
Proof.
  induction l1 as [|x t IH]; intros l2 HP H1 H2.
  - symmetry. apply Permutation_nil. exact HP.
  - destruct l2 as [|y u].
    { apply Permutation_sym, Permutation_nil in HP. discriminate. }
    apply StronglySorted_inv in H1. destruct H1 as [H1 F1].
    apply StronglySorted_inv in H2. destruct H2 as [H2 F2].
    assert (x = y).
    { assert (Iy : In y (x :: t)) by (eapply Permutation_in; [apply Permutation_sym; exact HP|left; reflexivity]).
      assert (Ix : In x (y :: u)) by (eapply Permutation_in; [exact HP|left; reflexivity]).
      destruct Iy as [->|Iy]; [reflexivity|]. destruct Ix as [->|Ix]; [reflexivity|].
      rewrite Forall_forall in F1, F2. apply (le_by_antisym c); auto. }
    subst y. f_equal. apply IH; try assumption. eapply Permutation_cons_inv. exact HP.
Qed.

Lemma ss_app_inv {A} (R : A -> A -> Prop) (l1 l2 : list A) :
  StronglySorted R (l1 ++ l2) ->
  StronglySorted R l1 /\ StronglySorted R l2 /\ (forall a b, In a l1 -> In b l2 -> R a b).
Proof.
  induction l1 as [|x l1 IH]; cbn [app]; intros H.
  - split; [constructor|]. split; [exact H|]. intros a b [].
  - apply StronglySorted_inv in H. destruct H as [H F]. destruct (IH H) as (S1 & S2 & C).
    rewrite Forall_forall in F. split.
    + constructor; [exact S1|]. rewrite Forall_forall. intros y Hy. apply F, in_or_app. auto.
    + split; [exact S2|]. intros a b [->|Ha] Hb; [apply F, in_or_app; auto|apply C; assumption].
Qed.

Lemma cmp_eq k x : elt_compare k x = Eq -> k = x.
Proof.
  destruct k as [a|], x as [b|]; cbn; intros H; try discriminate; [|reflexivity].
  apply Z.compare_eq in H. congruence.
Qed.
Lemma cmp_lt k x y : elt_compare k x = Lt -> elt_le x y -> k <> y.
Proof.
  destruct k as [a|], x as [b|], y as [c|]; unfold elt_le, elt_leb, is_true; cbn; intros H L E;
    try discriminate; inversion E; subst.
  rewrite Z.compare_lt_iff in H. lia.
Qed.
Lemma cmp_gt k x y : elt_compare k x = Gt -> elt_le y x -> k <> y.
Proof.
  destruct k as [a|], x as [b|], y as [c|]; unfold elt_le, elt_leb, is_true; cbn; intros H L E;
    try discriminate; inversion E; subst.
  rewrite Z.compare_gt_iff in H. lia.
Qed.

Lemma elt_compare_opp a b : elt_compare b a = CompOpp (elt_compare a b).
Proof. destruct a as [x|], b as [y|]; cbn; try reflexivity. apply Z.compare_antisym. Qed.

Lemma cmpby_eq c k x : compare_by c k x = Eq -> k = x.
Proof. destruct c; cbn; intros H; [apply cmp_eq; exact H|symmetry; apply cmp_eq; exact H]. Qed.
Lemma cmpby_lt c k x y : compare_by c k x = Lt -> le_by c x y -> k <> y.
Proof.
  destruct c; cbn; intros H L; [eapply cmp_lt; eassumption|].
  eapply cmp_gt; [|exact L]. rewrite elt_compare_opp, H. reflexivity.
Qed.
Lemma cmpby_gt c k x y : compare_by c k x = Gt -> le_by c y x -> k <> y.
Proof.
  destruct c; cbn; intros H L; [eapply cmp_gt; eassumption|].
  eapply cmp_lt; [|exact L]. rewrite elt_compare_opp, H. reflexivity.
Qed.

(* ---- the two-sorted binary search: any key type, any comparator compatible with the order ---- *)
Section TwoSorted.
  Context {K : Type} (cmp : K -> elt -> comparison) (le : elt -> elt -> Prop).
  (* the member order the array is sorted by is compatible with the key-vs-member comparator:
     a key below a member is below everything above it, a key above a member is above
     everything below it *)
  Hypothesis compat_lt : forall k x y, cmp k x = Lt -> le x y -> cmp k y = Lt.
  Hypothesis compat_gt : forall k x y, cmp k x = Gt -> le y x -> cmp k y = Gt.

  (* whatever the array holds (sorted or not): what is returned is a member the comparator
     calls equal to the key *)
  Lemma bsearch_list_sound k : forall fuel l x,
    bsearch_list cmp fuel l k = Some x -> In x l /\ cmp k x = Eq.
  Proof.
    induction fuel as [|f IH]; intros l x H; [discriminate|].
    cbn [bsearch_list] in H. set (m := zlen l / 2) in *.
    destruct (zskipn m l) as [|y r] eqn:Esk; [discriminate|].
    assert (El : l = zfirstn m l ++ y :: r) by (rewrite <- Esk; symmetry; apply zfirstn_zskipn).
    destruct (cmp k y) eqn:Ec.
    - inversion H; subst y. split; [|exact Ec]. rewrite El. apply in_or_app. right. left. reflexivity.
    - destruct (IH _ _ H) as [I E]. split; [|exact E]. rewrite El. apply in_or_app. left. exact I.
    - destruct (IH _ _ H) as [I E]. split; [|exact E]. rewrite El. apply in_or_app. right. right. exact I.
  Qed.

  (* on an array ordered by [le]: NULL is returned only when no member compares equal *)
  Lemma bsearch_list_complete k : forall fuel l,
    zlen l < Z.of_nat fuel -> StronglySorted le l ->
    bsearch_list cmp fuel l k = None -> forall y, In y l -> cmp k y <> Eq.
  Proof.
    induction fuel as [|f IH]; intros l Hf HS H.
    { pose proof (zlen_nonneg l). lia. }
    cbn [bsearch_list] in H. pose proof (zlen_nonneg l) as Hnn.
    set (m := zlen l / 2) in *.
    assert (Hm : 0 <= m /\ (0 < zlen l -> m < zlen l)).
    { subst m. split; [apply Z.div_pos; lia|]. intros H0. apply Z.div_lt; lia. }
    destruct (zskipn m l) as [|x r] eqn:Esk.
    - assert (l = []).
      { destruct l as [|y l']; [reflexivity|]. exfalso.
        assert (E : zlen (zskipn m (y :: l')) = 0) by (rewrite Esk; reflexivity).
        rewrite zlen_zskipn in E. cbn [zlen] in *. pose proof (zlen_nonneg l'). lia. }
      subst l. intros y [].
    - assert (El : l = zfirstn m l ++ x :: r) by (rewrite <- Esk; symmetry; apply zfirstn_zskipn).
      assert (Hlen : zlen l = zlen (zfirstn m l) + 1 + zlen r).
      { rewrite El at 1. rewrite zlen_app. cbn [zlen]. lia. }
      pose proof (zlen_nonneg r) as Hr. pose proof (zlen_nonneg (zfirstn m l)) as Hfn.
      assert (Hfl : zlen (zfirstn m l) = m) by (rewrite zlen_zfirstn; lia).
      rewrite El in HS. apply ss_app_inv in HS. destruct HS as (S1 & S2 & C).
      apply StronglySorted_inv in S2. destruct S2 as [S2 F2]. rewrite Forall_forall in F2.
      pose proof (in_app_iff (zfirstn m l) (x :: r)) as Hin. rewrite <- El in Hin. cbn [In] in Hin.
      destruct (cmp k x) eqn:Ec; [discriminate| |].
      + intros y Hy. apply Hin in Hy. destruct Hy as [Hy|[<-|Hy]].
        * apply (IH (zfirstn m l)); (assumption || lia).
        * rewrite Ec. discriminate.
        * rewrite (compat_lt k x y Ec (F2 y Hy)). discriminate.
      + intros y Hy. apply Hin in Hy. destruct Hy as [Hy|[<-|Hy]].
        * rewrite (compat_gt k x y Ec (C y x Hy (or_introl eq_refl))). discriminate.
        * rewrite Ec. discriminate.
        * apply (IH r); (assumption || lia).
  Qed.

  Theorem bsearch_km_spec a k :
    Inv a ->
    exists r, al_bsearch_km cmp a k = Some r /\
              (forall x, r = Some x -> In x (al_abs a) /\ cmp k x = Eq) /\
              (StronglySorted le (al_abs a) -> r = None -> forall y, In y (al_abs a) -> cmp k y <> Eq).
  Proof.
    intros HI. pose proof HI as (Hm & Hl & Hs & Hc). unfold al_bsearch_km.
    assert (E : (alen a >? asize a) = false) by lia. rewrite E.
    fold (al_cells a). rewrite Hc, cell_vals_map_Val.
    eexists. split; [reflexivity|]. split.
    - intros x Hx. eapply bsearch_list_sound. exact Hx.
    - intros HS Hn. eapply bsearch_list_complete; [|exact HS|exact Hn]. rewrite zlen_length. lia.
  Qed.
End TwoSorted.

(* the comparators of the model are compatible with the orders the model sorts by, for keys of
   member shape and hence for bare-id keys *)
Lemma cmpby_compat_lt c e x y : compare_by c e x = Lt -> le_by c x y -> compare_by c e y = Lt.
Proof.
  destruct c, e as [k|], x as [a|], y as [b|]; cbn; unfold elt_le, elt_leb, is_true; cbn;
    intros H L; try discriminate; try reflexivity;
    rewrite ?Z.compare_lt_iff, ?Z.compare_gt_iff in *; lia.
Qed.
Lemma cmpby_compat_gt c e x y : compare_by c e x = Gt -> le_by c y x -> compare_by c e y = Gt.
Proof.
  destruct c, e as [k|], x as [a|], y as [b|]; cbn; unfold elt_le, elt_leb, is_true; cbn;
    intros H L; try discriminate; try reflexivity;
    rewrite ?Z.compare_lt_iff, ?Z.compare_gt_iff in *; lia.
Qed.
Lemma cmpby_refl c e : compare_by c e e = Eq.
Proof. destruct c, e as [k|]; cbn; try reflexivity; apply Z.compare_refl. Qed.

(* homogeneous search: found iff the key is an element *)
Theorem bsearch_spec c a k :
  Inv a ->
  exists b, al_bsearch c a k = Some b /\
            (StronglySorted (le_by c) (al_abs a) -> (b = true <-> In k (al_abs a))).
Proof.
  intros HI.
  destruct (bsearch_km_spec (compare_by c) (le_by c) (cmpby_compat_lt c) (cmpby_compat_gt c) a k HI)
    as (r & Hr & Hs & Hcpl).
  unfold al_bsearch. rewrite Hr. destruct r as [x|].
  - exists true. split; [reflexivity|]. intros _. split; [|reflexivity]. intros _.
    destruct (Hs x eq_refl) as [I E]. apply cmpby_eq in E. subst x. exact I.
  - exists false. split; [reflexivity|]. intros HS. split; [discriminate|]. intros I. exfalso.
    apply (Hcpl HS eq_refl k I). apply cmpby_refl.
Qed.

(* heterogeneous search: the key is a bare id.  What is found is a member with that id; NULL is
   returned exactly when no member has it (on an array ordered by the comparator's order) *)
Theorem bsearch_int_key_spec c a (k : key) :
  Inv a ->
  exists r, al_bsearch_km (cmp_km c) a k = Some r /\
            (forall x, r = Some x -> x = Some k /\ In (Some k) (al_abs a)) /\
            (StronglySorted (le_by c) (al_abs a) -> (r = None <-> ~ In (Some k) (al_abs a))).
Proof.
  intros HI.
  destruct (bsearch_km_spec (cmp_km c) (le_by c)
              (fun k x y => cmpby_compat_lt c (Some k) x y) (fun k x y => cmpby_compat_gt c (Some k) x y) a k HI)
    as (r & Hr & Hs & Hcpl).
  exists r. split; [exact Hr|]. split.
  - intros x Hx. destruct (Hs x Hx) as [I E]. unfold cmp_km in E. apply cmpby_eq in E. subst x. auto.
  - intros HS. split.
    + intros Hn I. apply (Hcpl HS Hn (Some k) I). apply cmpby_refl.
    + intros Hni. destruct r as [x|]; [|reflexivity]. exfalso. apply Hni.
      destruct (Hs x eq_refl) as [I E]. unfold cmp_km in E. apply cmpby_eq in E. subst x. exact I.
Qed.

(* sort, then search: found iff the key was an element before sorting *)
Theorem sort_then_bsearch c a k a' r rel ws :
  Inv a -> al_sort c a = AOk a' r rel ws ->
  exists b, al_bsearch c a' k = Some b /\ (b = true <-> In k (al_abs a)).
Proof.
  intros HI H. pose proof (sort_spec c a HI) as S. rewrite H in S. destruct S as (HI' & HA & _).
  destruct (bsearch_spec c a' k HI') as (b & Hb & Hiff). exists b. split; [exact Hb|].
  destruct (sort_perm_sorted c (al_abs a)) as [HP HS]. rewrite HA in Hiff. rewrite (Hiff HS).
  split; intros Hin; eapply Permutation_in; try exact Hin; [apply Permutation_sym|]; exact HP.
Qed.

(* sort by [c], then search a bare id by [c]'s key-vs-member comparator *)
Theorem sort_then_bsearch_int_key c a (k : key) a' r rel ws :
  Inv a -> al_sort c a = AOk a' r rel ws ->
  exists res, al_bsearch_km (cmp_km c) a' k = Some res /\
              (forall x, res = Some x -> x = Some k) /\ (res = None <-> ~ In (Some k) (al_abs a)).
Proof.
  intros HI H. pose proof (sort_spec c a HI) as S. rewrite H in S. destruct S as (HI' & HA & _).
  destruct (bsearch_int_key_spec c a' k HI') as (res & Hb & Hs & Hiff). exists res. split; [exact Hb|].
  destruct (sort_perm_sorted c (al_abs a)) as [HP HS]. rewrite HA in Hiff. split.
  - intros x Hx. apply (Hs x Hx).
  - rewrite (Hiff HS). split; intros Hn Hin; apply Hn; eapply Permutation_in; try exact Hin;
      [|apply Permutation_sym]; exact HP.
Qed.

(* ---------------- sorting has no hidden state ---------------- *)
(* in ANY state satisfying the invariant (so: after any history, see [sort_after_any_history])
   a sort by [c] succeeds and leaves a permutation of the current contents ordered by [c] *)
Theorem sort_any_state c a :
  Inv a ->
  exists a' rel ws, al_sort c a = AOk a' 0 rel ws /\ Inv a' /\ rel = [] /\
                    Permutation (al_abs a) (al_abs a') /\ StronglySorted (le_by c) (al_abs a') /\
                    alen a' = alen a /\ asize a' = asize a.
Proof.
  intros HI. pose proof (sort_spec c a HI) as S. pose proof HI as (Hm & Hl & Hs & Hc). unfold al_sort in *.
  assert (E : (alen a >? asize a) = false) by lia. rewrite E in *.
  destruct (cell_vals (zfirstn (alen a) (slots a))) as [vs|]; [|contradiction].
  destruct S as (S1 & S2 & S3 & S4 & S5). eexists _, _, _. split; [reflexivity|].
  destruct (sort_perm_sorted c (al_abs a)) as [HP HS]. rewrite S2.
  refine (conj S1 (conj eq_refl (conj HP (conj HS (conj eq_refl eq_refl))))).
Qed.

(* the result depends on the current contents and the comparator only *)
Theorem sort_depends_only_on_contents c a1 a2 a1' a2' r1 r2 rel1 rel2 ws1 ws2 :
  Inv a1 -> Inv a2 -> al_abs a1 = al_abs a2 ->
  al_sort c a1 = AOk a1' r1 rel1 ws1 -> al_sort c a2 = AOk a2' r2 rel2 ws2 ->
  al_abs a1' = al_abs a2'.
Proof.
  intros H1 H2 E S1 S2. pose proof (sort_spec c a1 H1) as P1. pose proof (sort_spec c a2 H2) as P2.
  rewrite S1 in P1. rewrite S2 in P2. destruct P1 as (_ & -> & _). destruct P2 as (_ & -> & _).
  rewrite E. reflexivity.
Qed.

(* sorting an array that is already ordered by [c] changes nothing: a second sort may not be
   skipped only if nothing at all changed in between *)
Theorem sort_sorted_id c a a' r rel ws :
  Inv a -> StronglySorted (le_by c) (al_abs a) -> al_sort c a = AOk a' r rel ws -> al_abs a' = al_abs a.
Proof.
  intros HI HS H. pose proof (sort_spec c a HI) as P. rewrite H in P. destruct P as (_ & -> & _).
  destruct (sort_perm_sorted c (al_abs a)) as [HP HS']. symmetry.
  apply (sorted_perm_unique c); assumption.
Qed.

(* ---------------- in-place change of an element's value ---------------- *)
Lemma sget_some_lt (l : spec) i x : 0 <= i -> sget l i = Some x -> i < zlen l.
Proof.
  intros Hi H. destruct (Z.lt_ge_cases i (zlen l)) as [L|L]; [exact L|].
  rewrite sget_past_end in H by lia. discriminate.
Qed.

Lemma setval_spec a i v :
  Inv a -> 0 <= i ->
  match al_setval a i v with
  | AOk a' r rel ws =>
      Inv a' /\ al_abs a' = ssetval (al_abs a) i v /\ rel = [] /\
      r = (match sget (al_abs a) i with Some _ => 1 | None => 0 end) /\ ws = [] /\
      asize a' = asize a /\ alen a' = alen a
  | AFail _ => False
  | AUB => False
  end.
Proof.
  intros HI Hi. pose proof HI as (Hm & Hl & Hs & Hc). unfold al_setval, ssetval.
  rewrite (get_spec a i HI Hi).
  destruct (sget (al_abs a) i) as [x|] eqn:G.
  2:{ refine (conj HI _). repeat split. }
  destruct (inv_decomp a HI) as (T & Hsl & HL & HT).
  pose proof (sget_some_lt _ _ _ Hi G) as Hlt.
  remember (al_abs a) as L eqn:EqL.
  destruct (zsplit_ex L i) as (L1 & R & -> & HL1 & HR); [lia|].
  destruct (zlen_cons_inv R) as (y & L2 & -> & HL2); [lia|].
  destruct (split3 L1 y L2 i HL1) as (F1 & F2 & F3 & _).
  assert (Hsl' : slots a = map Val L1 ++ [Val y] ++ (map Val L2 ++ T)).
  { rewrite Hsl, map_app. cbn [map]. rewrite <- app_assoc. reflexivity. }
  destruct (inv_of_decomp (write_cells (slots a) i [Val (Some v)]) (L1 ++ [Some v] ++ L2) T (alen a) (asize a))
    as [HI' HA'].
  - rewrite !map_app. cbn [map]. rewrite <- !app_assoc.
    apply (write_cells_decomp _ _ [Val y]); [exact Hsl'|rewrite zlen_map; exact HL1|reflexivity].
  - rewrite !zlen_app in *. cbn [zlen] in *. lia.
  - unfold write_cells. cbn [zlen]. rewrite !zlen_app, zlen_zfirstn, zlen_zskipn. cbn [zlen]. lia.
  - exact Hs.
  - refine (conj HI' _). rewrite HA', F1, F2. cbn [asize alen]. repeat split.
Qed.

(* ---------------- one step of a history ---------------- *)
Definition in_sz (z : Z) : Prop := 0 <= z <= SIZE_MAX.     (* the argument is a size_t *)
Ltac zl ::= rewrite ?maxslots, ?halfmax in *; unfold in_sz, in_size, SIZE_MAX, PTR in *; lia.
Definition op_wf (o : alop) : Prop :=
  match o with
  | OAdd _ | OSort _ => True
  | OPut i _ | OInsert i _ | OSetVal i _ => in_sz i
  | ODel i c => in_sz i /\ in_sz c
  | OShrink n => in_sz n
  end.

Theorem step_spec al a o :
  Inv a -> op_wf o ->
  match al_step al a o with
  | AOk a' r rel ws =>
      Inv a' /\ al_abs a' = fst (spec_step (al_abs a) o) /\ rel = snd (spec_step (al_abs a) o) /\
      r = spec_ret (al_abs a) o /\
      Forall (wr_ok (asize a')) ws /\ spec_ok (al_abs a) o = true
  | AFail a' => a' = a
  | AUB => False
  end.
Proof.
  intros HI Hwf. pose proof (abs_len a HI) as Hal.
  destruct o as [e|i e|i e|i c|n|cs|i v]; cbn [al_step spec_step spec_ok spec_ret fst snd op_wf] in *; rewrite ?Hal.
  - pose proof (add_spec al a e HI) as S. destruct (al_add al a e); [|exact S|exact S].
    destruct S as (S1 & S2 & S3 & S4 & S5 & S6). refine (conj S1 (conj S2 (conj S3 (conj S4 (conj S5 _))))). lia.
  - pose proof (put_spec al a i e HI Hwf) as S. destruct (al_put al a i e); [|exact S|exact S].
    destruct S as (S1 & S2 & S3 & S4 & S5 & S6). refine (conj S1 (conj S2 (conj S3 (conj S4 (conj S5 _))))). lia.
  - pose proof (insert_spec al a i e HI Hwf) as S. destruct (al_insert al a i e); [|exact S|exact S].
    destruct S as (S1 & S2 & S3 & S4 & S5 & S6). rewrite Hal in S3.
    refine (conj S1 (conj S2 (conj S3 (conj S4 (conj S5 _))))). lia.
  - destruct Hwf as [Hi Hc]. pose proof (del_spec a i c HI Hi Hc) as S.
    destruct (al_del a i c); [|apply S|exact S].
    destruct S as (S1 & S2 & S3 & S4 & S5 & S6 & S7 & S8).
    refine (conj S1 (conj S2 (conj S3 (conj S4 (conj S5 _))))). lia.
  - pose proof (shrink_spec al a n HI Hwf) as S. destruct (al_shrink al a n); [|exact S|exact S].
    destruct S as (S1 & S2 & S3 & S4 & S5 & S6). subst ws.
    refine (conj S1 (conj S2 (conj S3 (conj S4 (conj (Forall_nil _) _))))). lia.
  - pose proof (sort_spec cs a HI) as S. destruct (al_sort cs a); [|contradiction|exact S].
    destruct S as (S1 & S2 & S3 & S4 & S5).
    exact (conj S1 (conj S2 (conj S3 (conj S4 (conj S5 eq_refl))))).
  - pose proof (setval_spec a i v HI (proj1 Hwf)) as S. destruct (al_setval a i v); [|contradiction|exact S].
    destruct S as (S1 & S2 & S3 & S4 & S5 & _). subst ws.
    exact (conj S1 (conj S2 (conj S3 (conj S4 (conj (Forall_nil _) eq_refl))))).
Qed.

(* out-of-range arguments: the operation fails and nothing changes *)
Theorem oob_fails_unchanged al a o :
  Inv a -> op_wf o -> spec_ok (al_abs a) o = false -> al_step al a o = AFail a.
Proof.
  intros HI Hwf Hno. pose proof (step_spec al a o HI Hwf) as S.
  destruct (al_step al a o) as [a' r rel ws|a'|].
  - destruct S as (_ & _ & _ & _ & _ & S). congruence.
  - congruence.
  - contradiction.
Qed.

(* a failed operation of any kind leaves the array as it was *)
Theorem fail_unchanged al a o a' :
  Inv a -> op_wf o -> al_step al a o = AFail a' -> a' = a.
Proof. intros HI Hwf H. pose proof (step_spec al a o HI Hwf) as S. rewrite H in S. exact S. Qed.

Theorem writes_in_capacity al a o a' r rel ws :
  Inv a -> op_wf o -> al_step al a o = AOk a' r rel ws -> Forall (wr_ok (asize a')) ws /\ zlen (slots a') = asize a'.
Proof.
  intros HI Hwf H. pose proof (step_spec al a o HI Hwf) as S. rewrite H in S.
  destruct S as (S1 & _ & _ & _ & S5 & _). split; [exact S5|apply S1].
Qed.

Theorem released_exactly al a o a' r rel ws :
  Inv a -> op_wf o -> al_step al a o = AOk a' r rel ws -> rel = snd (spec_step (al_abs a) o).
Proof. intros HI Hwf H. pose proof (step_spec al a o HI Hwf) as S. rewrite H in S. tauto. Qed.

Theorem no_ub al a o : Inv a -> op_wf o -> al_step al a o <> AUB.
Proof. intros HI Hwf H. pose proof (step_spec al a o HI Hwf) as S. rewrite H in S. exact S. Qed.

(* ---------------- whole histories ---------------- *)
Fixpoint al_run (al : alloc) (a : alist) (ops : list alop) : option (alist * list bool * list Z) :=
  match ops with
  | [] => Some (a, [], [])
  | o :: os =>
      match al_step al a o with
      | AOk a' _ rel _ =>
          match al_run al a' os with Some (q, ks, rs) => Some (q, true :: ks, rel ++ rs) | None => None end
      | AFail a' =>
          match al_run al a' os with Some (q, ks, rs) => Some (q, false :: ks, rs) | None => None end
      | AUB => None
      end
  end.

(* the list model run with the same accept/refuse decisions: contents and everything released *)
Fixpoint spec_run (s : spec) (ops : list alop) (oks : list bool) : spec * list Z :=
  match ops, oks with
  | o :: os, true :: ks =>
      let (q, rs) := spec_run (fst (spec_step s o)) os ks in (q, snd (spec_step s o) ++ rs)
  | _ :: os, false :: ks => spec_run s os ks
  | _, _ => (s, [])
  end.

(* every accepted operation had in-range arguments *)
Fixpoint accepted_in_range (s : spec) (ops : list alop) (oks : list bool) : Prop :=
  match ops, oks with
  | o :: os, true :: ks => spec_ok s o = true /\ accepted_in_range (fst (spec_step s o)) os ks
  | _ :: os, false :: ks => accepted_in_range s os ks
  | _, _ => True
  end.

Theorem run_refines al ops : forall a,
  Inv a -> Forall op_wf ops ->
  exists q oks rs, al_run al a ops = Some (q, oks, rs) /\ Inv q /\
                   (al_abs q, rs) = spec_run (al_abs a) ops oks /\ length oks = length ops /\
                   accepted_in_range (al_abs a) ops oks.
Proof.
  induction ops as [|o os IH]; intros a HI Hwf.
  - exists a, [], []. cbn. auto.
  - inversion Hwf as [|? ? Ho Hos]; subst. cbn [al_run].
    pose proof (step_spec al a o HI Ho) as S.
    destruct (al_step al a o) as [a' r rel ws|a'|]; [| |contradiction].
    + destruct S as (HI' & Ha & Hr & _ & _ & Hok).
      destruct (IH a' HI' Hos) as (q & ks & rs & -> & HIq & Hq & Hlen & Hacc).
      exists q, (true :: ks), (rel ++ rs). cbn [spec_run accepted_in_range length].
      rewrite <- Ha, <- Hq, <- Hr.
      refine (conj eq_refl (conj HIq (conj eq_refl (conj _ (conj Hok Hacc))))). congruence.
    + subst a'. destruct (IH a HI Hos) as (q & ks & rs & -> & HIq & Hq & Hlen & Hacc).
      exists q, (false :: ks), rs. cbn [spec_run accepted_in_range length].
      refine (conj eq_refl (conj HIq (conj Hq (conj _ Hacc)))). congruence.
Qed.

(* from creation with any initial capacity to destruction *)
Theorem lifecycle_refines al n ops a0 :
  al_new2 al n = NOk a0 -> Forall op_wf ops ->
  exists q oks rs, al_run al a0 ops = Some (q, oks, rs) /\ Inv q /\
                   (al_abs q, rs) = spec_run [] ops oks /\ length oks = length ops /\
                   accepted_in_range [] ops oks /\
                   al_free q = Some (nonnull (al_abs q)) /\
                   (forall i, 0 <= i -> al_get q i = GOk (sget (al_abs q) i)) /\
                   al_length q = zlen (al_abs q).
Proof.
  intros Hn Hwf. pose proof (new2_spec al n) as N. rewrite Hn in N. destruct N as (HI0 & HA0 & _).
  destruct (run_refines al ops a0 HI0 Hwf) as (q & oks & rs & Hr & HIq & Hq & Hlen & Hacc).
  rewrite HA0 in Hq, Hacc. exists q, oks, rs.
  repeat (split; [assumption|]). split; [apply free_spec; exact HIq|].
  split; [intros i Hi; apply get_spec; assumption|apply length_spec; exact HIq].
Qed.

(* after ANY history (adds, puts, inserts, deletes, shrinks, earlier sorts by either comparator,
   in-place value changes; any allocator behaviour; any initial capacity) a sort by [c] yields a
   permutation of the contents at that moment, ordered by [c], and a search by [c] then finds a
   key iff it is an element *)
Theorem sort_after_any_history al n ops a0 c k :
  al_new2 al n = NOk a0 -> Forall op_wf ops ->
  exists q oks rs q' ws b,
    al_run al a0 ops = Some (q, oks, rs) /\ al_sort c q = AOk q' 0 [] ws /\
    Permutation (al_abs q) (al_abs q') /\ StronglySorted (le_by c) (al_abs q') /\
    al_bsearch c q' k = Some b /\ (b = true <-> In k (al_abs q)).
Proof.
  intros Hn Hwf. pose proof (new2_spec al n) as N. rewrite Hn in N. destruct N as (HI0 & _).
  destruct (run_refines al ops a0 HI0 Hwf) as (q & oks & rs & Hr & HIq & _).
  destruct (sort_any_state c q HIq) as (q' & rel & ws & Hs & HI' & -> & HP & HS & _).
  destruct (sort_then_bsearch c q k q' 0 [] ws HIq Hs) as (b & Hb & Hiff).
  exists q, oks, rs, q', ws, b. auto 10.
Qed.

(* the same with a key that is not a member (a bare id): what is found has the key's id, NULL is
   returned iff no element has it *)
Theorem sort_after_any_history_int_key al n ops a0 c (k : key) :
  al_new2 al n = NOk a0 -> Forall op_wf ops ->
  exists q oks rs q' ws res,
    al_run al a0 ops = Some (q, oks, rs) /\ al_sort c q = AOk q' 0 [] ws /\
    al_bsearch_km (cmp_km c) q' k = Some res /\
    (forall x, res = Some x -> x = Some k) /\ (res = None <-> ~ In (Some k) (al_abs q)).
Proof.
  intros Hn Hwf. pose proof (new2_spec al n) as N. rewrite Hn in N. destruct N as (HI0 & _).
  destruct (run_refines al ops a0 HI0 Hwf) as (q & oks & rs & Hr & HIq & _).
  destruct (sort_any_state c q HIq) as (q' & rel & ws & Hs & HI' & -> & HP & HS & _).
  destruct (sort_then_bsearch_int_key c q k q' 0 [] ws HIq Hs) as (res & Hb & Hx & Hiff).
  exists q, oks, rs, q', ws, res. auto 10.
Qed.

(* ---------------- refusals are never spurious ---------------- *)
(* when the allocator cooperates, every operation with in-range arguments is served
   (the side condition on the capacity excludes arrays above 2^60 slots, where the doubling
   policy asks for more than a size_t can express although the request itself would fit) *)
Ltac leaves :=
  repeat match goal with
         | |- context [if ?c then _ else _] => destruct c
         | |- context [match ?c with Some _ => _ | None => _ end] => destruct c
         | |- context [match ?c with (_, _) => _ end] => destruct c
         end;
  intros S; try (exact (False_ind _ S)); eauto.

Theorem fitting_request_served a o :
  Inv a -> op_wf o -> spec_ok (al_abs a) o = true -> asize a * 2 <= SIZE_MAX / PTR ->
  exists a' r rel ws, al_step (fun _ => true) a o = AOk a' r rel ws.
Proof.
  intros HI Hwf Hok H2. pose proof (abs_len a HI) as Hal. pose proof HI as (Hm & Hl & Hs & Hc).
  pose proof (step_spec (fun _ => true) a o HI Hwf) as S. revert S.
  destruct o as [e|i e|i e|i c|n|cs|i v]; cbn [al_step spec_ok op_wf] in *; rewrite ?Hal in Hok.
  - unfold al_add. destruct (alen a >? SIZE_MAX - 1) eqn:E1; [zl|].
    assert (Hi : in_size (alen a + 1) = true) by zl. rewrite Hi; cbn [negb].
    destruct (expand_served a (alen a + 1)) as [a1 ->]; [exact HI|lia|exact H2|]. leaves.
  - unfold al_put. destruct (i >? SIZE_MAX - 1) eqn:E1; [zl|].
    assert (Hi : in_size (i + 1) = true) by zl. rewrite Hi; cbn [negb].
    destruct (expand_served a (i + 1)) as [a1 ->]; [exact HI|unfold in_sz in Hwf; lia|exact H2|]. leaves.
  - unfold al_insert. destruct (i >=? alen a) eqn:E0.
    + unfold al_put. destruct (i >? SIZE_MAX - 1) eqn:E1; [zl|].
      assert (Hi : in_size (i + 1) = true) by zl. rewrite Hi; cbn [negb].
      destruct (expand_served a (i + 1)) as [a1 ->]; [exact HI|unfold in_sz in Hwf; lia|exact H2|]. leaves.
    + destruct (alen a =? SIZE_MAX) eqn:E1; [zl|].
      assert (Hi : in_size (alen a + 1) = true) by zl. rewrite Hi; cbn [negb].
      destruct (expand_served a (alen a + 1)) as [a1 ->]; [exact HI|lia|exact H2|]. leaves.
  - intros _. destruct Hwf as [Hi Hcc]. pose proof (del_spec a i c HI Hi Hcc) as D.
    destruct (al_del a i c) as [a' r rel ws|a'|]; [eauto|cbv beta iota in D; lia|exact (False_ind _ D)].
  - unfold al_shrink.
    assert (Hi0 : in_size (SIZE_MAX / PTR - alen a) = true) by (rewrite maxslots in *; zl).
    rewrite Hi0; cbn [negb].
    destruct (n >=? SIZE_MAX / PTR - alen a) eqn:E1; [lia|].
    assert (Hi1 : in_size (alen a + n) = true) by (unfold in_sz in Hwf; rewrite maxslots in *; zl).
    rewrite Hi1; cbn [negb].
    destruct (alen a + n =? asize a) eqn:E2; [eauto|].
    destruct (alen a + n >? asize a) eqn:E3.
    + destruct (expand_served a (alen a + n)) as [a1 ->]; [exact HI|lia|exact H2|]. eauto.
    + leaves.
  - intros _. pose proof (sort_spec cs a HI) as S.
    destruct (al_sort cs a) as [a' r rel ws|a'|]; [eauto|exact (False_ind _ S)|exact (False_ind _ S)].
  - intros _. pose proof (setval_spec a i v HI (proj1 Hwf)) as S.
    destruct (al_setval a i v) as [a' r rel ws|a'|]; [eauto|exact (False_ind _ S)|exact (False_ind _ S)].
Qed.

(* ---------------- conservation: every element handed over is released exactly once ---------------- *)
Definition given (o : alop) : list Z :=
  match o with OAdd e | OPut _ e | OInsert _ e => nonnull [e] | _ => [] end.

Lemma nonnull_app a b : nonnull (a ++ b) = nonnull a ++ nonnull b.
Proof. apply flat_map_app. Qed.

Lemma nonnull_repeat_None n : nonnull (zrepeat None n) = [].
Proof. unfold zrepeat. induction (Z.to_nat n); cbn; auto. Qed.

Lemma put_conserves l i e : 0 <= i ->
  Permutation (nonnull l ++ nonnull [e]) (nonnull (sput l i e) ++ sput_rel l i).
Proof.
  intros Hi. unfold sput, sput_rel. destruct (i <? zlen l) eqn:E.
  - destruct (zsplit_ex l i) as (L1 & R & -> & HL1 & HR); [lia|].
    destruct (zlen_cons_inv R) as (x & L2 & -> & HL2); [lia|].
    destruct (split3 L1 x L2 i HL1) as (F1 & F2 & F3 & _). unfold sget. rewrite F1, F2, F3.
    change (x :: L2) with ([x] ++ L2). rewrite !nonnull_app, <- !app_assoc.
    apply Permutation_app_head.
    rewrite (app_assoc (nonnull [e])). etransitivity; [|apply Permutation_app_comm].
    apply Permutation_app_head. apply Permutation_app_comm.
  - rewrite !nonnull_app, nonnull_repeat_None, app_nil_r. reflexivity.
Qed.

(* elements are named by their value: the accounting below is for histories that do not change
   values in place (an in-place change renames an element, it neither adds nor releases one) *)
Definition no_setval (o : alop) : Prop := match o with OSetVal _ _ => False | _ => True end.

Lemma spec_step_conserves l o :
  op_wf o -> no_setval o -> spec_ok l o = true ->
  Permutation (nonnull l ++ given o) (nonnull (fst (spec_step l o)) ++ snd (spec_step l o)).
Proof.
  intros Hwf Hns Hok. destruct o as [e|i e|i e|i c|n|cs|i v]; cbn [spec_step given fst snd spec_ok op_wf no_setval] in *.
  - rewrite nonnull_app, app_nil_r. reflexivity.
  - apply put_conserves. apply Hwf.
  - unfold sinsert. destruct (i >=? zlen l) eqn:E; [apply put_conserves; apply Hwf|].
    destruct (zsplit_ex l i) as (L1 & L2 & -> & HL1 & HL2); [unfold in_sz in Hwf; lia|].
    rewrite zfirstn_app_exact, zskipn_app_exact by assumption.
    rewrite !nonnull_app, app_nil_r, <- !app_assoc. apply Permutation_app_head. apply Permutation_app_comm.
  - destruct Hwf as [Hi Hc]. unfold in_sz in *. unfold sdel, sdel_rel.
    destruct (zsplit_ex l i) as (L1 & R & -> & HL1 & HR); [lia|].
    rewrite zlen_app in Hok.
    destruct (zsplit_ex R c) as (L2 & L3 & -> & HL2 & HL3); [lia|].
    rewrite (zfirstn_app_exact i) by exact HL1.
    rewrite (zskipn_app_exact i) by exact HL1.
    rewrite (zfirstn_app_exact c) by exact HL2.
    rewrite (app_assoc L1 L2 L3), (zskipn_app_exact (i + c)) by (rewrite zlen_app; lia).
    rewrite !nonnull_app, app_nil_r, <- !app_assoc. apply Permutation_app_head. apply Permutation_app_comm.
  - rewrite !app_nil_r. reflexivity.
  - rewrite !app_nil_r. apply Permutation_flat_map. apply sort_by_perm.
  - contradiction.
Qed.

Fixpoint given_run (ops : list alop) (oks : list bool) : list Z :=
  match ops, oks with
  | o :: os, true :: ks => given o ++ given_run os ks
  | _ :: os, false :: ks => given_run os ks
  | _, _ => []
  end.

Lemma spec_run_conserves ops : forall s oks,
  Forall op_wf ops -> Forall no_setval ops -> accepted_in_range s ops oks ->
  Permutation (nonnull s ++ given_run ops oks)
              (nonnull (fst (spec_run s ops oks)) ++ snd (spec_run s ops oks)).
Proof.
  induction ops as [|o os IH]; intros s oks Hwf Hns Hacc.
  - destruct oks; cbn. all: reflexivity.
  - inversion Hwf as [|? ? Ho Hos]; subst. inversion Hns as [|? ? Hn Hnss]; subst. destruct oks as [|[|] ks]; cbn [spec_run given_run accepted_in_range] in *.
    + reflexivity.
    + destruct Hacc as [Hok Hacc]. specialize (IH (fst (spec_step s o)) ks Hos Hnss Hacc).
      destruct (spec_run (fst (spec_step s o)) os ks) as [q rs]. cbn [fst snd] in *.
      pose proof (spec_step_conserves s o Ho Hn Hok) as P.
      rewrite app_assoc. etransitivity; [apply Permutation_app_tail; exact P|].
      rewrite <- app_assoc.
      etransitivity; [apply Permutation_app_head, Permutation_app_comm|].
      rewrite app_assoc. etransitivity; [apply Permutation_app_tail; exact IH|].
      rewrite <- !app_assoc. apply Permutation_app_head. apply Permutation_app_comm.
    + apply IH; assumption.
Qed.

(* from creation to destruction: the ids released during the history followed by those released
   by array_list_free are a permutation of the non-NULL ids the accepted operations handed over *)
Theorem released_once al n ops a0 :
  al_new2 al n = NOk a0 -> Forall op_wf ops -> Forall no_setval ops ->
  exists q oks rs fr, al_run al a0 ops = Some (q, oks, rs) /\ al_free q = Some fr /\
                      Permutation (given_run ops oks) (rs ++ fr).
Proof.
  intros Hn Hwf Hns. pose proof (new2_spec al n) as N. rewrite Hn in N. destruct N as (HI0 & HA0 & _).
  destruct (run_refines al ops a0 HI0 Hwf) as (q & oks & rs & Hr & HIq & Hq & Hlen & Hacc).
  rewrite HA0 in Hq, Hacc. exists q, oks, rs, (nonnull (al_abs q)).
  split; [exact Hr|]. split; [apply free_spec; exact HIq|].
  pose proof (spec_run_conserves ops [] oks Hwf Hns Hacc) as P. rewrite <- Hq in P. cbn [fst snd nonnull flat_map app] in P.
  etransitivity; [exact P|]. apply Permutation_app_comm.
Qed.

(* ---------------- non-vacuity ---------------- *)
Example run_nontrivial :
  exists a0 q oks rs,
    al_new2 (fun _ => true) 0 = NOk a0 /\
    al_run (fun _ => true) a0
      [OAdd (Some 5); OAdd (Some 3); OPut 4 (Some 9); OInsert 1 (Some 7); OPut 0 (Some 6);
       ODel 2 2; ODel 9 1; OSort Asc; OShrink 0; OPut SIZE_MAX (Some 1)] = Some (q, oks, rs) /\
    al_abs q = [None; Some 6; Some 7; Some 9] /\ rs = [5; 3] /\ asize q = 4 /\
    oks = [true; true; true; true; true; true; false; true; true; false] /\
    al_bsearch Asc q (Some 7) = Some true /\ al_bsearch Asc q (Some 8) = Some false /\
    al_get q 4 = GOk None /\ al_free q = Some [6; 7; 9].
Proof.
  exists (mkal [] 0 0). eexists _, _, _.
  split; [vm_compute; reflexivity|]. split; [vm_compute; reflexivity|].
  vm_compute. repeat split.
Qed.

(* sort, change a value in place, sort again by the same comparator, sort by the other one *)
Example resort_nontrivial :
  exists q oks rs,
    al_run (fun _ => true) (mkal [] 0 0)
      [OAdd (Some 5); OAdd (Some 1); OAdd None; OAdd (Some 3); OSort Asc; OSetVal 1 9; OSetVal 0 4;
       OSort Asc; OSort Asc; OSort Desc] = Some (q, oks, rs) /\
    al_abs q = [Some 9; Some 5; Some 3; None] /\
    al_bsearch Desc q (Some 9) = Some true /\ al_bsearch Desc q (Some 1) = Some false.
Proof.
  eexists _, _, _. split; [vm_compute; reflexivity|]. vm_compute. repeat split.
Qed.

(* a bare-id key searched among members (with a NULL gap and a duplicate), both comparators *)
Example int_key_search_nontrivial :
  exists q oks rs,
    al_run (fun _ => true) (mkal [] 0 0)
      [OAdd (Some 40); OAdd (Some 7); OAdd None; OAdd (Some 19); OAdd (Some 7); OSort Asc] = Some (q, oks, rs) /\
    al_abs q = [None; Some 7; Some 7; Some 19; Some 40] /\
    al_bsearch_km (cmp_km Asc) q 19 = Some (Some (Some 19)) /\
    al_bsearch_km (cmp_km Asc) q 7 = Some (Some (Some 7)) /\
    al_bsearch_km (cmp_km Asc) q 20 = Some None /\
    (* the reverse comparator on this array is not the contract: it misses a present id *)
    al_bsearch_km (cmp_km Desc) q 40 = Some None.
Proof.
  eexists _, _, _. split; [vm_compute; reflexivity|]. vm_compute. repeat split.
Qed.
