(* EqModel.v — json_object_equal and json_object_deep_copy as written (C09), the
   mathematical denotation of a tree, and a small node-address model (trees whose
   nodes carry the address the allocator gave them) on which the pointer-identity
   shortcut of json_object_equal, the freshness of the nodes of a deep copy and the
   frame of a mutation are expressed.  No proofs here (EqProofs.v).

   Documented invariants of a tree ([jv_wf]): an int64 node holds an int64, a uint64
   node a uint64, and the keys of one object are pairwise distinct (the hash table
   of a json-c object cannot hold a key twice).  Keys and retained number texts are
   C strings (no 0 byte); no theorem needs that. *)
From JC Require Import Base Value.
Local Open Scope Z_scope.

(* ------------------------------------------------------------------ doubles *)
(* IEEE-754 binary64 decoded from the bit pattern into its value class.  A finite double
   is (neg, e, m) with biased exponent e < 2047 and fraction m < 2^52; its value is
   (-1)^neg * mag e m * 2^-1074 ([d_mag]); both zeros decode to the one class
   [DFin false 0 0], so [==] on non-NaN doubles is [=] on the classes (EqProofs.d_scaled_inj:
   distinct classes have distinct real values). *)
Definition two52 : Z := 4503599627370496.
Definition two63 : Z := 9223372036854775808.
Definition two64 : Z := 18446744073709551616.

Inductive dval := DNaN | DInf (neg : bool) | DFin (neg : bool) (e m : Z).

Definition d_sign (b : Z) : Z := (b / two63) mod 2.
Definition d_exp (b : Z) : Z := (b / two52) mod 2048.
Definition d_man (b : Z) : Z := b mod two52.

Definition d_decode (b : Z) : dval :=
  let s := d_sign b =? 1 in
  let e := d_exp b in
  let m := d_man b in
  if e =? 2047 then (if m =? 0 then DInf s else DNaN)
  else if (e =? 0) && (m =? 0) then DFin false 0 0
  else DFin s e m.

(* the real value of a finite class, times 2^1074 (an integer); not used by the drivers *)
Definition d_mag (e m : Z) : Z := if e =? 0 then m else (two52 + m) * 2 ^ (e - 1).
Definition d_scaled (x : dval) : option Z :=
  match x with
  | DFin neg e m => Some (if neg then - d_mag e m else d_mag e m)
  | _ => None
  end.

(* the C operator == on two doubles: false as soon as one side is a NaN, else
   comparison of the values *)
Definition dval_eqb (x y : dval) : bool :=
  match x, y with
  | DNaN, _ | _, DNaN => false
  | DInf a, DInf b => Bool.eqb a b
  | DFin s e m, DFin s' e' m' => Bool.eqb s s' && (e =? e') && (m =? m')
  | _, _ => false
  end.

Definition dval_is_nan (x : dval) : bool := match x with DNaN => true | _ => false end.

(* ------------------------------------------------------------------ objects *)
(* lh_table_lookup_ex on the member list: the entry whose key is equal *)
Fixpoint assoc {A} (k : list byte) (l : list (list byte * A)) : option A :=
  match l with
  | [] => None
  | (k', v) :: t => if bytes_eqb k k' then Some v else assoc k t
  end.

(* json_object_object_add: an existing key keeps its position and gets the new value,
   a new key is appended *)
Fixpoint obj_add {A} (l : list (list byte * A)) (k : list byte) (v : A) : list (list byte * A) :=
  match l with
  | [] => [(k, v)]
  | (k', v') :: t => if bytes_eqb k k' then (k', v) :: t else (k', v') :: obj_add t k v
  end.

(* json_object_object_del *)
Fixpoint obj_del {A} (l : list (list byte * A)) (k : list byte) : list (list byte * A) :=
  match l with
  | [] => []
  | (k', v') :: t => if bytes_eqb k k' then t else (k', v') :: obj_del t k
  end.

Section All2.
  Context {A B : Type} (f : A -> B -> bool).
  Fixpoint all2 (la : list A) (lb : list B) : bool :=
    match la, lb with
    | [], [] => true
    | x :: ta, y :: tb => f x y && all2 ta tb
    | _, _ => false
    end.
End All2.

(* ------------------------------------------------------------------ json_object_equal *)
(* All pointers are distinct here except NULL == NULL; the shortcut  jso1 == jso2  on
   non-null nodes is [jv_equal_root]'s argument and, at every depth, [nt_equal] below. *)
Fixpoint jv_equal (a b : jv) {struct a} : bool :=
  match a, b with
  | JNull, JNull => true                           (* jso1 == jso2 *)
  | JNull, _ => false                              (* !jso1 *)
  | _, JNull => false                              (* !jso2 *)
  | JBool x, JBool y => Bool.eqb x y
  | JDouble x _, JDouble y _ => dval_eqb (d_decode x) (d_decode y)   (* c_double == c_double *)
  | JInt x, JInt y => x =? y
  | JInt x, JUint y => if x <? 0 then false else (x mod two64 =? y)  (* (uint64_t)c_int64 == c_uint64 *)
  | JUint x, JUint y => x =? y
  | JUint x, JInt y => if y <? 0 then false else (x =? y mod two64)
  | JStr x, JStr y => (zlen x =? zlen y) && bytes_eqb x y            (* len == len && memcmp(.., len) == 0 *)
  | JArr la, JArr lb => (zlen la =? zlen lb) && all2 (fun x y => jv_equal x y) la lb  (* json_array_equal *)
  | JObj la, JObj lb =>                                              (* json_object_all_values_equal *)
      forallb (fun kv => match assoc (fst kv) lb with
                         | None => false
                         | Some sub => jv_equal (snd kv) sub
                         end) la
      && forallb (fun kv => match assoc (fst kv) la with None => false | Some _ => true end) lb
  | _, _ => false                                  (* o_type differs *)
  end.

(* the call json_object_equal(p, q): [same] says whether p and q are the same pointer *)
Definition jv_equal_root (same : bool) (a b : jv) : bool := if same then true else jv_equal a b.

Inductive jkind := KNull | KBoolean | KDouble | KInt | KObject | KArray | KString.
Definition jv_kind (v : jv) : jkind :=
  match v with
  | JNull => KNull | JBool _ => KBoolean | JInt _ | JUint _ => KInt | JDouble _ _ => KDouble
  | JStr _ => KString | JArr _ => KArray | JObj _ => KObject
  end.

Fixpoint nan_free (v : jv) : bool :=
  match v with
  | JDouble b _ => negb (dval_is_nan (d_decode b))
  | JArr l => forallb nan_free l
  | JObj l => forallb (fun kv => nan_free (snd kv)) l
  | _ => true
  end.

Inductive jv_wf : jv -> Prop :=
| wf_null : jv_wf JNull
| wf_bool b : jv_wf (JBool b)
| wf_int z : INT64_MIN <= z <= INT64_MAX -> jv_wf (JInt z)
| wf_uint z : 0 <= z <= UINT64_MAX -> jv_wf (JUint z)
| wf_dbl b t : jv_wf (JDouble b t)
| wf_str s : jv_wf (JStr s)
| wf_arr l : Forall jv_wf l -> jv_wf (JArr l)
| wf_obj l : NoDup (map fst l) -> Forall (fun kv => jv_wf (snd kv)) l -> jv_wf (JObj l).

(* ------------------------------------------------------------------ denotation *)
(* order on keys: lexicographic on the bytes *)
Fixpoint key_cmp (a b : list byte) : comparison :=
  match a, b with
  | [], [] => Eq
  | [], _ :: _ => Lt
  | _ :: _, [] => Gt
  | x :: a', y :: b' => match x ?= y with Eq => key_cmp a' b' | c => c end
  end.

Fixpoint kinsert {A} (k : list byte) (v : A) (l : list (list byte * A)) : list (list byte * A) :=
  match l with
  | [] => [(k, v)]
  | (k', v') :: t => match key_cmp k k' with
                     | Gt => (k', v') :: kinsert k v t
                     | _ => (k, v) :: l
                     end
  end.
Definition ksort {A} (l : list (list byte * A)) : list (list byte * A) :=
  fold_right (fun kv acc => kinsert (fst kv) (snd kv) acc) [] l.

(* mathematical values: one number kind for integers whatever the C representation,
   doubles by value, objects as finite maps in canonical (key-sorted) form *)
Inductive dv :=
| VNull | VBool (b : bool) | VNum (z : Z) | VDbl (d : dval) | VStr (s : list byte)
| VArr (l : list dv) | VObj (l : list (list byte * dv)).

Fixpoint denote (v : jv) : dv :=
  match v with
  | JNull => VNull
  | JBool b => VBool b
  | JInt z => VNum z
  | JUint z => VNum z
  | JDouble b _ => VDbl (d_decode b)
  | JStr s => VStr s
  | JArr l => VArr (map denote l)
  | JObj l => VObj (ksort (map (fun kv => (fst kv, denote (snd kv))) l))
  end.

(* ------------------------------------------------------------------ json_object_deep_copy *)
(* json_c_shallow_copy_default: a new node of the same type and scalar value, no
   children, the serializer function of the source but not its userdata *)
Definition shallow_copy (v : jv) : jv :=
  match v with
  | JDouble b _ => JDouble b None
  | JArr _ => JArr []
  | JObj _ => JObj []
  | x => x
  end.
(* json_object_copy_serializer_data: strdup of the retained text *)
Definition copy_serializer_data (src dst : jv) : jv :=
  match src, dst with
  | JDouble _ (Some t), JDouble b _ => JDouble b (Some t)
  | _, _ => dst
  end.

(* json_object_deep_copy_recursive; a NULL child is copied as NULL *)
Fixpoint deep_copy (src : jv) : jv :=
  match src with
  | JNull => JNull
  | JArr l => JArr (fold_left (fun dst x => dst ++ [deep_copy x]) l [])              (* array_add *)
  | JObj l => JObj (fold_left (fun dst kv => obj_add dst (fst kv) (deep_copy (snd kv))) l [])  (* object_add *)
  | _ => copy_serializer_data src (shallow_copy src)
  end.

(* json_object_deep_copy(src, &dst, NULL): a NULL source is refused (EINVAL) *)
Definition deep_copy_root (src : jv) : option jv :=
  match src with JNull => None | _ => Some (deep_copy src) end.

(* ------------------------------------------------------------------ deep copy with a caller-supplied json_c_shallow_copy_fn *)
(* json_object_deep_copy(src, &dst, fn): the library calls fn(src, parent, key_in_parent,
   index_in_parent, &dst) once per non-null node, parent before children, children in order.
   A well-behaved fn creates the node as json_c_shallow_copy_default does and answers
     1  "created; serializer data left to the library"  -> the library finishes the node with
        json_object_copy_serializer_data AFTER its members / elements have been copied,
     2  "created; I have set serializer / userdata myself" (it has carried the retained text
        over itself) -> the library only skips json_object_copy_serializer_data,
    -1  failure -> the whole deep copy fails at once.
   What fn answers is not the library's business: it is an ORACLE here, an arbitrary function
   of the history of calls made so far and of the arguments of the present call.  A second
   oracle says which source nodes carry application userdata (with a serializer the library
   does not know): for such a node answer 1 makes json_object_copy_serializer_data, hence the
   deep copy, fail. *)
Inductive cb_ans := CbCreated | CbComplete | CbError.
Record cb_call := mk_call { c_src : jv; c_parent : option jv; c_key : option (list byte); c_idx : option Z; c_depth : Z }.
Record cb_env := mk_env { cb_answer : list cb_call -> cb_call -> cb_ans;      (* history: most recent call first *)
                          cb_tagged : list cb_call -> cb_call -> bool }.

Section ThreadOpt.   (* children in order with a threaded state, stopping at the first failure *)
  Context {A B S : Type} (f : Z -> A -> S -> option B * S).
  Fixpoint thread_opt (i : Z) (l : list A) (s : S) : option (list B) * S :=
    match l with
    | [] => (Some [], s)
    | x :: t => match f i x s with
                | (Some x', s1) => match thread_opt (i + 1) t s1 with
                                   | (Some t', s2) => (Some (x' :: t'), s2)
                                   | (None, s2) => (None, s2)
                                   end
                | (None, s1) => (None, s1)
                end
    end.
End ThreadOpt.

(* json_object_deep_copy_recursive with the callback; result None = -1 *)
Fixpoint deep_copy_cb (env : cb_env) (src : jv) (parent : option jv) (key : option (list byte)) (idx : option Z)
                      (depth : Z) (h : list cb_call) {struct src} : option jv * list cb_call :=
  match src with
  | JNull => (Some JNull, h)            (* a NULL member / element is copied as NULL, fn is not called *)
  | _ =>
    let call := mk_call src parent key idx depth in
    let h1 := call :: h in
    match cb_answer env h call with
    | CbError => (None, h1)             (* shallow_copy_rc < 1 *)
    | ans =>
      (* the end of the function: if (shallow_copy_rc != 2) return json_object_copy_serializer_data(src, *dst) *)
      let finish (d : jv) (h2 : list cb_call) : option jv * list cb_call :=
        match ans with
        | CbComplete => (Some d, h2)
        | _ => if cb_tagged env h call then (None, h2) else (Some (copy_serializer_data src d), h2)
        end in
      match src with
      | JArr l =>
          match thread_opt (fun i x s => deep_copy_cb env x (Some src) None (Some i) (depth + 1) s) 0 l h1 with
          | (Some l', h2) => finish (JArr (fold_left (fun dst x => dst ++ [x]) l' [])) h2        (* array_add *)
          | (None, h2) => (None, h2)
          end
      | JObj l =>
          match thread_opt (fun _ kv s => match deep_copy_cb env (snd kv) (Some src) (Some (fst kv)) None (depth + 1) s with
                                          | (Some x', s') => (Some (fst kv, x'), s')
                                          | (None, s') => (None, s')
                                          end) 0 l h1 with
          | (Some l', h2) => finish (JObj (fold_left (fun dst kv => obj_add dst (fst kv) (snd kv)) l' [])) h2   (* object_add *)
          | (None, h2) => (None, h2)
          end
      | _ => finish (match ans with
                     | CbComplete => copy_serializer_data src (shallow_copy src)    (* fn carried the text itself *)
                     | _ => shallow_copy src
                     end) h1
      end
    end
  end.

(* json_object_deep_copy(src, &dst, fn): a NULL source is refused without any call *)
Definition deep_copy_cb_root (env : cb_env) (src : jv) : option jv * list cb_call :=
  match src with JNull => (None, []) | _ => deep_copy_cb env src None None None 0 [] end.

(* the default: json_c_shallow_copy_default always answers 1, no application userdata *)
Definition cb_default : cb_env := mk_env (fun _ _ => CbCreated) (fun _ _ => false).

(* ------------------------------------------------------------------ mutation probes *)
(* the public mutators the drivers apply somewhere inside a tree *)
Inductive step := SIdx (i : Z) | SKey (k : list byte).
Inductive mutop :=
| MAppend (v : jv)                  (* json_object_array_add *)
| MPut (k : list byte) (v : jv)     (* json_object_object_add *)
| MDel (k : list byte)              (* json_object_object_del *)
| MSetInt (z : Z)                   (* json_object_set_int64 *)
| MSetUint (z : Z)                  (* json_object_set_uint64 *)
| MSetBool (b : bool)               (* json_object_set_boolean *)
| MSetStr (s : list byte)           (* json_object_set_string_len *)
| MSetDouble (bits : Z)             (* json_object_set_double: drops the retained text *)
| MArrPut (i : Z) (v : jv)          (* json_object_array_put_idx: replaces, or extends with null slots *)
| MArrDel (i : Z) (c : Z)           (* json_object_array_del_idx(i, c) *)
(* process-wide settings changed at some point of a history; they address no node *)
| MGlobalHash (h : Z)               (* json_global_set_string_hash(h): 0 = default, 1 = perl-like *)
| MGlobalFormat (f : option (list byte)).  (* json_c_set_serialization_double_format(f, JSON_C_OPTION_GLOBAL) *)

Fixpoint list_set {A} (l : list A) (i : nat) (x : A) : list A :=
  match l, i with
  | [], _ => []
  | _ :: t, O => x :: t
  | y :: t, S i' => y :: list_set t i' x
  end.

Definition apply_mut (m : mutop) (v : jv) : option jv :=
  match m, v with
  | MGlobalHash h, _ => if (h =? 0) || (h =? 1) then Some v else None   (* the tree is not touched *)
  | MGlobalFormat _, _ => Some v
  | MAppend x, JArr l => Some (JArr (l ++ [x]))
  | MPut k x, JObj l => Some (JObj (obj_add l k x))
  | MDel k, JObj l => Some (JObj (obj_del l k))
  | MSetInt z, JInt _ => Some (JInt z)
  | MSetInt z, JUint _ => Some (JInt z)
  | MSetUint z, JInt _ => Some (JUint z)
  | MSetUint z, JUint _ => Some (JUint z)
  | MSetBool b, JBool _ => Some (JBool b)
  | MArrPut i x, JArr l =>
      if i <? 0 then None
      else if i <? zlen l then Some (JArr (list_set l (Z.to_nat i) x))
      else Some (JArr (l ++ zrepeat JNull (i - zlen l) ++ [x]))
  | MArrDel i c, JArr l =>
      if (i <? 0) || (c <? 0) || (i >=? zlen l) || (i + c >? zlen l) then None
      else Some (JArr (zfirstn i l ++ zskipn (i + c) l))
  | MSetStr s, JStr _ => Some (JStr s)
  | MSetDouble b, JDouble _ _ => Some (JDouble b None)
  | _, _ => None
  end.

Fixpoint mutate_at (p : list step) (m : mutop) (v : jv) : option jv :=
  match p with
  | [] => apply_mut m v
  | SIdx i :: p' =>
      match v with
      | JArr l => match znth l i with
                  | Some c => match mutate_at p' m c with
                              | Some c' => Some (JArr (list_set l (Z.to_nat i) c'))
                              | None => None
                              end
                  | None => None
                  end
      | _ => None
      end
  | SKey k :: p' =>
      match v with
      | JObj l => match assoc k l with
                  | Some c => match mutate_at p' m c with
                              | Some c' => Some (JObj (obj_add l k c'))
                              | None => None
                              end
                  | None => None
                  end
      | _ => None
      end
  end.

(* a history: mutations applied one after the other; one that does not fit (path does not
   resolve, wrong type, index out of range) is refused by the library and changes nothing.
   The pure tree has no notion of HOW a value was reached (inline or separately allocated
   string storage, int64/uint64 switched by a setter, array capacity, hash-table tombstones):
   every theorem about [jv_equal] / [deep_copy] on well-formed trees applies to the result
   of every history (EqProofs.run_history_wf). *)
Fixpoint run_history (h : list (list step * mutop)) (v : jv) : jv * list bool :=
  match h with
  | [] => (v, [])
  | (p, m) :: t =>
      match mutate_at p m v with
      | Some v' => let (r, oks) := run_history t v' in (r, true :: oks)
      | None => let (r, oks) := run_history t v in (r, false :: oks)
      end
  end.

(* arguments a caller can pass: values of the C parameter types, well-formed subtrees *)
Definition mutop_wf (m : mutop) : Prop :=
  match m with
  | MAppend v => jv_wf v
  | MPut _ v => jv_wf v
  | MArrPut _ v => jv_wf v
  | MSetInt z => INT64_MIN <= z <= INT64_MAX
  | MSetUint z => 0 <= z <= UINT64_MAX
  | _ => True
  end.

(* ---- process-wide settings ----
   The string hash selected by json_global_set_string_hash (captured by each object's table
   when the table is created) and the global double format are state of the process, not of
   a tree.  [run_history_g] threads that state through a history; json_object_equal and
   json_object_deep_copy are modelled WITH the state as a parameter that they ignore
   ([jv_equal_in], [deep_copy_in]): by construction nothing they return can depend on when,
   between building, mutating, copying and comparing, a setting was changed
   (EqProofs.settings_irrelevant). *)
Record gstate := mk_g { g_str_hash : Z; g_dbl_format : option (list byte) }.
Definition g_default : gstate := mk_g 0 None.
Definition global_step (m : mutop) (g : gstate) : gstate :=
  match m with
  | MGlobalHash h => if (h =? 0) || (h =? 1) then mk_g h (g_dbl_format g) else g
  | MGlobalFormat f => mk_g (g_str_hash g) f
  | _ => g
  end.
Fixpoint run_history_g (g : gstate) (h : list (list step * mutop)) (v : jv) : (jv * list bool) * gstate :=
  match h with
  | [] => ((v, []), g)
  | (p, m) :: t =>
      let g' := global_step m g in
      match mutate_at p m v with
      | Some v' => let '((r, oks), g2) := run_history_g g' t v' in ((r, true :: oks), g2)
      | None => let '((r, oks), g2) := run_history_g g' t v in ((r, false :: oks), g2)
      end
  end.
Definition jv_equal_in (g : gstate) (a b : jv) : bool := jv_equal a b.
Definition deep_copy_in (g : gstate) (a : jv) : jv := deep_copy a.

(* ------------------------------------------------------------------ node addresses *)
(* A tree as it lies in memory: every non-null node carries its address.  The same
   address may occur several times (a node referenced from two places). *)
Inductive leaf := LBool (b : bool) | LInt (z : Z) | LUint (z : Z) | LDouble (bits : Z) (text : option (list byte)) | LStr (s : list byte).
Definition jv_of_leaf (x : leaf) : jv :=
  match x with
  | LBool b => JBool b | LInt z => JInt z | LUint z => JUint z | LDouble b t => JDouble b t | LStr s => JStr s
  end.

Inductive nt :=
| NNull
| NLeaf (addr : Z) (x : leaf)
| NArr (addr : Z) (l : list nt)
| NObj (addr : Z) (l : list (list byte * nt)).

Section nt_ind'.
  Variable P : nt -> Prop.
  Hypothesis Hnull : P NNull.
  Hypothesis Hleaf : forall i x, P (NLeaf i x).
  Hypothesis Harr : forall i l, Forall P l -> P (NArr i l).
  Hypothesis Hobj : forall i l, Forall (fun kv => P (snd kv)) l -> P (NObj i l).
  Fixpoint nt_ind' (t : nt) : P t :=
    match t with
    | NNull => Hnull
    | NLeaf i x => Hleaf i x
    | NArr i l => Harr i l ((fix go (l : list nt) : Forall P l :=
                               match l with [] => Forall_nil _ | x :: t => Forall_cons _ (nt_ind' x) (go t) end) l)
    | NObj i l => Hobj i l ((fix go (l : list (list byte * nt)) : Forall (fun kv => P (snd kv)) l :=
                               match l with [] => Forall_nil _ | x :: t => Forall_cons _ (nt_ind' (snd x)) (go t) end) l)
    end.
End nt_ind'.

Definition nt_addr (t : nt) : option Z :=
  match t with NNull => None | NLeaf i _ => Some i | NArr i _ => Some i | NObj i _ => Some i end.

(* jso1 == jso2 *)
Definition same_ptr (a b : nt) : bool :=
  match nt_addr a, nt_addr b with
  | None, None => true
  | Some i, Some j => i =? j
  | _, _ => false
  end.

Fixpoint erase (t : nt) : jv :=
  match t with
  | NNull => JNull
  | NLeaf _ x => jv_of_leaf x
  | NArr _ l => JArr (map erase l)
  | NObj _ l => JObj (map (fun kv => (fst kv, erase (snd kv))) l)
  end.

(* addresses reachable from a root, in pre-order *)
Fixpoint addrs (t : nt) : list Z :=
  match t with
  | NNull => []
  | NLeaf i _ => [i]
  | NArr i l => i :: flat_map addrs l
  | NObj i l => i :: flat_map (fun kv => addrs (snd kv)) l
  end.

(* json_object_equal with the pointer shortcut taken at every depth, as the code does *)
Fixpoint nt_equal (a b : nt) {struct a} : bool :=
  if same_ptr a b then true else
  match a, b with
  | NNull, _ => false
  | _, NNull => false
  | NLeaf _ x, NLeaf _ y => jv_equal (jv_of_leaf x) (jv_of_leaf y)
  | NArr _ la, NArr _ lb => (zlen la =? zlen lb) && all2 (fun x y => nt_equal x y) la lb
  | NObj _ la, NObj _ lb =>
      forallb (fun kv => match assoc (fst kv) lb with
                         | None => false
                         | Some sub => nt_equal (snd kv) sub
                         end) la
      && forallb (fun kv => match assoc (fst kv) la with None => false | Some _ => true end) lb
  | _, _ => false
  end.

(* allocation: every node created gets the next unused address (parent before
   children, children in order — the order json_object_deep_copy_recursive allocates) *)
Section Thread.
  Context {A B : Type} (f : A -> Z -> B * Z).
  Fixpoint thread (l : list A) (n : Z) : list B * Z :=
    match l with
    | [] => ([], n)
    | x :: t => let (x', n1) := f x n in
                let (t', n2) := thread t n1 in
                (x' :: t', n2)
    end.
End Thread.

Fixpoint build (v : jv) (n : Z) {struct v} : nt * Z :=
  match v with
  | JNull => (NNull, n)
  | JBool b => (NLeaf n (LBool b), n + 1)
  | JInt z => (NLeaf n (LInt z), n + 1)
  | JUint z => (NLeaf n (LUint z), n + 1)
  | JDouble b t => (NLeaf n (LDouble b t), n + 1)
  | JStr s => (NLeaf n (LStr s), n + 1)
  | JArr l => let r := thread build l (n + 1) in (NArr n (fst r), snd r)
  | JObj l => let r := thread (fun kv m => let (x', m1) := build (snd kv) m in ((fst kv, x'), m1)) l (n + 1) in
              (NObj n (fst r), snd r)
  end.

(* json_object_deep_copy of the tree at [t] when [n] is the first unused address *)
Definition nt_copy (t : nt) (n : Z) : nt * Z := build (deep_copy (erase t)) n.

(* number of (non-null) nodes *)
Fixpoint node_count (v : jv) : Z :=
  match v with
  | JNull => 0
  | JArr l => 1 + fold_right (fun x n => node_count x + n) 0 l
  | JObj l => 1 + fold_right (fun kv n => node_count (snd kv) + n) 0 l
  | _ => 1
  end.

(* a store through the pointer [i]: the node at address [i] becomes [f node] wherever
   it is referenced from; nothing else changes *)
Fixpoint nt_write (i : Z) (f : nt -> nt) (t : nt) : nt :=
  match t with
  | NNull => NNull
  | NLeaf j _ => if j =? i then f t else t
  | NArr j l => if j =? i then f t else NArr j (map (nt_write i f) l)
  | NObj j l => if j =? i then f t else NObj j (map (fun kv => (fst kv, nt_write i f (snd kv))) l)
  end.

(* ------------------------------------------------------------------ key storage *)
(* A member name is stored somewhere too (lh_entry.k): either in a strdup the entry owns
   (json_object_object_add) or in memory of the caller that the entry merely points to
   (json_object_object_add_ex(..., JSON_C_OBJECT_ADD_CONSTANT_KEY), lh_entry.k_is_constant) —
   memory the caller has promised to keep for the lifetime of THAT object only.
   [mt] is [nt] with the storage identity of every member name. *)
Inductive kstore := KOwn (addr : Z) | KBorrowed (buf : Z).

Inductive mt :=
| MNull
| MLeaf (addr : Z) (x : leaf)
| MArr (addr : Z) (l : list mt)
| MObj (addr : Z) (l : list ((list byte * kstore) * mt)).

Section mt_ind'.
  Variable P : mt -> Prop.
  Hypothesis Hnull : P MNull.
  Hypothesis Hleaf : forall i x, P (MLeaf i x).
  Hypothesis Harr : forall i l, Forall P l -> P (MArr i l).
  Hypothesis Hobj : forall i l, Forall (fun e => P (snd e)) l -> P (MObj i l).
  Fixpoint mt_ind' (t : mt) : P t :=
    match t with
    | MNull => Hnull
    | MLeaf i x => Hleaf i x
    | MArr i l => Harr i l ((fix go (l : list mt) : Forall P l :=
                               match l with [] => Forall_nil _ | x :: t => Forall_cons _ (mt_ind' x) (go t) end) l)
    | MObj i l => Hobj i l ((fix go (l : list ((list byte * kstore) * mt)) : Forall (fun e => P (snd e)) l :=
                               match l with [] => Forall_nil _ | x :: t => Forall_cons _ (mt_ind' (snd x)) (go t) end) l)
    end.
End mt_ind'.

(* forget where the names are stored *)
Fixpoint mt_nodes (t : mt) : nt :=
  match t with
  | MNull => NNull
  | MLeaf i x => NLeaf i x
  | MArr i l => NArr i (map mt_nodes l)
  | MObj i l => NObj i (map (fun e => (fst (fst e), mt_nodes (snd e))) l)
  end.
Definition mt_erase (t : mt) : jv := erase (mt_nodes t).

(* the storage of all member names reachable from a root *)
Fixpoint key_stores (t : mt) : list kstore :=
  match t with
  | MArr _ l => flat_map key_stores l
  | MObj _ l => flat_map (fun e => snd (fst e) :: key_stores (snd e)) l
  | _ => []
  end.
Definition store_addr (s : kstore) : list Z := match s with KOwn a => [a] | KBorrowed _ => [] end.
Definition store_buf (s : kstore) : list Z := match s with KOwn _ => [] | KBorrowed b => [b] end.
(* caller buffers a tree depends on *)
Definition borrowed (t : mt) : list Z := flat_map store_buf (key_stores t).
(* every address of library-owned memory reachable from a root: nodes and owned names *)
Fixpoint mem_addrs (t : mt) : list Z :=
  match t with
  | MNull => []
  | MLeaf i _ => [i]
  | MArr i l => i :: flat_map mem_addrs l
  | MObj i l => i :: flat_map (fun e => mem_addrs (snd e) ++ store_addr (snd (fst e))) l
  end.

(* allocation by json_object_deep_copy: as [build]; every member is added with
   json_object_object_add after its value has been copied, which strdup's the name *)
Fixpoint mbuild (v : jv) (n : Z) {struct v} : mt * Z :=
  match v with
  | JNull => (MNull, n)
  | JBool b => (MLeaf n (LBool b), n + 1)
  | JInt z => (MLeaf n (LInt z), n + 1)
  | JUint z => (MLeaf n (LUint z), n + 1)
  | JDouble b t => (MLeaf n (LDouble b t), n + 1)
  | JStr s => (MLeaf n (LStr s), n + 1)
  | JArr l => let r := thread mbuild l (n + 1) in (MArr n (fst r), snd r)
  | JObj l => let r := thread (fun kv m => let (x', m1) := mbuild (snd kv) m in (((fst kv, KOwn m1), x'), m1 + 1)) l (n + 1) in
              (MObj n (fst r), snd r)
  end.
Definition mt_copy (t : mt) (n : Z) : mt * Z := mbuild (deep_copy (mt_erase t)) n.

(* the caller overwrites (recycles, frees) its buffer [b]: every name that is merely a pointer
   into it reads differently from now on; names stored elsewhere do not *)
Fixpoint kbuf_write (b : Z) (bytes : list byte) (t : mt) : mt :=
  match t with
  | MArr i l => MArr i (map (kbuf_write b bytes) l)
  | MObj i l => MObj i (map (fun e => ((match snd (fst e) with
                                         | KBorrowed b' => if b' =? b then bytes else fst (fst e)
                                         | KOwn _ => fst (fst e)
                                         end, snd (fst e)), kbuf_write b bytes (snd e))) l)
  | _ => t
  end.

(* ------------------------------------------------------------------ userdata of the stock serializer *)
(* Any node may have been given the stock serializer json_object_userdata_to_json_string with a
   text as userdata (json_object_set_serializer(n, json_object_userdata_to_json_string, text, del));
   for doubles this is the retained number text of [jv].  The text lives in a block the node
   releases through [del] (json_object_free_userdata) or — del = NULL — in memory that stays the
   caller's.  [uanns]: one entry per non-null node, in pre-order.
   json_object_copy_serializer_data, as written: the copy's text is ALWAYS a fresh strdup
   (whatever del is) and  dst->_user_delete = src->_user_delete. *)
Record udata := mk_ud { ud_text : list byte; ud_store : kstore; ud_delete : bool }.
Definition uanns := list (option udata).

Fixpoint copy_uanns (a : uanns) (n : Z) : uanns * Z :=
  match a with
  | [] => ([], n)
  | None :: t => let (r, n') := copy_uanns t n in (None :: r, n')
  | Some u :: t => let (r, n') := copy_uanns t (n + 1) in
                   (Some (mk_ud (ud_text u) (KOwn n) (ud_delete u)) :: r, n')
  end.

Definition ud_stores (a : uanns) : list kstore :=
  flat_map (fun o => match o with Some u => [ud_store u] | None => [] end) a.
Definition ud_texts (a : uanns) : list (option (list byte * bool)) :=
  map (option_map (fun u => (ud_text u, ud_delete u))) a.
(* the caller overwrites (recycles, frees) its buffer [b] *)
Definition ubuf_write (b : Z) (bytes : list byte) (a : uanns) : uanns :=
  map (option_map (fun u => match ud_store u with
                            | KBorrowed b' => if b' =? b then mk_ud bytes (ud_store u) (ud_delete u) else u
                            | KOwn _ => u
                            end)) a.
(* library-allocated blocks that no node will ever release *)
Definition unreleased (a : uanns) : list Z :=
  flat_map (fun o => match o with
                     | Some u => if ud_delete u then [] else store_addr (ud_store u)
                     | None => []
                     end) a.

(* a tree in memory with its userdata, and its deep copy *)
Definition mem_image := (mt * uanns)%type.
Definition full_copy (s : mem_image) (n : Z) : mem_image * Z :=
  let (c, n1) := mt_copy (fst s) n in
  let (a, n2) := copy_uanns (snd s) n1 in
  ((c, a), n2).
Definition image_addrs (s : mem_image) : list Z := mem_addrs (fst s) ++ flat_map store_addr (ud_stores (snd s)).
