(* TokSim.v — call-locals that differ only in dead parts give the same run (towards C03):
   the pending child [lobj] is only read in the two add states, which are entered only from
   S_finish (which has just written it); the number locals are a function of pb. *)
From JC Require Import Base BaseLemmas Value TokModel TokFrame TokStack TokTotal TokReset TokOff.
Local Open Scope Z_scope.

Definition nl_eq (a b : numloc) : Prop := nl_exp a = nl_exp b /\ nl_neg a = nl_neg b /\ nl_pos a = nl_pos b.
Lemma nl_eq_refl a : nl_eq a a. Proof. repeat split. Qed.
Lemma nl_eq_sym a b : nl_eq a b -> nl_eq b a. Proof. intros (A & B & C). repeat split; congruence. Qed.
Lemma nl_eq_trans a b c : nl_eq a b -> nl_eq b c -> nl_eq a c.
Proof. intros (A & B & C) (D & E & F). repeat split; congruence. Qed.

Definition eff (t : tok) (l : locals) : numloc :=
  match lnum l with Some n => n | None => num_locals_init (pb t) end.

(* locals equal up to the dead parts *)
Definition lsim (t : tok) (l1 l2 : locals) : Prop :=
  lc l1 = lc l2 /\ nbytes l1 = nbytes l2 /\
  (if tstate_eqb (st t) S_number then nl_eq (eff t l1) (eff t l2) else lnum l1 = None /\ lnum l2 = None) /\
  (add_like (st t) = true -> lobj l1 = lobj l2).

Definition out_eq (l1 l2 : locals) : Prop := lc l1 = lc l2 /\ nbytes l1 = nbytes l2.

Definition rsim (r1 r2 : sres) : Prop :=
  match r1, r2 with
  | Consumed t1 l1, Consumed t2 l2 => t1 = t2 /\ lsim t1 l1 l2
  | Redo t1 l1, Redo t2 l2 => t1 = t2 /\ lsim t1 l1 l2
  | Out t1 l1, Out t2 l2 => t1 = t2 /\ out_eq l1 l2
  | _, _ => False
  end.

Lemma st_set_state t s : st (set_state t s) = s.
Proof. unfold st. rewrite top_set_state. reflexivity. Qed.
Lemma st_value_done t v : st (value_done t v) = S_eatws.
Proof. unfold st. rewrite top_value_done. reflexivity. Qed.
Lemma st_set_top t s : st (set_top t s) = s_state s.
Proof. unfold st. rewrite top_set_top. reflexivity. Qed.

Lemma st_set_pb t x : st (set_pb t x) = st t. Proof. reflexivity. Qed.
Lemma st_append t x : st (append t x) = st t. Proof. reflexivity. Qed.
Lemma st_set_st_pos t x : st (set_st_pos t x) = st t. Proof. reflexivity. Qed.
Lemma st_set_quote t x : st (set_quote t x) = st t. Proof. reflexivity. Qed.
Lemma st_set_is_double t x : st (set_is_double t x) = st t. Proof. reflexivity. Qed.
Lemma st_set_ucs t x : st (set_ucs t x) = st t. Proof. reflexivity. Qed.
Lemma st_set_high t x : st (set_high t x) = st t. Proof. reflexivity. Qed.
Lemma st_set_err t x : st (set_err t x) = st t. Proof. reflexivity. Qed.
Lemma st_push t x : st (set_stack t (fresh_level :: x)) = S_eatws. Proof. reflexivity. Qed.
Global Hint Rewrite st_set_state st_value_done st_set_top st_set_pb st_append st_set_st_pos st_set_quote st_set_is_double
  st_set_ucs st_set_high st_set_err st_push : tokst.

Lemma num_char_ok_eq t n1 n2 c : nl_eq n1 n2 -> num_char_ok t n1 c = num_char_ok t n2 c.
Proof. intros (A & B & C). unfold num_char_ok. rewrite A, B, C. reflexivity. Qed.

Lemma lsim_intro t l1 l2 :
  lc l1 = lc l2 -> nbytes l1 = nbytes l2 ->
  (if tstate_eqb (st t) S_number then nl_eq (eff t l1) (eff t l2) else lnum l1 = None /\ lnum l2 = None) ->
  (add_like (st t) = true -> lobj l1 = lobj l2) -> lsim t l1 l2.
Proof. intros; repeat split; assumption. Qed.

Lemma emit_sim T u l1 l2 top0 below :
  stack T = top0 :: below -> str_like (s_saved top0) = true ->
  lc l1 = lc l2 -> nbytes l1 = nbytes l2 -> lnum l1 = None -> lnum l2 = None ->
  rsim (emit_unicode T u l1) (emit_unicode T u l2).
Proof.
  intros E Hs Hc Hn H1 H2. unfold emit_unicode.
  assert (Hsv : sv T = s_saved top0) by (unfold sv, top; rewrite E; reflexivity).
  repeat match goal with |- context [if ?b then _ else _] => destruct b end; cbn [rsim]; (split; [reflexivity|]);
    apply lsim_intro; try assumption; autorewrite with tokst; rewrite ?Hsv;
    destruct (s_saved top0); try discriminate Hs; cbn [tstate_eqb add_like]; try (split; assumption); intros; discriminate.
Qed.

Lemma finish_unicode_sim T l1 l2 top0 below :
  stack T = top0 :: below -> str_like (s_saved top0) = true ->
  lc l1 = lc l2 -> nbytes l1 = nbytes l2 -> lnum l1 = None -> lnum l2 = None ->
  rsim (finish_unicode T l1) (finish_unicode T l2).
Proof.
  intros E Hs Hc Hn H1 H2. unfold finish_unicode.
  eapply emit_sim; try eassumption. rewrite stack_resolve. autorewrite with tokstk. exact E.
Qed.

Section S.
Variable sb : list byte -> Z.

Lemma step1_sim t l1 l2 :
  wfs (stack t) = true -> lsim t l1 l2 -> rsim (step1 sb t l1) (step1 sb t l2).
Proof.
  intros Hw H. unfold lsim in H. destruct H as (Hc & Hn & Hnum & Hobj).
  destruct (stack t) as [|[s v cur nm] below] eqn:E; [discriminate|].
  assert (Htop : top t = mksrec s v cur nm) by (unfold top; rewrite E; reflexivity).
  assert (Hst : st t = s) by (unfold st; rewrite Htop; reflexivity).
  assert (Hsv : sv t = v) by (unfold sv; rewrite Htop; reflexivity).
  cbn [wfs s_state s_saved] in Hw. apply andb_true_iff in Hw. destruct Hw as [Ht Hb].
  rewrite Hst in Hnum, Hobj.
  unfold step1. rewrite Hst, <- Hc.
  destruct s; cbv iota; unfold fail.
  (* the four states that touch lobj / lnum are done by hand below; the rest generically *)
  23: {
    (* S_object_value_add: reads lobj *)
      cbn [tstate_eqb] in Hnum. destruct Hnum as [Hn1 Hn2]. rewrite (Hobj eq_refl). cbn [rsim]. split; [reflexivity|].
      apply lsim_intro; try assumption; autorewrite with tokst; cbn [s_state tstate_eqb add_like]; [split; assumption|intros; discriminate].
  }
  17: {
    (* S_array_add: reads lobj *)
      cbn [tstate_eqb] in Hnum. destruct Hnum as [Hn1 Hn2]. rewrite (Hobj eq_refl). cbn [rsim]. split; [reflexivity|].
      apply lsim_intro; try assumption; autorewrite with tokst; cbn [s_state tstate_eqb add_like]; [split; assumption|intros; discriminate].
  }
  15: {
    (* S_number: the locals only matter through is_exponent / neg_sign_ok / pos_sign_ok *)
      cbn [tstate_eqb] in Hnum. fold (eff t l1). fold (eff t l2).
      rewrite (num_char_ok_eq t (eff t l1) (eff t l2) (lc l1) Hnum).
      destruct (num_char_ok t (eff t l2) (lc l1)).
      + cbn [rsim]. split; [reflexivity|]. apply lsim_intro; cbn [lc nbytes lobj lnum]; [reflexivity|assumption| |].
        * match goal with |- context [st ?X] => replace (st X) with (st t) by (repeat match goal with |- context [if ?b then _ else _] => destruct b end; reflexivity) end.
          rewrite Hst. cbn [tstate_eqb]. destruct Hnum as (A & B & C). unfold eff in *; cbn [lnum] in *.
          repeat match goal with |- context [if ?b then _ else _] => destruct b end; repeat split; cbn; congruence.
        * match goal with |- context [st ?X] => replace (st X) with (st t) by (repeat match goal with |- context [if ?b then _ else _] => destruct b end; reflexivity) end.
          rewrite Hst. intros; discriminate.
      + repeat match goal with
               | |- context [if ?b then _ else _] => destruct b
               | |- context [match classify_number ?a ?x with _ => _ end] => destruct (classify_number a x)
               end; cbn [rsim]; (split; [reflexivity|]); try (split; cbn [lc nbytes]; [reflexivity|assumption]);
          apply lsim_intro; cbn [lc nbytes lobj lnum]; try assumption; try reflexivity; autorewrite with tokst;
          cbn [tstate_eqb add_like]; try (split; reflexivity); intros; discriminate.
  }
  11: {
    (* S_escape_unicode *)
      cbn [tstate_eqb] in Hnum. destruct Hnum as [Hn1 Hn2].
      unfold wf_top in Ht. cbn [ws_like esc_like andb] in Ht.
      destruct (negb (is_hex (lc l1))); cbn [rsim]; [split; [reflexivity|split; assumption]|].
      match goal with |- context [if ?b then _ else _] => destruct b end.
      + apply (finish_unicode_sim _ l1 l2 (mksrec S_escape_unicode v cur nm) below); assumption.
      + cbn [rsim]. split; [reflexivity|]. apply lsim_intro; try assumption; autorewrite with tokst; rewrite Hst;
          cbn [tstate_eqb add_like]; [split; assumption|intros; discriminate].
  }
  3: {
    (* S_finish: writes lobj *)
      cbn [tstate_eqb] in Hnum. destruct Hnum as [Hn1 Hn2]. rewrite E.
      destruct below as [|[ps pv pc pn] r]; cbn [rsim].
      + split; [reflexivity|split; assumption].
      + split; [reflexivity|]. apply lsim_intro; cbn [lc nbytes lobj lnum]; try assumption; try reflexivity.
        cbn [forallb s_state] in Hb. apply andb_true_iff in Hb. destruct Hb as [Hp _].
        replace (st (set_stack t ({| s_state := ps; s_saved := pv; s_cur := pc; s_name := pn |} :: r))) with ps by reflexivity.
        destruct ps; try discriminate Hp; cbn [tstate_eqb]; split; assumption.
  }
  all: cbn [tstate_eqb] in Hnum; destruct Hnum as [Hn1 Hn2].
  all: repeat match goal with
              | |- context [if ?b then _ else _] => destruct b
              | |- context [match stack ?x with _ => _ end] => rewrite E
              | |- context [match ?y with [] => _ | _ :: _ => _ end] => destruct y as [|[ps pv pc pn] below2]
              end; cbn [rsim]; (split; [reflexivity|]).
  all: try (split; assumption).
  all: try (apply lsim_intro; [exact Hc|exact Hn| |]).
  all: autorewrite with tokst; rewrite ?Hst, ?Hsv; cbn [s_state].
  all: try (destruct v; try discriminate Ht).
  all: cbn [tstate_eqb add_like].
  all: try (split; assumption).
  all: try (intros; discriminate).
  all: try (unfold eff; rewrite Hn1, Hn2; apply nl_eq_refl).
Qed.
End S.
