(* PatchProofs.v — C13: json_patch.c (PatchModel.v) against sequential RFC 6902 evaluation
   (PatchSpec.v).  Built on C12's results about json_pointer.c (PtrProofs.v, read only).

   Layout
     A  representation bound ([small]), strings
     B  one generic lemma: "walk to the container of the last token, edit there, rebuild"
        is the same in model and specification when the local edits correspond
     C  the local edits of add / replace / remove; the operations test, remove, add, replace
     D  move and copy
     E  one operation object; the induction over the operation list: [apply_conforms_partial]
     F  [patch_unchanged], [malformed_is_error]
     G  the two recorded deviations ([..._refuted]) and examples *)
From JC Require Import Base BaseLemmas Value PtrSpec PtrModel PtrProofs EqModel PatchSpec PatchModel.
Local Open Scope Z_scope.

(* ================================================================ A. representation bound *)

(* every array of the document has fewer than 2^32 elements: json_pointer_get_internal reports
   index_in_parent as a uint32_t, and (much weaker) array lengths are size_t values *)
Fixpoint small (v : jv) : bool :=
  match v with
  | JArr l => (zlen l <=? UINT32_MAX) && forallb small l
  | JObj ms => forallb (fun kv => small (snd kv)) ms
  | _ => true
  end.

Lemma small_step_repr n : small n = true -> step_repr n = true.
Proof.
  destruct n; try reflexivity. cbn [small step_repr]. intros H. apply andb_true_iff in H.
  destruct H as [H _]. unfold UINT32_MAX, SIZE_MAX in *. lia.
Qed.

(* the arithmetic of the bound, once *)
Lemma small_bounds n : 0 <= n <= UINT32_MAX ->
  (n >? SIZE_MAX - 1) = false /\ (n + 1 >? SIZE_MAX / 8) = false /\ (n =? SIZE_MAX) = false /\ (UINT64_MAX >? n) = true.
Proof.
  intros H. change (SIZE_MAX / 8) with 2305843009213693951. unfold SIZE_MAX, UINT64_MAX, UINT32_MAX in *.
  repeat split; lia.
Qed.

Lemma forallb_nth_error {A} (f : A -> bool) : forall (l : list A) n x,
  forallb f l = true -> nth_error l n = Some x -> f x = true.
Proof.
  induction l as [|a l IH]; intros [|n] x H E; cbn in *; try discriminate.
  - inversion E. subst. apply andb_true_iff in H. tauto.
  - apply andb_true_iff in H. destruct H. eauto.
Qed.

Lemma member_forallb (f : jv -> bool) : forall ms k c,
  forallb (fun kv => f (snd kv)) ms = true -> member ms k = Some c -> f c = true.
Proof.
  unfold member. induction ms as [|[k' v] r IH]; intros k c H E; cbn in *; [discriminate|].
  apply andb_true_iff in H. destruct H as [Hv Hr].
  destruct (bytes_eqb k' k).
  - inversion E. subst. exact Hv.
  - eapply IH; eauto.
Qed.

Lemma small_child n tok st c : get_single_path n tok = SPOk st c -> small n = true -> small c = true.
Proof.
  intros S H.
  destruct (gsp_ok_inv _ _ _ _ S) as [(l & idx & sat & -> & _ & -> & E) | (ms & -> & _ & -> & E)].
  - cbn [small] in H. apply andb_true_iff in H. destruct H as [_ H].
    pose proof (znth_some_range _ _ _ E). rewrite znth_nat in E by lia. eapply forallb_nth_error; eauto.
  - cbn [small] in H. eapply (member_forallb small); eauto.
Qed.

Lemma small_walk : forall toks n p x, get_walk n toks = GOk p x -> small n = true -> small x = true.
Proof.
  induction toks as [|tok rest IH]; intros n p x; cbn [get_walk].
  - intros H. inversion H. auto.
  - destruct (get_single_path n tok) as [st c|] eqn:S; [|discriminate].
    destruct (get_walk c rest) as [q y|] eqn:W; [|discriminate]. intros H Hs. inversion H. subst.
    eapply IH; eauto. eapply small_child; eauto.
Qed.

Lemma small_walk_repr : forall toks n, small n = true -> walk_repr n toks = true.
Proof.
  induction toks as [|tok rest IH]; intros n H; [reflexivity|]. cbn [walk_repr].
  rewrite (small_step_repr _ H). cbn [andb].
  destruct (get_single_path n tok) as [st c|] eqn:S; [|reflexivity].
  apply IH. eapply small_child; eauto.
Qed.

Lemma small_get_repr t p : small t = true -> get_repr t p = true.
Proof.
  intros H. destruct p as [|c s]; [reflexivity|]. cbn [get_repr]. destruct (c =? 47); [|reflexivity].
  apply small_walk_repr. exact H.
Qed.

(* [small] is kept by replacing a subtree by a small one *)
Lemma small_map_member k f : forall ms,
  forallb (fun kv => small (snd kv)) ms = true ->
  (forall c, small c = true -> small (f c) = true) ->
  forallb (fun kv => small (snd kv)) (map_member k f ms) = true.
Proof.
  induction ms as [|[k' v] r IH]; intros H Hf; [reflexivity|]. cbn [map_member].
  cbn [forallb snd] in H. apply andb_true_iff in H. destruct H as [Hv Hr].
  destruct (bytes_eqb k' k); cbn [forallb snd].
  - rewrite Hr, Hf by exact Hv. reflexivity.
  - rewrite Hv, IH by auto. reflexivity.
Qed.

Lemma small_map_nth f : forall n l,
  forallb small l = true -> (forall c, small c = true -> small (f c) = true) ->
  forallb small (map_nth n f l) = true.
Proof.
  induction n as [|n IH]; intros [|x l] H Hf; try reflexivity; cbn [map_nth forallb] in *;
    apply andb_true_iff in H; destruct H as [Hx Hl].
  - rewrite Hf, Hl by auto. reflexivity.
  - rewrite Hx, IH by auto. reflexivity.
Qed.

Lemma small_subst : forall path new t,
  small t = true -> small new = true -> small (subst_at path new t) = true.
Proof.
  induction path as [|st r IH]; intros new t Ht Hn; [exact Hn|]. cbn [subst_at].
  destruct st as [k|i]; destruct t; try exact Ht.
  - cbn [small] in *. apply small_map_member; auto.
  - destruct (i <? 0); [exact Ht|]. cbn [small] in *. apply andb_true_iff in Ht. destruct Ht as [Hl Hc].
    rewrite zlen_map_nth, Hl. cbn [andb]. apply small_map_nth; auto.
Qed.

Lemma forallb_split {A} (f : A -> bool) n (l : list A) :
  forallb f l = true -> forallb f (firstn n l) = true /\ forallb f (skipn n l) = true.
Proof.
  intros H. rewrite <- (firstn_skipn n l), forallb_app in H. apply andb_true_iff in H. exact H.
Qed.

(* ---------------------------------------------------------------- strings *)

(* json_patch_unescape_token is the RFC's single unescaping pass *)
Lemma unescape_token_cons2 c d u :
  unescape_token (c :: d :: u) =
  if (c =? 126) && ((d =? 48) || (d =? 49)) then (if d =? 49 then 47 else 126) :: unescape_token u
  else c :: unescape_token (d :: u).
Proof. reflexivity. Qed.

Lemma unescape_token_aux : forall n s, (length s <= n)%nat -> unescape_token s = unescape s.
Proof.
  induction n as [|n IH]; intros s Hl.
  - destruct s; [reflexivity|cbn in Hl; lia].
  - destruct s as [|c [|d u]]; [reflexivity| |].
    + cbn. destruct (c =? 126); reflexivity.
    + rewrite unescape_token_cons2, unescape_cons2. cbn [length] in Hl.
      destruct (c =? 126) eqn:Ec; cbn [andb].
      * destruct (d =? 48) eqn:E0; cbn [orb].
        { replace (d =? 49) with false by lia. rewrite IH by lia. reflexivity. }
        destruct (d =? 49) eqn:E1.
        { rewrite IH by lia. reflexivity. }
        rewrite IH by (cbn [length]; lia). reflexivity.
      * rewrite IH by (cbn [length]; lia). reflexivity.
Qed.

Lemma unescape_token_spec s : unescape_token s = unescape s.
Proof. eapply unescape_token_aux. apply le_n. Qed.

Lemma remove_key_name tok : remove_key tok = unescape_in_place tok.
Proof. unfold remove_key. rewrite unescape_token_spec, unescape_two_pass_eq_single. reflexivity. Qed.

Lemma object_del_remove_member ms k : object_del ms k = remove_member k ms.
Proof. induction ms as [|[k' v] r IH]; [reflexivity|]. cbn. rewrite IH. reflexivity. Qed.

Lemma small_object_del k : forall ms,
  forallb (fun kv => small (snd kv)) ms = true -> forallb (fun kv => small (snd kv)) (object_del ms k) = true.
Proof.
  induction ms as [|[k' v] r IH]; intros H; [reflexivity|]. cbn [object_del].
  cbn [forallb snd] in H. apply andb_true_iff in H. destruct H as [Hv Hr].
  destruct (bytes_eqb k' k); [exact Hr|]. cbn [forallb snd]. rewrite Hv, IH by auto. reflexivity.
Qed.

(* ================================================================ B. the generic edit *)

(* what json_pointer_set_with_array_cb and json_pointer_get_internal + a local change have in
   common, on the reference tokens of "/" ++ s *)
Definition model_edit (g : jv -> list byte -> sres) (t : jv) (s : list byte) : sres :=
  match get_walk t (removelast (split_slash s)) with
  | GErr e => SErr e
  | GOk ppath parent =>
      match g parent (last (split_slash s) []) with
      | SErr e => SErr e
      | SOk parent' => SOk (subst_at ppath parent' t)
      end
  end.

Lemma set_is_model_edit cb al t s v :
  ptr_set_with_array_cb cb al t (47 :: s) v = model_edit (fun parent tok => set_single_path cb al parent tok v) t s.
Proof. apply ptr_set_unfold. Qed.

Lemma edit_walk_app f : forall ptoks n tok,
  edit_walk f n (ptoks ++ [tok]) =
  match spec_walk n ptoks with
  | None => None
  | Some (path, parent) =>
      match f parent tok with
      | None => None
      | Some parent' => Some (subst_at path parent' n)
      end
  end.
Proof.
  induction ptoks as [|a r IH]; intros n tok.
  - cbn. destruct (f n tok); reflexivity.
  - cbn [app edit_walk spec_walk].
    destruct (r ++ [tok]) as [|b r'] eqn:E; [apply app_eq_nil in E; destruct E; discriminate|]. rewrite <- E.
    destruct (spec_step n a) as [[st c]|] eqn:S; [|reflexivity].
    rewrite IH. destruct (spec_walk c r) as [[path parent]|]; [|reflexivity].
    destruct (f parent tok) as [parent'|]; [|reflexivity].
    rewrite (subst_put_child _ _ _ _ _ _ S). reflexivity.
Qed.

(* the local edits correspond: on a small container the model's succeeds exactly when the
   specification's does and the token is of the RFC 6901 syntax, with the same result *)
Definition local_ok (g : jv -> list byte -> sres) (f : jv -> list byte -> option jv) : Prop :=
  forall parent tok, small parent = true ->
    match g parent tok with
    | SOk p' => f parent tok = Some p' /\ escapes_ok tok = true
    | SErr _ => f parent tok = None \/ escapes_ok tok = false
    end.

Lemma edit_at_slash f root t s :
  edit_at f root t (47 :: s) =
  if forallb escapes_ok (split_slash s) then edit_walk f t (split_slash s) else None.
Proof.
  unfold edit_at, parse_pointer. cbn [Z.eqb Pos.eqb]. rewrite tokenize_split.
  destruct (forallb escapes_ok (split_slash s)); [|reflexivity].
  pose proof (split_slash_nonempty s). destruct (split_slash s); [congruence|reflexivity].
Qed.

Lemma edit_conforms g f root t s :
  local_ok g f -> small t = true ->
  match model_edit g t s with
  | SOk t' => edit_at f root t (47 :: s) = Some t'
  | SErr _ => edit_at f root t (47 :: s) = None
  end.
Proof.
  intros L Hs. rewrite edit_at_slash. unfold model_edit.
  pose proof (tokens_split_last s) as Ht. set (toks := split_slash s) in *.
  set (ptoks := removelast toks) in *. set (tok := last toks []) in *. clearbody ptoks tok. rewrite Ht.
  rewrite forallb_app, edit_walk_app. cbn [forallb].
  pose proof (walk_conforms ptoks t (small_walk_repr _ _ Hs)) as W.
  destruct (get_walk t ptoks) as [ppath parent|e] eqn:G.
  - destruct W as [W Ep]. rewrite W, Ep. cbn [andb].
    pose proof (L parent tok (small_walk _ _ _ _ G Hs)) as P.
    destruct (g parent tok) as [p'|e].
    + destruct P as [P Et]. rewrite P, Et. reflexivity.
    + destruct P as [P|P]; rewrite P.
      * destruct (escapes_ok tok && true); reflexivity.
      * reflexivity.
  - destruct W as [_ [W|W]]; rewrite W.
    + destruct (forallb escapes_ok ptoks && (escapes_ok tok && true)); reflexivity.
    + reflexivity.
Qed.

(* ================================================================ C. local edits; test, remove, add, replace *)

Section Ops.
  (* allocation does not fail (C08 is about the case where it does) *)
  Variable al : alloc.
  Hypothesis Hal : forall n, al n = true.

  (* ---- add: json_pointer_set_single_path with the inserting callback = RFC 6902 section 4.1 *)
  Lemma add_local v :
    local_ok (fun parent tok => set_single_path (insert_idx_cb true) al parent tok v) (add_child v).
  Proof.
    intros parent tok Hs. unfold set_single_path, add_child.
    destruct parent as [| | | | | |l|ms]; auto.
    - cbn [small] in Hs. apply andb_true_iff in Hs. destruct Hs as [Hl _]. apply Z.leb_le in Hl.
      pose proof (zlen_nonneg l) as Hn.
      destruct (small_bounds (zlen l) (conj Hn Hl)) as (B1 & B2 & B3 & B4).
      change (is_minus tok) with (is_dash tok). destruct (is_dash tok) eqn:Ed.
      + unfold array_add. rewrite Hal. split; [reflexivity|]. apply dash_escapes_ok; exact Ed.
      + destruct (array_index tok) as [i|] eqn:Ei.
        * destruct (index_some _ _ Ei) as (Hi & Hne & Hv). rewrite Hv. clear Hv.
          destruct (i >? UINT64_MAX) eqn:Esat.
          { unfold insert_idx_cb. rewrite B4. left.
            replace (i <=? zlen l) with false; [reflexivity|].
            symmetry. apply Z.leb_gt. apply Z.gtb_lt in Esat, B4. lia. }
          clear Esat. unfold insert_idx_cb. destruct (i >? zlen l) eqn:E1.
          { left. replace (i <=? zlen l) with false by lia. reflexivity. }
          replace (i <=? zlen l) with true by lia. unfold array_insert.
          destruct (i >=? zlen l) eqn:E2.
          { assert (i = zlen l) by lia. subst i. unfold array_put_idx_cb.
            rewrite B1, Z.ltb_irrefl, B2, Hal. cbn [einval_on_fail]. rewrite array_put_append.
            split; [|eapply index_escapes_ok; eauto].
            unfold insert_at. rewrite zfirstn_all, zskipn_all by lia. reflexivity. }
          rewrite B3, Hal. cbn [einval_on_fail]. split; [reflexivity|]. eapply index_escapes_ok; eauto.
        * rewrite (index_none _ Ei). auto.
    - rewrite is_valid_escaping_ok. destruct (escapes_ok tok) eqn:E; cbn [negb]; [|auto].
      rewrite unescape_two_pass_eq_single, object_add_upsert. auto.
  Qed.

  (* ---- replace: the target must exist; then put_idx / object_add put the value there *)
  Definition g_replace (v : jv) (parent : jv) (tok : list byte) : sres :=
    match get_single_path parent tok with
    | SPErr e => SErr e
    | SPOk _ _ => set_single_path (insert_idx_cb false) al parent tok v
    end.

  Lemma dash_no_index tok idx sat : is_valid_index tok = IOk idx sat -> is_dash tok = false.
  Proof.
    destruct tok as [|c [|d r]]; try reflexivity. cbn [is_dash]. destruct (c =? 45) eqn:E; [|reflexivity].
    apply Z.eqb_eq in E. subst c. cbn. discriminate.
  Qed.

  Lemma replace_local v : local_ok (g_replace v) (replace_child v).
  Proof.
    intros parent tok Hs. unfold g_replace, replace_child.
    pose proof (step_conforms parent tok (small_step_repr _ Hs)) as S.
    destruct (get_single_path parent tok) as [st c|e] eqn:G.
    - destruct S as [S Es]. rewrite S.
      destruct (gsp_ok_inv _ _ _ _ G) as [(l & idx & sat & -> & V & -> & E) | (ms & -> & V & -> & E)].
      + unfold set_single_path. rewrite (dash_no_index _ _ _ V), V.
        cbn [small] in Hs. apply andb_true_iff in Hs. destruct Hs as [Hl _]. apply Z.leb_le in Hl.
        pose proof (znth_some_range _ _ _ E) as R. unfold insert_idx_cb.
        replace (idx >? zlen l) with false by lia. unfold array_put_idx_cb.
        destruct (small_bounds idx ltac:(lia)) as (B1 & _). rewrite B1.
        replace (idx <? zlen l) with true by lia. cbn [einval_on_fail put_child].
        rewrite array_put_arr_put by lia. auto.
      + unfold set_single_path. rewrite V. cbn [negb put_child].
        rewrite object_add_upsert. unfold upsert. rewrite E. auto.
    - destruct S as [_ [S|S]]; [rewrite S|]; auto.
  Qed.

  (* ---- remove: the child must exist; array_list_del_idx / json_object_object_del take it out *)
  Definition drop_child (parent : jv) (st : PtrModel.step) : jv :=
    match parent, st with
    | JArr l, inr i => JArr (zfirstn i l ++ zskipn (i + 1) l)
    | JObj ms, inl k => JObj (object_del ms k)
    | _, _ => parent
    end.

  Definition g_remove (parent : jv) (tok : list byte) : sres :=
    match get_single_path parent tok with
    | SPErr e => SErr e
    | SPOk st _ => SOk (drop_child parent st)
    end.

  Lemma remove_local : local_ok g_remove del_child.
  Proof.
    intros parent tok Hs. unfold g_remove, del_child.
    pose proof (step_conforms parent tok (small_step_repr _ Hs)) as S.
    destruct (get_single_path parent tok) as [st c|e] eqn:G.
    - destruct S as [S Es]. rewrite S.
      destruct (gsp_ok_inv _ _ _ _ G) as [(l & idx & sat & -> & V & -> & E) | (ms & -> & V & -> & E)];
        cbn [drop_child]; rewrite ?object_del_remove_member; auto.
    - destruct S as [_ [S|S]]; [rewrite S|]; auto.
  Qed.

  Lemma small_drop_child parent st : small parent = true -> small (drop_child parent st) = true.
  Proof.
    intros H. destruct parent as [| | | | | |l|ms], st as [k|i]; cbn [drop_child]; try exact H.
    - cbn [small] in *. apply andb_true_iff in H. destruct H as [Hl Hc].
      unfold zfirstn, zskipn. rewrite forallb_app.
      destruct (forallb_split small (Z.to_nat i) l Hc) as [H1 _].
      destruct (forallb_split small (Z.to_nat (i + 1)) l Hc) as [_ H2]. rewrite H1, H2.
      assert (zlen (firstn (Z.to_nat i) l ++ skipn (Z.to_nat (i + 1)) l) <= zlen l).
      { rewrite !zlen_length, app_length, firstn_length, skipn_length. lia. }
      replace (zlen (firstn (Z.to_nat i) l ++ skipn (Z.to_nat (i + 1)) l) <=? UINT32_MAX) with true by lia.
      reflexivity.
    - cbn [small] in *. apply small_object_del. exact H.
  Qed.

  (* ---- the pointer lookups of the operations *)
  Lemma not_null_is_null t : t <> JNull -> is_null t = false.
  Proof. destruct t; congruence || reflexivity. Qed.

  Lemma lookup_conforms doc p : doc <> JNull -> small doc = true ->
    match ptr_get doc p with
    | GOk path n => spec_get doc p = Some (path, n)
    | GErr _ => spec_get doc p = None
    end.
  Proof.
    intros Hn Hs. pose proof (get_conforms doc p Hn (small_get_repr _ _ Hs)) as G.
    destruct (ptr_get doc p); tauto.
  Qed.

  (* ---- add *)
  Lemma add_conforms doc p v : small doc = true ->
    match ptr_set_with_array_cb (insert_idx_cb true) al doc p v with
    | SOk d => rfc_add doc p v = Some d
    | SErr _ => rfc_add doc p v = None
    end.
  Proof.
    intros Hs. destruct p as [|c s]; [reflexivity|]. destruct (c =? 47) eqn:Ec.
    - apply Z.eqb_eq in Ec. subst c. rewrite set_is_model_edit. apply edit_conforms; [apply add_local|exact Hs].
    - unfold ptr_set_with_array_cb. rewrite Ec. cbn [negb]. unfold rfc_add, edit_at, parse_pointer. rewrite Ec. reflexivity.
  Qed.

  (* ---- replace *)
  Definition model_replace (doc : jv) (p : list byte) (v : jv) : sres :=
    match ptr_get doc p with
    | GErr e => SErr e
    | GOk _ _ => ptr_set_with_array_cb (insert_idx_cb false) al doc p v
    end.

  Lemma replace_conforms doc p v : doc <> JNull -> small doc = true ->
    match model_replace doc p v with
    | SOk d => rfc_replace doc p v = Some d
    | SErr _ => rfc_replace doc p v = None
    end.
  Proof.
    intros Hn Hs. unfold model_replace. destruct p as [|c s].
    - unfold ptr_get. rewrite (not_null_is_null _ Hn). reflexivity.
    - destruct (c =? 47) eqn:Ec.
      + apply Z.eqb_eq in Ec. subst c.
        assert (F : match ptr_get doc (47 :: s) with
                    | GErr e => SErr e
                    | GOk _ _ => ptr_set_with_array_cb (insert_idx_cb false) al doc (47 :: s) v
                    end = model_edit (g_replace v) doc s).
        { unfold ptr_get. rewrite (not_null_is_null _ Hn). unfold get_recursive. cbn [Z.eqb Pos.eqb].
          rewrite set_is_model_edit. unfold model_edit, g_replace.
          pose proof (tokens_split_last s) as Ht.
          set (ptoks := removelast (split_slash s)) in *. set (tok := last (split_slash s) []) in *.
          rewrite Ht, walk_app. destruct (get_walk doc ptoks) as [pp parent|e]; [|reflexivity].
          cbn [get_walk]. destruct (get_single_path parent tok) as [st c|e]; reflexivity. }
        rewrite F. apply edit_conforms; [apply replace_local|exact Hs].
      + unfold ptr_get. rewrite (not_null_is_null _ Hn). unfold get_recursive. rewrite Ec.
        unfold rfc_replace, edit_at, parse_pointer. rewrite Ec. reflexivity.
  Qed.

  (* ---- remove (also the first half of move) *)
  Lemma remove_conforms doc p : doc <> JNull -> small doc = true ->
    match ptr_get_internal doc p with
    | GIErr _ => rfc_remove doc p = None
    | GIOk r => exists d, remove_result doc r = Some d /\ rfc_remove doc p = Some d /\ small d = true
    end.
  Proof.
    intros Hn Hs. unfold ptr_get_internal. rewrite (not_null_is_null _ Hn). destruct p as [|c s].
    - exists JNull. auto.
    - destruct (c =? 47) eqn:Ec.
      2:{ unfold rfc_remove, edit_at, parse_pointer. rewrite Ec. reflexivity. }
      apply Z.eqb_eq in Ec. subst c.
      pose proof (edit_conforms g_remove del_child (Some JNull) doc s remove_local Hs) as E.
      unfold model_edit in E. fold (rfc_remove doc (47 :: s)) in E.
      pose proof (tokens_split_last s) as Ht.
      set (ptoks := removelast (split_slash s)) in *. set (tok := last (split_slash s) []) in *.
      rewrite Ht, walk_app.
      destruct (get_walk doc ptoks) as [ppath parent|e] eqn:G; [|exact E].
      cbn [get_walk]. unfold g_remove in E.
      destruct (get_single_path parent tok) as [st c|e] eqn:S; [|exact E].
      exists (subst_at ppath (drop_child parent st) doc).
      assert (Hp : small parent = true) by (eapply small_walk; eauto).
      split; [|split; [exact E|]].
      + unfold remove_result. cbn [r_parent r_key_in_parent r_index_in_parent].
        destruct (gsp_ok_inv _ _ _ _ S) as [(l & idx & sat & -> & V & -> & Ex) | (ms & -> & V & -> & Ex)].
        * cbn [is_array is_object drop_child]. rewrite last_last.
          cbn [small] in Hp. apply andb_true_iff in Hp. destruct Hp as [Hl _]. apply Z.leb_le in Hl.
          pose proof (znth_some_range _ _ _ Ex) as R.
          assert (Hm : idx mod 4294967296 = idx) by (apply Z.mod_small; unfold UINT32_MAX in Hl; lia).
          rewrite Hm. unfold array_del_idx.
          destruct (small_bounds idx ltac:(lia)) as (B1 & _). rewrite B1.
          replace ((idx >=? zlen l) || (idx + 1 >? zlen l)) with false by lia. reflexivity.
        * cbn [is_array is_object drop_child]. rewrite remove_key_name. reflexivity.
      + apply small_subst; [exact Hs|]. apply small_drop_child. exact Hp.
  Qed.

  (* ================================================================ D. move and copy *)

  (* how an operation of the model and of the specification relate: both succeed with the
     same document, or both are in error *)
  Definition agree (m : opres) (s : option jv) : Prop :=
    match m, s with
    | OOk d, Some d' => d = d'
    | OErr _ _, None => True
    | _, _ => False
    end.

  (* the test on the two strings, for a non-empty "from" *)
  Definition pv_core (from p : list byte) : verdict :=
    if is_prefix from p then
      match skipn (length from) p with
      | [] => VSame
      | c :: _ => if c =? 47 then VChild else VNone
      end
    else VNone.

  Lemma pv_core_spec : forall from p,
    match pv_core from p with
    | VSame => from = p
    | VChild => strictly_extends from p = true
    | VNone => strictly_extends from p = false /\ from <> p
    end.
  Proof.
    induction from as [|a f IH]; intros p.
    - unfold pv_core. cbn [is_prefix length skipn]. destruct p as [|c r]; [reflexivity|].
      cbn [strictly_extends]. destruct (c =? 47); [reflexivity|]. split; [reflexivity|discriminate].
    - destruct p as [|b q].
      + unfold pv_core. cbn. split; [reflexivity|discriminate].
      + specialize (IH q). unfold pv_core in *. cbn [is_prefix length skipn strictly_extends].
        destruct (a =? b) eqn:E; cbn [andb].
        * apply Z.eqb_eq in E. subst b. destruct (is_prefix f q).
          { destruct (skipn (length f) q) as [|c r].
            - subst. reflexivity.
            - destruct (c =? 47); [exact IH|]. destruct IH as [I1 I2]. split; [exact I1|congruence]. }
          destruct IH as [I1 I2]. split; [exact I1|congruence].
        * split; [reflexivity|]. intros H. inversion H. lia.
  Qed.

  Lemma prefix_verdict_move from p :
    prefix_verdict true from p =
    match from with
    | [] => match p with [] => VSame | _ :: _ => VChild end
    | _ :: _ => pv_core from p
    end.
  Proof.
    destruct from as [|a f].
    - unfold prefix_verdict. cbn [andb is_prefix length skipn zlen Z.eqb]. destruct p as [|c r]; [reflexivity|].
      rewrite orb_true_r. reflexivity.
    - unfold prefix_verdict, pv_core. cbn [andb]. rewrite zlen_zero_cons.
      destruct (is_prefix (a :: f) p); [|reflexivity].
      destruct (skipn (length (a :: f)) p) as [|c r]; [reflexivity|]. rewrite orb_false_r. reflexivity.
  Qed.

  Lemma strictly_extends_irrefl : forall s, strictly_extends s s = false.
  Proof. induction s as [|a s IH]; [reflexivity|]. cbn. rewrite Z.eqb_refl. exact IH. Qed.

  Lemma lookup_internal_conforms doc p : doc <> JNull -> small doc = true ->
    match ptr_get_internal doc p with
    | GIOk r => exists path, spec_get doc p = Some (path, r_obj r)
    | GIErr _ => spec_get doc p = None
    end.
  Proof.
    intros Hn Hs. pose proof (get_internal_get doc p) as G. pose proof (lookup_conforms doc p Hn Hs) as L.
    destruct (ptr_get_internal doc p) as [r|e]; rewrite G in L; eauto.
  Qed.

  Lemma copy_conforms doc from p : doc <> JNull -> small doc = true ->
    agree (move_copy_strings al doc from p false) (rfc_copy doc from p).
  Proof.
    intros Hn Hs. unfold move_copy_strings, rfc_copy. cbn [prefix_verdict andb].
    pose proof (lookup_internal_conforms doc from Hn Hs) as L.
    destruct (ptr_get_internal doc from) as [r|e].
    - destruct L as [path L]. rewrite L. unfold placed_value.
      pose proof (add_conforms doc p (r_obj r) Hs) as A.
      destruct (ptr_set_with_array_cb (insert_idx_cb true) al doc p (r_obj r)); rewrite A; cbn; auto.
    - rewrite L. exact I.
  Qed.

  Lemma move_conforms doc from p : doc <> JNull -> small doc = true ->
    agree (move_copy_strings al doc from p true) (rfc_move doc from p).
  Proof.
    intros Hn Hs. unfold move_copy_strings, rfc_move. rewrite prefix_verdict_move.
    unfold same_location_needs_lookup. cbn [negb].
    pose proof (lookup_internal_conforms doc from Hn Hs) as L.
    pose proof (remove_conforms doc from Hn Hs) as R.
    destruct from as [|a f].
    - (* "from" is the whole document *)
      destruct p as [|c r].
      + cbn [andb strictly_extends]. destruct (ptr_get_internal doc []) as [r|e].
        * destruct L as [path L]. rewrite L. reflexivity.
        * rewrite L. exact I.
      + cbn [strictly_extends]. destruct (c =? 47) eqn:Ec; [exact I|].
        unfold spec_get, parse_pointer. cbn [spec_walk bytes_eqb].
        unfold rfc_remove, rfc_add, edit_at, parse_pointer. rewrite Ec. exact I.
    - pose proof (pv_core_spec (a :: f) p) as V. destruct (pv_core (a :: f) p).
      + (* onto itself *) subst p. rewrite strictly_extends_irrefl. cbn [andb].
        destruct (ptr_get_internal doc (a :: f)) as [r|e].
        * destruct L as [path L]. rewrite L, bytes_eqb_refl. reflexivity.
        * rewrite L. exact I.
      + rewrite V. exact I.
      + destruct V as [V1 V2]. rewrite V1. cbn [andb].
        destruct (ptr_get_internal doc (a :: f)) as [r|e].
        * destruct L as [path L]. rewrite L.
          replace (bytes_eqb (a :: f) p) with false by (symmetry; apply bytes_eqb_neq; exact V2).
          destruct R as (d1 & R1 & R2 & R3). rewrite R1, R2.
          change move_cb with (insert_idx_cb true).
          pose proof (add_conforms d1 p (r_obj r) R3) as A.
          destruct (ptr_set_with_array_cb (insert_idx_cb true) al d1 p (r_obj r)); rewrite A; cbn; auto.
        * rewrite L. exact I.
  Qed.

  (* ================================================================ E. one operation; the list *)

  (* the first recorded deviation: json_object_equal is not the RFC's equality on numbers of
     different representation.  [test_agrees]: this "test" operation does not run into it. *)
  Definition test_agrees (doc o : jv) : bool :=
    match op_string o n_op, op_string o n_path, op_member o n_value with
    | Some op, Some p, Some v =>
        if bytes_eqb op n_test then
          match spec_get doc p with
          | Some (_, n) => Bool.eqb (rfc_equal v n) (jv_equal v n)
          | None => true
          end
        else true
    | _, _, _ => true
    end.

  (* the guard of one step: representation bound; the document is not JSON null (second
     recorded deviation: the NULL pointer is no document for json_pointer_get); no test
     across number representations *)
  Definition step_guard (doc o : jv) : bool :=
    small doc && negb (is_null doc) && test_agrees doc o.

  Lemma null_path_errors doc elem op :
    agree (if bytes_eqb op s_test then apply_test doc elem None
           else if bytes_eqb op s_remove then apply_remove doc None
           else if bytes_eqb op s_add then apply_add_replace al doc elem None true
           else if bytes_eqb op s_replace then apply_add_replace al doc elem None false
           else if bytes_eqb op s_move then apply_move_copy al doc elem None true
           else if bytes_eqb op s_copy then apply_move_copy al doc elem None false
           else OErr EINVAL doc) None.
  Proof.
    assert (T : agree (apply_test doc elem None) None).
    { unfold apply_test. destruct (field elem s_value); exact I. }
    assert (R : agree (apply_remove doc None) None) by exact I.
    assert (A : forall add, agree (apply_add_replace al doc elem None add) None).
    { intros add. unfold apply_add_replace. destruct (field elem s_value); [|exact I]. destruct add; exact I. }
    assert (M : forall move, agree (apply_move_copy al doc elem None move) None).
    { intros move. unfold apply_move_copy. destruct (field elem s_from) as [j|]; [|exact I]. destruct j; exact I. }
    repeat match goal with |- context [if ?b then _ else _] => destruct b end; auto; exact I.
  Qed.

  Lemma apply_op_conforms doc o : step_guard doc o = true -> agree (apply_op al doc o) (spec_op doc o).
  Proof.
    unfold step_guard. intros G. apply andb_true_iff in G. destruct G as [G Gt].
    apply andb_true_iff in G. destruct G as [Hs Hn].
    assert (Hnn : doc <> JNull) by (destruct doc; cbn in Hn; congruence).
    unfold apply_op, spec_op, test_agrees, op_string, op_member in *.
    destruct o as [| | | | | |l|ms]; try exact I.
    cbn [field]. rewrite !object_get_member.
    change s_op with n_op. change s_path with n_path.
    destruct (member ms n_op) as [jop|] eqn:Eop; [|exact I].
    destruct jop as [| | | | |op| |]; cbn [op_field];
      try (destruct (member ms n_path) as [[]|]; exact I).
    destruct (member ms n_path) as [jpath|] eqn:Ep; [|exact I].
    destruct jpath as [| | | | |p| |]; cbn [path_field]; try exact I.
    { apply null_path_errors. }
    change s_test with n_test. change s_remove with n_remove. change s_add with n_add.
    change s_replace with n_replace. change s_move with n_move. change s_copy with n_copy.
    destruct (bytes_eqb op n_test) eqn:Etest.
    { (* test *)
      unfold apply_test. cbn [field get_c]. rewrite object_get_member. change s_value with n_value.
      destruct (member ms n_value) as [v|] eqn:Ev; [|exact I].
      pose proof (lookup_conforms doc p Hnn Hs) as L. unfold rfc_test.
      destruct (ptr_get doc p) as [path n|e]; rewrite L in *; [|exact I].
      apply eqb_prop in Gt. rewrite Gt. destruct (jv_equal v n); cbn; auto. }
    destruct (bytes_eqb op n_remove) eqn:Eremove.
    { (* remove *)
      unfold apply_remove. cbn [get_internal_c].
      pose proof (remove_conforms doc p Hnn Hs) as R.
      destruct (ptr_get_internal doc p) as [r|e].
      - destruct R as (d & R1 & R2 & _). rewrite R1, R2. reflexivity.
      - rewrite R. exact I. }
    destruct (bytes_eqb op n_add) eqn:Eadd.
    { (* add *)
      unfold apply_add_replace. cbn [field set_c]. rewrite object_get_member. change s_value with n_value.
      destruct (member ms n_value) as [v|]; [|exact I]. unfold placed_value.
      pose proof (add_conforms doc p v Hs) as A.
      destruct (ptr_set_with_array_cb (insert_idx_cb true) al doc p v); rewrite A; cbn; auto. }
    destruct (bytes_eqb op n_replace) eqn:Ereplace.
    { (* replace *)
      unfold apply_add_replace. cbn [field set_c get_c]. rewrite object_get_member. change s_value with n_value.
      destruct (member ms n_value) as [v|]; [|exact I]. unfold placed_value.
      pose proof (replace_conforms doc p v Hnn Hs) as R. unfold model_replace in R.
      destruct (ptr_get doc p) as [path n|e].
      - destruct (ptr_set_with_array_cb (insert_idx_cb false) al doc p v); rewrite R; cbn; auto.
      - rewrite R. exact I. }
    destruct (bytes_eqb op n_move) eqn:Emove.
    { (* move *)
      unfold apply_move_copy. cbn [field]. rewrite object_get_member. change s_from with n_from.
      destruct (member ms n_from) as [jf|]; [|exact I].
      destruct jf as [| | | | |from| |]; cbn [from_field]; try exact I.
      apply move_conforms; assumption. }
    destruct (bytes_eqb op n_copy) eqn:Ecopy.
    { (* copy *)
      unfold apply_move_copy. cbn [field]. rewrite object_get_member. change s_from with n_from.
      destruct (member ms n_from) as [jf|]; [|exact I].
      destruct jf as [| | | | |from| |]; cbn [from_field]; try exact I.
      apply copy_conforms; assumption. }
    exact I.
  Qed.

  (* how the two runs relate: both complete with the same document, or both stop at the same
     operation *)
  Definition pagree (m : pres) (s : spres) : Prop :=
    match m, s with
    | PDone d, SDone d' => d = d'
    | PFail i _ _, SFail i' => i = i'
    | _, _ => False
    end.

  (* a guard holds along the run: for every operation that RFC 6902 evaluation reaches, on the
     document it reaches it with *)
  Fixpoint run_guard (g : jv -> jv -> bool) (ops : list jv) (doc : jv) : bool :=
    match ops with
    | [] => true
    | o :: rest =>
        g doc o && match spec_op doc o with
                   | Some doc' => run_guard g rest doc'
                   | None => true
                   end
    end.

  Lemma apply_ops_conforms : forall ops i doc,
    run_guard step_guard ops doc = true -> pagree (apply_ops al ops i doc) (spec_ops ops i doc).
  Proof.
    induction ops as [|o rest IH]; intros i doc G; [reflexivity|].
    cbn [run_guard] in G. apply andb_true_iff in G. destruct G as [G1 G2].
    pose proof (apply_op_conforms doc o G1) as A. cbn [apply_ops spec_ops].
    destruct (apply_op al doc o) as [d|e d|], (spec_op doc o) as [d'|]; cbn in A; try contradiction.
    - subst d'. apply IH. exact G2.
    - reflexivity.
  Qed.

  Theorem apply_conforms_guarded : forall target ops,
    target <> JNull -> run_guard step_guard ops target = true ->
    pagree (patch_apply al target (JArr ops)) (spec_ops ops 0 target).
  Proof.
    intros target ops Hn G. unfold patch_apply. rewrite (not_null_is_null _ Hn). apply apply_ops_conforms. exact G.
  Qed.
End Ops.

(* ================================================================ F. the patch document; malformed patches *)

(* The model has value semantics and [patch_apply_full] returns the patch document it was
   given: "the patch document itself is never modified" holds trivially here.  What makes it
   a statement about json_patch.c is (a) the repaired code copies values out of the patch
   document instead of linking its nodes into the result ([placed_value]) and (b) the driver
   compares the patch document after the call with an independently built twin, and the node
   address sets of result and patch document, on every run. *)
Theorem patch_unchanged : forall al target patch, snd (patch_apply_full al target patch) = patch.
Proof. reflexivity. Qed.

(* no operation object, whatever it is, makes the code hand NULL to strcmp/strlen/strncmp *)
Lemma apply_op_no_ub al doc o : apply_op al doc o <> OUB.
Proof.
  assert (T : forall path, apply_test doc o path <> OUB).
  { intros path. unfold apply_test. destruct (field o s_value) as [v1|]; [|discriminate].
    destruct (get_c doc path) as [q v2|]; [|discriminate]. destruct (jv_equal v1 v2); discriminate. }
  assert (R : forall path, apply_remove doc path <> OUB).
  { intros path. unfold apply_remove. destruct (get_internal_c doc path); [|discriminate].
    destruct (remove_result doc r); discriminate. }
  assert (A : forall path add, apply_add_replace al doc o path add <> OUB).
  { intros path add. unfold apply_add_replace. destruct (field o s_value); [|discriminate].
    destruct (if add then None else _); [discriminate|]. destruct (set_c _ _ _ _ _); discriminate. }
  assert (M : forall path move, apply_move_copy al doc o path move <> OUB).
  { intros path move. unfold apply_move_copy. destruct (field o s_from) as [j|]; [|discriminate].
    destruct j; cbn [from_field]; try discriminate. destruct path as [p|]; [|discriminate].
    unfold move_copy_strings. destruct (prefix_verdict move s p); try discriminate;
      (destruct (_ && _); [discriminate|]); (destruct (ptr_get_internal doc s); [|discriminate]);
      cbn [negb]; try discriminate;
      (destruct move;
       [destruct (remove_result doc r); [|discriminate]; destruct (ptr_set_with_array_cb _ _ _ _ _); discriminate
       |destruct (ptr_set_with_array_cb _ _ _ _ _); discriminate]). }
  unfold apply_op. destruct (field o s_op) as [jop|]; [|discriminate].
  destruct jop; cbn [op_field]; try discriminate.
  destruct (field o s_path) as [jpath|]; [|discriminate].
  destruct jpath; cbn [path_field]; try discriminate;
    repeat match goal with |- context [if ?b then _ else _] => destruct b end; auto; discriminate.
Qed.

Lemma apply_ops_no_ub al : forall ops i doc, apply_ops al ops i doc <> PUB.
Proof.
  induction ops as [|o rest IH]; intros i doc; cbn [apply_ops]; [discriminate|].
  pose proof (apply_op_no_ub al doc o) as N. destruct (apply_op al doc o); [apply IH|discriminate|congruence].
Qed.

(* for ALL values used as patch documents (and all targets, all allocators): never UB; a value
   that is not an array is refused as a whole (EFAULT); an element that is not an operation
   object, or lacks / mistypes a field, or names no operation, is an error at its index *)
Theorem malformed_is_error : forall al target patch, patch_apply al target patch <> PUB.
Proof.
  intros al target patch. unfold patch_apply. destruct (is_null target); [discriminate|].
  destruct patch; try discriminate. apply apply_ops_no_ub.
Qed.

Theorem not_an_array_is_refused : forall al target patch,
  (forall ops, patch <> JArr ops) -> patch_apply al target patch = PArgs.
Proof.
  intros al target patch H. unfold patch_apply. destruct (is_null target); [reflexivity|].
  destruct patch; try reflexivity. exfalso. eapply H. reflexivity.
Qed.

(* a well-formed operation object has a string "op" naming an operation and a string "path"
   (RFC 6902 section 4); anything else stops the run at that index with EINVAL *)
Definition op_wellformed (o : jv) : bool :=
  match op_string o n_op, op_string o n_path with
  | Some op, Some _ =>
      bytes_eqb op n_test || bytes_eqb op n_remove || bytes_eqb op n_add ||
      bytes_eqb op n_replace || bytes_eqb op n_move || bytes_eqb op n_copy
  | _, _ => false
  end.

Theorem malformed_op_is_einval : forall al doc o,
  op_wellformed o = false -> apply_op al doc o = OErr EINVAL doc.
Proof.
  intros al doc o. unfold op_wellformed, op_string, op_member, apply_op.
  destruct o as [| | | | | |l|ms]; try reflexivity. cbn [field]. rewrite !object_get_member.
  change s_op with n_op. change s_path with n_path.
  destruct (member ms n_op) as [jop|]; [|reflexivity].
  destruct jop as [| | | | |op| |]; cbn [op_field]; try reflexivity.
  destruct (member ms n_path) as [jpath|]; [|reflexivity].
  destruct jpath as [| | | | |p| |]; cbn [path_field]; try reflexivity.
  - (* a JSON null path: every operation answers EINVAL *)
    intros _. unfold apply_test, apply_remove, apply_add_replace, apply_move_copy, move_null_path.
    cbn [get_c get_internal_c set_c field]. rewrite !object_get_member.
    repeat match goal with |- context [if ?b then _ else _] => destruct b end; try reflexivity;
      repeat match goal with |- context [match member ms ?k with _ => _ end] => destruct (member ms k) end;
      try reflexivity; match goal with |- context [from_field ?j] => destruct j end; reflexivity.
  - change s_test with n_test. change s_remove with n_remove. change s_add with n_add.
    change s_replace with n_replace. change s_move with n_move. change s_copy with n_copy.
    intros H. repeat (apply orb_false_iff in H; destruct H as [H ?]).
    repeat match goal with E : bytes_eqb _ _ = false |- _ => rewrite E; clear E end. reflexivity.
Qed.

(* ---- what a FAILING operation leaves behind.  The document the caller gets back is the one the
   operation found — with the single exception json-c documents: a move whose source has been
   taken out and whose placement then fails (the source is gone).  In particular a move of the
   whole document is refused before anything is touched, whatever "path" is — well-formed or
   not: there is no state in which the root has been released and the operation still fails. *)
Theorem move_of_root_rejected_first : forall al doc p,
  p <> [] -> move_copy_strings al doc [] p true = OErr EINVAL doc.
Proof.
  intros al doc p Hp. unfold move_copy_strings. rewrite prefix_verdict_move.
  destruct p; [congruence|reflexivity].
Qed.

Definition after_failed_move (doc d : jv) : Prop :=
  exists from r, from <> [] /\ ptr_get_internal doc from = GIOk r /\ remove_result doc r = Some d.

Lemma move_copy_failure al doc from p move e d :
  move_copy_strings al doc from p move = OErr e d -> d = doc \/ after_failed_move doc d.
Proof.
  unfold move_copy_strings. destruct move.
  - rewrite prefix_verdict_move. destruct from as [|a f].
    + destruct p; cbn [andb negb same_location_needs_lookup].
      * destruct (ptr_get_internal doc []); intros H; inversion H; auto.
      * intros H; inversion H; auto.
    + destruct (pv_core (a :: f) p); cbn [andb negb same_location_needs_lookup];
        try (intros H; inversion H; auto; fail);
        (destruct (ptr_get_internal doc (a :: f)) as [r|e0] eqn:G; [|intros H; inversion H; auto]);
        try (intros H; discriminate H).
      destruct (remove_result doc r) as [d1|] eqn:R; [|intros H; inversion H; auto].
      destruct (ptr_set_with_array_cb move_cb al d1 p (r_obj r)); intros H; inversion H. subst.
      right. exists (a :: f), r. split; [discriminate|]. auto.
  - cbn [prefix_verdict andb]. destruct (ptr_get_internal doc from); [|intros H; inversion H; auto].
    destruct (ptr_set_with_array_cb _ _ _ _ _); intros H; inversion H; auto.
Qed.

Theorem failed_op_document : forall al doc o e d,
  apply_op al doc o = OErr e d -> d = doc \/ after_failed_move doc d.
Proof.
  intros al doc o e d.
  assert (T : forall path, apply_test doc o path = OErr e d -> d = doc).
  { intros path. unfold apply_test. destruct (field o s_value) as [v1|]; [|intros H; inversion H; auto].
    destruct (get_c doc path) as [q v2|]; [|intros H; inversion H; auto].
    destruct (jv_equal v1 v2); intros H; inversion H; auto. }
  assert (R : forall path, apply_remove doc path = OErr e d -> d = doc).
  { intros path. unfold apply_remove. destruct (get_internal_c doc path); [|intros H; inversion H; auto].
    destruct (remove_result doc r); intros H; inversion H; auto. }
  assert (A : forall path add, apply_add_replace al doc o path add = OErr e d -> d = doc).
  { intros path add. unfold apply_add_replace. destruct (field o s_value); [|intros H; inversion H; auto].
    destruct (if add then None else _); [intros H; inversion H; auto|].
    destruct (set_c _ _ _ _ _); intros H; inversion H; auto. }
  assert (M : forall path move, apply_move_copy al doc o path move = OErr e d -> d = doc \/ after_failed_move doc d).
  { intros path move. unfold apply_move_copy. destruct (field o s_from) as [j|]; [|intros H; inversion H; auto].
    destruct j; cbn [from_field]; try (intros H; inversion H; auto; fail).
    destruct path as [p|]; [apply move_copy_failure|intros H; inversion H; auto]. }
  unfold apply_op. destruct (field o s_op) as [jop|]; [|intros H; inversion H; auto].
  destruct jop; cbn [op_field]; try (intros H; inversion H; auto; fail).
  destruct (field o s_path) as [jpath|]; [|intros H; inversion H; auto].
  destruct jpath; cbn [path_field]; try (intros H; inversion H; auto; fail);
    repeat match goal with |- context [if ?b then _ else _] => destruct b end;
    intros H; eauto; inversion H; auto.
Qed.

(* ---- index magnitude.  A reference token of the RFC's array-index syntax denotes its decimal
   value whatever its size; the code's conversion saturates at ULLONG_MAX (strtoull) and never
   wraps around, so a token whose value is not below the length is no element of the array
   (lookup: ENOENT) and a token whose value is above the length is no place to add at (EINVAL) —
   2^64 + j and 2^32 + j included, for every array that fits the representation bound. *)
Theorem index_beyond_end_is_no_element : forall l tok i,
  small (JArr l) = true -> array_index tok = Some i -> zlen l <= i ->
  get_single_path (JArr l) tok = SPErr ENOENT.
Proof.
  intros l tok i Hs Ei Hge. cbn [small] in Hs. apply andb_true_iff in Hs. destruct Hs as [Hl _]. apply Z.leb_le in Hl.
  pose proof (zlen_nonneg l) as Hn. destruct (small_bounds (zlen l) (conj Hn Hl)) as (_ & _ & _ & B4).
  destruct (index_some _ _ Ei) as (_ & _ & Hv). unfold get_single_path. rewrite Hv.
  destruct (i >? UINT64_MAX).
  - apply Z.gtb_lt in B4. replace (UINT64_MAX >=? zlen l) with true by lia. reflexivity.
  - replace (i >=? zlen l) with true by lia. reflexivity.
Qed.

Theorem index_beyond_end_is_no_place : forall al l tok i v,
  small (JArr l) = true -> array_index tok = Some i -> zlen l < i ->
  set_single_path (insert_idx_cb true) al (JArr l) tok v = SErr EINVAL /\
  set_single_path move_cb al (JArr l) tok v = SErr EINVAL.
Proof.
  intros al l tok i v Hs Ei Hgt. cbn [small] in Hs. apply andb_true_iff in Hs. destruct Hs as [Hl _]. apply Z.leb_le in Hl.
  pose proof (zlen_nonneg l) as Hn. destruct (small_bounds (zlen l) (conj Hn Hl)) as (_ & _ & _ & B4).
  destruct (index_some _ _ Ei) as (_ & _ & Hv). change move_cb with (insert_idx_cb true).
  assert (Hd : is_dash tok = false).
  { destruct (is_dash tok) eqn:E; [|reflexivity]. rewrite (dash_not_index _ E) in Ei. discriminate. }
  unfold set_single_path. rewrite Hd, Hv. unfold insert_idx_cb.
  destruct (i >? UINT64_MAX).
  - rewrite B4. auto.
  - replace (i >? zlen l) with true by lia. auto.
Qed.

(* ================================================================ F'. where the "test" guard holds *)
From JC Require EqProofs.

(* json_object_equal and the RFC's equality can only differ on a number compared with a number of
   the other representation kind (integer node against double node).  [same_repr a b]: wherever
   [a] and [b] are compared position by position, numbers meet numbers of the same kind
   (integers within the range of their C type). *)
Definition int_ok (v : jv) : bool :=
  match v with
  | JInt z => (INT64_MIN <=? z) && (z <=? INT64_MAX)
  | JUint z => (0 <=? z) && (z <=? UINT64_MAX)
  | _ => true
  end.

Section All2t.
  Context {A B : Type} (f : A -> B -> bool).
  Fixpoint all2t (la : list A) (lb : list B) : bool :=      (* true as soon as one list ends *)
    match la, lb with
    | x :: ta, y :: tb => f x y && all2t ta tb
    | _, _ => true
    end.
End All2t.

Fixpoint same_repr (a b : jv) {struct a} : bool :=
  match a, b with
  | JDouble _ _, JDouble _ _ => true
  | JDouble _ _, JInt _ | JDouble _ _, JUint _ => false
  | JInt _, JDouble _ _ | JUint _, JDouble _ _ => false
  | JInt _, JInt _ | JInt _, JUint _ | JUint _, JInt _ | JUint _, JUint _ => int_ok a && int_ok b
  | JArr la, JArr lb => all2t (fun x y => same_repr x y) la lb
  | JObj la, JObj lb =>
      forallb (fun kv => match member lb (fst kv) with Some w => same_repr (snd kv) w | None => true end) la
  | _, _ => true
  end.

Lemma two1074_pos : 0 < two1074.
Proof. unfold two1074. apply Z.pow_pos_nonneg; lia. Qed.

Lemma scaled_eqb x y : (x * two1074 =? y * two1074) = (x =? y).
Proof.
  pose proof two1074_pos. destruct (x =? y) eqn:E.
  - apply Z.eqb_eq in E. subst. apply Z.eqb_refl.
  - apply Z.eqb_neq in E. apply Z.eqb_neq. nia.
Qed.

Definition num_of_dval (p : dval) : num :=
  match p with
  | DNaN => NNaN
  | DInf s => NInf s
  | DFin s e m => NFin (if s then - d_mag e m else d_mag e m)
  end.

Lemma num_dval p q : EqProofs.dval_ok p -> EqProofs.dval_ok q ->
  num_eqb (num_of_dval p) (num_of_dval q) = dval_eqb p q.
Proof.
  intros Hp Hq. destruct p as [|a|a ea ma], q as [|b|b eb mb]; try reflexivity.
  cbn [num_of_dval num_eqb].
  destruct (dval_eqb (DFin a ea ma) (DFin b eb mb)) eqn:E.
  - apply EqProofs.dval_eqb_spec in E. destruct E as [E _]. inversion E. subst. apply Z.eqb_refl.
  - apply Z.eqb_neq. intros H.
    assert (X : DFin a ea ma = DFin b eb mb).
    { apply (EqProofs.d_scaled_inj _ _ (if b then - d_mag eb mb else d_mag eb mb)); auto.
      cbn. f_equal. exact H. }
    rewrite X in E. assert (T : dval_eqb (DFin b eb mb) (DFin b eb mb) = true).
    { apply EqProofs.dval_eqb_spec. split; [reflexivity|discriminate]. }
    congruence.
Qed.

Lemma assoc_member {A} k (l : list (list byte * A)) :
  assoc k l = match find (fun kv => bytes_eqb (fst kv) k) l with Some kv => Some (snd kv) | None => None end.
Proof.
  induction l as [|[k' v] r IH]; [reflexivity|]. cbn. rewrite (EqProofs.bytes_eqb_sym k k').
  destruct (bytes_eqb k' k); [reflexivity|exact IH].
Qed.

Lemma forallb_ext_in {A} (f g : A -> bool) (l : list A) :
  (forall x, In x l -> f x = g x) -> forallb f l = forallb g l.
Proof.
  induction l as [|a l IH]; intros H; [reflexivity|]. cbn. rewrite (H a (or_introl eq_refl)), IH; [reflexivity|].
  intros x Hx. apply H. right. exact Hx.
Qed.

Lemma all2_true_zlen {A B} (f : A -> B -> bool) : forall la lb, all2 f la lb = true -> zlen la = zlen lb.
Proof.
  induction la as [|x ta IH]; intros [|y tb] H; try reflexivity; try discriminate.
  change (f x y && all2 f ta tb = true) in H. apply andb_true_iff in H. destruct H as [_ H].
  cbn [zlen]. rewrite (IH tb H). reflexivity.
Qed.

Lemma all2_zlen {A B} (f : A -> B -> bool) la lb :
  all2 f la lb = (zlen la =? zlen lb) && all2 f la lb.
Proof.
  destruct (all2 f la lb) eqn:E; [|rewrite andb_false_r; reflexivity].
  rewrite (all2_true_zlen _ _ _ E), Z.eqb_refl. reflexivity.
Qed.

Lemma bytes_eqb_zlen x y : bytes_eqb x y = (zlen x =? zlen y) && bytes_eqb x y.
Proof.
  destruct (bytes_eqb x y) eqn:E; [|rewrite andb_false_r; reflexivity].
  apply bytes_eqb_eq in E. subst. rewrite Z.eqb_refl. reflexivity.
Qed.

Theorem rfc_equal_jv_equal : forall a b, same_repr a b = true -> rfc_equal a b = jv_equal a b.
Proof.
  induction a as [| b0 | x | x | bx tx | sx | la IH | la IH] using jv_ind'; intros b H.
  - destruct b; reflexivity.
  - destruct b; reflexivity.
  - (* int64 node *)
    destruct b as [| | y | y | | | |]; try reflexivity; try discriminate.
    + cbn [rfc_equal num_of num_eqb jv_equal]. apply scaled_eqb.
    + cbn [rfc_equal num_of num_eqb jv_equal]. rewrite scaled_eqb.
      cbn [same_repr int_ok] in H. unfold INT64_MIN, INT64_MAX, UINT64_MAX, two64 in *.
      destruct (x <? 0) eqn:E; [lia|]. rewrite Z.mod_small by lia. reflexivity.
  - (* uint64 node *)
    destruct b as [| | y | y | | | |]; try reflexivity; try discriminate.
    + cbn [rfc_equal num_of num_eqb jv_equal]. rewrite scaled_eqb.
      cbn [same_repr int_ok] in H. unfold INT64_MIN, INT64_MAX, UINT64_MAX, two64 in *.
      destruct (y <? 0) eqn:E; [lia|]. rewrite Z.mod_small by lia. reflexivity.
    + cbn [rfc_equal num_of num_eqb jv_equal]. apply scaled_eqb.
  - (* double node *)
    destruct b as [| | y | y | by0 ty | | |]; try reflexivity; try discriminate.
    cbn [rfc_equal num_of jv_equal].
    change (num_eqb (num_of_dval (d_decode bx)) (num_of_dval (d_decode by0)) = dval_eqb (d_decode bx) (d_decode by0)).
    apply num_dval; apply EqProofs.d_decode_ok.
  - destruct b; try reflexivity. cbn [rfc_equal jv_equal]. apply bytes_eqb_zlen.
  - (* arrays *)
    destruct b as [| | | | | | lb |]; try reflexivity. cbn [rfc_equal jv_equal same_repr] in *.
    rewrite <- all2_zlen. revert lb H. induction IH as [|x ta Hx Ht IHt]; intros [|y tb] H; try reflexivity.
    cbn [pairwise all2 all2t] in *. apply andb_true_iff in H. destruct H as [H1 H2].
    rewrite (Hx y H1), (IHt tb H2). reflexivity.
  - (* objects *)
    destruct b as [| | | | | | | lb]; try reflexivity. cbn [rfc_equal jv_equal same_repr] in *.
    f_equal.
    + rewrite forallb_forall in H. rewrite Forall_forall in IH. apply forallb_ext_in. intros kv Hin.
      rewrite assoc_member. fold (member lb (fst kv)). specialize (H kv Hin). specialize (IH kv Hin).
      destruct (member lb (fst kv)) as [w|]; [|reflexivity]. apply IH. exact H.
    + apply forallb_ext_in. intros kv _. rewrite assoc_member. fold (member la (fst kv)). reflexivity.
Qed.

(* hence a "test" whose operands are [same_repr] passes the guard: the first recorded deviation is
   exactly "an integer node compared with a double node" (or an integer outside its C range) *)
Theorem test_agrees_same_repr doc o :
  (forall p v path n, op_string o n_path = Some p -> op_member o n_value = Some v ->
     spec_get doc p = Some (path, n) -> same_repr v n = true) ->
  test_agrees doc o = true.
Proof.
  intros H. unfold test_agrees.
  destruct (op_string o n_op) as [op|]; [|reflexivity].
  destruct (op_string o n_path) as [p|] eqn:Ep; [|reflexivity].
  destruct (op_member o n_value) as [v|] eqn:Ev; [|reflexivity].
  destruct (bytes_eqb op n_test); [|reflexivity].
  destruct (spec_get doc p) as [[path n]|] eqn:G; [|reflexivity].
  rewrite (rfc_equal_jv_equal v n (H p v path n eq_refl eq_refl G)). apply Bool.eqb_reflx.
Qed.

(* ================================================================ G. statements, deviations, examples *)
From Coq Require Import String Ascii.
Local Open Scope string_scope.

(* ---- the statement at full strength: for every target (not the NULL pointer: API domain)
   and every patch array, under the representation bound only *)
Definition repr_guard (doc o : jv) : bool := small doc.

Definition apply_conforms_statement : Prop :=
  forall al, (forall n, al n = true) ->
  forall target ops, target <> JNull -> run_guard repr_guard ops target = true ->
  pagree (patch_apply al target (JArr ops)) (spec_ops ops 0 target).

(* ---- what is proved: the same under the exact guards of the two recorded deviations, checked
   along the run on every document RFC 6902 evaluation passes through:
     class test_number_representation   [test_agrees]: no "test" where json_object_equal and
                                        the RFC's equality differ (1 against 1.0)
     class null_document_root           the document is not JSON null (after a remove / add /
                                        replace / move at "") when another operation follows *)
Theorem apply_conforms_partial :
  forall al, (forall n, al n = true) ->
  forall target ops, target <> JNull -> run_guard step_guard ops target = true ->
  pagree (patch_apply al target (JArr ops)) (spec_ops ops 0 target).
Proof. exact apply_conforms_guarded. Qed.

(* the guards one at a time *)
Definition guard_no_test (doc o : jv) : bool := small doc && negb (is_null doc).
Definition guard_no_null (doc o : jv) : bool := small doc && test_agrees doc o.

Definition mkop (op path : string) (more : list (string * jv)) : jv :=
  JObj ((bs "op", JStr (bs op)) :: (bs "path", JStr (bs path)) :: map (fun kv => (bs (fst kv), snd kv)) more).

Definition dbl_1_0 : Z := 4607182418800017408.          (* 0x3ff0000000000000 = 1.0 *)

(* class test_number_representation: {"a":1}, [{"op":"test","path":"/a","value":1.0}] — RFC 6902
   section 4.6: numerically equal, the patch succeeds; json_object_equal: different types, ENOENT *)
Theorem test_number_refuted :
  exists target ops, target <> JNull /\ run_guard guard_no_test ops target = true /\
    patch_apply room target (JArr ops) = PFail 0 ENOENT target /\ spec_ops ops 0 target = SDone target.
Proof.
  exists (JObj [(bs "a", JInt 1)]), [mkop "test" "/a" [("value", JDouble dbl_1_0 None)]].
  split; [discriminate|]. vm_compute. repeat split; reflexivity.
Qed.

(* class null_document_root: {"a":1}, [{"op":"remove","path":""},{"op":"test","path":"","value":null}] —
   the document is JSON null after the first operation and equal to null; json_pointer_get(NULL) = EINVAL *)
Theorem null_root_refuted :
  exists target ops, target <> JNull /\ run_guard guard_no_null ops target = true /\
    patch_apply room target (JArr ops) = PFail 1 EINVAL JNull /\ spec_ops ops 0 target = SDone JNull.
Proof.
  exists (JObj [(bs "a", JInt 1)]), [mkop "remove" "" []; mkop "test" "" [("value", JNull)]].
  split; [discriminate|]. vm_compute. repeat split; reflexivity.
Qed.

Theorem apply_conforms_refuted : ~ apply_conforms_statement.
Proof.
  intros S. destruct test_number_refuted as (target & ops & Hn & G & M & Sp).
  assert (G' : run_guard repr_guard ops target = true).
  { clear - G. revert target G. induction ops as [|o r IH]; intros target G; [reflexivity|].
    cbn [run_guard] in *. apply andb_true_iff in G. destruct G as [G1 G2].
    unfold guard_no_test in G1. apply andb_true_iff in G1. destruct G1 as [G1 _].
    unfold repr_guard. rewrite G1. cbn [andb]. destruct (spec_op target o); auto. }
  specialize (S room (fun _ => eq_refl) target ops Hn G'). rewrite M, Sp in S. exact S.
Qed.

(* ---- examples (non-vacuity).  [view]: what a caller sees of a run *)
Definition view_m (r : pres) : option jv * Z :=
  match r with PDone d => (Some d, -1) | PFail i _ _ => (None, i) | PArgs => (None, -2) | PUB => (None, -3) end.
Definition view_s (r : spres) : option jv * Z :=
  match r with SDone d => (Some d, -1) | SFail i => (None, i) end.

Definition case_holds (c : jv * list jv * (option jv * Z)) : Prop :=
  let '(target, ops, want) := c in
  run_guard step_guard ops target = true /\
  view_m (patch_apply room target (JArr ops)) = want /\ view_s (spec_ops ops 0 target) = want.

Definition Js (s : string) : jv := JStr (bs s).
Definition Jo (ms : list (string * jv)) : jv := JObj (map (fun kv => (bs (fst kv), snd kv)) ms).

(* RFC 6902 appendix A.1 - A.12, A.14 - A.16 *)
Definition rfc_cases : list (jv * list jv * (option jv * Z)) := [
  (Jo [("foo", Js "bar")], [mkop "add" "/baz" [("value", Js "qux")]],
     (Some (Jo [("foo", Js "bar"); ("baz", Js "qux")]), -1));
  (Jo [("foo", JArr [Js "bar"; Js "baz"])], [mkop "add" "/foo/1" [("value", Js "qux")]],
     (Some (Jo [("foo", JArr [Js "bar"; Js "qux"; Js "baz"])]), -1));
  (Jo [("baz", Js "qux"); ("foo", Js "bar")], [mkop "remove" "/baz" []],
     (Some (Jo [("foo", Js "bar")]), -1));
  (Jo [("foo", JArr [Js "bar"; Js "qux"; Js "baz"])], [mkop "remove" "/foo/1" []],
     (Some (Jo [("foo", JArr [Js "bar"; Js "baz"])]), -1));
  (Jo [("baz", Js "qux"); ("foo", Js "bar")], [mkop "replace" "/baz" [("value", Js "boo")]],
     (Some (Jo [("baz", Js "boo"); ("foo", Js "bar")]), -1));
  (Jo [("foo", Jo [("bar", Js "baz"); ("waldo", Js "fred")]); ("qux", Jo [("corge", Js "grault")])],
     [mkop "move" "/qux/thud" [("from", Js "/foo/waldo")]],
     (Some (Jo [("foo", Jo [("bar", Js "baz")]); ("qux", Jo [("corge", Js "grault"); ("thud", Js "fred")])]), -1));
  (Jo [("foo", JArr [Js "all"; Js "grass"; Js "cows"; Js "eat"])], [mkop "move" "/foo/3" [("from", Js "/foo/1")]],
     (Some (Jo [("foo", JArr [Js "all"; Js "cows"; Js "eat"; Js "grass"])]), -1));
  (Jo [("baz", Js "qux"); ("foo", JArr [Js "a"; JInt 2; Js "c"])],
     [mkop "test" "/baz" [("value", Js "qux")]; mkop "test" "/foo/1" [("value", JInt 2)]],
     (Some (Jo [("baz", Js "qux"); ("foo", JArr [Js "a"; JInt 2; Js "c"])]), -1));
  (Jo [("baz", Js "qux")], [mkop "test" "/baz" [("value", Js "bar")]], (None, 0));
  (Jo [("foo", Js "bar")], [mkop "add" "/child" [("value", Jo [("grandchild", Jo [])])]],
     (Some (Jo [("foo", Js "bar"); ("child", Jo [("grandchild", Jo [])])]), -1));
  (Jo [("foo", Js "bar")], [mkop "add" "/baz" [("value", Js "qux"); ("xyz", JInt 123)]],
     (Some (Jo [("foo", Js "bar"); ("baz", Js "qux")]), -1));
  (Jo [("foo", Js "bar")], [mkop "add" "/baz/bat" [("value", Js "qux")]], (None, 0));
  (Jo [("/", JInt 9); ("~1", JInt 10)], [mkop "test" "/~01" [("value", JInt 10)]],
     (Some (Jo [("/", JInt 9); ("~1", JInt 10)]), -1));
  (Jo [("/", JInt 9); ("~1", JInt 10)], [mkop "test" "/~01" [("value", Js "10")]], (None, 0));
  (Jo [("foo", JArr [Js "bar"])], [mkop "add" "/foo/-" [("value", JArr [Js "abc"; Js "def"])]],
     (Some (Jo [("foo", JArr [Js "bar"; JArr [Js "abc"; Js "def"]])]), -1))
].

Lemma rfc_examples_hold : Forall case_holds rfc_cases.
Proof. repeat constructor; vm_compute; reflexivity. Qed.

(* the inputs on which the original json_patch.c left RFC 6902 (repaired; known_findings.json),
   now conforming: escaped member name in remove and move; "/a" -> "/ab"; copy into own child
   and onto itself; move of a missing location onto itself; move to index length + 1; a later
   operation inside an added value and inside a copy; a failing operation behind two good ones *)
Definition repaired_cases : list (jv * list jv * (option jv * Z)) := [
  (Jo [("a/b", JInt 1); ("c", JInt 2)], [mkop "remove" "/a~1b" []], (Some (Jo [("c", JInt 2)]), -1));
  (Jo [("a/b", Jo [("q", JInt 1)]); ("m~n", JInt 3)],
     [mkop "move" "/c" [("from", Js "/a~1b")]; mkop "remove" "/m~0n" []],
     (Some (Jo [("c", Jo [("q", JInt 1)])]), -1));
  (Jo [("a", JInt 1)], [mkop "move" "/ab" [("from", Js "/a")]], (Some (Jo [("ab", JInt 1)]), -1));
  (Jo [("c", JArr [JInt 1])], [mkop "copy" "/c/0" [("from", Js "/c")]],
     (Some (Jo [("c", JArr [JArr [JInt 1]; JInt 1])]), -1));
  (Jo [("a", JArr [JInt 1; JInt 2])], [mkop "copy" "/a/0" [("from", Js "/a/0")]],
     (Some (Jo [("a", JArr [JInt 1; JInt 1; JInt 2])]), -1));
  (Jo [("a", Jo [("b", JInt 1)])], [mkop "move" "/a/b" [("from", Js "/a")]], (None, 0));
  (Jo [("a", JInt 1)], [mkop "move" "/zz" [("from", Js "/zz")]], (None, 0));
  (Jo [("a", JInt 1)], [mkop "move" "/a" [("from", Js "/a")]], (Some (Jo [("a", JInt 1)]), -1));
  (Jo [("c", JArr [JInt 1; JInt 2; JInt 3])], [mkop "move" "/c/3" [("from", Js "/c/0")]], (None, 0));
  (Jo [("c", JArr [JInt 1; JInt 2; JInt 3])], [mkop "move" "/c/2" [("from", Js "/c/0")]],
     (Some (Jo [("c", JArr [JInt 2; JInt 3; JInt 1])]), -1));
  (Jo [("x", JInt 1)], [mkop "add" "/a" [("value", Jo [("k", JInt 1)])]; mkop "add" "/a/z" [("value", JInt 2)]],
     (Some (Jo [("x", JInt 1); ("a", Jo [("k", JInt 1); ("z", JInt 2)])]), -1));
  (Jo [("x", Jo [("k", JInt 1)])], [mkop "copy" "/y" [("from", Js "/x")]; mkop "add" "/y/z" [("value", JInt 2)]],
     (Some (Jo [("x", Jo [("k", JInt 1)]); ("y", Jo [("k", JInt 1); ("z", JInt 2)])]), -1));
  (Jo [("a", JInt 1)], [mkop "add" "/b" [("value", JNull)]; mkop "test" "/b" [("value", JNull)]; mkop "remove" "/nope" []],
     (None, 2))
].

Lemma repaired_examples_hold : Forall case_holds repaired_cases.
Proof. repeat constructor; vm_compute; reflexivity. Qed.

(* malformed patch documents: EINVAL at the operation, never UB (the first three dereferenced
   NULL in the original code; the fourth was applied as a no-op) *)
Lemma malformed_examples :
  let doc := Jo [("a", JInt 1)] in
  patch_apply room doc (JArr [Jo [("op", JNull); ("path", Js "/a")]]) = PFail 0 EINVAL doc /\
  patch_apply room doc (JArr [Jo [("op", Js "move"); ("from", JNull); ("path", Js "/a")]]) = PFail 0 EINVAL doc /\
  patch_apply room doc (JArr [Jo [("op", Js "copy"); ("from", Js "/a"); ("path", JNull)]]) = PFail 0 EINVAL doc /\
  patch_apply room doc (JArr [Jo [("op", Js "move"); ("from", JInt 5); ("path", JInt 5)]]) = PFail 0 EINVAL doc /\
  patch_apply room doc (JArr [mkop "add" "/b" [("value", JInt 2)]; JInt 7]) = PFail 1 EINVAL (Jo [("a", JInt 1); ("b", JInt 2)]) /\
  patch_apply room doc (JInt 7) = PArgs /\ patch_apply room doc JNull = PArgs /\
  patch_apply room JNull (JArr []) = PArgs /\ patch_apply room doc (JArr []) = PDone doc.
Proof. vm_compute. repeat split; reflexivity. Qed.

(* the sharing class of the ORIGINAL code (add/replace/copy linked nodes instead of copying them):
   the two-operation witness of known_findings.json (value_shared) lies outside
   [no_sharing_hazard], a patch that places scalars only lies inside.  With the repaired code
   ([placed_value] = a copy) the pure model is faithful on both. *)
Lemma sharing_class_examples :
  no_sharing_hazard room (Jo [("x", JInt 1)])
    (JArr [mkop "add" "/a" [("value", Jo [("k", JInt 1)])]; mkop "add" "/a/z" [("value", JInt 2)]]) = false /\
  no_sharing_hazard room (Jo [("x", Jo [("k", JInt 1)])])
    (JArr [mkop "copy" "/y" [("from", Js "/x")]; mkop "add" "/y/z" [("value", JInt 2)]]) = false /\
  no_sharing_hazard room (Jo [("x", JInt 1)])
    (JArr [mkop "add" "/a" [("value", JInt 7)]; mkop "copy" "/b" [("from", Js "/a")]; mkop "add" "/c" [("value", Jo [])]]) = true.
Proof. vm_compute. repeat split; reflexivity. Qed.
