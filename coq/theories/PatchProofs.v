(* PatchProofs.v — C13: json_patch.c (PatchModel.v) against sequential RFC 6902 evaluation
   (PatchSpec.v).  Built on C12's results about json_pointer.c (PtrProofs.v, read only).

   Layout
     A  representation bound ([small]), strings
     B  one generic lemma: "walk to the container of the last token, edit there, rebuild"
        is the same in model and specification when the local edits correspond
     C  the local edits of add / replace / remove; the operations test, remove, add, replace
     D  move and copy
     E  one operation object; the induction over the operation list: [apply_conforms_partial]
     F  [patch_unchanged], [malformed_is_error]
     G  the two recorded deviations ([..._refuted]) and examples *)
From JC Require Import Base BaseLemmas Value PtrSpec PtrModel PtrProofs EqModel PatchSpec PatchModel.
Local Open Scope Z_scope.

(* ================================================================ A. representation bound *)

(* every array of the document has fewer than 2^32 elements: json_pointer_get_internal reports
   index_in_parent as a uint32_t, and (much weaker) array lengths are size_t values *)
Fixpoint small (v : jv) : bool :=
  match v with
  | JArr l => (zlen l <=? UINT32_MAX) && forallb small l
  | JObj ms => forallb (fun kv => small (snd kv)) ms
  | _ => true
  end.

Lemma small_step_repr n : small n = true -> step_repr n = true.
Proof.
  destruct n; try reflexivity. cbn [small step_repr]. intros H. apply andb_true_iff in H.
  destruct H as [H _]. unfold UINT32_MAX, SIZE_MAX in *. lia.
Qed.

Lemma forallb_nth_error {A} (f : A -> bool) : forall (l : list A) n x,
  forallb f l = true -> nth_error l n = Some x -> f x = true.
Proof.
  induction l as [|a l IH]; intros [|n] x H E; cbn in *; try discriminate.
  - inversion E. subst. apply andb_true_iff in H. tauto.
  - apply andb_true_iff in H. destruct H. eauto.
Qed.

Lemma member_forallb (f : jv -> bool) : forall ms k c,
  forallb (fun kv => f (snd kv)) ms = true -> member ms k = Some c -> f c = true.
Proof.
  unfold member. induction ms as [|[k' v] r IH]; intros k c H E; cbn in *; [discriminate|].
  apply andb_true_iff in H. destruct H as [Hv Hr].
  destruct (bytes_eqb k' k).
  - inversion E. subst. exact Hv.
  - eapply IH; eauto.
Qed.

Lemma small_child n tok st c : get_single_path n tok = SPOk st c -> small n = true -> small c = true.
Proof.
  intros S H.
  destruct (gsp_ok_inv _ _ _ _ S) as [(l & idx & sat & -> & _ & -> & E) | (ms & -> & _ & -> & E)].
  - cbn [small] in H. apply andb_true_iff in H. destruct H as [_ H].
    pose proof (znth_some_range _ _ _ E). rewrite znth_nat in E by lia. eapply forallb_nth_error; eauto.
  - cbn [small] in H. eapply (member_forallb small); eauto.
Qed.

Lemma small_walk : forall toks n p x, get_walk n toks = GOk p x -> small n = true -> small x = true.
Proof.
  induction toks as [|tok rest IH]; intros n p x; cbn [get_walk].
  - intros H. inversion H. auto.
  - destruct (get_single_path n tok) as [st c|] eqn:S; [|discriminate].
    destruct (get_walk c rest) as [q y|] eqn:W; [|discriminate]. intros H Hs. inversion H. subst.
    eapply IH; eauto. eapply small_child; eauto.
Qed.

Lemma small_walk_repr : forall toks n, small n = true -> walk_repr n toks = true.
Proof.
  induction toks as [|tok rest IH]; intros n H; [reflexivity|]. cbn [walk_repr].
  rewrite (small_step_repr _ H). cbn [andb].
  destruct (get_single_path n tok) as [st c|] eqn:S; [|reflexivity].
  apply IH. eapply small_child; eauto.
Qed.

Lemma small_get_repr t p : small t = true -> get_repr t p = true.
Proof.
  intros H. destruct p as [|c s]; [reflexivity|]. cbn [get_repr]. destruct (c =? 47); [|reflexivity].
  apply small_walk_repr. exact H.
Qed.

(* [small] is kept by replacing a subtree by a small one *)
Lemma small_map_member k f : forall ms,
  forallb (fun kv => small (snd kv)) ms = true ->
  (forall c, small c = true -> small (f c) = true) ->
  forallb (fun kv => small (snd kv)) (map_member k f ms) = true.
Proof.
  induction ms as [|[k' v] r IH]; intros H Hf; [reflexivity|]. cbn [map_member].
  cbn [forallb snd] in H. apply andb_true_iff in H. destruct H as [Hv Hr].
  destruct (bytes_eqb k' k); cbn [forallb snd].
  - rewrite Hr, Hf by exact Hv. reflexivity.
  - rewrite Hv, IH by auto. reflexivity.
Qed.

Lemma small_map_nth f : forall n l,
  forallb small l = true -> (forall c, small c = true -> small (f c) = true) ->
  forallb small (map_nth n f l) = true.
Proof.
  induction n as [|n IH]; intros [|x l] H Hf; try reflexivity; cbn [map_nth forallb] in *;
    apply andb_true_iff in H; destruct H as [Hx Hl].
  - rewrite Hf, Hl by auto. reflexivity.
  - rewrite Hx, IH by auto. reflexivity.
Qed.

Lemma small_subst : forall path new t,
  small t = true -> small new = true -> small (subst_at path new t) = true.
Proof.
  induction path as [|st r IH]; intros new t Ht Hn; [exact Hn|]. cbn [subst_at].
  destruct st as [k|i]; destruct t; try exact Ht.
  - cbn [small] in *. apply small_map_member; auto.
  - destruct (i <? 0); [exact Ht|]. cbn [small] in *. apply andb_true_iff in Ht. destruct Ht as [Hl Hc].
    rewrite zlen_map_nth, Hl. cbn [andb]. apply small_map_nth; auto.
Qed.

Lemma forallb_split {A} (f : A -> bool) n (l : list A) :
  forallb f l = true -> forallb f (firstn n l) = true /\ forallb f (skipn n l) = true.
Proof.
  intros H. rewrite <- (firstn_skipn n l), forallb_app in H. apply andb_true_iff in H. exact H.
Qed.

(* ---------------------------------------------------------------- strings *)

(* json_patch_unescape_token is the RFC's single unescaping pass *)
Lemma unescape_token_cons2 c d u :
  unescape_token (c :: d :: u) =
  if (c =? 126) && ((d =? 48) || (d =? 49)) then (if d =? 49 then 47 else 126) :: unescape_token u
  else c :: unescape_token (d :: u).
Proof. reflexivity. Qed.

Lemma unescape_token_aux : forall n s, (length s <= n)%nat -> unescape_token s = unescape s.
Proof.
  induction n as [|n IH]; intros s Hl.
  - destruct s; [reflexivity|cbn in Hl; lia].
  - destruct s as [|c [|d u]]; [reflexivity| |].
    + cbn. destruct (c =? 126); reflexivity.
    + rewrite unescape_token_cons2, unescape_cons2. cbn [length] in Hl.
      destruct (c =? 126) eqn:Ec; cbn [andb].
      * destruct (d =? 48) eqn:E0; cbn [orb].
        { replace (d =? 49) with false by lia. rewrite IH by lia. reflexivity. }
        destruct (d =? 49) eqn:E1.
        { rewrite IH by lia. reflexivity. }
        rewrite IH by (cbn [length]; lia). reflexivity.
      * rewrite IH by (cbn [length]; lia). reflexivity.
Qed.

Lemma unescape_token_spec s : unescape_token s = unescape s.
Proof. eapply unescape_token_aux. apply le_n. Qed.

Lemma remove_key_name tok : remove_key tok = unescape_in_place tok.
Proof. unfold remove_key. rewrite unescape_token_spec, unescape_two_pass_eq_single. reflexivity. Qed.

Lemma object_del_remove_member ms k : object_del ms k = remove_member k ms.
Proof. induction ms as [|[k' v] r IH]; [reflexivity|]. cbn. rewrite IH. reflexivity. Qed.

Lemma small_object_del k : forall ms,
  forallb (fun kv => small (snd kv)) ms = true -> forallb (fun kv => small (snd kv)) (object_del ms k) = true.
Proof.
  induction ms as [|[k' v] r IH]; intros H; [reflexivity|]. cbn [object_del].
  cbn [forallb snd] in H. apply andb_true_iff in H. destruct H as [Hv Hr].
  destruct (bytes_eqb k' k); [exact Hr|]. cbn [forallb snd]. rewrite Hv, IH by auto. reflexivity.
Qed.

(* ================================================================ B. the generic edit *)

(* what json_pointer_set_with_array_cb and json_pointer_get_internal + a local change have in
   common, on the reference tokens of "/" ++ s *)
Definition model_edit (g : jv -> list byte -> sres) (t : jv) (s : list byte) : sres :=
  match get_walk t (removelast (split_slash s)) with
  | GErr e => SErr e
  | GOk ppath parent =>
      match g parent (last (split_slash s) []) with
      | SErr e => SErr e
      | SOk parent' => SOk (subst_at ppath parent' t)
      end
  end.

Lemma set_is_model_edit cb al t s v :
  ptr_set_with_array_cb cb al t (47 :: s) v = model_edit (fun parent tok => set_single_path cb al parent tok v) t s.
Proof. apply ptr_set_unfold. Qed.

Lemma edit_walk_app f : forall ptoks n tok,
  edit_walk f n (ptoks ++ [tok]) =
  match spec_walk n ptoks with
  | None => None
  | Some (path, parent) =>
      match f parent tok with
      | None => None
      | Some parent' => Some (subst_at path parent' n)
      end
  end.
Proof.
  induction ptoks as [|a r IH]; intros n tok.
  - cbn. destruct (f n tok); reflexivity.
  - cbn [app edit_walk spec_walk].
    destruct (r ++ [tok]) as [|b r'] eqn:E; [apply app_eq_nil in E; destruct E; discriminate|]. rewrite <- E.
    destruct (spec_step n a) as [[st c]|] eqn:S; [|reflexivity].
    rewrite IH. destruct (spec_walk c r) as [[path parent]|]; [|reflexivity].
    destruct (f parent tok) as [parent'|]; [|reflexivity].
    rewrite (subst_put_child _ _ _ _ _ _ S). reflexivity.
Qed.

(* the local edits correspond: on a small container the model's succeeds exactly when the
   specification's does and the token is of the RFC 6901 syntax, with the same result *)
Definition local_ok (g : jv -> list byte -> sres) (f : jv -> list byte -> option jv) : Prop :=
  forall parent tok, small parent = true ->
    match g parent tok with
    | SOk p' => f parent tok = Some p' /\ escapes_ok tok = true
    | SErr _ => f parent tok = None \/ escapes_ok tok = false
    end.

Lemma edit_at_slash f root t s :
  edit_at f root t (47 :: s) =
  if forallb escapes_ok (split_slash s) then edit_walk f t (split_slash s) else None.
Proof.
  unfold edit_at, parse_pointer. cbn [Z.eqb Pos.eqb]. rewrite tokenize_split.
  destruct (forallb escapes_ok (split_slash s)); [|reflexivity].
  pose proof (split_slash_nonempty s). destruct (split_slash s); [congruence|reflexivity].
Qed.

Lemma edit_conforms g f root t s :
  local_ok g f -> small t = true ->
  match model_edit g t s with
  | SOk t' => edit_at f root t (47 :: s) = Some t'
  | SErr _ => edit_at f root t (47 :: s) = None
  end.
Proof.
  intros L Hs. rewrite edit_at_slash. unfold model_edit.
  pose proof (tokens_split_last s) as Ht. set (toks := split_slash s) in *.
  set (ptoks := removelast toks) in *. set (tok := last toks []) in *. clearbody ptoks tok. rewrite Ht.
  rewrite forallb_app, edit_walk_app. cbn [forallb].
  pose proof (walk_conforms ptoks t (small_walk_repr _ _ Hs)) as W.
  destruct (get_walk t ptoks) as [ppath parent|e] eqn:G.
  - destruct W as [W Ep]. rewrite W, Ep. cbn [andb].
    pose proof (L parent tok (small_walk _ _ _ _ G Hs)) as P.
    destruct (g parent tok) as [p'|e].
    + destruct P as [P Et]. rewrite P, Et. reflexivity.
    + destruct P as [P|P]; rewrite P.
      * destruct (escapes_ok tok && true); reflexivity.
      * reflexivity.
  - destruct W as [_ [W|W]]; rewrite W.
    + destruct (forallb escapes_ok ptoks && (escapes_ok tok && true)); reflexivity.
    + reflexivity.
Qed.

(* ================================================================ C. local edits; test, remove, add, replace *)

Section Ops.
  (* allocation does not fail (C08 is about the case where it does) *)
  Variable al : alloc.
  Hypothesis Hal : forall n, al n = true.

  (* ---- add: json_pointer_set_single_path with the inserting callback = RFC 6902 section 4.1 *)
  Lemma add_local v :
    local_ok (fun parent tok => set_single_path (insert_idx_cb true) al parent tok v) (add_child v).
  Proof.
    intros parent tok Hs. unfold set_single_path, add_child.
    destruct parent as [| | | | | |l|ms]; auto.
    - cbn [small] in Hs. apply andb_true_iff in Hs. destruct Hs as [Hl _].
      change (is_minus tok) with (is_dash tok). destruct (is_dash tok) eqn:Ed.
      + unfold array_add. rewrite Hal. split; [reflexivity|]. apply dash_escapes_ok; exact Ed.
      + destruct (array_index tok) as [i|] eqn:Ei.
        * destruct (index_some _ _ Ei) as (Hi & Hne & Hv). rewrite Hv.
          pose proof (zlen_nonneg l) as Hn.
          destruct (i >? UINT64_MAX) eqn:Esat.
          { unfold insert_idx_cb. replace (UINT64_MAX >? zlen l) with true by (unfold UINT64_MAX, UINT32_MAX in *; lia).
            left. replace (i <=? zlen l) with false by (unfold UINT64_MAX, UINT32_MAX in *; lia). reflexivity. }
          unfold insert_idx_cb. destruct (i >? zlen l) eqn:E1.
          { left. replace (i <=? zlen l) with false by lia. reflexivity. }
          replace (i <=? zlen l) with true by lia. unfold array_insert.
          destruct (i >=? zlen l) eqn:E2.
          { assert (i = zlen l) by lia. subst i. unfold array_put_idx_cb.
            replace (zlen l >? SIZE_MAX - 1) with false by (unfold SIZE_MAX, UINT32_MAX in *; lia).
            replace (zlen l <? zlen l) with false by lia.
            replace (zlen l + 1 >? SIZE_MAX / 8) with false by (unfold SIZE_MAX, UINT32_MAX in *; cbn; lia).
            rewrite Hal. cbn [einval_on_fail]. rewrite array_put_append. split; [|eapply index_escapes_ok; eauto].
            unfold insert_at. rewrite zfirstn_all, zskipn_all by lia. reflexivity. }
          replace (zlen l =? SIZE_MAX) with false by (unfold SIZE_MAX, UINT32_MAX in *; lia).
          rewrite Hal. cbn [einval_on_fail]. split; [reflexivity|]. eapply index_escapes_ok; eauto.
        * rewrite (index_none _ Ei). auto.
    - rewrite is_valid_escaping_ok. destruct (escapes_ok tok) eqn:E; cbn [negb]; [|auto].
      rewrite unescape_two_pass_eq_single, object_add_upsert. auto.
  Qed.

  (* ---- replace: the target must exist; then put_idx / object_add put the value there *)
  Definition g_replace (v : jv) (parent : jv) (tok : list byte) : sres :=
    match get_single_path parent tok with
    | SPErr e => SErr e
    | SPOk _ _ => set_single_path (insert_idx_cb false) al parent tok v
    end.

  Lemma dash_no_index tok idx sat : is_valid_index tok = IOk idx sat -> is_dash tok = false.
  Proof.
    destruct tok as [|c [|d r]]; try reflexivity. cbn [is_dash]. destruct (c =? 45) eqn:E; [|reflexivity].
    apply Z.eqb_eq in E. subst c. cbn. discriminate.
  Qed.

  Lemma replace_local v : local_ok (g_replace v) (replace_child v).
  Proof.
    intros parent tok Hs. unfold g_replace, replace_child.
    pose proof (step_conforms parent tok (small_step_repr _ Hs)) as S.
    destruct (get_single_path parent tok) as [st c|e] eqn:G.
    - destruct S as [S Es]. rewrite S.
      destruct (gsp_ok_inv _ _ _ _ G) as [(l & idx & sat & -> & V & -> & E) | (ms & -> & V & -> & E)].
      + unfold set_single_path. rewrite (dash_no_index _ _ _ V), V.
        cbn [small] in Hs. apply andb_true_iff in Hs. destruct Hs as [Hl _].
        pose proof (znth_some_range _ _ _ E) as R. unfold insert_idx_cb.
        replace (idx >? zlen l) with false by lia. unfold array_put_idx_cb.
        replace (idx >? SIZE_MAX - 1) with false by (unfold SIZE_MAX, UINT32_MAX in *; lia).
        replace (idx <? zlen l) with true by lia. cbn [einval_on_fail put_child].
        rewrite array_put_arr_put by lia. auto.
      + unfold set_single_path. rewrite V. cbn [negb put_child].
        rewrite object_add_upsert. unfold upsert. rewrite E. auto.
    - destruct S as [_ [S|S]]; [rewrite S|]; auto.
  Qed.

  (* ---- remove: the child must exist; array_list_del_idx / json_object_object_del take it out *)
  Definition drop_child (parent : jv) (st : step) : jv :=
    match parent, st with
    | JArr l, inr i => JArr (zfirstn i l ++ zskipn (i + 1) l)
    | JObj ms, inl k => JObj (object_del ms k)
    | _, _ => parent
    end.

  Definition g_remove (parent : jv) (tok : list byte) : sres :=
    match get_single_path parent tok with
    | SPErr e => SErr e
    | SPOk st _ => SOk (drop_child parent st)
    end.

  Lemma remove_local : local_ok g_remove del_child.
  Proof.
    intros parent tok Hs. unfold g_remove, del_child.
    pose proof (step_conforms parent tok (small_step_repr _ Hs)) as S.
    destruct (get_single_path parent tok) as [st c|e] eqn:G.
    - destruct S as [S Es]. rewrite S.
      destruct (gsp_ok_inv _ _ _ _ G) as [(l & idx & sat & -> & V & -> & E) | (ms & -> & V & -> & E)];
        cbn [drop_child]; rewrite ?object_del_remove_member; auto.
    - destruct S as [_ [S|S]]; [rewrite S|]; auto.
  Qed.

  Lemma small_drop_child parent st : small parent = true -> small (drop_child parent st) = true.
  Proof.
    intros H. destruct parent as [| | | | | |l|ms], st as [k|i]; cbn [drop_child]; try exact H.
    - cbn [small] in *. apply small_object_del. exact H.
    - cbn [small] in *. apply andb_true_iff in H. destruct H as [Hl Hc].
      unfold zfirstn, zskipn. rewrite forallb_app.
      destruct (forallb_split small (Z.to_nat i) l Hc) as [H1 _].
      destruct (forallb_split small (Z.to_nat (i + 1)) l Hc) as [_ H2]. rewrite H1, H2.
      assert (zlen (firstn (Z.to_nat i) l ++ skipn (Z.to_nat (i + 1)) l) <= zlen l).
      { rewrite !zlen_length, app_length, firstn_length, skipn_length. lia. }
      replace (zlen (firstn (Z.to_nat i) l ++ skipn (Z.to_nat (i + 1)) l) <=? UINT32_MAX) with true by lia.
      reflexivity.
  Qed.

  (* ---- the pointer lookups of the operations *)
  Lemma not_null_is_null t : t <> JNull -> is_null t = false.
  Proof. destruct t; congruence || reflexivity. Qed.

  Lemma lookup_conforms doc p : doc <> JNull -> small doc = true ->
    match ptr_get doc p with
    | GOk path n => spec_get doc p = Some (path, n)
    | GErr _ => spec_get doc p = None
    end.
  Proof.
    intros Hn Hs. pose proof (get_conforms doc p Hn (small_get_repr _ _ Hs)) as G.
    destruct (ptr_get doc p); tauto.
  Qed.

  (* ---- add *)
  Lemma add_conforms doc p v : small doc = true ->
    match ptr_set_with_array_cb (insert_idx_cb true) al doc p v with
    | SOk d => rfc_add doc p v = Some d
    | SErr _ => rfc_add doc p v = None
    end.
  Proof.
    intros Hs. destruct p as [|c s]; [reflexivity|]. destruct (c =? 47) eqn:Ec.
    - apply Z.eqb_eq in Ec. subst c. rewrite set_is_model_edit. apply edit_conforms; [apply add_local|exact Hs].
    - unfold ptr_set_with_array_cb. rewrite Ec. cbn [negb]. unfold rfc_add, edit_at, parse_pointer. rewrite Ec. reflexivity.
  Qed.

  (* ---- replace *)
  Definition model_replace (doc : jv) (p : list byte) (v : jv) : sres :=
    match ptr_get doc p with
    | GErr e => SErr e
    | GOk _ _ => ptr_set_with_array_cb (insert_idx_cb false) al doc p v
    end.

  Lemma replace_conforms doc p v : doc <> JNull -> small doc = true ->
    match model_replace doc p v with
    | SOk d => rfc_replace doc p v = Some d
    | SErr _ => rfc_replace doc p v = None
    end.
  Proof.
    intros Hn Hs. unfold model_replace. destruct p as [|c s].
    - unfold ptr_get. rewrite (not_null_is_null _ Hn). reflexivity.
    - destruct (c =? 47) eqn:Ec.
      + apply Z.eqb_eq in Ec. subst c.
        assert (F : match ptr_get doc (47 :: s) with
                    | GErr e => SErr e
                    | GOk _ _ => ptr_set_with_array_cb (insert_idx_cb false) al doc (47 :: s) v
                    end = model_edit (g_replace v) doc s).
        { unfold ptr_get. rewrite (not_null_is_null _ Hn). unfold get_recursive. cbn [Z.eqb Pos.eqb].
          rewrite set_is_model_edit. unfold model_edit, g_replace.
          pose proof (tokens_split_last s) as Ht.
          set (ptoks := removelast (split_slash s)) in *. set (tok := last (split_slash s) []) in *.
          rewrite Ht, walk_app. destruct (get_walk doc ptoks) as [pp parent|e]; [|reflexivity].
          cbn [get_walk]. destruct (get_single_path parent tok) as [st c|e]; reflexivity. }
        rewrite F. apply edit_conforms; [apply replace_local|exact Hs].
      + unfold ptr_get. rewrite (not_null_is_null _ Hn). unfold get_recursive. rewrite Ec.
        unfold rfc_replace, edit_at, parse_pointer. rewrite Ec. reflexivity.
  Qed.

  (* ---- remove (also the first half of move) *)
  Lemma remove_conforms doc p : doc <> JNull -> small doc = true ->
    match ptr_get_internal doc p with
    | GIErr _ => rfc_remove doc p = None
    | GIOk r => exists d, remove_result doc r = Some d /\ rfc_remove doc p = Some d /\ small d = true
    end.
  Proof.
    intros Hn Hs. unfold ptr_get_internal. rewrite (not_null_is_null _ Hn). destruct p as [|c s].
    - exists JNull. auto.
    - destruct (c =? 47) eqn:Ec.
      2:{ unfold rfc_remove, edit_at, parse_pointer. rewrite Ec. reflexivity. }
      apply Z.eqb_eq in Ec. subst c.
      pose proof (edit_conforms g_remove del_child (Some JNull) doc s remove_local Hs) as E.
      unfold model_edit in E. fold (rfc_remove doc (47 :: s)) in E.
      pose proof (tokens_split_last s) as Ht.
      set (ptoks := removelast (split_slash s)) in *. set (tok := last (split_slash s) []) in *.
      rewrite Ht, walk_app.
      destruct (get_walk doc ptoks) as [ppath parent|e] eqn:G; [|exact E].
      cbn [get_walk]. unfold g_remove in E.
      destruct (get_single_path parent tok) as [st c|e] eqn:S; [|exact E].
      exists (subst_at ppath (drop_child parent st) doc).
      assert (Hp : small parent = true) by (eapply small_walk; eauto).
      split; [|split; [exact E|]].
      + unfold remove_result. cbn [r_parent r_key_in_parent r_index_in_parent].
        destruct (gsp_ok_inv _ _ _ _ S) as [(l & idx & sat & -> & V & -> & Ex) | (ms & -> & V & -> & Ex)].
        * cbn [is_array is_object drop_child]. rewrite last_last.
          cbn [small] in Hp. apply andb_true_iff in Hp. destruct Hp as [Hl _].
          pose proof (znth_some_range _ _ _ Ex) as R.
          rewrite Z.mod_small by (unfold UINT32_MAX in *; lia). unfold array_del_idx.
          replace (idx >? SIZE_MAX - 1) with false by (unfold SIZE_MAX, UINT32_MAX in *; lia).
          replace ((idx >=? zlen l) || (idx + 1 >? zlen l)) with false by lia. reflexivity.
        * cbn [is_array is_object drop_child]. rewrite remove_key_name. reflexivity.
      + apply small_subst; [exact Hs|]. apply small_drop_child. exact Hp.
  Qed.

  (* ================================================================ D. move and copy *)

  (* how an operation of the model and of the specification relate: both succeed with the
     same document, or both are in error *)
  Definition agree (m : opres) (s : option jv) : Prop :=
    match m, s with
    | OOk d, Some d' => d = d'
    | OErr _ _, None => True
    | _, _ => False
    end.

  (* the test on the two strings, for a non-empty "from" *)
  Definition pv_core (from p : list byte) : verdict :=
    if is_prefix from p then
      match skipn (length from) p with
      | [] => VSame
      | c :: _ => if c =? 47 then VChild else VNone
      end
    else VNone.

  Lemma pv_core_spec : forall from p,
    match pv_core from p with
    | VSame => from = p
    | VChild => strictly_extends from p = true
    | VNone => strictly_extends from p = false /\ from <> p
    end.
  Proof.
    induction from as [|a f IH]; intros p.
    - unfold pv_core. cbn [is_prefix length skipn]. destruct p as [|c r]; [reflexivity|].
      cbn [strictly_extends]. destruct (c =? 47); [reflexivity|]. split; [reflexivity|discriminate].
    - destruct p as [|b q].
      + unfold pv_core. cbn. split; [reflexivity|discriminate].
      + specialize (IH q). unfold pv_core in *. cbn [is_prefix length skipn strictly_extends].
        destruct (a =? b) eqn:E; cbn [andb].
        * apply Z.eqb_eq in E. subst b. destruct (is_prefix f q).
          { destruct (skipn (length f) q) as [|c r].
            - subst. reflexivity.
            - destruct (c =? 47); [exact IH|]. destruct IH as [I1 I2]. split; [exact I1|congruence]. }
          destruct IH as [I1 I2]. split; [exact I1|congruence].
        * split; [reflexivity|]. intros H. inversion H. lia.
  Qed.

  Lemma prefix_verdict_move from p :
    prefix_verdict true from p =
    match from with
    | [] => match p with [] => VSame | _ :: _ => VChild end
    | _ :: _ => pv_core from p
    end.
  Proof.
    destruct from as [|a f].
    - unfold prefix_verdict. cbn [andb is_prefix length skipn zlen Z.eqb]. destruct p as [|c r]; [reflexivity|].
      rewrite orb_true_r. reflexivity.
    - unfold prefix_verdict, pv_core. cbn [andb]. rewrite zlen_zero_cons.
      destruct (is_prefix (a :: f) p); [|reflexivity].
      destruct (skipn (length (a :: f)) p) as [|c r]; [reflexivity|]. rewrite orb_false_r. reflexivity.
  Qed.

  Lemma strictly_extends_irrefl : forall s, strictly_extends s s = false.
  Proof. induction s as [|a s IH]; [reflexivity|]. cbn. rewrite Z.eqb_refl. exact IH. Qed.

  Lemma lookup_internal_conforms doc p : doc <> JNull -> small doc = true ->
    match ptr_get_internal doc p with
    | GIOk r => exists path, spec_get doc p = Some (path, r_obj r)
    | GIErr _ => spec_get doc p = None
    end.
  Proof.
    intros Hn Hs. pose proof (get_internal_get doc p) as G. pose proof (lookup_conforms doc p Hn Hs) as L.
    destruct (ptr_get_internal doc p) as [r|e]; rewrite G in L; eauto.
  Qed.

  Lemma copy_conforms doc from p : doc <> JNull -> small doc = true ->
    agree (move_copy_strings al doc from p false) (rfc_copy doc from p).
  Proof.
    intros Hn Hs. unfold move_copy_strings, rfc_copy. cbn [prefix_verdict andb].
    pose proof (lookup_internal_conforms doc from Hn Hs) as L.
    destruct (ptr_get_internal doc from) as [r|e].
    - destruct L as [path L]. rewrite L. unfold placed_value.
      pose proof (add_conforms doc p (r_obj r) Hs) as A.
      destruct (ptr_set_with_array_cb (insert_idx_cb true) al doc p (r_obj r)); rewrite A; cbn; auto.
    - rewrite L. exact I.
  Qed.

  Lemma move_conforms doc from p : doc <> JNull -> small doc = true ->
    agree (move_copy_strings al doc from p true) (rfc_move doc from p).
  Proof.
    intros Hn Hs. unfold move_copy_strings, rfc_move. rewrite prefix_verdict_move.
    unfold same_location_needs_lookup. cbn [negb].
    pose proof (lookup_internal_conforms doc from Hn Hs) as L.
    pose proof (remove_conforms doc from Hn Hs) as R.
    destruct from as [|a f].
    - (* "from" is the whole document *)
      destruct p as [|c r].
      + cbn [andb strictly_extends]. destruct (ptr_get_internal doc []) as [r|e].
        * destruct L as [path L]. rewrite L. reflexivity.
        * rewrite L. exact I.
      + cbn [strictly_extends]. destruct (c =? 47) eqn:Ec; [exact I|].
        unfold spec_get, parse_pointer. cbn [spec_walk bytes_eqb].
        unfold rfc_remove, rfc_add, edit_at, parse_pointer. rewrite Ec. exact I.
    - pose proof (pv_core_spec (a :: f) p) as V. destruct (pv_core (a :: f) p).
      + (* onto itself *) subst p. rewrite strictly_extends_irrefl. cbn [andb].
        destruct (ptr_get_internal doc (a :: f)) as [r|e].
        * destruct L as [path L]. rewrite L, bytes_eqb_refl. reflexivity.
        * rewrite L. exact I.
      + rewrite V. exact I.
      + destruct V as [V1 V2]. rewrite V1. cbn [andb].
        destruct (ptr_get_internal doc (a :: f)) as [r|e].
        * destruct L as [path L]. rewrite L.
          replace (bytes_eqb (a :: f) p) with false by (symmetry; apply bytes_eqb_neq; exact V2).
          destruct R as (d1 & R1 & R2 & R3). rewrite R1, R2.
          change move_cb with (insert_idx_cb true).
          pose proof (add_conforms d1 p (r_obj r) R3) as A.
          destruct (ptr_set_with_array_cb (insert_idx_cb true) al d1 p (r_obj r)); rewrite A; cbn; auto.
        * rewrite L. exact I.
  Qed.

  (* ================================================================ E. one operation; the list *)

  (* the first recorded deviation: json_object_equal is not the RFC's equality on numbers of
     different representation.  [test_agrees]: this "test" operation does not run into it. *)
  Definition test_agrees (doc o : jv) : bool :=
    match op_string o n_op, op_string o n_path, op_member o n_value with
    | Some op, Some p, Some v =>
        if bytes_eqb op n_test then
          match spec_get doc p with
          | Some (_, n) => Bool.eqb (rfc_equal n v) (jv_equal v n)
          | None => true
          end
        else true
    | _, _, _ => true
    end.

  (* the guard of one step: representation bound; the document is not JSON null (second
     recorded deviation: the NULL pointer is no document for json_pointer_get*); no test
     across number representations *)
  Definition step_guard (doc o : jv) : bool :=
    small doc && negb (is_null doc) && test_agrees doc o.

  Lemma null_path_errors doc elem op :
    agree (if bytes_eqb op s_test then apply_test doc elem None
           else if bytes_eqb op s_remove then apply_remove doc None
           else if bytes_eqb op s_add then apply_add_replace al doc elem None true
           else if bytes_eqb op s_replace then apply_add_replace al doc elem None false
           else if bytes_eqb op s_move then apply_move_copy al doc elem None true
           else if bytes_eqb op s_copy then apply_move_copy al doc elem None false
           else OErr EINVAL doc) None.
  Proof.
    assert (T : agree (apply_test doc elem None) None).
    { unfold apply_test. destruct (field elem s_value); exact I. }
    assert (R : agree (apply_remove doc None) None) by exact I.
    assert (A : forall add, agree (apply_add_replace al doc elem None add) None).
    { intros add. unfold apply_add_replace. destruct (field elem s_value); [|exact I]. destruct add; exact I. }
    assert (M : forall move, agree (apply_move_copy al doc elem None move) None).
    { intros move. unfold apply_move_copy. destruct (field elem s_from) as [j|]; [|exact I]. destruct j; exact I. }
    repeat match goal with |- context [if ?b then _ else _] => destruct b end; auto. exact I.
  Qed.

  Lemma apply_op_conforms doc o : step_guard doc o = true -> agree (apply_op al doc o) (spec_op doc o).
  Proof.
    unfold step_guard. intros G. apply andb_true_iff in G. destruct G as [G Gt].
    apply andb_true_iff in G. destruct G as [Hs Hn].
    assert (Hnn : doc <> JNull) by (destruct doc; cbn in Hn; congruence).
    unfold apply_op, spec_op, test_agrees, op_string, op_member in *.
    destruct o as [| | | | | |l|ms]; try exact I.
    cbn [field]. rewrite !object_get_member.
    change s_op with n_op. change s_path with n_path.
    destruct (member ms n_op) as [jop|] eqn:Eop; [|exact I].
    destruct jop as [| | | | |op| |]; cbn [op_field];
      try (destruct (member ms n_path) as [[]|]; exact I).
    destruct (member ms n_path) as [jpath|] eqn:Ep; [|exact I].
    destruct jpath as [| | | | |p| |]; cbn [path_field]; try exact I.
    { apply null_path_errors. }
    change s_test with n_test. change s_remove with n_remove. change s_add with n_add.
    change s_replace with n_replace. change s_move with n_move. change s_copy with n_copy.
    destruct (bytes_eqb op n_test) eqn:Etest.
    { (* test *)
      unfold apply_test. cbn [field get_c]. rewrite object_get_member. change s_value with n_value.
      destruct (member ms n_value) as [v|] eqn:Ev; [|exact I].
      pose proof (lookup_conforms doc p Hnn Hs) as L. unfold rfc_test.
      destruct (ptr_get doc p) as [path n|e]; rewrite L in *; [|exact I].
      apply eqb_prop in Gt. rewrite Gt. destruct (jv_equal v n); cbn; auto. }
    destruct (bytes_eqb op n_remove) eqn:Eremove.
    { (* remove *)
      unfold apply_remove. cbn [get_internal_c].
      pose proof (remove_conforms doc p Hnn Hs) as R.
      destruct (ptr_get_internal doc p) as [r|e].
      - destruct R as (d & R1 & R2 & _). rewrite R1, R2. reflexivity.
      - rewrite R. exact I. }
    destruct (bytes_eqb op n_add) eqn:Eadd.
    { (* add *)
      unfold apply_add_replace. cbn [field set_c]. rewrite object_get_member. change s_value with n_value.
      destruct (member ms n_value) as [v|]; [|exact I]. unfold placed_value.
      pose proof (add_conforms doc p v Hs) as A.
      destruct (ptr_set_with_array_cb (insert_idx_cb true) al doc p v); rewrite A; cbn; auto. }
    destruct (bytes_eqb op n_replace) eqn:Ereplace.
    { (* replace *)
      unfold apply_add_replace. cbn [field set_c get_c]. rewrite object_get_member. change s_value with n_value.
      destruct (member ms n_value) as [v|]; [|exact I]. unfold placed_value.
      pose proof (replace_conforms doc p v Hnn Hs) as R. unfold model_replace in R.
      destruct (ptr_get doc p) as [path n|e].
      - destruct (ptr_set_with_array_cb (insert_idx_cb false) al doc p v); rewrite R; cbn; auto.
      - rewrite R. exact I. }
    destruct (bytes_eqb op n_move) eqn:Emove.
    { (* move *)
      unfold apply_move_copy. cbn [field]. rewrite object_get_member. change s_from with n_from.
      destruct (member ms n_from) as [jf|]; [|exact I].
      destruct jf as [| | | | |from| |]; cbn [from_field]; try exact I.
      apply move_conforms; assumption. }
    destruct (bytes_eqb op n_copy) eqn:Ecopy.
    { (* copy *)
      unfold apply_move_copy. cbn [field]. rewrite object_get_member. change s_from with n_from.
      destruct (member ms n_from) as [jf|]; [|exact I].
      destruct jf as [| | | | |from| |]; cbn [from_field]; try exact I.
      apply copy_conforms; assumption. }
    exact I.
  Qed.

  (* how the two runs relate: both complete with the same document, or both stop at the same
     operation *)
  Definition pagree (m : pres) (s : spres) : Prop :=
    match m, s with
    | PDone d, SDone d' => d = d'
    | PFail i _ _, SFail i' => i = i'
    | _, _ => False
    end.

  (* a guard holds along the run: for every operation that RFC 6902 evaluation reaches, on the
     document it reaches it with *)
  Fixpoint run_guard (g : jv -> jv -> bool) (ops : list jv) (doc : jv) : bool :=
    match ops with
    | [] => true
    | o :: rest =>
        g doc o && match spec_op doc o with
                   | Some doc' => run_guard g rest doc'
                   | None => true
                   end
    end.

  Lemma apply_ops_conforms : forall ops i doc,
    run_guard step_guard ops doc = true -> pagree (apply_ops al ops i doc) (spec_ops ops i doc).
  Proof.
    induction ops as [|o rest IH]; intros i doc G; [reflexivity|].
    cbn [run_guard] in G. apply andb_true_iff in G. destruct G as [G1 G2].
    pose proof (apply_op_conforms doc o G1) as A. cbn [apply_ops spec_ops].
    destruct (apply_op al doc o) as [d|e d|], (spec_op doc o) as [d'|]; cbn in A; try contradiction.
    - subst d'. apply IH. exact G2.
    - reflexivity.
  Qed.

  Theorem apply_conforms_guarded : forall target ops,
    target <> JNull -> run_guard step_guard ops target = true ->
    pagree (patch_apply al target (JArr ops)) (spec_ops ops 0 target).
  Proof.
    intros target ops Hn G. unfold patch_apply. rewrite (not_null_is_null _ Hn). apply apply_ops_conforms. exact G.
  Qed.
End Ops.
