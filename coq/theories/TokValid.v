(* TokValid.v — parse_valid (C01): parsing the rendering of an RFC 8259 syntax tree with
   json_tokener_parse_ex (NUL-terminated, default or strict mode) yields exactly the
   value the tree denotes, consumes exactly the text and reports success — for every
   well-formed tree whose nesting fits the configured depth, whose integer tokens fit
   64 bits and whose member names are free of U+0000. *)
From JC Require Import Base BaseLemmas Value TokModel TokProofs TokSyntax
  TokValidBase TokValidLit TokValidNum TokValidStr TokValidObj.
Local Open Scope Z_scope.

(* ---------------------------------------------------------------- the proved sub-grammar *)
(* the sub-grammar for which the value lemma is proved: by now, all of it *)
Fixpoint covered (s : stx) : bool :=
  match s with
  | SLit _ => true
  | SNum _ => true
  | SStr _ => true
  | SArr _ es => forallb (fun x : ws * stx * ws => covered (el_val x)) es
  | SObj _ ms => forallb (fun m : ws * list schar * ws * ws * stx * ws => covered (m_val m)) ms
  end.

Lemma covered_all s : covered s = true.
Proof.
  induction s as [l|n|cs|w es IH|w ms IH] using stx_ind'; try reflexivity.
  - cbn [covered]. apply forallb_forall. rewrite Forall_forall in IH. exact IH.
  - cbn [covered]. apply forallb_forall. rewrite Forall_forall in IH. exact IH.
Qed.

(* ---------------------------------------------------------------- renderings are NUL-free *)
Definition nonul (l : list byte) : bool := forallb (fun b => negb (b =? 0)) l.
Lemma nonul_app a b : nonul (a ++ b) = nonul a && nonul b.
Proof. apply forallb_app. Qed.
Lemma nonul_cons x a : nonul (x :: a) = negb (x =? 0) && nonul a.
Proof. reflexivity. Qed.
Lemma nonul_ws w : all_ws w = true -> nonul w = true.
Proof.
  unfold nonul, all_ws. rewrite !forallb_forall. intros H b Hb. specialize (H b Hb). unfold is_ws in H. lia.
Qed.
Lemma nonul_digits ds : all_digits ds = true -> nonul ds = true.
Proof.
  unfold nonul, all_digits. rewrite !forallb_forall. intros H b Hb. specialize (H b Hb). unfold is_digit in H. lia.
Qed.
Lemma upto_nul_nonul l : nonul l = true -> upto_nul l = l ++ [0].
Proof.
  induction l as [|b l IH]; [reflexivity|]. cbn [nonul forallb upto_nul]. intros H. apply andb_true_iff in H. destruct H as [H1 H2].
  destruct (b =? 0); [discriminate|]. rewrite (IH H2). reflexivity.
Qed.

Lemma nonul_num n : wf_num n = true -> nonul (render_num n) = true.
Proof.
  destruct n as [neg ip fr ex]. unfold wf_num, render_num. cbn [n_neg n_int n_frac n_exp]. intros H.
  apply andb_true_iff in H. destruct H as [H Hex]. apply andb_true_iff in H. destruct H as [Hip Hfr].
  destruct (wf_int_facts ip Hip) as (_ & Hd & _).
  pose proof (wf_frac_facts fr Hfr) as Ffr. pose proof (wf_exp_facts ex Hex) as Fex.
  rewrite !nonul_app, (nonul_digits ip Hd).
  assert (E1 : nonul (if neg then [45] else []) = true) by (destruct neg; reflexivity).
  assert (E2 : nonul (render_frac fr) = true).
  { destruct fr as [fd|]; [|reflexivity]. cbn [render_frac]. rewrite nonul_cons, (nonul_digits fd (proj1 Ffr)). reflexivity. }
  assert (E3 : nonul (render_exp ex) = true).
  { destruct ex as [[[ec sg] ed]|]; [|reflexivity]. destruct Fex as (Hec & Hsg & Hed & _). cbn [render_exp].
    rewrite nonul_cons, nonul_app, (nonul_digits ed Hed).
    destruct sg as [s0|]; cbn [nonul forallb]; lia. }
  rewrite E1, E2, E3. reflexivity.
Qed.

Lemma nonul_chars cs : wf_chars cs = true -> nonul (render_chars cs) = true.
Proof.
  induction cs as [|ch r IH]; [reflexivity|]. cbn [wf_chars forallb]. intros H.
  apply andb_true_iff in H. destruct H as [Hc Hr].
  change (render_chars (ch :: r)) with (render_schar ch ++ render_chars r). rewrite nonul_app, (IH Hr), andb_true_r.
  destruct ch as [b|e|d1 d2 d3 d4]; cbn [render_schar wf_schar] in *.
  - cbn [nonul forallb]. lia.
  - destruct e; reflexivity.
  - apply andb_true_iff in Hc. destruct Hc as [Hc H4]. apply andb_true_iff in Hc. destruct Hc as [Hc H3].
    apply andb_true_iff in Hc. destruct Hc as [H1 H2].
    apply is_hex_cases in H1, H2, H3, H4. cbn [nonul forallb]. lia.
Qed.
Lemma nonul_str cs : wf_chars cs = true -> nonul (render_str cs) = true.
Proof. intros H. unfold render_str. rewrite nonul_cons, nonul_app, (nonul_chars cs H). reflexivity. Qed.

Lemma nonul_elems es :
  Forall (fun x => wf_stx (el_val x) -> nonul (render (el_val x)) = true) es ->
  forallb el_ok es = true -> nonul (render_elems es) = true.
Proof.
  induction es as [|[[a e] b] r IH]; [reflexivity|]. intros HF Hw.
  inversion HF as [|? ? He Hr]; subst. cbn [forallb el_ok] in Hw.
  apply andb_true_iff in Hw. destruct Hw as [Hwe Hwr].
  apply andb_true_iff in Hwe. destruct Hwe as [Hwe Hwb]. apply andb_true_iff in Hwe. destruct Hwe as [Hwa Hwe].
  cbn [render_elems render_el]. rewrite !nonul_app. rewrite (nonul_ws a Hwa), (nonul_ws b Hwb).
  unfold el_val in He; cbn [fst snd] in He. rewrite (He Hwe). cbn [andb].
  destruct r as [|y r]; [reflexivity|]. specialize (IH Hr Hwr). rewrite nonul_cons. exact IH.
Qed.

Lemma nonul_mems ms :
  Forall (fun m => wf_stx (m_val m) -> nonul (render (m_val m)) = true) ms ->
  forallb mem_ok ms = true -> nonul (render_mems ms) = true.
Proof.
  induction ms as [|[[[[[a k] b] cw] v] d] r IH]; [reflexivity|]. intros HF Hwf.
  inversion HF as [|? ? He Hr]; subst. cbn [forallb mem_ok] in Hwf.
  apply andb_true_iff in Hwf. destruct Hwf as [Hwm Hwr].
  apply andb_true_iff in Hwm. destruct Hwm as [Hwm Hwd]. apply andb_true_iff in Hwm. destruct Hwm as [Hwm Hwv].
  apply andb_true_iff in Hwm. destruct Hwm as [Hwm Hwc]. apply andb_true_iff in Hwm. destruct Hwm as [Hwm Hwb].
  apply andb_true_iff in Hwm. destruct Hwm as [Hwa Hwk].
  cbn [render_mems render_mem]. unfold m_val in He; cbn [fst snd] in He.
  rewrite !nonul_app, nonul_cons, !nonul_app.
  rewrite (nonul_ws a Hwa), (nonul_ws b Hwb), (nonul_ws cw Hwc), (nonul_ws d Hwd), (nonul_str k Hwk), (He Hwv). cbn [andb negb Z.eqb].
  destruct r as [|y r]; [reflexivity|]. specialize (IH Hr Hwr). rewrite nonul_cons. exact IH.
Qed.

Lemma render_nonul s : wf_stx s -> nonul (render s) = true.
Proof.
  induction s as [l|n|cs|w es IH|w ms IH] using stx_ind'; intros Hw.
  - destruct l; reflexivity.
  - apply nonul_num. exact Hw.
  - apply nonul_str. exact Hw.
  - unfold wf_stx in Hw. cbn [wf_stxb] in Hw. apply andb_true_iff in Hw. destruct Hw as [Hw Hes].
    destruct es as [|y r].
    + cbn [render]. rewrite nonul_cons, nonul_app, (nonul_ws w Hw). reflexivity.
    + rewrite render_arr_cons, nonul_cons. apply (nonul_elems (y :: r) IH Hes).
  - unfold wf_stx in Hw. cbn [wf_stxb] in Hw. apply andb_true_iff in Hw. destruct Hw as [Hw Hms].
    destruct ms as [|y r].
    + cbn [render]. rewrite nonul_cons, nonul_app, (nonul_ws w Hw). reflexivity.
    + rewrite render_obj_cons, nonul_cons. apply (nonul_mems (y :: r) IH Hms).
Qed.

Section S.
Variable sb : list byte -> Z.

(* ---------------------------------------------------------------- the value lemma *)
Lemma value_ok c s :
  wf_stx s -> covered s = true -> ints_in_range s = true -> names_nul_free s = true -> val_ok sb c s.
Proof.
  induction s as [l|n|cs|w es IH|w ms IH] using stx_ind'; intros Hw Hc Hi Hn.
  - apply lit_ok.
  - apply num_ok; [exact Hw|exact Hi].
  - apply str_ok. exact Hw.
  - apply arr_ok; [exact Hw|].
    unfold wf_stx in Hw. cbn [wf_stxb covered ints_in_range names_nul_free] in *.
    apply andb_true_iff in Hw. destruct Hw as [_ Hw].
    rewrite forallb_forall in Hw, Hc, Hi, Hn. rewrite Forall_forall in IH |- *.
    intros [[a e] b] Hx. apply (IH _ Hx).
    + specialize (Hw _ Hx). cbn in Hw. unfold wf_stx, el_val. cbn [fst snd].
      apply andb_true_iff in Hw. destruct Hw as [Hw _]. apply andb_true_iff in Hw. destruct Hw as [_ Hw]. exact Hw.
    + apply (Hc _ Hx).
    + apply (Hi _ Hx).
    + apply (Hn _ Hx).
  - apply obj_ok; [exact Hw|exact Hn|].
    unfold wf_stx in Hw. cbn [wf_stxb covered ints_in_range names_nul_free] in *.
    apply andb_true_iff in Hw. destruct Hw as [_ Hw].
    rewrite forallb_forall in Hw, Hc, Hi, Hn. rewrite Forall_forall in IH |- *.
    intros [[[[[a k] b] cw] v] d] Hx. apply (IH _ Hx).
    + specialize (Hw _ Hx). cbn in Hw. unfold wf_stx, m_val. cbn [fst snd].
      apply andb_true_iff in Hw. destruct Hw as [Hw _]. apply andb_true_iff in Hw. destruct Hw as [_ Hw]. exact Hw.
    + apply (Hc _ Hx).
    + apply (Hi _ Hx).
    + specialize (Hn _ Hx). apply andb_true_iff in Hn. apply Hn.
Qed.

(* ---------------------------------------------------------------- the whole call *)
Lemma final_nul c f v g off x nb lo :
  (2 <= f)%nat ->
  exists t' l', run_f sb f [0] (T c [mksrec S_eatws S_finish v None] g 0 off) (mkloc x nb lo None) = LOut t' l' /\
    finish_call t' l' = PR (reset_levels t') (Some v) /\ err t' = TE_success /\ char_offset t' = off.
Proof.
  intros Hf. fuel f. destruct c as [md sf al]. destruct g as [p d s u q].
  destruct sf.
  all: eexists _, _; split; [apply runT_O; lazy; reflexivity|lazy; repeat split; reflexivity].
Qed.

Theorem parse_of_val_ok D strictf s lead trail t :
  val_ok sb (mkcf D strictf false) s ->
  nonul (render s) = true -> all_ws lead = true -> all_ws trail = true ->
  Z.of_nat (nest s) < D ->
  tok_new D strictf false false = Some t ->
  exists t', parse_ex_cstr sb t (render_doc lead s trail) = PR t' (Some (value sb s)) /\
             err t' = TE_success /\ char_offset t' = zlen (render_doc lead s trail).
Proof.
  intros HV Hnn Hl Htr Hd Hnew.
  unfold tok_new in Hnew. destruct (D <? 1); [discriminate|]. inversion Hnew; subst t; clear Hnew.
  unfold parse_ex_cstr, render_doc. rewrite upto_nul_nonul.
  2:{ rewrite !nonul_app, Hnn, (nonul_ws _ Hl), (nonul_ws _ Htr). reflexivity. }
  unfold parse_ex.
  change (set_err (set_off (mktok [fresh_level] D [] false 0 0 0 0 strictf false false 0 TE_success) 0) TE_success)
    with (T (mkcf D strictf false) [fresh_level] (mkgb [] false 0 0 0) 0 0).
  rewrite run_run_f. rewrite <- !app_assoc. unfold val_ok, fresh_level in *.
  destruct (run_ws sb (mkcf D strictf false) lead REDO_FUEL S_start JNull None [] (mkgb [] false 0 0 0) 0 0 1 0 JNull None
              (render s ++ trail ++ [0])) as (f1 & x1 & Hf1 & ->); [unfold REDO_FUEL; lia|exact Hl|].
  destruct (HV f1 [] (mkgb [] false 0 0 0) (0 + zlen lead) x1 0 JNull (trail ++ [0])) as (f2 & g2 & x2 & lo2 & Hf2 & ->).
  { lia. } { cbn [zlen c_md]. lia. } { apply fol_rest_ws; [exact Htr|reflexivity]. }
  destruct (run_ws sb (mkcf D strictf false) trail f2 S_finish (value sb s) None [] g2 0 (0 + zlen lead + zlen (render s)) x2 0 lo2 None
              [0]) as (f3 & x3 & Hf3 & ->); [exact Hf2|exact Htr|].
  destruct (final_nul (mkcf D strictf false) f3 (value sb s) g2 (0 + zlen lead + zlen (render s) + zlen trail) x3 0 lo2)
    as (t' & l' & -> & -> & He & Ho); [lia|].
  exists (reset_levels t'). split; [reflexivity|]. split; [exact He|].
  change (char_offset (reset_levels t')) with (char_offset t'). rewrite Ho, !zlen_app. lia.
Qed.

Theorem parse_valid_covered D strictf s lead trail t :
  wf_stx s -> all_ws lead = true -> all_ws trail = true -> covered s = true ->
  Z.of_nat (nest s) < D -> ints_in_range s = true -> names_nul_free s = true ->
  tok_new D strictf false false = Some t ->
  exists t', parse_ex_cstr sb t (render_doc lead s trail) = PR t' (Some (value sb s)) /\
             err t' = TE_success /\ char_offset t' = zlen (render_doc lead s trail).
Proof.
  intros Hw Hl Ht Hc Hd Hi Hn Hnew.
  apply (parse_of_val_ok D strictf); auto.
  - apply value_ok; assumption.
  - apply render_nonul; assumption.
Qed.

(* the whole of RFC 8259 *)
Theorem parse_valid D strictf s lead trail t :
  wf_stx s -> all_ws lead = true -> all_ws trail = true ->
  Z.of_nat (nest s) < D -> ints_in_range s = true -> names_nul_free s = true ->
  tok_new D strictf false false = Some t ->
  exists t', parse_ex_cstr sb t (render_doc lead s trail) = PR t' (Some (value sb s)) /\
             err t' = TE_success /\ char_offset t' = zlen (render_doc lead s trail).
Proof.
  intros Hw Hl Ht Hd Hi Hn Hnew. apply (parse_valid_covered D strictf); auto. apply covered_all.
Qed.

End S.

(* non-vacuity: a tree using every constructor satisfies the hypotheses (the theorem then
   gives the value; cross-checked here by evaluating the parser inside Coq):
   [ null,-12\t,0.5E+1,\n"a\né𐀀\uD800x\uD800",{ },{ "a" : 1 ,"b":[\r],"a":true}] *)
Definition ex_tree : stx :=
  SArr [] [([32], SLit LNull, []); ([], SNum (mknum true [49;50] None None), [9]);
           ([], SNum (mknum false [48] (Some [53]) (Some (69, Some 43, [49]))), []);
           ([10], SStr [CRaw 97; CEsc En; CUni 48 48 101 57; CUni 100 56 48 48; CUni 100 99 48 48; CUni 68 56 48 48; CRaw 120; CUni 68 56 48 48], []);
           ([], SObj [32] [], []);
           ([], SObj [] [([32], [CRaw 97], [32], [32], SNum (mknum false [49] None None), [32]);
                         ([], [CRaw 98], [], [], SArr [13] [], []);
                         ([], [CRaw 97], [], [], SLit LTrue, [])], [])].
Definition jv_eqb_ex (v : jv) : bool :=
  match v with
  | JArr [JNull; JInt (-12); JDouble 7 (Some [48;46;53;69;43;49]);
          JStr [97;10;195;169;240;144;128;128;239;191;189;120;239;191;189]; JObj [];
          JObj [([97], JBool true); ([98], JArr [])]] => true
  | _ => false
  end.
Definition parse_valid_example_ok : bool :=
  wf_stxb ex_tree && (Z.of_nat (nest ex_tree) <? 3) && ints_in_range ex_tree && names_nul_free ex_tree &&
  jv_eqb_ex (value (fun _ => 7) ex_tree) &&
  match tok_new 3 true false false with
  | Some t => match parse_ex_cstr (fun _ => 7) t (render_doc [32] ex_tree [10]) with
              | PR t' (Some v) => jv_eqb_ex v && match err t' with TE_success => true | _ => false end
              | _ => false end
  | None => false end.
Lemma parse_valid_example : parse_valid_example_ok = true.
Proof. vm_compute. reflexivity. Qed.
