(* TokValid.v — parse_valid (C01): parsing the rendering of a syntax tree yields exactly
   the value the tree denotes, in both modes, for every tree of the sub-grammar [covered]. *)
From JC Require Import Base BaseLemmas Value TokModel TokProofs TokSyntax TokValidBase TokValidLit.
Local Open Scope Z_scope.

(* ---------------------------------------------------------------- the proved sub-grammar *)
Fixpoint covered (s : stx) : bool :=
  match s with
  | SLit _ => true
  | SArr _ es => forallb (fun x : ws * stx * ws => covered (el_val x)) es
  | _ => false
  end.

(* ---------------------------------------------------------------- renderings are NUL-free *)
Definition nonul (l : list byte) : bool := forallb (fun b => negb (b =? 0)) l.
Lemma nonul_app a b : nonul (a ++ b) = nonul a && nonul b.
Proof. apply forallb_app. Qed.
Lemma nonul_ws w : all_ws w = true -> nonul w = true.
Proof.
  unfold nonul, all_ws. rewrite !forallb_forall. intros H b Hb. specialize (H b Hb). unfold is_ws in H. lia.
Qed.
Lemma upto_nul_nonul l : nonul l = true -> upto_nul l = l ++ [0].
Proof.
  induction l as [|b l IH]; [reflexivity|]. cbn [nonul forallb upto_nul]. intros H. apply andb_true_iff in H. destruct H as [H1 H2].
  destruct (b =? 0); [discriminate|]. rewrite (IH H2). reflexivity.
Qed.

Lemma nonul_elems es :
  Forall (fun x => wf_stx (el_val x) -> nonul (render (el_val x)) = true) es ->
  forallb el_ok es = true -> nonul (render_elems es) = true.
Proof.
  induction es as [|[[a e] b] r IH]; [reflexivity|]. intros HF Hw.
  inversion HF as [|? ? He Hr]; subst. cbn [forallb el_ok] in Hw.
  apply andb_true_iff in Hw. destruct Hw as [Hwe Hwr].
  apply andb_true_iff in Hwe. destruct Hwe as [Hwe Hwb]. apply andb_true_iff in Hwe. destruct Hwe as [Hwa Hwe].
  cbn [render_elems render_el]. rewrite !nonul_app. rewrite (nonul_ws a Hwa), (nonul_ws b Hwb).
  unfold el_val in He; cbn [fst snd] in He. rewrite (He Hwe). cbn [andb].
  destruct r as [|y r]; [reflexivity|]. specialize (IH Hr Hwr). cbn [nonul forallb] in *. exact IH.
Qed.

Lemma render_nonul s : covered s = true -> wf_stx s -> nonul (render s) = true.
Proof.
  induction s as [l|n|cs|w es IH|w ms IH] using stx_ind'; intros Hc Hw; try discriminate.
  - destruct l; reflexivity.
  - unfold wf_stx in Hw. cbn [wf_stxb] in Hw. apply andb_true_iff in Hw. destruct Hw as [Hw Hes].
    destruct es as [|y r].
    + cbn [render]. cbn [nonul forallb]. change (forallb (fun b => negb (b =? 0)) (w ++ [93])) with (nonul (w ++ [93])).
      rewrite nonul_app, (nonul_ws w Hw). reflexivity.
    + rewrite render_arr_cons. cbn [nonul forallb].
      change (forallb (fun b => negb (b =? 0)) (render_elems (y :: r))) with (nonul (render_elems (y :: r))).
      rewrite nonul_elems; [reflexivity| |exact Hes].
      cbn [covered] in Hc. rewrite forallb_forall in Hc. rewrite Forall_forall in IH |- *.
      intros x Hx Hwx. apply IH; [exact Hx|apply Hc; exact Hx|exact Hwx].
Qed.

Section S.
Variable sb : list byte -> Z.

(* ---------------------------------------------------------------- the value lemma *)
Lemma value_ok c s :
  wf_stx s -> covered s = true -> ints_in_range s = true -> names_nul_free s = true -> val_ok sb c s.
Proof.
  induction s as [l|n|cs|w es IH|w ms IH] using stx_ind'; intros Hw Hc Hi Hn; try discriminate.
  - apply lit_ok.
  - apply arr_ok; [exact Hw|].
    unfold wf_stx in Hw. cbn [wf_stxb covered ints_in_range names_nul_free] in *.
    apply andb_true_iff in Hw. destruct Hw as [_ Hw].
    rewrite forallb_forall in Hw, Hc, Hi, Hn. rewrite Forall_forall in IH |- *.
    intros [[a e] b] Hx. apply (IH _ Hx).
    + specialize (Hw _ Hx). cbn in Hw. unfold wf_stx, el_val. cbn [fst snd].
      apply andb_true_iff in Hw. destruct Hw as [Hw _]. apply andb_true_iff in Hw. destruct Hw as [_ Hw]. exact Hw.
    + apply (Hc _ Hx).
    + apply (Hi _ Hx).
    + apply (Hn _ Hx).
Qed.

(* ---------------------------------------------------------------- the whole call *)
Lemma final_nul c f v g off x nb lo :
  (2 <= f)%nat ->
  exists t' l', run_f sb f [0] (T c [mksrec S_eatws S_finish v None] g 0 off) (mkloc x nb lo None) = LOut t' l' /\
    finish_call t' l' = PR (reset_levels t') (Some v) /\ err t' = TE_success /\ char_offset t' = off.
Proof.
  intros Hf. fuel f. destruct c as [md sf al]. destruct g as [p d s u q].
  destruct sf.
  all: eexists _, _; split; [apply runT_O; lazy; reflexivity|lazy; repeat split; reflexivity].
Qed.

Theorem parse_of_val_ok D strictf s lead trail t :
  val_ok sb (mkcf D strictf false) s ->
  nonul (render s) = true -> all_ws lead = true -> all_ws trail = true ->
  Z.of_nat (nest s) < D ->
  tok_new D strictf false false = Some t ->
  exists t', parse_ex_cstr sb t (render_doc lead s trail) = PR t' (Some (value sb s)) /\
             err t' = TE_success /\ char_offset t' = zlen (render_doc lead s trail).
Proof.
  intros HV Hnn Hl Htr Hd Hnew.
  unfold tok_new in Hnew. destruct (D <? 1); [discriminate|]. inversion Hnew; subst t; clear Hnew.
  unfold parse_ex_cstr, render_doc. rewrite upto_nul_nonul.
  2:{ rewrite !nonul_app, Hnn, (nonul_ws _ Hl), (nonul_ws _ Htr). reflexivity. }
  unfold parse_ex.
  change (set_err (set_off (mktok [fresh_level] D [] false 0 0 0 0 strictf false false 0 TE_success) 0) TE_success)
    with (T (mkcf D strictf false) [fresh_level] (mkgb [] false 0 0 0) 0 0).
  rewrite run_run_f. rewrite <- !app_assoc. unfold val_ok, fresh_level in *.
  destruct (run_ws sb (mkcf D strictf false) lead REDO_FUEL S_start JNull None [] (mkgb [] false 0 0 0) 0 0 1 0 JNull None
              (render s ++ trail ++ [0])) as (f1 & x1 & Hf1 & ->); [unfold REDO_FUEL; lia|exact Hl|].
  destruct (HV f1 [] (mkgb [] false 0 0 0) (0 + zlen lead) x1 0 JNull (trail ++ [0])) as (f2 & g2 & x2 & lo2 & Hf2 & ->).
  { lia. } { cbn [zlen c_md]. lia. } { apply fol_rest_ws; [exact Htr|reflexivity]. }
  destruct (run_ws sb (mkcf D strictf false) trail f2 S_finish (value sb s) None [] g2 0 (0 + zlen lead + zlen (render s)) x2 0 lo2 None
              [0]) as (f3 & x3 & Hf3 & ->); [exact Hf2|exact Htr|].
  destruct (final_nul (mkcf D strictf false) f3 (value sb s) g2 (0 + zlen lead + zlen (render s) + zlen trail) x3 0 lo2)
    as (t' & l' & -> & -> & He & Ho); [lia|].
  exists (reset_levels t'). split; [reflexivity|]. split; [exact He|].
  change (char_offset (reset_levels t')) with (char_offset t'). rewrite Ho, !zlen_app. lia.
Qed.

Theorem parse_valid_covered D strictf s lead trail t :
  wf_stx s -> all_ws lead = true -> all_ws trail = true -> covered s = true ->
  Z.of_nat (nest s) < D -> ints_in_range s = true -> names_nul_free s = true ->
  tok_new D strictf false false = Some t ->
  exists t', parse_ex_cstr sb t (render_doc lead s trail) = PR t' (Some (value sb s)) /\
             err t' = TE_success /\ char_offset t' = zlen (render_doc lead s trail).
Proof.
  intros Hw Hl Ht Hc Hd Hi Hn Hnew.
  apply (parse_of_val_ok D strictf); auto.
  - apply value_ok; assumption.
  - apply render_nonul; assumption.
Qed.

End S.
