(* Properties_C05.v — statements only.  C05: every node is destroyed exactly once,
   exactly when its last owner releases it.

   Vocabulary (HeapModel.v): [step s o] is the model of one API call on the heap state [s];
   [admissible s L o] says the call follows the documented ownership rules given the
   client's ledger [L] of owned references (it owns what it transfers, never puts more than
   it owns, closes no cycle); [ledger_step] is the documented change of the ledger
   (constructors +1, get +1, put -1, a successful add/put_idx/insert/pointer_set transfers
   one reference, a failed one none).  [adm_hist]/[run] extend both to histories starting
   from the empty heap with the all-zero ledger [L0].  [Inv h L]: distinct ids, members of
   live containers are live, rc = ledger + in-degree > 0 for every live node, ledger >= 0
   and 0 on dead ids, a rank function strictly decreasing along member edges (DAG). *)
From JC Require Import Base HeapModel HeapProofs.
Local Open Scope Z_scope.

(* every admissible call returns normally (no undefined behaviour such as put on a freed
   node, the fuel of the release cascade suffices), keeps the invariant under the documented
   ledger change, creates only fresh ids and logs exactly the nodes that cease to exist *)
Theorem C05_step_preserves : forall s L o,
  SInv s L -> admissible s L o ->
  exists s' ret evs, step s o = ROk s' ret evs /\
    SInv s' (ledger_step (heap_of s) L o ret) /\ SFacts s s' evs.
Proof. exact step_preserves. Qed.
Print Assumptions C05_step_preserves.

(* rc_invariant, for all admissible histories *)
Theorem C05_rc_invariant : forall ops,
  adm_hist init_state L0 ops ->
  exists s' L' tr, run init_state L0 ops = Some (s', L', tr) /\ Inv (heap_of s') L' /\
    forall i n, hfind (heap_of s') i = Some n -> rc n = L' i + indeg (heap_of s') i /\ rc n > 0.
Proof. exact rc_invariant. Qed.
Print Assumptions C05_rc_invariant.

(* destroyed_once (1): over a whole history the destruction log has no duplicates and
   everything in it is gone *)
Theorem C05_destroyed_once : forall ops,
  adm_hist init_state L0 ops ->
  exists s' L' tr, run init_state L0 ops = Some (s', L', tr) /\ NoDup (dids (all_evs tr)) /\
    forall j, In j (dids (all_evs tr)) -> hfind (heap_of s') j = None.
Proof. exact destroyed_once_history. Qed.
Print Assumptions C05_destroyed_once.

(* destroyed_once (2): a node is logged in a step exactly when it existed before the step and
   after it neither the client nor a live container holds a reference to it — i.e. at the
   call that releases its last reference, not earlier, not later; the callback that runs is
   the one installed at that time *)
Theorem C05_destroyed_exactly : forall s L o,
  SInv s L -> admissible s L o ->
  exists s' ret evs, step s o = ROk s' ret evs /\
    let L' := ledger_step (heap_of s) L o ret in
    NoDup (dids evs) /\
    (forall j, In j (dids evs) <->
       (live (heap_of s) j /\
        ~ (L' j > 0 \/ exists i n, hfind (heap_of s') i = Some n /\ In j (kid_ids (children n))))) /\
    (forall j c, In (EDestroy j c) evs -> exists n, hfind (heap_of s) j = Some n /\ cb n = c).
Proof. exact destroyed_exactly. Qed.
Print Assumptions C05_destroyed_exactly.

(* destroyed_once (3): put returns 1 exactly when its argument is freed by this call, which
   is exactly when the count was 1 *)
Theorem C05_put_returns_freed : forall s L i,
  SInv s L -> admissible s L (OPut i) ->
  exists s' ret evs, step s (OPut i) = ROk s' ret evs /\ (ret = 0 \/ ret = 1) /\
    (ret = 1 <-> In i (dids evs)) /\ (ret = 1 <-> hfind (heap_of s') i = None) /\
    (ret = 1 <-> exists n, hfind (heap_of s) i = Some n /\ rc n = 1).
Proof. exact put_returns_freed. Qed.
Print Assumptions C05_put_returns_freed.

(* the release cascade never runs out of fuel and never meets a freed node *)
Theorem C05_put_fuel_sufficient : forall h L i, Inv h L -> L i >= 1 ->
  exists h' evs b, put_h h i = POk h' evs b.
Proof. exact put_fuel_sufficient. Qed.
Print Assumptions C05_put_fuel_sufficient.

(* survives_parent *)
Theorem C05_survives_parent : forall s L p,
  SInv s L -> admissible s L (OPut p) ->
  exists s' ret evs, step s (OPut p) = ROk s' ret evs /\
    forall c, upd L p (-1) c > 0 ->
      exists n n', hfind (heap_of s) c = Some n /\ hfind (heap_of s') c = Some n' /\
        nkind n' = nkind n /\ children n' = children n /\ cb n' = cb n /\ ud n' = ud n /\
        rc n' = upd L p (-1) c + indeg (heap_of s') c /\
        (forall x, In x (kid_ids (children n')) -> live (heap_of s') x).
Proof. exact survives_parent. Qed.
Print Assumptions C05_survives_parent.

Theorem C05_owned_is_live : forall s L o,
  SInv s L -> admissible s L o ->
  exists s' ret evs, step s o = ROk s' ret evs /\
    forall c, ledger_step (heap_of s) L o ret c > 0 -> live (heap_of s') c.
Proof. exact owned_is_live. Qed.
Print Assumptions C05_owned_is_live.

(* failure_keeps_ownership (no invariant needed) *)
Theorem C05_failure_keeps_ownership : forall s o s' ret evs,
  0 < nxt s -> step s o = ROk s' ret evs -> failed o ret = true ->
  s' = s /\ evs = [] /\ forall L, ledger_step (heap_of s) L o ret = L.
Proof. exact failure_keeps_ownership. Qed.
Print Assumptions C05_failure_keeps_ownership.

(* all_released_empty *)
Theorem C05_all_released_empty : forall h L, Inv h L -> (forall i, L i = 0) -> h = [].
Proof. exact all_released_empty. Qed.
Print Assumptions C05_all_released_empty.

Theorem C05_all_released_empty_history : forall ops s' L' tr,
  adm_hist init_state L0 ops -> run init_state L0 ops = Some (s', L', tr) ->
  (forall i, L' i = 0) -> heap_of s' = [].
Proof. exact all_released_empty_history. Qed.
Print Assumptions C05_all_released_empty_history.

(* userdata / serializer registrations (json_object_set_userdata, json_object_set_serializer;
   userdata NULL or not, delete callback or not, including the (NULL, NULL) reset): over any
   admissible history no registration's delete callback runs twice, and the registration a live
   node still carries has not run *)
Theorem C05_registration_released_once : forall ops,
  adm_hist init_state L0 ops ->
  exists s' L' tr, run init_state L0 ops = Some (s', L', tr) /\ NoDup (rels (all_evs tr)) /\
    forall i n t, hfind (heap_of s') i = Some n -> cb n = Some t -> ~ In (i, t) (rels (all_evs tr)).
Proof. exact registration_released_once. Qed.
Print Assumptions C05_registration_released_once.

(* the callback runs exactly when the registration ends.  Replacement: whatever the previous
   userdata was (NULL included), the previous callback is invoked exactly once, the new pair is
   installed under a fresh number, nothing else changes.  Destruction: C05_destroyed_exactly
   (the logged callback is the one installed when the step began). *)
Theorem C05_set_userdata_releases_old : forall s i u d n,
  hfind (heap_of s) i = Some n ->
  step s (OSetUd i u d) =
    ROk (mkSt (hset (heap_of s) i (mkNode (rc n) (nkind n) (children n) (if d then Some (nxt s) else None) u))
              (nxt s + 1))
        0 (match cb n with Some t => [EUser i t] | None => [] end).
Proof. exact set_userdata_releases_old. Qed.
Print Assumptions C05_set_userdata_releases_old.

(* which library calls may end a registration: only set_userdata / set_serializer (above) and the
   destruction of the node — never a value setter (json_object_set_boolean / set_int / set_int64 /
   set_uint64 / int_inc / set_double / set_string / set_string_len), whatever serializer function,
   userdata and callback the caller registered.  The one registration such a call releases is the
   library's own retained-text pair of json_object_new_double_s (number lib_reg = -1), by
   json_object_set_double; every node not carrying that one is left exactly as it was. *)
Theorem C05_value_setter_keeps_registrations : forall s i w s' ret evs,
  step s (OSetVal i w) = ROk s' ret evs ->
  (forall j t, In (j, t) (rels evs) -> j = i /\ t = lib_reg /\ w = SDouble) /\
  (forall j n, hfind (heap_of s) j = Some n -> cb n <> Some lib_reg -> hfind (heap_of s') j = Some n) /\
  (ret = 0 \/ ret = 1).
Proof. exact value_setter_keeps_registrations. Qed.
Print Assumptions C05_value_setter_keeps_registrations.

Theorem C05_nonvacuous_set_double :
  exists s1 s2, step init_state ONewDoubleS = ROk s1 1 [] /\
    step s1 (OSetVal 1 SDouble) = ROk s2 1 [EUser 1 lib_reg] /\
    option_map cb (hfind (heap_of s2) 1) = Some None /\
    step s2 (OSetVal 1 SDouble) = ROk s2 1 [] /\ step s2 (OSetVal 1 SInt) = ROk s2 0 [].
Proof. exact ex_set_double_drops_text. Qed.

Theorem C05_nonvacuous_registrations :
  adm_hist init_state L0 ex_reg_ops /\
  exists s' L' tr, run init_state L0 ex_reg_ops = Some (s', L', tr) /\
    rels (all_evs tr) = [(1, 0); (1, 2)] /\ all_evs tr = [EUser 1 0; EUser 1 2; EDestroy 1 None].
Proof. exact ex_regs. Qed.

(* ownership of member names (json_object_object_add_ex flags): a replace keeps the entry's
   key and its constant-key flag, a new member costs one library-owned key copy unless the
   caller lends a constant key, a delete frees at most the one copy of the deleted entry, and
   when everything is released no key copy is left *)
Theorem C05_replace_keeps_key_copies : forall k v cs, key_copies (assoc_set k v cs) = key_copies cs.
Proof. exact replace_keeps_key_copies. Qed.
Print Assumptions C05_replace_keeps_key_copies.

Theorem C05_insert_key_copies : forall cs k v (cst : bool), kconst k = false ->
  key_copies (cs ++ [(if cst then kmark k else k, v)]) = key_copies cs + (if cst then 0 else 1).
Proof. exact insert_key_copies. Qed.
Print Assumptions C05_insert_key_copies.

Theorem C05_delete_key_copies : forall k cs,
  key_copies cs - 1 <= key_copies (assoc_del k cs) <= key_copies cs.
Proof. exact delete_key_copies. Qed.
Print Assumptions C05_delete_key_copies.

Theorem C05_all_released_no_key_copies : forall h L,
  Inv h L -> (forall i, L i = 0) -> heap_key_copies h = 0.
Proof. exact all_released_no_key_copies. Qed.
Print Assumptions C05_all_released_no_key_copies.

Theorem C05_nonvacuous_keys :
  exists s1 s2 s3,
    step (mkSt [(1, mkNode 1 KObject [] (Some 0) true)] 2) (OObjAddEx 1 [97] None true true) = ROk s1 0 [] /\
    step s1 (OObjAddEx 1 [98] None false false) = ROk s2 0 [] /\
    step s2 (OObjAddEx 1 [97] None false false) = ROk s3 0 [] /\
    heap_key_copies (heap_of s3) = 1 /\
    option_map children (hfind (heap_of s3) 1) = Some [(kmark [97], None); ([98], None)].
Proof. exact ex_keys. Qed.

(* non-vacuity: an admissible history with a shared child that outlives its parent *)
Theorem C05_nonvacuous_admissible : adm_hist init_state L0 ex_ops.
Proof. exact ex_admissible. Qed.

Theorem C05_nonvacuous_run : exists s' L' tr,
  run init_state L0 ex_ops = Some (s', L', tr) /\ heap_of s' = [] /\
  map (fun t => (snd (fst t), dids (snd t))) tr =
    [(1, []); (2, []); (0, []); (2, []); (1, [1]); (0, []); (1, [2])] /\
  (forall i, L' i = 0).
Proof. exact ex_runs. Qed.

(* non-vacuity of the failure theorem: adding an object to itself is refused *)
Theorem C05_nonvacuous_failure :
  step (mkSt [(1, mkNode 1 KObject [] (Some 0) true)] 2) (OObjAdd 1 [107] (Some 1))
  = ROk (mkSt [(1, mkNode 1 KObject [] (Some 0) true)] 2) (-1) [].
Proof. exact ex_self_add. Qed.
