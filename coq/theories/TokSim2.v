(* TokSim2.v — invariants of the call-locals along a call, error-field frame, and the
   lifting of the one-dispatch simulation to redo chains and to the per-call loop. *)
From JC Require Import Base BaseLemmas Value TokModel TokFrame TokStack TokTotal TokReset TokOff TokSim TokChunk.
Local Open Scope Z_scope.

Lemma err_set_top t s : err (set_top t s) = err t. Proof. reflexivity. Qed.
Lemma err_set_stack t s : err (set_stack t s) = err t. Proof. reflexivity. Qed.
Lemma err_set_pb t s : err (set_pb t s) = err t. Proof. reflexivity. Qed.
Lemma err_set_is_double t s : err (set_is_double t s) = err t. Proof. reflexivity. Qed.
Lemma err_set_st_pos t s : err (set_st_pos t s) = err t. Proof. reflexivity. Qed.
Lemma err_set_ucs t s : err (set_ucs t s) = err t. Proof. reflexivity. Qed.
Lemma err_set_high t s : err (set_high t s) = err t. Proof. reflexivity. Qed.
Lemma err_set_quote t s : err (set_quote t s) = err t. Proof. reflexivity. Qed.
Lemma err_set_state t s : err (set_state t s) = err t. Proof. reflexivity. Qed.
Lemma err_value_done t s : err (value_done t s) = err t. Proof. reflexivity. Qed.
Lemma err_append t s : err (append t s) = err t. Proof. reflexivity. Qed.
Lemma err_set_err t e : err (set_err t e) = e. Proof. reflexivity. Qed.
Global Hint Rewrite err_set_top err_set_stack err_set_pb err_set_is_double err_set_st_pos err_set_ucs err_set_high
  err_set_quote err_set_state err_value_done err_append err_set_err : tokerr.

Definition hard_err (e : terr) : Prop := e <> TE_success /\ e <> TE_continue.

(* Consumed/Redo never touch err; Out either leaves it or sets a hard error *)
Definition err_ok (t : tok) (r : sres) : Prop :=
  match r with
  | Consumed t' _ | Redo t' _ => err t' = err t
  | Out t' _ => err t' = err t \/ hard_err (err t')
  end.

Lemma err_emit t0 t u l : err t = err t0 -> err_ok t0 (emit_unicode t u l).
Proof.
  intros H. unfold emit_unicode.
  repeat match goal with |- context [if ?b then _ else _] => destruct b end; cbn [err_ok]; autorewrite with tokerr; exact H.
Qed.
Lemma err_resolve t : err (fst (resolve_pair t)) = err t.
Proof.
  unfold resolve_pair. repeat match goal with |- context [if ?b then _ else _] => destruct b end; cbn [fst]; autorewrite with tokerr; reflexivity.
Qed.
Lemma err_finish_unicode t0 t l : err t = err t0 -> err_ok t0 (finish_unicode t l).
Proof. intros H. unfold finish_unicode. apply err_emit. rewrite err_resolve. autorewrite with tokerr. exact H. Qed.

Lemma has_byte_snoc x p c : has_byte x (p ++ [c]) = has_byte x p || (c =? x).
Proof. induction p as [|y p IH]; cbn; [rewrite orb_false_r; reflexivity|]. rewrite IH. apply orb_assoc. Qed.
Lemma last_byte_snoc p c : last_byte (p ++ [c]) = c.
Proof. unfold last_byte. apply last_last. Qed.

(* the invariant of the number locals: present only in the number state, and then equal
   (up to the dead case_len) to what the resume code re-derives from pb *)
Definition linv (t : tok) (l : locals) : Prop :=
  match lnum l with
  | Some n => st t = S_number /\ nl_eq n (num_locals_init (pb t))
  | None => True
  end.

Lemma derive_snoc (t : tok) (n : numloc) (c : byte) :
  nl_eq n (num_locals_init (pb t)) -> num_char_ok t n c = true ->
  nl_eq (if c =? 46 then mknl (nl_exp n) true true (nl_len n + 1)
         else if (c =? 101) || (c =? 69) then mknl true true true (nl_len n + 1)
         else mknl (nl_exp n) false false (nl_len n + 1))
        (num_locals_init (pb t ++ [c])).
Proof.
  intros (A & B & C) Hok.
  assert (Hexp : nl_exp n = has_byte 101 (pb t) || has_byte 69 (pb t)).
  { rewrite A. destruct (pb t); reflexivity. }
  unfold num_locals_init. destruct (pb t ++ [c]) as [|x r] eqn:E; [destruct (pb t); discriminate|]. rewrite <- E.
  rewrite !has_byte_snoc, last_byte_snoc. unfold nl_eq.
  destruct (c =? 46) eqn:E46; destruct (c =? 101) eqn:E1; destruct (c =? 69) eqn:E2;
    cbn [orb nl_exp nl_neg nl_pos]; rewrite ?orb_true_r, ?orb_false_r; repeat split; try reflexivity; try exact Hexp; lia.
Qed.

Section S.
Variable sb : list byte -> Z.

Lemma step1_err t l : err_ok t (step1 sb t l).
Proof.
  unfold step1, fail.
  destruct (st t).
  all: repeat match goal with
              | |- context [finish_unicode ?a ?b] => apply err_finish_unicode; autorewrite with tokerr; reflexivity
              | |- context [if ?b then _ else _] => destruct b
              | |- context [match classify_number sb ?x with _ => _ end] => destruct (classify_number sb x)
              | |- context [match lnum ?x with _ => _ end] => destruct (lnum x)
              | |- context [match stack ?x with _ => _ end] => destruct (stack x) as [|? [|? ?]]
              end; cbn [err_ok]; autorewrite with tokerr;
       first [reflexivity | left; reflexivity | right; split; discriminate].
Qed.

Definition lres (P : tok -> locals -> Prop) (r : sres) : Prop :=
  match r with Consumed t l | Redo t l | Out t l => P t l end.

Lemma linv_emit t u l l0 : lnum l = None -> nbytes l = nbytes l0 ->
  lres (fun t' l' => linv t' l' /\ nbytes l' = nbytes l0 /\ lc l' = lc l) (emit_unicode t u l).
Proof.
  intros H Hn. unfold emit_unicode.
  repeat match goal with |- context [if ?b then _ else _] => destruct b end; cbn [lres]; unfold linv; rewrite H; (split; [exact I|split; [exact Hn|reflexivity]]).
Qed.

Lemma step1_linv t l : linv t l -> lres (fun t' l' => linv t' l' /\ nbytes l' = nbytes l /\ lc l' = lc l) (step1 sb t l).
Proof.
  intros H. unfold step1, fail. destruct (st t) eqn:Est.
  15: { (* S_number *)
    set (n := match lnum l with Some n => n | None => num_locals_init (pb t) end).
    assert (Hn : nl_eq n (num_locals_init (pb t))).
    { subst n. unfold linv in H. destruct (lnum l); [exact (proj2 H)|apply nl_eq_refl]. }
    destruct (num_char_ok t n (lc l)) eqn:Eok.
    - cbn [lres]. split; [|split; reflexivity]. unfold linv; cbn [lnum]. split.
      + repeat match goal with |- context [if ?b then _ else _] => destruct b end; exact Est.
      + pose proof (derive_snoc t n (lc l) Hn Eok) as D.
        replace (pb (if (lc l =? 46) || (lc l =? 101) || (lc l =? 69) then set_is_double (append t [lc l]) true else append t [lc l]))
          with (pb t ++ [lc l]) by (destruct ((lc l =? 46) || (lc l =? 101) || (lc l =? 69)); reflexivity).
        exact D.
    - repeat match goal with
             | |- context [if ?b then _ else _] => destruct b
             | |- context [match classify_number sb ?x with _ => _ end] => destruct (classify_number sb x)
             end; cbn [lres]; (split; [exact I|split; reflexivity]).
  }
  all: unfold linv in H; destruct (lnum l) eqn:EL; [destruct H as [H _]; rewrite Est in H; discriminate|].
  all: repeat match goal with
              | |- context [finish_unicode ?a ?b] => unfold finish_unicode; apply linv_emit; [exact EL|reflexivity]
              | |- context [if ?b then _ else _] => destruct b
              | |- context [match stack ?x with _ => _ end] => destruct (stack x) as [|? [|? ?]]
              end; cbn [lres]; unfold linv; cbn [lnum nbytes lc]; rewrite ?EL; (split; [exact I|split; reflexivity]).
Qed.

(* after a consumed character the top state is never one of the two add states *)
Lemma step1_boundary t l :
  wfs (stack t) = true ->
  match step1 sb t l with Consumed t' _ => add_like (st t') = false | _ => True end.
Proof.
  intros Hw. destruct (stack t) as [|[s v cur nm] below] eqn:E; [discriminate|].
  assert (Htop : top t = mksrec s v cur nm) by (unfold top; rewrite E; reflexivity).
  assert (Hst : st t = s) by (unfold st; rewrite Htop; reflexivity).
  assert (Hsv : sv t = v) by (unfold sv; rewrite Htop; reflexivity).
  cbn [wfs s_state s_saved] in Hw. apply andb_true_iff in Hw. destruct Hw as [Ht Hb].
  unfold step1. rewrite Hst. destruct s; cbv iota; unfold fail.
  11: { (* escape_unicode *)
    unfold wf_top in Ht. cbn [ws_like esc_like andb] in Ht.
    destruct (negb (is_hex (lc l))); [exact I|].
    match goal with |- context [if ?b then _ else _] => destruct b end.
    - unfold finish_unicode, emit_unicode.
      assert (Hsv2 : forall T, stack T = stack t -> sv T = v) by (intros T HT; unfold sv, top; rewrite HT, E; reflexivity).
      repeat match goal with |- context [if ?b then _ else _] => destruct b end; autorewrite with tokst;
        rewrite ?Hsv2 by (rewrite ?stack_resolve; autorewrite with tokstk; reflexivity);
        try reflexivity; destruct v; try discriminate Ht; reflexivity.
    - autorewrite with tokst. rewrite Hst. reflexivity.
  }
  all: repeat match goal with
              | |- context [if ?b then _ else _] => destruct b
              | |- context [match classify_number ?a ?x with _ => _ end] => destruct (classify_number a x)
              | |- context [match lnum ?x with _ => _ end] => destruct (lnum x)
              | |- context [match stack ?x with _ => _ end] => rewrite E
              | |- context [match ?y with [] => _ | _ :: _ => _ end] => destruct y as [|[ps pv pc pn] below2]
              end; try exact I; autorewrite with tokst; rewrite ?Hst, ?Hsv; cbn [s_state add_like]; try reflexivity.
  all: unfold wf_top in Ht; cbn [ws_like esc_like andb] in Ht; destruct v; try discriminate Ht; reflexivity.
Qed.
End S.
