(* NumProofs.v — proofs about the numeric accessors and mutators (C10).

   Layout: 1 doubles (exact truncation / comparison facts, decoding), 2 the specification
   (clamp, documented text -> integer), 3 strtoll/strtoull, 4 accessor theorems
   (get_*_spec, *_no_ub, all at full strength since the `fix:` commits of C10; the lemmas about
   the old `>` comparison are kept as [dbl_get_lh_ub]), 5 int -> double conversion, 6 set/get identity, 7 json_object_int_inc,
   8 non-vacuity. *)
From JC Require Import Base Value NumModel.
Local Open Scope Z_scope.

Ltac consts := unfold INT32_MIN, INT32_MAX, INT64_MIN, INT64_MAX, UINT64_MAX,
  DBL_INT64_MAX, DBL_INT64_MIN, DBL_UINT64_MAX, TWO52, TWO53, TWO63, TWO64 in *.

Ltac crunch :=
  repeat match goal with
         | |- context [if ?b then _ else _] => let E := fresh "E" in destruct b eqn:E
         | H : context [if ?b then _ else _] |- _ => let E := fresh "E" in destruct b eqn:E
         end.

(* destruct every remaining integer comparison of the goal *)
Ltac cmps :=
  repeat match goal with
         | |- context [?a <=? ?b] => destruct (Z.leb_spec a b)
         | |- context [?a <? ?b] => destruct (Z.ltb_spec a b)
         | |- context [?a =? ?b] => destruct (Z.eqb_spec a b)
         | |- context [?a >? ?b] => rewrite (Z.gtb_ltb a b)
         | |- context [?a >=? ?b] => rewrite (Z.geb_leb a b)
         end; cbn.

(* ================================================================== 1. doubles *)

(* the truncated value of the finite double (-1)^s * m * 2^e *)
Definition dtr (s : bool) (m e : Z) : Z := if s then - dmag_trunc m e else dmag_trunc m e.

Lemma pow2_pos e : 0 <= e -> 0 < 2 ^ e.
Proof. intros. apply Z.pow_pos_nonneg; lia. Qed.

Lemma pow2_ge2 e : 1 <= e -> 2 <= 2 ^ e.
Proof. intros. change 2 with (2 ^ 1) at 1. apply Z.pow_le_mono_r; lia. Qed.

(* truncation really is truncation toward zero: |t| <= |d| < |t| + 1, scaled by 2^-e *)
Lemma dmag_trunc_bounds m e : 0 <= m ->
  if 0 <=? e then dmag_trunc m e = m * 2 ^ e
  else dmag_trunc m e * 2 ^ (- e) <= m < (dmag_trunc m e + 1) * 2 ^ (- e).
Proof.
  intros Hm. unfold dmag_trunc. destruct (0 <=? e) eqn:He; [reflexivity|].
  assert (HQ : 0 < 2 ^ (- e)) by (apply pow2_pos; lia).
  pose proof (Z.mul_div_le m _ HQ). pose proof (Z.mul_succ_div_gt m _ HQ). lia.
Qed.

(* how the exact comparisons relate to the truncated value, for every integer c *)
Lemma dfin_facts s m e : 0 <= m < TWO53 ->
  (forall c, dlt (DFin s m e) c = true -> dtr s m e <= c) /\
  (forall c, dlt (DFin s m e) c = false -> c <= dtr s m e) /\
  (forall c, dgt (DFin s m e) c = true -> c <= dtr s m e) /\
  (forall c, dgt (DFin s m e) c = false -> dtr s m e <= c) /\
  (((forall c, dlt (DFin s m e) c = (dtr s m e <? c)) /\ (forall c, dgt (DFin s m e) c = (c <? dtr s m e)))
   \/ - TWO52 < dtr s m e < TWO52).
Proof.
  intros Hm. unfold dlt, dgt, dcmp_fin, dtr, dmag_trunc.
  destruct (0 <=? e) eqn:He.
  - assert (HP : 0 < 2 ^ e) by (apply pow2_pos; lia).
    set (P := 2 ^ e) in *. set (x := m * P).
    assert (Hx : (if s then - m else m) * P = if s then - x else x).
    { destruct s; subst x; ring. }
    rewrite Hx. clear Hx.
    repeat split; try left; try split; intros c; destruct s;
      try (destruct (Z.compare_spec (- x) c)); try (destruct (Z.compare_spec x c)); intros; try discriminate; try lia.
  - assert (He' : 1 <= - e) by lia.
    pose proof (pow2_ge2 _ He') as HQ.
    set (Q := 2 ^ (- e)) in *.
    pose proof (Z.mul_div_le m Q ltac:(lia)) as H1.
    pose proof (Z.mul_succ_div_gt m Q ltac:(lia)) as H2.
    set (q := m / Q) in *.
    assert (Hq : 0 <= q) by (subst q; apply Z.div_pos; lia).
    assert (Hq2 : q < TWO52) by (unfold TWO52, TWO53 in *; nia).
    repeat split; try right; try (unfold TWO52 in *; destruct s; lia); intros c; destruct s;
      try (destruct (Z.compare_spec (- m) (c * Q))); try (destruct (Z.compare_spec m (c * Q))); intros; try discriminate; try nia.
Qed.

(* holds for every bit pattern, also outside [0, 2^64) *)
Lemma decode_fin_range bits s m e :
  decode bits = DFin s m e -> 0 <= m < TWO53 /\ -1074 <= e <= 971.
Proof.
  unfold decode.
  pose proof (Z.mod_pos_bound (bits / TWO52) 2048 ltac:(lia)) as Hex.
  pose proof (Z.mod_pos_bound bits TWO52 ltac:(unfold TWO52; lia)) as Hfr.
  destruct ((bits / TWO52) mod 2048 =? 2047) eqn:E1.
  { destruct (bits mod TWO52 =? 0); discriminate. }
  destruct ((bits / TWO52) mod 2048 =? 0) eqn:E2; intros H; inversion H; subst; unfold TWO52, TWO53 in *; lia.
Qed.

Lemma decode_encode sgn ex f :
  (sgn = 0 \/ sgn = TWO63) -> 1 <= ex <= 2046 -> 0 <= f < TWO52 ->
  decode (sgn + ex * TWO52 + f) = DFin (TWO63 <=? sgn + ex * TWO52 + f) (f + TWO52) (ex - 1075).
Proof.
  intros Hs Hex Hf. unfold decode.
  assert (D : (sgn + ex * TWO52 + f) / TWO52 = sgn / TWO52 + ex /\ (sgn + ex * TWO52 + f) mod TWO52 = f).
  { assert (Hsg : sgn = (sgn / TWO52) * TWO52) by (destruct Hs as [-> | ->]; reflexivity).
    rewrite Hsg at 1 3.
    replace (sgn / TWO52 * TWO52 + ex * TWO52 + f) with (f + (sgn / TWO52 + ex) * TWO52) by ring.
    rewrite Z.div_add by (unfold TWO52; lia). rewrite Z.mod_add by (unfold TWO52; lia).
    rewrite Z.div_small, Z.mod_small by lia. split; ring. }
  destruct D as [-> ->].
  assert (M : (sgn / TWO52 + ex) mod 2048 = ex).
  { destruct Hs as [-> | ->].
    - change (0 / TWO52) with 0. rewrite Z.add_0_l. apply Z.mod_small. lia.
    - change (TWO63 / TWO52) with (1 * 2048). rewrite Z.add_comm, Z.mod_add by lia. apply Z.mod_small. lia. }
  rewrite M.
  destruct (ex =? 2047) eqn:E1; [lia|]. destruct (ex =? 0) eqn:E2; [lia|]. reflexivity.
Qed.

(* json_object_get_boolean of a double is 0 exactly for +0 and -0 *)
Lemma dne0_decode bits : 0 <= bits < TWO64 ->
  (dne0 (decode bits) = false <-> bits = 0 \/ bits = TWO63).
Proof.
  intros Hb. unfold decode.
  pose proof (Z.div_mod bits TWO52 ltac:(unfold TWO52; lia)) as Hdm.
  pose proof (Z.mod_pos_bound bits TWO52 ltac:(unfold TWO52; lia)) as Hfr.
  pose proof (Z.div_mod (bits / TWO52) 2048 ltac:(lia)) as Hdm2.
  pose proof (Z.mod_pos_bound (bits / TWO52) 2048 ltac:(lia)) as Hex.
  assert (Hq : 0 <= bits / TWO52 / 2048 < 2).
  { split; [apply Z.div_pos; [apply Z.div_pos|]; unfold TWO52; lia|].
    apply Z.div_lt_upper_bound; [lia|]. apply Z.div_lt_upper_bound; unfold TWO52, TWO64 in *; lia. }
  destruct ((bits / TWO52) mod 2048 =? 2047) eqn:E1.
  { destruct (bits mod TWO52 =? 0); cbn; split; [discriminate| | discriminate|]; unfold TWO52, TWO63 in *; lia. }
  destruct ((bits / TWO52) mod 2048 =? 0) eqn:E2; cbn [dne0].
  - rewrite Bool.negb_false_iff, Z.eqb_eq. unfold TWO52, TWO63 in *. lia.
  - rewrite Bool.negb_false_iff, Z.eqb_eq. unfold TWO52, TWO63 in *. lia.
Qed.

(* ================================================================== 2. the specification *)

Definition clamp (lo hi z : Z) : Z := if z <? lo then lo else if hi <? z then hi else z.
Definition range_errno (lo hi z : Z) : errno := if (z <? lo) || (hi <? z) then ERANGE else E_NONE.

(* documented coercion of a double to the integer type [lo, hi]: NaN gives the documented
   value with EINVAL; otherwise the value truncated toward zero, clamped; ERANGE exactly when
   the (untruncated) value lies outside [lo, hi] *)
Definition spec_of_dbl (lo hi nanv : Z) (d : dval) : Z * errno :=
  match d with
  | DNaN => (nanv, EINVAL)
  | DInf s => ((if s then lo else hi), ERANGE)
  | DFin s m e => (clamp lo hi (dtr s m e), if dlt d lo || dgt d hi then ERANGE else E_NONE)
  end.

(* documented text -> integer rule: isspace()*, one optional sign, decimal digits, the rest is
   ignored; no digits = no conversion.  (Validated against a declarative reading by
   [str_int_decomp] / [str_int_nodigits] below.) *)
Definition str_int (s : list byte) : option Z :=
  let '(s1, _) := skip_space s in
  let '(neg, s2, _) := scan_sign s1 in
  let '(mag, nd) := scan_digits s2 0 0 in
  if nd =? 0 then None else Some (if neg then - mag else mag).

Definition str_minus (s : list byte) : bool :=
  let '(s1, _) := skip_space s in let '(neg, _, _) := scan_sign s1 in neg.

Definition spec_int (lo hi nanv : Z) (o : jv) : Z * errno :=
  match o with
  | JNull | JArr _ | JObj _ => (0, E_NONE)
  | JBool b => (b2z b, E_NONE)
  | JInt z | JUint z => (clamp lo hi z, range_errno lo hi z)
  | JDouble bits _ => spec_of_dbl lo hi nanv (decode bits)
  | JStr s => match str_int s with
              | Some v => (clamp lo hi v, range_errno lo hi v)
              | None => (0, EINVAL)
              end
  end.

(* uint64: a text with a '-' sign has no conversion at all — json_parse_uint64 refuses it, "-0"
   included (pinned by tests/test_parse_int64) — hence 0 with EINVAL; everything else as above *)
Definition spec_uint (o : jv) : Z * errno :=
  match o with
  | JStr s => if str_minus s then (0, EINVAL) else spec_int 0 UINT64_MAX 0 o
  | _ => spec_int 0 UINT64_MAX 0 o
  end.

Definition ret_of (p : Z * errno) : res Z := Ret (fst p) (snd p).

(* representation invariant of the integer nodes *)
Definition wf (o : jv) : Prop :=
  match o with
  | JInt z => INT64_MIN <= z <= INT64_MAX
  | JUint u => 0 <= u <= UINT64_MAX
  | _ => True
  end.

(* ================================================================== 3. strtoll / strtoull *)

Lemma skip_space_cnt s : 0 <= snd (skip_space s).
Proof.
  induction s as [|a s IH]; cbn; [lia|].
  destruct (is_space a); [destruct (skip_space s); cbn in *; lia | cbn; lia].
Qed.

Lemma scan_sign_cnt s : 0 <= snd (scan_sign s).
Proof. unfold scan_sign. destruct s; cbn; [lia|]. crunch; cbn; lia. Qed.

Lemma scan_digits_mono s : forall acc n, 0 <= acc ->
  0 <= fst (scan_digits s acc n) /\ n <= snd (scan_digits s acc n).
Proof.
  induction s as [|a s IH]; intros acc n Ha; cbn; [lia|].
  destruct (is_digit a) eqn:D; cbn; [|lia].
  unfold is_digit in D. specialize (IH (acc * 10 + (a - 48)) (n + 1) ltac:(lia)). lia.
Qed.

Lemma strtoll_spec s :
  match str_int s with
  | None => strtoll s = (0, 0, false)
  | Some v => exists n, 0 < n /\ strtoll s = (clamp INT64_MIN INT64_MAX v, n, negb (in_i64 v))
  end.
Proof.
  unfold str_int, strtoll.
  pose proof (skip_space_cnt s). destruct (skip_space s) as [s1 nws].
  pose proof (scan_sign_cnt s1). destruct (scan_sign s1) as [[neg s2] nsg].
  pose proof (scan_digits_mono s2 0 0 ltac:(lia)). destruct (scan_digits s2 0 0) as [mag nd]. cbn in *.
  destruct (nd =? 0) eqn:E; [reflexivity|].
  exists (nws + nsg + nd). split; [lia|].
  set (v := if neg then - mag else mag). unfold clamp, in_i64. consts.
  crunch; cmps; try reflexivity; exfalso; lia.
Qed.

Lemma parse_int64_spec s :
  json_parse_int64 s =
  match str_int s with
  | None => (1, None, EINVAL)
  | Some v => (0, Some (clamp INT64_MIN INT64_MAX v), if in_i64 v then E_NONE else ERANGE)
  end.
Proof.
  unfold json_parse_int64. pose proof (strtoll_spec s) as H.
  destruct (str_int s) as [v|].
  - destruct H as (n & Hn & ->).
    replace (n =? 0) with false by lia.
    unfold clamp, in_i64. consts. crunch; cbn in *; try reflexivity; try discriminate; exfalso; lia.
  - rewrite H. reflexivity.
Qed.

(* skipping whitespace twice skips nothing more *)
Lemma skip_space_pu s : fst (skip_space (pu_skip s)) = fst (skip_space s).
Proof.
  unfold pu_skip. induction s as [|a s IH]; [reflexivity|]. cbn [skip_space].
  destruct (is_space a) eqn:E.
  - destruct (skip_space s) as [r n]. cbn [fst] in *. exact IH.
  - cbn [fst skip_space]. rewrite E. reflexivity.
Qed.

(* the hand-written '-' test sees exactly the sign the documented rule sees *)
Lemma hd_pu_minus_eq s : hd_is 45 (pu_skip s) = str_minus s.
Proof.
  unfold pu_skip, str_minus. destruct (skip_space s) as [s1 n]. cbn [fst].
  destruct s1 as [|c t]; [reflexivity|]. cbn [hd_is scan_sign].
  destruct (c =? 45); [reflexivity|]. destruct (c =? 43); reflexivity.
Qed.

Lemma hd_pu_minus s : hd_is 45 (pu_skip s) = true -> str_minus s = true.
Proof. rewrite hd_pu_minus_eq. auto. Qed.

(* without a '-' sign json_parse_uint64 follows the documented rule *)
Lemma parse_uint64_nominus s : str_minus s = false ->
  json_parse_uint64 s =
  match str_int s with
  | None => (1, None, EINVAL)
  | Some v => (0, Some (clamp 0 UINT64_MAX v), if v <=? UINT64_MAX then E_NONE else ERANGE)
  end.
Proof.
  intros Hm. unfold json_parse_uint64.
  destruct (hd_is 45 (pu_skip s)) eqn:Hh.
  { apply hd_pu_minus in Hh. congruence. }
  unfold strtoull, str_int. unfold str_minus in Hm.
  pose proof (skip_space_pu s) as P. pose proof (skip_space_cnt (pu_skip s)).
  destruct (skip_space (pu_skip s)) as [s1 nws]. destruct (skip_space s) as [s1' nws']. cbn in P. subst s1'.
  pose proof (scan_sign_cnt s1). destruct (scan_sign s1) as [[neg s2] nsg]. subst neg.
  pose proof (scan_digits_mono s2 0 0 ltac:(lia)). destruct (scan_digits s2 0 0) as [mag nd]. cbn in *.
  destruct (nd =? 0) eqn:E; [reflexivity|].
  replace (nws + nsg + nd =? 0) with false by lia.
  unfold clamp. consts. crunch; cbn in *; try reflexivity; try discriminate; try (exfalso; lia).
Qed.

(* a '-' sign (after any whitespace) is refused with EINVAL *)
Lemma parse_uint64_minus s : str_minus s = true -> json_parse_uint64 s = (1, None, EINVAL).
Proof. intros H. unfold json_parse_uint64. rewrite hd_pu_minus_eq, H. reflexivity. Qed.

(* -- the functional rule [str_int] against a declarative reading of "isspace* sign? digit+ rest" *)
Definition dec_value (ds : list byte) : Z := fold_left (fun a c => a * 10 + (c - 48)) ds 0.
Definition not_digit_head (r : list byte) : Prop := match r with c :: _ => is_digit c = false | [] => True end.

Lemma skip_space_app ws r :
  Forall (fun c => is_space c = true) ws -> (match r with c :: _ => is_space c = false | [] => True end) ->
  fst (skip_space (ws ++ r)) = r.
Proof.
  induction 1 as [|c ws Hc _ IH]; intros Hr; cbn.
  - destruct r as [|c r]; [reflexivity|]. cbn. rewrite Hr. reflexivity.
  - rewrite Hc. specialize (IH Hr). destruct (skip_space (ws ++ r)). exact IH.
Qed.

Lemma scan_digits_app ds r : Forall (fun c => is_digit c = true) ds -> not_digit_head r ->
  forall acc n, scan_digits (ds ++ r) acc n = (fold_left (fun a c => a * 10 + (c - 48)) ds acc, n + zlen ds).
Proof.
  induction 1 as [|c ds Hc _ IH]; intros Hr acc n; cbn [app fold_left zlen].
  - destruct r as [|c r]; cbn; [f_equal; lia|]. cbn in Hr. rewrite Hr. f_equal; lia.
  - cbn [scan_digits]. rewrite Hc. rewrite (IH Hr). f_equal. lia.
Qed.

Lemma zlen_pos {A} (l : list A) : l <> [] -> 0 < zlen l.
Proof. destruct l; [congruence|]. intros _. cbn [zlen]. pose proof (scan_sign_cnt []). clear H.
  induction l; cbn [zlen] in *; lia. Qed.

Definition sign_bytes (neg : bool) (sg : list byte) : Prop :=
  (sg = [45] /\ neg = true) \/ (sg = [43] /\ neg = false) \/ (sg = [] /\ neg = false).

Lemma str_int_decomp ws sg neg ds rest :
  Forall (fun c => is_space c = true) ws -> sign_bytes neg sg ->
  Forall (fun c => is_digit c = true) ds -> ds <> [] -> not_digit_head rest ->
  str_int (ws ++ sg ++ ds ++ rest) = Some (if neg then - dec_value ds else dec_value ds) /\
  str_minus (ws ++ sg ++ ds ++ rest) = neg.
Proof.
  intros Hws Hsg Hds Hne Hr. unfold str_int, str_minus.
  assert (Hhead : match sg ++ ds ++ rest with c :: _ => is_space c = false | [] => True end).
  { destruct Hsg as [[-> _]|[[-> _]|[-> _]]]; cbn; try reflexivity.
    destruct ds as [|d ds]; [congruence|]. cbn. inversion Hds; subst.
    unfold is_digit, is_space in *. lia. }
  pose proof (skip_space_app ws _ Hws Hhead) as P.
  destruct (skip_space (ws ++ sg ++ ds ++ rest)) as [s1 n]. cbn in P. subst s1.
  assert (Hss : scan_sign (sg ++ ds ++ rest) = (neg, ds ++ rest, zlen sg)).
  { destruct Hsg as [[-> ->]|[[-> ->]|[-> ->]]]; cbn; try reflexivity.
    destruct ds as [|d ds]; [congruence|]. cbn. inversion Hds; subst.
    unfold is_digit in *. replace (d =? 45) with false by lia. replace (d =? 43) with false by lia. reflexivity. }
  rewrite Hss. rewrite (scan_digits_app ds rest Hds Hr 0 0).
  pose proof (zlen_pos ds Hne). replace (0 + zlen ds =? 0) with false by lia.
  split; reflexivity.
Qed.

Lemma str_int_nodigits ws sg neg rest :
  Forall (fun c => is_space c = true) ws -> sign_bytes neg sg -> not_digit_head rest ->
  (sg = [] -> match rest with c :: _ => is_space c = false /\ c <> 45 /\ c <> 43 | [] => True end) ->
  str_int (ws ++ sg ++ rest) = None.
Proof.
  intros Hws Hsg Hr Hr2. unfold str_int.
  assert (Hhead : match sg ++ rest with c :: _ => is_space c = false | [] => True end).
  { destruct Hsg as [[-> _]|[[-> _]|[-> _]]]; cbn; try reflexivity.
    specialize (Hr2 eq_refl). destruct rest; [exact I|tauto]. }
  pose proof (skip_space_app ws _ Hws Hhead) as P.
  destruct (skip_space (ws ++ sg ++ rest)) as [s1 n]. cbn in P. subst s1.
  assert (Hss : exists k, scan_sign (sg ++ rest) = (neg, rest, k)).
  { destruct Hsg as [[-> ->]|[[-> ->]|[-> ->]]]; cbn; eauto.
    specialize (Hr2 eq_refl). destruct rest as [|c r]; cbn; eauto.
    destruct Hr2 as (_ & H45 & H43).
    replace (c =? 45) with false by lia. replace (c =? 43) with false by lia. eauto. }
  destruct Hss as (k & ->).
  destruct rest as [|c r]; cbn; [reflexivity|]. cbn in Hr. rewrite Hr. reflexivity.
Qed.

(* ================================================================== 4. accessors *)

Ltac fin := consts; crunch; cmps; try reflexivity; try discriminate; try lia; try (exfalso; lia); try (f_equal; lia).

(* ---------------- get_boolean: "is the value non-zero", errno untouched *)
Definition spec_bool (o : jv) : bool :=
  match o with
  | JBool b => b
  | JInt z | JUint z => negb (z =? 0)
  | JDouble bits _ => dne0 (decode bits)          (* false exactly for +-0: [dne0_decode] *)
  | JStr s => negb (zlen s =? 0)
  | _ => false
  end.

Lemma get_boolean_spec e0 o : get_boolean e0 o = Ret (b2z (spec_bool o)) e0.
Proof. destruct o; reflexivity. Qed.

Lemma get_boolean_no_ub e0 o : get_boolean e0 o <> UB.
Proof. rewrite get_boolean_spec. discriminate. Qed.

(* ---------------- the double case, once for the three integer accessors.
   [lo, hi] is the target type, [chi] the constant the code compares with on the high side
   (hi itself for int32; hi + 1 = (double)hi for int64 / uint64). *)
Definition dbl_get_lh (lo hi chi nanv : Z) (d : dval) : res Z :=
  if dlt d lo then Ret lo ERANGE
  else if dgt d chi then Ret hi ERANGE
  else if disnan d then Ret nanv EINVAL
  else match cast_dbl lo hi d with Some t => Ret t E_NONE | None => UB end.

Definition dbl_get_hl (lo hi chi nanv : Z) (d : dval) : res Z :=
  if dgt d chi then Ret hi ERANGE
  else if dlt d lo then Ret lo ERANGE
  else if disnan d then Ret nanv EINVAL
  else match cast_dbl lo hi d with Some t => Ret t E_NONE | None => UB end.

(* the shape of get_int64 / get_uint64 since the `>=` repair; see [dbl_get_ge_spec] *)
Definition dbl_get_hl_ge (lo hi chi nanv : Z) (d : dval) : res Z :=
  if dge d chi then Ret hi ERANGE
  else if dlt d lo then Ret lo ERANGE
  else if disnan d then Ret nanv EINVAL
  else match cast_dbl lo hi d with Some t => Ret t E_NONE | None => UB end.

Definition fin_ok (d : dval) : Prop := forall s m e, d = DFin s m e -> 0 <= m < TWO53.

Lemma decode_fin_ok bits : fin_ok (decode bits).
Proof. intros s m e H. apply decode_fin_range in H. tauto. Qed.

Definition dval_trunc_is (d : dval) (v : Z) : Prop := dtrunc d = Some v.

Lemma dbl_get_hl_lh lo hi chi nanv d : lo < chi -> fin_ok d ->
  dbl_get_hl lo hi chi nanv d = dbl_get_lh lo hi chi nanv d.
Proof.
  intros Hc Hf. unfold dbl_get_hl, dbl_get_lh.
  destruct d as [|s|s m e]; [reflexivity|destruct s; reflexivity|].
  destruct (dfin_facts s m e (Hf _ _ _ eq_refl)) as (A & B & C & D & E).
  destruct (dlt (DFin s m e) lo) eqn:L; destruct (dgt (DFin s m e) chi) eqn:G; try reflexivity.
  apply A in L. apply C in G. lia.
Qed.

Lemma dbl_get_lh_spec lo hi chi nanv d :
  lo <= hi -> fin_ok d ->
  (chi = hi \/ (chi = hi + 1 /\ TWO52 <= hi /\ ~ dval_trunc_is d chi)) ->
  dbl_get_lh lo hi chi nanv d = ret_of (spec_of_dbl lo hi nanv d).
Proof.
  intros Hlh Hf Hchi. unfold dbl_get_lh, ret_of, spec_of_dbl.
  destruct d as [|s|s m e]; [reflexivity|destruct s; reflexivity|].
  destruct (dfin_facts s m e (Hf _ _ _ eq_refl)) as (A & B & C & D & E).
  unfold cast_dbl, disnan, dval_trunc_is, dtrunc in *. fold (dtr s m e) in *. cbn [fst snd].
  assert (E' : chi = hi \/ (chi = hi + 1 /\ dtr s m e <> chi /\
               (dgt (DFin s m e) hi = dgt (DFin s m e) chi))).
  { destruct Hchi as [->|(-> & H52 & Hne)]; [left; reflexivity|right]. repeat split; [congruence|].
    destruct E as [[_ Eg]| Eb].
    - rewrite !Eg. assert (dtr s m e <> hi + 1) by congruence. lia.
    - destruct (dgt (DFin s m e) hi) eqn:G1; destruct (dgt (DFin s m e) (hi + 1)) eqn:G2; try reflexivity; exfalso.
      + apply C in G1. unfold TWO52 in *. lia.
      + apply C in G2. unfold TWO52 in *. lia. }
  pose proof (A lo) as A1. pose proof (B lo) as B1.
  pose proof (C chi) as C1. pose proof (D chi) as D1. pose proof (C hi) as C2. pose proof (D hi) as D2.
  set (t := dtr s m e) in *. unfold clamp.
  destruct E' as [->|(-> & Hne & Eq)].
  - destruct (dlt (DFin s m e) lo) eqn:L; destruct (dgt (DFin s m e) hi) eqn:G; cbn [orb];
      try specialize (A1 eq_refl); try specialize (B1 eq_refl); try specialize (C2 eq_refl); try specialize (D2 eq_refl);
      crunch; cmps; try reflexivity; try discriminate; try (exfalso; lia); try (f_equal; lia).
  - rewrite Eq.
    destruct (dlt (DFin s m e) lo) eqn:L; destruct (dgt (DFin s m e) (hi + 1)) eqn:G; cbn [orb];
      try specialize (A1 eq_refl); try specialize (B1 eq_refl); try specialize (C1 eq_refl); try specialize (D1 eq_refl);
      crunch; cmps; try reflexivity; try discriminate; try (exfalso; lia); try (f_equal; lia).
Qed.

(* why `>=` is needed: with `>` (the code before the repair) the value hi + 1 reaches the cast *)
Lemma dbl_get_lh_ub lo hi d : lo <= hi -> TWO52 <= hi -> fin_ok d ->
  dval_trunc_is d (hi + 1) -> forall nanv, dbl_get_lh lo hi (hi + 1) nanv d = UB.
Proof.
  intros Hlh H52 Hf Ht nanv. unfold dbl_get_lh, dval_trunc_is in *.
  destruct d as [|s|s m e]; try discriminate.
  destruct (dfin_facts s m e (Hf _ _ _ eq_refl)) as (A & B & C & D & E).
  unfold cast_dbl, disnan, dtrunc in *. fold (dtr s m e) in *.
  assert (Ht' : dtr s m e = hi + 1) by congruence. clear Ht.
  destruct (dlt (DFin s m e) lo) eqn:L. { apply A in L. lia. }
  destruct (dgt (DFin s m e) (hi + 1)) eqn:G.
  { destruct E as [[_ Eg]|Eb]; [rewrite Eg in G; lia | unfold TWO52 in *; lia]. }
  rewrite Ht'. replace (hi + 1 <=? hi) with false by lia. rewrite Bool.andb_false_r. reflexivity.
Qed.

(* the comparison `>=` satisfies the full statement, no guard *)
Lemma dbl_get_ge_spec lo hi nanv d :
  lo <= hi -> TWO52 <= hi -> fin_ok d ->
  dbl_get_hl_ge lo hi (hi + 1) nanv d = ret_of (spec_of_dbl lo hi nanv d).
Proof.
  intros Hlh H52 Hf. unfold dbl_get_hl_ge, ret_of, spec_of_dbl.
  destruct d as [|s|s m e]; [reflexivity|destruct s; reflexivity|].
  destruct (dfin_facts s m e (Hf _ _ _ eq_refl)) as (A & B & C & D & E).
  assert (Hge : dge (DFin s m e) (hi + 1) = dgt (DFin s m e) hi).
  { assert (Hn : dge (DFin s m e) (hi + 1) = negb (dlt (DFin s m e) (hi + 1))).
    { unfold dge, dlt. destruct (dcmp_fin s m e (hi + 1)); reflexivity. }
    rewrite Hn. destruct E as [[El Eg]|Eb].
    - rewrite El, Eg. lia.
    - destruct (dlt (DFin s m e) (hi + 1)) eqn:L; destruct (dgt (DFin s m e) hi) eqn:G; try reflexivity; exfalso.
      + apply C in G. unfold TWO52 in *. lia.
      + apply B in L. unfold TWO52 in *. lia. }
  rewrite Hge. unfold cast_dbl, disnan, dtrunc. fold (dtr s m e). cbn [fst snd].
  pose proof (A lo) as A1. pose proof (B lo) as B1. pose proof (C hi) as C2. pose proof (D hi) as D2.
  set (t := dtr s m e) in *. unfold clamp.
  destruct (dlt (DFin s m e) lo) eqn:L; destruct (dgt (DFin s m e) hi) eqn:G; cbn [orb];
    try specialize (A1 eq_refl); try specialize (B1 eq_refl); try specialize (C2 eq_refl); try specialize (D2 eq_refl);
    crunch; cmps; try reflexivity; try discriminate; try (exfalso; lia); try (f_equal; lia).
Qed.

(* ---------------- json_object_get_int *)
Theorem get_int_spec e0 o : wf o ->
  get_int e0 o = ret_of (spec_int INT32_MIN INT32_MAX INT32_MIN o).
Proof.
  intros W. destruct o as [| b | z | u | bits t | s | l | l]; try reflexivity; cbn [wf] in W.
  - unfold get_int, int32_tail, ret_of, spec_int, clamp, range_errno. cbn [fst snd]. fin.
  - unfold get_int, int32_tail, ret_of, spec_int, clamp, range_errno, gi_uint_sat, u64_to_i64. cbn [fst snd]. fin.
  - change (get_int e0 (JDouble bits t)) with (dbl_get_lh INT32_MIN INT32_MAX INT32_MAX INT32_MIN (decode bits)).
    apply dbl_get_lh_spec; [consts; lia | apply decode_fin_ok | left; reflexivity].
  - unfold get_int. rewrite parse_int64_spec. unfold spec_int, ret_of.
    destruct (str_int s) as [v|]; [|reflexivity]. cbn [fst snd negb Z.eqb].
    unfold int32_tail, clamp, range_errno, in_i64. fin.
Qed.

Theorem get_int_no_ub e0 o : wf o -> get_int e0 o <> UB.
Proof. intros W. rewrite get_int_spec by assumption. discriminate. Qed.

(* ---------------- json_object_get_int64 *)
Lemma get_int64_dbl_shape e0 bits t :
  get_int64 e0 (JDouble bits t) = dbl_get_hl_ge INT64_MIN INT64_MAX (INT64_MAX + 1) INT64_MIN (decode bits).
Proof. reflexivity. Qed.

Theorem get_int64_spec e0 o : wf o ->
  get_int64 e0 o = ret_of (spec_int INT64_MIN INT64_MAX INT64_MIN o).
Proof.
  intros W. destruct o as [| b | z | u | bits t | s | l | l]; try reflexivity; cbn [wf] in W.
  - unfold get_int64, ret_of, spec_int, clamp, range_errno. cbn [fst snd]. fin.
  - unfold get_int64, ret_of, spec_int, clamp, range_errno, gl_uint_sat, u64_to_i64. cbn [fst snd]. fin.
  - rewrite get_int64_dbl_shape.
    apply dbl_get_ge_spec; [consts; lia | consts; lia | apply decode_fin_ok].
  - unfold get_int64. rewrite parse_int64_spec. unfold spec_int, ret_of.
    destruct (str_int s) as [v|]; [|reflexivity]. cbn [fst snd negb Z.eqb].
    unfold clamp, range_errno, in_i64. fin.
Qed.

Theorem get_int64_no_ub e0 o : wf o -> get_int64 e0 o <> UB.
Proof. intros W. rewrite get_int64_spec by assumption. discriminate. Qed.

Definition B64_2P63 : Z := 4890909195324358656.     (* 0x43e0000000000000, the double 2^63 *)
Definition B64_2P64 : Z := 4895412794951729152.     (* 0x43f0000000000000, the double 2^64 *)

(* ---------------- json_object_get_uint64 *)
Lemma get_uint64_dbl_shape e0 bits t :
  get_uint64 e0 (JDouble bits t) = dbl_get_hl_ge 0 UINT64_MAX (UINT64_MAX + 1) 0 (decode bits).
Proof. reflexivity. Qed.

Theorem get_uint64_spec e0 o : wf o -> get_uint64 e0 o = ret_of (spec_uint o).
Proof.
  intros W. destruct o as [| b | z | u | bits t | s | l | l]; try reflexivity; cbn [wf] in W.
  - unfold get_uint64, ret_of, spec_uint, spec_int, clamp, range_errno, gu_int_neg, to_u64. cbn [fst snd]. consts.
    destruct (z <? 0) eqn:E.
    + cmps; try reflexivity; exfalso; lia.
    + rewrite Z.mod_small by lia. cmps; try reflexivity; exfalso; lia.
  - unfold get_uint64, ret_of, spec_uint, spec_int, clamp, range_errno. cbn [fst snd]. fin.
  - rewrite get_uint64_dbl_shape.
    apply dbl_get_ge_spec; [consts; lia | consts; lia | apply decode_fin_ok].
  - unfold get_uint64, spec_uint. destruct (str_minus s) eqn:Hm.
    + rewrite (parse_uint64_minus s Hm). reflexivity.
    + rewrite (parse_uint64_nominus s Hm). unfold spec_int, ret_of.
      destruct (str_int s) as [v|] eqn:Hv; [|reflexivity]. cbn [fst snd negb Z.eqb].
      assert (0 <= v).
      { unfold str_int, str_minus in *. destruct (skip_space s) as [s1 n1]. destruct (scan_sign s1) as [[neg s2] n2].
        pose proof (scan_digits_mono s2 0 0 ltac:(lia)). destruct (scan_digits s2 0 0) as [mag nd]. cbn in *.
        subst neg. destruct (nd =? 0); inversion Hv. lia. }
      unfold clamp, range_errno. fin.
Qed.

Theorem get_uint64_no_ub e0 o : wf o -> get_uint64 e0 o <> UB.
Proof. intros W. rewrite get_uint64_spec by assumption. discriminate. Qed.

(* ================================================================== 5. int -> double *)

(* the finite double d has exactly the integer value z *)
Definition dval_is_int (d : dval) (z : Z) : Prop :=
  match d with DFin s m e => dcmp_fin s m e z = Eq | _ => False end.

Lemma sign_bit_small sgn ex f : (sgn = 0 \/ sgn = TWO63) -> 0 <= ex <= 2047 -> 0 <= f < TWO52 ->
  (TWO63 <=? sgn + ex * TWO52 + f) = (sgn =? TWO63).
Proof. intros [-> | ->] Hex Hf; consts; lia. Qed.

Lemma z_to_b64_small z : z <> 0 -> Z.log2 (Z.abs z) <= 52 ->
  decode (z_to_b64 z) = DFin (z <? 0) (Z.abs z * 2 ^ (52 - Z.log2 (Z.abs z))) (Z.log2 (Z.abs z) - 52).
Proof.
  intros Hz Hk. unfold z_to_b64.
  replace (z =? 0) with false by lia. rewrite (proj2 (Z.leb_le _ _) Hk).
  set (a := Z.abs z) in *. assert (Ha : 0 < a) by (subst a; lia).
  pose proof (Z.log2_spec a Ha) as [L1 L2]. pose proof (Z.log2_nonneg a) as Hk0.
  set (k := Z.log2 a) in *.
  assert (HP : 0 < 2 ^ (52 - k)) by (apply pow2_pos; lia).
  assert (HK : 0 < 2 ^ k) by (apply pow2_pos; lia).
  assert (Hpow : 2 ^ k * 2 ^ (52 - k) = TWO52).
  { rewrite <- Z.pow_add_r by lia. replace (k + (52 - k)) with 52 by lia. reflexivity. }
  assert (Hsucc : 2 ^ Z.succ k = 2 * 2 ^ k) by (rewrite Z.pow_succ_r by lia; reflexivity).
  set (P := 2 ^ (52 - k)) in *. set (K := 2 ^ k) in *.
  assert (Hf : 0 <= a * P - TWO52 < TWO52) by (unfold TWO52 in *; nia).
  set (sgn := if z <? 0 then TWO63 else 0).
  assert (Hs : sgn = 0 \/ sgn = TWO63) by (subst sgn; destruct (z <? 0); auto).
  rewrite (decode_encode sgn (k + 1023) (a * P - TWO52) Hs ltac:(lia) Hf).
  rewrite (sign_bit_small sgn (k + 1023) _ Hs ltac:(lia) Hf).
  f_equal.
  - subst sgn. destruct (z <? 0); reflexivity.
  - ring.
  - lia.
Qed.

Theorem z_to_b64_exact_small z : Z.log2 (Z.abs z) <= 52 -> dval_is_int (decode (z_to_b64 z)) z.
Proof.
  intros Hk. destruct (Z.eq_dec z 0) as [->|Hz]; [vm_compute; reflexivity|].
  rewrite (z_to_b64_small z Hz Hk). unfold dval_is_int, dcmp_fin.
  set (a := Z.abs z) in *. pose proof (Z.log2_nonneg a). set (k := Z.log2 a) in *.
  destruct (0 <=? k - 52) eqn:E.
  - assert (k = 52) by lia. replace (52 - k) with 0 by lia. replace (k - 52) with 0 by lia.
    rewrite Z.pow_0_r. apply Z.compare_eq_iff. subst a. destruct (z <? 0) eqn:S; lia.
  - replace (- (k - 52)) with (52 - k) by lia. apply Z.compare_eq_iff.
    subst a. destruct (z <? 0) eqn:S; [rewrite Z.abs_neq by lia | rewrite Z.abs_eq by lia]; ring.
Qed.

(* every |z| <= 2^53 converts exactly *)
Corollary z_to_b64_exact z : Z.abs z <= TWO53 -> dval_is_int (decode (z_to_b64 z)) z.
Proof.
  intros H. destruct (Z.eq_dec (Z.abs z) TWO53) as [E|NE].
  - assert (z = TWO53 \/ z = - TWO53) as [-> | ->] by lia; vm_compute; reflexivity.
  - apply z_to_b64_exact_small.
    destruct (Z.eq_dec z 0) as [->|Hz]; [cbn; lia|].
    assert (Z.log2 (Z.abs z) < 53); [|lia].
    apply Z.log2_lt_pow2; [lia|]. change (2 ^ 53) with TWO53. lia.
Qed.

(* above 2^53: round to nearest, ties to even.  The result is v = m * 2^e with
   2 |v - |z|| <= ulp = 2^(log2|z| - 52), and on a tie v / ulp is even. *)
Theorem z_to_b64_nearest z : 52 < Z.log2 (Z.abs z) -> Z.abs z < TWO64 ->
  exists m e, decode (z_to_b64 z) = DFin (z <? 0) m e /\ 0 <= e /\
    let ulp := 2 ^ (Z.log2 (Z.abs z) - 52) in
    let v := m * 2 ^ e in
    2 * Z.abs (v - Z.abs z) <= ulp /\ (2 * Z.abs (v - Z.abs z) = ulp -> Z.even (v / ulp) = true).
Proof.
  intros Hk Hlt. assert (Hz : z <> 0) by (intros ->; cbn in Hk; lia).
  unfold z_to_b64. replace (z =? 0) with false by lia.
  set (a := Z.abs z) in *. assert (Ha : 0 < a) by (subst a; lia).
  pose proof (Z.log2_spec a Ha) as [L1 L2].
  assert (Hk64 : Z.log2 a < 64) by (apply Z.log2_lt_pow2; [lia|exact Hlt]).
  set (k := Z.log2 a) in *. replace (k <=? 52) with false by lia.
  set (sh := k - 52) in *. assert (Hsh : 1 <= sh <= 11) by lia.
  assert (HS : 0 < 2 ^ sh) by (apply pow2_pos; lia).
  assert (Hhalf : 2 ^ sh = 2 * 2 ^ (sh - 1)).
  { replace sh with (Z.succ (sh - 1)) at 1 by lia. rewrite Z.pow_succ_r by lia. reflexivity. }
  assert (Hpow : 2 ^ k = TWO52 * 2 ^ sh).
  { replace k with (52 + sh) by lia. rewrite Z.pow_add_r by lia. reflexivity. }
  assert (Hsucc : 2 ^ Z.succ k = 2 * 2 ^ k) by (rewrite Z.pow_succ_r by lia; reflexivity).
  pose proof (Z.div_mod a (2 ^ sh) ltac:(lia)) as Hdm.
  pose proof (Z.mod_pos_bound a (2 ^ sh) HS) as Hr.
  set (S := 2 ^ sh) in *. set (q := a / S) in *. set (r := a mod S) in *. set (half := 2 ^ (sh - 1)) in *.
  assert (Hq : TWO52 <= q < TWO53) by (unfold TWO52, TWO53 in *; nia).
  set (sgn := if z <? 0 then TWO63 else 0).
  assert (Hs : sgn = 0 \/ sgn = TWO63) by (subst sgn; destruct (z <? 0); auto).
  assert (Hsb : (sgn =? TWO63) = (z <? 0)) by (subst sgn; destruct (z <? 0); reflexivity).
  set (q' := if (half <? r) || (r =? half) && Z.odd q then q + 1 else q).
  assert (Hq' : (q' = q /\ 2 * r <= S /\ (2 * r = S -> Z.even q = true)) \/
                (q' = q + 1 /\ S <= 2 * r /\ (2 * r = S -> Z.odd q = true))).
  { subst q'. destruct (half <? r) eqn:E1; cbn [orb].
    - right. repeat split; lia.
    - destruct (r =? half) eqn:E2; cbn [andb].
      + destruct (Z.odd q) eqn:E3.
        * right. repeat split; lia.
        * left. repeat split; try lia. intros _. rewrite <- Z.negb_odd, E3. reflexivity.
      + left. repeat split; lia. }
  assert (Hv : forall m e, 0 <= e -> m * 2 ^ e = q' * S ->
               2 * Z.abs (m * 2 ^ e - a) <= S /\ (2 * Z.abs (m * 2 ^ e - a) = S -> Z.even (m * 2 ^ e / S) = true)).
  { intros m e He Hme. rewrite Hme. rewrite Z.div_mul by lia.
    destruct Hq' as [(-> & B1 & B2)|(-> & B1 & B2)].
    - split; [lia|]. intros T. apply B2. lia.
    - split; [lia|]. intros T. replace (q + 1) with (Z.succ q) by lia. rewrite Z.even_succ. apply B2. lia. }
  destruct (Z.eq_dec q' TWO53) as [Ecar|Ncar].
  - (* the mantissa rounds up to 2^53: carry into the exponent *)
    exists TWO52, (sh + 1).
    replace (sgn + (k + 1023) * TWO52 + (q' - TWO52)) with (sgn + (k + 1024) * TWO52 + 0) by (rewrite Ecar; unfold TWO52, TWO53; lia).
    rewrite (decode_encode sgn (k + 1024) 0 Hs ltac:(lia) ltac:(unfold TWO52; lia)).
    rewrite (sign_bit_small sgn (k + 1024) 0 Hs ltac:(lia) ltac:(unfold TWO52; lia)), Hsb.
    split; [f_equal; lia|]. split; [lia|]. cbv zeta. apply Hv; [lia|].
    rewrite Z.pow_add_r by lia. rewrite Ecar. change (2 ^ 1) with 2. fold S. unfold TWO52, TWO53. ring.
  - exists q', sh.
    assert (Hf : 0 <= q' - TWO52 < TWO52) by (destruct Hq' as [(-> & _)|(-> & _)]; unfold TWO52, TWO53 in *; lia).
    rewrite (decode_encode sgn (k + 1023) _ Hs ltac:(lia) Hf).
    rewrite (sign_bit_small sgn (k + 1023) _ Hs ltac:(lia) Hf), Hsb.
    split; [f_equal; lia|]. split; [lia|]. cbv zeta. apply Hv; [lia|reflexivity].
Qed.

(* ---------------- json_object_get_double *)
Section GetDouble.
  Variable strtod : strtod_oracle.

  (* what the code does with libc's answer (bits, consumed, ERANGE?) on a string node *)
  Definition spec_double_str (s : list byte) : Z * errno :=
    let '(bits, n, er) := strtod s in
    if n =? 0 then (0, EINVAL)                                   (* no conversion *)
    else if match znth s n with Some c => negb (c =? 0) | None => false end
         then (0, EINVAL)                                        (* trailing bytes *)
    else if disinf (decode bits) && er then (0, ERANGE)          (* overflow: 0.0, as json-c's tests expect *)
    else (bits, if er then ERANGE else E_NONE).

  (* numbers convert by value (exactly up to 2^53, else to nearest-even: [z_to_b64_exact],
     [z_to_b64_nearest]); errno is left alone except on strings and containers *)
  Definition spec_double (e0 : errno) (o : jv) : Z * errno :=
    match o with
    | JNull => (0, e0)
    | JBool b => (z_to_b64 (b2z b), e0)
    | JInt z | JUint z => (z_to_b64 z, e0)
    | JDouble bits _ => (bits, e0)
    | JStr s => spec_double_str s
    | JArr _ | JObj _ => (0, EINVAL)
    end.

  Theorem get_double_spec e0 o : get_double strtod e0 o = ret_of (spec_double e0 o).
  Proof.
    destruct o as [| b | z | u | bits t | s | l | l]; try reflexivity.
    unfold get_double, spec_double, spec_double_str, ret_of.
    destruct (strtod s) as [[bits n] er]. destruct (n =? 0); [reflexivity|].
    destruct (znth s n) as [c|]; [destruct (negb (c =? 0)); [reflexivity|]|];
      destruct er; cbn [errno_is0 negb]; rewrite ?Bool.andb_true_r, ?Bool.andb_false_r;
      destruct (disinf (decode bits)); reflexivity.
  Qed.

  Theorem get_double_no_ub e0 o : get_double strtod e0 o <> UB.
  Proof. rewrite get_double_spec. discriminate. Qed.
End GetDouble.

(* ---------------- the results do not depend on the errno the caller happens to have.
   The three integer accessors overwrite it; get_boolean never touches it; get_double either hands
   it back untouched (null, boolean, integer and double nodes) or overwrites it (strings — where
   the ERANGE test of the overflow rule therefore sees only THIS call's strtod — and containers). *)
Theorem errno_independent strtod o e0 e1 :
  get_int e0 o = get_int e1 o /\ get_int64 e0 o = get_int64 e1 o /\ get_uint64 e0 o = get_uint64 e1 o /\
  (exists v, get_boolean e0 o = Ret v e0 /\ get_boolean e1 o = Ret v e1) /\
  (exists v, (get_double strtod e0 o = Ret v e0 /\ get_double strtod e1 o = Ret v e1) \/
             (exists e, get_double strtod e0 o = Ret v e /\ get_double strtod e1 o = Ret v e)).
Proof.
  repeat split; try reflexivity.
  - eexists. rewrite !get_boolean_spec. split; reflexivity.
  - destruct o as [| b | z | u | bits t | s | l | l];
      try (eexists; left; split; reflexivity);
      try (eexists; right; eexists; split; reflexivity).
    rewrite !get_double_spec. eexists. right. eexists. split; reflexivity.
Qed.

(* the mutators and json_object_int_inc hand the caller's errno back *)
Theorem step_mutator_errno strtod e0 o op r e o' :
  num_step strtod e0 o op = (OSet r e, o') -> e = e0.
Proof.
  destruct op; cbn; try (destruct (_ : res Z); discriminate).
  all: try (destruct (_ : Z * jv); intros H; inversion H; reflexivity).
  destruct (int_inc o v); intros H; inversion H; reflexivity.
Qed.

(* ================================================================== 6. set then get *)

Definition is_intnode (o : jv) : bool := match o with JInt _ | JUint _ => true | _ => false end.
Definition is_dblnode (o : jv) : bool := match o with JDouble _ _ => true | _ => false end.
Definition is_boolnode (o : jv) : bool := match o with JBool _ => true | _ => false end.

Theorem set_get_int64 e0 o v : is_intnode o = true -> INT64_MIN <= v <= INT64_MAX ->
  fst (set_int64 o v) = 1 /\ wf (snd (set_int64 o v)) /\ get_int64 e0 (snd (set_int64 o v)) = Ret v E_NONE.
Proof. destruct o; try discriminate; intros _ Hv; cbn; auto. Qed.

Theorem set_get_uint64 e0 o v : is_intnode o = true -> 0 <= v <= UINT64_MAX ->
  fst (set_uint64 o v) = 1 /\ wf (snd (set_uint64 o v)) /\ get_uint64 e0 (snd (set_uint64 o v)) = Ret v E_NONE.
Proof. destruct o; try discriminate; intros _ Hv; cbn; auto. Qed.

Theorem set_get_int e0 o v : is_intnode o = true -> INT32_MIN <= v <= INT32_MAX ->
  fst (set_int o v) = 1 /\ wf (snd (set_int o v)) /\ get_int e0 (snd (set_int o v)) = Ret v E_NONE.
Proof.
  destruct o; try discriminate; intros _ Hv; cbn [set_int set_int64 fst snd wf]; (split; [reflexivity|]);
    (split; [consts; lia|]); unfold get_int, int32_tail; fin.
Qed.

Theorem set_get_double strtod e0 o bits : is_dblnode o = true ->
  fst (set_double o bits) = 1 /\ get_double strtod e0 (snd (set_double o bits)) = Ret bits e0.
Proof. destruct o; try discriminate; intros _; cbn; auto. Qed.

Theorem set_get_boolean e0 o b : is_boolnode o = true ->
  fst (set_boolean o b) = 1 /\ get_boolean e0 (snd (set_boolean o b)) = Ret (b2z b) e0.
Proof. destruct o; try discriminate; intros _; cbn; auto. Qed.

(* a setter of the wrong kind returns 0 and leaves the node alone *)
Theorem set_wrong_kind o :
  (is_intnode o = false -> forall v, set_int64 o v = (0, o) /\ set_uint64 o v = (0, o) /\ set_int o v = (0, o)) /\
  (is_dblnode o = false -> forall b, set_double o b = (0, o)) /\
  (is_boolnode o = false -> forall b, set_boolean o b = (0, o)).
Proof. destruct o; cbn; repeat split; try discriminate; reflexivity. Qed.

(* ================================================================== 7. json_object_int_inc *)

Definition ival (o : jv) : Z := match o with JInt z | JUint z => z | _ => 0 end.
Definition is_uint (o : jv) : bool := match o with JUint _ => true | _ => false end.

(* value' = clamp(value + inc) over [INT64_MIN, UINT64_MAX]; the representation is uint64 when the
   result exceeds INT64_MAX, int64 when it is negative, and is kept otherwise *)
Definition inc_post (o : jv) (val : Z) (o' : jv) : Prop :=
  is_intnode o' = true /\ wf o' /\
  ival o' = clamp INT64_MIN UINT64_MAX (ival o + val) /\
  (is_uint o' = true <-> INT64_MAX < ival o' \/ (is_uint o = true /\ 0 <= ival o')).

Lemma mod64_small x : 0 <= x < TWO64 -> x mod TWO64 = x.
Proof. apply Z.mod_small. Qed.

Lemma mod64_neg x : - TWO64 <= x < 0 -> x mod TWO64 = x + TWO64.
Proof.
  intros H. replace x with (x + TWO64 + (-1) * TWO64) at 1 by ring.
  rewrite Z.mod_add by (unfold TWO64; lia). apply Z.mod_small. lia.
Qed.

Ltac ipost :=
  unfold inc_post, clamp; cbn [is_intnode wf ival is_uint];
  repeat split;
  try (consts; lia); try discriminate; try (fin; fail);
  try (intros _; first [left; consts; lia | right; split; [reflexivity | consts; lia]]);
  try (let H := fresh in intros [H | [? H]]; first [consts; lia | discriminate]).

(* the magnitude computed in unsigned arithmetic, C: -(uint64_t)val, is -val for EVERY negative
   int64 — including INT64_MIN, where (uint64_t)(-val) was undefined *)
Lemma neg_mag_unsigned val : INT64_MIN <= val < 0 -> to_u64 (- to_u64 val) = - val.
Proof.
  intros H. unfold to_u64. rewrite (mod64_neg val) by (consts; lia).
  replace (- (val + TWO64)) with (- val + (-1) * TWO64) by ring.
  rewrite Z.mod_add by (unfold TWO64; lia). apply Z.mod_small. consts. lia.
Qed.

Theorem inc_exact o val :
  wf o -> is_intnode o = true -> INT64_MIN <= val <= INT64_MAX ->
  exists o', int_inc o val = IOk 1 o' /\ inc_post o val o'.
Proof.
  intros W K Hv. destruct o as [| b | z | u | bits t | s | l | l]; try discriminate; cbn [wf] in W.
  - (* int64 node *)
    unfold int_inc, sub_i64, add_i64, in_i64, obind, to_u64.
    destruct (val >? 0) eqn:P.
    + replace ((INT64_MIN <=? INT64_MAX - val) && (INT64_MAX - val <=? INT64_MAX)) with true by (consts; lia).
      cbn [andb]. destruct (z >? INT64_MAX - val) eqn:O.
      * rewrite (mod64_small z), (mod64_small val), mod64_small by (consts; lia).
        eexists. split; [reflexivity|]. ipost.
      * replace (val <? 0) with false by lia. cbn [andb].
        replace ((INT64_MIN <=? z + val) && (z + val <=? INT64_MAX)) with true by (consts; lia).
        eexists. split; [reflexivity|]. ipost.
    + cbn [andb]. destruct (val <? 0) eqn:N.
      * replace ((INT64_MIN <=? INT64_MIN - val) && (INT64_MIN - val <=? INT64_MAX)) with true by (consts; lia).
        cbn [andb]. destruct (z <? INT64_MIN - val) eqn:U.
        -- eexists. split; [reflexivity|]. ipost.
        -- replace ((INT64_MIN <=? z + val) && (z + val <=? INT64_MAX)) with true by (consts; lia).
           eexists. split; [reflexivity|]. ipost.
      * cbn [andb]. assert (val = 0) by lia. subst val.
        replace ((INT64_MIN <=? z + 0) && (z + 0 <=? INT64_MAX)) with true by (consts; lia).
        eexists. split; [reflexivity|]. ipost.
  - (* uint64 node *)
    unfold int_inc, inc_neg_mag, add_i64, in_i64, obind, u64_to_i64.
    destruct (val >? 0) eqn:P.
    + unfold to_u64. rewrite (mod64_small val), (mod64_small (UINT64_MAX - val)) by (consts; lia). cbn [andb].
      destruct (u >? UINT64_MAX - val) eqn:O.
      * eexists. split; [reflexivity|]. ipost.
      * replace (val <? 0) with false by lia. rewrite mod64_small by (consts; lia).
        eexists. split; [reflexivity|]. ipost.
    + cbn [andb]. destruct (val <? 0) eqn:N.
      * rewrite !neg_mag_unsigned by lia.
        destruct (u <? - val) eqn:L.
        -- replace (u <=? INT64_MAX) with true by (consts; lia).
           replace ((INT64_MIN <=? u + val) && (u + val <=? INT64_MAX)) with true by (consts; lia).
           eexists. split; [reflexivity|]. ipost.
        -- replace (u >=? - val) with true by lia. rewrite mod64_small by (consts; lia).
           eexists. split; [reflexivity|]. ipost.
      * assert (val = 0) by lia. subst val. unfold to_u64. rewrite (mod64_small 0), mod64_small by (consts; lia).
        eexists. split; [reflexivity|]. ipost.
Qed.

Theorem inc_no_ub o val : wf o -> INT64_MIN <= val <= INT64_MAX -> int_inc o val <> IUB.
Proof.
  intros W Hv. destruct (is_intnode o) eqn:K.
  - destruct (inc_exact o val W K Hv) as (o' & E & _). congruence.
  - destruct o; try discriminate K; discriminate.
Qed.

Theorem inc_not_int o val : is_intnode o = false -> int_inc o val = IOk 0 o.
Proof. destruct o; try discriminate; reflexivity. Qed.

(* ================================================================== 8. non-vacuity *)

Example ex_get_int64_dbl : get_int64 E_NONE (JDouble 4890909195324358655 None) = Ret 9223372036854774784 E_NONE.
Proof. vm_compute. reflexivity. Qed.        (* the double just below 2^63 *)
Example ex_get_int64_dbl_neg : get_int64 EINVAL (JDouble 14114281232179134464 None) = Ret INT64_MIN E_NONE.
Proof. vm_compute. reflexivity. Qed.        (* -2^63 is exact *)
Example ex_get_int_half : get_int E_NONE (JDouble 4746794007246405632 None) = Ret INT32_MAX ERANGE.
Proof. vm_compute. reflexivity. Qed.        (* 2147483647.5 *)
Example ex_get_uint64_neg : get_uint64 E_NONE (JInt (-1)) = Ret 0 ERANGE.
Proof. vm_compute. reflexivity. Qed.
Example ex_get_int_str : get_int E_NONE (JStr [32; 45; 57; 57; 57; 57; 57; 57; 57; 57; 57; 57; 57; 120]) = Ret INT32_MIN ERANGE.
Proof. vm_compute. reflexivity. Qed.        (* " -99999999999x" *)
Example ex_get_int64_str_sat : get_int64 E_NONE (JStr [57; 57; 57; 57; 57; 57; 57; 57; 57; 57; 57; 57; 57; 57; 57; 57; 57; 57; 57; 57]) = Ret INT64_MAX ERANGE.
Proof. vm_compute. reflexivity. Qed.
Example ex_inc_switch : int_inc (JInt INT64_MAX) 1 = IOk 1 (JUint TWO63).
Proof. vm_compute. reflexivity. Qed.
Example ex_inc_back : int_inc (JUint TWO63) (-1) = IOk 1 (JUint INT64_MAX).
Proof. vm_compute. reflexivity. Qed.
Example ex_inc_neg : int_inc (JUint 3) (-5) = IOk 1 (JInt (-2)).
Proof. vm_compute. reflexivity. Qed.
Example ex_inc_sat : int_inc (JUint UINT64_MAX) 7 = IOk 1 (JUint UINT64_MAX) /\ int_inc (JInt INT64_MIN) (-1) = IOk 1 (JInt INT64_MIN).
Proof. split; vm_compute; reflexivity. Qed.
Example ex_z_to_b64 : z_to_b64 (TWO53 + 1) = 4845873199050653696 /\ z_to_b64 (TWO53 + 3) = 4845873199050653698.
Proof. split; vm_compute; reflexivity. Qed.  (* ties to even: 2^53+1 -> 2^53, 2^53+3 -> 2^53+4 *)
(* the witnesses of the five repaired defects now give the documented results *)
Example ex_fixed_2p63 : get_int64 E_NONE (JDouble B64_2P63 None) = Ret INT64_MAX ERANGE.
Proof. vm_compute. reflexivity. Qed.
Example ex_fixed_2p64 : get_uint64 E_NONE (JDouble B64_2P64 None) = Ret UINT64_MAX ERANGE.
Proof. vm_compute. reflexivity. Qed.
Example ex_fixed_inc : int_inc (JUint 5) INT64_MIN = IOk 1 (JInt (5 + INT64_MIN)) /\
                       int_inc (JUint UINT64_MAX) INT64_MIN = IOk 1 (JUint INT64_MAX).
Proof. split; vm_compute; reflexivity. Qed.
Example ex_fixed_str : get_uint64 E_NONE (JStr [9; 45; 53]) = Ret 0 EINVAL /\ get_uint64 E_NONE (JStr [45; 53]) = Ret 0 EINVAL /\
                       get_uint64 E_NONE (JStr [32; 45; 120]) = Ret 0 EINVAL /\ get_uint64 E_NONE (JStr [45; 48]) = Ret 0 EINVAL.
Proof. repeat split; vm_compute; reflexivity. Qed.
Example ex_decomp : str_int [32; 9; 45; 49; 50; 120] = Some (-12) /\ str_minus [32; 9; 45; 49; 50; 120] = true.
Proof. split; vm_compute; reflexivity. Qed.

(* ================================================================== 9. bundles used by Properties_C10.v
   (Print Assumptions costs about a second per lia-dependent theorem; related statements
   are stated together there) *)

Theorem get_int_spec_no_ub e0 o : wf o ->
  get_int e0 o = ret_of (spec_int INT32_MIN INT32_MAX INT32_MIN o) /\ get_int e0 o <> UB.
Proof. intros W. split; [apply get_int_spec | apply get_int_no_ub]; exact W. Qed.

Theorem z_to_b64_correct :
  (forall z, Z.abs z <= TWO53 -> dval_is_int (decode (z_to_b64 z)) z) /\
  (forall z, 52 < Z.log2 (Z.abs z) -> Z.abs z < TWO64 ->
     exists m e, decode (z_to_b64 z) = DFin (z <? 0) m e /\ 0 <= e /\
       let ulp := 2 ^ (Z.log2 (Z.abs z) - 52) in
       let v := m * 2 ^ e in
       2 * Z.abs (v - Z.abs z) <= ulp /\ (2 * Z.abs (v - Z.abs z) = ulp -> Z.even (v / ulp) = true)).
Proof. split; [exact z_to_b64_exact | exact z_to_b64_nearest]. Qed.

Theorem spec_vocabulary :
  (* [dmag_trunc] is truncation toward zero of m * 2^e *)
  (forall m e, 0 <= m ->
     if 0 <=? e then dmag_trunc m e = m * 2 ^ e
     else dmag_trunc m e * 2 ^ (- e) <= m < (dmag_trunc m e + 1) * 2 ^ (- e)) /\
  (* a double is "zero" for get_boolean exactly when it is +0 or -0 *)
  (forall bits, 0 <= bits < TWO64 -> (dne0 (decode bits) = false <-> bits = 0 \/ bits = TWO63)) /\
  (* [str_int] / [str_minus] read "isspace* sign? digit+ rest" *)
  (forall ws sg neg ds rest,
     Forall (fun c => is_space c = true) ws -> sign_bytes neg sg ->
     Forall (fun c => is_digit c = true) ds -> ds <> [] -> not_digit_head rest ->
     str_int (ws ++ sg ++ ds ++ rest) = Some (if neg then - dec_value ds else dec_value ds) /\
     str_minus (ws ++ sg ++ ds ++ rest) = neg) /\
  (* … and a text without digits at that place has no value *)
  (forall ws sg neg rest,
     Forall (fun c => is_space c = true) ws -> sign_bytes neg sg -> not_digit_head rest ->
     (sg = [] -> match rest with c :: _ => is_space c = false /\ c <> 45 /\ c <> 43 | [] => True end) ->
     str_int (ws ++ sg ++ rest) = None).
Proof. repeat split; [apply dmag_trunc_bounds | apply dne0_decode | apply dne0_decode | apply str_int_decomp | apply str_int_decomp | apply str_int_nodigits]; assumption. Qed.
