(* TokExt.v — C16, default mode, the theorems: default_accepts_ext (every document written
   with the documented extension spellings parses to xvalue; trailing garbage is ignored)
   and default_value_neutral (xvalue = the value of the erased RFC 8259 document). *)
From JC Require Import Base BaseLemmas Value TokModel TokProofs TokSyntax
  TokValidBase TokValidLit TokValidNum TokValidStr TokValidObj TokValid
  TokSyntaxExt TokValidExtWs TokValidExtStr TokValidExtNum TokValidExt.
Local Open Scope Z_scope.

(* the sub-grammar of extended trees for which acceptance is proved: all of it *)
Fixpoint covered_x (s : xstx) : bool :=
  match s with
  | XLit _ _ => true            (* any letter case *)
  | XNum _ => true              (* leading zeros, dangling exponent *)
  | XStr _ _ => true            (* either quote, raw control bytes *)
  | XArr _ es _ => forallb (fun x : xws * xstx * xws => covered_x (xel_val x)) es       (* comments, trailing comma *)
  | XObj _ ms _ => forallb (fun m : xmem xstx => covered_x (xm_val m)) ms
  end.
Lemma covered_x_all s : covered_x s = true.
Proof.
  induction s as [l u|n|q cs|w es tc IH|w ms tc IH] using xstx_ind'; try reflexivity.
  - cbn [covered_x]. apply forallb_forall. rewrite Forall_forall in IH. exact IH.
  - cbn [covered_x]. apply forallb_forall. rewrite Forall_forall in IH. exact IH.
Qed.

(* ---------------------------------------------------------------- renderings are NUL-free *)
Lemma nonul_xws w : wf_xws w = true -> nonul (render_xws w) = true.
Proof.
  induction w as [|i w IH]; [reflexivity|]. cbn [wf_xws forallb]. intros H. apply andb_true_iff in H. destruct H as [Hi Hw].
  change (render_xws (i :: w)) with (render_wsitem i ++ render_xws w). rewrite nonul_app, (IH Hw), andb_true_r.
  destruct i as [b|body|body]; cbn [wf_wsitem render_wsitem] in *.
  - cbn [nonul forallb]. unfold is_ws in Hi. lia.
  - apply andb_true_iff in Hi. destruct Hi as [Hz _]. rewrite !nonul_cons, nonul_app. change (nonul body) with (nozero body). rewrite Hz. reflexivity.
  - apply andb_true_iff in Hi. destruct Hi as [Hz _]. rewrite !nonul_cons, nonul_app. change (nonul body) with (nozero body). rewrite Hz. reflexivity.
Qed.

Lemma nonul_xnum n : wf_xnum n = true -> nonul (render_num n) = true.
Proof.
  destruct n as [neg ip fr ex]. unfold wf_xnum, render_num. cbn [n_neg n_int n_frac n_exp]. intros H.
  apply andb_true_iff in H. destruct H as [H Hex]. apply andb_true_iff in H. destruct H as [Hip Hfr].
  destruct (wf_xint_facts ip Hip) as (_ & Hd).
  pose proof (wf_frac_facts fr Hfr) as Ffr. pose proof (wf_xexp_facts ex Hex) as Fex.
  rewrite !nonul_app, (nonul_digits ip Hd).
  assert (E1 : nonul (if neg then [45] else []) = true) by (destruct neg; reflexivity).
  assert (E2 : nonul (render_frac fr) = true).
  { destruct fr as [fd|]; [|reflexivity]. cbn [render_frac]. rewrite nonul_cons, (nonul_digits fd (proj1 Ffr)). reflexivity. }
  assert (E3 : nonul (render_exp ex) = true).
  { destruct ex as [[[ec sg] ed]|]; [|reflexivity]. destruct Fex as (Hec & Hsg & Hed). cbn [render_exp].
    rewrite nonul_cons, nonul_app, (nonul_digits ed Hed).
    destruct sg as [s0|]; cbn [nonul forallb]; lia. }
  rewrite E1, E2, E3. reflexivity.
Qed.

Lemma nonul_xchars q cs : wf_xchars q cs = true -> nonul (render_chars cs) = true.
Proof.
  induction cs as [|ch r IH]; [reflexivity|]. cbn [wf_xchars forallb]. intros H.
  apply andb_true_iff in H. destruct H as [Hc Hr].
  change (render_chars (ch :: r)) with (render_schar ch ++ render_chars r). rewrite nonul_app, (IH Hr), andb_true_r.
  destruct ch as [b|e|d1 d2 d3 d4]; cbn [render_schar wf_xschar] in *.
  - cbn [nonul forallb]. lia.
  - destruct e; reflexivity.
  - apply andb_true_iff in Hc. destruct Hc as [Hc H4]. apply andb_true_iff in Hc. destruct Hc as [Hc H3].
    apply andb_true_iff in Hc. destruct Hc as [H1 H2].
    apply is_hex_cases in H1, H2, H3, H4. cbn [nonul forallb]. lia.
Qed.
Lemma nonul_xstr q cs : wf_quote q = true -> wf_xchars q cs = true -> nonul (render_xstr q cs) = true.
Proof.
  intros Hq H. unfold render_xstr. rewrite nonul_cons, nonul_app, (nonul_xchars q cs H).
  unfold wf_quote in Hq. cbn [nonul forallb]. lia.
Qed.

Lemma nonul_seq_tl {A} (f : A -> list byte) tl l :
  nonul tl = true -> Forall (fun x => nonul (f x) = true) l -> l <> [] -> nonul (seq_tl f tl l) = true.
Proof.
  intros Htl. induction l as [|x r IH]; [congruence|]. intros HF _. inversion HF as [|? ? Hx Hr]; subst.
  cbn [seq_tl]. rewrite nonul_app, Hx. cbn [andb]. destruct r as [|y r]; [exact Htl|].
  rewrite nonul_cons. apply IH; [exact Hr|discriminate].
Qed.
Lemma nonul_tc tc c0 : match tc with Some w => wf_xws w = true | None => True end -> (c0 =? 0) = false ->
  nonul (render_tc tc ++ [c0]) = true.
Proof.
  intros H Hc. rewrite nonul_app. cbn [nonul forallb]. rewrite Hc. cbn [negb andb]. rewrite andb_true_r.
  destruct tc as [w|]; [|reflexivity]. cbn [render_tc]. rewrite nonul_cons, (nonul_xws w H). reflexivity.
Qed.

Lemma xrender_nonul s : wf_xstx s -> nonul (xrender s) = true.
Proof.
  induction s as [l ups|n|q cs|w es tc IH|w ms tc IH] using xstx_ind'; intros Hw; unfold wf_xstx in Hw; cbn [wf_xstxb] in Hw.
  - destruct l.
    + destruct ups as [|u1 [|u2 [|u3 [|u4 [|? ?]]]]]; try discriminate. destruct u1, u2, u3, u4; reflexivity.
    + destruct ups as [|u1 [|u2 [|u3 [|u4 [|? ?]]]]]; try discriminate. destruct u1, u2, u3, u4; reflexivity.
    + destruct ups as [|u1 [|u2 [|u3 [|u4 [|u5 [|? ?]]]]]]; try discriminate. destruct u1, u2, u3, u4, u5; reflexivity.
  - apply nonul_xnum. exact Hw.
  - apply andb_true_iff in Hw. destruct Hw as [Hq Hc]. apply nonul_xstr; assumption.
  - apply andb_true_iff in Hw. destruct Hw as [Hw Hes]. apply andb_true_iff in Hw. destruct Hw as [Hw Htc].
    destruct es as [|y r].
    + cbn [xrender]. rewrite nonul_cons, nonul_app, (nonul_xws w Hw). reflexivity.
    + rewrite xrender_arr_cons, nonul_cons. cbn [negb Z.eqb andb].
      apply nonul_seq_tl; [apply nonul_tc; [|reflexivity]| |discriminate].
      * unfold wf_tc in Htc. destruct tc; [apply andb_true_iff in Htc; tauto|exact I].
      * rewrite forallb_forall in Hes. rewrite Forall_forall in IH |- *. intros [[a e] b] Hx.
        specialize (Hes _ Hx). cbn in Hes. apply andb_true_iff in Hes. destruct Hes as [Hes Hb].
        apply andb_true_iff in Hes. destruct Hes as [Ha He].
        cbn [render_xel]. rewrite !nonul_app, (nonul_xws a Ha), (nonul_xws b Hb).
        specialize (IH _ Hx). unfold xel_val in IH. cbn [fst snd] in IH. rewrite (IH He). reflexivity.
  - apply andb_true_iff in Hw. destruct Hw as [Hw Hms]. apply andb_true_iff in Hw. destruct Hw as [Hw Htc].
    destruct ms as [|y r].
    + cbn [xrender]. rewrite nonul_cons, nonul_app, (nonul_xws w Hw). reflexivity.
    + rewrite xrender_obj_cons, nonul_cons. cbn [negb Z.eqb andb].
      apply nonul_seq_tl; [apply nonul_tc; [|reflexivity]| |discriminate].
      * unfold wf_tc in Htc. destruct tc; [apply andb_true_iff in Htc; tauto|exact I].
      * rewrite forallb_forall in Hms. rewrite Forall_forall in IH |- *. intros [[[[[a [q k]] b] cw] v] d] Hx.
        specialize (Hms _ Hx). cbn in Hms.
        apply andb_true_iff in Hms. destruct Hms as [Hms Hd]. apply andb_true_iff in Hms. destruct Hms as [Hms Hv].
        apply andb_true_iff in Hms. destruct Hms as [Hms Hc]. apply andb_true_iff in Hms. destruct Hms as [Hms Hb].
        apply andb_true_iff in Hms. destruct Hms as [Ha Hk]. apply andb_true_iff in Hk. destruct Hk as [Hq Hk].
        cbn [render_xmem]. rewrite !nonul_app, nonul_cons, !nonul_app.
        rewrite (nonul_xws a Ha), (nonul_xws b Hb), (nonul_xws cw Hc), (nonul_xws d Hd), (nonul_xstr q k Hq Hk).
        specialize (IH _ Hx). unfold xm_val in IH. cbn [fst snd] in IH. rewrite (IH Hv). reflexivity.
Qed.

Lemma upto_nul_app a b : nonul a = true -> upto_nul (a ++ b) = a ++ upto_nul b.
Proof.
  induction a as [|x a IH]; [reflexivity|]. cbn [nonul forallb app upto_nul]. intros H. apply andb_true_iff in H. destruct H as [H1 H2].
  destruct (x =? 0); [discriminate|]. rewrite (IH H2). reflexivity.
Qed.

Section S.
Variable sb : list byte -> Z.

(* ---------------------------------------------------------------- the value lemma *)
Lemma xvalue_ok md al s :
  wf_xstx s -> covered_x s = true -> xints_in_range s = true -> xnames_nul_free s = true -> xval_ok sb md al s.
Proof.
  induction s as [l u|n|q cs|w es tc IH|w ms tc IH] using xstx_ind'; intros Hw Hc Hi Hn.
  - apply xlit_ok. exact Hw.
  - apply xnum_ok; [exact Hw|exact Hi].
  - unfold wf_xstx in Hw. cbn [wf_xstxb] in Hw. apply andb_true_iff in Hw. apply xstr_ok; tauto.
  - apply xarr_ok; [exact Hw|].
    unfold wf_xstx in Hw. cbn [wf_xstxb covered_x xints_in_range xnames_nul_free] in *.
    apply andb_true_iff in Hw. destruct Hw as [_ Hw].
    rewrite forallb_forall in Hw, Hc, Hi, Hn. rewrite Forall_forall in IH |- *.
    intros [[a e] b] Hx. apply (IH _ Hx).
    + specialize (Hw _ Hx). cbn in Hw. unfold wf_xstx, xel_val. cbn [fst snd].
      apply andb_true_iff in Hw. destruct Hw as [Hw _]. apply andb_true_iff in Hw. destruct Hw as [_ Hw]. exact Hw.
    + apply (Hc _ Hx).
    + apply (Hi _ Hx).
    + apply (Hn _ Hx).
  - apply xobj_ok; [exact Hw|exact Hn|].
    unfold wf_xstx in Hw. cbn [wf_xstxb covered_x xints_in_range xnames_nul_free] in *.
    apply andb_true_iff in Hw. destruct Hw as [_ Hw].
    rewrite forallb_forall in Hw, Hc, Hi, Hn. rewrite Forall_forall in IH |- *.
    intros [[[[[a [q k]] b] cw] v] d] Hx. apply (IH _ Hx).
    + specialize (Hw _ Hx). cbn in Hw. unfold wf_xstx, xm_val. cbn [fst snd].
      apply andb_true_iff in Hw. destruct Hw as [Hw _]. apply andb_true_iff in Hw. destruct Hw as [_ Hw]. exact Hw.
    + apply (Hc _ Hx).
    + apply (Hi _ Hx).
    + specialize (Hn _ Hx). apply andb_true_iff in Hn. apply Hn.
Qed.

(* ---------------------------------------------------------------- the end of the call *)
Lemma final_junk md al f j more v g off x nb lo :
  (2 <= f)%nat -> is_ws j = false -> (j =? 47) = false -> (j =? 0) = false ->
  exists t' l', run_f sb f (j :: more) (T (mkcf md false al) [mksrec S_eatws S_finish v None] g 0 off) (mkloc x nb lo None) = LOut t' l' /\
    finish_call t' l' = PR (reset_levels t') (Some v) /\ err t' = TE_success /\ char_offset t' = off.
Proof.
  intros Hf Hws H47 H0. fuel f. destruct g as [p d s u q].
  eexists _, _. split; [|split; [|split]].
  - apply runT_O. cbn [redo].
    assert (S1 : step1 sb (T (mkcf md false al) [mksrec S_eatws S_finish v None] (mkgb p d s u q) 0 off) (mkloc j nb lo None) =
                 Redo (T (mkcf md false al) [mksrec S_finish S_finish v None] (mkgb p d s u q) 0 off) (mkloc j nb lo None)).
    { unfold step1. cbn [st top stack T s_state lc]. rewrite Hws, H47. reflexivity. }
    rewrite S1. reflexivity.
  - unfold finish_call. cbn [lc validate_utf8 T andb strict c_sf]. rewrite H0. cbn [negb andb].
    rewrite !andb_false_r. reflexivity.
  - reflexivity.
  - reflexivity.
Qed.

(* ---------------------------------------------------------------- default_accepts_ext *)
Theorem default_accepts_ext D x lead trail junk t :
  wf_xstx x -> wf_xws lead = true -> wf_xws trail = true -> covered_x x = true ->
  Z.of_nat (xnest x) < D -> xints_in_range x = true -> xnames_nul_free x = true -> junk_ok junk = true ->
  tok_new D false false false = Some t ->
  exists t', parse_ex_cstr sb t (render_xdoc lead x trail ++ junk) = PR t' (Some (xvalue sb x)) /\
             err t' = TE_success /\ char_offset t' = zlen (render_xdoc lead x trail).
Proof.
  intros Hw Hl Htr Hc Hd Hi Hn Hj Hnew.
  pose proof (xvalue_ok D false x Hw Hc Hi Hn) as HV.
  unfold tok_new in Hnew. destruct (D <? 1); [discriminate|]. inversion Hnew; subst t; clear Hnew.
  unfold parse_ex_cstr, render_xdoc. rewrite upto_nul_app.
  2:{ rewrite !nonul_app, (xrender_nonul x Hw), (nonul_xws _ Hl), (nonul_xws _ Htr). reflexivity. }
  unfold parse_ex.
  change (set_err (set_off (mktok [fresh_level] D [] false 0 0 0 0 false false false 0 TE_success) 0) TE_success)
    with (T (mkcf D false false) [fresh_level] (mkgb [] false 0 0 0) 0 0).
  rewrite run_run_f. rewrite <- !app_assoc. unfold xval_ok, fresh_level in *.
  xws_step sb Hl f1 x1 g1 Hf1.
  assert (Hfol : xfol_rest [] (render_xws trail ++ upto_nul junk) = true).
  { apply xfol_rest_ws_top; [exact Htr|]. destruct junk as [|j js]; [reflexivity|].
    cbn [junk_ok] in Hj. cbn [upto_nul]. destruct (j =? 0) eqn:E0; [reflexivity|]. cbn [xfol_rest xfol_ok is_nil]. unfold xstop.
    apply andb_true_iff in Hj. destruct Hj as [_ Hj]. exact Hj. }
  destruct (HV f1 [] g1 (0 + zlen (render_xws lead)) x1 0 JNull (render_xws trail ++ upto_nul junk)) as (f2 & g2 & x2 & lo2 & Hf2 & ->).
  { lia. } { cbn [zlen]. lia. } { exact Hfol. }
  xws_step sb Htr f3 x3 g3 Hf3.
  assert (Hend : exists t' l', run_f sb f3 (upto_nul junk) (T (mkcf D false false) [mksrec S_eatws S_finish (xvalue sb x) None] g3 0
                     (0 + zlen (render_xws lead) + zlen (xrender x) + zlen (render_xws trail))) (mkloc x3 0 lo2 None) = LOut t' l' /\
            finish_call t' l' = PR (reset_levels t') (Some (xvalue sb x)) /\ err t' = TE_success /\
            char_offset t' = 0 + zlen (render_xws lead) + zlen (xrender x) + zlen (render_xws trail)).
  { destruct junk as [|j js].
    - apply final_nul. lia.
    - cbn [junk_ok] in Hj. apply andb_true_iff in Hj. destruct Hj as [Hj _]. apply andb_true_iff in Hj. destruct Hj as [Hj H0].
      apply andb_true_iff in Hj. destruct Hj as [Hws H47].
      cbn [upto_nul]. destruct (j =? 0) eqn:E0; [discriminate|].
      apply final_junk; [lia|destruct (is_ws j); [discriminate|reflexivity]|destruct (j =? 47); [discriminate|reflexivity]|exact E0]. }
  destruct Hend as (t' & l' & -> & -> & He & Ho).
  exists (reset_levels t'). split; [reflexivity|]. split; [exact He|].
  change (char_offset (reset_levels t')) with (char_offset t'). rewrite Ho, !zlen_app. lia.
Qed.

End S.

(* ---------------------------------------------------------------- default_value_neutral *)
Lemma hexval_hexch d : 0 <= d < 16 -> hexval (hexch d) = d.
Proof.
  intros H. unfold hexch, hexval. destruct (d <? 10) eqn:E.
  - destruct (48 + d <=? 57) eqn:E1; lia.
  - destruct (87 + d <=? 57) eqn:E1; [lia|]. destruct (87 + d <=? 70) eqn:E2; lia.
Qed.

Lemma dstep_erase q hi ch : wf_xschar q ch = true -> dstep hi (erase_char ch) = dstep hi ch.
Proof.
  destruct ch as [b|e|d1 d2 d3 d4]; try reflexivity. cbn [wf_xschar erase_char]. intros H.
  destruct (b <? 32) eqn:E32.
  - assert (Hb : 1 <= b < 32) by lia.
    assert (EU : code_unit 48 48 (hexch (b / 16)) (hexch (b mod 16)) = b).
    { unfold code_unit. rewrite !hexval_hexch by (try apply Z.mod_pos_bound; try (split; [apply Z.div_pos|apply Z.div_lt_upper_bound]); lia).
      change (hexval 48) with 0. pose proof (Z.div_mod b 16 ltac:(lia)). lia. }
    cbn [dstep]. rewrite EU. cbv zeta.
    assert (El : is_low_surrogate b = false) by (unfold is_low_surrogate; lia).
    assert (Eh : is_high_surrogate b = false) by (unfold is_high_surrogate; lia).
    rewrite El, Eh, andb_false_r. unfold utf8_ref. assert (E128 : (b <? 128) = true) by lia. rewrite E128. reflexivity.
  - destruct (b =? 34) eqn:E34; [|reflexivity]. assert (b = 34) by lia. subst b. reflexivity.
Qed.

Lemma dec_erase q cs : wf_xchars q cs = true -> forall hi, dec hi (map erase_char cs) = dec hi cs.
Proof.
  induction cs as [|ch r IH]; [reflexivity|]. cbn [wf_xchars forallb]. intros H hi.
  apply andb_true_iff in H. destruct H as [Hc Hr]. cbn [map dec]. rewrite (dstep_erase q hi ch Hc), (IH Hr). reflexivity.
Qed.
Lemma decode_erase q cs : wf_xchars q cs = true -> decode (map erase_char cs) = decode cs.
Proof. intros H. rewrite <- !dec_decode. apply (dec_erase q cs H). Qed.

Lemma strip_zeros_wf ip : wf_int ip = true -> strip_zeros ip = ip.
Proof.
  destruct ip as [|d [|d1 r]]; try reflexivity. unfold wf_int. intros H.
  apply andb_true_iff in H. destruct H as [_ H]. cbn [strip_zeros]. cbn in H. assert (E : (d =? 48) = false) by lia. rewrite E. reflexivity.
Qed.

Lemma erase_num_wf n : wf_num n = true -> erase_num n = n /\ drop_dangling n = n.
Proof.
  destruct n as [neg ip fr ex]. unfold wf_num. cbn [n_neg n_int n_frac n_exp]. intros H.
  apply andb_true_iff in H. destruct H as [H Hex]. apply andb_true_iff in H. destruct H as [Hip Hfr].
  assert (Ed : drop_dangling (mknum neg ip fr ex) = mknum neg ip fr ex).
  { unfold drop_dangling. cbn [n_exp]. destruct ex as [[[ec sg] [|d ds]]|]; try reflexivity.
    unfold wf_exp in Hex. rewrite andb_false_r in Hex. discriminate. }
  split; [|exact Ed]. unfold erase_num. rewrite Ed. cbn [n_neg n_int n_frac n_exp]. rewrite (strip_zeros_wf ip Hip). reflexivity.
Qed.

Theorem default_value_neutral sb x :
  wf_xstx x -> neutral x = true -> xvalue sb x = value sb (erase x).
Proof.
  induction x as [l u|n|q cs|w es tc IH|w ms tc IH] using xstx_ind'; intros Hw Hn.
  - reflexivity.
  - cbn [neutral] in Hn. destruct (erase_num_wf n Hn) as [E1 E2].
    cbn [xvalue erase value]. rewrite E1. unfold xnum_value, num_value. rewrite E2. reflexivity.
  - unfold wf_xstx in Hw. cbn [wf_xstxb] in Hw. apply andb_true_iff in Hw. destruct Hw as [_ Hc].
    cbn [xvalue erase value]. rewrite (decode_erase q cs Hc). reflexivity.
  - unfold wf_xstx in Hw. cbn [wf_xstxb neutral] in *. apply andb_true_iff in Hw. destruct Hw as [_ Hes].
    cbn [xvalue erase value]. f_equal. rewrite map_map.
    rewrite forallb_forall in Hes, Hn. rewrite Forall_forall in IH.
    apply map_ext_in. intros [[a e] b] Hx. unfold el_val, xel_val. cbn [fst snd].
    specialize (IH _ Hx). unfold xel_val in IH. cbn [fst snd] in IH. apply IH.
    + specialize (Hes _ Hx). cbn in Hes. unfold wf_xstx.
      apply andb_true_iff in Hes. destruct Hes as [Hes _]. apply andb_true_iff in Hes. destruct Hes as [_ Hes]. exact Hes.
    + apply (Hn _ Hx).
  - unfold wf_xstx in Hw. cbn [wf_xstxb neutral] in *. apply andb_true_iff in Hw. destruct Hw as [_ Hms].
    cbn [xvalue erase value]. f_equal. f_equal. rewrite map_map.
    rewrite forallb_forall in Hms, Hn. rewrite Forall_forall in IH.
    apply map_ext_in. intros [[[[[a [q k]] b] cw] v] d] Hx. unfold m_name, m_val, xm_name, xm_val. cbn [fst snd].
    specialize (Hms _ Hx). cbn in Hms.
    apply andb_true_iff in Hms. destruct Hms as [Hms _]. apply andb_true_iff in Hms. destruct Hms as [Hms Hv].
    apply andb_true_iff in Hms. destruct Hms as [Hms _]. apply andb_true_iff in Hms. destruct Hms as [Hms _].
    apply andb_true_iff in Hms. destruct Hms as [_ Hk]. apply andb_true_iff in Hk. destruct Hk as [_ Hk].
    rewrite (decode_erase q k Hk). f_equal.
    specialize (IH _ Hx). unfold xm_val in IH. cbn [fst snd] in IH. apply IH; [exact Hv|apply (Hn _ Hx)].
Qed.

(* non-vacuity: a document using every extension form; the value-neutral part agrees with
   its erasure, the whole is accepted in default mode and refused in strict mode *)
Definition cm1 : xws := [WB 32; WBlock [97;42;42;98]; WLine [120;47;42]; WB 9].
(* slash star star star slash,  slash star blank a blank star star slash  (close since json-c commit d13d591) *)
Definition cm2 : xws := [WBlock [42]; WBlock [32;97;32;42]].
Definition exx : xstx :=
  XArr [] [(cm1, XLit LNull [true;false;true;false], [WBlock []]);
           ([], XNum (mknum true [48;48;49;50] None None), cm1);
           ([], XNum (mknum false [48;48] (Some [53]) (Some (69, Some 43, []))), []);
           ([], XNum (mknum false [49;50] None (Some (101, None, []))), []);
           ([WB 10], XStr 39 [CRaw 97; CRaw 34; CRaw 7; CEsc En; CUni 100 56 48 48; CRaw 1], []);
           ([], XObj cm1 [] None, []);
           ([], XObj [] [([WB 32], (39, [CRaw 97]), cm1, [WB 32], XLit LTrue [true;true;true;true], [WB 32]);
                         ([], (34, [CRaw 98; CRaw 39]), [], cm1, XArr [WB 13] [] None, [])] (Some cm1), [])] (Some [WB 32]).
Definition exx_neutral : xstx :=
  XArr [] [(cm1, XLit LFalse [true;false;true;false;true], [WBlock [42;42]]);
           ([WB 10], XStr 39 [CRaw 97; CRaw 34; CRaw 7; CUni 100 56 48 48; CRaw 1], []);
           ([], XObj [] [([WB 32], (39, [CRaw 97]), cm1, [WB 32], XNum (mknum true [49] (Some [53]) None), [WB 32])] (Some cm1), [])] (Some [WB 32]).
Definition jv_is (a b : jv) : bool :=
  match a, b with
  | JArr [JNull; JInt (-12); JDouble 4 (Some [48;48;46;53]); JDouble 2 (Some [49;50]); JStr [97;34;7;10;239;191;189;1]; JObj [];
          JObj [([97], JBool true); ([98;39], JArr [])]],
    JArr [JNull; JInt (-12); JDouble 4 (Some [48;48;46;53]); JDouble 2 (Some [49;50]); JStr [97;34;7;10;239;191;189;1]; JObj [];
          JObj [([97], JBool true); ([98;39], JArr [])]] => true
  | _, _ => false
  end.
Definition ext_example_ok : bool :=
  let sb := fun l : list byte => zlen l in
  wf_xws cm1 && wf_xws cm2 && wf_xstxb exx && (Z.of_nat (xnest exx) <? 3) && xints_in_range exx && xnames_nul_free exx && negb (neutral exx) &&
  wf_xstxb exx_neutral && neutral exx_neutral && wf_stxb (erase exx_neutral) &&
  match tok_new 3 false false false, tok_new 3 true false false with
  | Some t, Some ts =>
      match parse_ex_cstr sb t (render_xdoc (cm1 ++ cm2) exx cm2 ++ [120;0;1]), parse_ex_cstr sb ts (render_xdoc cm1 exx cm1) with
      | PR t' (Some v), PR ts' None =>
          jv_is v (xvalue sb exx) && (char_offset t' =? zlen (render_xdoc (cm1 ++ cm2) exx cm2)) &&
          match err ts' with TE_success | TE_continue => false | _ => true end
      | _, _ => false end
  | _, _ => false end.
Lemma ext_example : ext_example_ok = true.
Proof. vm_compute. reflexivity. Qed.

(* ---------------------------------------------------------------- the erased tree is an RFC 8259 tree *)
Lemma forallb_map {A B} (f : A -> B) (p : B -> bool) l : forallb p (map f l) = forallb (fun x => p (f x)) l.
Proof. induction l as [|x l IH]; [reflexivity|]. cbn. rewrite IH. reflexivity. Qed.

Lemma strip_zeros_wf' ds : wf_xint ds = true -> wf_int (strip_zeros ds) = true.
Proof.
  induction ds as [|d [|d1 r] IH]; intros H.
  - discriminate.
  - cbn [strip_zeros]. unfold wf_xint in H. apply andb_true_iff in H. destruct H as [H _]. unfold wf_int. rewrite H.
    destruct (d =? 48); reflexivity.
  - cbn [strip_zeros]. unfold wf_xint in H. apply andb_true_iff in H. destruct H as [H _].
    destruct (d =? 48) eqn:E.
    + apply IH. unfold wf_xint. cbn [all_digits forallb] in H |- *. apply andb_true_iff in H. destruct H as [_ H]. rewrite H. reflexivity.
    + unfold wf_int. rewrite H, E. reflexivity.
Qed.

Lemma erase_num_wf' n : wf_xnum n = true -> wf_num (erase_num n) = true.
Proof.
  intros H. pose proof (drop_dangling_wf n H) as Hc. unfold erase_num, wf_num. cbn [n_neg n_int n_frac n_exp].
  unfold wf_cnum in Hc. apply andb_true_iff in Hc. destruct Hc as [Hc He]. apply andb_true_iff in Hc. destruct Hc as [Hi Hf].
  rewrite (strip_zeros_wf' _ Hi), Hf, He. reflexivity.
Qed.

Lemma is_hex_hexch d : 0 <= d < 16 -> is_hex (hexch d) = true.
Proof. intros H. unfold hexch, is_hex, is_digit. destruct (d <? 10) eqn:E; lia. Qed.

Lemma erase_char_wf q ch : wf_xschar q ch = true -> wf_schar (erase_char ch) = true.
Proof.
  destruct ch as [b|e|d1 d2 d3 d4]; cbn [wf_xschar erase_char]; intros H; [|reflexivity|exact H].
  destruct (b <? 32) eqn:E32.
  - cbn [wf_schar]. rewrite !is_hex_hexch by (try apply Z.mod_pos_bound; try (split; [apply Z.div_pos|apply Z.div_lt_upper_bound]); lia). reflexivity.
  - destruct (b =? 34) eqn:E34; [reflexivity|]. cbn [wf_schar]. lia.
Qed.
Lemma erase_chars_wf q cs : wf_xchars q cs = true -> wf_chars (map erase_char cs) = true.
Proof.
  unfold wf_xchars, wf_chars. rewrite forallb_map. rewrite !forallb_forall. intros H ch Hch. apply (erase_char_wf q). apply H. exact Hch.
Qed.
Lemma erase_ws_wf w : wf_xws w = true -> all_ws (erase_ws w) = true.
Proof.
  induction w as [|i w IH]; [reflexivity|]. cbn [wf_xws forallb]. intros H. apply andb_true_iff in H. destruct H as [Hi Hw].
  unfold erase_ws. cbn [flat_map]. unfold all_ws. rewrite forallb_app. fold (erase_ws w). fold (all_ws (erase_ws w)). rewrite (IH Hw), andb_true_r.
  destruct i; [cbn [wf_wsitem] in Hi; cbn; rewrite Hi; reflexivity|reflexivity|reflexivity].
Qed.

Theorem erase_wf x : wf_xstx x -> wf_stx (erase x).
Proof.
  unfold wf_xstx, wf_stx.
  induction x as [l u|n|q cs|w es tc IH|w ms tc IH] using xstx_ind'; intros Hw; cbn [wf_xstxb erase wf_stxb] in *.
  - reflexivity.
  - apply erase_num_wf'. exact Hw.
  - apply andb_true_iff in Hw. destruct Hw as [_ Hc]. apply (erase_chars_wf q). exact Hc.
  - apply andb_true_iff in Hw. destruct Hw as [Hw Hes]. apply andb_true_iff in Hw. destruct Hw as [Hw _].
    rewrite (erase_ws_wf w Hw). cbn [andb]. rewrite forallb_map. rewrite forallb_forall in Hes |- *. rewrite Forall_forall in IH.
    intros [[a e] b] Hx. specialize (Hes _ Hx). cbn in Hes.
    apply andb_true_iff in Hes. destruct Hes as [Hes Hb]. apply andb_true_iff in Hes. destruct Hes as [Ha He].
    rewrite (erase_ws_wf a Ha), (erase_ws_wf b Hb). specialize (IH _ Hx). unfold xel_val in IH. cbn [fst snd] in IH. rewrite (IH He). reflexivity.
  - apply andb_true_iff in Hw. destruct Hw as [Hw Hms]. apply andb_true_iff in Hw. destruct Hw as [Hw _].
    rewrite (erase_ws_wf w Hw). cbn [andb]. rewrite forallb_map. rewrite forallb_forall in Hms |- *. rewrite Forall_forall in IH.
    intros [[[[[a [q k]] b] cw] v] d] Hx. specialize (Hms _ Hx). cbn in Hms.
    apply andb_true_iff in Hms. destruct Hms as [Hms Hd]. apply andb_true_iff in Hms. destruct Hms as [Hms Hv].
    apply andb_true_iff in Hms. destruct Hms as [Hms Hc]. apply andb_true_iff in Hms. destruct Hms as [Hms Hb].
    apply andb_true_iff in Hms. destruct Hms as [Ha Hk]. apply andb_true_iff in Hk. destruct Hk as [_ Hk].
    rewrite (erase_ws_wf a Ha), (erase_ws_wf b Hb), (erase_ws_wf cw Hc), (erase_ws_wf d Hd), (erase_chars_wf q k Hk).
    specialize (IH _ Hx). unfold xm_val in IH. cbn [fst snd] in IH. rewrite (IH Hv). reflexivity.
Qed.

(* the two theorems together *)
Corollary default_accepts_neutral sb D x lead trail junk t :
  wf_xstx x -> wf_xws lead = true -> wf_xws trail = true -> neutral x = true ->
  Z.of_nat (xnest x) < D -> xints_in_range x = true -> xnames_nul_free x = true -> junk_ok junk = true ->
  tok_new D false false false = Some t ->
  wf_stx (erase x) /\
  exists t', parse_ex_cstr sb t (render_xdoc lead x trail ++ junk) = PR t' (Some (value sb (erase x))) /\ err t' = TE_success.
Proof.
  intros Hw Hl Ht Hn Hd Hi Hnn Hj Hnew. split; [apply erase_wf; exact Hw|].
  destruct (default_accepts_ext sb D x lead trail junk t Hw Hl Ht (covered_x_all x) Hd Hi Hnn Hj Hnew) as (t' & E & He & _).
  exists t'. rewrite <- (default_value_neutral sb x Hw Hn). auto.
Qed.
