(* Properties_C03.v — statements only (C03: incremental parsing is split-independent). *)
From JC Require Import Base Value TokModel TokFrame TokReset TokSim TokSim2 TokChunk TokChunk3.
Local Open Scope Z_scope.

(* the per-call loop is a fold: running it over a ++ b is running it over a and, if a was
   consumed entirely, continuing over b from the state and locals reached *)
Theorem C03_run_app : forall sb a b t l,
  run sb (a ++ b) t l =
  match run_prefix sb a t l with
  | RPCont t' l' => run sb b t' l'
  | RPStop r => r
  end.
Proof. exact run_app. Qed.
Print Assumptions C03_run_app.

(* two calls: for ALL byte strings a, b (valid or not), all well-formed parser states, ALL
   flag settings (strict, allow-trailing, VALIDATE_UTF8): when the call on a reports that
   more input is needed, the call on b yields the same value, status and error code as the
   single call on a ++ b, with the end position counted from the start of a.  (With
   VALIDATE_UTF8 the premise itself fails for a split inside a multi-byte character: the
   continuation counter is a call-local and such a call reports a UTF-8 error instead of
   asking for more input — see C03_utf8_split_first_call_errors; whenever the first call
   does ask for more input the counter is 0 and the theorem applies.) *)
Theorem C03_chunk_independent : forall sb t a b ta ra,
  wf_tok t ->
  parse_ex sb t a = PR ta ra -> err ta = TE_continue ->
  ra = None /\ wf_tok ta /\ validate_utf8 ta = validate_utf8 t /\
  exists tw ts r, parse_ex sb t (a ++ b) = PR tw r /\ parse_ex sb ta b = PR ts r /\
                  err tw = err ts /\ char_offset tw = zlen a + char_offset ts.
Proof. exact chunk_independent. Qed.
Print Assumptions C03_chunk_independent.

(* any number of calls, by induction on the list of chunks *)
Theorem C03_chunks_independent : forall sb pre t tk last,
  wf_tok t -> feed sb t pre = Some tk ->
  exists tw ts r, parse_ex sb t (concat pre ++ last) = PR tw r /\ parse_ex sb tk last = PR ts r /\
                  err tw = err ts /\ char_offset tw = zlen (concat pre) + char_offset ts.
Proof. exact chunks_independent. Qed.
Print Assumptions C03_chunks_independent.

(* the number locals carried inside one call always equal what the resume code re-derives
   from the saved text (this is what the repaired code guarantees) *)
Theorem C03_number_locals_rederived : forall t n c,
  nl_eq n (num_locals_init (pb t)) -> num_char_ok t n c = true ->
  nl_eq (if c =? 46 then mknl (nl_exp n) true true (nl_len n + 1)
         else if (c =? 101) || (c =? 69) then mknl true true true (nl_len n + 1)
         else mknl (nl_exp n) false false (nl_len n + 1))
        (num_locals_init (pb t ++ [c])).
Proof. exact TokSim2.derive_snoc. Qed.
Print Assumptions C03_number_locals_rederived.

(* observation, not a violation of the property's premise: under VALIDATE_UTF8 a call that
   ends inside a multi-byte character does not ask for more input, it reports a UTF-8 error *)
Theorem C03_utf8_split_first_call_errors :
  exists t, tok_new 32 false false true = Some t /\
  (match parse_ex (fun _ => 0) t [34;195;169;34] with PR t' _ => err t' = TE_success | _ => False end) /\
  (match parse_ex (fun _ => 0) t [34;195] with PR t' _ => err t' = TE_utf8 | _ => False end).
Proof. exact chunk_utf8_refuted. Qed.
Print Assumptions C03_utf8_split_first_call_errors.

(* non-vacuity: "[12" then "3, 4" then "5]" *)
Theorem C03_nonvacuous :
  exists t tk, tok_new 32 false false false = Some t /\ feed (fun _ => 0) t [[91;49;50];[51;44;32;52]] = Some tk /\
    match parse_ex (fun _ => 0) tk [53;93] with PR t' (Some v) => v = JArr [JInt 123; JInt 45] /\ err t' = TE_success | _ => False end.
Proof. eexists _, _. split; [reflexivity|]. split; [vm_compute; reflexivity|]. vm_compute. split; reflexivity. Qed.
Print Assumptions C03_nonvacuous.

(* non-vacuity under VALIDATE_UTF8 (+ strict): "\"é" then "x\"" — a split after a complete
   two-byte character asks for more input, and the second call completes the string *)
Theorem C03_nonvacuous_utf8 :
  exists t tk, tok_new 32 true false true = Some t /\ feed (fun _ => 0) t [[34;195;169]] = Some tk /\
    match parse_ex (fun _ => 0) tk [120;34] with PR t' (Some v) => v = JStr [195;169;120] /\ err t' = TE_success | _ => False end.
Proof. eexists _, _. split; [reflexivity|]. split; [vm_compute; reflexivity|]. vm_compute. split; reflexivity. Qed.
Print Assumptions C03_nonvacuous_utf8.
