(* Properties_C03.v — statements only (C03: split independence). *)
From JC Require Import Base Value TokModel TokFrame TokChunk.
Local Open Scope Z_scope.

(* the per-call loop is a fold: running it over a ++ b is running it over a and, if a was
   consumed entirely, continuing over b from the state and locals reached *)
Theorem C03_run_app : forall sb a b t l,
  run sb (a ++ b) t l =
  match run_prefix sb a t l with
  | RPCont t' l' => run sb b t' l'
  | RPStop r => r
  end.
Proof. exact run_app. Qed.
Print Assumptions C03_run_app.

(* the UTF-8 continuation counter is a call-local: refuted with its witness ("é" split
   inside the two-byte sequence under VALIDATE_UTF8: whole = success, split = utf8 error) *)
Theorem C03_chunk_utf8_refuted :
  exists t, tok_new 32 false false true = Some t /\
  (match parse_ex (fun _ => 0) t [34;195;169;34] with PR t' _ => err t' = TE_success | _ => False end) /\
  (match parse_ex (fun _ => 0) t [34;195] with PR t' _ => err t' = TE_utf8 | _ => False end).
Proof. exact chunk_utf8_refuted. Qed.
Print Assumptions C03_chunk_utf8_refuted.
