(* Properties_C03.v — statements only (C03: incremental parsing is split-independent). *)
From JC Require Import Base Value TokModel TokFrame TokReset TokSim TokSim2 TokChunk TokChunk3.
Local Open Scope Z_scope.

(* the per-call loop is a fold: running it over a ++ b is running it over a and, if a was
   consumed entirely, continuing over b from the state and locals reached *)
Theorem C03_run_app : forall sb a b t l,
  run sb (a ++ b) t l =
  match run_prefix sb a t l with
  | RPCont t' l' => run sb b t' l'
  | RPStop r => r
  end.
Proof. exact run_app. Qed.
Print Assumptions C03_run_app.

(* two calls: for ALL byte strings a, b (valid or not), all well-formed parser states, ALL
   flag settings (strict, allow-trailing, VALIDATE_UTF8): when the call on a reports that
   more input is needed, the call on b yields the same value, status and error code as the
   single call on a ++ b, with the end position counted from the start of a.  (With
   VALIDATE_UTF8 the premise itself fails for a split inside a multi-byte character: the
   continuation counter is a call-local and such a call reports a UTF-8 error instead of
   asking for more input — see C03_utf8_split_first_call_errors; whenever the first call
   does ask for more input the counter is 0 and the theorem applies.) *)
Theorem C03_chunk_independent : forall sb t a b ta ra,
  wf_tok t ->
  parse_ex sb t a = PR ta ra -> err ta = TE_continue ->
  ra = None /\ wf_tok ta /\ validate_utf8 ta = validate_utf8 t /\
  exists tw ts r, parse_ex sb t (a ++ b) = PR tw r /\ parse_ex sb ta b = PR ts r /\
                  err tw = err ts /\ char_offset tw = zlen a + char_offset ts.
Proof. exact chunk_independent. Qed.
Print Assumptions C03_chunk_independent.

(* any number of calls, by induction on the list of chunks *)
Theorem C03_chunks_independent : forall sb pre t tk last,
  wf_tok t -> feed sb t pre = Some tk ->
  exists tw ts r, parse_ex sb t (concat pre ++ last) = PR tw r /\ parse_ex sb tk last = PR ts r /\
                  err tw = err ts /\ char_offset tw = zlen (concat pre) + char_offset ts.
Proof. exact chunks_independent. Qed.
Print Assumptions C03_chunks_independent.

(* the number locals carried inside one call always equal what the resume code re-derives
   from the saved text (this is what the repaired code guarantees) *)
Theorem C03_number_locals_rederived : forall t n c,
  nl_eq n (num_locals_init (pb t)) -> num_char_ok t n c = true ->
  nl_eq (if c =? 46 then mknl (nl_exp n) true true (nl_len n + 1)
         else if (c =? 101) || (c =? 69) then mknl true true true (nl_len n + 1)
         else mknl (nl_exp n) false false (nl_len n + 1))
        (num_locals_init (pb t ++ [c])).
Proof. exact TokSim2.derive_snoc. Qed.
Print Assumptions C03_number_locals_rederived.

(* observation, not a violation of the property's premise: under VALIDATE_UTF8 a call that
   ends inside a multi-byte character does not ask for more input, it reports a UTF-8 error *)
Theorem C03_utf8_split_first_call_errors :
  exists t, tok_new 32 false false true = Some t /\
  (match parse_ex (fun _ => 0) t [34;195;169;34] with PR t' _ => err t' = TE_success | _ => False end) /\
  (match parse_ex (fun _ => 0) t [34;195] with PR t' _ => err t' = TE_utf8 | _ => False end).
Proof. exact chunk_utf8_refuted. Qed.
Print Assumptions C03_utf8_split_first_call_errors.

(* non-vacuity: "[12" then "3, 4" then "5]" *)
Theorem C03_nonvacuous :
  exists t tk, tok_new 32 false false false = Some t /\ feed (fun _ => 0) t [[91;49;50];[51;44;32;52]] = Some tk /\
    match parse_ex (fun _ => 0) tk [53;93] with PR t' (Some v) => v = JArr [JInt 123; JInt 45] /\ err t' = TE_success | _ => False end.
Proof. eexists _, _. split; [reflexivity|]. split; [vm_compute; reflexivity|]. vm_compute. split; reflexivity. Qed.
Print Assumptions C03_nonvacuous.

(* non-vacuity under VALIDATE_UTF8 (+ strict): "\"é" then "x\"" — a split after a complete
   two-byte character asks for more input, and the second call completes the string *)
Theorem C03_nonvacuous_utf8 :
  exists t tk, tok_new 32 true false true = Some t /\ feed (fun _ => 0) t [[34;195;169]] = Some tk /\
    match parse_ex (fun _ => 0) tk [120;34] with PR t' (Some v) => v = JStr [195;169;120] /\ err t' = TE_success | _ => False end.
Proof. eexists _, _. split; [reflexivity|]. split; [vm_compute; reflexivity|]. vm_compute. split; reflexivity. Qed.
Print Assumptions C03_nonvacuous_utf8.

(* ---- streams of concatenated documents, resumed at the reported end position (TokStream.v) ----
   A pending high surrogate is the only thing a finished document could hand to the next one; it is
   0 outside the three states that follow a \uD8xx escape (hs_ok: kept by every call from a new or
   reset parser).  Hence a call that returns a value (explicit-length buffer, no NUL byte in it)
   leaves the parser with one fresh level, no pending surrogate and status success ... *)
From JC Require Import TokTotal TokDead2 TokStream.

Theorem C03_success_leaves_new : forall sb t a t' v,
  wf_tok t -> hs_ok t -> Forall (fun b => b <> 0) a ->
  parse_ex sb t a = PR t' (Some v) ->
  stack t' = [fresh_level] /\ high_surrogate t' = 0 /\ err t' = TE_success.
Proof. exact success_leaves_new. Qed.
Print Assumptions C03_success_leaves_new.

(* ... so whatever is parsed next (the rest of the stream from the reported end position) is
   parsed exactly as by a new parser with the same depth limit and flags: value, status, end *)
Theorem C03_after_success_as_new : forall sb t a t' v x,
  wf_tok t -> hs_ok t -> Forall (fun b => b <> 0) a ->
  parse_ex sb t a = PR t' (Some v) ->
  wf_tok t' /\ hs_ok t' /\
  match parse_ex sb (new_like t') x, parse_ex sb t' x with
  | PR t1 r1, PR t2 r2 => r1 = r2 /\ err t1 = err t2 /\ char_offset t1 = char_offset t2
  | PRFuel, PRFuel => True
  | _, _ => False
  end.
Proof. exact after_success_as_new. Qed.
Print Assumptions C03_after_success_as_new.

(* any number of documents: resuming one parser at each reported end position yields the same
   values and the same final status as taking a new parser for every document; each document
   is then, by C03_chunks_independent, independent of how its bytes are split into calls.
   (A cut that falls between the end of a document and the blanks/comment that follow it hands
   the value over one call earlier than a single call on the whole buffer would — the first
   call there returns the value, not "more input needed", so C03's premise does not apply.) *)
Theorem C03_stream_resume_is_fresh : forall sb fuel t1 t2 bytes,
  as_new t1 -> as_new t2 -> cfg0 t1 = cfg0 t2 -> Forall (fun b => b <> 0) bytes ->
  stream sb false fuel t1 bytes = stream sb true fuel t2 bytes.
Proof. exact stream_resume_is_fresh. Qed.
Print Assumptions C03_stream_resume_is_fresh.

(* the invariant is established by new / reset and kept by every call *)
Theorem C03_hs_ok_kept : forall sb t a t' r,
  wf_tok t -> hs_ok t -> Forall (fun b => b <> 0) a \/ r = None -> parse_ex sb t a = PR t' r -> hs_ok t'.
Proof. exact parse_ex_hs. Qed.
Print Assumptions C03_hs_ok_kept.
Theorem C03_hs_ok_new : forall D s a v t, tok_new D s a v = Some t -> hs_ok t.
Proof. exact hs_ok_new. Qed.
Theorem C03_hs_ok_reset : forall t, hs_ok (tok_reset t).
Proof. exact hs_ok_reset. Qed.

(* non-vacuity: the stream  [1] "a" {"k":2}  through one resumed parser *)
Theorem C03_stream_example :
  exists t, tok_new 32 false false false = Some t /\ as_new t /\
  stream (fun _ => 0) false 10 t [91;49;93;32;34;97;34;32;123;34;107;34;58;50;125] =
    ([JArr [JInt 1]; JStr [97]; JObj [([107], JInt 2)]], TE_continue).
Proof. eexists. split; [reflexivity|]. split; [split; reflexivity|]. vm_compute. reflexivity. Qed.
Print Assumptions C03_stream_example.

(* ---- the stream clause in full: chunked feed vs one call on the whole buffer (TokStream2.v) ----
   [feed_docs t cs] is the caller's loop: per chunk, parse; on success emit the value and go on at
   the reported end inside the chunk; on "continue" take the next chunk; on an error stop.  For
   every list of chunks (no NUL byte; with VALIDATE_UTF8 no cut inside a multi-byte sequence —
   chunk_ok; that restriction is needed: C03_u8_cut_refuted) and flags under which bytes may follow
   a document (non-strict, or strict + allow-trailing): the chunked feed ends with the same error,
   if any, as the single call sequence on the whole buffer, and yields the same documents — except
   that it may be ONE document ahead at the end, when a cut fell between a document and the
   blanks/comment behind it and the whole-buffer call is still inside that (unterminated) comment
   or has failed in it (the first call at that cut returned the value, not "more input needed":
   outside the premise of the property's first sentence). *)
From JC Require Import TokStrictTrail TokStream2.

Theorem C03_stream_chunks : forall sb t cs,
  as_new t -> mode_ok (strict t) (allow_trailing t) = true ->
  Forall (chunk_ok (validate_utf8 t)) cs ->
  let (vc, ec) := feed_docs sb t cs in
  let (vw, ew) := feed_docs sb t [concat cs] in
  ec = ew /\ (vc = vw \/ exists v, vc = vw ++ [v]).
Proof. exact stream_chunks. Qed.
Print Assumptions C03_stream_chunks.

Theorem C03_stream_chunks_novalidate : forall sb t cs,
  as_new t -> mode_ok (strict t) (allow_trailing t) = true -> validate_utf8 t = false ->
  Forall (Forall (fun b => b <> 0)) cs ->
  let (vc, ec) := feed_docs sb t cs in
  let (vw, ew) := feed_docs sb t [concat cs] in
  ec = ew /\ (vc = vw \/ exists v, vc = vw ++ [v]).
Proof. exact stream_chunks_novalidate. Qed.
Print Assumptions C03_stream_chunks_novalidate.

(* non-vacuity and sharpness, evaluated inside Coq: same documents for cuts after a document, inside
   a comment, inside tokens, byte by byte; one document ahead for `true /* a` cut after `true `; the
   same error with `true /x`; strict + allow-trailing; cuts at character boundaries under
   VALIDATE_UTF8; and the refutation of the statement without chunk_ok *)
Theorem C03_stream_examples :
  (feed_docs sb0 (tnew false false false) [ex_stream] = (ex_values, None) /\
   feed_docs sb0 (tnew false false false) (cut2 3 7 ex_stream) = (ex_values, None) /\
   feed_docs sb0 (tnew false false false) (map (fun b => [b]) ex_stream) = (ex_values, None)) /\
  (feed_docs sb0 (tnew false false false) [ex_open] = ([], None) /\
   feed_docs sb0 (tnew false false false) (cut 5 ex_open) = ([JBool true], None)) /\
  (feed_docs sb0 (tnew false false false) [ex_bad] = ([], Some TE_comment) /\
   feed_docs sb0 (tnew false false false) (cut 5 ex_bad) = ([JBool true], Some TE_comment)).
Proof.
  split; [|split].
  - destruct ex_stream_cuts as (A & _ & _ & B & _ & C & _). repeat split; assumption.
  - destruct ex_open_cuts as (A & B & _). split; assumption.
  - destruct ex_bad_cuts as (A & B & _). split; assumption.
Qed.
Print Assumptions C03_stream_examples.

Theorem C03_u8_cut_refuted :
  let t := tnew false false true in
  let cs := [[34;195];[169;34]] in
  as_new t /\ mode_ok (strict t) (allow_trailing t) = true /\ Forall (Forall (fun b => b <> 0)) cs /\
  feed_docs sb0 t cs = ([], Some TE_utf8) /\
  feed_docs sb0 t [concat cs] = ([JStr [195;169]], None).
Proof. exact u8_cut_refuted. Qed.
Print Assumptions C03_u8_cut_refuted.
