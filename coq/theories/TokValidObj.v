(* TokValidObj.v — parse_valid (C01), part 4: objects. *)
From JC Require Import Base BaseLemmas Value TokModel TokProofs TokSyntax TokValidBase TokValidLit TokValidStr.
Local Open Scope Z_scope.

Definition mem := (ws * list schar * ws * ws * stx * ws)%type.

Definition render_mem (m : mem) : list byte :=
  let '(a, k, b, cw, v, d) := m in a ++ render_str k ++ b ++ 58 :: cw ++ render v ++ d.
Fixpoint render_mems (ms : list mem) : list byte :=
  match ms with
  | [] => []
  | m :: r => render_mem m ++ match r with [] => [125] | _ => 44 :: render_mems r end
  end.
Lemma join_mems (f : mem -> list byte) x r :
  (forall y, f y = render_mem y) -> join 44 (map f (x :: r)) ++ [125] = render_mems (x :: r).
Proof.
  intros Hf. revert x. induction r as [|y r IH]; intros x.
  - cbn. rewrite Hf. reflexivity.
  - change (join 44 (map f (x :: y :: r))) with (f x ++ 44 :: join 44 (map f (y :: r))).
    change (render_mems (x :: y :: r)) with (render_mem x ++ 44 :: render_mems (y :: r)).
    rewrite Hf, <- app_assoc. cbn [app]. rewrite IH. reflexivity.
Qed.
Lemma render_obj_cons w x r : render (SObj w (x :: r)) = 123 :: render_mems (x :: r).
Proof.
  cbn [render]. f_equal. apply join_mems. intros [[[[[a k] b] cw] v] d]. reflexivity.
Qed.

Definition mem_ok (m : mem) : bool :=
  let '(a, k, b, cw, v, d) := m in all_ws a && wf_chars k && all_ws b && all_ws cw && wf_stxb v && all_ws d.
Definition mem_kv (sb : list byte -> Z) (m : mem) : list byte * jv := (decode (m_name m), value sb (m_val m)).
Definition add_kv (acc : list (list byte * jv)) (kv : list byte * jv) := obj_add acc (fst kv) (snd kv).

Lemma cstr_nonul l : has_byte 0 l = false -> cstr l = l.
Proof.
  induction l as [|b l IH]; [reflexivity|]. cbn [has_byte cstr]. intros H.
  apply orb_false_iff in H. destruct H as [H1 H2]. rewrite H1, (IH H2). reflexivity.
Qed.

Lemma nest_obj_mems w ms : Forall (fun m => (S (nest (m_val m)) <= nest (SObj w ms))%nat) ms.
Proof.
  cbn [nest]. induction ms as [|x r IH]; constructor.
  - cbn [map list_max fold_right]. apply Nat.le_max_l.
  - eapply Forall_impl; [|exact IH]. cbn beta. intros y Hy. cbn [map list_max fold_right].
    etransitivity; [exact Hy|]. apply Nat.le_max_r.
Qed.

Ltac ws_step sb Hw f' x' Hf' :=
  match goal with
  | |- context [run_f sb ?f (?w ++ ?more) (T ?c (mksrec S_eatws ?sv ?cur ?nm :: ?below) ?g ?hi ?off) (mkloc ?x ?nb ?lo ?ln)] =>
      destruct (run_ws sb c w f sv cur nm below g hi off x nb lo ln more) as (f' & x' & Hf' & ->);
      [ first [assumption | unfold REDO_FUEL; lia] | exact Hw | ]
  end.

Section S.
Variable sb : list byte -> Z.

Lemma obj_name_open c f svs acc rest below g off x nb lo :
  (svs = S_object_field_start \/ svs = S_object_field_start_after_sep) -> (2 <= f)%nat ->
  run_f sb f (34 :: rest) (T c (mksrec S_eatws svs (JObj acc) None :: below) g 0 off) (mkloc x nb lo None) =
  run_f sb REDO_FUEL rest (SS c S_object_field below (JObj acc) None 0 [] svs (g_dbl g) (g_sp g) (g_ucs g) (off + 1)) (mkloc 34 nb lo None).
Proof.
  intros Hs Hf. fuel f. destruct c as [md sf al]. destruct g as [p d s u q]. unfold SS. cbn [Z.eqb g_dbl g_sp g_ucs].
  destruct Hs as [->| ->]; destruct sf; stepC; reflexivity.
Qed.

Lemma obj_colon c f key acc rest below g off x nb lo :
  (2 <= f)%nat ->
  run_f sb f (58 :: rest) (T c (mksrec S_eatws S_object_field_end (JObj acc) (Some key) :: below) g 0 off) (mkloc x nb lo None) =
  run_f sb REDO_FUEL rest (T c (mksrec S_eatws S_object_value (JObj acc) (Some key) :: below) g 0 (off + 1)) (mkloc 58 nb lo None).
Proof.
  intros Hf. fuel f. destruct c as [md sf al]. destruct g as [p d s u q].
  destruct sf; stepC; reflexivity.
Qed.

Lemma obj_pop_comma c f rest v nm' key acc below g off x nb lo :
  (6 <= f)%nat ->
  exists g',
  run_f sb f (44 :: rest) (T c (mksrec S_eatws S_finish v nm' :: mksrec S_object_value_add S_object_value (JObj acc) (Some key) :: below) g 0 off) (mkloc x nb lo None) =
  run_f sb REDO_FUEL rest (T c (mksrec S_eatws S_object_field_start_after_sep (JObj (obj_add acc key v)) None :: below) g' 0 (off + 1)) (mkloc 44 nb v None).
Proof.
  intros Hf. fuel f. destruct c as [md sf al]. destruct g as [p d s u q]. eexists (mkgb _ _ _ _ _).
  destruct sf; stepC; reflexivity.
Qed.
Lemma obj_pop_close c f rest v nm' key acc below g off x nb lo :
  (6 <= f)%nat ->
  exists g',
  run_f sb f (125 :: rest) (T c (mksrec S_eatws S_finish v nm' :: mksrec S_object_value_add S_object_value (JObj acc) (Some key) :: below) g 0 off) (mkloc x nb lo None) =
  run_f sb REDO_FUEL rest (T c (mksrec S_eatws S_finish (JObj (obj_add acc key v)) None :: below) g' 0 (off + 1)) (mkloc 125 nb v None).
Proof.
  intros Hf. fuel f. destruct c as [md sf al]. destruct g as [p d s u q]. eexists (mkgb _ _ _ _ _).
  destruct sf; stepC; reflexivity.
Qed.

Lemma obj_loop c : forall ms,
  ms <> [] -> Forall (fun m => val_ok sb c (m_val m)) ms -> forallb mem_ok ms = true ->
  forallb (fun m : mem => negb (has_byte 0 (decode (m_name m)))) ms = true ->
  forall f svs acc below g off x nb lo rest,
    (svs = S_object_field_start \/ svs = S_object_field_start_after_sep) ->
    (8 <= f)%nat ->
    Forall (fun m => zlen below + 1 + Z.of_nat (nest (m_val m)) < c_md c) ms ->
    exists f' g' x' lo', (8 <= f')%nat /\
    run_f sb f (render_mems ms ++ rest) (T c (mksrec S_eatws svs (JObj acc) None :: below) g 0 off) (mkloc x nb lo None) =
    run_f sb f' rest (T c (mksrec S_eatws S_finish (JObj (fold_left add_kv (map (mem_kv sb) ms) acc)) None :: below) g' 0
                        (off + zlen (render_mems ms))) (mkloc x' nb lo' None).
Proof.
  induction ms as [|[[[[[a k] b] cw] v] d] r IH]; [congruence|].
  intros _ HV Hwf Hnn f svs acc below g off x nb lo rest Hs Hf Hd.
  inversion HV as [|? ? HVe HVr]; subst. inversion Hd as [|? ? Hde Hdr]; subst.
  cbn [forallb mem_ok] in Hwf. apply andb_true_iff in Hwf. destruct Hwf as [Hwm Hwr].
  apply andb_true_iff in Hwm. destruct Hwm as [Hwm Hwd]. apply andb_true_iff in Hwm. destruct Hwm as [Hwm Hwv].
  apply andb_true_iff in Hwm. destruct Hwm as [Hwm Hwc]. apply andb_true_iff in Hwm. destruct Hwm as [Hwm Hwb].
  apply andb_true_iff in Hwm. destruct Hwm as [Hwa Hwk].
  cbn [forallb] in Hnn. apply andb_true_iff in Hnn. destruct Hnn as [Hnk Hnr].
  unfold m_val, m_name in HVe, Hde, Hnk. cbn [fst snd] in HVe, Hde, Hnk.
  assert (Hkey : cstr (decode k) = decode k) by (apply cstr_nonul; destruct (has_byte 0 (decode k)); [discriminate|reflexivity]).
  set (tl_ := match r with [] => [125] | _ :: _ => 44 :: render_mems r end).
  assert (ER : render_mems ((a, k, b, cw, v, d) :: r) ++ rest =
               a ++ 34 :: render_chars k ++ 34 :: b ++ 58 :: cw ++ render v ++ d ++ tl_ ++ rest).
  { cbn [render_mems render_mem]. unfold render_str. fold tl_.
    repeat (rewrite <- ?app_assoc; cbn [app]; rewrite <- ?app_comm_cons). reflexivity. }
  rewrite ER.
  assert (F16 : (8 <= REDO_FUEL)%nat) by (unfold REDO_FUEL; lia).
  (* blanks, opening quote, name, closing quote *)
  ws_step sb Hwa f1 x1 Hf1.
  rewrite obj_name_open; [|exact Hs|lia].
  match goal with |- context [run_f sb REDO_FUEL (render_chars k ++ ?more) (SS c _ _ _ _ _ _ _ ?dd ?ss ?uu ?oo) (mkloc ?xx nb ?ll None)] =>
    destruct (str_body sb c S_object_field k (or_intror eq_refl) Hwk REDO_FUEL 0 [] svs dd ss uu below (JObj acc) None
                oo xx nb ll more F16 (or_introl eq_refl))
      as (f2 & x2 & hi2 & pend & svx2 & sp2 & uc2 & Hf2 & Hhi2 & Hp & ->) end.
  match goal with |- context [run_f sb f2 (34 :: ?more) (SS c _ _ _ _ _ _ _ ?dd ?ss ?uu ?oo) (mkloc ?xx nb ?ll None)] =>
    destruct (str_close sb c S_object_field (or_intror eq_refl) f2 hi2 pend svx2 dd ss uu below (JObj acc) None
                oo xx nb ll more Hf2 Hhi2) as (g3 & ->) end.
  cbn [close_top]. rewrite <- Hp. cbn [app]. rewrite dec_decode, Hkey.
  (* blanks, colon, blanks *)
  ws_step sb Hwb f4 x4 Hf4.
  rewrite obj_colon by lia.
  ws_step sb Hwc f5 x5 Hf5.
  (* the push *)
  destruct (render_first v Hwv) as (x0 & tl0 & Ex0 & Hx0).
  set (tailb := d ++ tl_ ++ rest).
  assert (Hpush : forall gg oo xx ll, exists f6, (4 <= f6)%nat /\
            run_f sb f5 (render v ++ tailb) (T c (mksrec S_eatws S_object_value (JObj acc) (Some (decode k)) :: below) gg 0 oo) (mkloc xx nb ll None) =
            run_f sb f6 (render v ++ tailb) (T c (fresh_level :: mksrec S_object_value_add S_object_value (JObj acc) (Some (decode k)) :: below) gg 0 oo) (mkloc x0 nb ll None)).
  { intros gg oo xx ll. rewrite Ex0. cbn [app]. fuel f5. exists (S (S (S (S (S (S f5)))))). split; [lia|].
    rewrite push_step; [|auto|exact Hx0|pose proof (Nat2Z.is_nonneg (nest v)); lia]. reflexivity. }
  match goal with |- context [run_f sb f5 _ (T c _ ?gg 0 ?oo) (mkloc ?xx nb ?ll None)] =>
    destruct (Hpush gg oo xx ll) as (f6 & Hf6 & ->) end. clear Hpush.
  (* the value *)
  match goal with |- context [run_f sb f6 _ (T c _ ?gg 0 ?oo) (mkloc ?xx nb ?ll None)] =>
    destruct (HVe f6 (mksrec S_object_value_add S_object_value (JObj acc) (Some (decode k)) :: below) gg oo xx nb ll tailb Hf6)
      as (f7 & g7 & x7 & lo7 & Hf7 & ->) end.
  { cbn [zlen]. lia. }
  { subst tailb. apply fol_rest_ws; [exact Hwd|]. subst tl_. destruct r; reflexivity. }
  subst tailb.
  ws_step sb Hwd f8 x8 Hf8.
  subst tl_. destruct r as [|y r].
  - cbn [app].
    match goal with |- context [run_f sb f8 _ (T c _ ?gg 0 ?oo) (mkloc ?xx nb ?ll None)] =>
      destruct (obj_pop_close c f8 rest (value sb v) None (decode k) acc below gg oo xx nb ll) as (g9 & ->); [lia|] end.
    exists REDO_FUEL, g9, 125, (value sb v). split; [exact F16|].
    cbn [map fold_left]. unfold add_kv at 1, mem_kv at 1, m_name, m_val. cbn [fst snd]. f_equal. f_equal.
    cbn [render_mems render_mem]. unfold render_str. repeat (progress (rewrite ?zlen_app; cbn [zlen])). lia.
  - cbn [app].
    match goal with |- context [run_f sb f8 _ (T c _ ?gg 0 ?oo) (mkloc ?xx nb ?ll None)] =>
      destruct (obj_pop_comma c f8 (render_mems (y :: r) ++ rest) (value sb v) None (decode k) acc below gg oo xx nb ll) as (g9 & ->); [lia|] end.
    match goal with |- context [run_f sb REDO_FUEL _ (T c _ ?gg 0 ?oo) (mkloc ?xx nb ?ll None)] =>
      destruct (IH ltac:(discriminate) HVr Hwr Hnr REDO_FUEL S_object_field_start_after_sep (obj_add acc (decode k) (value sb v)) below gg oo xx nb ll rest)
        as (f10 & g10 & x10 & lo10 & Hf10 & ->); [auto|exact F16|exact Hdr|] end.
    exists f10, g10, x10, lo10. split; [exact Hf10|].
    cbn [map fold_left]. unfold add_kv at 2, mem_kv at 2, m_name, m_val. cbn [fst snd]. f_equal. f_equal.
    change (render_mems ((a, k, b, cw, v, d) :: y :: r)) with (render_mem (a, k, b, cw, v, d) ++ 44 :: render_mems (y :: r)).
    cbn [render_mem]. unfold render_str. repeat (progress (rewrite ?zlen_app; cbn [zlen])). lia.
Qed.

Lemma obj_ok c w ms :
  wf_stx (SObj w ms) -> names_nul_free (SObj w ms) = true ->
  Forall (fun m => val_ok sb c (m_val m)) ms -> val_ok sb c (SObj w ms).
Proof.
  intros Hwf Hnn HV f below g off x nb lo rest Hf Hd Hr.
  unfold wf_stx in Hwf. cbn [wf_stxb] in Hwf. apply andb_true_iff in Hwf. destruct Hwf as [Hw Hms].
  assert (E1 : exists g1, run_f sb f (123 :: (match ms with [] => w ++ [125] | _ => render_mems ms end) ++ rest) (T c (fresh_level :: below) g 0 off) (mkloc x nb lo None) =
               run_f sb REDO_FUEL ((match ms with [] => w ++ [125] | _ => render_mems ms end) ++ rest)
                     (T c (mksrec S_eatws S_object_field_start (JObj []) None :: below) g1 0 (off + 1)) (mkloc 123 nb lo None)).
  { fuel f. destruct c as [md sf al]. destruct g as [p d s u q]. eexists (mkgb _ _ _ _ _).
    destruct sf; stepC; reflexivity. }
  destruct E1 as (g1 & E1).
  destruct ms as [|y r].
  - cbn [render value map fold_left app]. cbn [app] in E1. rewrite <- app_assoc in E1 |- *. cbn [app] in E1 |- *. rewrite E1.
    destruct (run_ws sb c w REDO_FUEL S_object_field_start (JObj []) None below g1 0 (off + 1) 123 nb lo None (125 :: rest))
      as (f2 & x2 & Hf2 & ->); [unfold REDO_FUEL; lia|exact Hw|].
    assert (E3 : exists g3, run_f sb f2 (125 :: rest) (T c (mksrec S_eatws S_object_field_start (JObj []) None :: below) g1 0 (off + 1 + zlen w)) (mkloc x2 nb lo None) =
                 run_f sb REDO_FUEL rest (T c (mksrec S_eatws S_finish (JObj []) None :: below) g3 0 (off + 1 + zlen w + 1)) (mkloc 125 nb lo None)).
    { fuel f2. destruct c as [md sf al]. destruct g1 as [p d s u q]. eexists (mkgb _ _ _ _ _).
      destruct sf; stepC; reflexivity. }
    destruct E3 as (g3 & ->).
    exists REDO_FUEL, g3, 125, lo. split; [unfold REDO_FUEL; lia|]. f_equal. f_equal.
    cbn [zlen]. rewrite zlen_app. cbn [zlen]. lia.
  - rewrite render_obj_cons. cbn [app value]. rewrite E1.
    destruct (obj_loop c (y :: r) ltac:(discriminate) HV) with (f := REDO_FUEL) (svs := S_object_field_start) (acc := @nil (list byte * jv))
      (below := below) (g := g1) (off := off + 1) (x := 123) (nb := nb) (lo := lo) (rest := rest)
      as (f2 & g2 & x2 & lo2 & Hf2 & ->).
    + exact Hms.
    + cbn [names_nul_free] in Hnn. rewrite forallb_forall in Hnn |- *. intros m Hm. specialize (Hnn m Hm).
      apply andb_true_iff in Hnn. tauto.
    + auto.
    + unfold REDO_FUEL; lia.
    + pose proof (nest_obj_mems w (y :: r)) as HN. eapply Forall_impl; [|exact HN]. cbn beta. intros z Hz. lia.
    + exists f2, g2, x2, lo2. split; [exact Hf2|]. cbn [app zlen]. f_equal. f_equal. lia.
Qed.

End S.
