(* EqProofs.v — json_object_equal is an equivalence that coincides with equality of the
   denoted values; json_object_deep_copy returns a structurally identical tree made of
   fresh nodes (C09). *)
From Coq Require Import Sorting.Sorted.
From JC Require Import Base BaseLemmas Value EqModel.
Local Open Scope Z_scope.

(* ------------------------------------------------------------------ bytes, keys *)
Lemma bytes_eqb_eq a b : bytes_eqb a b = true <-> a = b.
Proof.
  revert b. induction a as [|x a IH]; intros [|y b]; cbn; split; try congruence; try discriminate.
  - intros H. apply andb_true_iff in H as [H1 H2]. apply Z.eqb_eq in H1. apply IH in H2. congruence.
  - intros H. inversion H; subst. rewrite Z.eqb_refl. cbn. apply IH. reflexivity.
Qed.

Lemma bytes_eqb_refl a : bytes_eqb a a = true.
Proof. apply bytes_eqb_eq. reflexivity. Qed.

Lemma bytes_eqb_neq a b : bytes_eqb a b = false <-> a <> b.
Proof.
  split.
  - intros H E. apply bytes_eqb_eq in E. congruence.
  - intros H. destruct (bytes_eqb a b) eqn:E; [|reflexivity]. apply bytes_eqb_eq in E. contradiction.
Qed.

Lemma bytes_eqb_sym a b : bytes_eqb a b = bytes_eqb b a.
Proof.
  destruct (bytes_eqb a b) eqn:E; symmetry.
  - apply bytes_eqb_eq. apply bytes_eqb_eq in E. congruence.
  - apply bytes_eqb_neq. apply bytes_eqb_neq in E. congruence.
Qed.

Lemma key_cmp_eq a b : key_cmp a b = Eq <-> a = b.
Proof.
  revert b. induction a as [|x a IH]; intros [|y b]; cbn; split; try congruence; try discriminate.
  - destruct (x ?= y) eqn:E; try discriminate. intros H. apply Z.compare_eq in E. apply IH in H. congruence.
  - intros H. inversion H; subst. rewrite Z.compare_refl. apply IH. reflexivity.
Qed.

Lemma key_cmp_refl a : key_cmp a a = Eq.
Proof. apply key_cmp_eq. reflexivity. Qed.

Lemma key_cmp_antisym a b : key_cmp b a = CompOpp (key_cmp a b).
Proof.
  revert b. induction a as [|x a IH]; intros [|y b]; cbn; try reflexivity.
  rewrite (Z.compare_antisym x y). destruct (x ?= y); cbn; auto.
Qed.

Lemma key_cmp_lt_trans a b c : key_cmp a b = Lt -> key_cmp b c = Lt -> key_cmp a c = Lt.
Proof.
  revert b c. induction a as [|x a IH]; intros [|y b] [|z c]; cbn; try congruence; try discriminate.
  destruct (x ?= y) eqn:E1; try discriminate.
  - apply Z.compare_eq in E1. subst y. destruct (x ?= z) eqn:E2; try congruence. apply IH.
  - intros _. destruct (y ?= z) eqn:E2; try discriminate.
    + apply Z.compare_eq in E2. subst z. rewrite E1. reflexivity.
    + intros _. rewrite Z.compare_lt_iff in *. replace (x ?= z) with Lt; [reflexivity|].
      symmetry. apply Z.compare_lt_iff. lia.
Qed.

Lemma key_cmp_gt_lt a b : key_cmp a b = Gt <-> key_cmp b a = Lt.
Proof. rewrite (key_cmp_antisym a b). destruct (key_cmp a b); cbn; split; congruence. Qed.

(* ------------------------------------------------------------------ association lists *)
Definition keys {A} (l : list (list byte * A)) : list (list byte) := map fst l.

Lemma assoc_in {A} k (l : list (list byte * A)) v : assoc k l = Some v -> In (k, v) l.
Proof.
  induction l as [|[k' v'] t IH]; cbn; [discriminate|].
  destruct (bytes_eqb k k') eqn:E.
  - intros H. inversion H; subst. apply bytes_eqb_eq in E. subst. auto.
  - auto.
Qed.

Lemma assoc_none {A} k (l : list (list byte * A)) : assoc k l = None <-> ~ In k (keys l).
Proof.
  induction l as [|[k' v'] t IH]; cbn; [tauto|].
  destruct (bytes_eqb k k') eqn:E.
  - apply bytes_eqb_eq in E. subst. split; [discriminate|]. intros H. exfalso. auto.
  - apply bytes_eqb_neq in E. rewrite IH. unfold keys. split; intros H; [intros [H1|H1]; [congruence|auto]|auto].
Qed.

Lemma assoc_some_key {A} k (l : list (list byte * A)) : In k (keys l) -> exists v, assoc k l = Some v.
Proof.
  intros H. destruct (assoc k l) eqn:E; [eauto|]. apply assoc_none in E. contradiction.
Qed.

Lemma assoc_nodup {A} k v (l : list (list byte * A)) : NoDup (keys l) -> In (k, v) l -> assoc k l = Some v.
Proof.
  induction l as [|[k' v'] t IH]; cbn; [tauto|].
  intros Hnd [H|H].
  - inversion H; subst. rewrite bytes_eqb_refl. reflexivity.
  - inversion Hnd; subst. destruct (bytes_eqb k k') eqn:E.
    + apply bytes_eqb_eq in E. subst. exfalso. apply H2. unfold keys. apply (in_map fst) in H. exact H.
    + auto.
Qed.

Lemma assoc_map {A B} (f : A -> B) k (l : list (list byte * A)) :
  assoc k (map (fun kv => (fst kv, f (snd kv))) l) = option_map f (assoc k l).
Proof.
  induction l as [|[k' v'] t IH]; cbn; [reflexivity|]. destruct (bytes_eqb k k'); cbn; auto.
Qed.

Lemma keys_map {A B} (f : A -> B) (l : list (list byte * A)) :
  keys (map (fun kv => (fst kv, f (snd kv))) l) = keys l.
Proof. unfold keys. rewrite map_map. reflexivity. Qed.

(* ---- canonical (sorted) form ---- *)
Lemma assoc_kinsert {A} k k' (v : A) l :
  assoc k (kinsert k' v l) = if bytes_eqb k k' then Some v else assoc k l.
Proof.
  induction l as [|[k1 v1] t IH]; cbn; [reflexivity|].
  destruct (key_cmp k' k1) eqn:C; cbn; try reflexivity.
  rewrite IH. destruct (bytes_eqb k k1) eqn:E1; [|reflexivity].
  destruct (bytes_eqb k k') eqn:E2; [|reflexivity].
  apply bytes_eqb_eq in E1, E2. rewrite <- E2, E1, key_cmp_refl in C. discriminate.
Qed.

Lemma ksort_cons {A} k (v : A) t : ksort ((k, v) :: t) = kinsert k v (ksort t).
Proof. reflexivity. Qed.

Lemma assoc_ksort {A} k (l : list (list byte * A)) : assoc k (ksort l) = assoc k l.
Proof.
  induction l as [|[k1 v1] t IH]; [reflexivity|]. rewrite ksort_cons, assoc_kinsert, IH. reflexivity.
Qed.

Definition klt {A} (x y : list byte * A) : Prop := key_cmp (fst x) (fst y) = Lt.

Lemma in_keys_kinsert {A} k k' (v : A) l : In k (keys (kinsert k' v l)) <-> k = k' \/ In k (keys l).
Proof.
  induction l as [|[k1 v1] t IH]; cbn; [intuition|].
  destruct (key_cmp k' k1); cbn; intuition.
Qed.

Lemma in_keys_ksort {A} k (l : list (list byte * A)) : In k (keys (ksort l)) <-> In k (keys l).
Proof.
  induction l as [|[k1 v1] t IH]; [cbn; tauto|]. rewrite ksort_cons, in_keys_kinsert, IH. cbn. intuition.
Qed.

Lemma kinsert_sorted {A} k (v : A) l :
  ~ In k (keys l) -> StronglySorted klt l -> StronglySorted klt (kinsert k v l).
Proof.
  induction l as [|[k1 v1] t IH]; cbn; intros Hn Hs.
  - constructor; constructor.
  - inversion Hs; subst. destruct (key_cmp k k1) eqn:C.
    + apply key_cmp_eq in C. subst. exfalso. auto.
    + constructor; [assumption|]. constructor; [exact C|].
      eapply Forall_impl; [|exact H2]. intros [k2 v2] H. unfold klt in *. cbn in *. eapply key_cmp_lt_trans; eauto.
    + constructor; [apply IH; auto|].
      apply Forall_forall. intros [k2 v2] Hin. unfold klt; cbn.
      assert (Hk : In k2 (keys (kinsert k v t))) by (unfold keys; apply (in_map fst) in Hin; exact Hin).
      apply in_keys_kinsert in Hk as [->|Hk].
      * apply key_cmp_gt_lt. exact C.
      * rewrite Forall_forall in H2. unfold keys in Hk. apply in_map_iff in Hk as [[k3 v3] [E Hin3]]. cbn in E. subst.
        apply (H2 _ Hin3).
Qed.

Lemma ksort_sorted {A} (l : list (list byte * A)) : NoDup (keys l) -> StronglySorted klt (ksort l).
Proof.
  induction l as [|[k1 v1] t IH]; intros H; [constructor|]. cbn in H. inversion H; subst.
  rewrite ksort_cons. apply kinsert_sorted; [|auto]. rewrite in_keys_ksort. exact H2.
Qed.

Lemma sorted_head_none {A} k (v : A) t k' :
  StronglySorted klt ((k, v) :: t) -> key_cmp k' k <> Gt -> assoc k' t = None.
Proof.
  intros Hs Hc. inversion Hs; subst. apply assoc_none. intros Hin.
  unfold keys in Hin. apply in_map_iff in Hin as [[k2 v2] [E Hin]]. cbn in E. subst.
  rewrite Forall_forall in H2. specialize (H2 _ Hin). unfold klt in H2. cbn in H2.
  destruct (key_cmp k' k) eqn:C; [| |congruence].
  - apply key_cmp_eq in C. subst. assert (key_cmp k k = Eq) by (apply key_cmp_eq; reflexivity). congruence.
  - pose proof (key_cmp_lt_trans _ _ _ C H2) as H. assert (key_cmp k' k' = Eq) by (apply key_cmp_eq; reflexivity). congruence.
Qed.

Lemma sorted_canonical {A} (l1 l2 : list (list byte * A)) :
  StronglySorted klt l1 -> StronglySorted klt l2 -> (forall k, assoc k l1 = assoc k l2) -> l1 = l2.
Proof.
  revert l2. induction l1 as [|[k1 v1] t1 IH]; intros [|[k2 v2] t2] H1 H2 H.
  - reflexivity.
  - specialize (H k2). cbn in H. rewrite bytes_eqb_refl in H. discriminate.
  - specialize (H k1). cbn in H. rewrite bytes_eqb_refl in H. discriminate.
  - destruct (key_cmp k1 k2) eqn:C.
    + apply key_cmp_eq in C. subst k2.
      pose proof (H k1) as Hk. cbn in Hk. rewrite bytes_eqb_refl in Hk. inversion Hk; subst v2.
      f_equal. apply IH; [inversion H1; auto|inversion H2; auto|].
      intros k. destruct (bytes_eqb k k1) eqn:E.
      * apply bytes_eqb_eq in E. subst.
        rewrite (sorted_head_none _ _ _ k1 H1), (sorted_head_none _ _ _ k1 H2); auto;
          assert (key_cmp k1 k1 = Eq) by (apply key_cmp_eq; reflexivity); congruence.
      * specialize (H k). cbn in H. rewrite E in H. exact H.
    + exfalso. specialize (H k1). cbn in H. rewrite bytes_eqb_refl in H.
      destruct (bytes_eqb k1 k2) eqn:E.
      * apply bytes_eqb_eq in E. subst. assert (key_cmp k2 k2 = Eq) by (apply key_cmp_eq; reflexivity). congruence.
      * rewrite (sorted_head_none _ _ _ k1 H2) in H by congruence. discriminate.
    + exfalso. specialize (H k2). cbn in H. rewrite bytes_eqb_refl in H.
      apply key_cmp_gt_lt in C.
      destruct (bytes_eqb k2 k1) eqn:E.
      * apply bytes_eqb_eq in E. subst. assert (key_cmp k1 k1 = Eq) by (apply key_cmp_eq; reflexivity). congruence.
      * rewrite (sorted_head_none _ _ _ k2 H1) in H by congruence. discriminate.
Qed.

(* two duplicate-free member lists denote the same finite map iff their sorted forms coincide *)
Lemma ksort_eq_iff {A} (l1 l2 : list (list byte * A)) :
  NoDup (keys l1) -> NoDup (keys l2) ->
  (ksort l1 = ksort l2 <-> forall k, assoc k l1 = assoc k l2).
Proof.
  intros N1 N2. split.
  - intros E k. rewrite <- (assoc_ksort k l1), <- (assoc_ksort k l2), E. reflexivity.
  - intros H. apply sorted_canonical; try (apply ksort_sorted; assumption).
    intros k. rewrite !assoc_ksort. apply H.
Qed.

(* ------------------------------------------------------------------ scalars *)
Lemma dval_eqb_spec p q : dval_eqb p q = true <-> p = q /\ p <> DNaN.
Proof.
  destruct p as [|a|a ea ma], q as [|b|b eb mb]; cbn; split; intros H; try discriminate; try (destruct H; congruence).
  - apply Bool.eqb_prop in H. subst. split; [reflexivity|discriminate].
  - destruct H as [H _]. inversion H. apply Bool.eqb_reflx.
  - apply andb_true_iff in H as [H H3]. apply andb_true_iff in H as [H1 H2].
    apply Bool.eqb_prop in H1. apply Z.eqb_eq in H2, H3. subst. split; [reflexivity|discriminate].
  - destruct H as [H _]. inversion H. rewrite Bool.eqb_reflx, !Z.eqb_refl. reflexivity.
Qed.

Lemma dval_eqb_sym p q : dval_eqb p q = dval_eqb q p.
Proof.
  destruct p as [|a|a ea ma], q as [|b|b eb mb]; cbn; try reflexivity.
  - destruct a, b; reflexivity.
  - rewrite (Z.eqb_sym ea eb), (Z.eqb_sym ma mb). destruct a, b; reflexivity.
Qed.

(* ---- the value classes are faithful: distinct classes have distinct real values ---- *)
Definition dval_ok (x : dval) : Prop :=
  match x with
  | DFin s e m => 0 <= e < 2047 /\ 0 <= m < two52 /\ (e = 0 -> m = 0 -> s = false)
  | _ => True
  end.

Lemma d_decode_ok b : dval_ok (d_decode b).
Proof.
  unfold d_decode.
  assert (He : 0 <= d_exp b < 2048) by (unfold d_exp; apply Z.mod_pos_bound; lia).
  assert (Hm : 0 <= d_man b < two52) by (unfold d_man, two52; apply Z.mod_pos_bound; lia).
  destruct (d_exp b =? 2047) eqn:E1.
  - destruct (d_man b =? 0); exact I.
  - destruct ((d_exp b =? 0) && (d_man b =? 0)) eqn:E2; cbn.
    + unfold two52. repeat split; lia.
    + repeat split; lia.
Qed.

Lemma pow2_pos k : 0 <= k -> 0 < 2 ^ k.
Proof. intros. apply Z.pow_pos_nonneg; lia. Qed.

Lemma pow2_ge2 k : 1 <= k -> 2 <= 2 ^ k.
Proof. intros H. change 2 with (2 ^ 1) at 1. apply Z.pow_le_mono_r; lia. Qed.

Lemma d_mag_nonneg e m : 0 <= e -> 0 <= m -> 0 <= d_mag e m.
Proof.
  intros He Hm. unfold d_mag, two52. destruct (e =? 0) eqn:E; [lia|].
  pose proof (pow2_pos (e - 1) ltac:(lia)). nia.
Qed.

Lemma d_mag_zero e m : 0 <= e -> 0 <= m -> d_mag e m = 0 -> e = 0 /\ m = 0.
Proof.
  intros He Hm. unfold d_mag, two52. destruct (e =? 0) eqn:E; [lia|].
  pose proof (pow2_pos (e - 1) ltac:(lia)). nia.
Qed.

Lemma d_mag_inj_le e m e' m' :
  0 <= e -> 0 <= m < two52 -> 0 <= m' < two52 -> e <= e' ->
  d_mag e m = d_mag e' m' -> e = e' /\ m = m'.
Proof.
  intros He Hm Hm' Hle. unfold d_mag, two52 in *.
  destruct (e =? 0) eqn:E1, (e' =? 0) eqn:E2; try lia.
  destruct (Z.eq_dec e e') as [->|Hne].
  - pose proof (pow2_pos (e' - 1) ltac:(lia)). intros H0. split; [reflexivity|].
    apply Z.mul_cancel_r in H0; lia.
  - intros H. exfalso.
      replace (e' - 1) with ((e - 1) + (e' - e)) in H by lia.
      rewrite Z.pow_add_r in H by lia.
      pose proof (pow2_pos (e - 1) ltac:(lia)). pose proof (pow2_ge2 (e' - e) ltac:(lia)).
      assert (E : 4503599627370496 + m = (4503599627370496 + m') * 2 ^ (e' - e)).
      { rewrite Z.mul_assoc, (Z.mul_comm _ (2 ^ (e - 1))), (Z.mul_comm (_ + m') (2 ^ (e - 1))), <- Z.mul_assoc in H.
        apply Z.mul_cancel_l in H; lia. }
      assert (2 * (4503599627370496 + m') <= 2 ^ (e' - e) * (4503599627370496 + m')) by (apply Z.mul_le_mono_nonneg_r; lia).
      lia.
Qed.

Lemma d_mag_inj e m e' m' :
  0 <= e -> 0 <= e' -> 0 <= m < two52 -> 0 <= m' < two52 ->
  d_mag e m = d_mag e' m' -> e = e' /\ m = m'.
Proof.
  intros He He' Hm Hm' H. destruct (Z.le_ge_cases e e').
  - apply d_mag_inj_le; auto.
  - symmetry in H. destruct (d_mag_inj_le e' m' e m); auto.
Qed.

Theorem d_scaled_inj x y z :
  dval_ok x -> dval_ok y -> d_scaled x = Some z -> d_scaled y = Some z -> x = y.
Proof.
  destruct x as [| |s e m], y as [| |s' e' m']; cbn; try discriminate.
  intros (He & Hm & Hz) (He' & Hm' & Hz') H1 H2. inversion H1 as [E1]. inversion H2 as [E2].
  pose proof (d_mag_nonneg e m) as P. pose proof (d_mag_nonneg e' m') as P'.
  destruct (Z.eq_dec (d_mag e m) 0) as [Z0|NZ].
  - assert (d_mag e' m' = 0) by (destruct s, s'; lia).
    apply d_mag_zero in Z0 as [-> ->]; try lia. apply d_mag_zero in H as [-> ->]; try lia.
    rewrite Hz, Hz'; auto.
  - assert (s = s') by (destruct s, s'; try reflexivity; lia). subst s'.
    assert (d_mag e m = d_mag e' m') by (destruct s; lia).
    apply d_mag_inj in H as [-> ->]; try lia. reflexivity.
Qed.

(* hence: the model's == on two non-NaN decoded doubles holds exactly when their real
   values (or infinities) coincide *)
Theorem dval_eqb_real a b :
  d_decode a <> DNaN -> d_decode b <> DNaN ->
  (dval_eqb (d_decode a) (d_decode b) = true <->
   match d_scaled (d_decode a), d_scaled (d_decode b) with
   | Some x, Some y => x = y
   | None, None => d_decode a = d_decode b      (* both infinite: same sign *)
   | _, _ => False
   end).
Proof.
  intros Na Nb. rewrite dval_eqb_spec.
  pose proof (d_decode_ok a) as Oa. pose proof (d_decode_ok b) as Ob.
  destruct (d_decode a) as [|sa|sa ea ma], (d_decode b) as [|sb|sb eb mb]; try congruence; cbn [d_scaled].
  - split; [intros [H _]; exact H|intros H; split; [exact H|discriminate]].
  - split; [intros [H _]; discriminate|tauto].
  - split; [intros [H _]; discriminate|tauto].
  - split.
    + intros [H _]. inversion H. reflexivity.
    + intros H. split; [|discriminate].
      apply (d_scaled_inj (DFin sa ea ma) (DFin sb eb mb) (if sb then - d_mag eb mb else d_mag eb mb)); auto.
      cbn. f_equal. exact H.
Qed.

Lemma nan_free_dbl b t : nan_free (JDouble b t) = true <-> d_decode b <> DNaN.
Proof. cbn. destruct (d_decode b); cbn; split; congruence. Qed.

Lemma str_eq_iff x y : (zlen x =? zlen y) && bytes_eqb x y = true <-> x = y.
Proof.
  split.
  - intros H. apply andb_true_iff in H as [_ H]. apply bytes_eqb_eq. exact H.
  - intros ->. rewrite Z.eqb_refl, bytes_eqb_refl. reflexivity.
Qed.

(* ------------------------------------------------------------------ arrays *)
Lemma all2_zlen {A B} (f : A -> B -> bool) la lb : all2 f la lb = true -> zlen la = zlen lb.
Proof.
  revert lb. induction la as [|x ta IH]; intros [|y tb]; cbn; try discriminate; [reflexivity|].
  intros H. apply andb_true_iff in H as [_ H]. rewrite (IH _ H). reflexivity.
Qed.

Lemma len_all2 {A B} (f : A -> B -> bool) la lb : (zlen la =? zlen lb) && all2 f la lb = all2 f la lb.
Proof.
  destruct (all2 f la lb) eqn:E; [|apply andb_false_r].
  apply all2_zlen in E. rewrite E, Z.eqb_refl. reflexivity.
Qed.

Lemma all2_map_iff {A B C} (f : A -> B -> bool) (g : A -> C) (h : B -> C) la lb :
  (forall x y, In x la -> In y lb -> (f x y = true <-> g x = h y)) ->
  (all2 f la lb = true <-> map g la = map h lb).
Proof.
  revert lb. induction la as [|x ta IH]; intros [|y tb] H; cbn; split; try congruence; try discriminate.
  - intros E. apply andb_true_iff in E as [E1 E2]. f_equal.
    + apply H; cbn; auto.
    + apply IH; [|exact E2]. intros; apply H; cbn; auto.
  - intros E. inversion E. apply andb_true_iff. split.
    + apply H; cbn; auto.
    + apply IH; [|assumption]. intros; apply H; cbn; auto.
Qed.

Lemma all2_ext_in {A B} (f g : A -> B -> bool) la lb :
  (forall x y, In x la -> In y lb -> f x y = g x y) -> all2 f la lb = all2 g la lb.
Proof.
  revert lb. induction la as [|x ta IH]; intros [|y tb] H; cbn; try reflexivity.
  rewrite H by (cbn; auto). f_equal. apply IH. intros; apply H; cbn; auto.
Qed.

(* ------------------------------------------------------------------ well-formedness plumbing *)
Lemma wf_arr_in l x : jv_wf (JArr l) -> In x l -> jv_wf x.
Proof. intros H Hin. inversion H; subst. rewrite Forall_forall in H1. auto. Qed.

Lemma wf_obj_in l k v : jv_wf (JObj l) -> In (k, v) l -> jv_wf v.
Proof. intros H Hin. inversion H; subst. rewrite Forall_forall in H2. apply (H2 _ Hin). Qed.

Lemma wf_obj_nodup l : jv_wf (JObj l) -> NoDup (keys l).
Proof. intros H. inversion H; subst. assumption. Qed.

Lemma nf_arr_in l x : nan_free (JArr l) = true -> In x l -> nan_free x = true.
Proof. cbn. intros H Hin. rewrite forallb_forall in H. auto. Qed.

Lemma nf_obj_in l k v : nan_free (JObj l) = true -> In (k, v) l -> nan_free v = true.
Proof. cbn. intros H Hin. rewrite forallb_forall in H. apply (H _ Hin). Qed.

(* the two loops of json_object_all_values_equal, as a statement about lookups *)
Lemma obj_loops_spec (eq : jv -> jv -> bool) (la lb : list (list byte * jv)) :
  forallb (fun kv => match assoc (fst kv) lb with None => false | Some sub => eq (snd kv) sub end) la
  && forallb (fun kv => match assoc (fst kv) la with None => false | Some _ => true end) lb = true
  <-> (forall k v, In (k, v) la -> exists sub, assoc k lb = Some sub /\ eq v sub = true)
      /\ (forall k w, In (k, w) lb -> assoc k la <> None).
Proof.
  rewrite andb_true_iff, !forallb_forall. split; intros [H1 H2]; split.
  - intros k v Hin. specialize (H1 _ Hin). cbn in H1. destruct (assoc k lb); [eauto|discriminate].
  - intros k w Hin. specialize (H2 _ Hin). cbn in H2. destruct (assoc k la); congruence.
  - intros [k v] Hin. cbn. destruct (H1 _ _ Hin) as (sub & -> & E). exact E.
  - intros [k w] Hin. cbn. specialize (H2 _ _ Hin). destruct (assoc k la); congruence.
Qed.

(* ------------------------------------------------------------------ equal <-> same denotation *)
Definition eq_den_at (a : jv) : Prop :=
  jv_wf a -> nan_free a = true -> forall b, jv_wf b -> nan_free b = true ->
  (jv_equal a b = true <-> denote a = denote b).

Lemma obj_den_iff (la lb : list (list byte * jv)) :
  NoDup (keys la) -> NoDup (keys lb) ->
  (denote (JObj la) = denote (JObj lb) <->
   forall k, option_map denote (assoc k la) = option_map denote (assoc k lb)).
Proof.
  intros Na Nb. cbn [denote].
  assert (E : forall x y : list (list byte * dv), VObj x = VObj y <-> x = y) by (intros; split; congruence).
  rewrite E, ksort_eq_iff by (rewrite keys_map; assumption).
  split; intros H k; specialize (H k); rewrite !assoc_map in *; exact H.
Qed.

Lemma equal_iff_denote_all a : eq_den_at a.
Proof.
  induction a as [|x|x|x|x tx|x|la IH|la IH] using jv_ind'; intros Wa Na b Wb Nb.
  - destruct b; cbn; split; congruence.
  - destruct b as [|y| | | | | |]; cbn; split; try congruence; try discriminate.
    + intros H. apply Bool.eqb_prop in H. congruence.
    + intros H. inversion H. apply Bool.eqb_reflx.
  - destruct b as [| |y|y| | | |]; cbn; split; try congruence; try discriminate.
    + intros H. apply Z.eqb_eq in H. congruence.
    + intros H. inversion H. apply Z.eqb_refl.
    + inversion Wa; inversion Wb; subst. unfold INT64_MIN, INT64_MAX, UINT64_MAX, two64 in *.
      destruct (x <? 0) eqn:E; [discriminate|]. intros H. apply Z.eqb_eq in H.
      rewrite Z.mod_small in H by lia. congruence.
    + inversion Wa; inversion Wb; subst. unfold INT64_MIN, INT64_MAX, UINT64_MAX, two64 in *.
      intros H. inversion H; subst. destruct (y <? 0) eqn:E; [lia|]. rewrite Z.mod_small by lia. apply Z.eqb_refl.
  - destruct b as [| |y|y| | | |]; cbn; split; try congruence; try discriminate.
    + inversion Wa; inversion Wb; subst. unfold INT64_MIN, INT64_MAX, UINT64_MAX, two64 in *.
      destruct (y <? 0) eqn:E; [discriminate|]. intros H. apply Z.eqb_eq in H.
      rewrite Z.mod_small in H by lia. congruence.
    + inversion Wa; inversion Wb; subst. unfold INT64_MIN, INT64_MAX, UINT64_MAX, two64 in *.
      intros H. inversion H; subst. destruct (y <? 0) eqn:E; [lia|]. rewrite Z.mod_small by lia. apply Z.eqb_refl.
    + intros H. apply Z.eqb_eq in H. congruence.
    + intros H. inversion H. apply Z.eqb_refl.
  - destruct b as [| | | |y ty| | |]; try (cbn; split; [discriminate|congruence]).
    apply nan_free_dbl in Na. cbn [jv_equal denote]. rewrite dval_eqb_spec. split.
    + intros [H _]. congruence.
    + intros H. inversion H. split; [reflexivity|assumption].
  - destruct b as [| | | | |y| |]; try (cbn; split; [discriminate|congruence]).
    cbn [jv_equal denote]. rewrite str_eq_iff. split; congruence.
  - destruct b as [| | | | | |lb|]; try (cbn; split; [discriminate|congruence]).
    cbn [jv_equal denote]. rewrite len_all2.
    assert (E : forall x y : list dv, VArr x = VArr y <-> x = y) by (intros; split; congruence).
    rewrite E. apply all2_map_iff. intros x y Hx Hy.
    rewrite Forall_forall in IH. apply (IH x Hx).
    + exact (wf_arr_in _ _ Wa Hx).
    + exact (nf_arr_in _ _ Na Hx).
    + exact (wf_arr_in _ _ Wb Hy).
    + exact (nf_arr_in _ _ Nb Hy).
  - destruct b as [| | | | | | |lb]; try (cbn; split; [discriminate|congruence]).
    pose proof (wf_obj_nodup _ Wa) as NDa. pose proof (wf_obj_nodup _ Wb) as NDb.
    rewrite obj_den_iff by assumption. cbn [jv_equal]. rewrite obj_loops_spec.
    rewrite Forall_forall in IH. split.
    + intros [H1 H2] k. destruct (assoc k la) as [v|] eqn:Ea.
      * apply assoc_in in Ea. destruct (H1 _ _ Ea) as (sub & Eb & Eq). rewrite Eb. cbn. f_equal.
        apply assoc_in in Eb.
        apply (IH (k, v) Ea);
          [exact (wf_obj_in _ _ _ Wa Ea)|exact (nf_obj_in _ _ _ Na Ea)|exact (wf_obj_in _ _ _ Wb Eb)|exact (nf_obj_in _ _ _ Nb Eb)|exact Eq].
      * destruct (assoc k lb) as [w|] eqn:Eb; [|reflexivity]. apply assoc_in in Eb.
        exfalso. apply (H2 _ _ Eb). exact Ea.
    + intros Hk. split.
      * intros k v Hin. specialize (Hk k). rewrite (assoc_nodup _ _ _ NDa Hin) in Hk. cbn in Hk.
        destruct (assoc k lb) as [sub|] eqn:Eb; [|discriminate]. cbn in Hk. inversion Hk.
        exists sub. split; [reflexivity|]. apply assoc_in in Eb.
        apply (IH (k, v) Hin);
          [exact (wf_obj_in _ _ _ Wa Hin)|exact (nf_obj_in _ _ _ Na Hin)|exact (wf_obj_in _ _ _ Wb Eb)|exact (nf_obj_in _ _ _ Nb Eb)|exact H0].
      * intros k w Hin. specialize (Hk k). rewrite (assoc_nodup _ _ _ NDb Hin) in Hk.
        destruct (assoc k la); [discriminate|discriminate].
Qed.

(* ------------------------------------------------------------------ a NaN anywhere makes the comparison false *)
Lemma all2_forallb {A B} (f : A -> B -> bool) (p : A -> bool) (q : B -> bool) la lb :
  (forall x y, In x la -> In y lb -> f x y = true -> p x = true /\ q y = true) ->
  all2 f la lb = true -> forallb p la = true /\ forallb q lb = true.
Proof.
  revert lb. induction la as [|x ta IH]; intros [|y tb] H; cbn; try discriminate; [auto|].
  intros E. apply andb_true_iff in E as [E1 E2].
  destruct (H x y) as [Hp Hq]; cbn; auto.
  destruct (IH tb) as [Hp' Hq']; [intros; apply H; cbn; auto|exact E2|].
  rewrite Hp, Hq, Hp', Hq'. auto.
Qed.

Lemma equal_true_nan_free a : jv_wf a -> forall b, jv_wf b -> jv_equal a b = true ->
  nan_free a = true /\ nan_free b = true.
Proof.
  induction a as [|x|x|x|x tx|x|la IH|la IH] using jv_ind'; intros Wa b Wb.
  - destruct b; cbn; try discriminate; auto.
  - destruct b; cbn; try discriminate; auto.
  - destruct b; cbn; try discriminate; auto.
  - destruct b; cbn; try discriminate; auto.
  - destruct b as [| | | |y ty| | |]; try (cbn; discriminate).
    cbn [jv_equal]. rewrite dval_eqb_spec. intros [E Hn]. rewrite !nan_free_dbl. split; congruence.
  - destruct b; cbn; try discriminate; auto.
  - destruct b as [| | | | | |lb|]; try (cbn; discriminate).
    cbn [jv_equal nan_free]. rewrite len_all2. apply all2_forallb.
    intros x y Hx Hy. rewrite Forall_forall in IH. apply (IH x Hx).
    + exact (wf_arr_in _ _ Wa Hx).
    + exact (wf_arr_in _ _ Wb Hy).
  - destruct b as [| | | | | | |lb]; try (cbn; discriminate).
    cbn [jv_equal nan_free]. rewrite obj_loops_spec. intros [H1 H2].
    rewrite Forall_forall in IH. rewrite !forallb_forall. split.
    + intros [k v] Hin. cbn. destruct (H1 _ _ Hin) as (sub & Eb & Eq). apply assoc_in in Eb.
      apply (IH (k, v) Hin (wf_obj_in _ _ _ Wa Hin) sub (wf_obj_in _ _ _ Wb Eb) Eq).
    + intros [k w] Hin. cbn. specialize (H2 _ _ Hin).
      destruct (assoc k la) as [v|] eqn:Ea; [|congruence]. apply assoc_in in Ea.
      destruct (H1 _ _ Ea) as (sub & Eb & Eq).
      rewrite (assoc_nodup _ _ _ (wf_obj_nodup _ Wb) Hin) in Eb. inversion Eb; subst sub.
      apply (IH (k, v) Ea (wf_obj_in _ _ _ Wa Ea) w (wf_obj_in _ _ _ Wb Hin) Eq).
Qed.

(* ------------------------------------------------------------------ the equivalence *)
Theorem equal_iff_denote a b :
  jv_wf a -> jv_wf b -> nan_free a = true -> nan_free b = true ->
  (jv_equal a b = true <-> denote a = denote b).
Proof. intros Wa Wb Na Nb. apply equal_iff_denote_all; assumption. Qed.

(* without the NaN-free hypothesis: equal exactly when both trees are NaN-free and
   denote the same value *)
Theorem equal_iff_denote_nan a b :
  jv_wf a -> jv_wf b ->
  (jv_equal a b = true <-> nan_free a = true /\ nan_free b = true /\ denote a = denote b).
Proof.
  intros Wa Wb. split.
  - intros E. destruct (equal_true_nan_free a Wa b Wb E) as [Na Nb].
    repeat split; try assumption. apply equal_iff_denote; assumption.
  - intros (Na & Nb & E). apply equal_iff_denote; assumption.
Qed.

Theorem equal_refl a : jv_wf a -> nan_free a = true -> jv_equal a a = true.
Proof. intros W N. apply equal_iff_denote; auto. Qed.

Theorem equal_refl_same_node a : jv_equal_root true a a = true.
Proof. reflexivity. Qed.

Theorem equal_nan_false a b : jv_wf a -> jv_wf b -> nan_free a = false \/ nan_free b = false -> jv_equal a b = false.
Proof.
  intros Wa Wb H. destruct (jv_equal a b) eqn:E; [|reflexivity].
  destruct (equal_true_nan_free a Wa b Wb E) as [Na Nb]. destruct H; congruence.
Qed.

Theorem equal_sym a b : jv_wf a -> jv_wf b -> jv_equal a b = jv_equal b a.
Proof.
  intros Wa Wb.
  destruct (jv_equal a b) eqn:E1, (jv_equal b a) eqn:E2; try reflexivity.
  - apply equal_iff_denote_nan in E1 as (Na & Nb & E); auto.
    assert (jv_equal b a = true) by (apply equal_iff_denote; auto). congruence.
  - apply equal_iff_denote_nan in E2 as (Nb & Na & E); auto.
    assert (jv_equal a b = true) by (apply equal_iff_denote; auto). congruence.
Qed.

Theorem equal_trans a b c : jv_wf a -> jv_wf b -> jv_wf c ->
  jv_equal a b = true -> jv_equal b c = true -> jv_equal a c = true.
Proof.
  intros Wa Wb Wc E1 E2.
  apply equal_iff_denote_nan in E1 as (Na & Nb & E1); auto.
  apply equal_iff_denote_nan in E2 as (_ & Nc & E2); auto.
  apply equal_iff_denote; auto. congruence.
Qed.

(* the call-level relation: [sab] etc. say which of the three pointers coincide; equal
   pointers point to equal trees *)
Theorem equal_root_sym sab a b : jv_wf a -> jv_wf b ->
  jv_equal_root sab a b = jv_equal_root sab b a.
Proof. intros. destruct sab; cbn; [reflexivity|apply equal_sym; assumption]. Qed.

Theorem equal_root_trans sab sbc a b c : jv_wf a -> jv_wf b -> jv_wf c ->
  (sab = true -> a = b) -> (sbc = true -> b = c) ->
  jv_equal_root sab a b = true -> jv_equal_root sbc b c = true ->
  jv_equal_root (sab && sbc) a c = true.
Proof.
  intros Wa Wb Wc Hab Hbc. destruct sab, sbc; cbn; intros E1 E2.
  - reflexivity.
  - rewrite (Hab eq_refl). exact E2.
  - rewrite <- (Hbc eq_refl). exact E1.
  - exact (equal_trans a b c Wa Wb Wc E1 E2).
Qed.

Theorem kinds_differ_not_equal a b : jv_kind a <> jv_kind b -> jv_equal a b = false.
Proof. destruct a, b; cbn; intros H; try reflexivity; congruence. Qed.

Theorem denote_kind a b : denote a = denote b -> jv_kind a = jv_kind b.
Proof. destruct a, b; cbn; intros H; try reflexivity; discriminate. Qed.

(* ------------------------------------------------------------------ deep copy *)
Lemma fold_append {A B} (f : A -> B) l acc :
  fold_left (fun dst x => dst ++ [f x]) l acc = acc ++ map f l.
Proof.
  revert acc. induction l as [|x t IH]; intros acc; cbn; [symmetry; apply app_nil_r|].
  rewrite IH, <- app_assoc. reflexivity.
Qed.

Lemma obj_add_new {A} (l : list (list byte * A)) k v : ~ In k (keys l) -> obj_add l k v = l ++ [(k, v)].
Proof.
  induction l as [|[k' v'] t IH]; cbn; intros H; [reflexivity|].
  destruct (bytes_eqb k k') eqn:E.
  - apply bytes_eqb_eq in E. subst. exfalso. auto.
  - rewrite IH; auto.
Qed.

Lemma fold_obj_add {A B} (f : A -> B) (l : list (list byte * A)) acc :
  NoDup (keys l) -> (forall k, In k (keys l) -> ~ In k (keys acc)) ->
  fold_left (fun dst kv => obj_add dst (fst kv) (f (snd kv))) l acc
  = acc ++ map (fun kv => (fst kv, f (snd kv))) l.
Proof.
  revert acc. induction l as [|[k v] t IH]; intros acc ND Hd; cbn; [symmetry; apply app_nil_r|].
  cbn in ND. inversion ND; subst.
  rewrite obj_add_new by (apply Hd; cbn; auto).
  rewrite IH; [rewrite <- app_assoc; reflexivity|assumption|].
  intros k' Hin. unfold keys. rewrite map_app, in_app_iff. cbn. intros [H|[H|[]]].
  - apply (Hd k'); cbn; auto.
  - subst. contradiction.
Qed.

Lemma map_id_in {A} (f : A -> A) l : (forall x, In x l -> f x = x) -> map f l = l.
Proof. intros H. rewrite <- (map_id l) at 2. apply map_ext_in. exact H. Qed.

(* the copy is the same tree: same kinds, same scalar values in the same C representation
   (int64 / uint64), same retained number texts, same member order *)
Theorem deep_copy_same a : jv_wf a -> deep_copy a = a.
Proof.
  induction a as [|x|x|x|x tx|x|la IH|la IH] using jv_ind'; intros W; try reflexivity.
  - destruct tx; reflexivity.
  - cbn [deep_copy]. rewrite fold_append. cbn. f_equal. apply map_id_in.
    intros x Hx. rewrite Forall_forall in IH. apply (IH x Hx). exact (wf_arr_in _ _ W Hx).
  - cbn [deep_copy]. rewrite fold_obj_add; [|exact (wf_obj_nodup _ W)|cbn; auto]. cbn. f_equal.
    apply map_id_in. intros [k v] Hin. cbn. f_equal. rewrite Forall_forall in IH.
    apply (IH (k, v) Hin). exact (wf_obj_in _ _ _ W Hin).
Qed.

Theorem deep_copy_wf a : jv_wf a -> jv_wf (deep_copy a).
Proof. intros W. rewrite deep_copy_same; assumption. Qed.

Theorem deep_copy_equal a : jv_wf a -> nan_free a = true -> jv_equal a (deep_copy a) = true /\ jv_equal (deep_copy a) a = true.
Proof. intros W N. rewrite deep_copy_same by assumption. split; apply equal_refl; assumption. Qed.

(* with a NaN inside, the copy is a different node and therefore unequal *)
Theorem deep_copy_equal_iff a : jv_wf a -> jv_equal a (deep_copy a) = nan_free a.
Proof.
  intros W. rewrite deep_copy_same by assumption. destruct (nan_free a) eqn:N.
  - apply equal_refl; assumption.
  - apply equal_nan_false; auto.
Qed.

Theorem deep_copy_denote a : jv_wf a -> denote (deep_copy a) = denote a.
Proof. intros W. rewrite deep_copy_same; auto. Qed.

(* any serializer that is a function of the tree (flags, level, ... being further
   arguments) produces the same text for the copy *)
Theorem deep_copy_same_text {F T : Type} (ser : F -> jv -> T) a :
  jv_wf a -> forall flags, ser flags (deep_copy a) = ser flags a.
Proof. intros W flags. rewrite deep_copy_same; auto. Qed.

Theorem deep_copy_root_spec a : jv_wf a ->
  deep_copy_root a = match a with JNull => None | _ => Some a end.
Proof. intros W. unfold deep_copy_root. destruct a; try reflexivity; rewrite deep_copy_same; auto. Qed.

(* ------------------------------------------------------------------ node addresses *)
Lemma NoDup_app_intro {A} (l1 l2 : list A) :
  NoDup l1 -> NoDup l2 -> (forall x, In x l1 -> ~ In x l2) -> NoDup (l1 ++ l2).
Proof.
  induction l1 as [|x t IH]; cbn; intros H1 H2 Hd; [assumption|].
  inversion H1; subst. constructor.
  - rewrite in_app_iff. intros [H|H]; [contradiction|]. apply (Hd x); auto.
  - apply IH; auto.
Qed.

(* allocation of a list of subtrees: addresses handed out are consecutive, hence in
   range, pairwise distinct *)
Definition alloc_ok {A B} (f : A -> Z -> B * Z) (ad : B -> list Z) (x : A) : Prop :=
  forall n, n <= snd (f x n) /\ (forall i, In i (ad (fst (f x n))) -> n <= i < snd (f x n)) /\
            NoDup (ad (fst (f x n))).

Lemma thread_alloc {A B} (f : A -> Z -> B * Z) (ad : B -> list Z) l :
  Forall (alloc_ok f ad) l ->
  forall m, m <= snd (thread f l m) /\
            (forall i, In i (flat_map ad (fst (thread f l m))) -> m <= i < snd (thread f l m)) /\
            NoDup (flat_map ad (fst (thread f l m))).
Proof.
  induction l as [|x t IH]; intros HF m; cbn.
  - repeat split; try lia; try tauto. constructor.
  - inversion HF; subst. destruct (H1 m) as (Hx1 & Hx2 & Hx3).
    destruct (f x m) as [x' n1] eqn:Ef. cbn in *.
    destruct (IH H2 n1) as (Ht1 & Ht2 & Ht3).
    destruct (thread f t n1) as [t' n2] eqn:Et. cbn in *.
    split; [lia|]. split.
    + intros i Hi. apply in_app_iff in Hi as [Hi|Hi]; [specialize (Hx2 _ Hi)|specialize (Ht2 _ Hi)]; lia.
    + apply NoDup_app_intro; auto. intros i Hi Hi'. specialize (Hx2 _ Hi). specialize (Ht2 _ Hi'). lia.
Qed.

Lemma thread_map {A B C} (f : A -> Z -> B * Z) (er : B -> C) (g : A -> C) l :
  (forall x n, In x l -> er (fst (f x n)) = g x) ->
  forall m, map er (fst (thread f l m)) = map g l.
Proof.
  induction l as [|x t IH]; intros H m; cbn; [reflexivity|].
  pose proof (H x m (or_introl eq_refl)) as Hx.
  destruct (f x m) as [x' n1]. specialize (IH (fun y n Hy => H y n (or_intror Hy)) n1).
  destruct (thread f t n1) as [t' n2]. cbn in *. congruence.
Qed.

Definition build_kv (kv : list byte * jv) (m : Z) : (list byte * nt) * Z :=
  let (x', m1) := build (snd kv) m in ((fst kv, x'), m1).

Lemma build_alloc v : alloc_ok build addrs v.
Proof.
  induction v as [|x|x|x|x tx|x|la IH|la IH] using jv_ind'; intros n;
    try (cbn; split; [lia|split; [intros i [<-|[]]; lia|constructor; [cbn; tauto|constructor]]]; fail).
  - cbn. repeat split; try lia; try tauto. constructor.
  - cbn [build fst snd addrs]. destruct (thread_alloc build addrs la IH (n + 1)) as (H1 & H2 & H3).
    split; [lia|]. split.
    + intros i [<-|Hi]; [lia|]. specialize (H2 _ Hi). lia.
    + constructor; [|assumption]. intros Hi. specialize (H2 _ Hi). lia.
  - cbn [build fst snd addrs]. fold build_kv.
    assert (HF : Forall (alloc_ok build_kv (fun kv => addrs (snd kv))) la).
    { eapply Forall_impl; [|exact IH]. intros [k v] Hv m. cbn in Hv. unfold build_kv. cbn.
      specialize (Hv m). destruct (build v m) as [x' m1]. cbn in *. exact Hv. }
    destruct (thread_alloc build_kv (fun kv => addrs (snd kv)) la HF (n + 1)) as (H1 & H2 & H3).
    split; [lia|]. split.
    + intros i [<-|Hi]; [lia|]. specialize (H2 _ Hi). lia.
    + constructor; [|assumption]. intros Hi. specialize (H2 _ Hi). lia.
Qed.

Lemma erase_build v n : erase (fst (build v n)) = v.
Proof.
  revert n. induction v as [|x|x|x|x tx|x|la IH|la IH] using jv_ind'; intros n; try reflexivity.
  - cbn [build fst erase]. f_equal. rewrite (thread_map build erase (fun x => x)); [apply map_id|].
    intros x m Hx. rewrite Forall_forall in IH. apply IH. exact Hx.
  - cbn [build fst erase]. fold build_kv. f_equal.
    rewrite (thread_map build_kv (fun kv => (fst kv, erase (snd kv))) (fun kv => kv)); [apply map_id|].
    intros [k v] m Hin. unfold build_kv. cbn. rewrite Forall_forall in IH. specialize (IH _ Hin m). cbn in IH.
    destruct (build v m). cbn in *. congruence.
Qed.

(* a deep copy made when every address of the source is below the allocation pointer:
   structurally the source, made of fresh, pairwise distinct nodes *)
Theorem copy_erase t n : jv_wf (erase t) -> erase (fst (nt_copy t n)) = erase t.
Proof. intros W. unfold nt_copy. rewrite erase_build. apply deep_copy_same. exact W. Qed.

Theorem copy_fresh t n : forall i, In i (addrs (fst (nt_copy t n))) -> n <= i < snd (nt_copy t n).
Proof. unfold nt_copy. apply (build_alloc (deep_copy (erase t)) n). Qed.

Theorem copy_tree_shaped t n : NoDup (addrs (fst (nt_copy t n))).
Proof. unfold nt_copy. apply (build_alloc (deep_copy (erase t)) n). Qed.

Theorem deep_copy_disjoint t n :
  (forall i, In i (addrs t) -> i < n) ->
  forall i, In i (addrs t) -> In i (addrs (fst (nt_copy t n))) -> False.
Proof. intros H i H1 H2. specialize (H _ H1). apply copy_fresh in H2. lia. Qed.

(* ---- frame of a store ---- *)
Theorem write_frame i f t : ~ In i (addrs t) -> nt_write i f t = t.
Proof.
  induction t as [|j x|j l IH|j l IH] using nt_ind'; cbn; intros H; try reflexivity.
  - destruct (j =? i) eqn:E; [|reflexivity]. apply Z.eqb_eq in E. exfalso. auto.
  - destruct (j =? i) eqn:E; [apply Z.eqb_eq in E; exfalso; auto|]. f_equal.
    apply map_id_in. intros x Hx. rewrite Forall_forall in IH. apply (IH x Hx).
    intros Hi. apply H. right. apply in_flat_map. eauto.
  - destruct (j =? i) eqn:E; [apply Z.eqb_eq in E; exfalso; auto|]. f_equal.
    apply map_id_in. intros [k v] Hin. cbn. f_equal. rewrite Forall_forall in IH. apply (IH (k, v) Hin).
    intros Hi. apply H. right. apply in_flat_map. exists (k, v). auto.
Qed.

(* a store through any pointer into the copy leaves the source as it was, and conversely;
   freeing all nodes of one tree frees no node of the other (deep_copy_disjoint) *)
Theorem mutation_frame t n f :
  (forall i, In i (addrs t) -> i < n) ->
  (forall i, In i (addrs (fst (nt_copy t n))) -> nt_write i f t = t) /\
  (forall i, In i (addrs t) -> nt_write i f (fst (nt_copy t n)) = fst (nt_copy t n)).
Proof.
  intros H. split; intros i Hi; apply write_frame; intros Hi'; eapply deep_copy_disjoint; eauto.
Qed.

(* ------------------------------------------------------------------ the pointer shortcut *)
(* all nodes (and null slots) of a tree *)
Fixpoint subs (t : nt) : list nt :=
  t :: match t with
       | NArr _ l => flat_map subs l
       | NObj _ l => flat_map (fun kv => subs (snd kv)) l
       | _ => []
       end.

Lemma subs_self t : In t (subs t).
Proof. destruct t; cbn; auto. Qed.

Lemma subs_arr_child i l c x : In c l -> In x (subs c) -> In x (subs (NArr i l)).
Proof. intros Hc Hx. cbn. right. apply in_flat_map. eauto. Qed.

Lemma subs_obj_child i l k c x : In (k, c) l -> In x (subs c) -> In x (subs (NObj i l)).
Proof. intros Hc Hx. cbn. right. apply in_flat_map. exists (k, c). auto. Qed.

Lemma same_ptr_refl a : same_ptr a a = true.
Proof. destruct a; cbn; try reflexivity; apply Z.eqb_refl. Qed.

Theorem nt_equal_self a : nt_equal a a = true.
Proof. destruct a; cbn; rewrite ?Z.eqb_refl; reflexivity. Qed.

Lemma all2_map {A B A' B'} (f : A' -> B' -> bool) (g : A -> A') (h : B -> B') la lb :
  all2 f (map g la) (map h lb) = all2 (fun x y => f (g x) (h y)) la lb.
Proof.
  revert lb. induction la as [|x ta IH]; intros [|y tb]; cbn; try reflexivity. rewrite IH. reflexivity.
Qed.

Lemma forallb_map' {A B} (f : B -> bool) (g : A -> B) l : forallb f (map g l) = forallb (fun x => f (g x)) l.
Proof. induction l; cbn; congruence. Qed.

Lemma forallb_ext_in' {A} (f g : A -> bool) l : (forall x, In x l -> f x = g x) -> forallb f l = forallb g l.
Proof.
  induction l as [|x t IH]; cbn; intros H; [reflexivity|]. rewrite H by auto. f_equal. apply IH. auto.
Qed.

Lemma leaf_vs_container x l : jv_equal (jv_of_leaf x) (JArr l) = false.
Proof. destruct x; reflexivity. Qed.
Lemma leaf_vs_object x l : jv_equal (jv_of_leaf x) (JObj l) = false.
Proof. destruct x; reflexivity. Qed.
Lemma leaf_vs_null x : jv_equal (jv_of_leaf x) JNull = false.
Proof. destruct x; reflexivity. Qed.

(* wherever the shortcut fires on a pair of nodes the full comparison would also have
   answered "equal"  ==>  the shortcut is invisible *)
Lemma nt_equal_erase_gen a : forall b,
  (forall x y, In x (subs a) -> In y (subs b) -> same_ptr x y = true -> jv_equal (erase x) (erase y) = true) ->
  nt_equal a b = jv_equal (erase a) (erase b).
Proof.
  induction a as [|i x|i la IH|i la IH] using nt_ind'; intros b H.
  - destruct b as [|j y|j lb|j lb]; try reflexivity. destruct y; reflexivity.
  - pose proof (H _ _ (subs_self _) (subs_self b)) as Hs.
    destruct b as [|j y|j lb|j lb]; cbn in *.
    + symmetry. apply leaf_vs_null.
    + destruct (i =? j); [symmetry; auto|reflexivity].
    + destruct (i =? j); [symmetry; auto|symmetry; apply leaf_vs_container].
    + destruct (i =? j); [symmetry; auto|symmetry; apply leaf_vs_object].
  - pose proof (H _ _ (subs_self _) (subs_self b)) as Hs.
    destruct b as [|j y|j lb|j lb]; cbn [nt_equal same_ptr nt_addr erase] in *.
    + reflexivity.
    + destruct (i =? j); [symmetry; auto|destruct y; reflexivity].
    + destruct (i =? j); [symmetry; auto|]. cbn [jv_equal]. rewrite !zlen_map, all2_map. f_equal.
      apply all2_ext_in. intros x y Hx Hy. rewrite Forall_forall in IH. apply (IH x Hx).
      intros x' y' Hx' Hy'. apply H; [eapply subs_arr_child; eauto|eapply subs_arr_child; eauto].
    + destruct (i =? j); [symmetry; auto|reflexivity].
  - pose proof (H _ _ (subs_self _) (subs_self b)) as Hs.
    destruct b as [|j y|j lb|j lb]; cbn [nt_equal same_ptr nt_addr erase] in *.
    + reflexivity.
    + destruct (i =? j); [symmetry; auto|destruct y; reflexivity].
    + destruct (i =? j); [symmetry; auto|reflexivity].
    + destruct (i =? j); [symmetry; auto|]. cbn [jv_equal]. rewrite !forallb_map'. f_equal.
      * apply forallb_ext_in'. intros [k v] Hin. cbn [fst snd]. rewrite assoc_map.
        destruct (assoc k lb) as [sub|] eqn:Eb; [|reflexivity]. cbn [option_map]. apply assoc_in in Eb.
        rewrite Forall_forall in IH. apply (IH (k, v) Hin).
        intros x' y' Hx' Hy'. apply H; [eapply subs_obj_child; eauto|eapply subs_obj_child; eauto].
      * apply forallb_ext_in'. intros [k v] Hin. cbn [fst snd]. rewrite assoc_map.
        destruct (assoc k la); reflexivity.
Qed.

Lemma subs_addr t x i : In x (subs t) -> nt_addr x = Some i -> In i (addrs t).
Proof.
  revert x i. induction t as [|j y|j l IH|j l IH] using nt_ind'; intros x i Hx Ha.
  - destruct Hx as [<-|[]]. discriminate.
  - destruct Hx as [<-|[]]. cbn in *. inversion Ha. auto.
  - destruct Hx as [<-|Hx]; [cbn in *; inversion Ha; auto|]. cbn. right.
    apply in_flat_map in Hx as (c & Hc & Hx). apply in_flat_map. exists c. split; [assumption|].
    rewrite Forall_forall in IH. eapply IH; eauto.
  - destruct Hx as [<-|Hx]; [cbn in *; inversion Ha; auto|]. cbn. right.
    apply in_flat_map in Hx as ([k c] & Hc & Hx). apply in_flat_map. exists (k, c). split; [assumption|].
    rewrite Forall_forall in IH. eapply (IH (k, c)); eauto.
Qed.

(* two trees that share no node: the result is that of the node-by-node comparison, so a
   NaN anywhere makes them unequal *)
Theorem nt_equal_disjoint a b :
  (forall i, In i (addrs a) -> In i (addrs b) -> False) ->
  nt_equal a b = jv_equal (erase a) (erase b).
Proof.
  intros Hd. apply nt_equal_erase_gen. intros x y Hx Hy Hs. unfold same_ptr in Hs.
  destruct (nt_addr x) as [i|] eqn:Ex, (nt_addr y) as [j|] eqn:Ey; try discriminate.
  - apply Z.eqb_eq in Hs. subst j. exfalso. apply (Hd i); eapply subs_addr; eauto.
  - destruct x, y; try discriminate. reflexivity.
Qed.

(* memory in which an address identifies one node: the trees may share nodes freely; on
   NaN-free trees the shortcut is still invisible *)
Definition consistent (a b : nt) : Prop :=
  forall x y, In x (subs a) -> In y (subs b) -> same_ptr x y = true -> x = y.

Lemma subs_wf t x : jv_wf (erase t) -> In x (subs t) -> jv_wf (erase x).
Proof.
  revert x. induction t as [|j y|j l IH|j l IH] using nt_ind'; intros x W Hx.
  - destruct Hx as [<-|[]]. exact W.
  - destruct Hx as [<-|[]]. exact W.
  - destruct Hx as [<-|Hx]; [exact W|]. apply in_flat_map in Hx as (c & Hc & Hx).
    rewrite Forall_forall in IH. apply (IH c Hc); [|exact Hx]. cbn in W.
    apply (wf_arr_in _ _ W). apply in_map. exact Hc.
  - destruct Hx as [<-|Hx]; [exact W|]. apply in_flat_map in Hx as ([k c] & Hc & Hx).
    rewrite Forall_forall in IH. apply (IH (k, c) Hc); [|exact Hx]. cbn in W.
    apply (wf_obj_in _ k _ W). apply (in_map (fun kv => (fst kv, erase (snd kv)))) in Hc. exact Hc.
Qed.

Lemma subs_nan_free t x : nan_free (erase t) = true -> In x (subs t) -> nan_free (erase x) = true.
Proof.
  revert x. induction t as [|j y|j l IH|j l IH] using nt_ind'; intros x W Hx.
  - destruct Hx as [<-|[]]. exact W.
  - destruct Hx as [<-|[]]. exact W.
  - destruct Hx as [<-|Hx]; [exact W|]. apply in_flat_map in Hx as (c & Hc & Hx).
    rewrite Forall_forall in IH. apply (IH c Hc); [|exact Hx]. cbn in W.
    apply (nf_arr_in _ _ W). apply in_map. exact Hc.
  - destruct Hx as [<-|Hx]; [exact W|]. apply in_flat_map in Hx as ([k c] & Hc & Hx).
    rewrite Forall_forall in IH. apply (IH (k, c) Hc); [|exact Hx]. cbn in W.
    apply (nf_obj_in _ k _ W). apply (in_map (fun kv => (fst kv, erase (snd kv)))) in Hc. exact Hc.
Qed.

Theorem nt_equal_shared a b :
  consistent a b -> jv_wf (erase a) -> nan_free (erase a) = true ->
  nt_equal a b = jv_equal (erase a) (erase b).
Proof.
  intros Hc W N. apply nt_equal_erase_gen. intros x y Hx Hy Hs.
  rewrite <- (Hc x y Hx Hy Hs). apply equal_refl; [eapply subs_wf|eapply subs_nan_free]; eauto.
Qed.

(* source against its deep copy, in memory *)
Theorem copy_equal_nt t n :
  (forall i, In i (addrs t) -> i < n) -> jv_wf (erase t) ->
  nt_equal t (fst (nt_copy t n)) = nan_free (erase t) /\
  nt_equal (fst (nt_copy t n)) t = nan_free (erase t).
Proof.
  intros Hn W. split.
  - rewrite nt_equal_disjoint by (intros i H1 H2; eapply deep_copy_disjoint; eauto).
    rewrite copy_erase by assumption. rewrite <- (deep_copy_same _ W) at 2. apply deep_copy_equal_iff. exact W.
  - rewrite nt_equal_disjoint by (intros i H1 H2; eapply deep_copy_disjoint; eauto).
    rewrite copy_erase by assumption. rewrite <- (deep_copy_same _ W) at 2. apply deep_copy_equal_iff. exact W.
Qed.

(* ------------------------------------------------------------------ histories *)
(* Well-formedness is an invariant of every mutator, hence of every history: the theorems
   above hold for every tree a client can reach, however it was reached. *)
Lemma in_keys_obj_add {A} (l : list (list byte * A)) k v k' :
  In k' (keys (obj_add l k v)) <-> k' = k \/ In k' (keys l).
Proof.
  induction l as [|[k1 v1] t IH]; cbn; [intuition|].
  destruct (bytes_eqb k k1) eqn:E; cbn.
  - apply bytes_eqb_eq in E. subst. intuition.
  - unfold keys in IH. rewrite IH. intuition.
Qed.

Lemma obj_add_nodup {A} (l : list (list byte * A)) k v : NoDup (keys l) -> NoDup (keys (obj_add l k v)).
Proof.
  induction l as [|[k1 v1] t IH]; cbn; intros H.
  - constructor; [cbn; tauto|constructor].
  - inversion H; subst. destruct (bytes_eqb k k1) eqn:E; cbn.
    + constructor; assumption.
    + constructor; [|apply IH; assumption]. intros Hin. apply in_keys_obj_add in Hin as [->|Hin].
      * rewrite bytes_eqb_refl in E. discriminate.
      * contradiction.
Qed.

Lemma obj_add_forall {A} (P : A -> Prop) (l : list (list byte * A)) k v :
  Forall (fun kv => P (snd kv)) l -> P v -> Forall (fun kv => P (snd kv)) (obj_add l k v).
Proof.
  induction l as [|[k1 v1] t IH]; cbn; intros H Hv.
  - constructor; [exact Hv|constructor].
  - inversion H; subst. destruct (bytes_eqb k k1); constructor; auto.
Qed.

Lemma in_keys_obj_del {A} (l : list (list byte * A)) k k' : In k' (keys (obj_del l k)) -> In k' (keys l).
Proof.
  induction l as [|[k1 v1] t IH]; cbn; [tauto|].
  destruct (bytes_eqb k k1); cbn; [auto|]. intros [H|H]; auto.
Qed.

Lemma obj_del_nodup {A} (l : list (list byte * A)) k : NoDup (keys l) -> NoDup (keys (obj_del l k)).
Proof.
  induction l as [|[k1 v1] t IH]; cbn; intros H; [constructor|].
  inversion H; subst. destruct (bytes_eqb k k1); cbn; [assumption|].
  constructor; [|apply IH; assumption]. intros Hin. apply in_keys_obj_del in Hin. contradiction.
Qed.

Lemma obj_del_forall {A} (P : list byte * A -> Prop) (l : list (list byte * A)) k :
  Forall P l -> Forall P (obj_del l k).
Proof.
  induction l as [|[k1 v1] t IH]; cbn; intros H; [constructor|].
  inversion H; subst. destruct (bytes_eqb k k1); [assumption|constructor; auto].
Qed.

Lemma list_set_forall {A} (P : A -> Prop) l i x : Forall P l -> P x -> Forall P (list_set l i x).
Proof.
  revert i. induction l as [|y t IH]; intros i H Hx; cbn; [constructor|].
  inversion H; subst. destruct i; constructor; auto.
Qed.

Lemma firstn_forall {A} (P : A -> Prop) n l : Forall P l -> Forall P (firstn n l).
Proof.
  revert l. induction n; intros l H; cbn; [constructor|]. destruct l; [constructor|]. inversion H; subst. constructor; auto.
Qed.

Lemma skipn_forall {A} (P : A -> Prop) n l : Forall P l -> Forall P (skipn n l).
Proof.
  revert l. induction n; intros l H; cbn; [assumption|]. destruct l; [constructor|]. inversion H; subst. auto.
Qed.

Lemma repeat_forall {A} (P : A -> Prop) x n : P x -> Forall P (repeat x n).
Proof. intros H. induction n; cbn; constructor; auto. Qed.

Lemma apply_mut_wf m v v' : mutop_wf m -> jv_wf v -> apply_mut m v = Some v' -> jv_wf v'.
Proof.
  intros Hm Hv. destruct m, v; cbn; try discriminate; intros E;
    try (solve [inversion E; subst; exact Hv
               |match type of E with context [?c || ?d] => destruct (c || d) end; inversion E; subst; exact Hv]).
  - inversion E; subst. inversion Hv; subst. constructor. apply Forall_app. split; [assumption|]. constructor; [exact Hm|constructor].
  - inversion E; subst. inversion Hv; subst. constructor; [apply obj_add_nodup; assumption|apply obj_add_forall; assumption].
  - inversion E; subst. inversion Hv; subst. constructor; [apply obj_del_nodup; assumption|apply obj_del_forall; assumption].
  - inversion E; subst. constructor. exact Hm.
  - inversion E; subst. constructor. exact Hm.
  - inversion E; subst. constructor. exact Hm.
  - inversion E; subst. constructor. exact Hm.
  - inversion E; subst. constructor.
  - inversion E; subst. constructor.
  - inversion E; subst. constructor.
  - inversion Hv; subst. destruct (i <? 0); [discriminate|]. destruct (i <? zlen l); inversion E; subst; constructor.
    + apply list_set_forall; assumption.
    + apply Forall_app. split; [assumption|]. apply Forall_app. split.
      * unfold zrepeat. apply repeat_forall. constructor.
      * constructor; [exact Hm|constructor].
  - inversion Hv; subst. destruct ((i <? 0) || (c <? 0) || (i >=? zlen l) || (i + c >? zlen l)); [discriminate|].
    inversion E; subst. constructor. apply Forall_app. split.
    + unfold zfirstn. apply firstn_forall. assumption.
    + unfold zskipn. apply skipn_forall. assumption.
Qed.

Lemma mutate_at_wf p m : mutop_wf m -> forall v v', jv_wf v -> mutate_at p m v = Some v' -> jv_wf v'.
Proof.
  intros Hm. induction p as [|[i|k] p IH]; intros v v' Hv; cbn.
  - apply apply_mut_wf; assumption.
  - destruct v as [| | | | | |l|]; try discriminate.
    destruct (znth l i) as [c|] eqn:Ec; [|discriminate].
    destruct (mutate_at p m c) as [c'|] eqn:Em; [|discriminate]. intros E. inversion E; subst.
    assert (Hc : jv_wf c).
    { unfold znth in Ec. destruct (i <? 0); [discriminate|]. apply nth_error_In in Ec. exact (wf_arr_in _ _ Hv Ec). }
    inversion Hv; subst. constructor. apply list_set_forall; [assumption|]. exact (IH c c' Hc Em).
  - destruct v as [| | | | | | |l]; try discriminate.
    destruct (assoc k l) as [c|] eqn:Ec; [|discriminate].
    destruct (mutate_at p m c) as [c'|] eqn:Em; [|discriminate]. intros E. inversion E; subst.
    assert (Hc : jv_wf c) by (apply assoc_in in Ec; exact (wf_obj_in _ _ _ Hv Ec)).
    inversion Hv; subst. constructor; [apply obj_add_nodup; assumption|]. apply obj_add_forall; [assumption|].
    exact (IH c c' Hc Em).
Qed.

Theorem run_history_wf h : Forall (fun pm => mutop_wf (snd pm)) h ->
  forall v, jv_wf v -> jv_wf (fst (run_history h v)).
Proof.
  induction h as [|[p m] t IH]; intros H v Hv; cbn; [assumption|].
  inversion H; subst. cbn in H2.
  destruct (mutate_at p m v) as [v'|] eqn:E.
  - specialize (IH H3 v' (mutate_at_wf p m H2 v v' Hv E)). destruct (run_history t v'). exact IH.
  - specialize (IH H3 v Hv). destruct (run_history t v). exact IH.
Qed.

(* process-wide settings: a global step never changes a tree, the tree a history produces
   does not depend on the settings in force, and neither do comparison and copy *)
Lemma global_step_tree m v : (exists h, m = MGlobalHash h) \/ (exists f, m = MGlobalFormat f) ->
  apply_mut m v = Some v \/ apply_mut m v = None.
Proof.
  intros [[h ->]|[f ->]]; destruct v; cbn; try destruct ((h =? 0) || (h =? 1)); auto.
Qed.

Lemma run_history_g_tree g h v : fst (run_history_g g h v) = run_history h v.
Proof.
  revert g v. induction h as [|[p m] t IH]; intros g v; cbn; [reflexivity|].
  destruct (mutate_at p m v) as [v'|].
  - specialize (IH (global_step m g) v'). destruct (run_history_g (global_step m g) t v') as [[r oks] g2].
    cbn in *. rewrite <- IH. reflexivity.
  - specialize (IH (global_step m g) v). destruct (run_history_g (global_step m g) t v) as [[r oks] g2].
    cbn in *. rewrite <- IH. reflexivity.
Qed.

Theorem settings_irrelevant g g' ha hb a b :
  let a1 := fst (fst (run_history_g g ha a)) in
  let b1 := fst (fst (run_history_g g hb b)) in
  let a2 := fst (fst (run_history_g g' ha a)) in
  let b2 := fst (fst (run_history_g g' hb b)) in
  a1 = a2 /\ b1 = b2 /\ jv_equal_in g a1 b1 = jv_equal_in g' a2 b2 /\ deep_copy_in g a1 = deep_copy_in g' a2.
Proof.
  cbn zeta. rewrite !run_history_g_tree. unfold jv_equal_in, deep_copy_in. auto.
Qed.

(* a settings change inserted anywhere in a history is invisible in the tree reached *)
Definition is_global (pm : list step * mutop) : bool :=
  match pm with
  | ([], MGlobalHash _) => true
  | ([], MGlobalFormat _) => true
  | _ => false
  end.

Theorem history_globals_ignored h v :
  fst (run_history h v) = fst (run_history (filter (fun pm => negb (is_global pm)) h) v).
Proof.
  revert v. induction h as [|[p m] t IH]; intros v; [reflexivity|].
  destruct (is_global (p, m)) eqn:G.
  - assert (E : mutate_at p m v = Some v \/ mutate_at p m v = None).
    { destruct p; [|discriminate]. destruct m; try discriminate; cbn [mutate_at]; apply global_step_tree; eauto. }
    cbn [filter]. rewrite G. cbn [negb]. cbn [run_history].
    destruct E as [-> | ->]; specialize (IH v); destruct (run_history t v); cbn in *; exact IH.
  - cbn [filter]. rewrite G. cbn [negb run_history].
    destruct (mutate_at p m v) as [v'|].
    + specialize (IH v'). destruct (run_history t v'), (run_history (filter _ t) v'). exact IH.
    + specialize (IH v). destruct (run_history t v), (run_history (filter _ t) v). exact IH.
Qed.

(* equality after histories depends on the reached values only *)
Theorem history_equal_iff_denote ha hb a b :
  Forall (fun pm => mutop_wf (snd pm)) ha -> Forall (fun pm => mutop_wf (snd pm)) hb -> jv_wf a -> jv_wf b ->
  let a' := fst (run_history ha a) in
  let b' := fst (run_history hb b) in
  (jv_equal a' b' = true <-> nan_free a' = true /\ nan_free b' = true /\ denote a' = denote b') /\
  jv_equal a' b' = jv_equal b' a' /\
  deep_copy a' = a' /\ jv_equal a' (deep_copy a') = nan_free a'.
Proof.
  intros Ha Hb Wa Wb a' b'.
  assert (Wa' : jv_wf a') by (apply run_history_wf; assumption).
  assert (Wb' : jv_wf b') by (apply run_history_wf; assumption).
  split; [apply equal_iff_denote_nan; assumption|].
  split; [apply equal_sym; assumption|]. split.
  - apply deep_copy_same; assumption.
  - apply deep_copy_equal_iff; assumption.
Qed.

(* ------------------------------------------------------------------ deep copy with a caller-supplied callback *)
(* For EVERY oracle (answers 1 / 2 / -1 as any function of the call history, any set of
   nodes carrying application userdata): whenever the deep copy succeeds, the copy is the
   source tree, and the callback has been called exactly once per node.  For every oracle
   that never fails the deep copy succeeds. *)
Lemma thread_opt_spec {A B S} (f : Z -> A -> S -> option B * S) (g : A -> B) (m : S -> Z) (w : A -> Z) l :
  Forall (fun x => forall i s y s', f i x s = (Some y, s') -> y = g x /\ m s' = m s + w x) l ->
  forall i s l' s', thread_opt f i l s = (Some l', s') ->
  l' = map g l /\ m s' = m s + fold_right (fun x n => w x + n) 0 l.
Proof.
  induction l as [|x t IH]; intros HF i s l' s'; cbn.
  - intros E. inversion E; subst. split; [reflexivity|lia].
  - inversion HF; subst. destruct (f i x s) as [[y|] s1] eqn:Ef; [|discriminate].
    destruct (thread_opt f (i + 1) t s1) as [[t'|] s2] eqn:Et; [|discriminate].
    intros E. inversion E; subst. destruct (H1 _ _ _ _ Ef) as [-> Hm1].
    destruct (IH H2 _ _ _ _ Et) as [-> Hm2]. split; [reflexivity|lia].
Qed.

Lemma thread_opt_total {A B S} (f : Z -> A -> S -> option B * S) l :
  Forall (fun x => forall i s, exists y s', f i x s = (Some y, s')) l ->
  forall i s, exists l' s', thread_opt f i l s = (Some l', s').
Proof.
  induction l as [|x t IH]; intros HF i s; cbn; [eauto|].
  inversion HF; subst. destruct (H1 i s) as (y & s1 & ->).
  destruct (IH H2 (i + 1) s1) as (t' & s2 & ->). eauto.
Qed.

Lemma leaf_copy_same src : match src with JArr _ | JObj _ => False | _ => True end ->
  copy_serializer_data src (shallow_copy src) = src.
Proof. destruct src as [| | | |b [t|]| | |]; cbn; tauto || reflexivity. Qed.

Lemma fold_append_id {A} (l : list A) : fold_left (fun dst x => dst ++ [x]) l [] = l.
Proof. rewrite (fold_append (fun x => x)). cbn. apply map_id. Qed.

Lemma fold_obj_add_id {A} (l : list (list byte * A)) : NoDup (keys l) ->
  fold_left (fun dst kv => obj_add dst (fst kv) (snd kv)) l [] = l.
Proof.
  intros H. rewrite (fold_obj_add (fun x => x)); [|assumption|cbn; auto]. cbn.
  apply map_id_in. intros [k v] _. reflexivity.
Qed.

Definition cb_spec_at (env : cb_env) (src : jv) : Prop :=
  jv_wf src -> forall p k i d h c h', deep_copy_cb env src p k i d h = (Some c, h') ->
  c = src /\ zlen h' = zlen h + node_count src.

Lemma cb_leaf env src : match src with JNull | JArr _ | JObj _ => False | _ => True end -> cb_spec_at env src.
Proof.
  intros Hl W p k i d h c h'.
  assert (L : copy_serializer_data src (shallow_copy src) = src) by (apply leaf_copy_same; destruct src; tauto).
  assert (N : node_count src = 1) by (destruct src; tauto || reflexivity).
  destruct src; try tauto; cbn [deep_copy_cb];
    destruct (cb_answer env h _); try destruct (cb_tagged env h _);
    intros E; inversion E; subst; cbn [zlen]; (split; [first [exact L | reflexivity] | lia]).
Qed.

Lemma deep_copy_cb_spec env src : cb_spec_at env src.
Proof.
  induction src as [|x|x|x|x tx|x|la IH|la IH] using jv_ind'; try (apply cb_leaf; exact I).
  - intros W p k i d h c h'. cbn. intros E. inversion E; subst. split; [reflexivity|lia].
  - intros W p k i d h c h'. cbn [deep_copy_cb].
    set (call := mk_call (JArr la) p k i d).
    destruct (thread_opt _ 0 la (call :: h)) as [[o|] h2] eqn:Et.
    + assert (HT : fold_left (fun dst x => dst ++ [x]) o [] = la /\ zlen h2 = zlen h + node_count (JArr la)).
      { apply (thread_opt_spec _ (fun x => x) (@zlen cb_call) node_count) in Et.
        - destruct Et as [-> Hz]. rewrite fold_append_id, map_id. split; [reflexivity|]. cbn [zlen node_count] in *. lia.
        - rewrite Forall_forall in IH. apply Forall_forall. intros x Hx i0 s y s' Ey.
          apply (IH x Hx (wf_arr_in _ _ W Hx) _ _ _ _ _ _ _ Ey). }
      destruct HT as [HT Hz]. rewrite HT.
      destruct (cb_answer env h call); [destruct (cb_tagged env h call)| |]; intros E; inversion E; subst;
        (split; [reflexivity|exact Hz]).
    + destruct (cb_answer env h call); intros E; discriminate.
  - intros W p k i d h c h'. cbn [deep_copy_cb].
    set (call := mk_call (JObj la) p k i d).
    destruct (thread_opt _ 0 la (call :: h)) as [[o|] h2] eqn:Et.
    + assert (HT : fold_left (fun dst kv => obj_add dst (fst kv) (snd kv)) o [] = la /\ zlen h2 = zlen h + node_count (JObj la)).
      { apply (thread_opt_spec _ (fun kv => kv) (@zlen cb_call) (fun kv => node_count (snd kv))) in Et.
        - destruct Et as [-> Hz]. rewrite map_id, fold_obj_add_id by (exact (wf_obj_nodup _ W)).
          split; [reflexivity|]. cbn [zlen node_count] in *. lia.
        - rewrite Forall_forall in IH. apply Forall_forall. intros [kk v] Hx i0 s y s'. cbn [fst snd].
          destruct (deep_copy_cb env v (Some (JObj la)) (Some kk) None (d + 1) s) as [[x'|] s1] eqn:Ey; [|discriminate].
          intros E. inversion E; subst.
          destruct (IH (kk, v) Hx (wf_obj_in _ _ _ W Hx) _ _ _ _ _ _ _ Ey) as [-> Hz]. split; [reflexivity|exact Hz]. }
      destruct HT as [HT Hz]. rewrite HT.
      destruct (cb_answer env h call); [destruct (cb_tagged env h call)| |]; intros E; inversion E; subst;
        (split; [reflexivity|exact Hz]).
    + destruct (cb_answer env h call); intros E; discriminate.
Qed.

(* whenever the copy succeeds it is the source: same kinds, values, int representation,
   retained texts, member order -- whatever the callback answered along the way *)
Theorem deep_copy_cb_same env src p k i d h c h' :
  jv_wf src -> deep_copy_cb env src p k i d h = (Some c, h') -> c = src.
Proof. intros W E. exact (proj1 (deep_copy_cb_spec env src W _ _ _ _ _ _ _ E)). Qed.

(* ... and the callback has been called exactly once per node *)
Theorem deep_copy_cb_calls env src p k i d h c h' :
  jv_wf src -> deep_copy_cb env src p k i d h = (Some c, h') -> zlen h' = zlen h + node_count src.
Proof. intros W E. exact (proj2 (deep_copy_cb_spec env src W _ _ _ _ _ _ _ E)). Qed.

Theorem deep_copy_cb_equal env src p k i d h c h' :
  jv_wf src -> deep_copy_cb env src p k i d h = (Some c, h') ->
  jv_equal src c = nan_free src /\ jv_equal c src = nan_free src /\ denote c = denote src.
Proof.
  intros W E. rewrite (deep_copy_cb_same _ _ _ _ _ _ _ _ _ W E).
  assert (X : jv_equal src src = nan_free src).
  { rewrite <- (deep_copy_same _ W) at 2. apply deep_copy_equal_iff. exact W. }
  auto.
Qed.

(* an oracle that never fails: never answers -1, and answers 2 wherever the source node
   carries application userdata *)
Definition cb_never_fails (env : cb_env) : Prop :=
  (forall h c, cb_answer env h c <> CbError) /\
  (forall h c, cb_tagged env h c = true -> cb_answer env h c = CbComplete).

Lemma deep_copy_cb_total env : cb_never_fails env ->
  forall src p k i d h, exists c h', deep_copy_cb env src p k i d h = (Some c, h').
Proof.
  intros [NF NT] src.
  induction src as [|x|x|x|x tx|x|la IH|la IH] using jv_ind'; intros p k i d h;
    try (cbn [deep_copy_cb]; match goal with |- context [cb_answer env h ?c] =>
           pose proof (NF h c) as Hn; pose proof (NT h c) as Ht; destruct (cb_answer env h c); try congruence;
           [destruct (cb_tagged env h c); [specialize (Ht eq_refl); discriminate|eauto]|eauto] end; fail).
  - cbn. eauto.
  - cbn [deep_copy_cb]. set (call := mk_call (JArr la) p k i d).
    destruct (thread_opt_total (fun i0 x s => deep_copy_cb env x (Some (JArr la)) None (Some i0) (d + 1) s) la) with (i := 0) (s := call :: h) as (o & h2 & Et).
    { eapply Forall_impl; [|exact IH]. intros x Hx i0 s. apply Hx. }
    rewrite Et. pose proof (NF h call) as Hn. pose proof (NT h call) as Ht.
    destruct (cb_answer env h call); try congruence; [|eauto].
    destruct (cb_tagged env h call); [specialize (Ht eq_refl); discriminate|eauto].
  - cbn [deep_copy_cb]. set (call := mk_call (JObj la) p k i d).
    destruct (thread_opt_total (fun (_ : Z) kv s => match deep_copy_cb env (snd kv) (Some (JObj la)) (Some (fst kv)) None (d + 1) s with
                                                    | (Some x', s') => (Some (fst kv, x'), s')
                                                    | (None, s') => (None, s')
                                                    end) la) with (i := 0) (s := call :: h) as (o & h2 & Et).
    { eapply Forall_impl; [|exact IH]. intros [kk v] Hx i0 s. cbn [fst snd] in *.
      destruct (Hx (Some (JObj la)) (Some kk) None (d + 1) s) as (c & s1 & ->). eauto. }
    rewrite Et. pose proof (NF h call) as Hn. pose proof (NT h call) as Ht.
    destruct (cb_answer env h call); try congruence; [|eauto].
    destruct (cb_tagged env h call); [specialize (Ht eq_refl); discriminate|eauto].
Qed.

Theorem deep_copy_cb_never_fails env src : cb_never_fails env -> jv_wf src -> src <> JNull ->
  exists h', deep_copy_cb_root env src = (Some src, h') /\ zlen h' = node_count src /\
             jv_equal src src = nan_free src.
Proof.
  intros NF W NN.
  assert (E : deep_copy_cb_root env src = deep_copy_cb env src None None None 0 []) by (destruct src; congruence || reflexivity).
  destruct (deep_copy_cb_total env NF src None None None 0 []) as (c & h' & Ec).
  pose proof (deep_copy_cb_same _ _ _ _ _ _ _ _ _ W Ec) as ->.
  exists h'. rewrite E. split; [exact Ec|]. split.
  - rewrite (deep_copy_cb_calls _ _ _ _ _ _ _ _ _ W Ec). reflexivity.
  - rewrite <- (deep_copy_same _ W) at 2. apply deep_copy_equal_iff. exact W.
Qed.

(* the NULL-callback case is the instance "always 1, no application userdata" *)
Theorem deep_copy_cb_default src : jv_wf src -> src <> JNull ->
  fst (deep_copy_cb_root cb_default src) = deep_copy_root src.
Proof.
  intros W NN. destruct (deep_copy_cb_never_fails cb_default src) as (h' & E & _); auto.
  - split; cbn; [discriminate|discriminate].
  - rewrite E. cbn. rewrite deep_copy_root_spec by assumption. destruct src; congruence.
Qed.

(* the first failing answer aborts the copy: no further call is made *)
Theorem deep_copy_cb_error env src p k i d h :
  src <> JNull -> cb_answer env h (mk_call src p k i d) = CbError ->
  deep_copy_cb env src p k i d h = (None, mk_call src p k i d :: h).
Proof. intros NN E. destruct src; try congruence; cbn [deep_copy_cb]; rewrite E; reflexivity. Qed.

(* ------------------------------------------------------------------ key storage *)
(* The copy owns the storage of every member name: fresh strdups, none shared with the source
   (whether the source owned or borrowed the name), none in caller memory.  Hence whatever the
   caller does to its buffers after the copy was made cannot be seen through the copy. *)
Definition mbuild_kv (kv : list byte * jv) (m : Z) : ((list byte * kstore) * mt) * Z :=
  let (x', m1) := mbuild (snd kv) m in (((fst kv, KOwn m1), x'), m1 + 1).
Definition entry_addrs (e : (list byte * kstore) * mt) : list Z := mem_addrs (snd e) ++ store_addr (snd (fst e)).

Lemma NoDup_snoc {A} (l : list A) x : NoDup l -> ~ In x l -> NoDup (l ++ [x]).
Proof.
  intros H Hx. apply NoDup_app_intro; [assumption|constructor; [cbn; tauto|constructor]|].
  intros y Hy [<-|[]]. contradiction.
Qed.

Lemma mbuild_alloc v : alloc_ok mbuild mem_addrs v.
Proof.
  induction v as [|x|x|x|x tx|x|la IH|la IH] using jv_ind'; intros n;
    try (cbn; split; [lia|split; [intros i [<-|[]]; lia|constructor; [cbn; tauto|constructor]]]; fail).
  - cbn. repeat split; try lia; try tauto. constructor.
  - cbn [mbuild fst snd mem_addrs]. destruct (thread_alloc mbuild mem_addrs la IH (n + 1)) as (H1 & H2 & H3).
    split; [lia|]. split.
    + intros i [<-|Hi]; [lia|]. specialize (H2 _ Hi). lia.
    + constructor; [|assumption]. intros Hi. specialize (H2 _ Hi). lia.
  - cbn [mbuild fst snd mem_addrs]. fold mbuild_kv. fold entry_addrs.
    assert (HF : Forall (alloc_ok mbuild_kv entry_addrs) la).
    { eapply Forall_impl; [|exact IH]. intros [k v] Hv m. cbn in Hv. unfold mbuild_kv, entry_addrs. cbn [fst snd].
      destruct (Hv m) as (A1 & A2 & A3). destruct (mbuild v m) as [x' m1]. cbn [fst snd store_addr] in *.
      split; [lia|]. split.
      - intros i Hi. apply in_app_iff in Hi as [Hi|[<-|[]]]; [specialize (A2 _ Hi)|]; lia.
      - apply NoDup_snoc; [assumption|]. intros Hi. specialize (A2 _ Hi). lia. }
    destruct (thread_alloc mbuild_kv entry_addrs la HF (n + 1)) as (H1 & H2 & H3).
    split; [lia|]. split.
    + intros i [<-|Hi]; [lia|]. specialize (H2 _ Hi). lia.
    + constructor; [|assumption]. intros Hi. specialize (H2 _ Hi). lia.
Qed.

Lemma mbuild_erase v n : mt_erase (fst (mbuild v n)) = v.
Proof.
  unfold mt_erase. revert n.
  induction v as [|x|x|x|x tx|x|la IH|la IH] using jv_ind'; intros n; try reflexivity.
  - cbn [mbuild fst mt_nodes erase]. f_equal. rewrite map_map.
    rewrite (thread_map mbuild (fun t => erase (mt_nodes t)) (fun x => x)); [apply map_id|].
    intros x m Hx. rewrite Forall_forall in IH. apply IH. exact Hx.
  - cbn [mbuild fst mt_nodes erase]. fold mbuild_kv. f_equal. rewrite map_map. cbn [fst snd].
    rewrite (thread_map mbuild_kv (fun e => (fst (fst e), erase (mt_nodes (snd e)))) (fun kv => kv)); [apply map_id|].
    intros [k v] m Hin. unfold mbuild_kv. cbn [fst snd]. rewrite Forall_forall in IH. specialize (IH _ Hin m). cbn in IH.
    destruct (mbuild v m). cbn in *. congruence.
Qed.

Lemma thread_forall {A B C} (f : A -> Z -> B * Z) (g : B -> list C) (Q : C -> Prop) l :
  (forall x n, In x l -> Forall Q (g (fst (f x n)))) ->
  forall m, Forall Q (flat_map g (fst (thread f l m))).
Proof.
  induction l as [|x t IH]; intros H m; cbn; [constructor|].
  pose proof (H x m (or_introl eq_refl)) as Hx. destruct (f x m) as [x' n1].
  specialize (IH (fun y n Hy => H y n (or_intror Hy)) n1). destruct (thread f t n1) as [t' n2].
  cbn in *. apply Forall_app. split; assumption.
Qed.

Definition is_own (s : kstore) : Prop := match s with KOwn _ => True | KBorrowed _ => False end.

Lemma mbuild_own v n : Forall is_own (key_stores (fst (mbuild v n))).
Proof.
  revert n. induction v as [|x|x|x|x tx|x|la IH|la IH] using jv_ind'; intros n; try (cbn; constructor).
  - cbn [mbuild fst key_stores]. apply thread_forall. intros x m Hx. rewrite Forall_forall in IH. apply IH. exact Hx.
  - cbn [mbuild fst key_stores]. fold mbuild_kv. apply thread_forall. intros [k v] m Hin. unfold mbuild_kv. cbn [fst snd].
    rewrite Forall_forall in IH. specialize (IH _ Hin m). cbn in IH. destruct (mbuild v m). cbn in *.
    constructor; [exact I|exact IH].
Qed.

Lemma own_no_borrow l : Forall is_own l -> flat_map store_buf l = [].
Proof. induction 1 as [|s t Hs _ IH]; [reflexivity|]. destruct s; [exact IH|destruct Hs]. Qed.

Lemma key_store_in_mem t a : In (KOwn a) (key_stores t) -> In a (mem_addrs t).
Proof.
  induction t as [|i x|i l IH|i l IH] using mt_ind'; cbn; try tauto.
  - intros H. right. apply in_flat_map in H as (c & Hc & H). apply in_flat_map. exists c. split; [assumption|].
    rewrite Forall_forall in IH. apply (IH c Hc H).
  - intros H. right. apply in_flat_map in H as (e & He & H). apply in_flat_map. exists e. split; [assumption|].
    apply in_app_iff. destruct H as [H|H].
    + right. rewrite H. cbn. auto.
    + left. rewrite Forall_forall in IH. apply (IH e He H).
Qed.

Theorem mt_copy_erase t n : jv_wf (mt_erase t) -> mt_erase (fst (mt_copy t n)) = mt_erase t.
Proof. intros W. unfold mt_copy. rewrite mbuild_erase. apply deep_copy_same. exact W. Qed.

Theorem mt_copy_fresh t n : forall i, In i (mem_addrs (fst (mt_copy t n))) -> n <= i < snd (mt_copy t n).
Proof. unfold mt_copy. apply (mbuild_alloc (deep_copy (mt_erase t)) n). Qed.

Theorem mt_copy_tree_shaped t n : NoDup (mem_addrs (fst (mt_copy t n))).
Proof. unfold mt_copy. apply (mbuild_alloc (deep_copy (mt_erase t)) n). Qed.

(* no name of the copy lives in caller memory *)
Theorem mt_copy_owns_keys t n : Forall is_own (key_stores (fst (mt_copy t n))) /\ borrowed (fst (mt_copy t n)) = [].
Proof. unfold mt_copy, borrowed. split; [apply mbuild_own|apply own_no_borrow, mbuild_own]. Qed.

(* nodes AND name storage: nothing the copy is made of is part of the source *)
Theorem deep_copy_disjoint_keys t n :
  (forall i, In i (mem_addrs t) -> i < n) ->
  (forall i, In i (mem_addrs t) -> In i (mem_addrs (fst (mt_copy t n))) -> False) /\
  (forall s, In s (key_stores t) -> In s (key_stores (fst (mt_copy t n))) -> False).
Proof.
  intros H. split.
  - intros i H1 H2. specialize (H _ H1). apply mt_copy_fresh in H2. lia.
  - intros s H1 H2. destruct (mt_copy_owns_keys t n) as [Ho _]. rewrite Forall_forall in Ho.
    pose proof (Ho s H2) as Hs. destruct s as [a|b]; [|destruct Hs].
    apply key_store_in_mem in H1, H2. specialize (H _ H1). apply mt_copy_fresh in H2. lia.
Qed.

Lemma borrowed_in t b : In b (borrowed t) <-> In (KBorrowed b) (key_stores t).
Proof.
  unfold borrowed. rewrite in_flat_map. split.
  - intros ([a|b'] & Hs & Hb); cbn in Hb; [tauto|]. destruct Hb as [->|[]]. exact Hs.
  - intros H. exists (KBorrowed b). split; [exact H|cbn; auto].
Qed.

Lemma kbuf_write_frame' b x t : ~ In (KBorrowed b) (key_stores t) -> kbuf_write b x t = t.
Proof.
  induction t as [|i y|i l IH|i l IH] using mt_ind'; cbn; intros H; try reflexivity.
  - f_equal. apply map_id_in. intros c Hc. rewrite Forall_forall in IH. apply (IH c Hc).
    intros Hi. apply H. apply in_flat_map. eauto.
  - f_equal. apply map_id_in. intros [[k s] c] Hc. cbn [fst snd]. rewrite Forall_forall in IH.
    f_equal.
    + f_equal. destruct s as [a|b']; [reflexivity|]. destruct (b' =? b) eqn:E; [|reflexivity].
      apply Z.eqb_eq in E. subst b'. exfalso. apply H. apply in_flat_map. exists (k, KBorrowed b, c). cbn. auto.
    + apply (IH _ Hc). intros Hi. apply H. apply in_flat_map. exists (k, s, c). cbn. auto.
Qed.

Theorem kbuf_write_frame b x t : ~ In b (borrowed t) -> kbuf_write b x t = t.
Proof. rewrite borrowed_in. apply kbuf_write_frame'. Qed.

(* whatever the caller writes into (or however it recycles) any of its buffers after the copy
   was made, the copy reads the same *)
Theorem mt_copy_key_frame t n b x : kbuf_write b x (fst (mt_copy t n)) = fst (mt_copy t n).
Proof. apply kbuf_write_frame. rewrite (proj2 (mt_copy_owns_keys t n)). cbn. tauto. Qed.

(* ------------------------------------------------------------------ userdata of the stock serializer *)
(* Everything the copy stores is its own: the texts of the stock serializer are fresh blocks too,
   whatever delete function the source had registered; they read the same as the source's.
   As the code is written the delete function is taken over from the source, so a text copied
   from a NULL-delete node is a library block that nothing ever releases (userdata_copy_unreleased). *)
Lemma copy_uanns_spec a : forall n,
  ud_texts (fst (copy_uanns a n)) = ud_texts a /\ n <= snd (copy_uanns a n) /\
  (forall s, In s (ud_stores (fst (copy_uanns a n))) -> exists i, s = KOwn i /\ n <= i < snd (copy_uanns a n)) /\
  NoDup (flat_map store_addr (ud_stores (fst (copy_uanns a n)))).
Proof.
  induction a as [|[u|] t IH]; intros n; cbn.
  - repeat split; try lia; try tauto; try constructor.
  - destruct (IH (n + 1)) as (H1 & H2 & H3 & H4). destruct (copy_uanns t (n + 1)) as [r n'] eqn:E. cbn in *.
    split; [f_equal; exact H1|]. split; [lia|]. split.
    + intros s [<-|Hs]; [exists n; split; [reflexivity|lia]|]. destruct (H3 s Hs) as (i & -> & Hi). exists i. split; [reflexivity|lia].
    + constructor; [|exact H4]. intros Hin. apply in_flat_map in Hin as (s & Hs & Hi).
      destruct (H3 s Hs) as (i & -> & Hr). cbn in Hi. destruct Hi as [<-|[]]. lia.
  - destruct (IH n) as (H1 & H2 & H3 & H4). destruct (copy_uanns t n) as [r n'] eqn:E. cbn in *.
    split; [f_equal; exact H1|]. auto.
Qed.

Theorem userdata_copy_same_text a n : ud_texts (fst (copy_uanns a n)) = ud_texts a.
Proof. apply copy_uanns_spec. Qed.

Theorem userdata_copy_owned a n b x : ubuf_write b x (fst (copy_uanns a n)) = fst (copy_uanns a n).
Proof.
  revert n. induction a as [|[u|] t IH]; intros n; cbn; [reflexivity| |].
  - specialize (IH (n + 1)). destruct (copy_uanns t (n + 1)) as [r n']. cbn in *. rewrite IH. reflexivity.
  - specialize (IH n). destruct (copy_uanns t n) as [r n']. cbn in *. rewrite IH. reflexivity.
Qed.

Definition null_delete_count (a : uanns) : nat :=
  length (filter (fun o => match o with Some u => negb (ud_delete u) | None => false end) a).

Theorem userdata_copy_unreleased a n : length (unreleased (fst (copy_uanns a n))) = null_delete_count a.
Proof.
  unfold null_delete_count. revert n. induction a as [|[u|] t IH]; intros n; cbn; [reflexivity| |].
  - specialize (IH (n + 1)). destruct (copy_uanns t (n + 1)) as [r n']. cbn in *.
    destruct (ud_delete u); cbn; rewrite IH; reflexivity.
  - specialize (IH n). destruct (copy_uanns t n) as [r n']. cbn in *. exact IH.
Qed.

Lemma full_copy_parts s n :
  fst (full_copy s n) = (fst (mt_copy (fst s) n), fst (copy_uanns (snd s) (snd (mt_copy (fst s) n)))).
Proof. unfold full_copy. destruct (mt_copy (fst s) n) as [c n1]. cbn [fst snd]. destruct (copy_uanns (snd s) n1) as [a n2]. reflexivity. Qed.

Lemma full_copy_fresh s n i : In i (image_addrs (fst (full_copy s n))) -> n <= i.
Proof.
  rewrite full_copy_parts. unfold image_addrs. cbn [fst snd]. rewrite in_app_iff. intros [H|H].
  - apply mt_copy_fresh in H. lia.
  - apply in_flat_map in H as (st & Hs & Hi).
    destruct (copy_uanns_spec (snd s) (snd (mt_copy (fst s) n))) as (_ & _ & H3 & _).
    destruct (H3 st Hs) as (j & -> & Hj). cbn in Hi. destruct Hi as [<-|[]].
    pose proof (mbuild_alloc (deep_copy (mt_erase (fst s))) n) as (A & _). unfold mt_copy in *. lia.
Qed.

(* nodes, member names, userdata texts: the copy is made of nothing the source is made of *)
Theorem deep_copy_disjoint_all s n :
  (forall i, In i (image_addrs s) -> i < n) ->
  (forall i, In i (image_addrs s) -> In i (image_addrs (fst (full_copy s n))) -> False) /\
  (forall st, In st (key_stores (fst s) ++ ud_stores (snd s)) ->
              In st (key_stores (fst (fst (full_copy s n))) ++ ud_stores (snd (fst (full_copy s n)))) -> False) /\
  borrowed (fst (fst (full_copy s n))) = [] /\
  (forall st, In st (ud_stores (snd (fst (full_copy s n)))) -> is_own st).
Proof.
  intros H. split; [|split; [|split]].
  - intros i H1 H2. specialize (H _ H1). apply full_copy_fresh in H2. lia.
  - intros st H1 H2.
    assert (Hc : exists j, st = KOwn j /\ In j (image_addrs (fst (full_copy s n)))).
    { rewrite full_copy_parts in *. cbn [fst snd] in *. unfold image_addrs. cbn [fst snd]. apply in_app_iff in H2 as [H2|H2].
      - destruct (mt_copy_owns_keys (fst s) n) as [Ho _]. rewrite Forall_forall in Ho. pose proof (Ho _ H2) as Hs.
        destruct st as [j|b]; [|destruct Hs]. exists j. split; [reflexivity|]. apply in_app_iff. left. apply key_store_in_mem. exact H2.
      - destruct (copy_uanns_spec (snd s) (snd (mt_copy (fst s) n))) as (_ & _ & H3 & _).
        destruct (H3 st H2) as (j & -> & _). exists j. split; [reflexivity|]. apply in_app_iff. right.
        apply in_flat_map. exists (KOwn j). split; [exact H2|cbn; auto]. }
    destruct Hc as (j & -> & Hj). apply full_copy_fresh in Hj.
    assert (In j (image_addrs s)).
    { unfold image_addrs. apply in_app_iff. apply in_app_iff in H1 as [H1|H1].
      - left. apply key_store_in_mem. exact H1.
      - right. apply in_flat_map. exists (KOwn j). split; [exact H1|cbn; auto]. }
    specialize (H _ H0). lia.
  - rewrite full_copy_parts. cbn [fst]. apply mt_copy_owns_keys.
  - rewrite full_copy_parts. cbn [fst snd]. intros st Hs.
    destruct (copy_uanns_spec (snd s) (snd (mt_copy (fst s) n))) as (_ & _ & H3 & _).
    destruct (H3 st Hs) as (j & -> & _). exact I.
Qed.

(* ------------------------------------------------------------------ witnesses (non-vacuity) *)
Definition ex_nan : Z := 9221120237041090560.          (* 0x7ff8000000000000 *)
Definition ex_a : jv :=
  JObj [([97], JInt 9223372036854775807); ([98], JArr [JNull; JDouble 0 (Some [48;46;48]); JStr [0;1]]); ([], JObj [])].
Definition ex_b : jv :=
  JObj [([], JObj []); ([98], JArr [JNull; JDouble two63 None; JStr [0;1]]); ([97], JUint 9223372036854775807)].
Definition ex_c : jv :=
  JObj [([98], JArr [JNull; JDouble two63 (Some [45;48]); JStr [0;1]]); ([97], JInt 9223372036854775807); ([], JObj [])].

Lemma ex_a_wf : jv_wf ex_a /\ jv_wf ex_b /\ jv_wf ex_c.
Proof.
  unfold ex_a, ex_b, ex_c, two63.
  repeat split; repeat (constructor; cbn; try (unfold INT64_MIN, INT64_MAX, UINT64_MAX; lia); try (intuition discriminate)).
Qed.

Example ex_equal_perm :
  ex_a <> ex_b /\ jv_equal ex_a ex_b = true /\ jv_equal ex_b ex_c = true /\ jv_equal ex_a ex_c = true /\
  denote ex_a = denote ex_b /\ nan_free ex_a = true /\ nan_free ex_b = true /\ nan_free ex_c = true.
Proof. split; [discriminate|]. vm_compute. repeat split. Qed.

Example ex_mixed_ints :
  jv_equal (JInt 9223372036854775807) (JUint 9223372036854775807) = true /\
  jv_equal (JUint 9223372036854775808) (JInt (-9223372036854775808)) = false /\
  jv_equal (JInt (-9223372036854775808)) (JUint 9223372036854775808) = false /\
  jv_equal (JUint 18446744073709551615) (JInt (-1)) = false /\
  jv_equal (JInt 1) (JDouble 4607182418800017408 None) = false.
Proof. vm_compute. repeat split. Qed.

Example ex_doubles :
  jv_equal (JDouble 0 None) (JDouble two63 None) = true /\
  denote (JDouble 0 None) = denote (JDouble two63 None) /\
  jv_equal (JDouble ex_nan None) (JDouble ex_nan None) = false /\
  jv_equal_root true (JDouble ex_nan None) (JDouble ex_nan None) = true /\
  nan_free (JArr [JDouble ex_nan None]) = false /\
  d_decode 4607182418800017408 = DFin false 1023 0 /\ d_scaled (d_decode 4607182418800017408) = Some (2 ^ 1074) /\  (* 1.0 *)
  d_decode 1 = DFin false 0 1 /\ d_scaled (d_decode 1) = Some 1 /\                                               (* 2^-1074 *)
  d_decode two63 = DFin false 0 0 /\
  d_decode 9218868437227405312 = DInf false /\ d_decode 18442240474082181120 = DInf true.
Proof. vm_compute. repeat split. Qed.

Example ex_containers :
  jv_equal (JArr []) JNull = false /\ jv_equal (JObj []) JNull = false /\ jv_equal (JArr []) (JObj []) = false /\
  jv_equal (JStr [97; 0; 98]) (JStr [97; 0; 99]) = false /\ jv_equal (JStr [97; 0]) (JStr [97]) = false /\
  jv_equal (JArr [JNull]) (JArr []) = false /\ jv_equal (JObj [([97], JNull)]) (JObj []) = false /\
  jv_equal (JObj [([97], JNull)]) (JObj [([98], JNull)]) = false /\
  jv_equal (JObj [([97], JInt 1)]) (JObj [([97], JInt 1); ([98], JInt 2)]) = false.
Proof. vm_compute. repeat split. Qed.

(* the source laid out at addresses 0.., the copy allocated after it *)
Example ex_copy :
  let src := fst (build ex_a 0) in
  let cpy := fst (nt_copy src 100) in
  erase cpy = ex_a /\ addrs src = [0; 1; 2; 3; 4; 5] /\ addrs cpy = [100; 101; 102; 103; 104; 105] /\
  nt_equal src cpy = true /\
  erase (nt_write 103 (fun _ => NLeaf 103 (LStr [120])) cpy) <> ex_a /\
  nt_write 103 (fun _ => NLeaf 103 (LStr [120])) src = src.
Proof. vm_compute. repeat split. discriminate. Qed.

(* a NaN node shared by two arrays: equal only through the pointer shortcut *)
Example ex_shared_nan :
  let x := NLeaf 7 (LDouble ex_nan None) in
  nt_equal (NArr 1 [x]) (NArr 2 [x]) = true /\
  nt_equal (NArr 1 [x]) (NArr 2 [NLeaf 8 (LDouble ex_nan None)]) = false /\
  consistent (NArr 1 [x]) (NArr 2 [x]).
Proof.
  cbn zeta. split; [reflexivity|]. split; [reflexivity|].
  intros a b Ha Hb. cbn in Ha, Hb.
  destruct Ha as [<-|[<-|[]]], Hb as [<-|[<-|[]]]; cbn; intros H; try discriminate; reflexivity.
Qed.

Example ex_mutate :
  mutate_at [SKey [98]; SIdx 2] (MSetStr [120]) ex_a
  = Some (JObj [([97], JInt 9223372036854775807); ([98], JArr [JNull; JDouble 0 (Some [48;46;48]); JStr [120]]); ([], JObj [])]).
Proof. reflexivity. Qed.

Example ex_history :
  let h := [([SKey [98]; SIdx 2], MSetStr [1;2;3;4;5;6;7;8;9;10;11;12;13;14;15;16;17;18;19;20;21;22;23;24;25;26;27;28;29;30;31;32;33]);
            ([SKey [98]; SIdx 2], MSetStr [0;1]);
            ([SKey [97]], MSetUint 9223372036854775807);
            ([], MPut [122] JNull); ([], MDel [122]);
            ([SKey [98]], MArrPut 5 (JInt 1)); ([SKey [98]], MArrDel 3 3); ([SKey [98]], MArrDel 7 1)] in
  run_history h ex_a
  = (JObj [([97], JUint 9223372036854775807); ([98], JArr [JNull; JDouble 0 (Some [48;46;48]); JStr [0;1]]); ([], JObj [])],
     [true; true; true; true; true; true; true; false]) /\
  jv_equal (fst (run_history h ex_a)) ex_b = true.
Proof. vm_compute. split; reflexivity. Qed.

(* callbacks: answer 2 for containers and on every second call, tag-carrying nodes answered 2;
   and one that fails at the fourth call *)
Definition ex_env : cb_env :=
  mk_env (fun h c => match c_src c with
                     | JArr _ | JObj _ => CbComplete
                     | _ => if Z.even (zlen h) then CbComplete else CbCreated
                     end)
         (fun h c => match c_src c with JObj _ => true | _ => false end).
Definition ex_env_fail : cb_env :=
  mk_env (fun h c => if zlen h =? 3 then CbError else CbCreated) (fun _ _ => false).

Example ex_cb :
  cb_never_fails ex_env /\
  (exists h, deep_copy_cb_root ex_env ex_a = (Some ex_a, h) /\ zlen h = 6) /\
  (exists h, deep_copy_cb_root ex_env_fail ex_a = (None, h) /\ zlen h = 4) /\
  fst (deep_copy_cb_root (mk_env (fun _ _ => CbCreated) (fun _ c => match c_src c with JArr _ => true | _ => false end)) ex_a) = None.
Proof.
  split; [|split; [|split]].
  - split; intros h c; cbn; destruct (c_src c); try destruct (Z.even (zlen h)); congruence.
  - eexists. split; [vm_compute; reflexivity|reflexivity].
  - eexists. split; [vm_compute; reflexivity|reflexivity].
  - vm_compute. reflexivity.
Qed.

(* a source that borrows two of its three member names from caller buffers 0 and 1 *)
Definition ex_msrc : mt :=
  MObj 0 [(([97], KBorrowed 0), MLeaf 1 (LInt 1));
          (([98], KBorrowed 1), MObj 2 [(([99], KOwn 3), MLeaf 4 (LStr [120]))]);
          (([100], KOwn 5), MNull)].
Example ex_keys :
  let cpy := fst (mt_copy ex_msrc 10) in
  mt_erase cpy = mt_erase ex_msrc /\
  key_stores ex_msrc = [KBorrowed 0; KBorrowed 1; KOwn 3; KOwn 5] /\
  key_stores cpy = [KOwn 12; KOwn 16; KOwn 15; KOwn 17] /\
  borrowed ex_msrc = [0; 1] /\ borrowed cpy = [] /\
  mt_erase (kbuf_write 0 [90] ex_msrc) <> mt_erase ex_msrc /\
  kbuf_write 0 [90] cpy = cpy.
Proof. vm_compute. repeat split. discriminate. Qed.

(* userdata: node 0 (an object) owns its text, node 1 points into caller buffer 7 with a NULL delete function *)
Definition ex_uanns : uanns :=
  [Some (mk_ud [60;117;48;62] (KOwn 8) true); Some (mk_ud [60;117;49;62] (KBorrowed 7) false); None; None].
Example ex_userdata :
  let cpy := fst (full_copy (ex_msrc, ex_uanns) 10) in
  ud_stores (snd cpy) = [KOwn 18; KOwn 19] /\
  ud_texts (snd cpy) = ud_texts ex_uanns /\
  ud_texts (ubuf_write 7 [90] ex_uanns) <> ud_texts ex_uanns /\
  ubuf_write 7 [90] (snd cpy) = snd cpy /\
  unreleased (snd cpy) = [19].
Proof. vm_compute. repeat split. discriminate. Qed.
